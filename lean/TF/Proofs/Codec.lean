import TF.Model.Codec
/-!
Helper lemmas for the codec properties (C03, C13, C14): combinator-level facts about `encodeItems`,
`decodeChunks`, `decodeDyn`, `decodeItem`, and the mutual inductions over the type grammar.
Core Lean only.
-/
namespace TF.Codec

/-! ### outcomes -/
namespace Outcome
@[simp] theorem map_ok {α β} (f : α → β) (a : α) : (Outcome.ok a).map f = .ok (f a) := rfl
@[simp] theorem map_err {α β} (f : α → β) (k : Err) : (Outcome.err k : Outcome α).map f = .err k := rfl
@[simp] theorem map_panic {α β} (f : α → β) : (Outcome.panic : Outcome α).map f = .panic := rfl
theorem map_eq_ok {α β} {f : α → β} {x : Outcome α} {b : β} : x.map f = .ok b ↔ ∃ a, x = .ok a ∧ f a = b := by
  cases x <;> simp [map]
theorem map_eq_panic {α β} {f : α → β} {x : Outcome α} : x.map f = .panic ↔ x = .panic := by
  cases x <;> simp [map]
end Outcome

/-! ### values -/
theorem isNumBelow_iff {b : Nat} {v : Val} : isNumBelow b v = true ↔ ∃ n, v = .num n ∧ n < b := by
  cases v <;> simp [isNumBelow]

@[simp] theorem prefixed_false (e : List Nat) : prefixed false e = e := rfl
@[simp] theorem prefixed_true (e : List Nat) : prefixed true e = e.length :: e := rfl
theorem prefixed_length (d : Bool) (e : List Nat) : (prefixed d e).length = e.length + (if d then 1 else 0) := by
  cases d <;> simp

@[simp] theorem encodeItems_nil (enc : Val → List Nat) (d : Bool) : encodeItems enc d [] = [] := rfl
@[simp] theorem encodeItems_cons (enc : Val → List Nat) (d : Bool) (v : Val) (vs : List Val) :
    encodeItems enc d (v :: vs) = prefixed d (enc v) ++ encodeItems enc d vs := rfl

theorem encodeItems_length_static (enc : Val → List Nat) (w : Nat) :
    ∀ vs : List Val, (∀ v ∈ vs, (enc v).length = w) → (encodeItems enc false vs).length = vs.length * w
  | [], _ => by simp
  | v :: vs, h => by
    have h1 := h v (by simp)
    have h2 := encodeItems_length_static enc w vs (fun x hx => h x (by simp [hx]))
    simp [h1, h2, Nat.add_mul]; omega

theorem encodeItems_congr {enc enc' : Val → List Nat} (d : Bool) :
    ∀ vs : List Val, (∀ v ∈ vs, enc v = enc' v) → encodeItems enc d vs = encodeItems enc' d vs
  | [], _ => rfl
  | v :: vs, h => by
    simp [h v (by simp), encodeItems_congr d vs (fun x hx => h x (by simp [hx]))]

theorem mem_encodeItems_length_le (enc : Val → List Nat) (d : Bool) :
    ∀ (vs : List Val) (v : Val), v ∈ vs → (enc v).length ≤ (encodeItems enc d vs).length
  | x :: xs, v, h => by
    simp only [List.mem_cons] at h
    simp only [encodeItems_cons, List.length_append, prefixed_length]
    rcases h with rfl | h
    · omega
    · have := mem_encodeItems_length_le enc d xs v h; omega

/-! ### static length -/
theorem variantsHaveWidth_cons {fs : List Ty} {rest : List (List Ty)} {w : Nat} :
    variantsHaveWidth (fs :: rest) w = true ↔ staticLengthSum fs = some w ∧ variantsHaveWidth rest w = true := by
  simp only [variantsHaveWidth, Bool.and_eq_true]
  cases staticLengthSum fs <;> simp

theorem staticLengthEnum_some {vars : List (List Ty)} {n : Nat} (h : staticLengthEnum vars = some n) :
    ∃ w, n = w + 1 ∧ variantsHaveWidth vars w = true := by
  cases vars with
  | nil => exact ⟨0, by simp [staticLengthEnum] at h; omega, rfl⟩
  | cons fs rest =>
    simp only [staticLengthEnum] at h
    split at h
    · rename_i w hw
      split at h
      · rename_i hv
        exact ⟨w, by simp at h; omega, variantsHaveWidth_cons.2 ⟨hw, hv⟩⟩
      · simp at h
    · simp at h

mutual
theorem encode_length_static : ∀ (t : Ty) (v : Val) (n : Nat),
    hasTy t v = true → staticLength t = some n → (encode t v).length = n
  | .bfe, v, n, _, hs => by simp [staticLength] at hs; simp [encode, ← hs]
  | .u8, v, n, _, hs => by simp [staticLength] at hs; simp [encode, ← hs]
  | .u16, v, n, _, hs => by simp [staticLength] at hs; simp [encode, ← hs]
  | .u32, v, n, _, hs => by simp [staticLength] at hs; simp [encode, ← hs]
  | .bool, v, n, _, hs => by simp [staticLength] at hs; simp [encode, ← hs]
  | .u64, v, n, _, hs => by simp [staticLength] at hs; simp [encode, ← hs]
  | .u128, v, n, _, hs => by simp [staticLength] at hs; simp [encode, ← hs]
  | .phantom, v, n, _, hs => by simp [staticLength] at hs; simp [encode, ← hs]
  | .box t, v, n, h, hs => by
    simp only [hasTy] at h; simp only [staticLength] at hs; simp only [encode]
    exact encode_length_static t v n h hs
  | .option t, v, n, _, hs => by simp [staticLength] at hs
  | .vec t, v, n, _, hs => by simp [staticLength] at hs
  | .poly t, v, n, _, hs => by simp [staticLength] at hs
  | .array k t, v, n, h, hs => by
    simp only [staticLength] at hs
    cases hw : staticLength t with
    | none => simp [hw] at hs
    | some w =>
      simp [hw] at hs
      cases v <;> simp [hasTy] at h
      rename_i vs
      simp only [encode, isDyn, hw, Option.isNone_some]
      rw [encodeItems_length_static _ w vs (fun x hx => encode_length_static t x w (h.2 x hx) hw)]
      rw [h.1, ← hs, Nat.mul_comm]
  | .tuple ts, v, n, h, hs => by
    cases v <;> simp [hasTy] at h
    simp only [staticLength] at hs; simp only [encode]
    exact encodeFields_length_static ts _ n h hs
  | .struct ts, v, n, h, hs => by
    cases v <;> simp [hasTy] at h
    simp only [staticLength] at hs; simp only [encode]
    exact encodeFields_length_static ts _ n h hs
  | .u32s k, v, n, h, hs => by
    simp [staticLength] at hs
    cases v <;> simp [hasTy] at h
    rename_i ls
    simp only [encode]
    rw [encodeItems_length_static _ 1 ls (fun x _ => by simp)]
    omega
  | .enum vars, v, n, h, hs => by
    simp only [staticLength] at hs
    obtain ⟨w, rfl, hw⟩ := staticLengthEnum_some hs
    cases v <;> simp [hasTy] at h
    rename_i k vs
    simp only [encode, List.length_cons]
    rw [encodeVariant_length_static vars k vs w h hw]
theorem encodeFields_length_static : ∀ (ts : List Ty) (vs : List Val) (n : Nat),
    hasTys ts vs = true → staticLengthSum ts = some n → (encodeFields ts vs).length = n
  | [], vs, n, _, hs => by simp [staticLengthSum] at hs; simp [encodeFields, ← hs]
  | t :: ts, vs, n, h, hs => by
    cases vs with
    | nil => simp [hasTys] at h
    | cons v vs =>
      simp only [hasTys, Bool.and_eq_true] at h
      simp only [staticLengthSum] at hs
      split at hs
      · rename_i a b ha hb
        simp at hs
        have h1 := encode_length_static t v a h.1 ha
        have h2 := encodeFields_length_static ts vs b h.2 hb
        simp [encodeFields, isDyn, ha, h1, h2]; omega
      · simp at hs
theorem encodeVariant_length_static : ∀ (vars : List (List Ty)) (k : Nat) (vs : List Val) (w : Nat),
    hasTyVariant vars k vs = true → variantsHaveWidth vars w = true → (encodeVariant vars k vs).length = w
  | [], k, vs, w, h, _ => by simp [hasTyVariant] at h
  | fs :: rest, k, vs, w, h, hw => by
    obtain ⟨hw1, hw2⟩ := variantsHaveWidth_cons.1 hw
    cases k with
    | zero =>
      simp only [hasTyVariant] at h
      simp only [encodeVariant]
      exact encodeFields_length_static fs vs w h hw1
    | succ k =>
      simp only [hasTyVariant] at h
      simp only [encodeVariant]
      exact encodeVariant_length_static rest k vs w h hw2
end

/-! ### round trip: `decode ∘ encode = ok` -/

theorem decodeChunks_encodeItems (enc : Val → List Nat) (dec : List Nat → Outcome Val) (w : Nat) :
    ∀ vs : List Val, (∀ v ∈ vs, dec (enc v) = .ok v ∧ (enc v).length = w) →
      decodeChunks dec w vs.length (encodeItems enc false vs) = .ok vs
  | [], _ => rfl
  | v :: vs, h => by
    obtain ⟨h1, h2⟩ := h v (by simp)
    have ih := decodeChunks_encodeItems enc dec w vs (fun x hx => h x (by simp [hx]))
    simp only [encodeItems_cons, prefixed_false, List.length_cons, decodeChunks]
    rw [List.take_left' h2, List.drop_left' h2, h1, ih]

theorem decodeDyn_encodeItems (enc : Val → List Nat) (dec : List Nat → Outcome Val) :
    ∀ (vs : List Val) (idx : Nat) (rest : List Nat), (∀ v ∈ vs, dec (enc v) = .ok v) →
      idx + (encodeItems enc true vs).length < 2^64 →
      decodeDyn dec vs.length idx (encodeItems enc true vs ++ rest) = .ok (vs, rest)
  | [], idx, rest, _, _ => rfl
  | v :: vs, idx, rest, h, hb => by
    have h1 := h v (by simp)
    simp only [encodeItems_cons, prefixed_true, List.length_cons, List.length_append] at hb
    have ih := decodeDyn_encodeItems enc dec vs (idx + 1 + (enc v).length) rest
      (fun x hx => h x (by simp [hx])) (by omega)
    simp only [encodeItems_cons, prefixed_true, List.length_cons, List.cons_append, List.append_assoc, decodeDyn]
    rw [if_neg (by omega), if_neg (by simp), List.take_left' rfl, List.drop_left' rfl, h1, ih]

theorem decodeItem_prefixed (dec : List Nat → Outcome Val) (sl : Option Nat) (v : Val) (e rest : List Nat)
    (hdec : dec e = .ok v) (hlen : ∀ n, sl = some n → e.length = n) :
    decodeItem dec sl (prefixed sl.isNone e ++ rest) = .ok (v, rest) := by
  unfold decodeItem
  cases sl with
  | some w =>
    have := hlen w rfl
    simp [this.symm, hdec]
  | none => simp [hdec]

theorem decodeLimbs_u64 (n : Nat) (h : n < 2^64) : decodeLimbs 2 [n % 2^32, n / 2^32 % 2^32] = .ok (.num n) := by
  have e : limbsValue [n % 2^32, n / 2^32 % 2^32] = n := by simp [limbsValue]; omega
  have a : ([n % 2^32, n / 2^32 % 2^32].any fun x => decide (x > 2^32 - 1)) = false := by
    simp; omega
  simp only [decodeLimbs, a, e]; simp

theorem decodeLimbs_u128 (n : Nat) (h : n < 2^128) :
    decodeLimbs 4 [n % 2^32, n / 2^32 % 2^32, n / 2^64 % 2^32, n / 2^96 % 2^32] = .ok (.num n) := by
  have e : limbsValue [n % 2^32, n / 2^32 % 2^32, n / 2^64 % 2^32, n / 2^96 % 2^32] = n := by
    simp [limbsValue]; omega
  have a : ([n % 2^32, n / 2^32 % 2^32, n / 2^64 % 2^32, n / 2^96 % 2^32].any fun x => decide (x > 2^32 - 1)) = false := by
    simp; omega
  simp only [decodeLimbs, a, e]; simp


theorem decodeU32Limbs_encode : ∀ ls : List Val, ls.all (isNumBelow (2^32)) = true →
    decodeU32Limbs (encodeItems (fun x => [numOf x]) false ls) = .ok ls
  | [], _ => rfl
  | l :: ls, h => by
    simp only [List.all_cons, Bool.and_eq_true] at h
    obtain ⟨n, rfl, hn⟩ := isNumBelow_iff.1 h.1
    have ih := decodeU32Limbs_encode ls h.2
    show decodeU32Limbs (n :: encodeItems (fun x => [numOf x]) false ls) = _
    simp only [decodeU32Limbs, if_pos hn, ih]

theorem normalize_of_not_lastIsZero : ∀ cs : List Val, lastIsZero cs = false → normalize cs = cs
  | [], _ => rfl
  | [c], h => by
    simp [lastIsZero] at h
    simp [normalize, h]
  | c :: d :: cs, h => by
    have h' : lastIsZero (d :: cs) = false := by
      simpa [lastIsZero, List.getLast?_cons_cons] using h
    have ih := normalize_of_not_lastIsZero (d :: cs) h'
    rw [normalize, ih]

theorem finishFields_ok (vs : List Val) : finishFields (.ok (vs, [])) = .ok vs := rfl

mutual
theorem decode_encode : ∀ (t : Ty) (v : Val), hasTy t v = true → noZW t = true → (encode t v).length < 2^64 →
    decode t (encode t v) = .ok v
  | .bfe, v, h, _, _ => by
    obtain ⟨n, rfl, hn⟩ := isNumBelow_iff.1 (by simpa [hasTy] using h); simp [encode, decode, numOf]
  | .u8, v, h, _, _ => by
    obtain ⟨n, rfl, hn⟩ := isNumBelow_iff.1 (by simpa [hasTy] using h)
    simp [encode, decode, decodeSmall, numOf]; omega
  | .u16, v, h, _, _ => by
    obtain ⟨n, rfl, hn⟩ := isNumBelow_iff.1 (by simpa [hasTy] using h)
    simp [encode, decode, decodeSmall, numOf]; omega
  | .u32, v, h, _, _ => by
    obtain ⟨n, rfl, hn⟩ := isNumBelow_iff.1 (by simpa [hasTy] using h)
    simp [encode, decode, decodeSmall, numOf]; omega
  | .bool, v, h, _, _ => by
    obtain ⟨n, rfl, hn⟩ := isNumBelow_iff.1 (by simpa [hasTy] using h)
    simp [encode, decode, decodeSmall, numOf]; omega
  | .u64, v, h, _, _ => by
    obtain ⟨n, rfl, hn⟩ := isNumBelow_iff.1 (by simpa [hasTy] using h)
    simp only [encode, decode, numOf]; exact decodeLimbs_u64 n hn
  | .u128, v, h, _, _ => by
    obtain ⟨n, rfl, hn⟩ := isNumBelow_iff.1 (by simpa [hasTy] using h)
    simp only [encode, decode, numOf]; exact decodeLimbs_u128 n hn
  | .phantom, v, h, _, _ => by
    cases v <;> simp [hasTy] at h
    simp [encode, decode]
  | .box t, v, h, hz, hb => by
    simp only [hasTy] at h; simp only [noZW] at hz; simp only [encode] at hb ⊢; simp only [decode]
    exact decode_encode t v h hz hb
  | .option t, v, h, hz, hb => by
    simp only [noZW] at hz
    cases v <;> simp [hasTy] at h
    rename_i o
    cases o with
    | none => simp [encode, decode]
    | some x =>
      simp only [encode, List.length_cons] at hb
      have := decode_encode t x (by simpa using h) hz (by omega)
      simp [encode, decode, this]
  | .vec t, v, h, hz, hb => by
    cases v <;> simp [hasTy] at h
    rename_i vs
    simp only [noZW, Bool.and_eq_true, bne_iff_ne, ne_eq] at hz
    simp only [encode, List.length_cons] at hb
    have hitem : ∀ x ∈ vs, decode t (encode t x) = .ok x := fun x hx =>
      decode_encode t x (h x hx) hz.1 (by
        have := mem_encodeItems_length_le (fun x => encode t x) (isDyn t) vs x hx; omega)
    simp only [encode, decode, decodeVec]
    cases hs : staticLength t with
    | some w =>
      have hw : w ≠ 0 := by intro h0; apply hz.2; rw [hs, h0]
      have hlen : ∀ x ∈ vs, (encode t x).length = w := fun x hx => encode_length_static t x w (h x hx) hs
      have hL := encodeItems_length_static (fun x => encode t x) w vs hlen
      simp only [isDyn, hs, Option.isNone_some] at hb hL ⊢
      simp only [decodeList]
      rw [if_neg (by omega), if_neg (by omega), if_neg (by omega), if_neg hw,
        decodeChunks_encodeItems _ _ w vs (fun x hx => ⟨hitem x hx, hlen x hx⟩)]
      rfl
    | none =>
      simp only [isDyn, hs, Option.isNone_none] at hb ⊢
      have := decodeDyn_encodeItems (fun x => encode t x) (fun c => decode t c) vs 0 [] hitem (by omega)
      simp only [List.append_nil] at this
      simp only [decodeList, this]
      rfl
  | .array k t, v, h, hz, hb => by
    cases v <;> simp [hasTy] at h
    rename_i vs
    obtain ⟨hk, h⟩ := h
    simp only [noZW, Bool.and_eq_true, bne_iff_ne, ne_eq] at hz
    simp only [encode] at hb
    have hitem : ∀ x ∈ vs, decode t (encode t x) = .ok x := fun x hx =>
      decode_encode t x (h x hx) hz.1 (by
        have := mem_encodeItems_length_le (fun x => encode t x) (isDyn t) vs x hx; omega)
    simp only [encode, decode]
    cases hs : staticLength t with
    | some w =>
      have hw : w ≠ 0 := by intro h0; apply hz.2; rw [hs, h0]
      have hlen : ∀ x ∈ vs, (encode t x).length = w := fun x hx => encode_length_static t x w (h x hx) hs
      have hL := encodeItems_length_static (fun x => encode t x) w vs hlen
      simp only [isDyn, hs, Option.isNone_some] at hb hL ⊢
      have hne : ¬ (k > 0 ∧ (encodeItems (fun x => encode t x) false vs).isEmpty = true) := by
        rw [List.isEmpty_iff_length_eq_zero, hL, hk]
        intro ⟨h1, h2⟩
        rcases Nat.mul_eq_zero.1 h2 with h3 | h3 <;> omega
      rw [if_neg hne]
      simp only [decodeList]
      subst hk
      rw [if_neg (by omega), if_neg (by omega), if_neg (by omega), if_neg hw,
        decodeChunks_encodeItems _ _ w vs (fun x hx => ⟨hitem x hx, hlen x hx⟩)]
      rfl
    | none =>
      simp only [isDyn, hs, Option.isNone_none] at hb ⊢
      have := decodeDyn_encodeItems (fun x => encode t x) (fun c => decode t c) vs 0 [] hitem (by omega)
      simp only [List.append_nil] at this
      have hne : ¬ (k > 0 ∧ (encodeItems (fun x => encode t x) true vs).isEmpty = true) := by
        intro ⟨h1, h2⟩
        cases vs with
        | nil => simp at hk; omega
        | cons x xs => simp at h2
      rw [if_neg hne]
      subst hk
      simp only [decodeList, this]
      rfl
  | .tuple ts, v, h, hz, hb => by
    cases v <;> simp [hasTy] at h
    rename_i vs
    simp only [noZW] at hz
    simp only [encode] at hb ⊢
    have := decodeFields_encodeFields ts vs [] h hz (by simpa using hb)
    simp only [List.append_nil] at this
    simp only [decode, this, finishFields_ok]; rfl
  | .struct ts, v, h, hz, hb => by
    cases v <;> simp [hasTy] at h
    rename_i vs
    simp only [noZW] at hz
    simp only [encode] at hb ⊢
    have := decodeFields_encodeFields ts vs [] h hz (by simpa using hb)
    simp only [List.append_nil] at this
    simp only [decode, this, finishFields_ok]; rfl
  | .poly t, v, h, hz, hb => by
    cases v <;> simp [hasTy] at h
    rename_i cs
    obtain ⟨h, hnz⟩ := h
    simp only [noZW, Bool.and_eq_true, bne_iff_ne, ne_eq] at hz
    have hnorm := normalize_of_not_lastIsZero cs hnz
    simp only [encode, hnorm, List.length_cons] at hb
    have hitem : ∀ x ∈ cs, decode t (encode t x) = .ok x := fun x hx =>
      decode_encode t x (h x hx) hz.1 (by
        have := mem_encodeItems_length_le (fun x => encode t x) (isDyn t) cs x hx; omega)
    simp only [encode, hnorm, decode, List.length_cons]
    rw [if_neg (by omega), if_neg (by omega)]
    simp only [decodeVec]
    cases hs : staticLength t with
    | some w =>
      have hw : w ≠ 0 := by intro h0; apply hz.2; rw [hs, h0]
      have hlen : ∀ x ∈ cs, (encode t x).length = w := fun x hx => encode_length_static t x w (h x hx) hs
      have hL := encodeItems_length_static (fun x => encode t x) w cs hlen
      simp only [isDyn, hs, Option.isNone_some] at hb hL ⊢
      simp only [decodeList]
      rw [if_neg (by omega), if_neg (by omega), if_neg (by omega), if_neg hw,
        decodeChunks_encodeItems _ _ w cs (fun x hx => ⟨hitem x hx, hlen x hx⟩)]
      simp [hnz]
    | none =>
      simp only [isDyn, hs, Option.isNone_none] at hb ⊢
      have := decodeDyn_encodeItems (fun x => encode t x) (fun c => decode t c) cs 0 [] hitem (by omega)
      simp only [List.append_nil] at this
      simp only [decodeList, this]
      simp [hnz]
  | .u32s k, v, h, _hz, _hb => by
    cases v <;> simp [hasTy] at h
    rename_i ls
    obtain ⟨hk, h⟩ := h
    have hL := encodeItems_length_static (fun x => [numOf x]) 1 ls (fun x _ => by simp)
    rw [show encode (.u32s k) (.list ls) = encodeItems (fun x => [numOf x]) false ls from by simp only [encode]]
    simp only [decode]
    have hne : ¬ (k > 0 ∧ (encodeItems (fun x => [numOf x]) false ls).isEmpty = true) := by
      rw [List.isEmpty_iff_length_eq_zero, hL]; omega
    rw [if_neg hne, if_neg (by omega), if_neg (by omega), decodeU32Limbs_encode ls (by simpa using h)]
    rfl
  | .enum vars, v, h, hz, hb => by
    cases v <;> simp [hasTy] at h
    rename_i k vs
    simp only [noZW] at hz
    simp only [encode, List.length_cons] at hb
    have := decodeVariant_encodeVariant vars k vs h hz (by omega)
    simp only [encode, decode, this]; rfl
theorem decodeFields_encodeFields : ∀ (ts : List Ty) (vs : List Val) (rest : List Nat),
    hasTys ts vs = true → noZWs ts = true → (encodeFields ts vs).length < 2^64 →
    decodeFields ts (encodeFields ts vs ++ rest) = .ok (vs, rest)
  | [], vs, rest, h, _, _ => by
    cases vs <;> simp [hasTys] at h
    simp [encodeFields, decodeFields]
  | t :: ts, vs, rest, h, hz, hb => by
    cases vs with
    | nil => simp [hasTys] at h
    | cons v vs =>
      simp only [hasTys, Bool.and_eq_true] at h
      simp only [noZWs, Bool.and_eq_true] at hz
      simp only [encodeFields, List.length_append, prefixed_length] at hb
      have ih := decodeFields_encodeFields ts vs (prefixed (isDyn t) (encode t v) ++ rest) h.2 hz.2 (by omega)
      have hv := decode_encode t v h.1 hz.1 (by omega)
      have hitem := decodeItem_prefixed (fun c => decode t c) (staticLength t) v (encode t v) rest hv
        (fun n hn => encode_length_static t v n h.1 hn)
      simp only [encodeFields, decodeFields, List.append_assoc, ih]
      simp only [isDyn] at hitem ⊢
      rw [hitem]
theorem decodeVariant_encodeVariant : ∀ (vars : List (List Ty)) (k : Nat) (vs : List Val),
    hasTyVariant vars k vs = true → noZWss vars = true → (encodeVariant vars k vs).length < 2^64 →
    decodeVariant vars k (encodeVariant vars k vs) = .ok vs
  | [], k, vs, h, _, _ => by simp [hasTyVariant] at h
  | fs :: rest, k, vs, h, hz, hb => by
    simp only [noZWss, Bool.and_eq_true] at hz
    cases k with
    | zero =>
      simp only [hasTyVariant] at h
      simp only [encodeVariant] at hb ⊢
      have := decodeFields_encodeFields fs vs [] h hz.1 hb
      simp only [List.append_nil] at this
      simp only [decodeVariant, this, finishFields_ok]
    | succ k =>
      simp only [hasTyVariant] at h
      simp only [encodeVariant] at hb ⊢
      simp only [decodeVariant]
      exact decodeVariant_encodeVariant rest k vs h hz.2 hb
end


/-! ### uniqueness: an accepted sequence is the encoding of the decoded value -/

theorem decodeChunks_ok (enc : Val → List Nat) (dec : List Nat → Outcome Val) (w : Nat)
    (hinv : ∀ c v, dec c = .ok v → enc v = c) :
    ∀ (n : Nat) (s : List Nat) (vs : List Val), decodeChunks dec w n s = .ok vs → s.length = n * w →
      encodeItems enc false vs = s ∧ vs.length = n
  | 0, s, vs, h, hl => by
    simp only [decodeChunks, Outcome.ok.injEq] at h
    subst h
    simp only [Nat.zero_mul, List.length_eq_zero_iff] at hl
    simp [hl]
  | n + 1, s, vs, h, hl => by
    simp only [decodeChunks] at h
    split at h
    · rename_i v hv
      split at h
      · rename_i vs' hvs
        simp only [Outcome.ok.injEq] at h
        subst h
        have ih := decodeChunks_ok enc dec w hinv n (s.drop w) vs' hvs (by
          simp only [List.length_drop, hl, Nat.add_mul]; omega)
        have e := hinv _ _ hv
        simp [e, ih.1, ih.2]
      · simp at h
      · simp at h
    · simp at h
    · simp at h

theorem decodeDyn_ok (enc : Val → List Nat) (dec : List Nat → Outcome Val)
    (hinv : ∀ c v, dec c = .ok v → enc v = c) :
    ∀ (n idx : Nat) (s : List Nat) (vs : List Val) (r : List Nat), decodeDyn dec n idx s = .ok (vs, r) →
      encodeItems enc true vs ++ r = s ∧ vs.length = n
  | 0, idx, s, vs, r, h => by
    simp only [decodeDyn, Outcome.ok.injEq, Prod.mk.injEq] at h
    obtain ⟨rfl, rfl⟩ := h
    simp
  | n + 1, idx, s, vs, r, h => by
    cases s with
    | nil => simp [decodeDyn] at h
    | cons len rest =>
      simp only [decodeDyn] at h
      split at h
      · simp at h
      · split at h
        · simp at h
        · rename_i hlen
          split at h
          · rename_i v hv
            split at h
            · rename_i vs' r' hvs
              simp only [Outcome.ok.injEq, Prod.mk.injEq] at h
              obtain ⟨rfl, rfl⟩ := h
              have ih := decodeDyn_ok enc dec hinv n _ _ vs' r' hvs
              have e := hinv _ _ hv
              have hl : (List.take len rest).length = len := by simp; omega
              simp only [encodeItems_cons, prefixed_true, e, hl, List.cons_append, List.append_assoc, ih.1,
                List.take_append_drop, List.length_cons, ih.2, and_self]
            · simp at h
            · simp at h
          · simp at h
          · simp at h

theorem decodeList_ok (enc : Val → List Nat) (dec : List Nat → Outcome Val) (sl : Option Nat)
    (hinv : ∀ c v, dec c = .ok v → enc v = c) (n : Nat) (s : List Nat) (vs : List Val)
    (h : decodeList dec sl n s = .ok vs) : encodeItems enc sl.isNone vs = s ∧ vs.length = n := by
  unfold decodeList at h
  cases sl with
  | some w =>
    simp only at h
    split at h
    · simp at h
    · split at h
      · simp at h
      · split at h
        · simp at h
        · split at h
          · simp at h
          · exact decodeChunks_ok enc dec w hinv n s vs h (by omega)
  | none =>
    simp only at h
    split at h
    · rename_i vs' hd
      simp only [Outcome.ok.injEq] at h
      subst h
      have := decodeDyn_ok enc dec hinv n 0 s _ _ hd
      simpa using this
    · simp at h
    · simp at h
    · simp at h

theorem decodeItem_ok (enc : Val → List Nat) (dec : List Nat → Outcome Val) (sl : Option Nat)
    (hinv : ∀ c v, dec c = .ok v → enc v = c) (s : List Nat) (v : Val) (r : List Nat)
    (h : decodeItem dec sl s = .ok (v, r)) : prefixed sl.isNone (enc v) ++ r = s := by
  unfold decodeItem at h
  cases sl with
  | some w =>
    simp only at h
    split at h
    · simp at h
    · split at h
      · rename_i v' hv
        simp only [Outcome.ok.injEq, Prod.mk.injEq] at h
        obtain ⟨rfl, rfl⟩ := h
        simp [hinv _ _ hv]
      · simp at h
      · simp at h
  | none =>
    cases s with
    | nil => simp at h
    | cons len rest =>
      simp only at h
      split at h
      · simp at h
      · split at h
        · rename_i v' hv
          simp only [Outcome.ok.injEq, Prod.mk.injEq] at h
          obtain ⟨rfl, rfl⟩ := h
          have hl : (List.take len rest).length = len := by simp; omega
          simp [hinv _ _ hv, hl]
        · simp at h
        · simp at h

theorem decodeSmall_ok {b : Nat} {s : List Nat} {v : Val} (h : decodeSmall b s = .ok v) :
    ∃ x, s = [x] ∧ v = .num x ∧ x < b := by
  unfold decodeSmall at h
  split at h
  · simp at h
  · rename_i x
    split at h
    · simp at h; exact ⟨x, rfl, h.symm, by assumption⟩
    · simp at h
  · simp at h

theorem decodeLimbs_ok {k : Nat} {s : List Nat} {v : Val} (h : decodeLimbs k s = .ok v) :
    s.length = k ∧ (∀ x ∈ s, x < 2^32) ∧ v = .num (limbsValue s) := by
  unfold decodeLimbs at h
  split at h
  · simp at h
  · split at h
    · simp at h
    · split at h
      · simp at h
      · split at h
        · simp at h
        · rename_i h1 h2 h3 h4
          simp only [Outcome.ok.injEq] at h
          refine ⟨by omega, ?_, h.symm⟩
          intro x hx
          simp only [List.any_eq_true, decide_eq_true_eq, not_exists, not_and] at h4
          have := h4 x hx
          omega

@[simp] theorem numOf_num (n : Nat) : numOf (.num n) = n := rfl

theorem decodeU32Limbs_ok : ∀ (s : List Nat) (vs : List Val), decodeU32Limbs s = .ok vs →
    encodeItems (fun x => [numOf x]) false vs = s ∧ vs.all (isNumBelow (2^32)) = true ∧ vs.length = s.length
  | [], vs, h => by simp [decodeU32Limbs] at h; subst h; simp
  | x :: xs, vs, h => by
    simp only [decodeU32Limbs] at h
    split at h
    · rename_i hx
      split at h
      · rename_i vs' hvs
        simp only [Outcome.ok.injEq] at h
        subst h
        have ih := decodeU32Limbs_ok xs vs' hvs
        simp [ih.1, ih.2.1, ih.2.2, isNumBelow, hx]
      · simp at h
      · simp at h
    · simp at h

theorem finishFields_eq_ok {r : Outcome (List Val × List Nat)} {vs : List Val} (h : finishFields r = .ok vs) :
    r = .ok (vs, []) := by
  unfold finishFields at h
  split at h <;> simp at h
  subst h; rfl


theorem list_length_two {α} {l : List α} (h : l.length = 2) : ∃ a b, l = [a, b] := by
  match l, h with
  | [a, b], _ => exact ⟨a, b, rfl⟩
theorem list_length_four {α} {l : List α} (h : l.length = 4) : ∃ a b c d, l = [a, b, c, d] := by
  match l, h with
  | [a, b, c, d], _ => exact ⟨a, b, c, d, rfl⟩

theorem decodeVec_ok (enc : Val → List Nat) (dec : List Nat → Outcome Val) (sl : Option Nat)
    (hinv : ∀ c v, dec c = .ok v → enc v = c) (s : List Nat) (vs : List Val)
    (h : decodeVec dec sl s = .ok vs) : vs.length :: encodeItems enc sl.isNone vs = s := by
  cases s with
  | nil => simp [decodeVec] at h
  | cons n rest =>
    simp only [decodeVec] at h
    have := decodeList_ok enc dec sl hinv n rest vs h
    rw [this.1, this.2]

mutual
theorem encode_decode : ∀ (t : Ty) (s : List Nat) (v : Val), decode t s = .ok v → encode t v = s
  | .bfe, s, v, h => by
    simp only [decode] at h
    split at h <;> simp at h
    subst h; simp [encode]
  | .u8, s, v, h => by
    obtain ⟨x, rfl, rfl, _⟩ := decodeSmall_ok (by simpa only [decode] using h); simp [encode]
  | .u16, s, v, h => by
    obtain ⟨x, rfl, rfl, _⟩ := decodeSmall_ok (by simpa only [decode] using h); simp [encode]
  | .u32, s, v, h => by
    obtain ⟨x, rfl, rfl, _⟩ := decodeSmall_ok (by simpa only [decode] using h); simp [encode]
  | .bool, s, v, h => by
    obtain ⟨x, rfl, rfl, _⟩ := decodeSmall_ok (by simpa only [decode] using h); simp [encode]
  | .u64, s, v, h => by
    obtain ⟨hl, hx, rfl⟩ := decodeLimbs_ok (by simpa only [decode] using h)
    obtain ⟨a, b, rfl⟩ := list_length_two hl
    have ha := hx a (by simp); have hb := hx b (by simp)
    simp only [encode, numOf_num, limbsValue]
    congr 1
    · omega
    · congr 1; omega
  | .u128, s, v, h => by
    obtain ⟨hl, hx, rfl⟩ := decodeLimbs_ok (by simpa only [decode] using h)
    obtain ⟨a, b, c, d, rfl⟩ := list_length_four hl
    have ha := hx a (by simp); have hb := hx b (by simp); have hc := hx c (by simp); have hd := hx d (by simp)
    simp only [encode, numOf_num, limbsValue]
    congr 1
    · omega
    · congr 1
      · omega
      · congr 1
        · omega
        · congr 1; omega
  | .phantom, s, v, h => by
    simp only [decode] at h
    split at h <;> simp at h
    subst h; simp [encode]
  | .box t, s, v, h => by
    simp only [decode] at h; simp only [encode]; exact encode_decode t s v h
  | .option t, s, v, h => by
    cases s with
    | nil => simp [decode] at h
    | cons tag rest =>
      simp only [decode] at h
      split at h
      · rename_i htag
        split at h <;> simp at h
        subst h; simp [encode, htag]
      · split at h
        · rename_i htag
          split at h
          · rename_i v' hv
            simp only [Outcome.ok.injEq] at h
            subst h
            simp [encode, encode_decode t rest v' hv, htag]
          · simp at h
          · simp at h
        · simp at h
  | .vec t, s, v, h => by
    simp only [decode] at h
    obtain ⟨vs, hvs, rfl⟩ := Outcome.map_eq_ok.1 h
    simp only [encode, isDyn]
    exact decodeVec_ok (fun x => encode t x) (fun c => decode t c) (staticLength t)
      (fun c v hc => encode_decode t c v hc) s vs hvs
  | .array n t, s, v, h => by
    simp only [decode] at h
    split at h
    · simp at h
    · obtain ⟨vs, hvs, rfl⟩ := Outcome.map_eq_ok.1 h
      simp only [encode, isDyn]
      exact (decodeList_ok (fun x => encode t x) (fun c => decode t c) (staticLength t)
        (fun c v hc => encode_decode t c v hc) n s vs hvs).1
  | .tuple ts, s, v, h => by
    simp only [decode] at h
    obtain ⟨vs, hvs, rfl⟩ := Outcome.map_eq_ok.1 h
    have := encodeFields_decodeFields ts s vs [] (finishFields_eq_ok hvs)
    simpa [encode] using this
  | .struct ts, s, v, h => by
    simp only [decode] at h
    obtain ⟨vs, hvs, rfl⟩ := Outcome.map_eq_ok.1 h
    have := encodeFields_decodeFields ts s vs [] (finishFields_eq_ok hvs)
    simpa [encode] using this
  | .poly t, s, v, h => by
    cases s with
    | nil => simp [decode] at h
    | cons ind rest =>
      simp only [decode, List.length_cons] at h
      split at h
      · simp at h
      · split at h
        · simp at h
        · split at h
          · rename_i cs hcs
            split at h
            · simp at h
            · rename_i hz
              simp only [Outcome.ok.injEq] at h
              subst h
              have := decodeVec_ok (fun x => encode t x) (fun c => decode t c) (staticLength t)
                (fun c v hc => encode_decode t c v hc) rest cs hcs
              have hn := normalize_of_not_lastIsZero cs (by simpa using hz)
              simp only [encode, hn, isDyn, this]
              congr 1; omega
          · simp at h
          · simp at h
  | .u32s n, s, v, h => by
    simp only [decode] at h
    split at h
    · simp at h
    · split at h
      · simp at h
      · split at h
        · simp at h
        · obtain ⟨vs, hvs, rfl⟩ := Outcome.map_eq_ok.1 h
          simp only [encode]
          exact (decodeU32Limbs_ok s vs hvs).1
  | .enum vars, s, v, h => by
    cases s with
    | nil => simp [decode] at h
    | cons d rest =>
      simp only [decode] at h
      obtain ⟨vs, hvs, rfl⟩ := Outcome.map_eq_ok.1 h
      simp only [encode, encodeVariant_decodeVariant vars d rest vs hvs]
theorem encodeFields_decodeFields : ∀ (ts : List Ty) (s : List Nat) (vs : List Val) (r : List Nat),
    decodeFields ts s = .ok (vs, r) → encodeFields ts vs ++ r = s
  | [], s, vs, r, h => by
    simp only [decodeFields, Outcome.ok.injEq, Prod.mk.injEq] at h
    obtain ⟨rfl, rfl⟩ := h
    simp [encodeFields]
  | t :: ts, s, vs, r, h => by
    simp only [decodeFields] at h
    split at h
    · rename_i vs' s' hfs
      split at h
      · rename_i v r' hitem
        simp only [Outcome.ok.injEq, Prod.mk.injEq] at h
        obtain ⟨rfl, rfl⟩ := h
        have ih := encodeFields_decodeFields ts s vs' s' hfs
        have hi := decodeItem_ok (fun x => encode t x) (fun c => decode t c) (staticLength t)
          (fun c v hc => encode_decode t c v hc) s' v r' hitem
        simp only [encodeFields, isDyn, List.append_assoc, hi, ih]
      · simp at h
      · simp at h
    · simp at h
    · simp at h
theorem encodeVariant_decodeVariant : ∀ (vars : List (List Ty)) (d : Nat) (s : List Nat) (vs : List Val),
    decodeVariant vars d s = .ok vs → encodeVariant vars d vs = s
  | [], d, s, vs, h => by simp [decodeVariant] at h
  | fs :: rest, d, s, vs, h => by
    cases d with
    | zero =>
      simp only [decodeVariant] at h
      have := encodeFields_decodeFields fs s vs [] (finishFields_eq_ok h)
      simpa [encodeVariant] using this
    | succ d =>
      simp only [decodeVariant] at h
      simp only [encodeVariant]
      exact encodeVariant_decodeVariant rest d s vs h
end


/-! ### accepted sequences of canonical elements decode to well-typed values -/

/-- all elements are canonical field values -/
def Canon (s : List Nat) : Prop := ∀ x ∈ s, x < P
instance (s : List Nat) : Decidable (Canon s) := by unfold Canon; infer_instance

theorem Canon.take {s : List Nat} (h : Canon s) (k : Nat) : Canon (s.take k) :=
  fun x hx => h x (List.mem_of_mem_take hx)
theorem Canon.drop {s : List Nat} (h : Canon s) (k : Nat) : Canon (s.drop k) :=
  fun x hx => h x (List.mem_of_mem_drop hx)
theorem Canon.tail {a : Nat} {s : List Nat} (h : Canon (a :: s)) : Canon s :=
  fun x hx => h x (by simp [hx])
theorem Canon.head {a : Nat} {s : List Nat} (h : Canon (a :: s)) : a < P := h a (by simp)
theorem Canon.of_append_right {a b : List Nat} (h : Canon (a ++ b)) : Canon b :=
  fun x hx => h x (by simp [hx])
theorem Canon.nil : Canon [] := fun _ h => by simp at h

theorem decodeChunks_forall (Q : Val → Prop) (dec : List Nat → Outcome Val) (w : Nat)
    (hdec : ∀ c v, Canon c → dec c = .ok v → Q v) :
    ∀ (n : Nat) (s : List Nat) (vs : List Val), Canon s → decodeChunks dec w n s = .ok vs → ∀ v ∈ vs, Q v
  | 0, s, vs, _, h => by simp [decodeChunks] at h; subst h; simp
  | n + 1, s, vs, hc, h => by
    simp only [decodeChunks] at h
    split at h
    · rename_i v hv
      split at h
      · rename_i vs' hvs
        simp only [Outcome.ok.injEq] at h
        subst h
        have ih := decodeChunks_forall Q dec w hdec n (s.drop w) vs' (hc.drop w) hvs
        intro x hx
        simp only [List.mem_cons] at hx
        rcases hx with rfl | hx
        · exact hdec _ _ (hc.take w) hv
        · exact ih x hx
      · simp at h
      · simp at h
    · simp at h
    · simp at h

theorem decodeDyn_forall (Q : Val → Prop) (dec : List Nat → Outcome Val)
    (hdec : ∀ c v, Canon c → dec c = .ok v → Q v) :
    ∀ (n idx : Nat) (s : List Nat) (vs : List Val) (r : List Nat), Canon s →
      decodeDyn dec n idx s = .ok (vs, r) → ∀ v ∈ vs, Q v
  | 0, idx, s, vs, r, _, h => by
    simp only [decodeDyn, Outcome.ok.injEq, Prod.mk.injEq] at h
    obtain ⟨rfl, rfl⟩ := h
    simp
  | n + 1, idx, s, vs, r, hc, h => by
    cases s with
    | nil => simp [decodeDyn] at h
    | cons len rest =>
      simp only [decodeDyn] at h
      split at h
      · simp at h
      · split at h
        · simp at h
        · split at h
          · rename_i v hv
            split at h
            · rename_i vs' r' hvs
              simp only [Outcome.ok.injEq, Prod.mk.injEq] at h
              obtain ⟨rfl, rfl⟩ := h
              have ih := decodeDyn_forall Q dec hdec n _ _ vs' r' (hc.tail.drop len) hvs
              intro x hx
              simp only [List.mem_cons] at hx
              rcases hx with rfl | hx
              · exact hdec _ _ (hc.tail.take len) hv
              · exact ih x hx
            · simp at h
            · simp at h
          · simp at h
          · simp at h

theorem decodeList_forall (Q : Val → Prop) (dec : List Nat → Outcome Val) (sl : Option Nat)
    (hdec : ∀ c v, Canon c → dec c = .ok v → Q v) (n : Nat) (s : List Nat) (vs : List Val) (hc : Canon s)
    (h : decodeList dec sl n s = .ok vs) : ∀ v ∈ vs, Q v := by
  unfold decodeList at h
  cases sl with
  | some w =>
    simp only at h
    split at h
    · simp at h
    · split at h
      · simp at h
      · split at h
        · simp at h
        · split at h
          · simp at h
          · exact decodeChunks_forall Q dec w hdec n s vs hc h
  | none =>
    simp only at h
    split at h
    · rename_i vs' hd
      simp only [Outcome.ok.injEq] at h
      subst h
      exact decodeDyn_forall Q dec hdec n 0 s _ _ hc hd
    · simp at h
    · simp at h
    · simp at h

theorem decodeVec_forall (Q : Val → Prop) (dec : List Nat → Outcome Val) (sl : Option Nat)
    (hdec : ∀ c v, Canon c → dec c = .ok v → Q v) (s : List Nat) (vs : List Val) (hc : Canon s)
    (h : decodeVec dec sl s = .ok vs) : ∀ v ∈ vs, Q v := by
  cases s with
  | nil => simp [decodeVec] at h
  | cons n rest => exact decodeList_forall Q dec sl hdec n rest vs hc.tail h

theorem decodeItem_forall (Q : Val → Prop) (dec : List Nat → Outcome Val) (sl : Option Nat)
    (hdec : ∀ c v, Canon c → dec c = .ok v → Q v) (s : List Nat) (v : Val) (r : List Nat) (hc : Canon s)
    (h : decodeItem dec sl s = .ok (v, r)) : Q v ∧ Canon r := by
  unfold decodeItem at h
  cases sl with
  | some w =>
    simp only at h
    split at h
    · simp at h
    · split at h
      · rename_i v' hv
        simp only [Outcome.ok.injEq, Prod.mk.injEq] at h
        obtain ⟨rfl, rfl⟩ := h
        exact ⟨hdec _ _ (hc.take w) hv, hc.drop w⟩
      · simp at h
      · simp at h
  | none =>
    cases s with
    | nil => simp at h
    | cons len rest =>
      simp only at h
      split at h
      · simp at h
      · split at h
        · rename_i v' hv
          simp only [Outcome.ok.injEq, Prod.mk.injEq] at h
          obtain ⟨rfl, rfl⟩ := h
          exact ⟨hdec _ _ (hc.tail.take len) hv, hc.tail.drop len⟩
        · simp at h
        · simp at h

mutual
theorem decode_hasTy : ∀ (t : Ty) (s : List Nat) (v : Val), Canon s → decode t s = .ok v → hasTy t v = true
  | .bfe, s, v, hc, h => by
    simp only [decode] at h
    split at h <;> simp at h
    subst h; simp [hasTy, isNumBelow, hc.head]
  | .u8, s, v, _, h => by
    obtain ⟨x, rfl, rfl, hx⟩ := decodeSmall_ok (by simpa only [decode] using h); simp [hasTy, isNumBelow, hx]
  | .u16, s, v, _, h => by
    obtain ⟨x, rfl, rfl, hx⟩ := decodeSmall_ok (by simpa only [decode] using h); simp [hasTy, isNumBelow, hx]
  | .u32, s, v, _, h => by
    obtain ⟨x, rfl, rfl, hx⟩ := decodeSmall_ok (by simpa only [decode] using h); simp [hasTy, isNumBelow, hx]
  | .bool, s, v, _, h => by
    obtain ⟨x, rfl, rfl, hx⟩ := decodeSmall_ok (by simpa only [decode] using h); simp [hasTy, isNumBelow, hx]
  | .u64, s, v, _, h => by
    obtain ⟨hl, hx, rfl⟩ := decodeLimbs_ok (by simpa only [decode] using h)
    obtain ⟨a, b, rfl⟩ := list_length_two hl
    have ha := hx a (by simp); have hb := hx b (by simp)
    simp only [hasTy, isNumBelow, limbsValue]; apply decide_eq_true; omega
  | .u128, s, v, _, h => by
    obtain ⟨hl, hx, rfl⟩ := decodeLimbs_ok (by simpa only [decode] using h)
    obtain ⟨a, b, c, d, rfl⟩ := list_length_four hl
    have ha := hx a (by simp); have hb := hx b (by simp); have hc := hx c (by simp); have hd := hx d (by simp)
    simp only [hasTy, isNumBelow, limbsValue]; apply decide_eq_true; omega
  | .phantom, s, v, _, h => by
    simp only [decode] at h
    split at h <;> simp at h
    subst h; simp [hasTy]
  | .box t, s, v, hc, h => by
    simp only [decode] at h; simp only [hasTy]; exact decode_hasTy t s v hc h
  | .option t, s, v, hc, h => by
    cases s with
    | nil => simp [decode] at h
    | cons tag rest =>
      simp only [decode] at h
      split at h
      · split at h <;> simp at h
        subst h; simp [hasTy]
      · split at h
        · split at h
          · rename_i v' hv
            simp only [Outcome.ok.injEq] at h
            subst h
            simp [hasTy, decode_hasTy t rest v' hc.tail hv]
          · simp at h
          · simp at h
        · simp at h
  | .vec t, s, v, hc, h => by
    simp only [decode] at h
    obtain ⟨vs, hvs, rfl⟩ := Outcome.map_eq_ok.1 h
    simp only [hasTy, List.all_eq_true]
    exact decodeVec_forall (fun v => hasTy t v = true) (fun c => decode t c) (staticLength t)
      (fun c v hc hd => decode_hasTy t c v hc hd) s vs hc hvs
  | .array n t, s, v, hc, h => by
    simp only [decode] at h
    split at h
    · simp at h
    · obtain ⟨vs, hvs, rfl⟩ := Outcome.map_eq_ok.1 h
      have hlen := (decodeList_ok (fun x => encode t x) (fun c => decode t c) (staticLength t)
        (fun c v hc => encode_decode t c v hc) n s vs hvs).2
      simp only [hasTy, Bool.and_eq_true, beq_iff_eq, List.all_eq_true]
      exact ⟨hlen, decodeList_forall (fun v => hasTy t v = true) (fun c => decode t c) (staticLength t)
        (fun c v hc hd => decode_hasTy t c v hc hd) n s vs hc hvs⟩
  | .tuple ts, s, v, hc, h => by
    simp only [decode] at h
    obtain ⟨vs, hvs, rfl⟩ := Outcome.map_eq_ok.1 h
    simp only [hasTy]
    exact (decodeFields_hasTys ts s vs [] hc (finishFields_eq_ok hvs)).1
  | .struct ts, s, v, hc, h => by
    simp only [decode] at h
    obtain ⟨vs, hvs, rfl⟩ := Outcome.map_eq_ok.1 h
    simp only [hasTy]
    exact (decodeFields_hasTys ts s vs [] hc (finishFields_eq_ok hvs)).1
  | .poly t, s, v, hc, h => by
    cases s with
    | nil => simp [decode] at h
    | cons ind rest =>
      simp only [decode, List.length_cons] at h
      split at h
      · simp at h
      · split at h
        · simp at h
        · split at h
          · rename_i cs hcs
            split at h
            · simp at h
            · rename_i hz
              simp only [Outcome.ok.injEq] at h
              subst h
              simp only [hasTy, Bool.and_eq_true, List.all_eq_true, Bool.not_eq_true']
              exact ⟨decodeVec_forall (fun v => hasTy t v = true) (fun c => decode t c) (staticLength t)
                (fun c v hc hd => decode_hasTy t c v hc hd) rest cs hc.tail hcs, by simpa using hz⟩
          · simp at h
          · simp at h
  | .u32s n, s, v, _, h => by
    simp only [decode] at h
    split at h
    · simp at h
    · split at h
      · simp at h
      · split at h
        · simp at h
        · obtain ⟨vs, hvs, rfl⟩ := Outcome.map_eq_ok.1 h
          have := decodeU32Limbs_ok s vs hvs
          simp only [hasTy, Bool.and_eq_true, beq_iff_eq]
          exact ⟨by omega, this.2.1⟩
  | .enum vars, s, v, hc, h => by
    cases s with
    | nil => simp [decode] at h
    | cons d rest =>
      simp only [decode] at h
      obtain ⟨vs, hvs, rfl⟩ := Outcome.map_eq_ok.1 h
      simp only [hasTy]
      exact decodeVariant_hasTy vars d rest vs hc.tail hvs
theorem decodeFields_hasTys : ∀ (ts : List Ty) (s : List Nat) (vs : List Val) (r : List Nat), Canon s →
    decodeFields ts s = .ok (vs, r) → hasTys ts vs = true ∧ Canon r
  | [], s, vs, r, hc, h => by
    simp only [decodeFields, Outcome.ok.injEq, Prod.mk.injEq] at h
    obtain ⟨rfl, rfl⟩ := h
    exact ⟨by simp [hasTys], hc⟩
  | t :: ts, s, vs, r, hc, h => by
    simp only [decodeFields] at h
    split at h
    · rename_i vs' s' hfs
      split at h
      · rename_i v r' hitem
        simp only [Outcome.ok.injEq, Prod.mk.injEq] at h
        obtain ⟨rfl, rfl⟩ := h
        have ih := decodeFields_hasTys ts s vs' s' hc hfs
        have hi := decodeItem_forall (fun v => hasTy t v = true) (fun c => decode t c) (staticLength t)
          (fun c v hc hd => decode_hasTy t c v hc hd) s' v r' ih.2 hitem
        exact ⟨by simp [hasTys, hi.1, ih.1], hi.2⟩
      · simp at h
      · simp at h
    · simp at h
    · simp at h
theorem decodeVariant_hasTy : ∀ (vars : List (List Ty)) (d : Nat) (s : List Nat) (vs : List Val), Canon s →
    decodeVariant vars d s = .ok vs → hasTyVariant vars d vs = true
  | [], d, s, vs, _, h => by simp [decodeVariant] at h
  | fs :: rest, d, s, vs, hc, h => by
    cases d with
    | zero =>
      simp only [decodeVariant] at h
      simp only [hasTyVariant]
      exact (decodeFields_hasTys fs s vs [] hc (finishFields_eq_ok h)).1
    | succ d =>
      simp only [decodeVariant] at h
      simp only [hasTyVariant]
      exact decodeVariant_hasTy rest d s vs hc h
end


/-! ### totality: no panic on canonical sequences shorter than `2^32` (types without zero-width items) -/

/-- what a decoder can be handed: canonical elements, fewer than `2^32` of them -/
def Good (s : List Nat) : Prop := Canon s ∧ s.length < 2^32

theorem Good.take {s : List Nat} (h : Good s) (k : Nat) : Good (s.take k) :=
  ⟨h.1.take k, by have := h.2; simp only [List.length_take]; omega⟩
theorem Good.drop {s : List Nat} (h : Good s) (k : Nat) : Good (s.drop k) :=
  ⟨h.1.drop k, by have := h.2; simp only [List.length_drop]; omega⟩
theorem Good.tail {a : Nat} {s : List Nat} (h : Good (a :: s)) : Good s :=
  ⟨h.1.tail, by have := h.2; simp only [List.length_cons] at this; omega⟩
theorem Good.of_append_right {a b : List Nat} (h : Good (a ++ b)) : Good b :=
  ⟨h.1.of_append_right, by have := h.2; simp only [List.length_append] at this; omega⟩

theorem P_val : P = 18446744069414584321 := rfl

theorem decodeChunks_ne_panic (dec : List Nat → Outcome Val) (w : Nat)
    (hdec : ∀ c, Good c → dec c ≠ .panic) :
    ∀ (n : Nat) (s : List Nat), Good s → decodeChunks dec w n s ≠ .panic
  | 0, s, _ => by simp [decodeChunks]
  | n + 1, s, hg => by
    simp only [decodeChunks]
    have h1 := hdec _ (hg.take w)
    have ih := decodeChunks_ne_panic dec w hdec n (s.drop w) (hg.drop w)
    split
    · split <;> simp_all
    · simp
    · simp_all

theorem decodeDyn_ne_panic (dec : List Nat → Outcome Val) (hdec : ∀ c, Good c → dec c ≠ .panic) :
    ∀ (n idx : Nat) (s : List Nat), Good s → idx + s.length < 2^32 → decodeDyn dec n idx s ≠ .panic
  | 0, idx, s, _, _ => by simp [decodeDyn]
  | n + 1, idx, s, hg, hi => by
    cases s with
    | nil => simp [decodeDyn]
    | cons len rest =>
      simp only [decodeDyn]
      have hlen := hg.1.head
      rw [P_val] at hlen
      simp only [List.length_cons] at hi
      rw [if_neg (by omega)]
      split
      · simp
      · rename_i hl
        have h1 := hdec _ (hg.tail.take len)
        have ih := decodeDyn_ne_panic dec hdec n (idx + 1 + len) (rest.drop len) (hg.tail.drop len)
          (by simp only [List.length_drop]; omega)
        split
        · split <;> simp_all
        · simp
        · simp_all

theorem decodeList_ne_panic (dec : List Nat → Outcome Val) (sl : Option Nat) (hdec : ∀ c, Good c → dec c ≠ .panic)
    (hsl : sl ≠ some 0) (n : Nat) (s : List Nat) (hg : Good s) : decodeList dec sl n s ≠ .panic := by
  unfold decodeList
  cases sl with
  | some w =>
    simp only
    have hw : w ≠ 0 := fun h => hsl (by rw [h])
    have := decodeChunks_ne_panic dec w hdec n s hg
    split; · simp
    split; · simp
    split; · simp
    first | exact this | (rw [if_neg hw]; exact this)
  | none =>
    simp only
    have := decodeDyn_ne_panic dec hdec n 0 s hg (by have := hg.2; omega)
    split <;> simp_all

theorem decodeVec_ne_panic (dec : List Nat → Outcome Val) (sl : Option Nat) (hdec : ∀ c, Good c → dec c ≠ .panic)
    (hsl : sl ≠ some 0) (s : List Nat) (hg : Good s) : decodeVec dec sl s ≠ .panic := by
  cases s with
  | nil => simp [decodeVec]
  | cons n rest => exact decodeList_ne_panic dec sl hdec hsl n rest hg.tail

theorem decodeItem_ne_panic (dec : List Nat → Outcome Val) (sl : Option Nat) (hdec : ∀ c, Good c → dec c ≠ .panic)
    (s : List Nat) (hg : Good s) : decodeItem dec sl s ≠ .panic := by
  unfold decodeItem
  cases sl with
  | some w =>
    simp only
    have := hdec _ (hg.take w)
    split; · simp
    split <;> simp_all
  | none =>
    cases s with
    | nil => simp
    | cons len rest =>
      simp only
      have := hdec _ (hg.tail.take len)
      split; · simp
      split <;> simp_all

theorem decodeSmall_ne_panic (b : Nat) (s : List Nat) : decodeSmall b s ≠ .panic := by
  unfold decodeSmall; split; · simp
  · split <;> simp
  · simp
theorem decodeLimbs_ne_panic (k : Nat) (s : List Nat) : decodeLimbs k s ≠ .panic := by
  unfold decodeLimbs; split; · simp
  split; · simp
  split; · simp
  split <;> simp
theorem decodeU32Limbs_ne_panic : ∀ s : List Nat, decodeU32Limbs s ≠ .panic
  | [] => by simp [decodeU32Limbs]
  | x :: xs => by
    have := decodeU32Limbs_ne_panic xs
    simp only [decodeU32Limbs]
    split
    · split <;> simp_all
    · simp
theorem finishFields_ne_panic {r : Outcome (List Val × List Nat)} (h : r ≠ .panic) : finishFields r ≠ .panic := by
  unfold finishFields; split <;> simp_all

mutual
theorem decode_ne_panic : ∀ (t : Ty) (s : List Nat), noZW t = true → Good s → decode t s ≠ .panic
  | .bfe, s, _, _ => by simp only [decode]; split <;> simp
  | .u8, s, _, _ => by simp only [decode]; exact decodeSmall_ne_panic _ s
  | .u16, s, _, _ => by simp only [decode]; exact decodeSmall_ne_panic _ s
  | .u32, s, _, _ => by simp only [decode]; exact decodeSmall_ne_panic _ s
  | .bool, s, _, _ => by simp only [decode]; exact decodeSmall_ne_panic _ s
  | .u64, s, _, _ => by simp only [decode]; exact decodeLimbs_ne_panic _ s
  | .u128, s, _, _ => by simp only [decode]; exact decodeLimbs_ne_panic _ s
  | .phantom, s, _, _ => by simp only [decode]; split <;> simp
  | .box t, s, hz, hg => by
    simp only [noZW] at hz; simp only [decode]; exact decode_ne_panic t s hz hg
  | .option t, s, hz, hg => by
    simp only [noZW] at hz
    cases s with
    | nil => simp [decode]
    | cons tag rest =>
      simp only [decode]
      have := decode_ne_panic t rest hz hg.tail
      split
      · split <;> simp
      · split
        · split <;> simp_all
        · simp
  | .vec t, s, hz, hg => by
    simp only [noZW, Bool.and_eq_true, bne_iff_ne, ne_eq] at hz
    simp only [decode, ne_eq, Outcome.map_eq_panic]
    exact decodeVec_ne_panic _ _ (fun c hc => decode_ne_panic t c hz.1 hc) hz.2 s hg
  | .array n t, s, hz, hg => by
    simp only [noZW, Bool.and_eq_true, bne_iff_ne, ne_eq] at hz
    simp only [decode]
    split
    · simp
    · simp only [ne_eq, Outcome.map_eq_panic]
      exact decodeList_ne_panic _ _ (fun c hc => decode_ne_panic t c hz.1 hc) hz.2 n s hg
  | .tuple ts, s, hz, hg => by
    simp only [noZW] at hz
    simp only [decode, ne_eq, Outcome.map_eq_panic]
    exact finishFields_ne_panic (decodeFields_ne_panic ts s hz hg)
  | .struct ts, s, hz, hg => by
    simp only [noZW] at hz
    simp only [decode, ne_eq, Outcome.map_eq_panic]
    exact finishFields_ne_panic (decodeFields_ne_panic ts s hz hg)
  | .poly t, s, hz, hg => by
    simp only [noZW, Bool.and_eq_true, bne_iff_ne, ne_eq] at hz
    cases s with
    | nil => simp [decode]
    | cons ind rest =>
      simp only [decode]
      have := decodeVec_ne_panic _ _ (fun c hc => decode_ne_panic t c hz.1 hc) hz.2 rest hg.tail
      split; · simp
      split; · simp
      split
      · split <;> simp
      · simp
      · simp_all
  | .u32s n, s, _, _ => by
    simp only [decode]
    split; · simp
    split; · simp
    split; · simp
    simp only [ne_eq, Outcome.map_eq_panic]
    exact decodeU32Limbs_ne_panic s
  | .enum vars, s, hz, hg => by
    simp only [noZW] at hz
    cases s with
    | nil => simp [decode]
    | cons d rest =>
      simp only [decode, ne_eq, Outcome.map_eq_panic]
      exact decodeVariant_ne_panic vars d rest hz hg.tail
theorem decodeFields_ne_panic : ∀ (ts : List Ty) (s : List Nat), noZWs ts = true → Good s →
    decodeFields ts s ≠ .panic
  | [], s, _, _ => by simp [decodeFields]
  | t :: ts, s, hz, hg => by
    simp only [noZWs, Bool.and_eq_true] at hz
    simp only [decodeFields]
    have ih := decodeFields_ne_panic ts s hz.2 hg
    split
    · rename_i vs s' hfs
      have hs' : Good s' := by
        have := encodeFields_decodeFields ts s vs s' hfs
        rw [← this] at hg
        exact hg.of_append_right
      have := decodeItem_ne_panic _ (staticLength t) (fun c hc => decode_ne_panic t c hz.1 hc) s' hs'
      split <;> simp_all
    · simp
    · simp_all
theorem decodeVariant_ne_panic : ∀ (vars : List (List Ty)) (d : Nat) (s : List Nat), noZWss vars = true → Good s →
    decodeVariant vars d s ≠ .panic
  | [], d, s, _, _ => by simp [decodeVariant]
  | fs :: rest, d, s, hz, hg => by
    simp only [noZWss, Bool.and_eq_true] at hz
    cases d with
    | zero =>
      simp only [decodeVariant]
      exact finishFields_ne_panic (decodeFields_ne_panic fs s hz.1 hg)
    | succ d =>
      simp only [decodeVariant]
      exact decodeVariant_ne_panic rest d s hz.2 hg
end


/-! ### resource bound: the decoded value is at most linear in the sequence length -/

theorem size_step {a K L M : Nat} (h : a ≤ K * L) (hL : L ≤ M) (hM : 1 ≤ M) : 1 + a ≤ (1 + K) * M := by
  have := Nat.mul_le_mul_left K hL
  rw [Nat.add_mul]; omega

theorem decodeChunks_size (dec : List Nat → Outcome Val) (w K : Nat) (hw : 0 < w)
    (hdec : ∀ c v, dec c = .ok v → v.size ≤ K * max 1 c.length) :
    ∀ (n : Nat) (s : List Nat) (vs : List Val), decodeChunks dec w n s = .ok vs → s.length = n * w →
      Val.sizes vs ≤ K * s.length
  | 0, s, vs, h, _ => by simp [decodeChunks] at h; subst h; simp [Val.sizes]
  | n + 1, s, vs, h, hl => by
    simp only [decodeChunks] at h
    split at h
    · rename_i v hv
      split at h
      · rename_i vs' hvs
        simp only [Outcome.ok.injEq] at h
        subst h
        have hlw : w ≤ s.length := by rw [hl, Nat.add_mul]; omega
        have ih := decodeChunks_size dec w K hw hdec n (s.drop w) vs' hvs (by
          simp only [List.length_drop, hl, Nat.add_mul]; omega)
        have h1 := hdec _ _ hv
        have e1 : max 1 (List.take w s).length = w := by simp only [List.length_take]; omega
        rw [e1] at h1
        simp only [List.length_drop] at ih
        obtain ⟨L, hL⟩ : ∃ L, s.length = w + L := ⟨s.length - w, by omega⟩
        rw [hL] at ih ⊢
        rw [show w + L - w = L by omega] at ih
        rw [Nat.mul_add]
        simp only [Val.sizes]; omega
      · simp at h
      · simp at h
    · simp at h
    · simp at h

theorem decodeDyn_size (dec : List Nat → Outcome Val) (K : Nat)
    (hdec : ∀ c v, dec c = .ok v → v.size ≤ K * max 1 c.length) :
    ∀ (n idx : Nat) (s : List Nat) (vs : List Val) (r : List Nat), decodeDyn dec n idx s = .ok (vs, r) →
      Val.sizes vs + K * r.length ≤ K * s.length
  | 0, idx, s, vs, r, h => by
    simp only [decodeDyn, Outcome.ok.injEq, Prod.mk.injEq] at h
    obtain ⟨rfl, rfl⟩ := h
    simp [Val.sizes]
  | n + 1, idx, s, vs, r, h => by
    cases s with
    | nil => simp [decodeDyn] at h
    | cons len rest =>
      simp only [decodeDyn] at h
      split at h
      · simp at h
      · split at h
        · simp at h
        · rename_i hlen
          split at h
          · rename_i v hv
            split at h
            · rename_i vs' r' hvs
              simp only [Outcome.ok.injEq, Prod.mk.injEq] at h
              obtain ⟨rfl, rfl⟩ := h
              have ih := decodeDyn_size dec K hdec n _ _ vs' r' hvs
              have h1 := hdec _ _ hv
              have e1 : (List.take len rest).length = len := by simp only [List.length_take]; omega
              rw [e1] at h1
              have h2 : K * max 1 len ≤ K * (1 + len) := Nat.mul_le_mul_left K (by omega)
              simp only [List.length_drop] at ih
              obtain ⟨L, hL⟩ : ∃ L, rest.length = len + L := ⟨rest.length - len, by omega⟩
              rw [hL] at ih
              rw [show len + L - len = L by omega] at ih
              simp only [List.length_cons, hL, Val.sizes]
              rw [show len + L + 1 = (1 + len) + L by omega, Nat.mul_add]
              omega
            · simp at h
            · simp at h
          · simp at h
          · simp at h

theorem decodeList_size (dec : List Nat → Outcome Val) (sl : Option Nat) (K : Nat)
    (hdec : ∀ c v, dec c = .ok v → v.size ≤ K * max 1 c.length) (n : Nat) (s : List Nat) (vs : List Val)
    (h : decodeList dec sl n s = .ok vs) : Val.sizes vs ≤ K * s.length := by
  unfold decodeList at h
  cases sl with
  | some w =>
    simp only at h
    split at h
    · simp at h
    · split at h
      · simp at h
      · split at h
        · simp at h
        · split at h
          · simp at h
          · exact decodeChunks_size dec w K (by omega) hdec n s vs h (by omega)
  | none =>
    simp only at h
    split at h
    · rename_i vs' hd
      simp only [Outcome.ok.injEq] at h
      subst h
      have := decodeDyn_size dec K hdec n 0 s _ _ hd
      omega
    · simp at h
    · simp at h
    · simp at h

theorem decodeVec_size (dec : List Nat → Outcome Val) (sl : Option Nat) (K : Nat)
    (hdec : ∀ c v, dec c = .ok v → v.size ≤ K * max 1 c.length) (s : List Nat) (vs : List Val)
    (h : decodeVec dec sl s = .ok vs) : Val.sizes vs ≤ K * s.length := by
  cases s with
  | nil => simp [decodeVec] at h
  | cons n rest =>
    have := decodeList_size dec sl K hdec n rest vs h
    have h2 : K * rest.length ≤ K * (n :: rest).length := Nat.mul_le_mul_left K (by simp)
    omega

theorem decodeItem_size (dec : List Nat → Outcome Val) (sl : Option Nat) (K : Nat)
    (hdec : ∀ c v, dec c = .ok v → v.size ≤ K * max 1 c.length) (s : List Nat) (v : Val) (r : List Nat)
    (h : decodeItem dec sl s = .ok (v, r)) : v.size ≤ K * max 1 s.length ∧ r.length ≤ s.length := by
  unfold decodeItem at h
  cases sl with
  | some w =>
    simp only at h
    split at h
    · simp at h
    · split at h
      · rename_i v' hv
        simp only [Outcome.ok.injEq, Prod.mk.injEq] at h
        obtain ⟨rfl, rfl⟩ := h
        have h1 := hdec _ _ hv
        have h2 : K * max 1 (List.take w s).length ≤ K * max 1 s.length :=
          Nat.mul_le_mul_left K (by simp only [List.length_take]; omega)
        exact ⟨by omega, by simp⟩
      · simp at h
      · simp at h
  | none =>
    cases s with
    | nil => simp at h
    | cons len rest =>
      simp only at h
      split at h
      · simp at h
      · split at h
        · rename_i v' hv
          simp only [Outcome.ok.injEq, Prod.mk.injEq] at h
          obtain ⟨rfl, rfl⟩ := h
          have h1 := hdec _ _ hv
          have h2 : K * max 1 (List.take len rest).length ≤ K * max 1 (len :: rest).length :=
            Nat.mul_le_mul_left K (by simp only [List.length_take, List.length_cons]; omega)
          exact ⟨by omega, by simp; omega⟩
        · simp at h
        · simp at h

theorem decodeU32Limbs_size : ∀ (s : List Nat) (vs : List Val), decodeU32Limbs s = .ok vs → Val.sizes vs = s.length
  | [], vs, h => by simp [decodeU32Limbs] at h; subst h; simp [Val.sizes]
  | x :: xs, vs, h => by
    simp only [decodeU32Limbs] at h
    split at h
    · split at h
      · rename_i vs' hvs
        simp only [Outcome.ok.injEq] at h
        subst h
        have := decodeU32Limbs_size xs vs' hvs
        simp [Val.sizes, Val.size, this]; omega
      · simp at h
      · simp at h
    · simp at h

theorem one_le_max (n : Nat) : 1 ≤ max 1 n := by omega

mutual
theorem decode_size : ∀ (t : Ty) (s : List Nat) (v : Val), decode t s = .ok v → v.size ≤ t.size * max 1 s.length
  | .bfe, s, v, h => by
    simp only [decode] at h
    split at h <;> simp at h
    subst h; simp [Val.size, Ty.size]
  | .u8, s, v, h => by
    obtain ⟨x, rfl, rfl, _⟩ := decodeSmall_ok (by simpa only [decode] using h); simp [Val.size, Ty.size]
  | .u16, s, v, h => by
    obtain ⟨x, rfl, rfl, _⟩ := decodeSmall_ok (by simpa only [decode] using h); simp [Val.size, Ty.size]
  | .u32, s, v, h => by
    obtain ⟨x, rfl, rfl, _⟩ := decodeSmall_ok (by simpa only [decode] using h); simp [Val.size, Ty.size]
  | .bool, s, v, h => by
    obtain ⟨x, rfl, rfl, _⟩ := decodeSmall_ok (by simpa only [decode] using h); simp [Val.size, Ty.size]
  | .u64, s, v, h => by
    obtain ⟨_, _, rfl⟩ := decodeLimbs_ok (by simpa only [decode] using h)
    simp only [Val.size, Ty.size]; omega
  | .u128, s, v, h => by
    obtain ⟨_, _, rfl⟩ := decodeLimbs_ok (by simpa only [decode] using h)
    simp only [Val.size, Ty.size]; omega
  | .phantom, s, v, h => by
    simp only [decode] at h
    split at h <;> simp at h
    subst h; simp [Val.size, Ty.size]
  | .box t, s, v, h => by
    simp only [decode] at h
    have := decode_size t s v h
    simp only [Ty.size, Nat.add_mul]; omega
  | .option t, s, v, h => by
    cases s with
    | nil => simp [decode] at h
    | cons tag rest =>
      simp only [decode] at h
      split at h
      · split at h <;> simp at h
        subst h
        simp only [Val.size, Ty.size, Nat.add_mul, List.length_cons]; omega
      · split at h
        · split at h
          · rename_i v' hv
            simp only [Outcome.ok.injEq] at h
            subst h
            have := decode_size t rest v' hv
            simp only [Val.size, Ty.size]
            exact size_step this (by simp only [List.length_cons]; omega) (one_le_max _)
          · simp at h
          · simp at h
        · simp at h
  | .vec t, s, v, h => by
    simp only [decode] at h
    obtain ⟨vs, hvs, rfl⟩ := Outcome.map_eq_ok.1 h
    have := decodeVec_size _ (staticLength t) t.size (fun c v hc => decode_size t c v hc) s vs hvs
    simp only [Val.size, Ty.size]
    exact size_step this (by omega) (one_le_max _)
  | .array n t, s, v, h => by
    simp only [decode] at h
    split at h
    · simp at h
    · obtain ⟨vs, hvs, rfl⟩ := Outcome.map_eq_ok.1 h
      have := decodeList_size _ (staticLength t) t.size (fun c v hc => decode_size t c v hc) n s vs hvs
      simp only [Val.size, Ty.size]
      exact size_step this (by omega) (one_le_max _)
  | .tuple ts, s, v, h => by
    simp only [decode] at h
    obtain ⟨vs, hvs, rfl⟩ := Outcome.map_eq_ok.1 h
    have := (decodeFields_size ts s vs [] (finishFields_eq_ok hvs)).1
    simp only [Val.size, Ty.size]
    exact size_step this (Nat.le_refl _) (one_le_max _)
  | .struct ts, s, v, h => by
    simp only [decode] at h
    obtain ⟨vs, hvs, rfl⟩ := Outcome.map_eq_ok.1 h
    have := (decodeFields_size ts s vs [] (finishFields_eq_ok hvs)).1
    simp only [Val.size, Ty.size]
    exact size_step this (Nat.le_refl _) (one_le_max _)
  | .poly t, s, v, h => by
    cases s with
    | nil => simp [decode] at h
    | cons ind rest =>
      simp only [decode, List.length_cons] at h
      split at h
      · simp at h
      · split at h
        · simp at h
        · split at h
          · rename_i cs hcs
            split at h
            · simp at h
            · simp only [Outcome.ok.injEq] at h
              subst h
              have := decodeVec_size _ (staticLength t) t.size (fun c v hc => decode_size t c v hc) rest cs hcs
              simp only [Val.size, Ty.size]
              exact size_step this (by simp only [List.length_cons]; omega) (one_le_max _)
          · simp at h
          · simp at h
  | .u32s n, s, v, h => by
    simp only [decode] at h
    split at h
    · simp at h
    · split at h
      · simp at h
      · split at h
        · simp at h
        · obtain ⟨vs, hvs, rfl⟩ := Outcome.map_eq_ok.1 h
          have := decodeU32Limbs_size s vs hvs
          simp only [Val.size, Ty.size, this]; omega
  | .enum vars, s, v, h => by
    cases s with
    | nil => simp [decode] at h
    | cons d rest =>
      simp only [decode] at h
      obtain ⟨vs, hvs, rfl⟩ := Outcome.map_eq_ok.1 h
      have := decodeVariant_size vars d rest vs hvs
      simp only [Val.size, Ty.size]
      exact size_step this (by simp only [List.length_cons]; omega) (one_le_max _)
theorem decodeFields_size : ∀ (ts : List Ty) (s : List Nat) (vs : List Val) (r : List Nat),
    decodeFields ts s = .ok (vs, r) → Val.sizes vs ≤ Ty.sizes ts * max 1 s.length ∧ r.length ≤ s.length
  | [], s, vs, r, h => by
    simp only [decodeFields, Outcome.ok.injEq, Prod.mk.injEq] at h
    obtain ⟨rfl, rfl⟩ := h
    simp [Val.sizes]
  | t :: ts, s, vs, r, h => by
    simp only [decodeFields] at h
    split at h
    · rename_i vs' s' hfs
      split at h
      · rename_i v r' hitem
        simp only [Outcome.ok.injEq, Prod.mk.injEq] at h
        obtain ⟨rfl, rfl⟩ := h
        have ih := decodeFields_size ts s vs' s' hfs
        have hi := decodeItem_size _ (staticLength t) t.size (fun c v hc => decode_size t c v hc) s' v r' hitem
        have h2 : t.size * max 1 s'.length ≤ t.size * max 1 s.length := Nat.mul_le_mul_left _ (by omega)
        simp only [Val.sizes, Ty.sizes, Nat.add_mul]
        exact ⟨by omega, by omega⟩
      · simp at h
      · simp at h
    · simp at h
    · simp at h
theorem decodeVariant_size : ∀ (vars : List (List Ty)) (d : Nat) (s : List Nat) (vs : List Val),
    decodeVariant vars d s = .ok vs → Val.sizes vs ≤ Ty.sizess vars * max 1 s.length
  | [], d, s, vs, h => by simp [decodeVariant] at h
  | fs :: rest, d, s, vs, h => by
    cases d with
    | zero =>
      simp only [decodeVariant] at h
      have := (decodeFields_size fs s vs [] (finishFields_eq_ok h)).1
      simp only [Ty.sizess, Nat.add_mul]; omega
    | succ d =>
      simp only [decodeVariant] at h
      have := decodeVariant_size rest d s vs h
      simp only [Ty.sizess, Nat.add_mul]; omega
end


/-! ### work bound: the cost semantics is linear in the sequence length on every outcome -/

theorem costChunks_le (dec : List Nat → Outcome Val) (cst : List Nat → Nat) (w C : Nat) (hw : 0 < w)
    (hc : ∀ c, cst c ≤ C * max 1 c.length) :
    ∀ (n : Nat) (s : List Nat), s.length = n * w → costChunks dec cst w n s ≤ (1 + C) * s.length
  | 0, s, _ => by simp [costChunks]
  | n + 1, s, hl => by
    have hlw : w ≤ s.length := by rw [hl, Nat.add_mul]; omega
    have h1 := hc (s.take w)
    have e1 : max 1 (List.take w s).length = w := by simp only [List.length_take]; omega
    rw [e1] at h1
    have ih := costChunks_le dec cst w C hw hc n (s.drop w) (by
      simp only [List.length_drop, hl, Nat.add_mul]; omega)
    simp only [List.length_drop] at ih
    obtain ⟨L, hL⟩ : ∃ L, s.length = w + L := ⟨s.length - w, by omega⟩
    rw [hL] at ih ⊢
    rw [show w + L - w = L by omega] at ih
    have e2 : (1 + C) * (w + L) = w + C * w + (1 + C) * L := by
      rw [Nat.mul_add, Nat.add_mul, Nat.one_mul]
    rw [e2]
    simp only [costChunks]
    split <;> omega

theorem costDyn_le (dec : List Nat → Outcome Val) (cst : List Nat → Nat) (C : Nat)
    (hc : ∀ c, cst c ≤ C * max 1 c.length) :
    ∀ (n idx : Nat) (s : List Nat), costDyn dec cst n idx s ≤ (1 + C) * s.length + 1
  | 0, idx, s => by simp [costDyn]
  | n + 1, idx, s => by
    cases s with
    | nil => simp [costDyn]
    | cons len rest =>
      simp only [costDyn]
      split
      · omega
      · split
        · omega
        · rename_i _ hlen
          have h1 := hc (rest.take len)
          have e1 : (List.take len rest).length = len := by simp only [List.length_take]; omega
          rw [e1] at h1
          have ih := costDyn_le dec cst C hc n (idx + 1 + len) (rest.drop len)
          simp only [List.length_drop] at ih
          obtain ⟨L, hL⟩ : ∃ L, rest.length = len + L := ⟨rest.length - len, by omega⟩
          rw [hL] at ih
          rw [show len + L - len = L by omega] at ih
          have h2 : C * max 1 len ≤ C * len + C := by
            have : C * max 1 len ≤ C * (len + 1) := Nat.mul_le_mul_left C (by omega)
            rw [Nat.mul_add, Nat.mul_one] at this; exact this
          have e2 : (1 + C) * (len :: rest).length = len + C * len + (1 + C) * L + 1 + C := by
            simp only [List.length_cons, hL]
            rw [show len + L + 1 = len + (L + 1) by omega, Nat.mul_add, Nat.mul_add, Nat.add_mul, Nat.one_mul, Nat.mul_one]
            omega
          rw [e2]
          split <;> omega

theorem costList_le (dec : List Nat → Outcome Val) (cst : List Nat → Nat) (sl : Option Nat) (C : Nat)
    (hc : ∀ c, cst c ≤ C * max 1 c.length) (n : Nat) (s : List Nat) :
    costList dec cst sl n s ≤ (1 + C) * s.length + 2 := by
  unfold costList
  cases sl with
  | some w =>
    simp only
    split; · omega
    split; · omega
    split; · omega
    split; · omega
    have := costChunks_le dec cst w C (by omega) hc n s (by omega)
    omega
  | none =>
    simp only
    have := costDyn_le dec cst C hc n 0 s
    omega

theorem costItem_le (cst : List Nat → Nat) (sl : Option Nat) (C : Nat)
    (hc : ∀ c, cst c ≤ C * max 1 c.length) (s : List Nat) :
    costItem cst sl s ≤ 1 + C * max 1 s.length := by
  unfold costItem
  cases sl with
  | some w =>
    simp only
    split
    · omega
    · have h1 := hc (s.take w)
      have h2 : C * max 1 (List.take w s).length ≤ C * max 1 s.length :=
        Nat.mul_le_mul_left C (by simp only [List.length_take]; omega)
      omega
  | none =>
    cases s with
    | nil => simp
    | cons len rest =>
      simp only
      split
      · omega
      · have h1 := hc (rest.take len)
        have h2 : C * max 1 (List.take len rest).length ≤ C * max 1 (len :: rest).length :=
          Nat.mul_le_mul_left C (by simp only [List.length_take, List.length_cons]; omega)
        omega

theorem work_step {a C L M k : Nat} (h : a ≤ (1 + C) * L + k) (hL : L + 1 ≤ M) (hk : k ≤ 2) :
    1 + a ≤ (3 + C) * M := by
  have h1 : (1 + C) * (L + 1) ≤ (1 + C) * M := Nat.mul_le_mul_left _ hL
  have e1 : (1 + C) * (L + 1) = (1 + C) * L + 1 + C := by rw [Nat.mul_add, Nat.mul_one]; omega
  have e2 : (3 + C) * M = 2 * M + (1 + C) * M := by rw [show 3 + C = 2 + (1 + C) by omega, Nat.add_mul]
  omega

theorem work_step' {a C M : Nat} (h : a ≤ (1 + C) * M + 2) (hM : 1 ≤ M) : 1 + a ≤ (4 + C) * M := by
  have e2 : (4 + C) * M = 3 * M + (1 + C) * M := by rw [show 4 + C = 3 + (1 + C) by omega, Nat.add_mul]
  omega

theorem le_mul_max {k K : Nat} (h : k ≤ K) (n : Nat) : k ≤ K * max 1 n := by
  have := Nat.mul_le_mul h (one_le_max n); omega

mutual
theorem cost_le : ∀ (t : Ty) (s : List Nat), cost t s ≤ t.work * max 1 s.length
  | .bfe, s => by simp [cost, Ty.work]; omega
  | .u8, s => by simp [cost, Ty.work]; omega
  | .u16, s => by simp [cost, Ty.work]; omega
  | .u32, s => by simp [cost, Ty.work]; omega
  | .u64, s => by simp [cost, Ty.work]; omega
  | .u128, s => by simp [cost, Ty.work]; omega
  | .bool, s => by simp [cost, Ty.work]; omega
  | .phantom, s => by simp [cost, Ty.work]; omega
  | .box t, s => by
    have := cost_le t s
    have hM := one_le_max s.length
    simp only [cost, Ty.work, Nat.add_mul, Nat.one_mul]; omega
  | .option t, s => by
    have hM := one_le_max s.length
    cases s with
    | nil => simp only [cost, Ty.work, Nat.add_mul, Nat.one_mul]; omega
    | cons tag rest =>
      have := cost_le t rest
      have h2 : t.work * max 1 rest.length ≤ t.work * max 1 (tag :: rest).length :=
        Nat.mul_le_mul_left _ (by simp only [List.length_cons]; omega)
      simp only [cost, Ty.work, Nat.add_mul, Nat.one_mul]
      split <;> omega
  | .vec t, s => by
    cases s with
    | nil => simp only [cost, Ty.work]; exact le_mul_max (by omega) _
    | cons n rest =>
      have := costList_le (fun c => decode t c) (fun c => cost t c) (staticLength t) t.work (cost_le t) n rest
      simp only [cost, Ty.work]
      exact work_step this (by simp only [List.length_cons]; omega) (Nat.le_refl 2)
  | .array n t, s => by
    have hM := one_le_max s.length
    simp only [cost, Ty.work]
    split
    · exact le_mul_max (by omega) _
    · have := costList_le (fun c => decode t c) (fun c => cost t c) (staticLength t) t.work (cost_le t) n s
      have h2 : (1 + t.work) * s.length ≤ (1 + t.work) * max 1 s.length := Nat.mul_le_mul_left _ (by omega)
      exact work_step' (by omega) hM
  | .tuple ts, s => by
    have := costFields_le ts s
    have hM := one_le_max s.length
    simp only [cost, Ty.work, Nat.add_mul, Nat.one_mul]; omega
  | .struct ts, s => by
    have := costFields_le ts s
    have hM := one_le_max s.length
    simp only [cost, Ty.work, Nat.add_mul, Nat.one_mul]; omega
  | .poly t, s => by
    simp only [Ty.work]
    cases s with
    | nil => simp only [cost]; exact le_mul_max (by omega) _
    | cons ind rest =>
      simp only [cost]
      split; · exact le_mul_max (by omega) _
      split; · exact le_mul_max (by omega) _
      cases rest with
      | nil => simp only; exact le_mul_max (by omega) _
      | cons n rest' =>
        simp only
        have := costList_le (fun c => decode t c) (fun c => cost t c) (staticLength t) t.work (cost_le t) n rest'
        have h1 := work_step (M := max 1 (ind :: n :: rest').length) this
          (by simp only [List.length_cons]; omega) (Nat.le_refl 2)
        have e : (4 + t.work) * max 1 (ind :: n :: rest').length =
            max 1 (ind :: n :: rest').length + (3 + t.work) * max 1 (ind :: n :: rest').length := by
          rw [show 4 + t.work = 1 + (3 + t.work) by omega, Nat.add_mul, Nat.one_mul]
        omega
  | .u32s n, s => by
    simp only [cost, Ty.work]
    split <;> omega
  | .enum vars, s => by
    have hM := one_le_max s.length
    cases s with
    | nil => simp only [cost, Ty.work, Nat.add_mul, Nat.one_mul]; omega
    | cons d rest =>
      have := costVariant_le vars d rest
      have h2 : Ty.workss vars * max 1 rest.length ≤ Ty.workss vars * max 1 (d :: rest).length :=
        Nat.mul_le_mul_left _ (by simp only [List.length_cons]; omega)
      simp only [cost, Ty.work, Nat.add_mul, Nat.one_mul]; omega
theorem costFields_le : ∀ (ts : List Ty) (s : List Nat), costFields ts s ≤ Ty.works ts * max 1 s.length
  | [], s => by simp [costFields]
  | t :: ts, s => by
    have ih := costFields_le ts s
    have hM := one_le_max s.length
    simp only [costFields, Ty.works, Nat.add_mul, Nat.one_mul]
    split
    · rename_i vs s' hfs
      have hr := (decodeFields_size ts s vs s' hfs).2
      have hi := costItem_le (fun c => cost t c) (staticLength t) t.work (cost_le t) s'
      have h2 : t.work * max 1 s'.length ≤ t.work * max 1 s.length := Nat.mul_le_mul_left _ (by omega)
      omega
    · omega
theorem costVariant_le : ∀ (vars : List (List Ty)) (d : Nat) (s : List Nat),
    costVariant vars d s ≤ Ty.workss vars * max 1 s.length
  | [], d, s => by simp [costVariant]
  | fs :: rest, d, s => by
    cases d with
    | zero =>
      have := costFields_le fs s
      simp only [costVariant, Ty.workss, Nat.add_mul]; omega
    | succ d =>
      have := costVariant_le rest d s
      simp only [costVariant, Ty.workss, Nat.add_mul]; omega
end


/-! ### encodings consist of canonical elements -/

theorem Canon.cons_iff {x : Nat} {s : List Nat} : Canon (x :: s) ↔ x < P ∧ Canon s := by
  unfold Canon; simp
theorem Canon.append_iff {a b : List Nat} : Canon (a ++ b) ↔ Canon a ∧ Canon b := by
  unfold Canon; simp only [List.mem_append]
  exact ⟨fun h => ⟨fun x hx => h x (.inl hx), fun x hx => h x (.inr hx)⟩, fun h x hx => hx.elim (h.1 x) (h.2 x)⟩

theorem prefixed_canon {d : Bool} {e : List Nat} (h : Canon e) (hl : e.length < P) : Canon (prefixed d e) := by
  cases d
  · simpa using h
  · simp only [prefixed_true]; exact Canon.cons_iff.2 ⟨hl, h⟩

theorem encodeItems_canon (enc : Val → List Nat) (d : Bool) :
    ∀ vs : List Val, (∀ v ∈ vs, (enc v).length < P → Canon (enc v)) → (encodeItems enc d vs).length < P →
      Canon (encodeItems enc d vs)
  | [], _, _ => by simp [Canon.nil]
  | v :: vs, h, hl => by
    simp only [encodeItems_cons, List.length_append, prefixed_length] at hl ⊢
    have h1 : (enc v).length < P := by omega
    exact Canon.append_iff.2 ⟨prefixed_canon (h v (by simp) h1) h1,
      encodeItems_canon enc d vs (fun x hx => h x (by simp [hx])) (by omega)⟩

theorem length_le_encodeItems (enc : Val → List Nat) (d : Bool) :
    ∀ vs : List Val, (∀ v ∈ vs, d = true ∨ 1 ≤ (enc v).length) → vs.length ≤ (encodeItems enc d vs).length
  | [], _ => by simp
  | v :: vs, h => by
    have ih := length_le_encodeItems enc d vs (fun x hx => h x (by simp [hx]))
    simp only [encodeItems_cons, List.length_append, prefixed_length, List.length_cons]
    rcases h v (by simp) with rfl | h1
    · simp; omega
    · omega

theorem P_gt : 2^128 > P ∧ P > 2^64 - 2^32 ∧ P > 2^32 := by rw [P_val]; omega

mutual
theorem encode_canon : ∀ (t : Ty) (v : Val), hasTy t v = true → noZW t = true → wf t = true →
    (encode t v).length < P → Canon (encode t v)
  | .bfe, v, h, _, _, _ => by
    obtain ⟨n, rfl, hn⟩ := isNumBelow_iff.1 (by simpa [hasTy] using h)
    simp only [encode, numOf_num]; exact Canon.cons_iff.2 ⟨hn, Canon.nil⟩
  | .u8, v, h, _, _, _ => by
    obtain ⟨n, rfl, hn⟩ := isNumBelow_iff.1 (by simpa [hasTy] using h)
    simp only [encode, numOf_num]; exact Canon.cons_iff.2 ⟨by rw [P_val]; omega, Canon.nil⟩
  | .u16, v, h, _, _, _ => by
    obtain ⟨n, rfl, hn⟩ := isNumBelow_iff.1 (by simpa [hasTy] using h)
    simp only [encode, numOf_num]; exact Canon.cons_iff.2 ⟨by rw [P_val]; omega, Canon.nil⟩
  | .u32, v, h, _, _, _ => by
    obtain ⟨n, rfl, hn⟩ := isNumBelow_iff.1 (by simpa [hasTy] using h)
    simp only [encode, numOf_num]; exact Canon.cons_iff.2 ⟨by rw [P_val]; omega, Canon.nil⟩
  | .bool, v, h, _, _, _ => by
    obtain ⟨n, rfl, hn⟩ := isNumBelow_iff.1 (by simpa [hasTy] using h)
    simp only [encode, numOf_num]; exact Canon.cons_iff.2 ⟨by rw [P_val]; omega, Canon.nil⟩
  | .u64, v, _, _, _, _ => by
    simp only [encode]
    exact Canon.cons_iff.2 ⟨by rw [P_val]; omega, Canon.cons_iff.2 ⟨by rw [P_val]; omega, Canon.nil⟩⟩
  | .u128, v, _, _, _, _ => by
    simp only [encode]
    exact Canon.cons_iff.2 ⟨by rw [P_val]; omega, Canon.cons_iff.2 ⟨by rw [P_val]; omega,
      Canon.cons_iff.2 ⟨by rw [P_val]; omega, Canon.cons_iff.2 ⟨by rw [P_val]; omega, Canon.nil⟩⟩⟩⟩
  | .phantom, v, _, _, _, _ => by simp only [encode]; exact Canon.nil
  | .box t, v, h, hz, hw, hb => by
    simp only [hasTy] at h; simp only [noZW] at hz; simp only [wf] at hw; simp only [encode] at hb ⊢
    exact encode_canon t v h hz hw hb
  | .option t, v, h, hz, hw, hb => by
    simp only [noZW] at hz; simp only [wf] at hw
    cases v <;> simp [hasTy] at h
    rename_i o
    cases o with
    | none => simp only [encode]; exact Canon.cons_iff.2 ⟨by rw [P_val]; omega, Canon.nil⟩
    | some x =>
      simp only [encode, List.length_cons] at hb ⊢
      exact Canon.cons_iff.2 ⟨by rw [P_val]; omega, encode_canon t x (by simpa using h) hz hw (by omega)⟩
  | .vec t, v, h, hz, hw, hb => by
    cases v <;> simp [hasTy] at h
    rename_i vs
    simp only [noZW, Bool.and_eq_true, bne_iff_ne, ne_eq] at hz
    simp only [wf] at hw
    simp only [encode, List.length_cons] at hb ⊢
    have hcount := length_le_encodeItems (fun x => encode t x) (isDyn t) vs (fun x hx => by
      cases hs : staticLength t with
      | none => left; simp [isDyn, hs]
      | some w =>
        right
        have := encode_length_static t x w (h x hx) hs
        have hw0 : w ≠ 0 := by intro h0; apply hz.2; rw [hs, h0]
        omega)
    exact Canon.cons_iff.2 ⟨by omega, encodeItems_canon _ _ vs
      (fun x hx hl => encode_canon t x (h x hx) hz.1 hw hl) (by omega)⟩
  | .array n t, v, h, hz, hw, hb => by
    cases v <;> simp [hasTy] at h
    rename_i vs
    simp only [noZW, Bool.and_eq_true, bne_iff_ne, ne_eq] at hz
    simp only [wf] at hw
    simp only [encode] at hb ⊢
    exact encodeItems_canon _ _ vs (fun x hx hl => encode_canon t x (h.2 x hx) hz.1 hw hl) hb
  | .tuple ts, v, h, hz, hw, hb => by
    cases v <;> simp [hasTy] at h
    simp only [noZW] at hz
    simp only [wf, Bool.and_eq_true] at hw
    simp only [encode] at hb ⊢
    exact encodeFields_canon ts _ h hz hw.2 hb
  | .struct ts, v, h, hz, hw, hb => by
    cases v <;> simp [hasTy] at h
    simp only [noZW] at hz
    simp only [wf] at hw
    simp only [encode] at hb ⊢
    exact encodeFields_canon ts _ h hz hw hb
  | .poly t, v, h, hz, hw, hb => by
    cases v <;> simp [hasTy] at h
    rename_i cs
    obtain ⟨h, hnz⟩ := h
    simp only [noZW, Bool.and_eq_true, bne_iff_ne, ne_eq] at hz
    have hnorm := normalize_of_not_lastIsZero cs hnz
    simp only [encode, hnorm, List.length_cons] at hb ⊢
    -- `wf (.poly t)` only says `t` is a field type; its own well-formedness follows
    have hwt : wf t = true := by
      simp only [wf] at hw
      unfold isFieldTy at hw
      split at hw
      · rfl
      · rfl
      · simp at hw
    have hcount := length_le_encodeItems (fun x => encode t x) (isDyn t) cs (fun x hx => by
      cases hs : staticLength t with
      | none => left; simp [isDyn, hs]
      | some w =>
        right
        have := encode_length_static t x w (h x hx) hs
        have hw0 : w ≠ 0 := by intro h0; apply hz.2; rw [hs, h0]
        omega)
    exact Canon.cons_iff.2 ⟨by omega, Canon.cons_iff.2 ⟨by omega, encodeItems_canon _ _ cs
      (fun x hx hl => encode_canon t x (h x hx) hz.1 hwt hl) (by omega)⟩⟩
  | .u32s k, v, h, _, _, hb => by
    cases v <;> simp [hasTy] at h
    rename_i ls
    simp only [encode] at hb ⊢
    exact encodeItems_canon _ _ ls (fun x hx _ => by
      obtain ⟨n, rfl, hn⟩ := isNumBelow_iff.1 (h.2 x hx)
      simp only [numOf_num]; exact Canon.cons_iff.2 ⟨by rw [P_val]; omega, Canon.nil⟩) hb
  | .enum vars, v, h, hz, hw, hb => by
    cases v <;> simp [hasTy] at h
    rename_i k vs
    simp only [noZW] at hz
    simp only [wf, Bool.and_eq_true, decide_eq_true_eq] at hw
    simp only [encode, List.length_cons] at hb ⊢
    have hk := hasTyVariant_lt vars k vs h
    exact Canon.cons_iff.2 ⟨by rw [P_val]; omega, encodeVariant_canon vars k vs h hz hw.2 (by omega)⟩
theorem encodeFields_canon : ∀ (ts : List Ty) (vs : List Val), hasTys ts vs = true → noZWs ts = true →
    wfs ts = true → (encodeFields ts vs).length < P → Canon (encodeFields ts vs)
  | [], vs, _, _, _, _ => by simp [encodeFields, Canon.nil]
  | t :: ts, vs, h, hz, hw, hb => by
    cases vs with
    | nil => simp [hasTys] at h
    | cons v vs =>
      simp only [hasTys, Bool.and_eq_true] at h
      simp only [noZWs, Bool.and_eq_true] at hz
      simp only [wfs, Bool.and_eq_true] at hw
      simp only [encodeFields, List.length_append, prefixed_length] at hb ⊢
      have h1 : (encode t v).length < P := by omega
      exact Canon.append_iff.2 ⟨encodeFields_canon ts vs h.2 hz.2 hw.2 (by omega),
        prefixed_canon (encode_canon t v h.1 hz.1 hw.1 h1) h1⟩
theorem encodeVariant_canon : ∀ (vars : List (List Ty)) (k : Nat) (vs : List Val), hasTyVariant vars k vs = true →
    noZWss vars = true → wfss vars = true → (encodeVariant vars k vs).length < P → Canon (encodeVariant vars k vs)
  | [], k, vs, h, _, _, _ => by simp [hasTyVariant] at h
  | fs :: rest, k, vs, h, hz, hw, hb => by
    simp only [noZWss, Bool.and_eq_true] at hz
    simp only [wfss, Bool.and_eq_true] at hw
    cases k with
    | zero =>
      simp only [hasTyVariant] at h
      simp only [encodeVariant] at hb ⊢
      exact encodeFields_canon fs vs h hz.1 hw.1 hb
    | succ k =>
      simp only [hasTyVariant] at h
      simp only [encodeVariant] at hb ⊢
      exact encodeVariant_canon rest k vs h hz.2 hw.2 hb
theorem hasTyVariant_lt : ∀ (vars : List (List Ty)) (k : Nat) (vs : List Val), hasTyVariant vars k vs = true →
    k < vars.length
  | [], k, vs, h => by simp [hasTyVariant] at h
  | fs :: rest, k, vs, h => by
    cases k with
    | zero => simp
    | succ k =>
      simp only [hasTyVariant] at h
      have := hasTyVariant_lt rest k vs h
      simp; omega
end


/-! ### enum layout -/
theorem encodeVariant_eq (vars : List (List Ty)) (k : Nat) (fs : List Ty) (vs : List Val) (h : vars[k]? = some fs) :
    encodeVariant vars k vs = encodeFields fs vs := by
  induction vars generalizing k with
  | nil => simp at h
  | cons f rest ih =>
    cases k with
    | zero => simp at h; subst h; simp [encodeVariant]
    | succ k => simp at h; simp [encodeVariant, ih k h]


end TF.Codec
