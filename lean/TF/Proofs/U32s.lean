import TF.Model.U32s
import Mathlib.Tactic.Ring
import Mathlib.Tactic.Linarith
import Mathlib.Tactic.IntervalCases
/-! helper lemmas for C19 (`U32s<N>`) -/
namespace TF.U32s

theorem W_eq : W = 4294967296 := rfl
theorem W_pos : 0 < W := by decide

@[simp] theorem val_nil : val [] = 0 := rfl
@[simp] theorem val_cons (x : Nat) (xs : List Nat) : val (x :: xs) = x + W * val xs := rfl

theorem WF_nil : WF 0 [] := ⟨rfl, by simp⟩
theorem WF_zero_iff (a : List Nat) : WF 0 a ↔ a = [] := by
  constructor
  · intro h; exact List.length_eq_zero_iff.mp h.1
  · intro h; subst h; exact WF_nil
theorem WF_cons_iff (n x : Nat) (xs : List Nat) : WF (n+1) (x :: xs) ↔ x < W ∧ WF n xs := by
  unfold WF; simp only [List.length_cons, Nat.add_right_cancel_iff, List.mem_cons, forall_eq_or_imp]; tauto
theorem WF_succ_nil (n : Nat) : ¬ WF (n+1) [] := by intro h; simp [WF] at h

theorem wf_iff (n : Nat) (a : List Nat) : wf n a = true ↔ WF n a := by
  simp [wf, WF]

theorem val_lt {n : Nat} {a : List Nat} (h : WF n a) : val a < W ^ n := by
  induction a generalizing n with
  | nil => cases n with
    | zero => simp
    | succ n => exact absurd h (WF_succ_nil n)
  | cons x xs ih => cases n with
    | zero => simp [WF] at h
    | succ n =>
      obtain ⟨hx, hxs⟩ := (WF_cons_iff n x xs).mp h
      have := ih hxs
      rw [val_cons, Nat.pow_succ]
      have h1 : W * val xs + W ≤ W * W ^ n := by
        have : val xs + 1 ≤ W ^ n := this
        calc W * val xs + W = W * (val xs + 1) := by ring
          _ ≤ W * W ^ n := Nat.mul_le_mul_left _ this
      rw [Nat.mul_comm (W ^ n) W]; omega

theorem WF_ofNat (n v : Nat) : WF n (ofNat n v) := by
  induction n generalizing v with
  | zero => exact WF_nil
  | succ n ih => rw [ofNat, WF_cons_iff]; exact ⟨Nat.mod_lt _ W_pos, ih _⟩

theorem val_ofNat (n v : Nat) : val (ofNat n v) = v % W ^ n := by
  induction n generalizing v with
  | zero => simp [ofNat, Nat.mod_one]
  | succ n ih =>
    rw [ofNat, val_cons, ih, Nat.pow_succ, Nat.mul_comm (W ^ n) W, Nat.mod_mul]

theorem val_ofNat_of_lt {n v : Nat} (h : v < W ^ n) : val (ofNat n v) = v := by
  rw [val_ofNat, Nat.mod_eq_of_lt h]

theorem ofNat_val {n : Nat} {a : List Nat} (h : WF n a) : ofNat n (val a) = a := by
  induction a generalizing n with
  | nil => cases n with
    | zero => rfl
    | succ n => exact absurd h (WF_succ_nil n)
  | cons x xs ih => cases n with
    | zero => simp [WF] at h
    | succ n =>
      obtain ⟨hx, hxs⟩ := (WF_cons_iff n x xs).mp h
      rw [ofNat, val_cons]
      have h1 : (x + W * val xs) % W = x := by rw [Nat.add_mul_mod_self_left, Nat.mod_eq_of_lt hx]
      have h2 : (x + W * val xs) / W = val xs := by
        rw [Nat.add_mul_div_left _ _ W_pos, Nat.div_eq_of_lt hx, Nat.zero_add]
      rw [h1, h2, ih hxs]

/-- a well-formed limb list is determined by its value -/
theorem eq_of_val_eq {n : Nat} {a b : List Nat} (ha : WF n a) (hb : WF n b) (h : val a = val b) : a = b := by
  rw [← ofNat_val ha, ← ofNat_val hb, h]

theorem norm_val {n : Nat} {a : List Nat} (h : WF n a) : norm n (val a) = some a := by
  rw [norm, if_pos (val_lt h), ofNat_val h]

theorem norm_eq_some {n v : Nat} {r : List Nat} (hr : WF n r) (hv : val r = v) : norm n v = some r := by
  subst hv; exact norm_val hr

theorem norm_eq_none {n v : Nat} (h : W ^ n ≤ v) : norm n v = none := by
  rw [norm, if_neg (Nat.not_lt.mpr h)]

theorem norm_some_iff {n v : Nat} {r : List Nat} : norm n v = some r ↔ (v < W ^ n ∧ WF n r ∧ val r = v) := by
  unfold norm
  split
  · rename_i h
    constructor
    · intro e; cases e; exact ⟨h, WF_ofNat n v, val_ofNat_of_lt h⟩
    · rintro ⟨_, hr, hv⟩; rw [← hv, ofNat_val hr]
  · rename_i h; constructor
    · intro e; cases e
    · rintro ⟨h', _⟩; exact absurd h' h

end TF.U32s

namespace TF.U32s

theorem addLoop_spec {n : Nat} {a b : List Nat} (ha : WF n a) (hb : WF n b) (c : Bool) :
    WF n (addLoop a b c).1 ∧
      val (addLoop a b c).1 + (addLoop a b c).2.toNat * W ^ n = val a + val b + c.toNat := by
  induction a generalizing n b c with
  | nil =>
    cases n with
    | zero => have := (WF_zero_iff b).mp hb; subst this; simp [addLoop, WF_nil]
    | succ n => exact absurd ha (WF_succ_nil n)
  | cons x xs ih =>
    cases n with
    | zero => simp [WF] at ha
    | succ n =>
      cases b with
      | nil => exact absurd hb (WF_succ_nil n)
      | cons y ys =>
        obtain ⟨hx, hxs⟩ := (WF_cons_iff n x xs).mp ha
        obtain ⟨hy, hys⟩ := (WF_cons_iff n y ys).mp hb
        simp only [addLoop]
        obtain ⟨ihw, ihv⟩ := ih hxs hys (decide (W ≤ x + y) || decide (W ≤ (x + y) % W + c.toNat))
        refine ⟨(WF_cons_iff _ _ _).mpr ⟨Nat.mod_lt _ W_pos, ihw⟩, ?_⟩
        rw [val_cons, val_cons, val_cons, Nat.pow_succ]
        generalize (addLoop xs ys (decide (W ≤ x + y) || decide (W ≤ (x + y) % W + c.toNat))).2 = co at ihv ⊢
        generalize val (addLoop xs ys (decide (W ≤ x + y) || decide (W ≤ (x + y) % W + c.toNat))).1 = vr at ihv ⊢
        generalize val xs = vx at ihv ⊢
        generalize val ys = vy at ihv ⊢
        generalize W ^ n = t at ihv ⊢
        have e1 : co.toNat * (t * W) = W * (co.toNat * t) := by ring
        rw [e1]
        generalize co.toNat * t = u at ihv ⊢
        rw [W_eq] at *
        cases c <;> simp only [Bool.toNat_false, Bool.toNat_true, Nat.add_zero] at ihv ⊢
        · by_cases h1 : 4294967296 ≤ x + y
          · simp [h1] at ihv; omega
          · have h2 : ¬ 4294967296 ≤ (x + y) % 4294967296 := by omega
            simp [h1, h2] at ihv; omega
        · by_cases h1 : 4294967296 ≤ x + y
          · simp [h1] at ihv; omega
          · by_cases h2 : 4294967296 ≤ (x + y) % 4294967296 + 1
            · simp [h1, h2] at ihv; omega
            · simp [h1, h2] at ihv; omega
end TF.U32s

namespace TF.U32s
theorem add_eq_norm {n : Nat} {a b : List Nat} (ha : WF n a) (hb : WF n b) :
    add a b = norm n (val a + val b) := by
  obtain ⟨hw, hv⟩ := addLoop_spec ha hb false
  unfold add
  cases hc : (addLoop a b false).2
  · simp only [hc, Bool.toNat_false, Nat.zero_mul, Nat.add_zero] at hv
    simp only [hc, Bool.false_eq_true, if_false]
    exact (norm_eq_some hw hv).symm
  · simp only [hc, Bool.toNat_true, Bool.toNat_false, Nat.one_mul, Nat.add_zero] at hv
    simp only [hc, if_true]
    exact (norm_eq_none (by omega)).symm

theorem subLoop_spec {n : Nat} {a b : List Nat} (ha : WF n a) (hb : WF n b) (c : Bool) :
    WF n (subLoop a b c).1 ∧
      val (subLoop a b c).1 + val b + c.toNat = val a + (subLoop a b c).2.toNat * W ^ n := by
  induction a generalizing n b c with
  | nil =>
    cases n with
    | zero => have := (WF_zero_iff b).mp hb; subst this; simp [subLoop, WF_nil]
    | succ n => exact absurd ha (WF_succ_nil n)
  | cons x xs ih =>
    cases n with
    | zero => simp [WF] at ha
    | succ n =>
      cases b with
      | nil => exact absurd hb (WF_succ_nil n)
      | cons y ys =>
        obtain ⟨hx, hxs⟩ := (WF_cons_iff n x xs).mp ha
        obtain ⟨hy, hys⟩ := (WF_cons_iff n y ys).mp hb
        simp only [subLoop]
        obtain ⟨ihw, ihv⟩ := ih hxs hys (decide (x < y) || decide ((x + W - y) % W < c.toNat))
        refine ⟨(WF_cons_iff _ _ _).mpr ⟨Nat.mod_lt _ W_pos, ihw⟩, ?_⟩
        rw [val_cons, val_cons, val_cons, Nat.pow_succ]
        generalize (subLoop xs ys (decide (x < y) || decide ((x + W - y) % W < c.toNat))).2 = co at ihv ⊢
        generalize val (subLoop xs ys (decide (x < y) || decide ((x + W - y) % W < c.toNat))).1 = vr at ihv ⊢
        generalize val xs = vx at ihv ⊢
        generalize val ys = vy at ihv ⊢
        generalize W ^ n = t at ihv ⊢
        have e1 : co.toNat * (t * W) = W * (co.toNat * t) := by ring
        rw [e1]
        generalize co.toNat * t = u at ihv ⊢
        rw [W_eq] at *
        cases c <;> simp only [Bool.toNat_false, Bool.toNat_true, Nat.add_zero] at ihv ⊢
        · by_cases h1 : x < y
          · simp [h1] at ihv; omega
          · simp [h1] at ihv; omega
        · by_cases h1 : x < y
          · simp [h1] at ihv; omega
          · by_cases h2 : (x + 4294967296 - y) % 4294967296 < 1
            · simp [h1, h2] at ihv; omega
            · simp [h1, h2] at ihv; omega

theorem sub_eq {n : Nat} {a b : List Nat} (ha : WF n a) (hb : WF n b) :
    sub a b = if val b ≤ val a then some (ofNat n (val a - val b)) else none := by
  obtain ⟨hw, hv⟩ := subLoop_spec ha hb false
  have hlt := val_lt hw
  have hla := val_lt ha
  unfold sub
  cases hc : (subLoop a b false).2
  · simp only [hc, Bool.toNat_false, Nat.zero_mul, Nat.add_zero] at hv
    simp only [hc, Bool.false_eq_true, if_false]
    rw [if_pos (by omega)]
    have : val a - val b = val (subLoop a b false).1 := by omega
    rw [this, ofNat_val hw]
  · simp only [hc, Bool.toNat_true, Bool.toNat_false, Nat.one_mul, Nat.add_zero] at hv
    simp only [hc, if_true]
    rw [if_neg (by omega)]

theorem mulTwoLoop_spec {n : Nat} {a : List Nat} (ha : WF n a) (c : Bool) :
    WF n (mulTwoLoop a c).1 ∧
      val (mulTwoLoop a c).1 + (mulTwoLoop a c).2.toNat * W ^ n = 2 * val a + c.toNat := by
  induction a generalizing n c with
  | nil =>
    cases n with
    | zero => simp [mulTwoLoop, WF_nil]
    | succ n => exact absurd ha (WF_succ_nil n)
  | cons x xs ih =>
    cases n with
    | zero => simp [WF] at ha
    | succ n =>
      obtain ⟨hx, hxs⟩ := (WF_cons_iff n x xs).mp ha
      simp only [mulTwoLoop]
      obtain ⟨ihw, ihv⟩ := ih hxs (decide (W ≤ 2 * x % W + c.toNat) || decide (W ≤ 2 * x))
      refine ⟨(WF_cons_iff _ _ _).mpr ⟨Nat.mod_lt _ W_pos, ihw⟩, ?_⟩
      rw [val_cons, val_cons, Nat.pow_succ]
      generalize (mulTwoLoop xs (decide (W ≤ 2 * x % W + c.toNat) || decide (W ≤ 2 * x))).2 = co at ihv ⊢
      generalize val (mulTwoLoop xs (decide (W ≤ 2 * x % W + c.toNat) || decide (W ≤ 2 * x))).1 = vr at ihv ⊢
      generalize val xs = vx at ihv ⊢
      generalize W ^ n = t at ihv ⊢
      have e1 : co.toNat * (t * W) = W * (co.toNat * t) := by ring
      rw [e1]
      generalize co.toNat * t = u at ihv ⊢
      rw [W_eq] at *
      have hc : c.toNat ≤ 1 := by cases c <;> simp
      generalize c.toNat = cn at *
      have h2 : ¬ 4294967296 ≤ 2 * x % 4294967296 + cn := by omega
      by_cases h1 : 4294967296 ≤ 2 * x
      · simp [h1, h2] at ihv; omega
      · simp [h1, h2] at ihv; omega

theorem mulTwo_eq_norm {n : Nat} {a : List Nat} (ha : WF n a) : mulTwo a = norm n (2 * val a) := by
  obtain ⟨hw, hv⟩ := mulTwoLoop_spec ha false
  unfold mulTwo
  cases hc : (mulTwoLoop a false).2
  · simp only [hc, Bool.toNat_false, Nat.zero_mul, Nat.add_zero] at hv
    simp only [hc, Bool.false_eq_true, if_false]
    exact (norm_eq_some hw hv).symm
  · simp only [hc, Bool.toNat_true, Bool.toNat_false, Nat.one_mul, Nat.add_zero] at hv
    simp only [hc, if_true]
    exact (norm_eq_none (by omega)).symm

theorem divTwoLoop_spec {n : Nat} {a : List Nat} (ha : WF n a) :
    WF n (divTwoLoop a).1 ∧ (divTwoLoop a).2.2 = true ∧
      2 * val (divTwoLoop a).1 + (divTwoLoop a).2.1.toNat = val a := by
  induction a generalizing n with
  | nil =>
    cases n with
    | zero => simp [divTwoLoop, WF_nil]
    | succ n => exact absurd ha (WF_succ_nil n)
  | cons x xs ih =>
    cases n with
    | zero => simp [WF] at ha
    | succ n =>
      obtain ⟨hx, hxs⟩ := (WF_cons_iff n x xs).mp ha
      simp only [divTwoLoop]
      obtain ⟨ihw, ihok, ihv⟩ := ih hxs
      generalize (divTwoLoop xs).2.1 = carry at ihv ⊢
      have hcell : x / 2 + (if carry = true then 2147483648 else 0) < W := by
        rw [W_eq] at *; split <;> omega
      refine ⟨(WF_cons_iff _ _ _).mpr ⟨hcell, ihw⟩, by simp [ihok, hcell], ?_⟩
      rw [val_cons, val_cons]
      generalize val (divTwoLoop xs).1 = vr at ihv ⊢
      generalize val xs = vx at ihv ⊢
      rw [W_eq] at *
      cases carry <;> simp only [Bool.toNat_false, Bool.toNat_true, Bool.false_eq_true, if_false, if_true] at ihv ⊢
      · by_cases h : x % 2 = 1 <;> simp [h] <;> omega
      · by_cases h : x % 2 = 1 <;> simp [h] <;> omega

theorem divTwo_eq {n : Nat} {a : List Nat} (ha : WF n a) : divTwo a = some (ofNat n (val a / 2)) := by
  obtain ⟨hw, hok, hv⟩ := divTwoLoop_spec ha
  unfold divTwo
  rw [if_pos hok]
  have hc : (divTwoLoop a).2.1.toNat ≤ 1 := by cases (divTwoLoop a).2.1 <;> simp
  have : val a / 2 = val (divTwoLoop a).1 := by omega
  rw [this, ofNat_val hw]
end TF.U32s
namespace TF.U32s

theorem lexCmp_snoc (x y : Nat) : ∀ (l1 l2 : List Nat), l1.length = l2.length →
    lexCmp (l1 ++ [x]) (l2 ++ [y]) = (lexCmp l1 l2).then (compare x y)
  | [], [], _ => by
    simp only [List.nil_append, lexCmp]
    cases compare x y <;> rfl
  | [], _ :: _, h => by simp at h
  | _ :: _, [], h => by simp at h
  | a :: l1, b :: l2, h => by
    simp only [List.cons_append, lexCmp]
    cases compare a b
    · rfl
    · exact lexCmp_snoc x y l1 l2 (by simpa using h)
    · rfl

theorem cmp_cons {n : Nat} (x y : Nat) {xs ys : List Nat} (hx : WF n xs) (hy : WF n ys) :
    cmp (x :: xs) (y :: ys) = (cmp xs ys).then (compare x y) := by
  unfold cmp
  rw [List.reverse_cons, List.reverse_cons]
  exact lexCmp_snoc x y _ _ (by simp [hx.1, hy.1])

theorem compare_limb {x y vx vy : Nat} (hx : x < W) (hy : y < W) :
    compare (x + W * vx) (y + W * vy) = (compare vx vy).then (compare x y) := by
  rw [W_eq] at *
  rcases Nat.lt_trichotomy vx vy with h | h | h
  · rw [Nat.compare_eq_lt.mpr h, Nat.compare_eq_lt.mpr (by omega)]; rfl
  · subst h
    rw [Nat.compare_eq_eq.mpr rfl]
    rcases Nat.lt_trichotomy x y with h | h | h
    · rw [Nat.compare_eq_lt.mpr h, Nat.compare_eq_lt.mpr (by omega)]; rfl
    · subst h; rw [Nat.compare_eq_eq.mpr rfl, Nat.compare_eq_eq.mpr rfl]; rfl
    · rw [Nat.compare_eq_gt.mpr h, Nat.compare_eq_gt.mpr (by omega)]; rfl
  · rw [Nat.compare_eq_gt.mpr h, Nat.compare_eq_gt.mpr (by omega)]; rfl

theorem cmp_eq_compare {n : Nat} {a b : List Nat} (ha : WF n a) (hb : WF n b) :
    cmp a b = compare (val a) (val b) := by
  induction a generalizing n b with
  | nil =>
    cases n with
    | zero => have := (WF_zero_iff b).mp hb; subst this; rfl
    | succ n => exact absurd ha (WF_succ_nil n)
  | cons x xs ih =>
    cases n with
    | zero => simp [WF] at ha
    | succ n =>
      cases b with
      | nil => exact absurd hb (WF_succ_nil n)
      | cons y ys =>
        obtain ⟨hx, hxs⟩ := (WF_cons_iff n x xs).mp ha
        obtain ⟨hy, hys⟩ := (WF_cons_iff n y ys).mp hb
        rw [cmp_cons x y hxs hys, ih hxs hys, val_cons, val_cons, compare_limb hx hy]

theorem ge_iff {n : Nat} {a b : List Nat} (ha : WF n a) (hb : WF n b) : ge a b = true ↔ val b ≤ val a := by
  unfold ge
  rw [cmp_eq_compare ha hb]
  rcases Nat.lt_trichotomy (val a) (val b) with h | h | h
  · rw [Nat.compare_eq_lt.mpr h]; simp; omega
  · rw [Nat.compare_eq_eq.mpr h]; simp; omega
  · rw [Nat.compare_eq_gt.mpr h]; simp; omega
end TF.U32s

namespace TF.U32s

theorem bit_head {i : Nat} (x v : Nat) (hi : i < 32) : (x + W * v) / 2 ^ i % 2 = x / 2 ^ i % 2 := by
  rw [W_eq]
  interval_cases i <;> omega

theorem bit_tail {i : Nat} (x v : Nat) (hx : x < W) (hi : 32 ≤ i) : (x + W * v) / 2 ^ i = v / 2 ^ (i - 32) := by
  have e : 2 ^ i = W * 2 ^ (i - 32) := by
    rw [W_eq, show (4294967296 : Nat) = 2 ^ 32 by norm_num, ← Nat.pow_add]; congr 1; omega
  rw [e, ← Nat.div_div_eq_div_mul, Nat.add_mul_div_left _ _ W_pos, Nat.div_eq_of_lt hx, Nat.zero_add]

theorem setBit_head {i : Nat} (x : Nat) (v : Bool) (hx : x < W) (hi : i < 32) :
    x - (x / 2 ^ i % 2) * 2 ^ i + (if v then 2 ^ i else 0) < W ∧
    (x - (x / 2 ^ i % 2) * 2 ^ i + (if v then 2 ^ i else 0)) + (x / 2 ^ i % 2) * 2 ^ i
      = x + (if v then 2 ^ i else 0) := by
  rw [W_eq] at *
  cases v <;> simp only [Bool.false_eq_true, if_false, if_true] <;> interval_cases i <;> omega

theorem getBit_spec {n : Nat} {a : List Nat} (ha : WF n a) {i : Nat} (hi : i < 32 * n) :
    getBit a i = some (decide (val a / 2 ^ i % 2 = 1)) := by
  induction a generalizing n i with
  | nil =>
    cases n with
    | zero => omega
    | succ n => exact absurd ha (WF_succ_nil n)
  | cons x xs ih =>
    cases n with
    | zero => simp [WF] at ha
    | succ n =>
      obtain ⟨hx, hxs⟩ := (WF_cons_iff n x xs).mp ha
      rw [getBit, val_cons]
      by_cases h : i < 32
      · rw [if_pos h, bit_head x _ h]
      · rw [if_neg h, bit_tail x _ hx (by omega), ih hxs (by omega)]

theorem setBit_spec {n : Nat} {a : List Nat} (ha : WF n a) {i : Nat} (hi : i < 32 * n) (v : Bool) :
    ∃ r, setBit a i v = some r ∧ WF n r ∧
      val r + (val a / 2 ^ i % 2) * 2 ^ i = val a + (if v then 2 ^ i else 0) := by
  induction a generalizing n i with
  | nil =>
    cases n with
    | zero => omega
    | succ n => exact absurd ha (WF_succ_nil n)
  | cons x xs ih =>
    cases n with
    | zero => simp [WF] at ha
    | succ n =>
      obtain ⟨hx, hxs⟩ := (WF_cons_iff n x xs).mp ha
      rw [setBit, val_cons]
      by_cases h : i < 32
      · rw [if_pos h, bit_head x _ h]
        obtain ⟨h1, h2⟩ := setBit_head x v hx h
        refine ⟨_, rfl, (WF_cons_iff _ _ _).mpr ⟨h1, hxs⟩, ?_⟩
        rw [val_cons]; omega
      · rw [if_neg h, bit_tail x _ hx (by omega)]
        obtain ⟨r, hr, hw, hv⟩ := ih hxs (i := i - 32) (by omega)
        refine ⟨x :: r, by rw [hr]; rfl, (WF_cons_iff _ _ _).mpr ⟨hx, hw⟩, ?_⟩
        rw [val_cons]
        have e : 2 ^ i = W * 2 ^ (i - 32) := by
          rw [W_eq, show (4294967296 : Nat) = 2 ^ 32 by norm_num, ← Nat.pow_add]; congr 1; omega
        rw [e]
        generalize 2 ^ (i - 32) = t at hv ⊢
        generalize val xs / t % 2 = b at hv ⊢
        have e2 : b * (W * t) = W * (b * t) := by ring
        rw [e2]
        cases v <;> simp only [Bool.false_eq_true, if_false, if_true] at hv ⊢
        · rw [W_eq]; omega
        · have : val r + b * t = val xs + t := hv
          calc x + W * val r + W * (b * t) = x + W * (val r + b * t) := by ring
            _ = x + W * (val xs + t) := by rw [this]
            _ = x + W * val xs + W * t := by ring
end TF.U32s

namespace TF.U32s

theorem remDivStep_spec {n : Nat} {a d q r : List Nat} (ha : WF n a) (hd : WF n d) (hq : WF n q) (hr : WF n r)
    {i : Nat} (hi : i < 32 * n) (h1 : val r < val d) (h2 : 2 * val r + val a / 2 ^ i % 2 < W ^ n)
    (h3 : val q / 2 ^ i % 2 = 0) :
    ∃ q1 r1, remDivStep a d i q r = some (q1, r1) ∧ WF n q1 ∧ WF n r1 ∧ val r1 < val d ∧
      ((val r1 = 2 * val r + val a / 2 ^ i % 2 ∧ val q1 = val q) ∨
       (val r1 + val d = 2 * val r + val a / 2 ^ i % 2 ∧ val q1 = val q + 2 ^ i)) := by
  have hbit : val a / 2 ^ i % 2 < 2 := Nat.mod_lt _ (by decide)
  generalize hb : val a / 2 ^ i % 2 = bit at *
  -- mul_two
  have hm : mulTwo r = norm n (2 * val r) := mulTwo_eq_norm hr
  have hfit : 2 * val r < W ^ n := by omega
  rw [norm, if_pos hfit] at hm
  have hw1 : WF n (ofNat n (2 * val r)) := WF_ofNat _ _
  have hv1 : val (ofNat n (2 * val r)) = 2 * val r := val_ofNat_of_lt hfit
  generalize ofNat n (2 * val r) = r1 at hm hw1 hv1
  -- get_bit
  have hg : getBit a i = some (decide (bit = 1)) := by rw [getBit_spec ha hi, hb]
  -- set_bit 0
  obtain ⟨r2, hs, hw2, hv2⟩ := setBit_spec hw1 (i := 0) (by omega) (decide (bit = 1))
  have hv2' : val r2 = 2 * val r + bit := by
    rw [hv1] at hv2
    simp only [Nat.pow_zero, Nat.div_one, Nat.mul_one] at hv2
    have : 2 * val r % 2 = 0 := by omega
    rw [this] at hv2
    rcases (by omega : bit = 0 ∨ bit = 1) with h | h <;> subst h <;> simp at hv2 <;> omega
  unfold remDivStep
  rw [hm, Option.bind_some, hg, Option.bind_some, hs, Option.bind_some]
  by_cases hge : ge r2 d = true
  · rw [if_pos hge]
    have hle : val d ≤ val r2 := (ge_iff hw2 hd).mp hge
    rw [sub_eq hw2 hd, if_pos hle, Option.bind_some]
    have hlt3 : val r2 - val d < W ^ n := by have := val_lt hw2; omega
    obtain ⟨q1, hq1, hwq, hvq⟩ := setBit_spec hq hi true
    rw [hq1, Option.bind_some]
    refine ⟨q1, _, rfl, hwq, WF_ofNat _ _, ?_, Or.inr ⟨?_, ?_⟩⟩
    · rw [val_ofNat_of_lt hlt3]; omega
    · rw [val_ofNat_of_lt hlt3]; omega
    · rw [h3] at hvq; simpa using hvq
  · rw [if_neg hge]
    have hlt : ¬ val d ≤ val r2 := fun h => hge ((ge_iff hw2 hd).mpr h)
    exact ⟨q, r2, rfl, hq, hw2, by omega, Or.inl ⟨hv2', rfl⟩⟩

theorem remDivLoop_spec {n : Nat} {a d : List Nat} (ha : WF n a) (hd : WF n d) :
    ∀ (i : Nat) (q r : List Nat), WF n q → WF n r → i ≤ 32 * n → val r < val d →
      val r ≤ val a / 2 ^ i → val q % 2 ^ i = 0 →
      ∃ q' r', remDivLoop a d i q r = some (q', r') ∧ WF n q' ∧ WF n r' ∧
        val q' = val q + (val r * 2 ^ i + val a % 2 ^ i) / val d ∧
        val r' = (val r * 2 ^ i + val a % 2 ^ i) % val d := by
  intro i
  induction i with
  | zero =>
    intro q r hq hr _ h1 _ _
    refine ⟨q, r, rfl, hq, hr, ?_, ?_⟩
    · simp [Nat.mod_one, Nat.div_eq_of_lt h1]
    · simp [Nat.mod_one, Nat.mod_eq_of_lt h1]
  | succ i ih =>
    intro q r hq hr hi h1 h2 h3
    have hA := val_lt ha
    have hp : 0 < 2 ^ i := Nat.pow_pos (by decide)
    rw [Nat.pow_succ] at h2 h3
    -- A / p = 2 * (A / (2p)) + bit ; A % (2p) = A % p + p * bit
    have e1 : val a / 2 ^ i / 2 = val a / (2 ^ i * 2) := Nat.div_div_eq_div_mul _ _ _
    have e2 : val a % (2 ^ i * 2) = val a % 2 ^ i + 2 ^ i * (val a / 2 ^ i % 2) := Nat.mod_mul
    have e3 : val a / 2 ^ i ≤ val a := Nat.div_le_self _ _
    have hq0 : val q / 2 ^ i % 2 = 0 := by
      have : val q % (2 ^ i * 2) = val q % 2 ^ i + 2 ^ i * (val q / 2 ^ i % 2) := Nat.mod_mul
      rw [h3] at this
      have h0 : 2 ^ i * (val q / 2 ^ i % 2) = 0 := by omega
      rcases Nat.mul_eq_zero.mp h0 with h | h
      · omega
      · exact h
    have hqp : val q % 2 ^ i = 0 := by
      have : val q % (2 ^ i * 2) = val q % 2 ^ i + 2 ^ i * (val q / 2 ^ i % 2) := Nat.mod_mul
      omega
    obtain ⟨q1, r1, hs, hwq, hwr, hlt, hcase⟩ :=
      remDivStep_spec ha hd hq hr (i := i) (by omega) h1 (by omega) hq0
    have hr1 : val r1 ≤ val a / 2 ^ i := by rcases hcase with ⟨h, _⟩ | ⟨h, _⟩ <;> omega
    have hq1 : val q1 % 2 ^ i = 0 := by
      rcases hcase with ⟨_, h⟩ | ⟨_, h⟩
      · rw [h]; exact hqp
      · rw [h, Nat.add_mod_right]; exact hqp
    obtain ⟨q', r', hl, hwq', hwr', hvq, hvr⟩ := ih q1 r1 hwq hwr (by omega) hlt hr1 hq1
    refine ⟨q', r', ?_, hwq', hwr', ?_, ?_⟩
    · rw [remDivLoop, hs, Option.bind_some]; exact hl
    all_goals
      rw [Nat.pow_succ, e2]
      generalize val a / 2 ^ i % 2 = bit at *
      generalize val a % 2 ^ i = lo at *
      generalize 2 ^ i = p at *
      rcases hcase with ⟨hc1, hc2⟩ | ⟨hc1, hc2⟩
    · have : val r * (p * 2) + (lo + p * bit) = val r1 * p + lo := by rw [hc1]; ring
      rw [this, hvq, hc2]
    · have : val r * (p * 2) + (lo + p * bit) = val r1 * p + lo + val d * p := by
        have : 2 * val r + bit = val r1 + val d := hc1.symm
        calc val r * (p * 2) + (lo + p * bit) = (2 * val r + bit) * p + lo := by ring
          _ = (val r1 + val d) * p + lo := by rw [this]
          _ = val r1 * p + lo + val d * p := by ring
      rw [this, hvq, hc2, Nat.add_mul_div_left _ _ (by omega : 0 < val d)]; ring
    · have : val r * (p * 2) + (lo + p * bit) = val r1 * p + lo := by rw [hc1]; ring
      rw [this, hvr]
    · have : val r * (p * 2) + (lo + p * bit) = val r1 * p + lo + val d * p := by
        have : 2 * val r + bit = val r1 + val d := hc1.symm
        calc val r * (p * 2) + (lo + p * bit) = (2 * val r + bit) * p + lo := by ring
          _ = (val r1 + val d) * p + lo := by rw [this]
          _ = val r1 * p + lo + val d * p := by ring
      rw [this, hvr, Nat.add_mul_mod_self_left]
end TF.U32s

namespace TF.U32s

theorem WF_zero (n : Nat) : WF n (zero n) := by
  unfold zero WF
  refine ⟨List.length_replicate, ?_⟩
  intro x hx; rw [List.eq_of_mem_replicate hx]; exact W_pos

theorem val_zero (n : Nat) : val (zero n) = 0 := by
  induction n with
  | zero => rfl
  | succ n ih => show val (0 :: zero n) = 0; rw [val_cons, ih]; rfl

theorem isZero_iff {a : List Nat} : isZero a = true ↔ val a = 0 := by
  induction a with
  | nil => simp [isZero]
  | cons x xs ih =>
    have : isZero (x :: xs) = (x == 0 && isZero xs) := by simp [isZero]
    rw [this, val_cons, Bool.and_eq_true, ih]
    have := W_pos
    constructor
    · rintro ⟨h1, h2⟩; simp at h1; rw [h1, h2]; rfl
    · intro h
      have hx : x = 0 := by omega
      have : W * val xs = 0 := by omega
      rcases Nat.mul_eq_zero.mp this with h' | h'
      · omega
      · exact ⟨by simp [hx], h'⟩

theorem W_pow (n : Nat) : W ^ n = 2 ^ (n * 32) := by
  rw [W_eq, show (4294967296 : Nat) = 2 ^ 32 by norm_num, ← Nat.pow_mul, Nat.mul_comm]

theorem remDiv_eq {n : Nat} {a d : List Nat} (ha : WF n a) (hd : WF n d) :
    remDiv a d = if val d = 0 then none
      else some (ofNat n (val a / val d), ofNat n (val a % val d)) := by
  unfold remDiv
  by_cases hz : val d = 0
  · rw [if_pos (isZero_iff.mpr hz), if_pos hz]
  · have hnz : ¬ isZero d = true := fun h => hz (isZero_iff.mp h)
    rw [if_neg hnz, if_neg hz, ha.1]
    have hA := val_lt ha
    obtain ⟨q', r', hl, hwq, hwr, hvq, hvr⟩ :=
      remDivLoop_spec ha hd (n * 32) (zero n) (zero n) (WF_zero n) (WF_zero n) (by omega)
        (by rw [val_zero]; omega) (by rw [val_zero]; exact Nat.zero_le _) (by rw [val_zero]; simp)
    rw [hl]
    rw [val_zero, Nat.zero_mul, Nat.zero_add, ← W_pow, Nat.mod_eq_of_lt hA] at hvq hvr
    rw [Nat.zero_add] at hvq
    rw [← hvq, ← hvr, ofNat_val hwq, ofNat_val hwr]
end TF.U32s

namespace TF.U32s

theorem norm_bind_norm {n u t : Nat} {f : List Nat → Option (List Nat)}
    (h : ∀ r, WF n r → val r = u → f r = norm n (u + t)) : (norm n u).bind f = norm n (u + t) := by
  by_cases hu : u < W ^ n
  · rw [norm, if_pos hu, Option.bind_some]
    exact h _ (WF_ofNat n u) (val_ofNat_of_lt hu)
  · rw [norm, if_neg hu, Option.bind_none, norm_eq_none (by omega)]

theorem norm_map_cons {n c v : Nat} (hc : c < W) :
    (norm n v).map (c :: ·) = norm (n + 1) (c + W * v) := by
  have hp : W ^ (n + 1) = W * W ^ n := by rw [Nat.pow_succ, Nat.mul_comm]
  by_cases hv : v < W ^ n
  · have h2 : c + W * v < W ^ (n + 1) := by
      rw [hp]
      have : W * (v + 1) ≤ W * W ^ n := Nat.mul_le_mul_left _ hv
      rw [Nat.mul_add] at this; omega
    rw [norm, if_pos hv, norm, if_pos h2, Option.map_some, ofNat]
    rw [Nat.add_mul_mod_self_left, Nat.mod_eq_of_lt hc, Nat.add_mul_div_left _ _ W_pos,
      Nat.div_eq_of_lt hc, Nat.zero_add]
  · have h2 : ¬ c + W * v < W ^ (n + 1) := by
      rw [hp]
      have : W * W ^ n ≤ W * v := Nat.mul_le_mul_left _ (Nat.not_lt.mp hv)
      omega
    rw [norm, if_neg hv, norm, if_neg h2, Option.map_none]

theorem ripple_spec {n : Nat} {l : List Nat} (hl : WF n l) : ripple l = norm n (val l + 1) := by
  induction l generalizing n with
  | nil =>
    cases n with
    | zero => rfl
    | succ n => exact absurd hl (WF_succ_nil n)
  | cons x xs ih =>
    cases n with
    | zero => simp [WF] at hl
    | succ n =>
      obtain ⟨hx, hxs⟩ := (WF_cons_iff n x xs).mp hl
      rw [ripple]
      by_cases h : x + 1 < W
      · rw [if_pos h]
        exact (norm_eq_some ((WF_cons_iff _ _ _).mpr ⟨h, hxs⟩) (by rw [val_cons, val_cons]; omega)).symm
      · rw [if_neg h, ih hxs]
        have e : (x + 1) % W = 0 := by rw [W_eq] at *; omega
        rw [e, norm_map_cons W_pos, val_cons]
        congr 1
        rw [W_eq] at *; omega

theorem addHere_spec {n : Nat} {l : List Nat} (hl : WF (n + 1) l) {v : Nat} (hv : v < W) :
    addHere l v = norm (n + 1) (val l + v) := by
  cases l with
  | nil => exact absurd hl (WF_succ_nil n)
  | cons x xs =>
    obtain ⟨hx, hxs⟩ := (WF_cons_iff n x xs).mp hl
    rw [addHere]
    by_cases h : x + v < W
    · rw [if_pos h]
      exact (norm_eq_some ((WF_cons_iff _ _ _).mpr ⟨h, hxs⟩) (by rw [val_cons, val_cons]; omega)).symm
    · rw [if_neg h, ripple_spec hxs, norm_map_cons (Nat.mod_lt _ W_pos), val_cons]
      congr 1
      rw [W_eq] at *; omega

theorem addAt_spec {n : Nat} {l : List Nat} (hl : WF n l) {v : Nat} (hv : v < W) {p : Nat} (hp : p < n) :
    addAt l p v = norm n (val l + v * W ^ p) := by
  induction p generalizing n l with
  | zero =>
    cases n with
    | zero => omega
    | succ n =>
      have : addAt l 0 v = addHere l v := by cases l <;> rfl
      rw [this, addHere_spec hl hv, Nat.pow_zero, Nat.mul_one]
  | succ p ih =>
    cases n with
    | zero => omega
    | succ n =>
      cases l with
      | nil => exact absurd hl (WF_succ_nil n)
      | cons x xs =>
        obtain ⟨hx, hxs⟩ := (WF_cons_iff n x xs).mp hl
        rw [addAt, ih hxs (by omega), norm_map_cons hx, val_cons]
        congr 1
        rw [Nat.pow_succ]; ring

theorem pow_le_of_le {n p : Nat} (h : n ≤ p) : W ^ n ≤ W ^ p := Nat.pow_le_pow_right W_pos h

theorem mulStep_spec {n : Nat} {res : List Nat} (hres : WF n res) {x y : Nat} (hx : x < W) (hy : y < W) (pos : Nat) :
    mulStep res x y pos = norm n (val res + x * y * W ^ pos) := by
  have hxy : x * y < W * W := Nat.mul_lt_mul'' hx hy
  have hhi : x * y / W < W := Nat.div_lt_of_lt_mul hxy
  have hlo : x * y % W < W := Nat.mod_lt _ W_pos
  have hsplit : x * y = W * (x * y / W) + x * y % W := (Nat.div_add_mod _ _).symm
  have hz : x * y = 0 → x * y / W = 0 ∧ x * y % W = 0 := by intro h; rw [h]; simp
  unfold mulStep
  simp only [hres.1]
  generalize x * y / W = hi at *
  generalize x * y % W = lo at *
  generalize x * y = hl at *
  have hWp : 0 < W ^ pos := Nat.pow_pos W_pos
  by_cases c1 : pos < n ∨ (hi = 0 ∧ lo = 0)
  · rw [if_neg (not_not.mpr c1)]
    by_cases c2 : hi = 0 ∧ lo = 0
    · rw [if_pos c2]
      obtain ⟨h1, h2⟩ := c2; subst h1; subst h2
      have : hl = 0 := by omega
      rw [this, Nat.zero_mul, Nat.add_zero, norm_val hres]
    · rw [if_neg c2]
      have hpos : pos < n := by tauto
      rw [addAt_spec hres hlo hpos]
      by_cases c3 : hi = 0
      · simp only [if_pos c3]
        subst c3
        have : hl = lo := by omega
        rw [this]
        have := @norm_bind_norm n (val res + lo * W ^ pos) 0 (fun r1 => some r1)
          (fun r hr hv => by rw [Nat.add_zero, ← hv]; exact (norm_val hr).symm)
        simpa using this
      · simp only [if_neg c3]
        by_cases c4 : pos + 1 < n
        · simp only [if_neg (not_not.mpr c4)]
          have e : val res + hl * W ^ pos = val res + lo * W ^ pos + hi * W ^ (pos + 1) := by
            rw [hsplit, Nat.pow_succ]; ring
          rw [e]
          apply norm_bind_norm
          intro r hr hv
          rw [addAt_spec hr hhi c4, hv]
        · simp only [if_pos c4]
          have hge : W ^ n ≤ val res + hl * W ^ pos := by
            have h1 : W ^ n ≤ W ^ (pos + 1) := pow_le_of_le (by omega)
            have h2 : W ^ (pos + 1) ≤ hl * W ^ pos := by
              rw [Nat.pow_succ, Nat.mul_comm]
              apply Nat.mul_le_mul_right
              rw [hsplit]
              have : W * 1 ≤ W * hi := Nat.mul_le_mul_left _ (by omega)
              omega
            omega
          rw [norm_eq_none hge]
          cases norm n (val res + lo * W ^ pos) <;> rfl
  · rw [if_pos c1]
    have hge : W ^ n ≤ val res + hl * W ^ pos := by
      have h1 : W ^ n ≤ W ^ pos := pow_le_of_le (by omega)
      have hl1 : 1 ≤ hl := by
        rcases Nat.eq_zero_or_pos hl with h | h
        · exact absurd (hz h) (fun h' => c1 (Or.inr h'))
        · exact h
      have h2 : 1 * W ^ pos ≤ hl * W ^ pos := Nat.mul_le_mul_right _ hl1
      omega
    rw [norm_eq_none hge]

theorem mulInner_spec {n : Nat} {x : Nat} (hx : x < W) (i : Nat) :
    ∀ (ys : List Nat) (res : List Nat) (j : Nat), WF n res → (∀ y ∈ ys, y < W) →
      mulInner res x i ys j = norm n (val res + x * val ys * W ^ (i + j))
  | [], res, j, hres, _ => by
    rw [mulInner, val_nil, Nat.mul_zero, Nat.zero_mul, Nat.add_zero, norm_val hres]
  | y :: ys, res, j, hres, hys => by
    have hy : y < W := hys y (List.mem_cons_self)
    have hys' : ∀ z ∈ ys, z < W := fun z hz => hys z (List.mem_cons_of_mem _ hz)
    rw [mulInner, mulStep_spec hres hx hy]
    have e : val res + x * val (y :: ys) * W ^ (i + j)
        = val res + x * y * W ^ (i + j) + x * val ys * W ^ (i + (j + 1)) := by
      rw [val_cons, ← Nat.add_assoc i j 1, Nat.pow_succ]; ring
    rw [e]
    apply norm_bind_norm
    intro r hr hv
    rw [mulInner_spec hx i ys r (j + 1) hr hys', hv]

theorem mulOuter_spec {n : Nat} {b : List Nat} (hb : ∀ y ∈ b, y < W) :
    ∀ (xs : List Nat) (res : List Nat) (i : Nat), WF n res → (∀ x ∈ xs, x < W) →
      mulOuter b res xs i = norm n (val res + val xs * val b * W ^ i)
  | [], res, i, hres, _ => by
    rw [mulOuter, val_nil, Nat.zero_mul, Nat.zero_mul, Nat.add_zero, norm_val hres]
  | x :: xs, res, i, hres, hxs => by
    have hx : x < W := hxs x (List.mem_cons_self)
    have hxs' : ∀ z ∈ xs, z < W := fun z hz => hxs z (List.mem_cons_of_mem _ hz)
    rw [mulOuter, mulInner_spec hx i b res 0 hres hb]
    have e : val res + val (x :: xs) * val b * W ^ i
        = val res + x * val b * W ^ (i + 0) + val xs * val b * W ^ (i + 1) := by
      rw [val_cons, Nat.add_zero, Nat.pow_succ]; ring
    rw [e]
    apply norm_bind_norm
    intro r hr hv
    rw [mulOuter_spec hb xs r (i + 1) hr hxs', hv]

theorem mul_eq_norm {n : Nat} {a b : List Nat} (ha : WF n a) (hb : WF n b) :
    mul a b = norm n (val a * val b) := by
  unfold mul
  rw [ha.1, mulOuter_spec hb.2 a (zero n) 0 (WF_zero n) ha.2, val_zero, Nat.pow_zero, Nat.mul_one, Nat.zero_add]
end TF.U32s

namespace TF.U32s

theorem sum_fold {n : Nat} : ∀ (l : List (List Nat)) (u : Nat), (∀ b ∈ l, WF n b) →
    l.foldl (fun acc b => acc.bind fun a => add a b) (norm n u) = norm n (u + (l.map val).sum)
  | [], u, _ => by simp
  | b :: l, u, h => by
    have hb : WF n b := h b (List.mem_cons_self)
    have hl : ∀ c ∈ l, WF n c := fun c hc => h c (List.mem_cons_of_mem _ hc)
    rw [List.foldl_cons, List.map_cons, List.sum_cons, ← Nat.add_assoc]
    have : ((norm n u).bind fun a => add a b) = norm n (u + val b) :=
      norm_bind_norm (fun r hr hv => by rw [add_eq_norm hr hb, hv])
    rw [this]
    exact sum_fold l (u + val b) hl

theorem sum_eq_norm {n : Nat} {l : List (List Nat)} (h : ∀ b ∈ l, WF n b) :
    sum n l = norm n (l.map val).sum := by
  unfold sum
  rw [← norm_val (WF_zero n), sum_fold l _ h, val_zero, Nat.zero_add]

theorem toBig_eq_val (a : List Nat) : toBig a = val a := by
  induction a with
  | nil => rfl
  | cons x xs ih =>
    unfold toBig at *
    rw [List.reverse_cons, List.foldl_append, List.foldl_cons, List.foldl_nil, ih, val_cons]; ring

theorem ofNat_zero (n : Nat) : ofNat n 0 = zero n := by
  induction n with
  | zero => rfl
  | succ n ih => rw [ofNat, Nat.zero_mod, Nat.zero_div, ih]; rfl

theorem fromU32_zero (v : Nat) : fromU32 0 v = none := rfl

theorem fromU32_succ (n : Nat) {v : Nat} (hv : v < W) : fromU32 (n + 1) v = some (ofNat (n + 1) v) := by
  have : zero (n + 1) = 0 :: zero n := rfl
  rw [fromU32, this, ofNat, Nat.mod_eq_of_lt hv, Nat.div_eq_of_lt hv, ofNat_zero]

theorem W_pow_one : W ^ 1 = 4294967296 := by rw [W_eq]; norm_num
theorem W_pow_two : W ^ 2 = 18446744073709551616 := by rw [W_eq]; norm_num
theorem W_pow_three : W ^ 3 = 79228162514264337593543950336 := by rw [W_eq]; norm_num
theorem W_pow_four : W ^ 4 = 340282366920938463463374607431768211456 := by rw [W_eq]; norm_num

theorem tryFromU64_eq_norm (n : Nat) {v : Nat} (hv : v < 18446744073709551616) :
    tryFromU64 n v = norm n v := by
  unfold tryFromU64 fromBig norm
  match n with
  | 0 => simp only [Nat.pow_zero]; by_cases h : v = 0 <;> simp [h]
  | 1 => simp only [W_pow_one, U32MAX]; by_cases h : v > 4294967295 <;> simp [h] <;> omega
  | n + 2 =>
    have : W ^ 2 ≤ W ^ (n + 2) := pow_le_of_le (by omega)
    rw [W_pow_two] at this
    simp only
    rw [if_pos (by omega)]

theorem tryFromU128_eq_norm (n : Nat) {v : Nat} (hv : v < 340282366920938463463374607431768211456) :
    tryFromU128 n v = norm n v := by
  unfold tryFromU128 fromBig norm
  match n with
  | 0 => simp only [Nat.pow_zero]; by_cases h : v = 0 <;> simp [h]
  | 1 => simp only [W_pow_one, U32MAX]; by_cases h : v > 4294967295 <;> simp [h] <;> omega
  | 2 => simp only [W_pow_two]; by_cases h : v > 18446744073709551615 <;> simp [h] <;> omega
  | 3 => simp only [W_pow_three]; by_cases h : v ≥ 79228162514264337593543950336 <;> simp [h] <;> omega
  | n + 4 =>
    have : W ^ 4 ≤ W ^ (n + 4) := pow_le_of_le (by omega)
    rw [W_pow_four] at this
    simp only
    rw [if_pos (by omega)]

theorem mapM_check (s : List Nat) :
    (s.mapM fun e => if e ≤ U32MAX then some e else none) = if ∀ e ∈ s, e ≤ U32MAX then some s else none := by
  induction s with
  | nil => simp
  | cons x xs ih =>
    rw [List.mapM_cons, ih]
    by_cases hx : x ≤ U32MAX
    · by_cases hxs : ∀ e ∈ xs, e ≤ U32MAX
      · rw [if_pos hxs]; simp [hx]; exact hxs
      · rw [if_neg hxs]; simp [hx, hxs]
    · simp [hx]

theorem decode_eq (n : Nat) (s : List Nat) :
    decode n s = if s.length = n ∧ ∀ e ∈ s, e < W then some s else none := by
  unfold decode
  rw [mapM_check]
  have hW : ∀ e, e ≤ U32MAX ↔ e < W := by intro e; rw [W_eq]; unfold U32MAX; omega
  simp only [hW]
  by_cases h1 : 0 < n ∧ s.isEmpty = true
  · rw [if_pos h1, if_neg]
    rintro ⟨hl, _⟩
    have : s = [] := List.isEmpty_iff.mp h1.2
    subst this; simp at hl; omega
  · rw [if_neg h1]
    by_cases h2 : s.length < n
    · rw [if_pos h2, if_neg]; rintro ⟨hl, _⟩; omega
    · rw [if_neg h2]
      by_cases h3 : n < s.length
      · rw [if_pos h3, if_neg]; rintro ⟨hl, _⟩; omega
      · rw [if_neg h3]
        have : s.length = n := by omega
        simp [this]
end TF.U32s
