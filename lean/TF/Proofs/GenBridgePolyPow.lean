import TF.Proofs.GenBridgePolyMul
/-!
Bridge for `Polynomial::pow` regenerated from source (`TF/Gen/PolyLoops.lean`, `pow` / `pow_for`): the `let … else` on
`checked_ilog2`, the zero-base early return and the square-and-multiply `for i in 0..=bit_length` loop with
`pow >> (bit_length - i) & 1` are the hand model `pow` / `powLoop` of `TF/Model/PolyMul.lean`, for every exponent that is a
`u32`.  `gen = some model` also says that nothing panics: the subtraction `bit_length - i` never underflows, the shift amount
stays below 32 and `slow_square` / `*` have no index panic.  Uses the double-loop bridges (hence `AddLaws`).
-/
namespace TF.GenBridge.Poly
open TF TF.Model.Poly TF.PolyStd

variable {α : Type}

/-- the regenerated loop over `List.range' (bl + 1 - n) n` is `powLoop` with `n` steps left -/
theorem pow_for_eq (F : FieldOps α) (hL : AddLaws F) (p : List α) (e bl : Nat) (hbl : bl < 32) :
    ∀ (n : Nat) (acc : List α), n ≤ bl + 1 →
      TF.Gen.Poly.pow_for F p e bl (List.range' (bl + 1 - n) n) acc
        = powLoop (fun acc => some (slowSquare F acc)) (fun acc => some (mul F acc p)) e bl n acc := by
  intro n
  induction n with
  | zero => intro acc _; simp [TF.Gen.Poly.pow_for, powLoop]
  | succ n ih =>
    intro acc hn
    have hsub : usub? bl (bl + 1 - (n + 1)) = some (bl - (bl + 1 - (n + 1))) := by
      simp only [usub?]; rw [if_pos (by omega)]
    have hshr : ushr? 32 e (bl - (bl + 1 - (n + 1))) = some (e >>> (bl - (bl + 1 - (n + 1)))) := by
      simp only [ushr?]; rw [if_pos (by omega)]
    have hnext : bl + 1 - (n + 1) + 1 = bl + 1 - n := by omega
    simp only [List.range'_succ, TF.Gen.Poly.pow_for, slow_square_eq F hL, Option.bind_some, hsub, hshr, powLoop,
      mul_eq_naive, naive_multiply_eq F F F hL, hnext, bind, pure]
    by_cases hb : (e >>> (bl - (bl + 1 - (n + 1))) &&& 1) = 1
    · simp only [hb, beq_self_eq_true, if_true, Option.bind_some]
      exact ih _ (by omega)
    · have hb' : ((e >>> (bl - (bl + 1 - (n + 1))) &&& 1) == 1) = false := by simpa using hb
      simp only [hb', Bool.false_eq_true, if_false, Option.bind_some]
      exact ih _ (by omega)

/-- with total steps the loop of the hand model returns (the `none` arm of the model's `match` is not reachable) -/
theorem powLoop_total (sq ml : List α → List α) (e bl : Nat) :
    ∀ (n : Nat) (acc : List α), ∃ r, powLoop (fun a => some (sq a)) (fun a => some (ml a)) e bl n acc = some r := by
  intro n
  induction n with
  | zero => intro acc; exact ⟨acc, rfl⟩
  | succ n ih =>
    intro acc
    simp only [powLoop, bind, pure, Option.bind_some]
    split
    · exact ih _
    · exact ih _

/-- **regenerated `pow` = hand model `pow`** for every `u32` exponent, every storage of the base; it never panics -/
theorem pow_eq (F : FieldOps α) (hL : AddLaws F) (p : List α) (e : Nat) (he : e < 2 ^ 32) :
    TF.Gen.Poly.pow F p e = some (pow F p e) := by
  by_cases h0 : e = 0
  · subst h0; simp [TF.Gen.Poly.pow, pow, one_eq]
  · have hbl : Nat.log2 e < 32 := by
      have := (Nat.log2_lt h0).2 he; exact this
    have hfor := pow_for_eq F hL p e (Nat.log2 e) hbl (Nat.log2 e + 1) (one F) (Nat.le_refl _)
    simp only [Nat.sub_self] at hfor
    have hb : (e == 0) = false := by simpa using h0
    simp only [TF.Gen.Poly.pow, pow, hb, Bool.false_eq_true, if_false, degree_eq, Option.bind_some, one_eq, zero_eq,
      Nat.sub_zero, hfor]
    by_cases hd : degree F p < 0
    · simp [hd, zero]
    · simp only [hd, decide_false, Bool.false_eq_true, if_false]
      obtain ⟨r, hr⟩ := powLoop_total (slowSquare F) (fun acc => mul F acc p) e (Nat.log2 e) (Nat.log2 e + 1) (one F)
      simp only [hr, Option.bind_some]

/-! ### `fast_pow` -/

/-- regenerated dispatcher `square` on top of the regenerated `fast_square` = hand model `square` at the cut-off 64 -/
theorem square_full_eq (F : FieldOps α) (hL : AddLaws F) (T : Transform α) (p : List α) :
    TF.Gen.Poly.square F (TF.Gen.Poly.fast_square F T.ntt T.intt) p = square F 64 T p := by
  rw [square_dispatch, slow_square_eq F hL, fast_square_eq]
  unfold square slowSquare degree
  cases h : normalize F p with
  | nil => simp
  | cons c cs =>
    have h1 : ¬ (((c :: cs).length : Int) - 1 = -1) := by simp only [List.length_cons]; omega
    have h2 : (((c :: cs).length : Int) - 1).toNat = cs.length := by simp only [List.length_cons]; omega
    simp only [h1, if_false, h2]

/-- regenerated dispatcher `multiply` on top of the regenerated `fast_multiply` = hand model `multiply` at the regenerated
    threshold -/
theorem multiply_full_eq (F : FieldOps α) (hL : AddLaws F) (T : Transform α) (a b : List α) :
    TF.Gen.Poly.multiply F F F F.mul (TF.Gen.Poly.fast_multiply F F F F.mul T.ntt T.ntt T.intt) a b
      = multiply F (TF.Gen.FAST_MULTIPLY_CUTOFF_THRESHOLD : Int) T a b := by
  rw [multiply_dispatch, naive_multiply_eq F F F hL, fast_multiply_eq]
  rfl

theorem fast_pow_for_eq (F : FieldOps α) (hL : AddLaws F) (T : Transform α) (p : List α) (e bl : Nat) (hbl : bl < 32) :
    ∀ (n : Nat) (acc : List α), n ≤ bl + 1 →
      TF.Gen.Poly.fast_pow_for F (TF.Gen.Poly.fast_square F T.ntt T.intt)
          (TF.Gen.Poly.fast_multiply F F F F.mul T.ntt T.ntt T.intt) p e bl (List.range' (bl + 1 - n) n) acc
        = powLoop (square F 64 T) (fun acc => multiply F (TF.Gen.FAST_MULTIPLY_CUTOFF_THRESHOLD : Int) T p acc) e bl n acc := by
  intro n
  induction n with
  | zero => intro acc _; simp [TF.Gen.Poly.fast_pow_for, powLoop]
  | succ n ih =>
    intro acc hn
    have hsub : usub? bl (bl + 1 - (n + 1)) = some (bl - (bl + 1 - (n + 1))) := by
      simp only [usub?]; rw [if_pos (by omega)]
    have hshr : ushr? 32 e (bl - (bl + 1 - (n + 1))) = some (e >>> (bl - (bl + 1 - (n + 1)))) := by
      simp only [ushr?]; rw [if_pos (by omega)]
    have hnext : bl + 1 - (n + 1) + 1 = bl + 1 - n := by omega
    simp only [List.range'_succ, TF.Gen.Poly.fast_pow_for, square_full_eq F hL, powLoop, hnext, bind, pure]
    cases hs : square F 64 T acc with
    | none => simp
    | some acc1 =>
      simp only [Option.bind_some, hsub, hshr, multiply_full_eq F hL]
      by_cases hb : (e >>> (bl - (bl + 1 - (n + 1))) &&& 1) = 1
      · simp only [hb, beq_self_eq_true, if_true]
        cases hm : multiply F (TF.Gen.FAST_MULTIPLY_CUTOFF_THRESHOLD : Int) T p acc1 with
        | none => simp
        | some acc2 => simp only [Option.bind_some]; exact ih _ (by omega)
      · have hb' : ((e >>> (bl - (bl + 1 - (n + 1))) &&& 1) == 1) = false := by simpa using hb
        simp only [hb', Bool.false_eq_true, if_false, Option.bind_some]
        exact ih _ (by omega)

/-- **regenerated `fast_pow` (on top of the regenerated `square`, `multiply`, `fast_square`, `fast_multiply` and arbitrary
    transforms) = hand model `fastPow`** at the cut-off 64 and the regenerated multiplication threshold, for every `u32`
    exponent and every storage, including every panic of the transforms -/
theorem fast_pow_eq (F : FieldOps α) (hL : AddLaws F) (T : Transform α) (p : List α) (e : Nat) (he : e < 2 ^ 32) :
    TF.Gen.Poly.fast_pow F (TF.Gen.Poly.fast_square F T.ntt T.intt)
        (TF.Gen.Poly.fast_multiply F F F F.mul T.ntt T.ntt T.intt) p e
      = fastPow F 64 (TF.Gen.FAST_MULTIPLY_CUTOFF_THRESHOLD : Int) T p e := by
  by_cases h0 : e = 0
  · subst h0; simp [TF.Gen.Poly.fast_pow, fastPow, one_eq]
  · have hbl : Nat.log2 e < 32 := (Nat.log2_lt h0).2 he
    have hfor := fast_pow_for_eq F hL T p e (Nat.log2 e) hbl (Nat.log2 e + 1) (one F) (Nat.le_refl _)
    simp only [Nat.sub_self] at hfor
    have hb : (e == 0) = false := by simpa using h0
    simp only [TF.Gen.Poly.fast_pow, fastPow, hb, Bool.false_eq_true, if_false, degree_eq, Option.bind_some, one_eq, zero_eq,
      Nat.sub_zero, hfor]
    by_cases hd : degree F p < 0
    · simp [hd, zero]
    · simp only [hd, decide_false, Bool.false_eq_true, if_false]
      cases powLoop (square F 64 T) (fun acc => multiply F (TF.Gen.FAST_MULTIPLY_CUTOFF_THRESHOLD : Int) T p acc) e
        (Nat.log2 e) (Nat.log2 e + 1) (one F) <;> rfl

end TF.GenBridge.Poly
