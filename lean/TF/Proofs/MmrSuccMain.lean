import TF.Proofs.MmrSuccFill
/-!
Completeness of `new_from_batch_append` (C12), part 4: the replay of the appends and the main theorems.

`replay_inv`: the loop `for &new_leaf in new_leafs` keeps the fill-in invariant and sees every node created by the
appends (except the top node of each append, which is seen as a peak in the next round) and every peak of every
intermediate accumulator.  `gen_spec`: the generated proof consists, per old peak, of the digests of the sibling
blocks up to the new peak.  `gen_verifies`: it is accepted.
-/
namespace TF.MmrE
open TF TF.Gen TF.Model.Mmr TF.Model.MmrE TF.Spec.MmrE TF.Spec.Mmr

variable {D : Type} (H : D → D → D)

/-- the blocks whose digests become known in the round that appends leaf `c` -/
def stepBlks (c : Nat) : List (Nat × Nat) :=
  (List.range (TF.trailingOnes c)).map (fun r => (r, c / 2 ^ r)) ++ peakBlk c

/-- the `(node index, digest)` pairs of a list of blocks -/
def itemsOf (dg : Nat → Nat → D) (bs : List (Nat × Nat)) : List (Nat × D) :=
  bs.map (fun b => (nodeIdx b.1 b.2, dg b.1 b.2))

theorem zip_map_same {α β γ : Type} (f : α → β) (g : α → γ) : ∀ l : List α,
    (l.map f).zip (l.map g) = l.map (fun a => (f a, g a)) := by
  intro l
  induction l with
  | nil => rfl
  | cons a l ih => simp [ih]

theorem zip_map_range_succ {β γ : Type} (f : Nat → β) (g : Nat → γ) (t : Nat) :
    ((List.range (t + 1)).map f).zip ((List.range t).map g) = (List.range t).map (fun r => (f r, g r)) := by
  rw [List.range_succ, List.map_append]
  have := List.zip_append (l₁ := (List.range t).map f) (r₁ := [f t]) (l₂ := (List.range t).map g) (r₂ := [])
    (by simp)
  rw [List.append_nil] at this
  rw [List.map_cons, List.map_nil, this, zip_map_same]
  simp

/-- the end of every block on the right-child chain of the new leaf `c` is `c + 1` -/
theorem bend_chain (c : Nat) : ∀ r, r ≤ TF.trailingOnes c → bend r (c / 2 ^ r) = c + 1 := by
  intro r
  induction r with
  | zero => intro _; simp [bend]
  | succ r ih =>
    intro h
    have hbit := trailingOnes_bit r c (by omega)
    have := bend_odd r (c / 2 ^ r) hbit
    rw [Nat.div_div_eq_div_mul, ← Nat.pow_succ] at this
    rw [← this, ih (by omega)]

theorem stepBlks_bend (c : Nat) (b : Nat × Nat) (hb : b ∈ stepBlks c) : bend b.1 b.2 ≤ c + 1 := by
  unfold stepBlks at hb
  rcases List.mem_append.mp hb with hb | hb
  · obtain ⟨r, hr, rfl⟩ := List.mem_map.mp hb
    have := bend_chain c r (by have := List.mem_range.mp hr; omega)
    simp only; omega
  · have := mem_peakBlk_bend c b.1 b.2 hb
    omega

/-- the items of the round that appends leaf `c`, in block coordinates -/
theorem round_items (dg : Nat → Nat → D) (c : Nat) (hne : NodeEq H dg c) :
    ((List.range (TF.trailingOnes c + 1)).map (fun r => nodeIdx r (c / 2 ^ r))).zip
        (scanNodes H (dg 0 c) (dgs dg (sibBlks 0 c (TF.trailingOnes c)))) ++ (peakIdx c).zip (dpeaks dg c)
      = itemsOf dg (stepBlks c) := by
  rw [scanNodes_dg H dg c hne (TF.trailingOnes c) 0 c (fun r hr => trailingOnes_bit r c hr) (by unfold bend; omega)]
  unfold itemsOf stepBlks peakIdx dpeaks
  rw [zip_map_range_succ, zip_map_same, List.map_append, List.map_map]
  simp [Function.comp_def]

/-- **the `for &new_leaf in new_leafs` loop** keeps the fill-in invariant and sees every block of `stepBlks c'` for
    every round `c'` -/
theorem replay_inv (dg : Nat → Nat → D) (val : Nat → D) (m n : Nat) (hn : n < 2 ^ 63) (hne : NodeEq H dg m)
    (hval : ∀ l b, bend l b ≤ n → val (nodeIdx l b) = dg l b) (tgs : List (List Nat)) :
    ∀ (xs : List D) (c : Nat) (S : Nat → Prop) (ps : List (List D)) (nds : List (List (Option (Nat × Nat)))),
      m ≤ c → c + xs.length = n → (∀ i x, xs[i]? = some x → dg 0 (c + i) = x) → InvAll val S tgs ps nds →
      ∃ ps' nds' S', replayAppends H xs (dpeaks dg c) (peakIdx c) c ps nds = some ps' ∧ InvAll val S' tgs ps' nds' ∧
        (∀ y, S y → S' y) ∧ (∀ c', c ≤ c' → c' < n → ∀ b ∈ stepBlks c', S' (nodeIdx b.1 b.2)) := by
  intro xs
  induction xs with
  | nil =>
    intro c S ps nds _ hcn _ hinv
    refine ⟨ps, nds, S, replayAppends_nil H _ _ _ _ _, hinv, fun _ h => h, ?_⟩
    intro c' h1 h2
    simp at hcn; omega
  | cons x xs ih =>
    intro c S ps nds hmc hcn hx hinv
    simp only [List.length_cons] at hcn
    have hx0 : dg 0 c = x := hx 0 x (by simp)
    have h63 : (2:Nat) ^ 63 < 2 ^ 64 := by decide
    have hadd : add64 c 1 = c + 1 := by unfold add64 W64; omega
    have hnec := hne.mono H hmc
    rw [replayAppends_cons, added_blk c (by omega), ← hx0, calcAppend_dg H c dg hnec (by omega), hadd,
      peaksIdx_spec (c + 1) (by omega)]
    simp only [Option.bind_some]
    have hitems := round_items H dg c hnec
    rw [hitems]
    obtain ⟨ps1, nds1, h1, h2⟩ := fillMany_inv val (itemsOf dg (stepBlks c)) S (fun it hit => by
      obtain ⟨b, hb, rfl⟩ := List.mem_map.mp hit
      have := stepBlks_bend c b hb
      exact (hval b.1 b.2 (by omega)).symm) hinv
    rw [h1]
    simp only [Option.bind_some]
    obtain ⟨ps', nds', S', h3, h4, h5, h6⟩ := ih (c + 1) _ ps1 nds1 (by omega) (by omega) (fun i y hy => by
      have := hx (i + 1) y (by simpa using hy)
      rw [← this]; congr 1; omega) h2
    refine ⟨ps', nds', S', h3, h4, fun y hy => h5 y (Or.inl hy), ?_⟩
    intro c' hc1 hc2 b hb
    by_cases hcc : c' = c
    · subst hcc
      exact h5 _ (Or.inr ⟨(nodeIdx b.1 b.2, dg b.1 b.2), List.mem_map.mpr ⟨b, hb, rfl⟩, rfl⟩)
    · exact h6 c' (by omega) hc2 b hb

/-! ### the generated proof -/

/-- digest of a node index under a digest assignment (the inverse of `nodeIdx`, chosen classically) -/
noncomputable def valOf (dg : Nat → Nat → D) (dflt : D) (x : Nat) : D :=
  open Classical in
  if h : ∃ lb : Nat × Nat, nodeIdx lb.1 lb.2 = x then dg h.choose.1 h.choose.2 else dflt

theorem valOf_nodeIdx (dg : Nat → Nat → D) (dflt : D) (l b : Nat) (hlt : nodeIdx l b < 2 ^ 64) :
    valOf dg dflt (nodeIdx l b) = dg l b := by
  unfold valOf
  have hex : ∃ lb : Nat × Nat, nodeIdx lb.1 lb.2 = nodeIdx l b := ⟨(l, b), rfl⟩
  rw [dif_pos hex]
  have hs := hex.choose_spec
  obtain ⟨h1, h2⟩ := nodeIdx_inj l b _ _ hlt hs.symm
  rw [← h1, ← h2]

theorem mapM_some_map {α β : Type} (g : α → Option β) (f : α → β) : ∀ (l : List α), (∀ a ∈ l, g a = some (f a)) →
    l.mapM g = some (l.map f) := by
  intro l
  induction l with
  | nil => intro _; rfl
  | cons a l ih =>
    intro h
    rw [List.mapM_cons, h a (by simp), ih (fun a' ha' => h a' (by simp [ha']))]
    rfl

theorem sibBlk_div (b : Nat) : sibBlk b / 2 = b / 2 := by unfold sibBlk; split <;> omega

theorem bend_sibBlk_le (l b : Nat) : bend l (sibBlk b) ≤ bend (l + 1) (b / 2) := by
  have := bend_le_parent l (sibBlk b)
  rw [sibBlk_div] at this
  exact this

/-- every block on the chain from `(h, j)` up to its peak lies inside the MMR -/
theorem chain_bend (n h j : Nat) (hb : bend h j ≤ n) (t : Nat) (ht : t ≤ upLen n h j) : bend (h + t) (j / 2 ^ t) ≤ n := by
  obtain ⟨_, h2, _⟩ := chain_facts n h j hb
  have htop := mem_peakBlk_bend n _ _ h2
  have := bend_le_anc (h + t) (j / 2 ^ t) (upLen n h j - t)
  have e1 : h + t + (upLen n h j - t) = h + upLen n h j := by omega
  have e2 : j / 2 ^ t / 2 ^ (upLen n h j - t) = j / 2 ^ upLen n h j := by
    rw [Nat.div_div_eq_div_mul, ← Nat.pow_add]; congr 2; omega
  rw [e1, e2] at this
  omega

theorem sibBlks_getElem? (h j d i : Nat) : (sibBlks h j d)[i]? = if i < d then some (h + i, sibBlk (j / 2 ^ i)) else none := by
  unfold sibBlks
  rw [List.getElem?_map]
  by_cases hi : i < d
  · rw [List.getElem?_range hi, if_pos hi]; rfl
  · rw [List.getElem?_eq_none (by simp; omega), if_neg hi]; rfl

theorem mem_sibBlks (h j d : Nat) (sb : Nat × Nat) :
    sb ∈ sibBlks h j d ↔ ∃ t, t < d ∧ sb = (h + t, sibBlk (j / 2 ^ t)) := by
  unfold sibBlks
  rw [List.mem_map]
  constructor
  · rintro ⟨t, ht, rfl⟩; exact ⟨t, List.mem_range.mp ht, rfl⟩
  · rintro ⟨t, ht, rfl⟩; exact ⟨t, List.mem_range.mpr ht, rfl⟩

theorem mapM_map_some {α β γ : Type} (k : α → γ) (g : γ → Option β) (f : α → β) : ∀ (l : List α),
    (∀ a ∈ l, g (k a) = some (f a)) → (l.map k).mapM g = some (l.map f) := by
  intro l
  induction l with
  | nil => intro _; rfl
  | cons a l ih =>
    intro h
    rw [List.map_cons, List.mapM_cons, h a (by simp), ih (fun a' ha' => h a' (by simp [ha']))]
    rfl

/-- every needed sibling block is seen in some round of the replay -/
theorem sibling_seen (m n h j t : Nat) (hp : (h, j) ∈ peakBlk m) (hmn : m ≤ n) (ht : t < upLen n h j) :
    ∃ c', m ≤ c' ∧ c' < n ∧ (h + t, sibBlk (j / 2 ^ t)) ∈ stepBlks c' := by
  have hbm := mem_peakBlk_bend m h j hp
  have hlt : m < n := by
    rcases Nat.lt_or_ge m n with h1 | h1
    · exact h1
    · have : m = n := by omega
      subst this
      have := locate_of_mem_peakBlk h m (j * 2 ^ h) (by
        rw [Nat.mul_div_cancel _ (Nat.pow_pos (by omega))]; exact hp)
      unfold upLen at ht; omega
  by_cases hodd : j / 2 ^ t % 2 = 1
  · refine ⟨m, Nat.le_refl _, hlt, ?_⟩
    have hs : sibBlk (j / 2 ^ t) = j / 2 ^ t - 1 := by unfold sibBlk; rw [if_neg (by omega)]
    rw [hs]
    unfold stepBlks
    exact List.mem_append_right _ (oldPeak_left_sibling m h j hp t hodd)
  · have hs : sibBlk (j / 2 ^ t) = j / 2 ^ t + 1 := by unfold sibBlk; rw [if_pos (by omega)]
    rw [hs]
    have hbodd : (j / 2 ^ t + 1) % 2 = 1 := by omega
    have hbe := bend_odd (h + t) (j / 2 ^ t + 1) hbodd
    have e : (j / 2 ^ t + 1) / 2 = j / 2 ^ (t + 1) := by
      rw [Nat.pow_succ, ← Nat.div_div_eq_div_mul]; omega
    rw [e] at hbe
    have hgt := oldPeak_anc_gt m h j hp t
    have hle := chain_bend n h j (by omega) (t + 1) (by omega)
    have e' : h + (t + 1) = h + t + 1 := by omega
    rw [e'] at hle
    refine ⟨bend (h + t) (j / 2 ^ t + 1) - 1, by omega, by omega, ?_⟩
    unfold stepBlks
    apply List.mem_append_left
    rw [List.mem_map]
    refine ⟨h + t, ?_, ?_⟩
    · rw [List.mem_range, trailingOnes_bend]
      have := (trailingOnes_ne_zero_iff (j / 2 ^ t + 1)).mpr hbodd
      omega
    · rw [bend_sub_one_div]

/-- **`new_from_batch_append`** on the accumulator `⟨m, dpeaks dg m⟩` and leaves `xs`: per old peak `(h, j)` the digests
    of the sibling blocks `(h + t, sibBlk (j / 2^t))`, `t < height of the new peak above − h`, lowest first, old peaks
    in order -/
theorem gen_spec (dflt : D) (dg : Nat → Nat → D) (m : Nat) (xs : List D) (hn : m + xs.length < 2 ^ 63)
    (hne : NodeEq H dg m) (hleaf : ∀ i x, xs[i]? = some x → dg 0 (m + i) = x) :
    newFromBatchAppend H dflt ⟨m, dpeaks dg m⟩ xs
      = some (((peakBlk m).map (fun b => dgs dg (sibBlks b.1 b.2 (upLen (m + xs.length) b.1 b.2)))).flatten) := by
  generalize hnn : m + xs.length = n at hn ⊢
  have h63 : (2:Nat) ^ 63 < 2 ^ 64 := by decide
  have hadd : add64 m xs.length = n := by unfold add64 W64; omega
  have hmn : m ≤ n := by omega
  rw [newFromBatchAppend_def]
  simp only
  rw [peaksIdx_spec m (by omega), hadd, peaksIdx_spec n hn]
  simp only [Option.bind_some]
  rw [zip_map_same]
  -- the needed node indices
  have hneeded := mapM_map_some (fun b : Nat × Nat => (nodeIdx b.1 b.2, b.1))
    (fun ih : Nat × Nat => neededLoop ((peakBlk n).map (fun b => nodeIdx b.1 b.2)) (2 * descentFuel) ih.1 ih.2 [])
    (fun b => (sibBlks b.1 b.2 (upLen n b.1 b.2)).map (fun b => nodeIdx b.1 b.2)) (peakBlk m) (fun b hb => by
      have := mem_peakBlk_bend m b.1 b.2 hb
      exact needed_spec n b.1 b.2 (by omega) hn)
  rw [hneeded]
  simp only [Option.bind_some]
  generalize htgs : (peakBlk m).map (fun b => (sibBlks b.1 b.2 (upLen n b.1 b.2)).map (fun b => nodeIdx b.1 b.2)) = tgs
  -- bounds of the sibling blocks
  have hsibbend : ∀ b ∈ peakBlk m, ∀ t, t < upLen n b.1 b.2 → bend (b.1 + t) (sibBlk (b.2 / 2 ^ t)) ≤ n := by
    intro b hb t ht
    have h1 := bend_sibBlk_le (b.1 + t) (b.2 / 2 ^ t)
    have h2 := chain_bend n b.1 b.2 (by have := mem_peakBlk_bend m b.1 b.2 hb; omega) (t + 1) (by omega)
    have e2 : b.2 / 2 ^ t / 2 = b.2 / 2 ^ (t + 1) := by rw [Nat.div_div_eq_div_mul, Nat.pow_succ]
    have e : b.1 + (t + 1) = b.1 + t + 1 := by omega
    rw [e2] at h1
    rw [e] at h2
    omega
  have hval : ∀ l b, bend l b ≤ n → valOf dg dflt (nodeIdx l b) = dg l b :=
    fun l b hb => valOf_nodeIdx dg dflt l b (nodeIdx_lt_of_bend l b n hb hn)
  -- initial invariant
  have hinit := InvAll_init (valOf dg dflt) dflt tgs (by
    intro tg htg i i' y hi hi'
    rw [← htgs] at htg
    obtain ⟨b, hb, rfl⟩ := List.mem_map.mp htg
    rw [List.getElem?_map, sibBlks_getElem?] at hi hi'
    by_cases h1 : i < upLen n b.1 b.2
    · by_cases h2 : i' < upLen n b.1 b.2
      · rw [if_pos h1] at hi
        rw [if_pos h2] at hi'
        simp only [Option.map_some, Option.some.injEq] at hi hi'
        have hlt := nodeIdx_lt_of_bend _ _ n (hsibbend b hb i h1) hn
        have := (nodeIdx_inj _ _ _ _ hlt (hi.trans hi'.symm)).1
        omega
      · rw [if_neg h2] at hi'; simp at hi'
    · rw [if_neg h1] at hi; simp at hi)
  obtain ⟨ps', nds', S', h3, h4, _, h6⟩ := replay_inv H dg (valOf dg dflt) m n hn hne hval tgs xs m (fun _ => False)
    _ _ (Nat.le_refl _) hnn hleaf hinit
  show (replayAppends H xs (dpeaks dg m) (peakIdx m) m _ _).bind _ = _
  rw [h3]
  simp only [Option.bind_some]
  have hfinal := InvAll_final (valOf dg dflt) S' h4 (by
    intro tg htg y hy
    rw [← htgs] at htg
    obtain ⟨b, hb, rfl⟩ := List.mem_map.mp htg
    obtain ⟨sb, hsb, rfl⟩ := List.mem_map.mp hy
    obtain ⟨t, ht, hget⟩ := (mem_sibBlks _ _ _ _).mp hsb
    subst hget
    obtain ⟨c', hc1, hc2, hc3⟩ := sibling_seen m n b.1 b.2 t hb hmn ht
    exact h6 c' hc1 hc2 _ hc3)
  rw [hfinal, ← htgs, List.map_map]
  congr 2
  apply List.map_congr_left
  intro b hb
  simp only [Function.comp, dgs, List.map_map]
  apply List.map_congr_left
  intro sb hsb
  obtain ⟨t, ht, hget⟩ := (mem_sibBlks _ _ _ _).mp hsb
  subst hget
  exact hval _ _ (hsibbend b hb t ht)

/-- **the generated proof verifies**, for every digest assignment: between `⟨m, dpeaks dg m⟩` and the accumulator after
    appending `xs` -/
theorem gen_verifies [DecidableEq D] (dflt : D) (dg : Nat → Nat → D) (m : Nat) (xs : List D)
    (hn : m + xs.length < 2 ^ 63) (hne : NodeEq H dg m) (hleaf : ∀ i x, xs[i]? = some x → dg 0 (m + i) = x) :
    ∃ paths, newFromBatchAppend H dflt ⟨m, dpeaks dg m⟩ xs = some paths ∧
      verify H dflt paths ⟨m, dpeaks dg m⟩ ⟨m + xs.length, dpeaks dg (m + xs.length)⟩ = some true := by
  refine ⟨_, gen_spec H dflt dg m xs hn hne hleaf, ?_⟩
  generalize hnn : m + xs.length = n at hn ⊢
  have h63 : (2:Nat) ^ 63 < 2 ^ 64 := by decide
  have hmn : m ≤ n := by omega
  have hl : (dpeaks dg n).length < 2 ^ 32 := by
    rw [dpeaks_length]
    have := popCount_lt_two_pow 64 n (by omega)
    omega
  rw [verify_eq_spec H dflt _ _ _ (by simp only; omega) (by simp only; omega) hl]
  simp only [succVerify, hmn, dpeaks_length, decide_true, Bool.true_and, Option.some.injEq]
  have hsegs : (peakBlk m).map (fun b => dgs dg (sibBlks b.1 b.2 (upLen n b.1 b.2)))
      = (peakPos m).map (fun q => dgs dg (sibBlks q.1 (q.2 / 2 ^ q.1) (upLen n q.1 (q.2 / 2 ^ q.1)))) := by
    unfold peakBlk; rw [List.map_map]; rfl
  have hops : dpeaks dg m = (peakPos m).map (fun q => dg q.1 (q.2 / 2 ^ q.1)) := by
    unfold dpeaks peakBlk; rw [List.map_map]; rfl
  rw [hsegs, hops]
  apply succGo_complete H n (dpeaks dg n) (peakPos m) _ _ (by simp) (by simp)
  intro i p q seg hp hq hseg
  rw [List.getElem?_map, hq] at hp hseg
  simp only [Option.map_some, Option.some.injEq] at hp hseg
  subst hp hseg
  obtain ⟨h, s⟩ := q
  have hqmem : (h, s) ∈ peakPos m := List.mem_of_getElem? hq
  obtain ⟨hdvd, hle⟩ := peakPos_mem m (h, s) hqmem
  simp only at hdvd hle ⊢
  have hpos : 0 < 2 ^ h := Nat.pow_pos (by omega)
  have hs : s / 2 ^ h * 2 ^ h = s := Nat.div_mul_cancel hdvd
  generalize hj : s / 2 ^ h = j at *
  have hpb : (h, j) ∈ peakBlk m := by
    unfold peakBlk
    exact List.mem_map.mpr ⟨(h, s), hqmem, by simp [hj]⟩
  have hb : bend h j ≤ n := by
    unfold bend
    have : (j + 1) * 2 ^ h = j * 2 ^ h + 2 ^ h := by ring
    omega
  obtain ⟨hc1, hc2, hc3⟩ := chain_facts n h j hb
  rw [hs] at hc3
  have hup : upLen n h j = (locate n s).1 - h := by unfold upLen; rw [hs]
  refine ⟨by omega, by simp [dgs, sibBlks_length, hup], ?_⟩
  rw [dpeaks_getElem_locate dg n s (by omega)]
  congr 1
  rw [foldBlk_dg H dg m hne (upLen n h j) h j (fun _ => by
    have := oldPeak_anc_gt m h j hpb 0
    simpa using this)]
  have hbd := blk_div h j (upLen n h j)
  rw [hs, hc3] at hbd
  rw [hc3, hbd]

/-! ### a digest assignment for an arbitrary consistent accumulator -/

/-- the index of a peak in the peak list is the peak index `locate` computes for its first leaf -/
theorem locate_peakPos : ∀ (n i h s : Nat), (peakPos n)[i]? = some (h, s) → (locate n s).2.2 = i := by
  intro n
  induction n using Nat.strongRecOn with
  | _ n ih =>
    intro i h s hget
    by_cases hn : n = 0
    · subst hn; simp [peakPos_zero] at hget
    · rw [peakPos_unfold n hn] at hget
      have hlen : ((peakPos (n / 2)).map (fun p => (p.1 + 1, 2 * p.2))).length = TF.popCount (n / 2) := by
        rw [List.length_map, peakPos_length]
      by_cases hi : i < TF.popCount (n / 2)
      · rw [List.getElem?_append_left (by omega), List.getElem?_map] at hget
        cases hq : (peakPos (n / 2))[i]? with
        | none => rw [hq] at hget; simp at hget
        | some q =>
          rw [hq] at hget
          simp only [Option.map_some, Option.some.injEq, Prod.mk.injEq] at hget
          obtain ⟨h', s'⟩ := q
          obtain ⟨rfl, rfl⟩ := hget
          have hmem := peakPos_mem (n / 2) (h', s') (List.mem_of_getElem? hq)
          simp only at hmem
          have hpos : 0 < 2 ^ h' := Nat.pow_pos (by omega)
          rw [locate_unfold n (2 * s') hn, if_neg (by omega)]
          simp only
          have e : 2 * s' / 2 = s' := by omega
          rw [e]
          exact ih (n / 2) (by omega) i h' s' hq
      · rw [List.getElem?_append_right (by omega), hlen] at hget
        by_cases hodd : n % 2 = 1
        · rw [if_pos hodd] at hget
          have hi0 : i - TF.popCount (n / 2) = 0 := by
            by_contra hc
            rw [List.getElem?_eq_none (by simp; omega)] at hget
            cases hget
          rw [hi0] at hget
          simp only [List.getElem?_cons_zero, Option.some.injEq, Prod.mk.injEq] at hget
          obtain ⟨rfl, rfl⟩ := hget
          rw [locate_unfold n (n - 1) hn, if_pos ⟨hodd, rfl⟩]
          have := popCount_unfold n
          simp only; omega
        · rw [if_neg hodd] at hget; simp at hget

/-- a digest assignment for the accumulator `⟨m, ps⟩` and the leaves `xs` to be appended: blocks inside the old leaves
    carry the old peak of their tree (only the old peak blocks themselves matter), new leaves carry `xs`, every other
    block is the hash of its halves -/
def mkDg (dflt : D) (m : Nat) (ps xs : List D) : Nat → Nat → D
  | 0, j => if j + 1 ≤ m then (ps[(locate m j).2.2]?).getD dflt else (xs[j - m]?).getD dflt
  | l + 1, j =>
    if bend (l + 1) j ≤ m then (ps[(locate m (j * 2 ^ (l + 1))).2.2]?).getD dflt
    else H (mkDg dflt m ps xs l (2 * j)) (mkDg dflt m ps xs l (2 * j + 1))

theorem mkDg_old (dflt : D) (m : Nat) (ps xs : List D) (l j : Nat) (h : bend l j ≤ m) :
    mkDg H dflt m ps xs l j = (ps[(locate m (j * 2 ^ l)).2.2]?).getD dflt := by
  cases l with
  | zero =>
    rw [mkDg, if_pos (by unfold bend at h; omega)]
    simp
  | succ l => rw [mkDg, if_pos h]

theorem mkDg_nodeEq (dflt : D) (m : Nat) (ps xs : List D) : NodeEq H (mkDg H dflt m ps xs) m := by
  intro l j hlt
  conv => lhs; rw [mkDg]
  rw [if_neg (by omega)]

theorem mkDg_leaf (dflt : D) (m : Nat) (ps xs : List D) (i : Nat) (x : D) (hx : xs[i]? = some x) :
    mkDg H dflt m ps xs 0 (m + i) = x := by
  rw [mkDg, if_neg (by omega)]
  have e : m + i - m = i := by omega
  rw [e, hx]; rfl

theorem mkDg_dpeaks (dflt : D) (m : Nat) (ps xs : List D) (hlen : TF.popCount m = ps.length) :
    dpeaks (mkDg H dflt m ps xs) m = ps := by
  apply List.ext_getElem?
  intro i
  unfold dpeaks peakBlk
  rw [List.map_map, List.getElem?_map]
  cases hq : (peakPos m)[i]? with
  | none =>
    have := List.getElem?_eq_none_iff.mp hq
    rw [peakPos_length] at this
    rw [List.getElem?_eq_none (by omega)]
    rfl
  | some q =>
    obtain ⟨h, s⟩ := q
    have hmem := peakPos_mem m (h, s) (List.mem_of_getElem? hq)
    simp only at hmem
    have hi : i < ps.length := by
      have := (List.getElem?_eq_some_iff.mp hq).1
      rw [peakPos_length] at this; omega
    have hs : s / 2 ^ h * 2 ^ h = s := Nat.div_mul_cancel hmem.1
    have hb : bend h (s / 2 ^ h) ≤ m := by
      unfold bend
      have : (s / 2 ^ h + 1) * 2 ^ h = s / 2 ^ h * 2 ^ h + 2 ^ h := by ring
      omega
    simp only [Option.map_some, Function.comp]
    rw [mkDg_old H dflt m ps xs h (s / 2 ^ h) hb, hs, locate_peakPos m i h s hq, List.getElem?_eq_getElem hi]
    rfl

/-- **completeness of `new_from_batch_append`**: for every consistent accumulator (as many peaks as the leaf count has
    set bits — the peak digests themselves are arbitrary) and every list of leaves with fewer than `2^63` leaves in
    total, the appends succeed, `new_from_batch_append` returns a proof, and `verify` accepts it between the old
    accumulator and the resulting one -/
theorem newFromBatchAppend_verifies [DecidableEq D] (dflt : D) (old : Acc D) (leafs : List D)
    (hc : TF.popCount old.count = old.peaks.length) (hn : old.count + leafs.length < 2 ^ 63) :
    ∃ new paths, Acc.appendAll H leafs old = some new ∧ newFromBatchAppend H dflt old leafs = some paths ∧
      verify H dflt paths old new = some true := by
  obtain ⟨m, ps⟩ := old
  simp only at hc hn
  have h63 : (2:Nat) ^ 63 < 2 ^ 64 := by decide
  have hps := mkDg_dpeaks H dflt m ps leafs hc
  have hne := mkDg_nodeEq H dflt m ps leafs
  have hleaf := mkDg_leaf H dflt m ps leafs
  obtain ⟨paths, h1, h2⟩ := gen_verifies H dflt (mkDg H dflt m ps leafs) m leafs hn hne hleaf
  have h3 := appendAll_dg H (mkDg H dflt m ps leafs) leafs m hne (by omega) hleaf
  rw [hps] at h1 h2 h3
  exact ⟨_, paths, h3, h1, h2⟩

/-! ### the generated proof is the honest proof of the specification -/

theorem dgs_sub_sibBlks (g : Nat → D) : ∀ (u l j : Nat),
    dgs (fun l j => sub H g l j) (sibBlks l j u) = sibPath H g l u j := by
  intro u
  induction u with
  | zero => intro l j; simp [sibBlks_zero, dgs, sibPath]
  | succ u ih =>
    intro l j
    rw [sibBlks_succ]
    have := ih (l + 1) (j / 2)
    simp only [dgs] at this
    simp only [dgs, List.map_cons, sibPath, this]

/-- on the accumulator of the first `m` leaves of a leaf list `g`, `new_from_batch_append` with the next `k` leaves
    returns exactly `succPathsOf H g m (m + k)`: per old peak the from-scratch digests of its siblings up to the new
    peak, in that order -/
theorem gen_eq_honest (dflt : D) (g : Nat → D) (m k : Nat) (hn : m + k < 2 ^ 63) :
    newFromBatchAppend H dflt ⟨m, peaks H m g⟩ ((List.range k).map (fun i => g (m + i)))
      = some (succPathsOf H g m (m + k)) := by
  have hlen : ((List.range k).map (fun i => g (m + i))).length = k := by simp
  have hps : dpeaks (fun l j => sub H g l j) m = peaks H m g := by
    rw [peaks_eq_map]; unfold dpeaks peakBlk; rw [List.map_map]; rfl
  have := gen_spec H dflt (fun l j => sub H g l j) m ((List.range k).map (fun i => g (m + i)))
    (by rw [hlen]; exact hn) (fun l j _ => by simp only [sub]) (fun i x hx => by
      rw [List.getElem?_map] at hx
      by_cases hi : i < k
      · rw [List.getElem?_range hi] at hx
        simp only [Option.map_some, Option.some.injEq] at hx
        rw [← hx]; rfl
      · rw [List.getElem?_eq_none (by simp; omega)] at hx; cases hx)
  rw [hps, hlen] at this
  rw [this]
  congr 1
  unfold succPathsOf peakBlk
  rw [List.map_map]
  congr 1
  apply List.map_congr_left
  intro p hp
  have hd := (peakPos_mem m p hp).1
  simp only [Function.comp]
  rw [dgs_sub_sibBlks]
  congr 1
  unfold upLen
  rw [Nat.div_mul_cancel hd]

end TF.MmrE
