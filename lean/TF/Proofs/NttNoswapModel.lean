import TF.Proofs.NttModel
import TF.Proofs.NttNoswap
/-!
Connects `nttNoswap` / `inttNoswap` / `bitreverseOrder` of the array model to the functional stages of
`TF/Proofs/NttNoswap.lean`, and derives the relations between the plain and the bit-reversed transforms.
-/
namespace TF.NttProofs
open TF.Model.Ntt TF.NttFn

theorem ceilLog2Aux_spec (L : Nat) : ∀ fuel l, l ≤ L → L - l ≤ fuel → ceilLog2Aux (2^L) fuel l = L := by
  intro fuel
  induction fuel with
  | zero => intro l h1 h2; simp [ceilLog2Aux]; omega
  | succ f ih =>
    intro l h1 h2
    rw [ceilLog2Aux]
    by_cases hl : l = L
    · subst hl; simp
    · have : 2^l < 2^L := Nat.pow_lt_pow_right (by norm_num) (by omega)
      rw [if_pos this]
      exact ih (l+1) (by omega) (by omega)

theorem ceilLog2_two_pow (L : Nat) : ceilLog2 (2^L) = L :=
  ceilLog2Aux_spec L (2^L) 0 (Nat.zero_le _) (by have := @Nat.lt_two_pow_self L; omega)

variable {R : Type} [CommRing R] (inv : R → Option R) (inv0 : R → R)

theorem powersBitrevAux_spec (ω : R) (lg : Nat) : ∀ f i (cur : R) (acc : Array R), i + f = 2^lg → 2^lg ≤ acc.size →
    cur = ω^i → (∀ idx, idx < 2^lg → bitrev lg idx < i → acc[idx]? = some (ω^(bitrev lg idx))) →
    ∃ z, powersBitrevAux (ringOps R inv inv0) ω lg f i cur acc = some z ∧ z.size = acc.size ∧
      ∀ idx, idx < 2^lg → z[idx]? = some (ω^(bitrev lg idx)) := by
  intro f
  induction f with
  | zero =>
    intro i cur acc hi _ _ h
    exact ⟨acc, rfl, rfl, fun idx hidx => h idx hidx (by have := bitrev_lt lg idx; omega)⟩
  | succ f ih =>
    intro i cur acc hi hsz hcur h
    rw [powersBitrevAux]
    simp only [bitreverse_eq]
    have hb := bitrev_lt lg i
    rw [if_pos (by omega)]
    obtain ⟨z, hz, hzs, hzi⟩ := ih (i+1) ((ringOps R inv inv0).smul cur ω) (acc.setIfInBounds (bitrev lg i) cur)
      (by omega) (by simpa using hsz) (by simp [ringOps, hcur, pow_succ]) (by
        intro idx hidx hlt
        rw [Array.getElem?_setIfInBounds]
        by_cases he : bitrev lg i = idx
        · rw [if_pos he, if_pos (by omega), ← he, bitrev_involutive lg i (by omega), hcur]
        · rw [if_neg he]
          apply h idx hidx
          have : bitrev lg idx ≠ i := by
            intro h'; apply he; rw [← h', bitrev_involutive lg idx hidx]
          omega)
    exact ⟨z, hz, by simpa using hzs, hzi⟩

/-- the twiddle array of `ntt_noswap` for `n = 2^L`: entry `i < n/2` is `ω^(bitrev (L-1) i)` -/
theorem powersBitrev_spec (ω : R) (L : Nat) :
    ∃ z, powersBitrev (ringOps R inv inv0) ω (2^L) L = some z ∧
      ∀ idx, idx < 2^L / 2 → z.getD idx 0 = ω^(bitrev (L-1) idx) := by
  rcases L with _ | L
  · refine ⟨_, rfl, ?_⟩
    intro idx hidx; simp at hidx
  · have hhalf : 2^(L+1) / 2 = 2^L := by rw [pow_succ]; omega
    obtain ⟨z, hz, _, hzi⟩ := powersBitrevAux_spec inv inv0 ω L (2^L) 0 1 (Array.replicate (2^(L+1)) 0)
      (by omega) (by simp [pow_succ]) (by simp) (by intro idx _ h; omega)
    refine ⟨z, ?_, ?_⟩
    · simp only [powersBitrev, hhalf, Nat.add_sub_cancel]
      exact hz
    · intro idx hidx
      rw [hhalf] at hidx
      simp [Array.getD_eq_getD_getElem?, hzi idx hidx]

theorem stageNoswap_spec (t : Nat) (zetas : Array R) (x : Array R) :
    (stageNoswap (ringOps R inv inv0) t zetas x).size = x.size ∧
    ∀ i, i < x.size →
      toFn (stageNoswap (ringOps R inv inv0) t zetas x) i = stageNs t (fun b => zetas.getD b 0) (toFn x) i := by
  constructor
  · simp [stageNoswap]
  · intro i hi
    simp only [toFn, stageNoswap, stageNs, Array.getD_eq_getD_getElem?, Array.getElem?_ofFn, hi, dite_true,
      Option.getD_some]
    simp [ringOps]

theorem stageNs_congr (t n : Nat) (ht : 0 < t) (hdiv : 2*t ∣ n) (ζ ζ' : Nat → R) (f g : Nat → R)
    (hζ : ∀ b, b < n / (2*t) → ζ b = ζ' b)
    (h : ∀ i, i < n → f i = g i) (i : Nat) (hi : i < n) : stageNs t ζ f i = stageNs t ζ' g i := by
  obtain ⟨q, rfl⟩ := hdiv
  have hq : 2*t*q / (2*t) = q := Nat.mul_div_cancel_left q (by omega)
  rw [hq] at hζ
  have hd : i / (2*t) < q := Nat.div_lt_of_lt_mul hi
  have hdm := Nat.div_add_mod i (2*t)
  have hr : i % (2*t) < 2*t := Nat.mod_lt _ (by omega)
  have hle : 2*t*(i/(2*t)) + 2*t ≤ 2*t*q := by
    have := Nat.mul_le_mul_left (2*t) (show i/(2*t) + 1 ≤ q by omega)
    rw [Nat.mul_add, Nat.mul_one] at this
    exact this
  unfold stageNs
  rw [hζ _ hd]
  by_cases hlt : i % (2*t) < t
  · simp only [hlt, if_true]
    rw [h i hi, h (i + t) (by omega)]
  · simp only [hlt, if_false]
    rw [h i hi, h (i - t) (by omega)]

theorem noswapLoop_spec (L : Nat) (ω : R) (zetas : Array R)
    (hz : ∀ idx, idx < 2^L / 2 → zetas.getD idx 0 = ω^(bitrev (L-1) idx)) (y0 : Nat → R) :
    ∀ fuel s (x : Array R), s ≤ L → L - s ≤ fuel → x.size = 2^L →
    (∀ i, i < 2^L → toFn x i = nsStages L ω s y0 i) →
    (noswapLoop (ringOps R inv inv0) zetas (2^L) fuel (2^s) (2^(L-s)) x).size = 2^L ∧
    ∀ i, i < 2^L → toFn (noswapLoop (ringOps R inv inv0) zetas (2^L) fuel (2^s) (2^(L-s)) x) i
      = nsStages L ω L y0 i := by
  intro fuel
  induction fuel with
  | zero =>
    intro s x hs hf hx h
    have : s = L := by omega
    subst this
    exact ⟨hx, h⟩
  | succ f ih =>
    intro s x hs hf hx h
    rw [noswapLoop]
    by_cases hsL : s = L
    · subst hsL
      rw [if_neg (by omega)]
      exact ⟨hx, h⟩
    · have hlt : 2^s < 2^L := Nat.pow_lt_pow_right (by norm_num) (by omega)
      rw [if_pos hlt]
      obtain ⟨d, hd⟩ : ∃ d, L - s = d + 1 := ⟨L - s - 1, by omega⟩
      have hd' : L - (s+1) = d := by omega
      have hd'' : L - s - 1 = d := by omega
      have hhalf : 2^(L-s) / 2 = 2^d := by rw [hd, pow_succ]; omega
      rw [hhalf, show 2 * 2^s = 2^(s+1) by rw [pow_succ]; ring]
      have hst := stageNoswap_spec inv inv0 (2^d) zetas x
      have hdiv : 2 * 2^d ∣ 2^L := by
        rw [show 2 * 2^d = 2^(d+1) by rw [pow_succ]; ring]
        exact pow_dvd_pow 2 (by omega)
      have hblocks : 2^L / (2 * 2^d) = 2^s := by
        rw [show 2 * 2^d = 2^(d+1) by rw [pow_succ]; ring, Nat.pow_div (by omega) (by norm_num)]
        congr 1; omega
      have := ih (s+1) (stageNoswap (ringOps R inv inv0) (2^d) zetas x) (by omega) (by omega)
        (by rw [hst.1, hx]) (by
          intro i hi
          rw [hst.2 i (by omega), nsStages, hd'']
          apply stageNs_congr (2^d) (2^L) (by positivity) hdiv _ _ _ _ _ h i hi
          intro b hb
          rw [hblocks] at hb
          apply hz
          have : 2^s ≤ 2^L / 2 := by
            have : 2^L = 2^s * 2^(d+1) := by rw [← pow_add]; congr 1; omega
            rw [this, pow_succ, ← Nat.mul_assoc, Nat.mul_div_cancel _ (by norm_num)]
            exact Nat.le_mul_of_pos_right _ (by positivity)
          omega)
      rw [hd'] at this
      exact this

/-- `ntt_noswap` returns the DFT in bit-reversed order -/
theorem nttNoswap_eq_dft (root : Nat → Option R) (L : Nat) (ω : R) (hr : root (2^L) = some ω)
    (hω : 0 < L → ω^(2^(L-1)) = -1) (x : Array R) (hx : x.size = 2^L) :
    ∃ y, nttNoswap (ringOps R inv inv0) root x = some y ∧ y.size = 2^L ∧
      ∀ i, i < 2^L → toFn y i = dft (2^L) ω (toFn x) (bitrev L i) := by
  obtain ⟨z, hz, hzi⟩ := powersBitrev_spec inv inv0 ω L
  have hl := noswapLoop_spec inv inv0 L ω z hzi (toFn x) (2^L) 0 x (Nat.zero_le _)
    (by have := @Nat.lt_two_pow_self L; omega) hx (by intro i _; rfl)
  simp only [pow_zero, Nat.sub_zero] at hl
  refine ⟨_, ?_, hl.1, ?_⟩
  · simp only [nttNoswap, hx, hr, ceilLog2_two_pow, hz]
  · intro i hi
    rw [hl.2 i hi]
    exact ns_eq_dft L ω hω (toFn x) i hi

omit [CommRing R] in
/-- `bitreverse_order` on a length `2^L` is the bit-reversal permutation -/
theorem bitreverseOrder_spec {α : Type} (L : Nat) (x : Array α) (hx : x.size = 2^L) :
    ∃ b, bitreverseOrder x = some b ∧ b.size = 2^L ∧ ∀ i, i < 2^L → b[i]? = x[bitrev L i]? := by
  obtain ⟨b, hb, hbs, hbi⟩ := swapLoop_spec L x (2^L) 0 x hx hx (by omega) (by intro i _; simp)
  exact ⟨b, by simp [bitreverseOrder, bitrevPermute, hx, ceilLog2_two_pow, hb], hbs, hbi⟩

section generic
variable {σ α : Type} (ops : Ops σ α)

/-- `intt_noswap` is the butterfly network of `ntt_unchecked` without the swap loop (any operations) -/
theorem inttNoswap_eq (root : Nat → Option σ) (L : Nat) (ω ωi : σ) (hr : root (2^L) = some ω)
    (hi : ops.sinv ω = some ωi) (x : Array α) (hx : x.size = 2^L) :
    inttNoswap ops root x = some (stagesLoop ops ωi (2^L) L 1 x) := by
  simp only [inttNoswap, hx, hr, ceilLog2_two_pow, hi]

/-- `intt_noswap (bitreverse_order x)` is the unscaled inverse transform `ntt_unchecked x ω⁻¹` (any operations) -/
theorem inttNoswap_bitreverseOrder (root : Nat → Option σ) (L : Nat) (ω ωi : σ) (hr : root (2^L) = some ω)
    (hi : ops.sinv ω = some ωi) (x : Array α) (hx : x.size = 2^L) :
    ∃ b, bitreverseOrder x = some b ∧ b.size = 2^L ∧
      inttNoswap ops root b = nttUnchecked ops x ωi L := by
  obtain ⟨b, hb, hbs, _⟩ := bitreverseOrder_spec L x hx
  refine ⟨b, hb, hbs, ?_⟩
  rw [inttNoswap_eq ops root L ω ωi hr hi b hbs]
  have : bitrevPermute x L = some b := by
    simpa [bitreverseOrder, hx, ceilLog2_two_pow] using hb
  simp [nttUnchecked, this, hx]

theorem stagesLoop_size (omega : σ) (n : Nat) : ∀ f m (x : Array α),
    (stagesLoop ops omega n f m x).size = x.size := by
  intro f
  induction f with
  | zero => intro m x; rfl
  | succ f ih => intro m x; rw [stagesLoop, ih]; simp [TF.Model.Ntt.stage]

/-- `intt x` is `intt_noswap (bitreverse_order x)` followed by `unscale` (any operations for which
    `inverse` and `inverse_or_zero` agree on the length) -/
theorem intt_via_noswap (root : Nat → Option σ) (L : Nat) (hL : L ≤ 31) (ω ωi ninv : σ) (hr : root (2^L) = some ω)
    (hi : ops.sinv ω = some ωi) (hn : ops.sinv (ops.sofNat (2^L)) = some ninv)
    (hn0 : ops.sinv0 (ops.sofNat (2^L)) = ninv) (x : Array α) (hx : x.size = 2^L) :
    ∃ b c, bitreverseOrder x = some b ∧ inttNoswap ops root b = some c ∧ intt ops root x = unscale ops c := by
  obtain ⟨b, hb, hbs, hbb⟩ := inttNoswap_bitreverseOrder ops root L ω ωi hr hi x hx
  have hc := inttNoswap_eq ops root L ω ωi hr hi b hbs
  refine ⟨b, _, hb, hc, ?_⟩
  rw [intt_unfold _ root x L hL hx ω ωi hr hi, ← hbb, hc]
  have hsz : (stagesLoop ops ωi (2^L) L 1 b).size = 2^L := by rw [stagesLoop_size, hbs]
  simp only [unscale, hsz, Option.map_some, hn, hn0]

end generic

/-- `intt_noswap (ntt_noswap x) = n · x`: the pair of bit-reversed transforms composes to the identity up to the
    factor `n` (which `unscale` removes) -/
theorem inttNoswap_nttNoswap_model (root : Nat → Option R) (L : Nat) (ω ωi : R) (hr : root (2^L) = some ω)
    (hi : inv ω = some ωi) (hinv : ωi * ω = 1) (hω : 0 < L → ω^(2^(L-1)) = -1) (x : Array R) (hx : x.size = 2^L) :
    ∃ y z, nttNoswap (ringOps R inv inv0) root x = some y ∧ inttNoswap (ringOps R inv inv0) root y = some z ∧
      z.size = 2^L ∧ ∀ i, i < 2^L → toFn z i = ((2^L : ℕ) : R) * toFn x i := by
  obtain ⟨X, _, hXs, hXi⟩ := nttUnchecked_eq_dft inv inv0 L ω hω x hx
  obtain ⟨y, hy, hys, hyi⟩ := nttNoswap_eq_dft inv inv0 root L ω hr hω x hx
  obtain ⟨b, hb, hbs, hbi⟩ := swapLoop_spec L X (2^L) 0 X hXs hXs (by omega) (by intro i _; simp)
  have hby : b = y := by
    apply array_ext_toFn b y (2^L) hbs hys
    intro i hi'
    rw [toFn_eq_of_getElem? _ _ _ _ (hbi i hi'), hXi _ (bitrev_lt L i), hyi i hi']
  have hωi : 0 < L → ωi^(2^(L-1)) = -1 := fun h => inv_pow_half L ω ωi (hω h) hinv
  obtain ⟨Z, hZ, hZs, hZi⟩ := nttUnchecked_eq_dft inv inv0 L ωi hωi X hXs
  have hZ' : some (stagesLoop (ringOps R inv inv0) ωi (2^L) L 1 y) = some Z := by
    rw [← hZ]; simp [nttUnchecked, bitrevPermute, hXs, hb, hby]
  refine ⟨y, Z, hy, ?_, hZs, ?_⟩
  · rw [inttNoswap_eq (ringOps R inv inv0) root L ω ωi hr hi y hys, hZ']
  · intro i hi'
    rw [hZi i hi', dft_congr (2^L) ωi (toFn X) _ hXi, dft_inv L ω ωi hω hinv (toFn x) i hi']

end TF.NttProofs
