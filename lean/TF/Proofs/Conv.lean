import TF.Model.Conv
import TF.Spec.Conv
import Mathlib.Tactic.Ring
import Mathlib.Tactic.Linarith
import Mathlib.Tactic.IntervalCases
import Mathlib.Data.List.Forall2
/-! helper lemmas for C20 (conversions) -/
namespace TF.Conv
open TF.Gen (P)

theorem P_eq : P = 18446744069414584321 := rfl
theorem P_pos : 0 < P := by decide
theorem P_lt : P < 256 ^ 8 := by decide

/-! ### generic `mapM` facts for `Option` -/

theorem mapM_map_some {α β : Type} {f : α → Option β} {g : β → α} :
    ∀ (r : List β), (∀ b ∈ r, f (g b) = some b) → (r.map g).mapM f = some r
  | [], _ => by simp
  | b :: r, h => by
    rw [List.map_cons, List.mapM_cons, h b (List.mem_cons_self),
      mapM_map_some r (fun c hc => h c (List.mem_cons_of_mem _ hc))]
    rfl

theorem mapM_inv {α β : Type} {f : α → Option β} {g : β → α} {Q : β → Prop}
    (h : ∀ a b, f a = some b → g b = a ∧ Q b) :
    ∀ (l : List α) (r : List β), l.mapM f = some r → r.map g = l ∧ (∀ b ∈ r, Q b)
  | [], r, hr => by
    simp at hr; subst hr; simp
  | a :: l, r, hr => by
    rw [List.mapM_cons] at hr
    cases hfa : f a with
    | none => rw [hfa] at hr; simp at hr
    | some b =>
      rw [hfa] at hr
      cases hl : l.mapM f with
      | none => rw [hl] at hr; simp at hr
      | some r' =>
        rw [hl] at hr
        simp at hr
        subst hr
        obtain ⟨h1, h2⟩ := h a b hfa
        obtain ⟨h3, h4⟩ := mapM_inv h l r' hl
        refine ⟨by rw [List.map_cons, h1, h3], ?_⟩
        intro c hc
        rcases List.mem_cons.mp hc with hc | hc
        · subst hc; exact h2
        · exact h4 c hc

theorem mapM_length {α β : Type} {f : α → Option β} :
    ∀ (l : List α) (r : List β), l.mapM f = some r → r.length = l.length
  | [], r, hr => by simp at hr; subst hr; rfl
  | a :: l, r, hr => by
    rw [List.mapM_cons] at hr
    cases hfa : f a with
    | none => rw [hfa] at hr; simp at hr
    | some b =>
      rw [hfa] at hr
      cases hl : l.mapM f with
      | none => rw [hl] at hr; simp at hr
      | some r' =>
        rw [hl] at hr; simp at hr; subst hr
        simp [mapM_length l r' hl]

theorem mapM_none_of_mem {α β : Type} {f : α → Option β} :
    ∀ (l : List α) (a : α), a ∈ l → f a = none → l.mapM f = none
  | x :: l, a, ha, hf => by
    rw [List.mapM_cons]
    rcases List.mem_cons.mp ha with h | h
    · subst h; rw [hf]; rfl
    · rw [mapM_none_of_mem l a h hf]
      cases f x <;> rfl

/-! ### little-endian bytes -/

theorem leBytes_length (n v : Nat) : (leBytes n v).length = n := by
  induction n generalizing v with
  | zero => rfl
  | succ n ih => simp [leBytes, ih]

theorem leBytes_isBytes (n v : Nat) : IsBytes (leBytes n v) := by
  induction n generalizing v with
  | zero => intro b hb; simp [leBytes] at hb
  | succ n ih =>
    intro b hb
    rw [leBytes] at hb
    rcases List.mem_cons.mp hb with h | h
    · subst h; exact Nat.mod_lt _ (by decide)
    · exact ih _ b h

theorem ofLeBytes_leBytes (n v : Nat) : ofLeBytes (leBytes n v) = v % 256 ^ n := by
  induction n generalizing v with
  | zero => simp [leBytes, ofLeBytes, Nat.mod_one]
  | succ n ih =>
    rw [leBytes, ofLeBytes, ih, Nat.pow_succ, Nat.mul_comm (256 ^ n) 256, Nat.mod_mul]

theorem leBytes_ofLeBytes : ∀ (bs : List Nat), IsBytes bs → leBytes bs.length (ofLeBytes bs) = bs
  | [], _ => rfl
  | b :: bs, h => by
    have hb : b < 256 := h b (List.mem_cons_self)
    have hbs : IsBytes bs := fun c hc => h c (List.mem_cons_of_mem _ hc)
    rw [List.length_cons, leBytes, ofLeBytes]
    have h1 : (b + 256 * ofLeBytes bs) % 256 = b := by omega
    have h2 : (b + 256 * ofLeBytes bs) / 256 = ofLeBytes bs := by omega
    rw [h1, h2, leBytes_ofLeBytes bs hbs]

theorem ofLeBytes_lt : ∀ (bs : List Nat), IsBytes bs → ofLeBytes bs < 256 ^ bs.length
  | [], _ => by simp [ofLeBytes]
  | b :: bs, h => by
    have hb : b < 256 := h b (List.mem_cons_self)
    have hbs : IsBytes bs := fun c hc => h c (List.mem_cons_of_mem _ hc)
    have := ofLeBytes_lt bs hbs
    rw [List.length_cons, ofLeBytes, Nat.pow_succ]
    omega

theorem bfeFromBytes_toBytes {v : Nat} (hv : v < P) : bfeFromBytes (bfeToBytes v) = some v := by
  unfold bfeFromBytes bfeToBytes
  rw [leBytes_length, if_neg (by simp), ofLeBytes_leBytes, Nat.mod_eq_of_lt (Nat.lt_trans hv P_lt)]
  unfold bfeTryNew
  rw [if_pos hv]

theorem bfeFromBytes_some {bs : List Nat} (hb : IsBytes bs) {v : Nat} (h : bfeFromBytes bs = some v) :
    bfeToBytes v = bs ∧ v < P := by
  unfold bfeFromBytes at h
  by_cases hl : bs.length ≠ 8
  · rw [if_pos hl] at h; cases h
  · rw [if_neg hl] at h
    unfold bfeTryNew at h
    by_cases hp : ofLeBytes bs < P
    · rw [if_pos hp] at h
      cases h
      refine ⟨?_, hp⟩
      have hl' : bs.length = 8 := by omega
      unfold bfeToBytes
      rw [← hl', leBytes_ofLeBytes bs hb]
    · rw [if_neg hp] at h; cases h

end TF.Conv

namespace TF.Conv
open TF.Gen (P)

/-- chunking the concatenation of blocks of length `k` returns the blocks -/
theorem chunksAux_flatten {k : Nat} (hk : 0 < k) :
    ∀ (l : List (List Nat)) (f : Nat), (∀ c ∈ l, c.length = k) → l.length ≤ f → chunksAux k f l.flatten = l
  | [], f, _, _ => by
    cases f with
    | zero => rfl
    | succ f => simp only [chunksAux, List.flatten_nil, List.length_nil]; rw [if_pos (Or.inl hk)]
  | c :: l, f, h, hf => by
    cases f with
    | zero => simp at hf
    | succ f =>
      have hc : c.length = k := h c (List.mem_cons_self)
      have hl : ∀ x ∈ l, x.length = k := fun x hx => h x (List.mem_cons_of_mem _ hx)
      rw [List.flatten_cons, chunksAux]
      rw [if_neg (by rw [List.length_append, hc]; omega)]
      have h1 : (c ++ l.flatten).take k = c := by rw [← hc]; exact List.take_left
      have h2 : (c ++ l.flatten).drop k = l.flatten := by rw [← hc]; exact List.drop_left
      rw [h1, h2, chunksAux_flatten hk l f hl (by simpa using hf)]

theorem flatten_length_const {k : Nat} : ∀ (l : List (List Nat)), (∀ c ∈ l, c.length = k) → l.flatten.length = k * l.length
  | [], _ => by simp
  | c :: l, h => by
    rw [List.flatten_cons, List.length_append, h c (List.mem_cons_self),
      flatten_length_const l (fun x hx => h x (List.mem_cons_of_mem _ hx)), List.length_cons]; ring

/-- the chunks of a list whose length is a multiple of `k` concatenate to the list -/
theorem chunksAux_join {k : Nat} (hk : 0 < k) :
    ∀ (f m : Nat) (l : List Nat), l.length = k * m → m ≤ f →
      (chunksAux k f l).flatten = l ∧ (chunksAux k f l).length = m ∧ ∀ c ∈ chunksAux k f l, c.length = k
  | 0, m, l, hl, hm => by
    have : m = 0 := by omega
    subst this
    have : l = [] := List.length_eq_zero_iff.mp (by simpa using hl)
    subst this; simp [chunksAux]
  | f+1, m, l, hl, hm => by
    rw [chunksAux]
    cases m with
    | zero =>
      have : l = [] := List.length_eq_zero_iff.mp (by simpa using hl)
      subst this
      rw [if_pos (Or.inl (by simpa using hk))]; simp
    | succ m =>
      have hge : k ≤ l.length := by rw [hl, Nat.mul_succ]; omega
      rw [if_neg (by omega)]
      have hd : (l.drop k).length = k * m := by rw [List.length_drop, hl, Nat.mul_succ]; omega
      obtain ⟨h1, h2, h3⟩ := chunksAux_join hk f m (l.drop k) hd (by omega)
      refine ⟨?_, ?_, ?_⟩
      · rw [List.flatten_cons, h1, List.take_append_drop]
      · rw [List.length_cons, h2]
      · intro c hc
        rcases List.mem_cons.mp hc with h | h
        · subst h; rw [List.length_take]; omega
        · exact h3 c h

theorem digestToBytes_length {d : List Nat} (hd : d.length = 5) : (digestToBytes d).length = 40 := by
  unfold digestToBytes
  rw [flatten_length_const (k := 8) _ (by
    intro c hc; obtain ⟨v, _, rfl⟩ := List.mem_map.mp hc; exact leBytes_length 8 v)]
  simp [hd]

theorem digestToBytes_isBytes (d : List Nat) : IsBytes (digestToBytes d) := by
  intro b hb
  unfold digestToBytes at hb
  obtain ⟨c, hc, hbc⟩ := List.mem_flatten.mp hb
  obtain ⟨v, _, rfl⟩ := List.mem_map.mp hc
  exact leBytes_isBytes 8 v b hbc

theorem digestFromBytes_toBytes {d : List Nat} (hd : WFd d) : digestFromBytes (digestToBytes d) = some d := by
  unfold digestFromBytes
  rw [if_neg (by rw [digestToBytes_length hd.1]; simp)]
  unfold digestFromByteArray chunksExact
  have hlen : (digestToBytes d).length = 40 := digestToBytes_length hd.1
  unfold digestToBytes at *
  rw [chunksAux_flatten (by decide) _ _ (by
    intro c hc; obtain ⟨v, _, rfl⟩ := List.mem_map.mp hc; exact leBytes_length 8 v)
    (by rw [hlen, List.length_map, hd.1]; decide)]
  exact mapM_map_some d (fun v hv => bfeFromBytes_toBytes (hd.2 v hv))

theorem digestFromBytes_some {bs d : List Nat} (hb : IsBytes bs) (h : digestFromBytes bs = some d) :
    bs.length = 40 ∧ WFd d ∧ digestToBytes d = bs := by
  unfold digestFromBytes at h
  by_cases hl : bs.length ≠ 40
  · rw [if_pos hl] at h; cases h
  · rw [if_neg hl] at h
    have hl' : bs.length = 40 := by omega
    unfold digestFromByteArray chunksExact at h
    obtain ⟨hj, hn, hc⟩ := chunksAux_join (k := 8) (by decide) bs.length 5 bs (by rw [hl']) (by omega)
    have hcb : ∀ c ∈ chunksAux 8 bs.length bs, IsBytes c := by
      intro c hcm b hbm
      apply hb
      rw [← hj]
      exact List.mem_flatten.mpr ⟨c, hcm, hbm⟩
    -- invert mapM, remembering that every chunk consists of bytes
    have key : ∀ (l : List (List Nat)) (r : List Nat), (∀ c ∈ l, IsBytes c) → l.mapM bfeFromBytes = some r →
        r.map bfeToBytes = l ∧ ∀ v ∈ r, v < P := by
      intro l
      induction l with
      | nil => intro r _ hr; simp at hr; subst hr; simp
      | cons c l ih =>
        intro r hcl hr
        rw [List.mapM_cons] at hr
        cases hfc : bfeFromBytes c with
        | none => rw [hfc] at hr; simp at hr
        | some v =>
          rw [hfc] at hr
          cases hml : l.mapM bfeFromBytes with
          | none => rw [hml] at hr; simp at hr
          | some r' =>
            rw [hml] at hr; simp at hr; subst hr
            obtain ⟨e1, e2⟩ := bfeFromBytes_some (hcl c (List.mem_cons_self)) hfc
            obtain ⟨e3, e4⟩ := ih r' (fun x hx => hcl x (List.mem_cons_of_mem _ hx)) hml
            refine ⟨by rw [List.map_cons, e1, e3], ?_⟩
            intro w hw
            rcases List.mem_cons.mp hw with hw | hw
            · subst hw; exact e2
            · exact e4 w hw
    obtain ⟨k1, k2⟩ := key _ d hcb h
    refine ⟨hl', ⟨?_, k2⟩, ?_⟩
    · have := mapM_length _ _ h; rw [this, hn]
    · unfold digestToBytes; rw [k1, hj]
end TF.Conv

namespace TF.Conv
open TF.Gen (P)

theorem hexVal_digitChar {n : Nat} (h : n < 16) : hexVal (Nat.digitChar n) = some n := by
  interval_cases n <;> rfl

theorem hexVal_digitChar_upper {n : Nat} (h : n < 16) : hexVal (Nat.digitChar n).toUpper = some n := by
  interval_cases n <;> rfl

theorem hexVal_lt {c : Char} {n : Nat} (h : hexVal c = some n) : n < 16 := by
  unfold hexVal at h
  split at h
  · rename_i hc
    cases h
    have h2 : c.toNat ≤ 70 := hc.2
    have h1 : 65 ≤ c.toNat := hc.1
    omega
  · split at h
    · rename_i hc
      cases h
      have h2 : c.toNat ≤ 102 := hc.2
      have h1 : 97 ≤ c.toNat := hc.1
      omega
    · split at h
      · rename_i hc
        cases h
        have h2 : c.toNat ≤ 57 := hc.2
        have h1 : 48 ≤ c.toNat := hc.1
        omega
      · cases h

theorem hexPairs_encode : ∀ (bs : List Nat), IsBytes bs → hexPairs (hexEncode bs) = some bs
  | [], _ => rfl
  | b :: bs, h => by
    have hb : b < 256 := h b (List.mem_cons_self)
    have hbs : IsBytes bs := fun c hc => h c (List.mem_cons_of_mem _ hc)
    have e : hexEncode (b :: bs) = Nat.digitChar (b / 16) :: Nat.digitChar (b % 16) :: hexEncode bs := by
      simp [hexEncode]
    rw [e, hexPairs, hexVal_digitChar (by omega), hexVal_digitChar (by omega), hexPairs_encode bs hbs]
    simp only [Option.bind_some]
    congr 2; omega

theorem hexPairs_encodeUpper : ∀ (bs : List Nat), IsBytes bs → hexPairs (hexEncodeUpper bs) = some bs
  | [], _ => rfl
  | b :: bs, h => by
    have hb : b < 256 := h b (List.mem_cons_self)
    have hbs : IsBytes bs := fun c hc => h c (List.mem_cons_of_mem _ hc)
    have e : hexEncodeUpper (b :: bs) =
        (Nat.digitChar (b / 16)).toUpper :: (Nat.digitChar (b % 16)).toUpper :: hexEncodeUpper bs := by
      simp [hexEncodeUpper, hexEncode]
    rw [e, hexPairs, hexVal_digitChar_upper (by omega), hexVal_digitChar_upper (by omega), hexPairs_encodeUpper bs hbs]
    simp only [Option.bind_some]
    congr 2; omega

theorem hexEncode_length (bs : List Nat) : (hexEncode bs).length = 2 * bs.length := by
  induction bs with
  | nil => rfl
  | cons b bs ih =>
    have e : hexEncode (b :: bs) = Nat.digitChar (b / 16) :: Nat.digitChar (b % 16) :: hexEncode bs := by
      simp [hexEncode]
    rw [e, List.length_cons, List.length_cons, ih, List.length_cons]; ring

theorem hexDecode_encode {bs : List Nat} (h : IsBytes bs) : hexDecode (hexEncode bs) = some bs := by
  unfold hexDecode
  rw [if_neg (by rw [hexEncode_length]; omega), hexPairs_encode bs h]

theorem hexDecode_encodeUpper {bs : List Nat} (h : IsBytes bs) : hexDecode (hexEncodeUpper bs) = some bs := by
  unfold hexDecode
  rw [if_neg (by unfold hexEncodeUpper; rw [List.length_map, hexEncode_length]; omega), hexPairs_encodeUpper bs h]

/-- what `hex::decode` accepts: an even number of hex characters, two per byte -/
theorem hexPairs_some : ∀ (s : List Char) (bs : List Nat), s.length % 2 = 0 → hexPairs s = some bs →
    s.length = 2 * bs.length ∧ IsBytes bs ∧ ∀ c ∈ s, (hexVal c).isSome
  | [], bs, _, h => by
    simp [hexPairs] at h; subst h; simp [IsBytes]
  | [_], _, hl, _ => by simp at hl
  | c1 :: c2 :: rest, bs, hl, h => by
    rw [hexPairs] at h
    cases h1 : hexVal c1 with
    | none => rw [h1] at h; simp at h
    | some hi =>
      cases h2 : hexVal c2 with
      | none => rw [h1, h2] at h; simp at h
      | some lo =>
        cases h3 : hexPairs rest with
        | none => rw [h1, h2, h3] at h; simp at h
        | some r =>
          rw [h1, h2, h3] at h
          simp at h
          subst h
          have hl' : rest.length % 2 = 0 := by simp at hl; omega
          obtain ⟨e1, e2, e3⟩ := hexPairs_some rest r hl' h3
          refine ⟨by simp [e1]; ring, ?_, ?_⟩
          · intro b hb
            rcases List.mem_cons.mp hb with hb | hb
            · subst hb
              have := hexVal_lt h1; have := hexVal_lt h2; omega
            · exact e2 b hb
          · intro c hc
            rcases List.mem_cons.mp hc with hc | hc
            · subst hc; simp [h1]
            · rcases List.mem_cons.mp hc with hc | hc
              · subst hc; simp [h2]
              · exact e3 c hc

theorem hexDecode_some {s : List Char} {bs : List Nat} (h : hexDecode s = some bs) :
    s.length = 2 * bs.length ∧ IsBytes bs ∧ ∀ c ∈ s, (hexVal c).isSome := by
  unfold hexDecode at h
  by_cases hl : s.length % 2 ≠ 0
  · rw [if_pos hl] at h; cases h
  · rw [if_neg hl] at h
    exact hexPairs_some s bs (by omega) h

theorem digestFromHex_toHex {d : List Nat} (hd : WFd d) :
    digestFromHex (digestToHex d) = some d ∧ digestFromHex (digestToHexUpper d) = some d := by
  unfold digestFromHex digestToHex digestToHexUpper
  rw [hexDecode_encode (digestToBytes_isBytes d), hexDecode_encodeUpper (digestToBytes_isBytes d)]
  exact ⟨digestFromBytes_toBytes hd, digestFromBytes_toBytes hd⟩

theorem digestFromHex_some {s : List Char} {d : List Nat} (h : digestFromHex s = some d) :
    s.length = 80 ∧ (∀ c ∈ s, (hexVal c).isSome) ∧ WFd d ∧ hexDecode s = some (digestToBytes d) := by
  unfold digestFromHex at h
  cases hdec : hexDecode s with
  | none => rw [hdec] at h; cases h
  | some bs =>
    rw [hdec, Option.bind_some] at h
    obtain ⟨e1, e2, e3⟩ := hexDecode_some hdec
    obtain ⟨f1, f2, f3⟩ := digestFromBytes_some e2 h
    exact ⟨by omega, e3, f2, by rw [f3]⟩
end TF.Conv

namespace TF.Conv
open TF.Gen (P)

theorem digitVal_digitChar {n : Nat} (h : n < 10) : digitVal (Nat.digitChar n) = some n := by
  interval_cases n <;> rfl

theorem digitChar_isDigit {n : Nat} (h : n < 10) : IsDigit (Nat.digitChar n) := by
  interval_cases n <;> decide

theorem digitChar_toNat {n : Nat} (h : n < 10) : (Nat.digitChar n).toNat - 48 = n := by
  interval_cases n <;> rfl

theorem digitVal_some_iff {c : Char} {x : Nat} : digitVal c = some x ↔ IsDigit c ∧ x = c.toNat - 48 := by
  unfold digitVal IsDigit
  split
  · rename_i h; constructor
    · intro e; cases e; exact ⟨h, rfl⟩
    · rintro ⟨_, e⟩; rw [e]
  · rename_i h; constructor
    · intro e; cases e
    · rintro ⟨h', _⟩; exact absurd h' h

theorem isDigit_ne {c : Char} (h : IsDigit c) : c ≠ '+' ∧ c ≠ '-' ∧ c ≠ ',' := by
  refine ⟨?_, ?_, ?_⟩ <;> (intro e; subst e; revert h; decide)

theorem decValFrom_ge (acc : Nat) (cs : List Char) : acc ≤ decValFrom acc cs := by
  induction cs generalizing acc with
  | nil => exact Nat.le_refl _
  | cons c cs ih =>
    unfold decValFrom at *
    rw [List.foldl_cons]
    exact Nat.le_trans (by omega) (ih _)

/-- the accumulation loop accepts exactly digit strings whose value does not overflow -/
theorem parseDigits_some_iff (cs : List Char) (acc v : Nat) (hacc : acc ≤ U64MAX) :
    parseDigits acc cs = some v ↔ (∀ c ∈ cs, IsDigit c) ∧ v = decValFrom acc cs ∧ v ≤ U64MAX := by
  induction cs generalizing acc with
  | nil =>
    simp only [parseDigits, decValFrom, List.foldl_nil, List.not_mem_nil, false_imp_iff, implies_true, true_and]
    constructor
    · intro e; cases e; exact ⟨rfl, hacc⟩
    · rintro ⟨e, _⟩; rw [e]
  | cons c cs ih =>
    rw [parseDigits]
    have hfold : decValFrom acc (c :: cs) = decValFrom (acc * 10 + (c.toNat - 48)) cs := by
      unfold decValFrom; rw [List.foldl_cons]
    by_cases hd : IsDigit c
    · rw [(digitVal_some_iff (c := c)).mpr ⟨hd, rfl⟩, Option.bind_some]
      simp only
      by_cases hov : acc * 10 + (c.toNat - 48) > U64MAX
      · rw [if_pos hov]
        constructor
        · intro e; cases e
        · rintro ⟨_, e, hle⟩
          rw [hfold] at e
          have := decValFrom_ge (acc * 10 + (c.toNat - 48)) cs
          omega
      · rw [if_neg hov, ih _ (by omega), hfold]
        constructor
        · rintro ⟨h1, h2, h3⟩
          exact ⟨fun x hx => by
            rcases List.mem_cons.mp hx with h | h
            · subst h; exact hd
            · exact h1 x h, h2, h3⟩
        · rintro ⟨h1, h2, h3⟩
          exact ⟨fun x hx => h1 x (List.mem_cons_of_mem _ hx), h2, h3⟩
    · have : digitVal c = none := by
        unfold digitVal; exact if_neg hd
      rw [this, Option.bind_none]
      constructor
      · intro e; cases e
      · rintro ⟨h1, _⟩; exact absurd (h1 c (List.mem_cons_self)) hd

/-- `u64::from_str`: an optional `+`, then at least one digit and only digits, value at most `u64::MAX` -/
theorem parseU64_some_iff (s : List Char) (v : Nat) :
    parseU64 s = some v ↔
      ∃ ds, (s = ds ∨ s = '+' :: ds) ∧ ds ≠ [] ∧ (∀ c ∈ ds, IsDigit c) ∧ v = decVal ds ∧ v ≤ U64MAX := by
  have h0 : (0 : Nat) ≤ U64MAX := by decide
  unfold decVal
  match s with
  | [] =>
    simp only [parseU64]
    constructor
    · intro e; cases e
    · rintro ⟨ds, h | h, hne, _⟩
      · exact absurd h.symm hne
      · cases h
  | [c] =>
    simp only [parseU64]
    by_cases hc : c = '+' ∨ c = '-'
    · rw [if_pos hc]
      constructor
      · intro e; cases e
      · rintro ⟨ds, h | h, hne, hd, _⟩
        · subst h
          have := isDigit_ne (hd c (List.mem_cons_self))
          rcases hc with hc | hc
          · exact absurd hc this.1
          · exact absurd hc this.2.1
        · simp at h; exact absurd h.2 hne
    · rw [if_neg hc, parseDigits_some_iff _ _ _ h0]
      constructor
      · rintro ⟨h1, h2, h3⟩; exact ⟨[c], Or.inl rfl, by simp, h1, h2, h3⟩
      · rintro ⟨ds, h | h, hne, hd, hv, hle⟩
        · subst h; exact ⟨hd, hv, hle⟩
        · simp at h; exact absurd h.2 hne
  | c :: c2 :: rest =>
    simp only [parseU64]
    by_cases hc : c = '+'
    · rw [if_pos hc, parseDigits_some_iff _ _ _ h0]
      subst hc
      constructor
      · rintro ⟨h1, h2, h3⟩; exact ⟨c2 :: rest, Or.inr rfl, by simp, h1, h2, h3⟩
      · rintro ⟨ds, h | h, hne, hd, hv, hle⟩
        · subst h
          exact absurd rfl (isDigit_ne (hd '+' (List.mem_cons_self))).1
        · simp at h; subst h; exact ⟨hd, hv, hle⟩
    · rw [if_neg hc, parseDigits_some_iff _ _ _ h0]
      constructor
      · rintro ⟨h1, h2, h3⟩; exact ⟨c :: c2 :: rest, Or.inl rfl, by simp, h1, h2, h3⟩
      · rintro ⟨ds, h | h, hne, hd, hv, hle⟩
        · subst h; exact ⟨hd, hv, hle⟩
        · simp at h; exact absurd h.1 hc

/-- digits produced by `to_string`: all decimal, non-empty, of the right value -/
theorem decDigitsAux_spec : ∀ (f v : Nat), v < 10 ^ (f + 1) →
    decDigitsAux (f + 1) v ≠ [] ∧ (∀ x ∈ decDigitsAux (f + 1) v, x < 10) ∧
      ∀ acc, (decDigitsAux (f + 1) v).foldl (fun a x => a * 10 + x) acc
        = acc * 10 ^ (decDigitsAux (f + 1) v).length + v
  | 0, v, h => by
    have h10 : v < 10 := by simpa using h
    rw [decDigitsAux, if_pos h10]
    exact ⟨by simp, by simpa using h10, by intro acc; simp⟩
  | f+1, v, h => by
    rw [decDigitsAux]
    by_cases h10 : v < 10
    · rw [if_pos h10]
      exact ⟨by simp, by simpa using h10, by intro acc; simp⟩
    · rw [if_neg h10]
      have hlt : v / 10 < 10 ^ (f + 1) := by rw [Nat.pow_succ] at h; omega
      obtain ⟨_, h2, h3⟩ := decDigitsAux_spec f (v / 10) hlt
      refine ⟨by simp, ?_, ?_⟩
      · intro x hx
        rcases List.mem_append.mp hx with hx | hx
        · exact h2 x hx
        · simp at hx; omega
      · intro acc
        rw [List.foldl_append, h3 acc, List.foldl_cons, List.foldl_nil, List.length_append, List.length_singleton,
          Nat.pow_succ]
        have : v = 10 * (v / 10) + v % 10 := (Nat.div_add_mod v 10).symm
        generalize 10 ^ (decDigitsAux (f + 1) (v / 10)).length = t at *
        generalize v / 10 = q at *
        generalize v % 10 = r at *
        rw [this]; ring

theorem lt_ten_pow_succ (v : Nat) : v < 10 ^ (v + 1) :=
  Nat.lt_of_lt_of_le (Nat.lt_pow_self (by decide : 1 < 10)) (Nat.pow_le_pow_right (by decide) (Nat.le_succ v))

theorem toDecimal_spec (v : Nat) :
    toDecimal v ≠ [] ∧ (∀ c ∈ toDecimal v, IsDigit c) ∧ decVal (toDecimal v) = v := by
  obtain ⟨h1, h2, h3⟩ := decDigitsAux_spec v v (lt_ten_pow_succ v)
  unfold toDecimal
  refine ⟨by simpa using h1, ?_, ?_⟩
  · intro c hc
    obtain ⟨x, hx, rfl⟩ := List.mem_map.mp hc
    exact digitChar_isDigit (h2 x hx)
  · unfold decVal decValFrom
    rw [List.foldl_map]
    have : ∀ (l : List Nat) (acc : Nat), (∀ x ∈ l, x < 10) →
        l.foldl (fun a x => a * 10 + ((Nat.digitChar x).toNat - 48)) acc = l.foldl (fun a x => a * 10 + x) acc := by
      intro l
      induction l with
      | nil => intro _ _; rfl
      | cons x l ih =>
        intro acc hl
        rw [List.foldl_cons, List.foldl_cons, digitChar_toNat (hl x (List.mem_cons_self))]
        exact ih _ (fun y hy => hl y (List.mem_cons_of_mem _ hy))
    rw [this _ 0 h2, h3 0]; simp

theorem parseU64_toDecimal {v : Nat} (hv : v ≤ U64MAX) : parseU64 (toDecimal v) = some v := by
  obtain ⟨h1, h2, h3⟩ := toDecimal_spec v
  exact (parseU64_some_iff _ _).mpr ⟨toDecimal v, Or.inl rfl, h1, h2, h3.symm, hv⟩

theorem bfeFromStr_toDecimal {v : Nat} (hv : v < P) : bfeFromStr (toDecimal v) = some v := by
  unfold bfeFromStr
  rw [parseU64_toDecimal (by rw [P_eq] at hv; unfold U64MAX; omega), Option.bind_some]
  unfold bfeTryNew; rw [if_pos hv]
end TF.Conv

namespace TF.Conv
open TF.Gen (P)

theorem splitComma_ne_nil (s : List Char) : splitComma s ≠ [] := by
  induction s with
  | nil => simp [splitComma]
  | cons c cs ih =>
    rw [splitComma]
    split
    · simp
    · split <;> simp

theorem splitComma_noComma : ∀ (x : List Char), ',' ∉ x → splitComma x = [x]
  | [], _ => rfl
  | c :: cs, h => by
    have hc : c ≠ ',' := fun e => h (by rw [e]; exact List.mem_cons_self)
    have hcs : ',' ∉ cs := fun e => h (List.mem_cons_of_mem _ e)
    rw [splitComma, if_neg hc, splitComma_noComma cs hcs]

theorem splitComma_append : ∀ (x rest : List Char), ',' ∉ x →
    splitComma (x ++ ',' :: rest) = x :: splitComma rest
  | [], rest, _ => by simp [splitComma]
  | c :: cs, rest, h => by
    have hc : c ≠ ',' := fun e => h (by rw [e]; exact List.mem_cons_self)
    have hcs : ',' ∉ cs := fun e => h (List.mem_cons_of_mem _ e)
    rw [List.cons_append, splitComma, if_neg hc, splitComma_append cs rest hcs]

theorem splitComma_joinComma : ∀ (items : List (List Char)), items ≠ [] → (∀ x ∈ items, ',' ∉ x) →
    splitComma (joinComma items) = items
  | [], h, _ => absurd rfl h
  | [x], _, h => by rw [joinComma]; exact splitComma_noComma x (h x (List.mem_cons_self))
  | x :: y :: rest, _, h => by
    rw [joinComma, splitComma_append x _ (h x (List.mem_cons_self)),
      splitComma_joinComma (y :: rest) (by simp) (fun z hz => h z (List.mem_cons_of_mem _ hz))]

theorem toDecimal_noComma (v : Nat) : ',' ∉ toDecimal v := by
  intro h
  exact (isDigit_ne ((toDecimal_spec v).2.1 ',' h)).2.2 rfl

theorem digestFromStr_toString {d : List Nat} (hd : WFd d) : digestFromStr (digestToString d) = some d := by
  unfold digestFromStr digestToString
  have hne : d.map toDecimal ≠ [] := by
    intro e; have := congrArg List.length e; simp [hd.1] at this
  rw [splitComma_joinComma _ hne (by
    intro x hx; obtain ⟨v, _, rfl⟩ := List.mem_map.mp hx; exact toDecimal_noComma v)]
  rw [mapM_map_some d (fun v hv => bfeFromStr_toDecimal (hd.2 v hv)), Option.bind_some, if_pos hd.1]

/-! ### base-`p` positional value -/

theorem valP_lt : ∀ (n : Nat) (d : List Nat), d.length = n → (∀ x ∈ d, x < P) → valP d < P ^ n
  | 0, d, hl, _ => by
    have : d = [] := List.length_eq_zero_iff.mp hl
    subst this; simp [valP]
  | n+1, [], hl, _ => by simp at hl
  | n+1, x :: xs, hl, h => by
    have hx : x < P := h x (List.mem_cons_self)
    have := valP_lt n xs (by simpa using hl) (fun y hy => h y (List.mem_cons_of_mem _ hy))
    rw [valP, Nat.pow_succ]
    have h1 : P * (valP xs + 1) ≤ P * P ^ n := Nat.mul_le_mul_left _ this
    rw [Nat.mul_add, Nat.mul_one] at h1
    rw [Nat.mul_comm (P ^ n) P]; omega

theorem ofNatP_wf (n v : Nat) : (ofNatP n v).length = n ∧ ∀ x ∈ ofNatP n v, x < P := by
  induction n generalizing v with
  | zero => simp [ofNatP]
  | succ n ih =>
    rw [ofNatP]
    refine ⟨by simp [(ih (v / P)).1], ?_⟩
    intro x hx
    rcases List.mem_cons.mp hx with h | h
    · subst h; exact Nat.mod_lt _ P_pos
    · exact (ih (v / P)).2 x h

theorem valP_ofNatP (n v : Nat) : valP (ofNatP n v) = v % P ^ n := by
  induction n generalizing v with
  | zero => simp [ofNatP, valP, Nat.mod_one]
  | succ n ih => rw [ofNatP, valP, ih, Nat.pow_succ, Nat.mul_comm (P ^ n) P, Nat.mod_mul]

theorem ofNatP_valP : ∀ (n : Nat) (d : List Nat), d.length = n → (∀ x ∈ d, x < P) → ofNatP n (valP d) = d
  | 0, d, hl, _ => by
    have : d = [] := List.length_eq_zero_iff.mp hl
    subst this; rfl
  | n+1, [], hl, _ => by simp at hl
  | n+1, x :: xs, hl, h => by
    have hx : x < P := h x (List.mem_cons_self)
    rw [ofNatP, valP]
    have h1 : (x + P * valP xs) % P = x := by rw [Nat.add_mul_mod_self_left, Nat.mod_eq_of_lt hx]
    have h2 : (x + P * valP xs) / P = valP xs := by
      rw [Nat.add_mul_div_left _ _ P_pos, Nat.div_eq_of_lt hx, Nat.zero_add]
    rw [h1, h2, ofNatP_valP n xs (by simpa using hl) (fun y hy => h y (List.mem_cons_of_mem _ hy))]

theorem digestToNat_eq_valP (d : List Nat) : digestToNat d = valP d := by
  induction d with
  | nil => rfl
  | cons x xs ih =>
    unfold digestToNat at *
    rw [List.reverse_cons, List.foldl_append, List.foldl_cons, List.foldl_nil, ih, valP]; ring

theorem takeBaseP_eq (n v : Nat) : takeBaseP n v = (ofNatP n v, v / P ^ n) := by
  induction n generalizing v with
  | zero => simp [takeBaseP, ofNatP]
  | succ n ih =>
    rw [takeBaseP, ih, ofNatP, Nat.pow_succ, Nat.mul_comm (P ^ n) P, Nat.div_div_eq_div_mul]

theorem digestFromNat_eq (v : Nat) : digestFromNat v = if v < P ^ 5 then some (ofNatP 5 v) else none := by
  unfold digestFromNat
  rw [takeBaseP_eq]
  have hpos : 0 < P ^ 5 := Nat.pow_pos P_pos
  by_cases h : v < P ^ 5
  · rw [if_pos h]
    simp only [Nat.div_eq_of_lt h]
    exact if_neg (by simp)
  · rw [if_neg h]
    have : v / P ^ 5 ≠ 0 := by
      have := Nat.div_pos (Nat.not_lt.mp h) hpos
      omega
    exact if_pos this

/-! ### order -/

theorem lexCmp_snoc (x y : Nat) : ∀ (l1 l2 : List Nat), l1.length = l2.length →
    lexCmp (l1 ++ [x]) (l2 ++ [y]) = (lexCmp l1 l2).then (compare x y)
  | [], [], _ => by
    simp only [List.nil_append, lexCmp]
    cases compare x y <;> rfl
  | [], _ :: _, h => by simp at h
  | _ :: _, [], h => by simp at h
  | a :: l1, b :: l2, h => by
    simp only [List.cons_append, lexCmp]
    cases compare a b
    · rfl
    · exact lexCmp_snoc x y l1 l2 (by simpa using h)
    · rfl

theorem compare_digit {x y vx vy : Nat} (hx : x < P) (hy : y < P) :
    compare (x + P * vx) (y + P * vy) = (compare vx vy).then (compare x y) := by
  rcases Nat.lt_trichotomy vx vy with h | h | h
  · have : P * (vx + 1) ≤ P * vy := Nat.mul_le_mul_left _ h
    rw [Nat.mul_add, Nat.mul_one] at this
    rw [Nat.compare_eq_lt.mpr h, Nat.compare_eq_lt.mpr (by omega)]; rfl
  · subst h
    rw [Nat.compare_eq_eq.mpr rfl]
    rcases Nat.lt_trichotomy x y with h | h | h
    · rw [Nat.compare_eq_lt.mpr h, Nat.compare_eq_lt.mpr (by omega)]; rfl
    · subst h; rw [Nat.compare_eq_eq.mpr rfl, Nat.compare_eq_eq.mpr rfl]; rfl
    · rw [Nat.compare_eq_gt.mpr h, Nat.compare_eq_gt.mpr (by omega)]; rfl
  · have : P * (vy + 1) ≤ P * vx := Nat.mul_le_mul_left _ h
    rw [Nat.mul_add, Nat.mul_one] at this
    rw [Nat.compare_eq_gt.mpr h, Nat.compare_eq_gt.mpr (by omega)]; rfl

theorem digestCmp_eq_compare : ∀ (a b : List Nat), a.length = b.length → (∀ x ∈ a, x < P) → (∀ x ∈ b, x < P) →
    digestCmp a b = compare (valP a) (valP b)
  | [], [], _, _, _ => rfl
  | [], _ :: _, h, _, _ => by simp at h
  | _ :: _, [], h, _, _ => by simp at h
  | x :: xs, y :: ys, h, ha, hb => by
    have hl : xs.length = ys.length := by simpa using h
    have ih := digestCmp_eq_compare xs ys hl (fun z hz => ha z (List.mem_cons_of_mem _ hz))
      (fun z hz => hb z (List.mem_cons_of_mem _ hz))
    unfold digestCmp at *
    rw [List.reverse_cons, List.reverse_cons, lexCmp_snoc x y _ _ (by simp [hl]), ih, valP, valP,
      compare_digit (ha x (List.mem_cons_self)) (hb y (List.mem_cons_self))]
end TF.Conv

namespace TF.Conv
open TF.Gen (P)

/-- five `u64` words as 40 bytes -/
def wordsToBytes (ws : List Nat) : List Nat := (ws.map (leBytes 8)).flatten

theorem wordsToBytes_inj {d ws : List Nat} (hd : ∀ x ∈ d, x < 256 ^ 8) (hw : ∀ x ∈ ws, x < 256 ^ 8)
    (h : wordsToBytes d = wordsToBytes ws) : d = ws := by
  unfold wordsToBytes at h
  have hl : ∀ (l : List Nat), ∀ c ∈ l.map (leBytes 8), c.length = 8 := by
    intro l c hc; obtain ⟨v, _, rfl⟩ := List.mem_map.mp hc; exact leBytes_length 8 v
  have h1 := chunksAux_flatten (k := 8) (by decide) (d.map (leBytes 8)) (d.length + ws.length) (hl d) (by simp)
  have h2 := chunksAux_flatten (k := 8) (by decide) (ws.map (leBytes 8)) (d.length + ws.length) (hl ws) (by simp)
  rw [h] at h1
  have e : d.map (leBytes 8) = ws.map (leBytes 8) := h1.symm.trans h2
  have e2 := congrArg (List.map ofLeBytes) e
  rw [List.map_map, List.map_map] at e2
  have key : ∀ (l : List Nat), (∀ x ∈ l, x < 256 ^ 8) → l.map (ofLeBytes ∘ leBytes 8) = l := by
    intro l hlt
    conv_rhs => rw [← List.map_id l]
    apply List.map_congr_left
    intro x hx
    simp only [Function.comp, id]
    rw [ofLeBytes_leBytes, Nat.mod_eq_of_lt (hlt x hx)]
  rw [key d hd, key ws hw] at e2
  exact e2

theorem digestFromBytes_words_none {ws : List Nat} (hw : ∀ x ∈ ws, x < 256 ^ 8) (hbad : ∃ w ∈ ws, P ≤ w) :
    digestFromBytes (wordsToBytes ws) = none := by
  cases h : digestFromBytes (wordsToBytes ws) with
  | none => rfl
  | some d =>
    exfalso
    have hb : IsBytes (wordsToBytes ws) := by
      intro b hb
      unfold wordsToBytes at hb
      obtain ⟨c, hc, hbc⟩ := List.mem_flatten.mp hb
      obtain ⟨v, _, rfl⟩ := List.mem_map.mp hc
      exact leBytes_isBytes 8 v b hbc
    obtain ⟨_, hd, he⟩ := digestFromBytes_some hb h
    have : d = ws := wordsToBytes_inj (fun x hx => Nat.lt_trans (hd.2 x hx) P_lt) hw he
    subst this
    obtain ⟨w, hwm, hwp⟩ := hbad
    exact absurd (hd.2 w hwm) (Nat.not_lt.mpr hwp)

theorem mapM_eq_some_iff_forall₂ {α β : Type} {f : α → Option β} :
    ∀ (l : List α) (r : List β), l.mapM f = some r ↔ List.Forall₂ (fun a b => f a = some b) l r
  | [], r => by
    constructor
    · intro h; simp at h; subst h; exact List.Forall₂.nil
    · intro h; cases h; simp
  | a :: l, r => by
    rw [List.mapM_cons]
    constructor
    · intro h
      cases hfa : f a with
      | none => rw [hfa] at h; simp at h
      | some b =>
        rw [hfa] at h
        cases hl : l.mapM f with
        | none => rw [hl] at h; simp at h
        | some r' =>
          rw [hl] at h; simp at h; subst h
          exact List.Forall₂.cons hfa ((mapM_eq_some_iff_forall₂ l r').mp hl)
    · intro h
      cases h with
      | cons hab hrest =>
        rw [hab, (mapM_eq_some_iff_forall₂ l _).mpr hrest]; rfl

end TF.Conv
