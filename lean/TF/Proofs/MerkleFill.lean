import TF.Proofs.MerkleMaps
/-! the level-by-level invariant of `PartialMerkleTree::fill` -/
set_option linter.unusedSectionVars false
namespace TF.Merkle
open TF.Gen

section Fill
variable {D : Type} [DecidableEq D] (H : D → D → D)

/-- what `fill` relies on: claimed leafs `leafD` and supplied nodes `authD`, by node index -/
structure FillCtx (h : Nat) (idxs : List Nat) (leafD authD : Nat → Option D) : Prop where
  hh : h ≤ 31
  hi : ∀ i ∈ idxs, i < 2^h
  a1 : ∀ k, Spec.covered h idxs k = true → authD k = none
  a2 : ∀ k, 2 ≤ k → Spec.covered h idxs k = false → Spec.covered h idxs (sib k) = true → (authD k).isSome
  l1 : ∀ i ∈ idxs, (leafD (i + 2^h)).isSome
  l2 : ∀ k, (∀ i ∈ idxs, i + 2^h ≠ k) → leafD k = none

/-- content of the node map before `fill` -/
def baseVal (leafD authD : Nat → Option D) (k : Nat) : Option D :=
  match authD k with
  | some v => some v
  | none => leafD k

theorem anc_lt_of_level_lt {h i i' j j' : Nat} (hi : i < 2^h) (hi' : i' < 2^h) (hjj : j' < j) (hj : j ≤ h) :
    anc h i j < anc h i' j' := by
  have h1 := (anc_range hi hj).2
  have h2 := (anc_range hi' (show j' ≤ h by omega)).1
  have h3 : 2^(h-j+1) ≤ 2^(h-j') := two_pow_le_of_le (by omega)
  omega

theorem anc_ne_of_level_ne {h i i' j j' : Nat} (hi : i < 2^h) (hi' : i' < 2^h) (hjj : j ≠ j') (hj : j ≤ h) (hj' : j' ≤ h) :
    anc h i j ≠ anc h i' j' := by
  rcases Nat.lt_or_gt_of_ne hjj with hlt | hgt
  · have := anc_lt_of_level_lt hi' hi hlt hj'; omega
  · have := anc_lt_of_level_lt hi hi' hgt hj; omega

variable {h : Nat} {idxs : List Nat} {leafD authD : Nat → Option D}

theorem refVal_none (ctx : FillCtx h idxs leafD authD) : ∀ (j k : Nat), (∀ i ∈ idxs, anc h i j ≠ k) →
    Spec.refVal H leafD authD j k = none
  | 0, k, hk => by
    simp only [Spec.refVal]
    exact ctx.l2 k (fun i hi => by have := hk i hi; rwa [anc_zero] at this)
  | j+1, k, hk => by
    have h1 : ∀ i ∈ idxs, anc h i j ≠ 2*k := fun i hi e => hk i hi (by rw [anc_succ, e]; omega)
    have h2 : ∀ i ∈ idxs, anc h i j ≠ 2*k+1 := fun i hi e => hk i hi (by rw [anc_succ, e]; omega)
    simp only [Spec.refVal, refVal_none ctx j _ h1, refVal_none ctx j _ h2]

/-- the invariant of the outer loop of `fill` after `j` iterations: every computable node up to level `j` carries the
    reference value, everything else is untouched -/
def FillInv (h : Nat) (idxs : List Nat) (leafD authD : Nat → Option D) (j : Nat) (m : NodeMap D) : Prop :=
  (∀ j', j' ≤ j → ∀ i ∈ idxs, ∃ v, m.get (anc h i j') = some v ∧ Spec.refVal H leafD authD j' (anc h i j') = some v) ∧
  (∀ k, (∀ j', j' ≤ j → ∀ i ∈ idxs, anc h i j' ≠ k) → m.get k = baseVal leafD authD k)

theorem covered_of_anc {i j : Nat} (hi : i ∈ idxs) (hj : j ≤ h) : Spec.covered h idxs (anc h i j) = true :=
  covered_iff.2 ⟨i, hi, j, hj, rfl⟩

theorem not_covered_of_level (ctx : FillCtx h idxs leafD authD) {i j k : Nat} (hi : i ∈ idxs) (hj : j ≤ h)
    (hk : k / 2 = anc h i j / 2) (hn : ∀ i' ∈ idxs, anc h i' j ≠ k) : Spec.covered h idxs k = false := by
  cases hc : Spec.covered h idxs k
  · rfl
  · exfalso
    obtain ⟨i', hi', j', hj', e⟩ := covered_iff.1 hc
    by_cases hjj : j' = j
    · subst hjj; exact hn i' hi' e
    · -- k lies in the index range of level j, anc h i' j' in that of level j'
      have r1 := anc_range (ctx.hi i hi) hj
      have r2 := anc_range (ctx.hi i' hi') hj'
      have e2 := two_pow_succ (h - j)
      have e3 := two_pow_succ (h - j')
      rcases Nat.lt_or_gt_of_ne hjj with hlt | hgt
      · have : 2^(h-j+1) ≤ 2^(h-j') := two_pow_le_of_le (by omega)
        omega
      · have : 2^(h-j'+1) ≤ 2^(h-j) := two_pow_le_of_le (by omega)
        omega

/-- everything the inner loop needs to know about a parent node `p` on level `j+1` -/
theorem parent_facts (ctx : FillCtx h idxs leafD authD) {j : Nat} (hj : j < h) {m : NodeMap D}
    (inv : FillInv H h idxs leafD authD j m) {i : Nat} (hi : i ∈ idxs) :
    let p := anc h i (j+1)
    ∃ a b, m.get (2*p) = some a ∧ m.get (2*p+1) = some b ∧
      Spec.refVal H leafD authD (j+1) p = some (H a b) ∧ m.get p = none ∧ 2 * p < USIZE ∧ 1 ≤ p ∧
      (∀ i' ∈ idxs, anc h i' (j+1) ≠ 2*p ∧ anc h i' (j+1) ≠ 2*p+1) := by
  intro p
  have hp : p = anc h i j / 2 := anc_succ h i j
  have rp := anc_range (ctx.hi i hi) (show j+1 ≤ h by omega)
  have rc := anc_range (ctx.hi i hi) (show j ≤ h by omega)
  have e1 : h - j = (h - (j+1)) + 1 := by omega
  have e2 := two_pow_succ (h - (j+1))
  rw [show h - (j+1) + 1 = h - j by omega] at rp e2
  have hp1 : 1 ≤ p := by have := Nat.one_le_two_pow (n := h - (j+1)); omega
  -- value of a child `c` of `p`
  have child : ∀ c, c / 2 = p →
      ∃ v, m.get c = some v ∧
        ((Spec.refVal H leafD authD j c = some v) ∨ (Spec.refVal H leafD authD j c = none ∧ authD c = some v)) := by
    intro c hc
    by_cases hcov : ∃ i' ∈ idxs, anc h i' j = c
    · obtain ⟨i', hi', e⟩ := hcov
      obtain ⟨v, h1, h2⟩ := inv.1 j (Nat.le_refl j) i' hi'
      rw [e] at h1 h2
      exact ⟨v, h1, Or.inl h2⟩
    · have hn : ∀ i' ∈ idxs, anc h i' j ≠ c := fun i' hi' e => hcov ⟨i', hi', e⟩
      have hnc := not_covered_of_level ctx hi (show j ≤ h by omega) (by rw [hc, hp]) hn
      have hsib : sib c = anc h i j := by
        have hne : c ≠ anc h i j := fun e => hn i hi e.symm
        unfold sib; split <;> omega
      have hs : Spec.covered h idxs (sib c) = true := by rw [hsib]; exact covered_of_anc hi (by omega)
      have h2c : 2 ≤ c := by omega
      have hsome := ctx.a2 c h2c hnc hs
      obtain ⟨v, hv⟩ := Option.isSome_iff_exists.1 hsome
      refine ⟨v, ?_, Or.inr ⟨refVal_none H ctx j c hn, hv⟩⟩
      have hb : m.get c = baseVal leafD authD c := by
        apply inv.2
        intro j' hj' i' hi' e
        have : Spec.covered h idxs c = true := by rw [← e]; exact covered_of_anc hi' (by omega)
        rw [hnc] at this; cases this
      rw [hb, baseVal, hv]
  obtain ⟨a, ha1, ha2⟩ := child (2*p) (by omega)
  obtain ⟨b, hb1, hb2⟩ := child (2*p+1) (by omega)
  refine ⟨a, b, ha1, hb1, ?_, ?_, ?_, hp1, ?_⟩
  · -- the reference value of p
    have hcovc : ¬ (Spec.refVal H leafD authD j (2*p) = none ∧ Spec.refVal H leafD authD j (2*p+1) = none) := by
      rintro ⟨n1, n2⟩
      obtain ⟨v, _, hv⟩ := inv.1 j (Nat.le_refl j) i hi
      have : anc h i j = 2*p ∨ anc h i j = 2*p+1 := by omega
      rcases this with e | e <;> rw [e] at hv
      · rw [n1] at hv; cases hv
      · rw [n2] at hv; cases hv
    simp only [Spec.refVal]
    rcases ha2 with ha2 | ⟨ha2, ha3⟩ <;> rcases hb2 with hb2 | ⟨hb2, hb3⟩
    · simp [ha2, hb2]
    · simp [ha2, hb2, hb3]
    · simp [ha2, hb2, ha3]
    · exact absurd ⟨ha2, hb2⟩ hcovc
  · -- p itself is still absent
    have hb : m.get p = baseVal leafD authD p := by
      apply inv.2
      intro j' hj' i' hi'
      exact (anc_ne_of_level_ne (ctx.hi i hi) (ctx.hi i' hi') (show j+1 ≠ j' by omega) (by omega) (by omega)).symm
    rw [hb, baseVal, ctx.a1 p (covered_of_anc hi (by omega))]
    apply ctx.l2
    intro i' hi'
    have : 2^(h-j) ≤ 2^h := two_pow_le_of_le (by omega)
    omega
  · have : 2^(h-j) ≤ 2^31 := two_pow_le_of_le (by have := ctx.hh; omega)
    have : (2:Nat)^31 * 2 < 2^64 := by decide
    unfold USIZE; omega
  · intro i' hi'
    have r' := anc_range (ctx.hi i' hi') (show j+1 ≤ h by omega)
    rw [show h - (j+1) + 1 = h - j by omega] at r'
    constructor <;> omega

/-- the inner loop of `fill` over the (pairwise distinct) parents of one level -/
theorem fillLevel_ok (ctx : FillCtx h idxs leafD authD) {j : Nat} (hj : j < h) {m : NodeMap D}
    (inv : FillInv H h idxs leafD authD j m) :
    ∀ (ps : List Nat) (m' : NodeMap D), ps.Pairwise (· ≠ ·) → (∀ p ∈ ps, ∃ i ∈ idxs, anc h i (j+1) = p) →
      (∀ k, (¬ ∃ i ∈ idxs, anc h i (j+1) = k) → m'.get k = m.get k) →
      (∀ k, k ∈ ps → m'.get k = m.get k) →
      ∃ m'', Res.foldlM (insertDigest H) m' ps = .ok m'' ∧
        (∀ k, (¬ ∃ i ∈ idxs, anc h i (j+1) = k) → m''.get k = m.get k) ∧
        (∀ k, k ∈ ps → ∃ v, m''.get k = some v ∧ Spec.refVal H leafD authD (j+1) k = some v) ∧
        (∀ k, k ∉ ps → m''.get k = m'.get k)
  | [], m', _, _, h1, _ => ⟨m', rfl, h1, by simp, fun _ _ => rfl⟩
  | p :: ps, m', hnd, hcov, h1, h2 => by
    obtain ⟨i, hi, hp⟩ := hcov p (List.mem_cons_self ..)
    obtain ⟨a, b, ha, hb, hr, hn, hlt, hp1, hlev⟩ := parent_facts H ctx hj inv hi
    rw [hp] at ha hb hr hn hlt hp1 hlev
    have ⟨hnd1, hnd2⟩ := List.pairwise_cons.1 hnd
    have hl : m'.get (2*p) = some a := by
      rw [h1 _ (by rintro ⟨i', hi', e⟩; exact (hlev i' hi').1 e)]; exact ha
    have hr' : m'.get (2*p+1) = some b := by
      rw [h1 _ (by rintro ⟨i', hi', e⟩; exact (hlev i' hi').2 e)]; exact hb
    have hpn : m'.get p = none := by rw [h2 p (List.mem_cons_self ..)]; exact hn
    have hx : (2 * p) ^^^ 1 = 2 * p + 1 := by rw [xor_one_eq_sib]; unfold sib; split <;> omega
    have hstep : insertDigest H m' p = .ok (m'.insert p (H a b)) := by
      simp [insertDigest, childrenOf, cmul, Nat.mul_comm p 2, hlt, hx, getNode, hl, hr', hpn]
    simp only [Res.foldlM, hstep, Res.ok_bind]
    obtain ⟨m'', e1, e2, e3, e4⟩ := fillLevel_ok ctx hj inv ps (m'.insert p (H a b)) hnd2
      (fun q hq => hcov q (List.mem_cons_of_mem _ hq))
      (fun k hk => by
        rw [NodeMap.get_insert]
        have : k ≠ p := by rintro rfl; exact hk ⟨i, hi, hp⟩
        simp [this, h1 k hk])
      (fun k hk => by
        rw [NodeMap.get_insert]
        have : k ≠ p := by rintro rfl; exact hnd1 k hk rfl
        simp [this, h2 k (List.mem_cons_of_mem _ hk)])
    refine ⟨m'', e1, e2, ?_, ?_⟩
    · intro k hk
      rcases List.mem_cons.1 hk with rfl | hk
      · by_cases hkp : k ∈ ps
        · exact e3 k hkp
        · refine ⟨H a b, ?_, hr⟩
          rw [e4 k hkp, NodeMap.get_insert]; simp
      · exact e3 k hk
    · intro k hk
      have hk1 : k ≠ p := fun e => hk (e ▸ List.mem_cons_self ..)
      have hk2 : k ∉ ps := fun e => hk (List.mem_cons_of_mem _ e)
      rw [e4 k hk2, NodeMap.get_insert]; simp [hk1]

/-- one iteration of the outer loop preserves the invariant -/
theorem fillLevel_inv (ctx : FillCtx h idxs leafD authD) {j : Nat} (hj : j < h) {m : NodeMap D}
    (inv : FillInv H h idxs leafD authD j m) {ps : List Nat} (hs : ps.Pairwise (· < ·))
    (hps : ∀ p, p ∈ ps ↔ ∃ i ∈ idxs, anc h i (j+1) = p) :
    ∃ m', Res.foldlM (insertDigest H) m ps = .ok m' ∧ FillInv H h idxs leafD authD (j+1) m' := by
  obtain ⟨m', e1, e2, e3, _⟩ := fillLevel_ok H ctx hj inv ps m (hs.imp (fun h => Nat.ne_of_lt h))
    (fun p hp => (hps p).1 hp) (fun _ _ => rfl) (fun _ _ => rfl)
  refine ⟨m', e1, ?_, ?_⟩
  · intro j' hj' i hi
    by_cases hjj : j' = j + 1
    · subst hjj
      exact e3 _ ((hps _).2 ⟨i, hi, rfl⟩)
    · have : m'.get (anc h i j') = m.get (anc h i j') := by
        apply e2
        rintro ⟨i', hi', e⟩
        exact anc_ne_of_level_ne (ctx.hi i' hi') (ctx.hi i hi) (Ne.symm hjj) (by omega) (by omega) e
      rw [this]
      exact inv.1 j' (by omega) i hi
  · intro k hk
    have : m'.get k = m.get k := by
      apply e2
      rintro ⟨i', hi', e⟩
      exact hk (j+1) (Nat.le_refl _) i' hi' e
    rw [this]
    exact inv.2 k (fun j' hj' => hk j' (by omega))

/-- the outer loop of `fill` -/
theorem fillLoop_ok (ctx : FillCtx h idxs leafD authD) :
    ∀ (r j : Nat) (ps : List Nat) (m : NodeMap D), j + r = h → FillInv H h idxs leafD authD j m →
      ps.Pairwise (· < ·) → (∀ p, p ∈ ps ↔ ∃ i ∈ idxs, anc h i (j+1) = p) →
      ∃ m', fillLoop H r ps m = .ok m' ∧ FillInv H h idxs leafD authD h m'
  | 0, j, ps, m, hjr, inv, _, _ => by
    have : j = h := by omega
    subst this
    exact ⟨m, rfl, inv⟩
  | r+1, j, ps, m, hjr, inv, hs, hps => by
    obtain ⟨m', e1, inv'⟩ := fillLevel_inv H ctx (show j < h by omega) inv hs hps
    simp only [fillLoop, e1, Res.ok_bind]
    apply fillLoop_ok ctx r (j+1) (moveUp ps) m' (by omega) inv' (sorted_moveUp hs)
    intro p
    rw [mem_moveUp]
    constructor
    · rintro ⟨q, hq, rfl⟩
      obtain ⟨i, hi, rfl⟩ := (hps q).1 hq
      exact ⟨i, hi, anc_succ h i (j+1)⟩
    · rintro ⟨i, hi, rfl⟩
      exact ⟨anc h i (j+1), (hps _).2 ⟨i, hi, rfl⟩, (anc_succ h i (j+1)).symm⟩

theorem numLeafs_ok {h : Nat} (hh : h ≤ 31) : numLeafs h = .ok (2^h) := by
  have : ¬ h > MAX_TREE_HEIGHT := by unfold MAX_TREE_HEIGHT; omega
  have h2 : h < 64 := by omega
  simp [numLeafs, this, shl1, h2]

theorem numLeafs_err {h : Nat} (hh : 31 < h) : numLeafs h = .err .treeTooHigh := by
  have : h > MAX_TREE_HEIGHT := by unfold MAX_TREE_HEIGHT; omega
  simp [numLeafs, this]

theorem firstLayerParents_ok (ctx : FillCtx h idxs leafD authD) :
    ∃ ps, firstLayerParents h idxs = .ok ps ∧ ps.Pairwise (· < ·) ∧ (∀ p, p ∈ ps ↔ ∃ i ∈ idxs, anc h i 1 = p) := by
  have hm : Res.mapM (fun i => do let k ← cadd i (2^h); Res.ok (k / 2)) idxs = .ok (idxs.map (fun i => (i + 2^h) / 2)) := by
    apply Res.mapM_ok
    intro i hi
    have := leaf_add_lt_usize (by have := ctx.hh; omega) (ctx.hi i hi)
    simp [cadd, this]
  refine ⟨toSortedSet (idxs.map (fun i => (i + 2^h) / 2)),
    by simp only [firstLayerParents, numLeafs_ok ctx.hh, Res.ok_bind, hm], sorted_toSortedSet _, ?_⟩
  intro p
  rw [mem_toSortedSet]
  simp [anc]

/-- **`fill` computes the reference values**: started on the base map it succeeds and every computable node carries
    the value of the reference recomputation, every other node is untouched. -/
theorem fill_ok (ctx : FillCtx h idxs leafD authD) {m0 : NodeMap D} (hm0 : ∀ k, m0.get k = baseVal leafD authD k) :
    ∃ m', fill H { height := h, idxs := idxs, nodes := m0 } = .ok { height := h, idxs := idxs, nodes := m' } ∧
      FillInv H h idxs leafD authD h m' := by
  obtain ⟨ps, e1, hs, hps⟩ := firstLayerParents_ok ctx
  have inv0 : FillInv H h idxs leafD authD 0 m0 := by
    constructor
    · intro j' hj' i hi
      have : j' = 0 := by omega
      subst this
      rw [anc_zero, hm0, baseVal, ctx.a1 _ (by rw [← anc_zero]; exact covered_of_anc hi (Nat.zero_le _))]
      obtain ⟨v, hv⟩ := Option.isSome_iff_exists.1 (ctx.l1 i hi)
      exact ⟨v, hv, by simp [Spec.refVal, hv]⟩
    · intro k _; exact hm0 k
  obtain ⟨m', e2, inv⟩ := fillLoop_ok H ctx h 0 ps m0 (by omega) inv0 hs hps
  exact ⟨m', by simp [fill, e1, e2], inv⟩
end Fill

end TF.Merkle
