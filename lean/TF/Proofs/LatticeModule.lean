import TF.Proofs.LatticeLinear
/-! the module-multiplication strategies agree -/
namespace TF.LatticeProofs
open TF.Gen TF.Model.Ntt TF.Model.Lattice TF.NttFn TF.LatFn TF.NttProofs TF.Spec

/-- a module element with `n` ring elements of 64 coefficients each -/
def Shaped (n : Nat) (m : Module) : Prop := m.size = n ∧ ∀ k, k < n → (m.getD k ringZero).size = 64

theorem ringAdd_size (a b : Ring) : (ringAdd a b).size = 64 := ringZip_size _ a b
theorem ringHadamard_size (a b : Ring) : (ringHadamard a b).size = 64 := ringZip_size _ a b
theorem ringZero_size : ringZero.size = 64 := by simp [ringZero]

theorem foldl_ringAdd_size (g : Nat → Ring) : ∀ (l : List Nat) (acc : Ring), acc.size = 64 →
    (l.foldl (fun acc i => ringAdd acc (g i)) acc).size = 64 := by
  intro l
  induction l with
  | nil => intro acc h; exact h
  | cons i l ih => intro acc _; rw [List.foldl_cons]; exact ih _ (ringAdd_size _ _)

theorem intt64_foldl (g : Nat → Ring) : ∀ (l : List Nat) (acc : Ring), acc.size = 64 → (∀ i ∈ l, (g i).size = 64) →
    intt64 (l.foldl (fun acc i => ringAdd acc (g i)) acc)
      = l.foldl (fun acc i => ringAdd acc (intt64 (g i))) (intt64 acc) := by
  intro l
  induction l with
  | nil => intro acc _ _; rfl
  | cons i l ih =>
    intro acc hacc hg
    rw [List.foldl_cons, List.foldl_cons, ih _ (ringAdd_size _ _) (fun j hj => hg j (List.mem_cons_of_mem _ hj)),
      intt64_add acc (g i) hacc (hg i List.mem_cons_self)]

theorem foldl_congr_mem {β : Type} (f g : β → Nat → β) : ∀ (l : List Nat) (acc : β),
    (∀ a, ∀ i ∈ l, f a i = g a i) → l.foldl f acc = l.foldl g acc := by
  intro l
  induction l with
  | nil => intro acc _; rfl
  | cons i l ih =>
    intro acc h
    rw [List.foldl_cons, List.foldl_cons, h acc i List.mem_cons_self]
    exact ih _ (fun a j hj => h a j (List.mem_cons_of_mem _ hj))

theorem modNtt_getD (m : Module) (k : Nat) (hk : k < m.size) : (modNtt m).getD k ringZero = ntt64 (m.getD k ringZero) := by
  simp [modNtt, Array.getD_eq_getD_getElem?, hk]

theorem index_bounds (H I W idx i : Nat) (hidx : idx < H * W) (hi : i < I) :
    idx / W * I + i < H * I ∧ i * W + idx % W < I * W := by
  have hW : 0 < W := by
    rcases Nat.eq_zero_or_pos W with h | h
    · subst h; simp at hidx
    · exact h
  have hh : idx / W < H := Nat.div_lt_of_lt_mul (by rwa [Nat.mul_comm] at hidx)
  have hw : idx % W < W := Nat.mod_lt _ hW
  constructor
  · calc idx / W * I + i < idx / W * I + I := by omega
      _ = (idx / W + 1) * I := by ring
      _ ≤ H * I := Nat.mul_le_mul_right _ hh
  · calc i * W + idx % W < i * W + W := by omega
      _ = (i + 1) * W := by ring
      _ ≤ I * W := Nat.mul_le_mul_right _ hi

/-- **`multiply` = `fast_multiply` = `intt (multiply_hadamard (ntt lhs) (ntt rhs))`** for every shape -/
theorem modMultiply_eq_fast (H I W : Nat) (l r : Module) (hl : Shaped (H * I) l) (hr : Shaped (I * W) r) :
    modMultiply H I W l r = modFastMultiply H I W l r := by
  apply Array.ext (by simp [modMultiply, modFastMultiply, modMulWith, modIntt, modMultiplyHadamard])
  intro idx h1 h2
  have hidx : idx < H * W := by simpa [modMultiply, modMulWith] using h1
  simp only [modMultiply, modFastMultiply, modMulWith, modIntt, modMultiplyHadamard, Array.getElem_map,
    Array.getElem_ofFn]
  rw [intt64_foldl _ _ _ ringZero_size (fun i _ => ringHadamard_size _ _), intt64_zero]
  apply foldl_congr_mem
  intro acc i hi
  have hi' : i < I := List.mem_range.1 hi
  obtain ⟨b1, b2⟩ := index_bounds H I W idx i hidx hi'
  rw [modNtt_getD l _ (by rw [hl.1]; exact b1), modNtt_getD r _ (by rw [hr.1]; exact b2)]
  rfl

end TF.LatticeProofs
