import TF.Proofs.PolyInterp
import Mathlib.Algebra.Polynomial.Derivative
/-!
`barycentric_evaluate` (C08): the barycentric formula over the subgroup `⟨ω⟩` equals evaluation of the interpolant.
-/
open Polynomial

namespace TF.Model.PolyI
open TF TF.Model.Poly

variable {K : Type} [Field K]
variable (root : Nat → Option K)
local notation "FK" => FieldOps.ofField K root

section
open Classical

/-- the powers of an `n`-th root of unity, if pairwise distinct, are all the roots of `X^n - 1` -/
theorem zpoly_powers (ω : K) (n : Nat) (hn : 0 < n) (hω : ω ^ n = 1)
    (hprim : ((List.range n).map (fun i => ω ^ i)).Nodup) :
    zpoly ((List.range n).map (fun i => ω ^ i)) = X ^ n - 1 := by
  set D := (List.range n).map (fun i => ω ^ i) with hD
  have hlen : D.length = n := by simp [hD]
  have hcard : D.toFinset.card = n := by rw [List.toFinset_card_of_nodup hprim, hlen]
  have hmon : (X ^ n - 1 : K[X]).Monic := monic_X_pow_sub_C (1 : K) (Nat.pos_iff_ne_zero.1 hn)
  have hdeg : (X ^ n - 1 : K[X]).degree = n := by
    have := degree_X_pow_sub_C hn (1 : K)
    simpa using this
  apply eq_of_degree_sub_lt_of_eval_finset_eq D.toFinset
  · rw [hcard]
    have h1 : (zpoly D).degree = (X ^ n - 1 : K[X]).degree := by rw [degree_zpoly, hlen, hdeg]
    have := degree_sub_lt_left h1 (zpoly_ne_zero D) (by rw [(zpoly_monic D).leadingCoeff, hmon.leadingCoeff])
    rw [degree_zpoly, hlen] at this
    exact this
  · intro x hx
    have hx' : x ∈ D := List.mem_toFinset.1 hx
    rw [(eval_zpoly_eq_zero_iff D x).2 hx']
    obtain ⟨i, _, rfl⟩ := List.mem_map.1 hx'
    simp only [eval_sub, eval_pow, eval_X, eval_one]
    rw [← pow_mul, mul_comm, pow_mul, hω, one_pow, sub_self]

/-- value of the cofactor `Z / (X - d)` at `d`, for `Z = X^n - 1` -/
theorem cofactor_at_node (D : List K) (n : Nat) (hZ : zpoly D = X ^ n - 1) (d : K) (hd : d ∈ D) :
    (zpoly (D.erase d)).eval d = n * d ^ (n - 1) := by
  have h := zpoly_eq_mul_erase D d hd
  have hder : derivative (zpoly D) = zpoly (D.erase d) + (X - C d) * derivative (zpoly (D.erase d)) := by
    rw [h, derivative_mul]; simp
  have h2 : (derivative (zpoly D)).eval d = (zpoly (D.erase d)).eval d := by
    rw [hder]; simp
  rw [← h2, hZ]
  simp [derivative_X_pow]

theorem degree_lsum_lt (D : List K) (hD : D ≠ []) : ∀ (pairs : List (K × K)), (∀ p ∈ pairs, p.1 ∈ D) →
    (lsum D pairs).degree < D.length := by
  intro pairs
  induction pairs with
  | nil => intro _; simp [lsum]
  | cons p pairs ih =>
    intro hmem
    have hrest := ih (fun q hq => hmem q (by simp [hq]))
    have hp : p.1 ∈ D := hmem p (by simp)
    simp only [lsum, List.map_cons, List.sum_cons] at hrest ⊢
    refine lt_of_le_of_lt (degree_add_le _ _) (max_lt ?_ hrest)
    have hle : (C (p.2 / (zpoly (D.erase p.1)).eval p.1) * zpoly (D.erase p.1)).degree
        ≤ (zpoly (D.erase p.1)).degree := by
      by_cases ha : p.2 / (zpoly (D.erase p.1)).eval p.1 = 0
      · rw [ha]; simp
      · rw [degree_C_mul ha]
    refine lt_of_le_of_lt hle ?_
    rw [degree_zpoly]
    have : (D.erase p.1).length = D.length - 1 := List.length_erase_of_mem hp
    have hpos := List.length_pos_iff.2 hD
    rw [this]
    exact_mod_cast Nat.sub_lt hpos Nat.one_pos

theorem foldl_add_eq_sum (l : List K) (a : K) : l.foldl (FK).add a = a + l.sum := by
  induction l generalizing a with
  | nil => simp
  | cons x xs ih => simp only [List.foldl_cons, FieldOps.ofField_add, List.sum_cons, ih]; ring

theorem zipWith_map_left_zip {α β γ δ : Type} (h : α → δ) (m : δ → β → γ) : ∀ (xs : List α) (ys : List β),
    List.zipWith m (xs.map h) ys = (xs.zip ys).map (fun p => m (h p.1) p.2) := by
  intro xs
  induction xs with
  | nil => intro ys; simp
  | cons x xs ih => intro ys; cases ys <;> simp [ih]

omit [Field K] in
theorem zip_replicate_one {α : Type} (c : K) : ∀ (D : List α),
    D.zip (List.replicate D.length c) = D.map (fun d => (d, c)) := by
  intro D
  induction D with
  | nil => rfl
  | cons d ds ih => simp [List.replicate_succ, ih]

theorem zipWith_inv_self (x : K) : ∀ (D : List K),
    List.zipWith (fun d inv => inv * d) D ((D.map (fun d => x - d)).map (fun y => y⁻¹))
      = D.map (fun d => (x - d)⁻¹ * d) := by
  intro D
  induction D with
  | nil => rfl
  | cons d ds ih => simp only [List.map_cons, List.zipWith_cons_cons, ih]

/-- the interpolant is the Lagrange sum; its value off the nodes in the first barycentric form -/
theorem eval_interpolant_roots_of_unity (D : List K) (n : Nat) (hn : 0 < n) (hlen : D.length = n) (hnd : D.Nodup)
    (hZ : zpoly D = X ^ n - 1) (cs : List K) (hcs : cs.length = n) (f : K[X]) (hf : Interpolates D cs f)
    (x : K) (hx : x ∉ D) :
    (n : K) ≠ 0 ∧
    f.eval x = ((x ^ n - 1) / n) * ((D.zip cs).map (fun p => p.2 * ((x - p.1)⁻¹ * p.1))).sum := by
  have hD : D ≠ [] := by intro h; rw [h] at hlen; simp at hlen; omega
  have hmem : ∀ p ∈ D.zip cs, p.1 ∈ D := fun p hp => (List.of_mem_zip hp).1
  have hpow : ∀ d ∈ D, d ^ n = 1 := by
    intro d hd
    have := (eval_zpoly_eq_zero_iff D d).2 hd
    rw [hZ] at this
    simpa [sub_eq_zero] using this
  have hself : ∀ d ∈ D, (zpoly (D.erase d)).eval d ≠ 0 := by
    intro d _
    rw [Ne, eval_zpoly_eq_zero_iff]
    intro h
    exact (List.Nodup.mem_erase_iff hnd).1 h |>.1 rfl
  have hn0 : (n : K) ≠ 0 := by
    obtain ⟨d, hd⟩ := List.exists_mem_of_ne_nil D hD
    have := hself d hd
    rw [cofactor_at_node D n hZ d hd] at this
    exact left_ne_zero_of_mul this
  refine ⟨hn0, ?_⟩
  -- f is the Lagrange sum
  have hls : Interpolates D cs (lsum D (D.zip cs)) :=
    ⟨degree_lsum_lt D hD _ hmem, fun p hp => eval_lsum D hnd (D.zip cs)
      (by rw [List.map_fst_zip (by omega)]; exact hnd) hmem p hp⟩
  rw [Interpolates.unique hnd (by omega) hf hls]
  simp only [lsum, eval_listSum, List.map_map]
  rw [← List.sum_map_mul_left]
  congr 1
  apply List.map_congr_left
  intro p hp
  have hd := hmem p hp
  have hxd : x - p.1 ≠ 0 := sub_ne_zero.2 (fun e => hx (e ▸ hd))
  have hd0 : p.1 ≠ 0 := by
    intro h0
    have := hpow p.1 hd
    rw [h0, zero_pow (Nat.pos_iff_ne_zero.1 hn)] at this
    exact zero_ne_one this
  have hQx : (zpoly (D.erase p.1)).eval x = (x ^ n - 1) * (x - p.1)⁻¹ := by
    have := congrArg (eval x) (zpoly_eq_mul_erase D p.1 hd)
    rw [hZ] at this
    simp only [eval_sub, eval_pow, eval_X, eval_one, eval_mul, eval_C] at this
    rw [this]; field_simp
  have hQd : (zpoly (D.erase p.1)).eval p.1 = n * p.1⁻¹ := by
    rw [cofactor_at_node D n hZ p.1 hd]
    congr 1
    have : p.1 ^ (n - 1) * p.1 = 1 := by rw [← pow_succ, Nat.sub_add_cancel hn, hpow p.1 hd]
    exact eq_inv_of_mul_eq_one_left this
  simp only [Function.comp, eval_mul, eval_C]
  rw [hQx, hQd]
  field_simp

end

/-- **`barycentric_evaluate`**: for a codeword of length `n ≥ 1` on the subgroup generated by a primitive `n`-th
    root `ω = root n`, and an indeterminate outside the subgroup, the result is the value of the interpolant -/
theorem barycentricEvaluate_spec (codeword : List K) (x : K) (ω : K) (hn : 0 < codeword.length)
    (hω : root codeword.length = some ω) (hω1 : ω ^ codeword.length = 1)
    (hprim : ((List.range codeword.length).map (fun i => ω ^ i)).Nodup)
    (hx : x ∉ (List.range codeword.length).map (fun i => ω ^ i))
    (f : K[X]) (hf : Interpolates ((List.range codeword.length).map (fun i => ω ^ i)) codeword f) :
    barycentricEvaluate FK codeword x = some (f.eval x) := by
  classical
  set n := codeword.length with hnl
  set D := (List.range n).map (fun i => ω ^ i) with hD
  have hlen : D.length = n := by simp [hD]
  have hZ := zpoly_powers ω n hn hω1 hprim
  obtain ⟨hn0, hfx⟩ := eval_interpolant_roots_of_unity D n hn hlen hprim hZ codeword rfl f hf x hx
  -- the same identity for the constant polynomial 1
  have hone : Interpolates D (List.replicate n 1) (1 : K[X]) := by
    refine ⟨?_, ?_⟩
    · rw [degree_one, hlen]; exact_mod_cast hn
    · intro p hp
      have := (List.of_mem_zip hp).2
      rw [List.mem_replicate] at this
      simp [this.2]
  obtain ⟨_, h1x⟩ := eval_interpolant_roots_of_unity D n hn hlen hprim hZ (List.replicate n 1) (by simp) 1 hone x hx
  have hzr : D.zip (List.replicate n (1 : K)) = D.map (fun d => (d, 1)) := by
    rw [← hlen]; exact zip_replicate_one 1 D
  rw [hzr, List.map_map] at h1x
  have hcomp : ((fun p : K × K => p.2 * ((x - p.1)⁻¹ * p.1)) ∘ fun d => (d, (1 : K)))
      = fun d => (x - d)⁻¹ * d := by funext d; simp
  rw [hcomp, eval_one] at h1x
  -- unfold the model
  unfold barycentricEvaluate
  simp only [FieldOps.ofField_rootOfUnity, ← hnl, hω, Option.bind_eq_bind, Option.bind_some]
  rw [geom_eq]
  simp only [FieldOps.ofField_one, one_mul, FieldOps.ofField_sub]
  have hbi : batchInversion FK (D.map (fun d => x - d)) = some ((D.map (fun d => x - d)).map (fun y => y⁻¹)) := by
    apply batchInversion_map
    intro y hy
    obtain ⟨d, hd, rfl⟩ := List.mem_map.1 hy
    exact sub_ne_zero.2 (fun e => hx (e ▸ hd))
  rw [← hD, hbi]
  simp only [Option.bind_some, FieldOps.ofField_mul, FieldOps.ofField_zero, FieldOps.ofField_inv]
  have hdods := zipWith_inv_self x D
  simp only [hdods, foldl_add_eq_sum, zero_add, zipWith_map_left_zip]
  set S1 := (D.map (fun d => (x - d)⁻¹ * d)).sum with hS1
  set Sc := ((D.zip codeword).map (fun p => p.2 * ((x - p.1)⁻¹ * p.1))).sum with hSc
  have hS1ne : S1 ≠ 0 := by
    intro h0; rw [h0, mul_zero] at h1x; exact one_ne_zero h1x
  have hane : (x ^ n - 1) / n ≠ 0 := by
    intro h0; rw [h0, zero_mul] at h1x; exact one_ne_zero h1x
  have hz : (FK).isZero S1 = false := by simpa using hS1ne
  rw [hz]
  simp only [Bool.false_eq_true, if_false, Option.pure_def, Option.some.injEq]
  rw [hfx]
  have : S1⁻¹ = (x ^ n - 1) / n := (eq_inv_of_mul_eq_one_left h1x.symm).symm
  rw [this]; ring

/-- inside the subgroup the formula divides by zero: panic -/
theorem barycentricEvaluate_in_domain (codeword : List K) (x : K) (ω : K)
    (hω : root codeword.length = some ω) (hx : x ∈ (List.range codeword.length).map (fun i => ω ^ i)) :
    barycentricEvaluate FK codeword x = none := by
  unfold barycentricEvaluate
  simp only [FieldOps.ofField_rootOfUnity, hω, Option.bind_eq_bind, Option.bind_some]
  rw [geom_eq]
  simp only [FieldOps.ofField_one, one_mul, FieldOps.ofField_sub]
  have : batchInversion FK (((List.range codeword.length).map (fun i => ω ^ i)).map (fun d => x - d)) = none := by
    unfold batchInversion
    have : (((List.range codeword.length).map (fun i => ω ^ i)).map (fun d => x - d)).any (FK).isZero = true := by
      rw [List.any_eq_true]
      exact ⟨x - x, List.mem_map.2 ⟨x, hx, rfl⟩, by simp⟩
    rw [this]; rfl
  rw [this]; rfl

end TF.Model.PolyI
