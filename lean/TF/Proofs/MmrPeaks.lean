import TF.Model.Word
import TF.Spec.MmrAcc
/-!
# DESIGN Appendix A.5, verbatim: `append` (push the leaf, merge `trailing_ones n` times) refines the from-scratch peaks

Core Lean only.  `pair` / `peaks` live in `TF/Spec/MmrAcc.lean`, `trailingOnes` in `TF/Model/Word.lean`; the rest of
the block is the validated skeleton, unchanged.
-/
namespace TF.MmrPeaks
open TF TF.Spec.MmrAcc

variable {D : Type} (H : D → D → D)

/-- `calculate_new_peaks_from_append`: push the leaf, then merge the two last peaks `t` times.
    The stack is kept reversed (last peak first). -/
def mergeN : Nat → List D → List D
  | 0, st => st
  | t+1, new :: prev :: rest => mergeN t (H prev new :: rest)
  | _+1, st => st   -- unreachable for well-formed inputs (the Rust code would panic on `unwrap`)

def appendPeaks (n : Nat) (ps : List D) (x : D) : List D :=
  (mergeN H (trailingOnes n) (x :: ps.reverse)).reverse

theorem mergeN_append (t : Nat) (st extra : List D) (h : t + 1 ≤ st.length) :
    mergeN H t (st ++ extra) = mergeN H t st ++ extra := by
  induction t generalizing st with
  | zero => simp [mergeN]
  | succ t ih =>
    match st, h with
    | new :: prev :: rest, h =>
      simp only [List.cons_append, mergeN]
      exact ih (H prev new :: rest) (by simp at h ⊢; omega)

theorem peaks_length_ge (n : Nat) : ∀ f : Nat → D, trailingOnes n ≤ (peaks H n f).length := by
  induction n using Nat.strongRecOn with
  | _ n ih =>
    intro f
    cases n with
    | zero => simp [trailingOnes]
    | succ n =>
      unfold trailingOnes peaks
      by_cases h : (n+1) % 2 = 1
      · have := ih ((n+1)/2) (by omega) (pair H f)
        simp [h]; omega
      · simp [h]

theorem append_refines (n : Nat) : ∀ f : Nat → D, appendPeaks H n (peaks H n f) (f n) = peaks H (n+1) f := by
  induction n using Nat.strongRecOn with
  | _ n ih =>
    intro f
    cases n with
    | zero => simp [appendPeaks, trailingOnes, mergeN, peaks]
    | succ n =>
      by_cases h : (n+1) % 2 = 1
      · -- odd: one merge with the height-0 peak, then recurse on the paired level
        have hq : (n+1+1)/2 = (n+1)/2 + 1 := by omega
        have hr : (n+1+1) % 2 = 0 := by omega
        have ihq := ih ((n+1)/2) (by omega) (pair H f)
        have hlen := peaks_length_ge H ((n+1)/2) (pair H f)
        have hpair : pair H f ((n+1)/2) = H (f n) (f (n+1)) := by
          unfold pair; congr 1 <;> congr 1 <;> omega
        conv => rhs; unfold peaks
        simp only [hq, hr]
        rw [if_neg (by omega), List.append_nil]
        rw [← ihq]
        unfold appendPeaks
        conv => lhs; unfold trailingOnes peaks
        simp only [h, if_true, List.reverse_append, List.reverse_cons, List.reverse_nil, List.nil_append,
          List.singleton_append, List.cons_append, mergeN]
        rw [hpair]
      · -- even: no merge
        have hq : (n+1+1)/2 = (n+1)/2 := by omega
        have hr : (n+1+1) % 2 = 1 := by omega
        conv => rhs; unfold peaks
        simp only [hq, hr, if_true]
        unfold appendPeaks
        conv => lhs; unfold trailingOnes
        simp only [h, if_false, mergeN, List.reverse_cons, List.reverse_reverse]
        conv => lhs; unfold peaks
        simp [h]

end TF.MmrPeaks
