import TF.Proofs.MmrSuccDig
/-!
Completeness of `new_from_batch_append` (C12), part 3: the fill-in bookkeeping.

`new_from_batch_append` keeps, per old peak, the list `needed` of `Some((position, node index))` entries and the path
under construction; whenever a node `(index, digest)` becomes known, the first still-open entry with that node index
is filled and cleared.  `InvP val S tg p nd` is the invariant of one path: `tg` are the target node indices (pairwise
different), `S` is the set of node indices seen so far, an entry is open iff its index has not been seen, a closed entry
carries `val index`.
-/
namespace TF.MmrE
open TF TF.Gen TF.Model.Mmr TF.Model.MmrE

variable {D : Type}

/-- invariant of one `(path, path_indices)` pair -/
structure InvP (val : Nat → D) (S : Nat → Prop) (tg : List Nat) (p : List D) (nd : List (Option (Nat × Nat))) : Prop where
  inj : ∀ (i j y : Nat), tg[i]? = some y → tg[j]? = some y → i = j
  plen : p.length = tg.length
  nlen : nd.length = tg.length
  opn : ∀ (pos y : Nat), tg[pos]? = some y → ¬ S y → nd[pos]? = some (some (pos, y))
  done : ∀ (pos y : Nat), tg[pos]? = some y → S y → nd[pos]? = some none ∧ p[pos]? = some (val y)

/-- the test of `.find(|definitely| definitely.unwrap().1 == index)` on the still-open entries -/
def entryIs (x : Nat) : Option (Nat × Nat) → Bool := fun e => match e with | some (_, s) => s == x | none => false

theorem fillOne_eq (x : Nat) (node : D) (path : List D) (needed : List (Option (Nat × Nat))) :
    fillOne x node path needed =
      match needed.findIdx? (entryIs x) with
      | none => some (path, needed)
      | some j =>
        match needed[j]? with
        | some (some (pos, _)) => if pos < path.length then some (path.set pos node, needed.set j none) else none
        | _ => some (path, needed) := by
  unfold fillOne entryIs
  rfl

/-- one known node `(x, val x)` against one path -/
theorem fillOne_inv (val : Nat → D) (S : Nat → Prop) (tg : List Nat) (p : List D) (nd : List (Option (Nat × Nat)))
    (x : Nat) (h : InvP val S tg p nd) :
    ∃ p' nd', fillOne x (val x) p nd = some (p', nd') ∧ InvP val (fun y => S y ∨ y = x) tg p' nd' := by
  rw [fillOne_eq]
  by_cases hcase : ¬ S x ∧ ∃ j : Nat, tg[j]? = some x
  · -- the index is needed here and has not been seen: entry `j` is filled
    obtain ⟨hS, j, hj⟩ := hcase
    have hjlt : j < tg.length := by
      rcases Nat.lt_or_ge j tg.length with h1 | h1
      · exact h1
      · rw [List.getElem?_eq_none h1] at hj; cases hj
    have hndj := h.opn j x hj hS
    have hfind : nd.findIdx? (entryIs x) = some j := by
      rw [List.findIdx?_eq_some_iff_getElem]
      refine ⟨by rw [h.nlen]; exact hjlt, ?_, ?_⟩
      · have : nd[j]'(by rw [h.nlen]; exact hjlt) = some (j, x) := by
          have := List.getElem?_eq_getElem (l := nd) (i := j) (by rw [h.nlen]; exact hjlt)
          rw [hndj] at this
          exact (Option.some.inj this).symm
        rw [this]; simp [entryIs]
      · intro i hij
        have hilt : i < tg.length := by omega
        have hi := List.getElem?_eq_getElem (l := tg) hilt
        have hnd := List.getElem?_eq_getElem (l := nd) (i := i) (by rw [h.nlen]; exact hilt)
        by_cases hSi : S tg[i]
        · have := (h.done i _ hi hSi).1
          rw [hnd] at this
          rw [Option.some.inj this]; simp [entryIs]
        · have := h.opn i _ hi hSi
          rw [hnd] at this
          rw [Option.some.inj this]
          simp only [entryIs, beq_iff_eq, Bool.not_eq_true]
          intro heq
          have := h.inj i j x (by rw [hi, heq]) hj
          omega
    rw [hfind]
    simp only [hndj]
    rw [if_pos (by rw [h.plen]; exact hjlt)]
    refine ⟨_, _, rfl, ?_⟩
    constructor
    · exact h.inj
    · rw [List.length_set]; exact h.plen
    · rw [List.length_set]; exact h.nlen
    · intro pos y hy hnS
      have hne : j ≠ pos := by
        intro he; subst he
        rw [hj] at hy
        exact hnS (Or.inr (Option.some.inj hy).symm)
      rw [List.getElem?_set_ne hne]
      exact h.opn pos y hy (fun hs => hnS (Or.inl hs))
    · intro pos y hy hSy
      by_cases he : j = pos
      · subst he
        rw [hj] at hy
        have : y = x := (Option.some.inj hy).symm
        subst this
        exact ⟨List.getElem?_set_self (by rw [h.nlen]; exact hjlt), List.getElem?_set_self (by rw [h.plen]; exact hjlt)⟩
      · rw [List.getElem?_set_ne he, List.getElem?_set_ne he]
        rcases hSy with hs | hs
        · exact h.done pos y hy hs
        · subst hs
          exact absurd (h.inj j pos y hj hy) he
  · -- nothing to fill: the index was seen before, or is not needed by this path
    have hfind : nd.findIdx? (entryIs x) = none := by
      rw [List.findIdx?_eq_none_iff]
      intro e he
      obtain ⟨i, hi, rfl⟩ := List.mem_iff_getElem.mp he
      have hilt : i < tg.length := by rw [← h.nlen]; exact hi
      have hti := List.getElem?_eq_getElem (l := tg) hilt
      have hnd := List.getElem?_eq_getElem (l := nd) hi
      by_cases hSi : S tg[i]
      · have := (h.done i _ hti hSi).1
        rw [hnd] at this
        rw [Option.some.inj this]; simp [entryIs]
      · have := h.opn i _ hti hSi
        rw [hnd] at this
        rw [Option.some.inj this]
        simp only [entryIs, beq_eq_false_iff_ne, ne_eq]
        intro heq
        apply hcase
        exact ⟨by rw [← heq]; exact hSi, i, by rw [hti, heq]⟩
    rw [hfind]
    refine ⟨_, _, rfl, ?_⟩
    have hiff : ∀ (pos y : Nat), tg[pos]? = some y → (S y ∨ y = x) → S y := by
      intro pos y hy hs
      rcases hs with hs | hs
      · exact hs
      · subst hs
        by_contra hn
        exact hcase ⟨hn, pos, hy⟩
    constructor
    · exact h.inj
    · exact h.plen
    · exact h.nlen
    · intro pos y hy hnS
      exact h.opn pos y hy (fun hs => hnS (Or.inl hs))
    · intro pos y hy hSy
      exact h.done pos y hy (hiff pos y hy hSy)

theorem InvP.congr {val : Nat → D} {S S' : Nat → Prop} {tg : List Nat} {p : List D} {nd : List (Option (Nat × Nat))}
    (h : InvP val S tg p nd) (hS : ∀ y, S y ↔ S' y) : InvP val S' tg p nd := by
  have : S = S' := funext fun y => propext (hS y)
  subst this; exact h

/-- the invariant for all paths -/
inductive InvAll (val : Nat → D) (S : Nat → Prop) :
    List (List Nat) → List (List D) → List (List (Option (Nat × Nat))) → Prop
  | nil : InvAll val S [] [] []
  | cons {tg tgs p ps nd nds} : InvP val S tg p nd → InvAll val S tgs ps nds → InvAll val S (tg :: tgs) (p :: ps) (nd :: nds)

theorem InvAll.congr {val : Nat → D} {S S' : Nat → Prop} {tgs : List (List Nat)} {ps : List (List D)}
    {nds : List (List (Option (Nat × Nat)))} (h : InvAll val S tgs ps nds) (hS : ∀ y, S y ↔ S' y) :
    InvAll val S' tgs ps nds := by
  have : S = S' := funext fun y => propext (hS y)
  subst this; exact h

/-- one known node against all paths: the `for (path, path_indices) in paths.iter_mut().zip(…)` loop -/
theorem fillAll_inv (val : Nat → D) (S : Nat → Prop) (x : Nat) {tgs : List (List Nat)} {ps : List (List D)}
    {nds : List (List (Option (Nat × Nat)))} (h : InvAll val S tgs ps nds) :
    ∃ ps' nds', fillAll x (val x) ps nds = some (ps', nds') ∧ InvAll val (fun y => S y ∨ y = x) tgs ps' nds' := by
  induction h with
  | nil => exact ⟨[], [], fillAll_nil x (val x), InvAll.nil⟩
  | cons hp _ ih =>
    obtain ⟨p', nd', h1, h2⟩ := fillOne_inv val S _ _ _ x hp
    obtain ⟨ps', nds', h3, h4⟩ := ih
    refine ⟨p' :: ps', nd' :: nds', ?_, InvAll.cons h2 h4⟩
    rw [fillAll_cons, h1, h3]
    rfl

/-- a list of known nodes `(index, val index)` against all paths -/
theorem fillMany_inv (val : Nat → D) : ∀ (items : List (Nat × D)) (S : Nat → Prop) {tgs : List (List Nat)}
    {ps : List (List D)} {nds : List (List (Option (Nat × Nat)))}, (∀ it ∈ items, it.2 = val it.1) →
    InvAll val S tgs ps nds →
    ∃ ps' nds', fillMany items ps nds = some (ps', nds') ∧
      InvAll val (fun y => S y ∨ ∃ it ∈ items, it.1 = y) tgs ps' nds' := by
  intro items
  induction items with
  | nil =>
    intro S tgs ps nds _ h
    exact ⟨ps, nds, fillMany_nil ps nds, h.congr (fun y => by simp)⟩
  | cons it items ih =>
    intro S tgs ps nds hval h
    obtain ⟨x, d⟩ := it
    have hd : d = val x := hval (x, d) (by simp)
    subst hd
    obtain ⟨ps1, nds1, h1, h2⟩ := fillAll_inv val S x h
    obtain ⟨ps2, nds2, h3, h4⟩ := ih (fun y => S y ∨ y = x) (fun it hit => hval it (by simp [hit])) h2
    refine ⟨ps2, nds2, ?_, h4.congr (fun y => ?_)⟩
    · rw [fillMany_cons, h1]; exact h3
    · simp only [List.mem_cons, exists_eq_or_imp]
      constructor
      · rintro ((h | h) | h)
        · exact Or.inl h
        · exact Or.inr (Or.inl h.symm)
        · exact Or.inr (Or.inr h)
      · rintro (h | h | h)
        · exact Or.inl (Or.inl h)
        · exact Or.inl (Or.inr h.symm)
        · exact Or.inr h

theorem enumFrom0_getElem? {α : Type} : ∀ (l : List α) (k i : Nat),
    (enumFrom0 l k)[i]? = (l[i]?).map (fun x => (k + i, x)) := by
  intro l
  induction l with
  | nil => intro k i; simp [enumFrom0]
  | cons a l ih =>
    intro k i
    cases i with
    | zero => simp [enumFrom0]
    | succ i =>
      simp only [enumFrom0, List.getElem?_cons_succ]
      rw [ih]
      congr 1
      funext x
      congr 1; omega

theorem enumFrom0_length {α : Type} : ∀ (l : List α) (k : Nat), (enumFrom0 l k).length = l.length := by
  intro l
  induction l with
  | nil => intro k; simp [enumFrom0]
  | cons a l ih => intro k; simp [enumFrom0, ih]

/-- the initial state of `new_from_batch_append`: every entry open, paths filled with `Digest::default()` -/
theorem InvAll_init (val : Nat → D) (dflt : D) : ∀ (tgs : List (List Nat)),
    (∀ tg ∈ tgs, ∀ (i j y : Nat), tg[i]? = some y → tg[j]? = some y → i = j) →
    InvAll val (fun _ => False) tgs (tgs.map (fun l => l.map (fun _ => dflt)))
      (tgs.map (fun l => (enumFrom0 l 0).map some)) := by
  intro tgs
  induction tgs with
  | nil => intro _; exact InvAll.nil
  | cons tg tgs ih =>
    intro h
    simp only [List.map_cons]
    refine InvAll.cons ?_ (ih (fun tg' htg' => h tg' (by simp [htg'])))
    constructor
    · exact h tg (by simp)
    · simp
    · simp [enumFrom0_length]
    · intro pos y hy _
      rw [List.getElem?_map, enumFrom0_getElem?, hy]
      simp
    · intro pos y _ hf; exact hf.elim

/-- when every target index has been seen, the paths are the values of the targets -/
theorem InvAll_final (val : Nat → D) (S : Nat → Prop) {tgs : List (List Nat)} {ps : List (List D)}
    {nds : List (List (Option (Nat × Nat)))} (h : InvAll val S tgs ps nds) (hall : ∀ tg ∈ tgs, ∀ y ∈ tg, S y) :
    ps = tgs.map (fun tg => tg.map val) := by
  induction h with
  | nil => rfl
  | @cons tg tgs p ps nd nds hp _ ih =>
    simp only [List.map_cons]
    congr 1
    · apply List.ext_getElem?
      intro i
      rw [List.getElem?_map]
      rcases Nat.lt_or_ge i tg.length with hi | hi
      · have hti := List.getElem?_eq_getElem (l := tg) hi
        rw [(hp.done i _ hti (hall tg (by simp) _ (List.getElem_mem hi))).2, hti]
        rfl
      · rw [List.getElem?_eq_none (by rw [hp.plen]; exact hi), List.getElem?_eq_none hi]
        rfl
    · exact ih (fun tg' htg' => hall tg' (by simp [htg']))

end TF.MmrE
