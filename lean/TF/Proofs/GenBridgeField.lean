import TF.Gen.FieldLoops
import TF.Model.BFieldMore
/-!
# Bridge: `FiniteField::batch_inversion` *as regenerated from source* over an abstract field = the hand model (C01)

`TF/Gen/FieldLoops.lean` is written by `tools/rs2lean_bt4.py` (P10 block) from the text of `traits.rs` on every run: `Self` is an
opaque type `D`; `Self::zero()`, `Self::one()`, `*` / `*=`, `is_zero()`, `inverse()` and the panic flag of `inverse()` are the
parameters `f_zero f_one f_mul f_is_zero f_inverse f_inverse_ok`; `d0` is the value read after an out-of-range index (the
`_ok` twin is false there).  Proved here for **every** such record and every input vector: the regenerated function with its
`_ok` flag is the generic hand model `batchInversionG` (`none` = the `assert!` on a zero element fails or `inverse()`
panics).  Core Lean only.
-/
set_option linter.unusedVariables false
namespace TF.GenBridge.Field
open TF TF.Gen TF.Model

variable {D : Type} (zero one : D) (mul : D → D → D) (isZero : D → Bool) (inv : D → D) (invOk : D → Bool) (d0 : D)

/-- the result of a regenerated function: `none` when its `_ok` flag says the Rust code panicked -/
def outcome {α : Type} (ok : Bool) (v : α) : Option α := if ok then some v else none

theorem prefix_length : ∀ (xs : List D) (acc : D) (sc : List D) (fin : D),
    batchPrefixG mul isZero xs acc = some (sc, fin) → sc.length = xs.length
  | [], acc, sc, fin, h => by
    rw [batchPrefixG] at h; cases h; rfl
  | x :: xs, acc, sc, fin, h => by
    rw [batchPrefixG] at h
    by_cases hz : isZero x = true
    · rw [if_pos hz] at h; cases h
    · rw [if_neg hz] at h
      cases hr : batchPrefixG mul isZero xs (mul acc x) with
      | none => rw [hr] at h; cases h
      | some r =>
        obtain ⟨sc', fin'⟩ := r
        rw [hr] at h
        cases h
        rw [List.length_cons, List.length_cons, prefix_length xs _ _ _ hr]

/-- the first loop (`assert!(!input[i].is_zero()); scratch[i] = acc; acc *= input[i]`) from index `pre.length` on -/
theorem for_eq : ∀ (rest pre scratch : List D) (acc : D), scratch.length = (pre ++ rest).length →
    match batchPrefixG mul isZero rest acc with
    | some (sc, fin) =>
      Loops.ff_batch_inversion_for_ok zero one mul isZero inv invOk d0 (pre ++ rest) rest.length pre.length scratch acc = true ∧
      Loops.ff_batch_inversion_for zero one mul isZero inv invOk d0 (pre ++ rest) rest.length pre.length scratch acc
        = (scratch.take pre.length ++ sc ++ scratch.drop (pre.length + rest.length), fin)
    | none =>
      Loops.ff_batch_inversion_for_ok zero one mul isZero inv invOk d0 (pre ++ rest) rest.length pre.length scratch acc = false
  | [], pre, scratch, acc, hl => by
    rw [batchPrefixG]
    refine ⟨rfl, ?_⟩
    rw [List.length_nil, Loops.ff_batch_inversion_for, Nat.add_zero, List.append_nil, List.take_append_drop]
  | x :: rest, pre, scratch, acc, hl => by
    have hget : (pre ++ x :: rest).getD pre.length d0 = x := by
      rw [List.getD_eq_getElem?_getD, List.getElem?_append_right (Nat.le_refl _), Nat.sub_self]; rfl
    have hlen : pre.length < (pre ++ x :: rest).length := by rw [List.length_append, List.length_cons]; omega
    have hlen2 : pre.length < scratch.length := by rw [hl]; exact hlen
    have hpre : pre ++ x :: rest = (pre ++ [x]) ++ rest := by rw [List.append_assoc]; rfl
    have hpl : (pre ++ [x]).length = pre.length + 1 := by rw [List.length_append]; rfl
    rw [batchPrefixG, List.length_cons, Loops.ff_batch_inversion_for_ok, Loops.ff_batch_inversion_for]
    simp only [hget, decide_eq_true hlen, decide_eq_true hlen2, Bool.true_and]
    by_cases hz : isZero x = true
    · rw [if_pos hz, hz]; rfl
    · rw [if_neg hz]
      have hz' : isZero x = false := by
        cases h : isZero x
        · rfl
        · exact absurd h hz
      rw [hz']
      have ih := for_eq rest (pre ++ [x]) (scratch.set pre.length acc) (mul acc x)
        (by rw [List.length_set, hl, hpre])
      rw [← hpre, hpl] at ih
      cases hr : batchPrefixG mul isZero rest (mul acc x) with
      | none =>
        rw [hr] at ih
        simp only [Bool.not_false, Bool.true_and]
        exact ih
      | some r =>
        obtain ⟨sc, fin⟩ := r
        rw [hr] at ih
        simp only [Bool.not_false, Bool.true_and]
        refine ⟨ih.1, ?_⟩
        rw [ih.2]
        have hsc := prefix_length mul isZero rest _ _ _ hr
        have e1 : (scratch.set pre.length acc).take (pre.length + 1) = scratch.take pre.length ++ [acc] := by
          rw [List.take_add_one, List.take_set_of_le (Nat.le_refl _), List.getElem?_set_self hlen2]; rfl
        have e2 : (scratch.set pre.length acc).drop (pre.length + 1 + rest.length) = scratch.drop (pre.length + (rest.length + 1)) := by
          rw [List.drop_set_of_lt (by omega)]; congr 1; omega
        rw [e1, e2]
        simp only [List.append_assoc, List.cons_append, List.nil_append]

/-- the second loop, from the last index down: `tmp = acc * res[i]; res[i] = acc * scratch[i]; acc = tmp` -/
theorem for2_eq (scratch : List D) : ∀ (k : Nat) (acc : D) (res : List D), k ≤ res.length → k ≤ scratch.length →
    Loops.ff_batch_inversion_for2_ok zero one mul isZero inv invOk d0 scratch 0 k acc res = true ∧
    (Loops.ff_batch_inversion_for2 zero one mul isZero inv invOk d0 scratch 0 k acc res).2
      = batchBackG mul (res.take k).reverse (scratch.take k).reverse acc (res.drop k)
  | 0, acc, res, _, _ => by
    refine ⟨rfl, ?_⟩
    rw [Loops.ff_batch_inversion_for2, List.take_zero, List.reverse_nil, List.drop_zero]
    rfl
  | k+1, acc, res, h1, h2 => by
    have hr : res[k]? = some (res.getD k d0) := by
      rw [List.getD_eq_getElem?_getD, List.getElem?_eq_getElem (by omega)]; rfl
    have hs : scratch[k]? = some (scratch.getD k d0) := by
      rw [List.getD_eq_getElem?_getD, List.getElem?_eq_getElem (by omega)]; rfl
    have t1 : (res.take (k + 1)).reverse = res.getD k d0 :: (res.take k).reverse := by
      rw [List.take_add_one, hr]; simp
    have t2 : (scratch.take (k + 1)).reverse = scratch.getD k d0 :: (scratch.take k).reverse := by
      rw [List.take_add_one, hs]; simp
    have ih := for2_eq scratch k (mul acc (res.getD k d0)) (res.set k (mul acc (scratch.getD k d0)))
      (by rw [List.length_set]; omega) (by omega)
    have e1 : (res.set k (mul acc (scratch.getD k d0))).take k = res.take k := List.take_set_of_le (Nat.le_refl _)
    have e2 : (res.set k (mul acc (scratch.getD k d0))).drop k = mul acc (scratch.getD k d0) :: res.drop (k + 1) := by
      have hk : k < (res.set k (mul acc (scratch.getD k d0))).length := by rw [List.length_set]; omega
      rw [List.drop_eq_getElem_cons hk, List.getElem_set_self, List.drop_set_of_lt (by omega)]
    rw [e1, e2] at ih
    rw [Loops.ff_batch_inversion_for2_ok, Loops.ff_batch_inversion_for2, t1, t2, batchBackG]
    simp only [Nat.zero_add]
    have c1 : decide (k < res.length) = true := decide_eq_true (by omega)
    have c2 : decide (k < scratch.length) = true := decide_eq_true (by omega)
    rw [c1, c2]
    exact ⟨by rw [ih.1]; rfl, ih.2⟩


/-- **the regenerated `FiniteField::batch_inversion` is the generic hand model**, for every field record, every input
    (`inverse : D → Option D` is the partial inverse; its panic is the flag `isSome`, its value after a panic is `d0`) -/
theorem gen_batch_inversion_eq (inverse : D → Option D) (input : List D) :
    outcome (Loops.ff_batch_inversion_ok zero one mul isZero (fun x => (inverse x).getD d0) (fun x => (inverse x).isSome) d0 input)
        (Loops.ff_batch_inversion zero one mul isZero (fun x => (inverse x).getD d0) (fun x => (inverse x).isSome) d0 input)
      = batchInversionG mul isZero inverse one input := by
  cases input with
  | nil => rfl
  | cons x xs =>
    have hne : ((x :: xs).length == 0) = false := rfl
    have hl : ((List.replicate (x :: xs).length zero).set 0 ((x :: xs).getD 0 d0)).length = ([] ++ (x :: xs)).length := by
      rw [List.length_set, List.length_replicate]; rfl
    have hfor := for_eq zero one mul isZero (fun x => (inverse x).getD d0) (fun x => (inverse x).isSome) d0 (x :: xs) []
      ((List.replicate (x :: xs).length zero).set 0 ((x :: xs).getD 0 d0)) one hl
    rw [List.nil_append, List.length_nil] at hfor
    have c0 : decide (0 < (x :: xs).length) = true := rfl
    have c0' : decide (0 < (List.replicate (x :: xs).length zero).length) = true := by
      rw [List.length_replicate]; rfl
    unfold Loops.ff_batch_inversion_ok Loops.ff_batch_inversion batchInversionG
    simp only [hne, Bool.false_eq_true, if_false, Nat.sub_zero, c0, c0', Bool.true_and]
    cases hp : batchPrefixG mul isZero (x :: xs) one with
    | none =>
      rw [hp] at hfor
      simp only at hfor
      rw [hfor]; rfl
    | some r =>
      obtain ⟨sc, fin⟩ := r
      rw [hp] at hfor
      simp only at hfor
      obtain ⟨h1, h2⟩ := hfor
      have hsc := prefix_length mul isZero _ _ _ _ hp
      have hdrop : ((List.replicate (x :: xs).length zero).set 0 ((x :: xs).getD 0 d0)).drop (0 + (x :: xs).length) = [] := by
        apply List.drop_eq_nil_of_le
        rw [List.length_set, List.length_replicate]; omega
      rw [List.take_zero, List.nil_append, hdrop, List.append_nil] at h2
      rw [h1, h2]
      simp only [Bool.true_and]
      cases hi : inverse fin with
      | none => rfl
      | some ai =>
        obtain ⟨f1, f2⟩ := for2_eq zero one mul isZero (fun x => (inverse x).getD d0) (fun x => (inverse x).isSome) d0 sc
          (x :: xs).length ai (x :: xs) (Nat.le_refl _) (by rw [hsc]; exact Nat.le_refl _)
        rw [List.take_length, List.drop_length] at f2
        have hts : sc.take (x :: xs).length = sc := by rw [← hsc, List.take_length]
        rw [hts] at f2
        simp only [Option.isSome_some, Option.getD_some, Bool.true_and, f1, f2]
        rfl

/-! ### the base-field instance of the hand model is the generic one -/

theorem bf_prefix_eq : ∀ (xs : List Nat) (acc : Nat),
    BF.batchPrefix xs acc = batchPrefixG bfe_mul (fun x => x == BF.zero) xs acc
  | [], acc => rfl
  | x :: xs, acc => by
    rw [BF.batchPrefix, batchPrefixG, bf_prefix_eq xs]
    by_cases hz : (x == BF.zero) = true
    · rw [if_pos hz, if_pos hz]
    · rw [if_neg hz, if_neg hz]
      cases batchPrefixG bfe_mul (fun x => x == BF.zero) xs (bfe_mul acc x) with
      | none => rfl
      | some r => rfl

theorem bf_back_eq : ∀ (xs ss : List Nat) (acc : Nat) (out : List Nat),
    BF.batchBack xs ss acc out = batchBackG bfe_mul xs ss acc out
  | [], _, _, _ => by simp [BF.batchBack, batchBackG]
  | _ :: _, [], _, _ => by simp [BF.batchBack, batchBackG]
  | x :: xs, s :: ss, acc, out => by rw [BF.batchBack, batchBackG, bf_back_eq xs ss]

theorem bf_batchInversion_eq (xs : List Nat) :
    BF.batchInversion xs = batchInversionG bfe_mul (fun x => x == BF.zero) BF.inverse BF.one xs := by
  unfold BF.batchInversion batchInversionG
  cases xs with
  | nil => rfl
  | cons x xs =>
    simp only [bf_prefix_eq, bf_back_eq]
    cases batchPrefixG bfe_mul (fun x => x == BF.zero) (x :: xs) BF.one with
    | none => rfl
    | some r =>
      obtain ⟨sc, acc⟩ := r
      simp only []
      cases BF.inverse acc <;> rfl

end TF.GenBridge.Field
