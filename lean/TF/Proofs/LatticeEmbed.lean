import TF.Model.Lattice
import Mathlib.Tactic.Ring
/-!
`extract_msg (embed_msg m + noise) = m` whenever every coefficient of the noise is an integer in `(-2^14, 2^14)`
(added in the field, i.e. modulo `P`, including the wrap-around below zero).
-/
namespace TF.LatticeProofs
open TF.Gen TF.Model.Lattice

theorem extractNibble_lanes (w : Nat) : extractNibble w =
    laneBit (w % 65536) + 2 * laneBit (w / 65536 % 65536) + 4 * laneBit (w / 4294967296 % 65536)
      + 8 * laneBit (w / 281474976710656 % 65536) := by
  simp [extractNibble, List.range, List.range.loop, List.foldl]
  ring

theorem embedNibble_table : ∀ nib, nib < 16 → embedNibble nib 0 =
    (nib % 2) * 32768 + (nib / 2 % 2) * 2147483648 + (nib / 4 % 2) * 140737488355328
      + (nib / 8 % 2) * 9223372036854775808 := by
  decide +kernel

theorem embedNibble_low : ∀ b, b < 256 → embedNibble b 0 = embedNibble (b % 16) 0 := by decide +kernel
theorem embedNibble_high : ∀ b, b < 256 → embedNibble b 4 = embedNibble (b / 16) 0 := by decide +kernel

theorem emod_cases (s : Int) (h1 : -16384 < s) (h2 : s < 18446744069414584321) :
    (0 ≤ s ∧ s % 18446744069414584321 = s) ∨ (s < 0 ∧ s % 18446744069414584321 = s + 18446744069414584321) := by
  by_cases h : 0 ≤ s
  · left; exact ⟨h, Int.emod_eq_of_lt h h2⟩
  · right
    refine ⟨by omega, ?_⟩
    rw [← Int.add_emod_right s 18446744069414584321]
    exact Int.emod_eq_of_lt (by omega) (by omega)

theorem lanes_all (b0 b1 b2 b3 : Nat) (h0 : b0 ≤ 1) (h1 : b1 ≤ 1) (h2 : b2 ≤ 1) (h3 : b3 ≤ 1) (e : Int)
    (he1 : -16384 < e) (he2 : e < 16384) (w : Nat)
    (hw : w = ((((b0 * 32768 + b1 * 2147483648 + b2 * 140737488355328 + b3 * 9223372036854775808 : Nat) : Int) + e)
      % (18446744069414584321 : Int)).toNat) :
    laneBit (w % 65536) = b0 ∧ laneBit (w / 65536 % 65536) = b1 ∧ laneBit (w / 4294967296 % 65536) = b2 ∧
    laneBit (w / 281474976710656 % 65536) = b3 := by
  have c0 : b0 = 0 ∨ b0 = 1 := by omega
  have c1 : b1 = 0 ∨ b1 = 1 := by omega
  have c2 : b2 = 0 ∨ b2 = 1 := by omega
  have c3 : b3 = 0 ∨ b3 = 1 := by omega
  have hcase := emod_cases (((b0 * 32768 + b1 * 2147483648 + b2 * 140737488355328 + b3 * 9223372036854775808 : Nat) : Int) + e)
    (by omega) (by omega)
  unfold laneBit
  rcases hcase with ⟨hs, hm⟩ | ⟨hs, hm⟩ <;> rw [hm] at hw <;>
  rcases c0 with rfl | rfl <;> rcases c1 with rfl | rfl <;> rcases c2 with rfl | rfl <;> rcases c3 with rfl | rfl <;>
    (refine ⟨?_, ?_, ?_, ?_⟩ <;> split_ifs <;> omega)

/-- one coefficient: the four embedded bits survive any integer noise in `(-2^14, 2^14)` added modulo `P` -/
theorem nibble_noise (nib : Nat) (hn : nib < 16) (e : Int) (h1 : -16384 < e) (h2 : e < 16384) :
    extractNibble ((((embedNibble nib 0 : Nat) : Int) + e) % (18446744069414584321 : Int)).toNat = nib := by
  rw [embedNibble_table nib hn, extractNibble_lanes]
  obtain ⟨l0, l1, l2, l3⟩ := lanes_all (nib % 2) (nib / 2 % 2) (nib / 4 % 2) (nib / 8 % 2) (by omega) (by omega)
    (by omega) (by omega) e h1 h2 _ rfl
  rw [l0, l1, l2, l3]
  omega

/-- the field element `v + e` for an integer noise `e` -/
def addNoise (v : Nat) (e : Int) : Nat := (((v : Nat) : Int) + e) % ((P : Nat) : Int) |>.toNat

theorem P_int : ((P : Nat) : Int) = 18446744069414584321 := by decide

theorem addNoise_eq (v : Nat) (e : Int) : addNoise v e = ((((v : Nat) : Int) + e) % (18446744069414584321 : Int)).toNat := by
  unfold addNoise
  rw [P_int]

theorem byte_noise (b : Nat) (hb : b < 256) (n0 n1 : Int) (h0 : -16384 < n0 ∧ n0 < 16384) (h1 : -16384 < n1 ∧ n1 < 16384) :
    extractNibble (addNoise (embedNibble b 0) n0) + 16 * extractNibble (addNoise (embedNibble b 4) n1) = b := by
  rw [addNoise_eq, addNoise_eq, embedNibble_low b hb, embedNibble_high b hb,
    nibble_noise _ (by omega) _ h0.1 h0.2, nibble_noise _ (by omega) _ h1.1 h1.2]
  omega


theorem ofFn64_getD (f : Fin 64 → Nat) (k : Nat) (hk : k < 64) : (Array.ofFn (n := 64) f).getD k 0 = f ⟨k, hk⟩ := by
  simp [Array.getD_eq_getD_getElem?, Array.getElem?_ofFn, hk]

theorem embedMsg_get (msg : List Nat) (k : Nat) (hk : k < 64) :
    (embedMsg msg).getD k 0 = embedNibble (msg.getD (k / 2) 0) (if k % 2 = 0 then 0 else 4) := by
  unfold embedMsg
  rw [ofFn64_getD _ k hk]

theorem embedMsg_even (msg : List Nat) (c : Nat) (hc : c < 32) :
    (embedMsg msg).getD (2*c) 0 = embedNibble (msg.getD c 0) 0 := by
  rw [embedMsg_get msg (2*c) (by omega)]
  have h1 : 2*c/2 = c := by omega
  have h2 : 2*c % 2 = 0 := by omega
  rw [h1, if_pos h2]

theorem embedMsg_odd (msg : List Nat) (c : Nat) (hc : c < 32) :
    (embedMsg msg).getD (2*c+1) 0 = embedNibble (msg.getD c 0) 4 := by
  rw [embedMsg_get msg (2*c+1) (by omega)]
  have h1 : (2*c+1)/2 = c := by omega
  have h2 : ¬ ((2*c+1) % 2 = 0) := by omega
  rw [h1, if_neg h2]

/-- **`extract_msg (embed_msg m + e) = m`** for every message and every noise vector with all coefficients in
    `(-2^14, 2^14)` -/
theorem extract_embed_noise (msg : List Nat) (hlen : msg.length = 32) (hb : ∀ b ∈ msg, b < 256)
    (noise : Nat → Int) (hnoise : ∀ k, k < 64 → -16384 < noise k ∧ noise k < 16384)
    (r : Ring) (hr : ∀ k, k < 64 → r.getD k 0 = addNoise ((embedMsg msg).getD k 0) (noise k)) :
    extractMsg r = msg := by
  apply List.ext_getElem (by simp [extractMsg, hlen])
  intro c h1 h2
  have hc : c < 32 := by rw [← hlen]; exact h2
  have hbc : msg[c] < 256 := hb _ (List.getElem_mem h2)
  have hget : msg.getD c 0 = msg[c] := by simp [List.getD_eq_getElem?_getD, h2]
  simp only [extractMsg, List.getElem_map, List.getElem_range]
  rw [hr (2*c) (by omega), hr (2*c+1) (by omega), embedMsg_even msg c hc, embedMsg_odd msg c hc, hget]
  exact byte_noise _ hbc _ _ (hnoise _ (by omega)) (hnoise _ (by omega))

end TF.LatticeProofs
