import TF.Gen.U32sLoops
import TF.Model.U32s
/-!
# Bridge: the limb loops of `amount/u32s.rs` *as regenerated from source* = the hand-written model (C19)

`TF/Gen/U32sLoops.lean` is written by `tools/rs2lean_loops.py` from the Rust text on every run: a `U32s<N>` is its limb
array (`List Nat`, `a.values[i]` = `a.getD i 0`, `a.values[i] = v` = `a.set i v`), `for i in 0..N` is a recursion on
the number of remaining iterations with the index as an argument.  The generated function computes the result of a
release build that does not panic; its `_ok` companion is true iff every `assert!` holds and every index is in range,
i.e. iff the Rust code does **not** panic.  The hand model (`TF/Model/U32s.lean`) walks the limb lists structurally
and returns `none` for a panic.  The theorems below say, for **all** limb lists of length `N` (every `N`):

    (if f_ok N a b then some (f N a b) else none) = Model.f a b

so the C19 theorems (`add_spec`, `sub_spec`, `mul_two_spec`, `div_two_spec`, …) are theorems about the current source.
-/
namespace TF.GenBridge.U32s
open TF TF.Gen TF.U32s

theorem toNat_ite (c : Bool) : (if c then 1 else 0) = c.toNat := by cases c <;> rfl

theorem getD_eq (a : List Nat) (i : Nat) (h : i < a.length) : a.getD i 0 = a[i] := by
  simp [List.getD_eq_getElem?_getD, List.getElem?_eq_getElem h]

theorem drop_cons_getD (a : List Nat) (i : Nat) (h : i < a.length) : a.drop i = a.getD i 0 :: a.drop (i + 1) := by
  rw [List.drop_eq_getElem_cons h, getD_eq a i h]

theorem take_set_succ (res : List Nat) (i v : Nat) (h : i < res.length) :
    (res.set i v).take (i + 1) = res.take i ++ [v] := by
  rw [List.take_add_one, List.take_set_of_le (Nat.le_refl i)]
  simp [h]

theorem add_for_eq (a b : List Nat) : ∀ n i c res, a.length = i + n → b.length = i + n → res.length = i + n →
    Loops.u32s_add_for a b n i c res
      = ((addLoop (a.drop i) (b.drop i) c).2, res.take i ++ (addLoop (a.drop i) (b.drop i) c).1) := by
  intro n
  induction n with
  | zero =>
    intro i c res ha hb hr
    have ea : a.drop i = [] := List.drop_eq_nil_of_le (by omega)
    have eb : b.drop i = [] := List.drop_eq_nil_of_le (by omega)
    have er : res.take i = res := List.take_of_length_le (by omega)
    simp only [Loops.u32s_add_for, ea, eb, er, addLoop, List.append_nil]
  | succ n ih =>
    intro i c res ha hb hr
    rw [drop_cons_getD a i (by omega), drop_cons_getD b i (by omega)]
    simp only [Loops.u32s_add_for, addLoop, W, toNat_ite, ge_iff_le]
    rw [ih (i + 1) _ _ (by omega) (by omega) (by rw [List.length_set]; omega), take_set_succ res i _ (by omega),
      List.append_assoc, List.singleton_append]
    rfl

theorem add_for_ok (a b : List Nat) : ∀ n i c res, a.length = i + n → b.length = i + n → res.length = i + n →
    Loops.u32s_add_for_ok a b n i c res = true := by
  intro n
  induction n with
  | zero => intros; rfl
  | succ n ih =>
    intro i c res ha hb hr
    have h1 : i < a.length := by omega
    have h2 : i < b.length := by omega
    have h3 : i < res.length := by omega
    simp only [Loops.u32s_add_for_ok, h1, h2, h3, decide_true, Bool.and_self, Bool.true_and]
    exact ih (i + 1) _ _ (by omega) (by omega) (by rw [List.length_set]; omega)

/-- **`Add for U32s<N>`**: the regenerated loop (wrapped result + `_ok` = "no `assert!` fails, no index out of range")
    is the hand model's exact-or-panic `add`, for all limb lists of length `N` -/
theorem gen_add_eq (N : Nat) (a b : List Nat) (ha : a.length = N) (hb : b.length = N) :
    (if Loops.u32s_add_ok N a b then some (Loops.u32s_add N a b) else none) = add a b := by
  have hf := add_for_eq a b N 0 false (List.replicate N 0) (by omega) (by omega) (by simp)
  have hk := add_for_ok a b N 0 false (List.replicate N 0) (by omega) (by omega) (by simp)
  simp only [Loops.u32s_add_ok, Loops.u32s_add, add, Nat.sub_zero, hf, hk, List.drop_zero, List.take_zero,
    List.nil_append, Bool.true_and]
  cases (addLoop a b false).2 <;> simp

theorem sub_for_eq (a b : List Nat) : ∀ n i c res, a.length = i + n → b.length = i + n → res.length = i + n →
    Loops.u32s_sub_for a b n i c res
      = ((subLoop (a.drop i) (b.drop i) c).2, res.take i ++ (subLoop (a.drop i) (b.drop i) c).1) := by
  intro n
  induction n with
  | zero =>
    intro i c res ha hb hr
    have ea : a.drop i = [] := List.drop_eq_nil_of_le (by omega)
    have eb : b.drop i = [] := List.drop_eq_nil_of_le (by omega)
    have er : res.take i = res := List.take_of_length_le (by omega)
    simp only [Loops.u32s_sub_for, ea, eb, er, subLoop, List.append_nil]
  | succ n ih =>
    intro i c res ha hb hr
    rw [drop_cons_getD a i (by omega), drop_cons_getD b i (by omega)]
    simp only [Loops.u32s_sub_for, subLoop, W, toNat_ite, ge_iff_le]
    rw [ih (i + 1) _ _ (by omega) (by omega) (by rw [List.length_set]; omega), take_set_succ res i _ (by omega),
      List.append_assoc, List.singleton_append]
    rfl

theorem sub_for_ok (a b : List Nat) : ∀ n i c res, a.length = i + n → b.length = i + n → res.length = i + n →
    Loops.u32s_sub_for_ok a b n i c res = true := by
  intro n
  induction n with
  | zero => intros; rfl
  | succ n ih =>
    intro i c res ha hb hr
    have h1 : i < a.length := by omega
    have h2 : i < b.length := by omega
    have h3 : i < res.length := by omega
    simp only [Loops.u32s_sub_for_ok, h1, h2, h3, decide_true, Bool.and_self, Bool.true_and]
    exact ih (i + 1) _ _ (by omega) (by omega) (by rw [List.length_set]; omega)

/-- **`Sub for U32s<N>`**: the regenerated loop (wrapped result + `_ok` = "no `assert!` fails, no index out of range")
    is the hand model's exact-or-panic `sub`, for all limb lists of length `N` -/
theorem gen_sub_eq (N : Nat) (a b : List Nat) (ha : a.length = N) (hb : b.length = N) :
    (if Loops.u32s_sub_ok N a b then some (Loops.u32s_sub N a b) else none) = sub a b := by
  have hf := sub_for_eq a b N 0 false (List.replicate N 0) (by omega) (by omega) (by simp)
  have hk := sub_for_ok a b N 0 false (List.replicate N 0) (by omega) (by omega) (by simp)
  simp only [Loops.u32s_sub_ok, Loops.u32s_sub, sub, Nat.sub_zero, hf, hk, List.drop_zero, List.take_zero,
    List.nil_append, Bool.true_and]
  cases (subLoop a b false).2 <;> simp

/-! ### `mul_two` (the array is updated in place) -/

theorem mul_two_for_eq : ∀ n i cur c, cur.length = i + n →
    Loops.u32s_mul_two_for n i cur c
      = (cur.take i ++ (mulTwoLoop (cur.drop i) c).1, (mulTwoLoop (cur.drop i) c).2) := by
  intro n
  induction n with
  | zero =>
    intro i cur c hl
    have ea : cur.drop i = [] := List.drop_eq_nil_of_le (by omega)
    have er : cur.take i = cur := List.take_of_length_le (by omega)
    simp only [Loops.u32s_mul_two_for, ea, er, mulTwoLoop, List.append_nil]
  | succ n ih =>
    intro i cur c hl
    rw [drop_cons_getD cur i (by omega)]
    simp only [Loops.u32s_mul_two_for, mulTwoLoop, W, toNat_ite, ge_iff_le, Nat.mul_comm (cur.getD i 0) 2]
    rw [ih (i + 1) _ _ (by rw [List.length_set]; omega), take_set_succ cur i _ (by omega),
      List.drop_set_of_lt (Nat.lt_succ_self i), List.append_assoc, List.singleton_append]
    rfl

theorem mul_two_for_ok : ∀ n i cur c, cur.length = i + n → Loops.u32s_mul_two_for_ok n i cur c = true := by
  intro n
  induction n with
  | zero => intros; rfl
  | succ n ih =>
    intro i cur c hl
    have h1 : i < cur.length := by omega
    simp only [Loops.u32s_mul_two_for_ok, h1, decide_true, Bool.and_self, Bool.true_and]
    exact ih (i + 1) _ _ (by rw [List.length_set]; omega)

/-- **`U32s::mul_two`**: regenerated loop + `_ok` = the hand model's exact-or-panic `mulTwo`, all limb lists of length `N` -/
theorem gen_mul_two_eq (N : Nat) (a : List Nat) (ha : a.length = N) :
    (if Loops.u32s_mul_two_ok N a then some (Loops.u32s_mul_two N a) else none) = mulTwo a := by
  have hf := mul_two_for_eq N 0 a false (by omega)
  have hk := mul_two_for_ok N 0 a false (by omega)
  simp only [Loops.u32s_mul_two_ok, Loops.u32s_mul_two, mulTwo, Nat.sub_zero, hf, hk, List.drop_zero, List.take_zero,
    List.nil_append, Bool.true_and]
  cases (mulTwoLoop a false).2 <;> simp

/-! ### `div_two` (`for i in (0..N).rev()`; the hand model recurses from the least significant limb) -/

/-- one round of the generated `div_two` loop at index `i` -/
def dstep (i : Nat) (st : List Nat × Bool) : List Nat × Bool :=
  (st.1.set i (if st.2 then (st.1.getD i 0 / 2 + (1 * 2147483648 % 4294967296)) % 4294967296 else st.1.getD i 0 / 2),
   (st.1.getD i 0 &&& 1) == 1)

theorem div_two_for_succ (lo n : Nat) (cur : List Nat) (c : Bool) :
    Loops.u32s_div_two_for lo (n + 1) cur c
      = Loops.u32s_div_two_for lo n (dstep (lo + n) (cur, c)).1 (dstep (lo + n) (cur, c)).2 := by
  simp only [Loops.u32s_div_two_for, dstep]

/-- the rounds commute into "first all higher indices, then the lowest one" -/
theorem div_two_for_peel : ∀ n lo cur c,
    Loops.u32s_div_two_for lo (n + 1) cur c = dstep lo (Loops.u32s_div_two_for (lo + 1) n cur c) := by
  intro n
  induction n with
  | zero =>
    intro lo cur c
    rw [div_two_for_succ]
    simp only [Loops.u32s_div_two_for, Nat.add_zero]
  | succ n ih =>
    intro lo cur c
    rw [div_two_for_succ, ih, div_two_for_succ (lo + 1) n]
    have e : lo + (n + 1) = lo + 1 + n := by omega
    rw [e]

theorem div_two_for_eq : ∀ n lo cur, cur.length = lo + n → (∀ x ∈ cur, x < 4294967296) →
    Loops.u32s_div_two_for lo n cur false
      = (cur.take lo ++ (divTwoLoop (cur.drop lo)).1, (divTwoLoop (cur.drop lo)).2.1) := by
  intro n
  induction n with
  | zero =>
    intro lo cur hl _
    have ea : cur.drop lo = [] := List.drop_eq_nil_of_le (by omega)
    have er : cur.take lo = cur := List.take_of_length_le (by omega)
    simp only [Loops.u32s_div_two_for, ea, er, divTwoLoop, List.append_nil]
  | succ n ih =>
    intro lo cur hl hw
    rw [div_two_for_peel, ih (lo + 1) cur (by omega) hw, drop_cons_getD cur lo (by omega)]
    have hx : cur.getD lo 0 < 4294967296 := by
      rw [getD_eq cur lo (by omega)]; exact hw _ (List.getElem_mem _)
    have hlen : (cur.take (lo + 1)).length = lo + 1 := by rw [List.length_take]; omega
    have hg : (cur.take (lo + 1) ++ (divTwoLoop (cur.drop (lo + 1))).1).getD lo 0 = cur.getD lo 0 := by
      rw [List.getD_eq_getElem?_getD, List.getD_eq_getElem?_getD, List.getElem?_append_left (by omega),
        List.getElem?_take_of_lt (by omega)]
    have hs : ∀ v, (cur.take (lo + 1) ++ (divTwoLoop (cur.drop (lo + 1))).1).set lo v
        = cur.take lo ++ v :: (divTwoLoop (cur.drop (lo + 1))).1 := by
      intro v
      have hlo : (cur.take lo).length = lo := by rw [List.length_take]; omega
      rw [List.take_add_one, List.getElem?_eq_getElem (show lo < cur.length by omega), Option.toList_some,
        List.append_assoc, List.set_append_right _ _ (by omega), hlo, Nat.sub_self]
      rfl
    simp only [dstep, hg, hs, divTwoLoop]
    have hand : (cur.getD lo 0 &&& 1) = cur.getD lo 0 % 2 := Nat.and_one_is_mod _
    rw [hand]
    generalize cur.getD lo 0 = x at hx ⊢
    have hb : (x % 2 == 1) = decide (x % 2 = 1) := by by_cases h : x % 2 = 1 <;> simp [h]
    rw [hb]
    cases hc : (divTwoLoop (cur.drop (lo + 1))).2.1
    · simp only [Bool.false_eq_true, if_false, Nat.add_zero]
    · have e : (x / 2 + 1 * 2147483648 % 4294967296) % 4294967296 = x / 2 + 2147483648 := by omega
      simp only [if_true, e]

theorem div_two_for_ok : ∀ n lo cur c, lo + n ≤ cur.length → (∀ x ∈ cur, x < 4294967296) →
    Loops.u32s_div_two_for_ok lo n cur c = true := by
  intro n
  induction n with
  | zero => intros; rfl
  | succ n ih =>
    intro lo cur c hl hw
    have h1 : lo + n < cur.length := by omega
    have hx : cur.getD (lo + n) 0 < 4294967296 := by
      rw [getD_eq cur _ h1]; exact hw _ (List.getElem_mem _)
    have hcell : cur.getD (lo + n) 0 / 2 + 1 * 2147483648 % 4294967296 < 4294967296 := by omega
    simp only [Loops.u32s_div_two_for_ok, h1, hcell, decide_true, Bool.true_and, ite_self]
    apply ih lo _ _ (by rw [List.length_set]; omega)
    intro y hy
    rcases List.mem_or_eq_of_mem_set hy with h | h
    · exact hw y h
    · subst h; split <;> omega

theorem divTwoLoop_flag : ∀ a : List Nat, (∀ x ∈ a, x < 4294967296) → (divTwoLoop a).2.2 = true := by
  intro a
  induction a with
  | nil => intro _; rfl
  | cons x xs ih =>
    intro hw
    have hx : x < 4294967296 := hw x (List.mem_cons_self ..)
    have := ih (fun y hy => hw y (List.mem_cons_of_mem _ hy))
    simp only [divTwoLoop, this, Bool.true_and, W]
    split <;> simp <;> omega

/-- **`U32s::div_two`**: regenerated loop + `_ok` = the hand model's `divTwo`, for all well-formed `U32s<N>`, every `N` -/
theorem gen_div_two_eq (N : Nat) (a : List Nat) (ha : a.length = N) (hw : ∀ x ∈ a, x < 4294967296) :
    (if Loops.u32s_div_two_ok N a then some (Loops.u32s_div_two N a) else none) = divTwo a := by
  have hf := div_two_for_eq N 0 a (by omega) hw
  have hk := div_two_for_ok N 0 a false (by omega) hw
  simp only [Loops.u32s_div_two_ok, Loops.u32s_div_two, divTwo, Nat.sub_zero, hf, hk, List.drop_zero, List.take_zero,
    List.nil_append, divTwoLoop_flag a hw, if_true]

end TF.GenBridge.U32s
