import TF.Gen.LatticeLoops
import TF.Model.Lattice
/-!
# Bridge: the loops of `math/lattice.rs` *as regenerated from source* = the hand-written model (C18)

`TF/Gen/LatticeLoops.lean` is written by `tools/rs2lean_lattice.py` from the Rust text on every run.

* `coset_ntt_noswap_64` / `coset_intt_noswap_64` are translated over a PARAMETER record `ops : TF.Model.Ntt.Ops σ α`
  (array elements `α`, table entries and `N_INV` `σ` through `ops.sofNat <literal>`); the bridge holds for every `ops` and
  every array of length 64: the in-place butterfly loops compute the functional stages (`Array.ofFn`) of the model, the
  `while m < N` loop finishes within its fuel, no index is out of range and no index arithmetic overflows.
  - `bfly` — the in-place pass over one block (generic in the two results of a butterfly), `bfly_spec` its pointwise content;
  - `stageAt` / `BlockInv` — the pointwise formula of one stage and the loop invariant of the block loop
    ("blocks below `b` hold the stage formula of the array before the stage, the rest is untouched");
  - `ntt_for2_eq` / `intt_for2_eq` — the block loops; `ntt_loop_step` / `intt_for_step` — one stage of the outer loops;
  - `gen_coset_ntt_eq`, `gen_coset_intt_eq` — the functions, with the tables `(literals).map ops.sofNat`;
    `psiLits_bOps` … — for the canonical-value instance these tables are the regenerated `PSI_POWERS_BITREVERSED` ….
* `embed_msg`, `extract_msg`, ring `add`/`sub`/`hadamard`/`mul` are translated on canonical values (`gen_embed_msg_eq`,
  `gen_extract_msg_eq`, `gen_ring_add_eq`, `gen_ring_sub_eq`, `gen_ring_hadamard_eq`, `gen_ring_mul_eq`); the bit loops of
  `embed_msg` are decided for all 256 bytes, the lane loops of `extract_msg` are unrolled (4 lanes) for every value.
Core Lean only.
-/
namespace TF.GenBridge.Lattice
open TF TF.Gen TF.Model.Ntt TF.Model.Lattice

variable {σ α : Type}

/-! ### lists: two writes -/

theorem set2_getElem? (x : List α) (a b idx : Nat) (A S : α) (hab : a ≠ b) (ha : a < x.length) :
    ((x.set a A).set b S)[idx]? = if idx = b then (if b < x.length then some S else none) else if idx = a then some A else x[idx]? := by
  by_cases h1 : idx = b
  · subst h1; simp [List.getElem?_set]
  · by_cases h2 : idx = a
    · subst h2; simp [h1, ha, Ne.symm h1]
    · simp [h1, h2, Ne.symm h1, Ne.symm h2]

theorem set2_getD (x : List α) (a b idx : Nat) (A S z : α) (hab : a ≠ b) (ha : a < x.length) (hb : b < x.length) :
    ((x.set a A).set b S).getD idx z = if idx = b then S else if idx = a then A else x.getD idx z := by
  rw [List.getD_eq_getElem?_getD, set2_getElem? x a b idx A S hab ha, List.getD_eq_getElem?_getD]
  by_cases h1 : idx = b
  · simp [h1, hb]
  · by_cases h2 : idx = a
    · subst h2; simp [h1]
    · simp [h1, h2]

theorem getD_of_getElem?_eq {x y : List α} {i : Nat} (h : y[i]? = x[i]?) (z : α) : y.getD i z = x.getD i z := by
  rw [List.getD_eq_getElem?_getD, List.getD_eq_getElem?_getD, h]

/-! ### the in-place butterfly pass over one block -/

/-- `for j in j₀..j₀+n { u = x[j]; v = x[j+t]; x[j] = f u v; x[j+t] = g u v }` -/
def bfly (f g : α → α → α) (z : α) (t : Nat) : Nat → Nat → List α → List α
  | 0, _, x => x
  | n+1, j, x =>
    bfly f g z t n (j + 1) ((x.set j (f (x.getD j z) (x.getD (j + t) z))).set (j + t) (g (x.getD j z) (x.getD (j + t) z)))

/-- **one in-place butterfly block, pointwise**: position `idx ∈ [j, j+n)` holds `f x[idx] x[idx+t]`, position
    `idx ∈ [j+t, j+t+n)` holds `g x[idx-t] x[idx]` (values *before* the pass: every index pair is written exactly once),
    everything else is untouched -/
theorem bfly_spec (f g : α → α → α) (z : α) (t : Nat) : ∀ n j (x : List α), n ≤ t → j + t + n ≤ x.length →
    (bfly f g z t n j x).length = x.length ∧
    ∀ idx, (bfly f g z t n j x)[idx]? =
      if j ≤ idx ∧ idx < j + n then some (f (x.getD idx z) (x.getD (idx + t) z))
      else if j + t ≤ idx ∧ idx < j + t + n then some (g (x.getD (idx - t) z) (x.getD idx z))
      else x[idx]? := by
  intro n
  induction n with
  | zero =>
    intro j x _ _
    refine ⟨rfl, fun idx => ?_⟩
    have c1 : ¬ (j ≤ idx ∧ idx < j + 0) := by omega
    have c2 : ¬ (j + t ≤ idx ∧ idx < j + t + 0) := by omega
    rw [if_neg c1, if_neg c2]; rfl
  | succ n ih =>
    intro j x hn hlen
    have hab : j ≠ j + t := by omega
    have ha : j < x.length := by omega
    have hb : j + t < x.length := by omega
    generalize hA : f (x.getD j z) (x.getD (j + t) z) = A
    generalize hS : g (x.getD j z) (x.getD (j + t) z) = S
    have hstep : bfly f g z t (n + 1) j x = bfly f g z t n (j + 1) ((x.set j A).set (j + t) S) := by
      simp only [bfly, hA, hS]
    obtain ⟨il, ip⟩ := ih (j + 1) ((x.set j A).set (j + t) S) (by omega) (by simp only [List.length_set]; omega)
    have gd : ∀ i, ((x.set j A).set (j + t) S).getD i z = if i = j + t then S else if i = j then A else x.getD i z :=
      fun i => set2_getD x _ _ i A S z hab ha hb
    rw [hstep]
    refine ⟨by rw [il]; simp only [List.length_set], fun idx => ?_⟩
    rw [ip idx]
    by_cases e1 : idx = j
    · subst e1
      have c1 : ¬ (idx + 1 ≤ idx ∧ idx < idx + 1 + n) := by omega
      have c2 : ¬ (idx + 1 + t ≤ idx ∧ idx < idx + 1 + t + n) := by omega
      have c3 : idx ≤ idx ∧ idx < idx + (n + 1) := by omega
      rw [if_neg c1, if_neg c2, if_pos c3, set2_getElem? x _ _ _ A S hab ha, if_neg hab, if_pos rfl, ← hA]
    · by_cases e2 : idx = j + t
      · subst e2
        have c1 : ¬ (j + 1 ≤ j + t ∧ j + t < j + 1 + n) := by omega
        have c2 : ¬ (j + 1 + t ≤ j + t ∧ j + t < j + 1 + t + n) := by omega
        have c3 : ¬ (j ≤ j + t ∧ j + t < j + (n + 1)) := by omega
        have c4 : j + t ≤ j + t ∧ j + t < j + t + (n + 1) := by omega
        have s1 : j + t - t = j := by omega
        rw [if_neg c1, if_neg c2, if_neg c3, if_pos c4, set2_getElem? x _ _ _ A S hab ha, if_pos rfl, if_pos hb, s1, ← hS]
      · by_cases r1 : j + 1 ≤ idx ∧ idx < j + 1 + n
        · have c3 : j ≤ idx ∧ idx < j + (n + 1) := by omega
          have n1 : idx + t ≠ j + t := by omega
          have n2 : idx + t ≠ j := by omega
          rw [if_pos r1, if_pos c3, gd idx, gd (idx + t), if_neg e2, if_neg e1, if_neg n1, if_neg n2]
        · by_cases r2 : j + 1 + t ≤ idx ∧ idx < j + 1 + t + n
          · have c3 : ¬ (j ≤ idx ∧ idx < j + (n + 1)) := by omega
            have c4 : j + t ≤ idx ∧ idx < j + t + (n + 1) := by omega
            have n1 : idx - t ≠ j + t := by omega
            have n2 : idx - t ≠ j := by omega
            rw [if_neg r1, if_pos r2, if_neg c3, if_pos c4, gd idx, gd (idx - t), if_neg e2, if_neg e1, if_neg n1, if_neg n2]
          · have c3 : ¬ (j ≤ idx ∧ idx < j + (n + 1)) := by omega
            have c4 : ¬ (j + t ≤ idx ∧ idx < j + t + (n + 1)) := by omega
            rw [if_neg r1, if_neg r2, if_neg c3, if_neg c4, set2_getElem? x _ _ _ A S hab ha, if_neg e2, if_neg e1]

/-- the innermost loop of `coset_ntt_noswap_64` is `bfly` with `u + ζ·v`, `u - ζ·v`; nothing is out of range -/
theorem ntt_for3_eq (ops : Ops σ α) (t : Nat) (zeta : σ) : ∀ n j (x : List α),
    j + n + t ≤ x.length → x.length < 18446744073709551616 →
    Loops.lat_coset_ntt_noswap_64_for3 ops t zeta n j x
      = bfly (fun u v => ops.add u (ops.scale zeta v)) (fun u v => ops.sub u (ops.scale zeta v)) ops.zero t n j x ∧
    Loops.lat_coset_ntt_noswap_64_for3_ok ops t zeta n j x = true := by
  intro n
  induction n with
  | zero => intros; exact ⟨rfl, rfl⟩
  | succ n ih =>
    intro j x hlen hU
    have h2 : (j + t) % 18446744073709551616 = j + t := Nat.mod_eq_of_lt (by omega)
    have h4 : j + t < 18446744073709551616 := by omega
    have h5 : j < x.length := by omega
    have h6 : j + t < x.length := by omega
    obtain ⟨e, ok⟩ := ih (j + 1) ((x.set j (ops.add (x.getD j ops.zero) (ops.scale zeta (x.getD (j + t) ops.zero)))).set
      (j + t) (ops.sub (x.getD j ops.zero) (ops.scale zeta (x.getD (j + t) ops.zero))))
      (by simp only [List.length_set]; omega) (by simp only [List.length_set]; omega)
    constructor
    · simp only [Loops.lat_coset_ntt_noswap_64_for3, bfly, h2, e]
    · simp only [Loops.lat_coset_ntt_noswap_64_for3_ok, h2, h4, h5, h6, List.length_set, decide_true, Bool.and_self, ok]

/-- the innermost loop of `coset_intt_noswap_64` is `bfly` with `u + v`, `(u - v)·ζ` -/
theorem intt_for3_eq (ops : Ops σ α) (t : Nat) (zeta : σ) : ∀ n j (x : List α),
    j + n + t ≤ x.length → x.length < 18446744073709551616 →
    Loops.lat_coset_intt_noswap_64_for3 ops t zeta n j x
      = bfly (fun u v => ops.add u v) (fun u v => ops.scale zeta (ops.sub u v)) ops.zero t n j x ∧
    Loops.lat_coset_intt_noswap_64_for3_ok ops t zeta n j x = true := by
  intro n
  induction n with
  | zero => intros; exact ⟨rfl, rfl⟩
  | succ n ih =>
    intro j x hlen hU
    have h2 : (j + t) % 18446744073709551616 = j + t := Nat.mod_eq_of_lt (by omega)
    have h4 : j + t < 18446744073709551616 := by omega
    have h5 : j < x.length := by omega
    have h6 : j + t < x.length := by omega
    obtain ⟨e, ok⟩ := ih (j + 1) ((x.set j (ops.add (x.getD j ops.zero) (x.getD (j + t) ops.zero))).set
      (j + t) (ops.scale zeta (ops.sub (x.getD j ops.zero) (x.getD (j + t) ops.zero))))
      (by simp only [List.length_set]; omega) (by simp only [List.length_set]; omega)
    constructor
    · simp only [Loops.lat_coset_intt_noswap_64_for3, bfly, h2, e]
    · simp only [Loops.lat_coset_intt_noswap_64_for3_ok, h2, h4, h5, h6, List.length_set, decide_true, Bool.and_self, ok]

/-! ### one stage, pointwise; the invariant of the block loop -/

/-- the pointwise formula of one stage with half-block size `t`; block `b` uses the butterfly `(F b, G b)` -/
def stageAt (F G : Nat → α → α → α) (z : α) (t : Nat) (x : List α) (idx : Nat) : α :=
  if idx % (2*t) < t then F (idx / (2*t)) (x.getD idx z) (x.getD (idx + t) z)
  else G (idx / (2*t)) (x.getD (idx - t) z) (x.getD idx z)

/-- after blocks `0 .. b-1`: below `b·2t` the stage formula of the array `x` before the stage, from `b·2t` on still `x` -/
def BlockInv (F G : Nat → α → α → α) (z : α) (t : Nat) (x y : List α) (b : Nat) : Prop :=
  y.length = x.length ∧ ∀ idx, y[idx]? = if idx < b*(2*t) then some (stageAt F G z t x idx) else x[idx]?

theorem blk_mod (b t r : Nat) (hr : r < 2*t) : (b*(2*t) + r) % (2*t) = r := by
  rw [Nat.add_comm, Nat.add_mul_mod_self_right, Nat.mod_eq_of_lt hr]

theorem blk_div (b t r : Nat) (hr : r < 2*t) : (b*(2*t) + r) / (2*t) = b := by
  rw [Nat.add_comm, Nat.add_mul_div_right _ _ (by omega), Nat.div_eq_of_lt hr, Nat.zero_add]

theorem blockInv_zero (F G : Nat → α → α → α) (z : α) (t : Nat) (x : List α) : BlockInv F G z t x x 0 :=
  ⟨rfl, fun idx => by simp⟩

/-- one in-place block pass advances the invariant from `b` to `b+1` -/
theorem blockInv_step (F G : Nat → α → α → α) (z : α) (t : Nat) (x y : List α) (b : Nat)
    (inv : BlockInv F G z t x y b) (hk : b*(2*t) + 2*t ≤ x.length) :
    BlockInv F G z t x (bfly (F b) (G b) z t t (b*(2*t)) y) (b+1) := by
  obtain ⟨hl, hy⟩ := inv
  obtain ⟨rl, rp⟩ := bfly_spec (F b) (G b) z t t (b*(2*t)) y (Nat.le_refl _) (by omega)
  refine ⟨by rw [rl, hl], fun idx => ?_⟩
  rw [rp idx]
  have hk1 : (b+1)*(2*t) = b*(2*t) + 2*t := by rw [Nat.add_mul]; omega
  have md : ∀ r, r < 2*t → (b*(2*t) + r) % (2*t) = r := fun r hr => blk_mod b t r hr
  have dv : ∀ r, r < 2*t → (b*(2*t) + r) / (2*t) = b := fun r hr => blk_div b t r hr
  generalize hkk : b*(2*t) = k at *
  by_cases c0 : idx < k
  · have c1 : ¬ (k ≤ idx ∧ idx < k + t) := by omega
    have c2 : ¬ (k + t ≤ idx ∧ idx < k + t + t) := by omega
    rw [if_neg c1, if_neg c2, hy idx, if_pos c0, if_pos (by omega)]
  · by_cases c1 : k ≤ idx ∧ idx < k + t
    · obtain ⟨r, rfl⟩ := Nat.exists_eq_add_of_le c1.1
      have hr : r < t := by omega
      have e1 : y.getD (k + r) z = x.getD (k + r) z := getD_of_getElem?_eq (by rw [hy, if_neg (by omega)]) _
      have e2 : y.getD (k + r + t) z = x.getD (k + r + t) z := getD_of_getElem?_eq (by rw [hy, if_neg (by omega)]) _
      rw [if_pos c1, if_pos (by omega), e1, e2, stageAt, md r (by omega), dv r (by omega), if_pos hr]
    · by_cases c2 : k + t ≤ idx ∧ idx < k + t + t
      · obtain ⟨r, rfl⟩ := Nat.exists_eq_add_of_le c2.1
        have hr : r < t := by omega
        have e1 : y.getD (k + t + r - t) z = x.getD (k + t + r - t) z :=
          getD_of_getElem?_eq (by rw [hy, if_neg (by omega)]) _
        have e2 : y.getD (k + t + r) z = x.getD (k + t + r) z := getD_of_getElem?_eq (by rw [hy, if_neg (by omega)]) _
        have m1 : (k + t + r) % (2*t) = t + r := by rw [Nat.add_assoc]; exact md (t + r) (by omega)
        have d1 : (k + t + r) / (2*t) = b := by rw [Nat.add_assoc]; exact dv (t + r) (by omega)
        rw [if_neg c1, if_pos c2, if_pos (by omega), e1, e2, stageAt, m1, d1, if_neg (by omega)]
      · rw [if_neg c1, if_neg c2, hy idx, if_neg c0, if_neg (by omega)]

/-- after all blocks, the array is the stage formula everywhere -/
theorem blockInv_full (F G : Nat → α → α → α) (z : α) (t : Nat) (x y : List α) (B : Nat) (hlen : x.length = B*(2*t))
    (h : BlockInv F G z t x y B) (w : List α) (hwl : w.length = x.length)
    (hw : ∀ idx, idx < x.length → w[idx]? = some (stageAt F G z t x idx)) : y = w := by
  apply List.ext_getElem?
  intro idx
  by_cases hi : idx < x.length
  · rw [h.2 idx, if_pos (by omega), hw idx hi]
  · rw [List.getElem?_eq_none (by rw [h.1]; omega), List.getElem?_eq_none (by rw [hwl]; omega)]

/-! ### `coset_ntt_noswap_64`: the block loop `for i in 0..m` -/

/-- the butterflies of block `b` of a forward stage: `zeta = psi[m + b]` -/
def nttF (ops : Ops σ α) (psi : List σ) (m b : Nat) : α → α → α :=
  fun u v => ops.add u (ops.scale (psi.getD (m + b) ops.szero) v)
def nttG (ops : Ops σ α) (psi : List σ) (m b : Nat) : α → α → α :=
  fun u v => ops.sub u (ops.scale (psi.getD (m + b) ops.szero) v)

theorem mul_two_t (b t : Nat) : b * t * 2 = b * (2 * t) := by rw [Nat.mul_assoc, Nat.mul_comm t 2]

theorem blk_le (b r B t : Nat) (hb : b + (r + 1) = B) : b*(2*t) + 2*t ≤ B*(2*t) := by
  have : (b+1)*(2*t) ≤ B*(2*t) := Nat.mul_le_mul_right _ (by omega)
  rw [Nat.add_mul] at this; omega

theorem ntt_for2_eq (ops : Ops σ α) (psi : List σ) (m t : Nat) (ht : 0 < t) (x : List α) (hlen : x.length = m*(2*t))
    (hU : x.length < 9223372036854775808) (hpsi : 2*m ≤ psi.length) :
    ∀ r b (y : List α), b + r = m → BlockInv (nttF ops psi m) (nttG ops psi m) ops.zero t x y b →
    BlockInv (nttF ops psi m) (nttG ops psi m) ops.zero t x (Loops.lat_coset_ntt_noswap_64_for2 ops psi m t r b y) m ∧
    Loops.lat_coset_ntt_noswap_64_for2_ok ops psi m t r b y = true := by
  intro r
  induction r with
  | zero =>
    intro b y hb inv
    have : b = m := by omega
    subst this
    exact ⟨inv, rfl⟩
  | succ r ih =>
    intro b y hb inv
    have hk : b*(2*t) + 2*t ≤ x.length := by rw [hlen]; exact blk_le b r m t hb
    have hmle : m ≤ x.length := by
      rw [hlen]; exact Nat.le_mul_of_pos_right m (by omega)
    have hbt : b * t * 2 = b * (2 * t) := mul_two_t b t
    have c1 : b * t < 18446744073709551616 := by omega
    have e1 : (b * t) % 18446744073709551616 = b * t := Nat.mod_eq_of_lt c1
    have c2 : b * t * 2 < 18446744073709551616 := by omega
    have e2 : (b * t * 2) % 18446744073709551616 = b * (2 * t) := by rw [hbt]; exact Nat.mod_eq_of_lt (by omega)
    have c3 : m + b < 18446744073709551616 := by omega
    have e3 : (m + b) % 18446744073709551616 = m + b := Nat.mod_eq_of_lt c3
    have c4 : m + b < psi.length := by omega
    have c5 : b * (2 * t) + t < 18446744073709551616 := by omega
    have e5 : (b * (2 * t) + t) % 18446744073709551616 - b * (2 * t) = t := by rw [Nat.mod_eq_of_lt c5]; omega
    obtain ⟨e, ok⟩ := ntt_for3_eq ops t (psi.getD (m + b) ops.szero) t (b*(2*t)) y (by rw [inv.1]; omega)
      (by rw [inv.1]; omega)
    have inv' := blockInv_step (nttF ops psi m) (nttG ops psi m) ops.zero t x y b inv hk
    obtain ⟨i1, i2⟩ := ih (b+1) _ (by omega) inv'
    constructor
    · simp only [Loops.lat_coset_ntt_noswap_64_for2, e1, e2, e3, e5, e]; exact i1
    · simp only [Loops.lat_coset_ntt_noswap_64_for2_ok, e1, e2, e3, e5, e, ok, c1, c2, c3, c4, c5, decide_true,
        Bool.and_self, Bool.true_and]; exact i2

/-- the model's functional forward stage is `stageAt` at every position -/
theorem nttStage_toList (ops : Ops σ α) (psi : List σ) (m t : Nat) (a : Array α) :
    (cosetNttStage ops m t psi.toArray a).toList.length = a.toList.length ∧
    ∀ idx, idx < a.toList.length → (cosetNttStage ops m t psi.toArray a).toList[idx]?
      = some (stageAt (nttF ops psi m) (nttG ops psi m) ops.zero t a.toList idx) := by
  constructor
  · simp [cosetNttStage]
  · intro idx hi
    have hi' : idx < a.size := by simpa using hi
    simp only [Array.getElem?_toList, cosetNttStage, Array.getElem?_ofFn, hi', dite_true, stageAt, nttF, nttG,
      Array.getD_eq_getD_getElem?, List.getD_eq_getElem?_getD, List.getElem?_toArray]


/-- **one forward stage**: the in-place block loop over `m` blocks of size `2t` = the model's `cosetNttStage` -/
theorem ntt_stage_eq (ops : Ops σ α) (psi : List σ) (m t : Nat) (ht : 0 < t) (a : Array α) (hlen : a.size = m*(2*t))
    (hU : a.size < 9223372036854775808) (hpsi : 2*m ≤ psi.length) :
    Loops.lat_coset_ntt_noswap_64_for2 ops psi m t m 0 a.toList = (cosetNttStage ops m t psi.toArray a).toList ∧
    Loops.lat_coset_ntt_noswap_64_for2_ok ops psi m t m 0 a.toList = true := by
  have hl : a.toList.length = m*(2*t) := by simpa using hlen
  obtain ⟨i1, i2⟩ := ntt_for2_eq ops psi m t ht a.toList hl (by rw [hl, ← hlen]; exact hU) hpsi m 0 a.toList (by omega)
    (blockInv_zero _ _ _ _ _)
  obtain ⟨sl, sp⟩ := nttStage_toList ops psi m t a
  exact ⟨blockInv_full _ _ _ t a.toList _ m hl i1 _ sl sp, i2⟩

/-- one evaluation of the `while m < N` loop body -/
theorem ntt_loop_step (ops : Ops σ α) (psi : List σ) (N m t f : Nat) (a : Array α) (hmN : m < N) (ht : 0 < t/2)
    (hlen : a.size = m*(2*(t/2))) (hU : a.size < 9223372036854775808) (hpsi : 2*m ≤ psi.length) :
    Loops.lat_coset_ntt_noswap_64_loop ops N psi (f+1) a.toList m t
      = Loops.lat_coset_ntt_noswap_64_loop ops N psi f (cosetNttStage ops m (t/2) psi.toArray a).toList (2*m) (t/2) ∧
    Loops.lat_coset_ntt_noswap_64_loop_ok ops N psi (f+1) a.toList m t
      = Loops.lat_coset_ntt_noswap_64_loop_ok ops N psi f (cosetNttStage ops m (t/2) psi.toArray a).toList (2*m) (t/2) := by
  obtain ⟨e, ok⟩ := ntt_stage_eq ops psi m (t/2) ht a hlen hU hpsi
  have hmle : m ≤ a.size := by rw [hlen]; exact Nat.le_mul_of_pos_right m (by omega)
  have c1 : m * 2 < 18446744073709551616 := by omega
  have e1 : (m * 2) % 18446744073709551616 = 2 * m := by rw [Nat.mod_eq_of_lt c1]; omega
  constructor
  · simp only [Loops.lat_coset_ntt_noswap_64_loop, hmN, decide_true, if_true, Nat.sub_zero, e, e1]
  · simp only [Loops.lat_coset_ntt_noswap_64_loop_ok, hmN, decide_true, if_true, Nat.sub_zero, e, ok, e1, c1,
      Bool.true_and]

/-! ### `coset_ntt_noswap_64` -/

/-- the table literal of the function body is the regenerated table `PSI_POWERS_BITREVERSED` (written by another code path
    of the translator) mapped through `BFieldElement::new`; `N = 64`, initial `m = 1`, `t = N`, fuel 8 -/
theorem ntt_unfold (ops : Ops σ α) (x : List α) :
    Loops.lat_coset_ntt_noswap_64 ops x
      = (Loops.lat_coset_ntt_noswap_64_loop ops 64 (PSI_POWERS_BITREVERSED.map ops.sofNat) 8 x 1 64).bind
          (fun r => some r.1) := rfl

theorem ntt_ok_unfold (ops : Ops σ α) (x : List α) :
    Loops.lat_coset_ntt_noswap_64_ok ops x
      = Loops.lat_coset_ntt_noswap_64_loop_ok ops 64 (PSI_POWERS_BITREVERSED.map ops.sofNat) 8 x 1 64 := rfl

theorem psi_len (ops : Ops σ α) : (PSI_POWERS_BITREVERSED.map ops.sofNat).length = 64 := by
  rw [List.length_map]; decide

theorem nttStage_size (ops : Ops σ α) (m t : Nat) (psi : Array σ) (a : Array α) : (cosetNttStage ops m t psi a).size = a.size := by
  simp [cosetNttStage]

/-- the model's loop, unrolled: six stages `(m, t) = (1,32), (2,16), (4,8), (8,4), (16,2), (32,1)` -/
theorem cosetNtt_unroll (ops : Ops σ α) (psi : Array σ) (x : Array α) :
    cosetNtt ops psi x = cosetNttStage ops 32 1 psi (cosetNttStage ops 16 2 psi (cosetNttStage ops 8 4 psi
      (cosetNttStage ops 4 8 psi (cosetNttStage ops 2 16 psi (cosetNttStage ops 1 32 psi x))))) := by
  simp [cosetNtt, cosetNttLoop, LATTICE_N]

/-- **`coset_ntt_noswap_64` regenerated from source = the model**, for every operation record and every array of length
    64: the `while m < N` loop finishes within its fuel, no index is out of range, no index arithmetic overflows, and the
    result is the model's `cosetNtt` with the table `PSI_POWERS_BITREVERSED.map ops.sofNat` -/
theorem gen_coset_ntt_eq (ops : Ops σ α) (x : Array α) (hx : x.size = 64) :
    Loops.lat_coset_ntt_noswap_64 ops x.toList
      = some (cosetNtt ops (PSI_POWERS_BITREVERSED.map ops.sofNat).toArray x).toList ∧
    Loops.lat_coset_ntt_noswap_64_ok ops x.toList = true := by
  have hp := psi_len ops
  generalize hpsi : PSI_POWERS_BITREVERSED.map ops.sofNat = psi at hp
  have sz : ∀ m t (a : Array α), a.size = 64 → (cosetNttStage ops m t psi.toArray a).size = 64 :=
    fun m t a h => by rw [nttStage_size, h]
  have s1 := ntt_loop_step ops psi 64 1 64 7 x (by decide) (by decide) (by rw [hx]) (by rw [hx]; decide) (by rw [hp]; decide)
  simp only [Nat.reduceMul, Nat.reduceDiv, Nat.reduceAdd] at s1
  have z1 := sz 1 32 x hx
  have s2 := ntt_loop_step ops psi 64 2 32 6 _ (by decide) (by decide) (by rw [z1]) (by rw [z1]; decide) (by rw [hp]; decide)
  simp only [Nat.reduceMul, Nat.reduceDiv, Nat.reduceAdd] at s2
  have z2 := sz 2 16 _ z1
  have s3 := ntt_loop_step ops psi 64 4 16 5 _ (by decide) (by decide) (by rw [z2]) (by rw [z2]; decide) (by rw [hp]; decide)
  simp only [Nat.reduceMul, Nat.reduceDiv, Nat.reduceAdd] at s3
  have z3 := sz 4 8 _ z2
  have s4 := ntt_loop_step ops psi 64 8 8 4 _ (by decide) (by decide) (by rw [z3]) (by rw [z3]; decide) (by rw [hp]; decide)
  simp only [Nat.reduceMul, Nat.reduceDiv, Nat.reduceAdd] at s4
  have z4 := sz 8 4 _ z3
  have s5 := ntt_loop_step ops psi 64 16 4 3 _ (by decide) (by decide) (by rw [z4]) (by rw [z4]; decide) (by rw [hp]; decide)
  simp only [Nat.reduceMul, Nat.reduceDiv, Nat.reduceAdd] at s5
  have z5 := sz 16 2 _ z4
  have s6 := ntt_loop_step ops psi 64 32 2 2 _ (by decide) (by decide) (by rw [z5]) (by rw [z5]; decide) (by rw [hp]; decide)
  simp only [Nat.reduceMul, Nat.reduceDiv, Nat.reduceAdd] at s6
  constructor
  · rw [ntt_unfold, hpsi, s1.1, s2.1, s3.1, s4.1, s5.1, s6.1, cosetNtt_unroll]
    simp only [Loops.lat_coset_ntt_noswap_64_loop, Nat.lt_irrefl, decide_false, Bool.false_eq_true, if_false,
      Option.bind_some]
  · rw [ntt_ok_unfold, hpsi, s1.2, s2.2, s3.2, s4.2, s5.2, s6.2]
    simp only [Loops.lat_coset_ntt_noswap_64_loop_ok, Nat.lt_irrefl, decide_false, Bool.false_eq_true, if_false]

/-! ### `coset_intt_noswap_64`: the block loop `for i in 0..h { ..; k += 2 * t }` -/

/-- the butterflies of block `b` of an inverse stage: `zeta = psi_inv[h + b]` -/
def inttF (ops : Ops σ α) (_psi : List σ) (_h _b : Nat) : α → α → α := fun u v => ops.add u v
def inttG (ops : Ops σ α) (psi : List σ) (h b : Nat) : α → α → α :=
  fun u v => ops.scale (psi.getD (h + b) ops.szero) (ops.sub u v)

theorem intt_for2_eq (ops : Ops σ α) (psi : List σ) (h t : Nat) (ht : 0 < t) (x : List α) (hlen : x.length = h*(2*t))
    (hU : x.length < 9223372036854775808) (hpsi : 2*h ≤ psi.length) :
    ∀ r b (y : List α), b + r = h → BlockInv (inttF ops psi h) (inttG ops psi h) ops.zero t x y b →
    BlockInv (inttF ops psi h) (inttG ops psi h) ops.zero t x
      (Loops.lat_coset_intt_noswap_64_for2 ops psi t h r b y (b*(2*t))).1 h ∧
    Loops.lat_coset_intt_noswap_64_for2_ok ops psi t h r b y (b*(2*t)) = true := by
  intro r
  induction r with
  | zero =>
    intro b y hb inv
    have : b = h := by omega
    subst this
    exact ⟨inv, rfl⟩
  | succ r ih =>
    intro b y hb inv
    have hk : b*(2*t) + 2*t ≤ x.length := by rw [hlen]; exact blk_le b r h t hb
    have hmle : h ≤ x.length := by
      rw [hlen]; exact Nat.le_mul_of_pos_right h (by omega)
    have c3 : h + b < 18446744073709551616 := by omega
    have e3 : (h + b) % 18446744073709551616 = h + b := Nat.mod_eq_of_lt c3
    have c4 : h + b < psi.length := by omega
    have c5 : b * (2 * t) + t < 18446744073709551616 := by omega
    have e5 : (b * (2 * t) + t) % 18446744073709551616 - b * (2 * t) = t := by rw [Nat.mod_eq_of_lt c5]; omega
    have c6 : 2 * t < 18446744073709551616 := by omega
    have e6 : (2 * t) % 18446744073709551616 = 2 * t := Nat.mod_eq_of_lt c6
    have c7 : b * (2 * t) + 2 * t < 18446744073709551616 := by omega
    have e7 : (b * (2 * t) + 2 * t) % 18446744073709551616 = (b + 1) * (2 * t) := by
      rw [Nat.mod_eq_of_lt c7, Nat.add_mul]; omega
    obtain ⟨e, ok⟩ := intt_for3_eq ops t (psi.getD (h + b) ops.szero) t (b*(2*t)) y (by rw [inv.1]; omega)
      (by rw [inv.1]; omega)
    have inv' := blockInv_step (inttF ops psi h) (inttG ops psi h) ops.zero t x y b inv hk
    obtain ⟨i1, i2⟩ := ih (b+1) _ (by omega) inv'
    constructor
    · simp only [Loops.lat_coset_intt_noswap_64_for2, e3, e5, e6, e7, e]; exact i1
    · simp only [Loops.lat_coset_intt_noswap_64_for2_ok, e3, e5, e6, e7, e, ok, c3, c4, c5, c6, c7, decide_true,
        Bool.and_self, Bool.true_and]; exact i2

/-- the model's functional inverse stage is `stageAt` at every position -/
theorem inttStage_toList (ops : Ops σ α) (psi : List σ) (h t : Nat) (a : Array α) :
    (cosetInttStage ops h t psi.toArray a).toList.length = a.toList.length ∧
    ∀ idx, idx < a.toList.length → (cosetInttStage ops h t psi.toArray a).toList[idx]?
      = some (stageAt (inttF ops psi h) (inttG ops psi h) ops.zero t a.toList idx) := by
  constructor
  · simp [cosetInttStage]
  · intro idx hi
    have hi' : idx < a.size := by simpa using hi
    simp only [Array.getElem?_toList, cosetInttStage, Array.getElem?_ofFn, hi', dite_true, stageAt, inttF, inttG,
      Array.getD_eq_getD_getElem?, List.getD_eq_getElem?_getD, List.getElem?_toArray]

/-- **one inverse stage**: the in-place block loop over `h` blocks of size `2t` = the model's `cosetInttStage` -/
theorem intt_stage_eq (ops : Ops σ α) (psi : List σ) (h t : Nat) (ht : 0 < t) (a : Array α) (hlen : a.size = h*(2*t))
    (hU : a.size < 9223372036854775808) (hpsi : 2*h ≤ psi.length) :
    (Loops.lat_coset_intt_noswap_64_for2 ops psi t h h 0 a.toList 0).1 = (cosetInttStage ops h t psi.toArray a).toList ∧
    Loops.lat_coset_intt_noswap_64_for2_ok ops psi t h h 0 a.toList 0 = true := by
  have hl : a.toList.length = h*(2*t) := by simpa using hlen
  obtain ⟨i1, i2⟩ := intt_for2_eq ops psi h t ht a.toList hl (by rw [hl, ← hlen]; exact hU) hpsi h 0 a.toList (by omega)
    (blockInv_zero _ _ _ _ _)
  rw [Nat.zero_mul] at i1 i2
  obtain ⟨sl, sp⟩ := inttStage_toList ops psi h t a
  exact ⟨blockInv_full _ _ _ t a.toList _ h hl i1 _ sl sp, i2⟩

/-- one iteration of `for _ in 0..LOGN { ..; t *= 2; h >>= 1 }` -/
theorem intt_for_step (ops : Ops σ α) (psi : List σ) (n it t h : Nat) (a : Array α) (ht : 0 < t) (hh : 0 < h)
    (hlen : a.size = h*(2*t)) (hU : a.size < 9223372036854775808) (hpsi : 2*h ≤ psi.length) :
    Loops.lat_coset_intt_noswap_64_for ops psi (n+1) it a.toList t h
      = Loops.lat_coset_intt_noswap_64_for ops psi n (it+1) (cosetInttStage ops h t psi.toArray a).toList (2*t) (h/2) ∧
    Loops.lat_coset_intt_noswap_64_for_ok ops psi (n+1) it a.toList t h
      = Loops.lat_coset_intt_noswap_64_for_ok ops psi n (it+1) (cosetInttStage ops h t psi.toArray a).toList (2*t) (h/2) := by
  obtain ⟨e, ok⟩ := intt_stage_eq ops psi h t ht a hlen hU hpsi
  have c1 : t * 2 < 18446744073709551616 := by
    have : 1 * (2*t) ≤ h * (2*t) := Nat.mul_le_mul_right _ hh
    omega
  have e1 : (t * 2) % 18446744073709551616 = 2 * t := by rw [Nat.mod_eq_of_lt c1]; omega
  constructor
  · simp only [Loops.lat_coset_intt_noswap_64_for, Nat.sub_zero, e, e1]
  · simp only [Loops.lat_coset_intt_noswap_64_for_ok, Nat.sub_zero, e, ok, e1, c1, decide_true, Bool.true_and]

/-! ### the final scaling loop `for a in array.iter_mut() { *a *= N_INV }` -/

theorem scale_for4_spec (ops : Ops σ α) (c : σ) : ∀ n ix (y : List α), ix + n ≤ y.length →
    (Loops.lat_coset_intt_noswap_64_for4 ops c n ix y).length = y.length ∧
    (∀ idx, (Loops.lat_coset_intt_noswap_64_for4 ops c n ix y)[idx]? =
      if ix ≤ idx ∧ idx < ix + n then some (ops.scale c (y.getD idx ops.zero)) else y[idx]?) ∧
    Loops.lat_coset_intt_noswap_64_for4_ok ops c n ix y = true := by
  intro n
  induction n with
  | zero =>
    intro ix y _
    refine ⟨rfl, fun idx => ?_, rfl⟩
    have c1 : ¬ (ix ≤ idx ∧ idx < ix + 0) := by omega
    rw [if_neg c1]; rfl
  | succ n ih =>
    intro ix y hlen
    have hix : ix < y.length := by omega
    obtain ⟨il, ip, iok⟩ := ih (ix + 1) (y.set ix (ops.scale c (y.getD ix ops.zero))) (by simp only [List.length_set]; omega)
    refine ⟨by simp only [Loops.lat_coset_intt_noswap_64_for4, il, List.length_set], fun idx => ?_, ?_⟩
    · simp only [Loops.lat_coset_intt_noswap_64_for4]
      rw [ip idx]
      by_cases e1 : idx = ix
      · subst e1
        have c1 : ¬ (idx + 1 ≤ idx ∧ idx < idx + 1 + n) := by omega
        have c2 : idx ≤ idx ∧ idx < idx + (n + 1) := by omega
        rw [if_neg c1, if_pos c2, List.getElem?_set_self hix]
      · by_cases r1 : ix + 1 ≤ idx ∧ idx < ix + 1 + n
        · have c2 : ix ≤ idx ∧ idx < ix + (n + 1) := by omega
          rw [if_pos r1, if_pos c2, List.getD_eq_getElem?_getD, List.getElem?_set_ne (Ne.symm e1), ← List.getD_eq_getElem?_getD]
        · have c2 : ¬ (ix ≤ idx ∧ idx < ix + (n + 1)) := by omega
          rw [if_neg r1, if_neg c2, List.getElem?_set_ne (Ne.symm e1)]
    · simp only [Loops.lat_coset_intt_noswap_64_for4_ok, hix, decide_true, Bool.and_self, iok]

/-- the scaling loop over the whole array is `map (· * N_INV)`; no index is out of range -/
theorem scale_for4_eq (ops : Ops σ α) (c : σ) (a : Array α) :
    Loops.lat_coset_intt_noswap_64_for4 ops c a.toList.length 0 a.toList = (a.map (ops.scale c)).toList ∧
    Loops.lat_coset_intt_noswap_64_for4_ok ops c a.toList.length 0 a.toList = true := by
  obtain ⟨l, p, ok⟩ := scale_for4_spec ops c a.toList.length 0 a.toList (by omega)
  refine ⟨?_, ok⟩
  apply List.ext_getElem?
  intro idx
  rw [p idx, Array.toList_map, List.getElem?_map]
  by_cases hi : idx < a.toList.length
  · rw [if_pos (by omega), List.getElem?_eq_getElem hi, List.getD_eq_getElem?_getD, List.getElem?_eq_getElem hi]; rfl
  · rw [if_neg (by omega), List.getElem?_eq_none (by omega)]; rfl

/-! ### `coset_intt_noswap_64` -/

/-- the table literal and `N_INV` of the function body are the regenerated `PSI_INV_POWERS_BITREVERSED`, `LATTICE_N_INV`
    mapped through `BFieldElement::new`; `LOGN = 6`, initial `t = 1`, `h = N / 2` -/
theorem intt_unfold (ops : Ops σ α) (x : List α) :
    Loops.lat_coset_intt_noswap_64 ops x
      = Loops.lat_coset_intt_noswap_64_for4 ops (ops.sofNat LATTICE_N_INV)
          ((Loops.lat_coset_intt_noswap_64_for ops (PSI_INV_POWERS_BITREVERSED.map ops.sofNat) (6 - 0) 0 x 1 (64 / 2)).1.length - 0) 0
          (Loops.lat_coset_intt_noswap_64_for ops (PSI_INV_POWERS_BITREVERSED.map ops.sofNat) (6 - 0) 0 x 1 (64 / 2)).1 := rfl

theorem intt_ok_unfold (ops : Ops σ α) (x : List α) :
    Loops.lat_coset_intt_noswap_64_ok ops x
      = ((2 != 0) && (Loops.lat_coset_intt_noswap_64_for_ok ops (PSI_INV_POWERS_BITREVERSED.map ops.sofNat) (6 - 0) 0 x 1 (64 / 2) &&
          Loops.lat_coset_intt_noswap_64_for4_ok ops (ops.sofNat LATTICE_N_INV)
            ((Loops.lat_coset_intt_noswap_64_for ops (PSI_INV_POWERS_BITREVERSED.map ops.sofNat) (6 - 0) 0 x 1 (64 / 2)).1.length - 0) 0
            (Loops.lat_coset_intt_noswap_64_for ops (PSI_INV_POWERS_BITREVERSED.map ops.sofNat) (6 - 0) 0 x 1 (64 / 2)).1)) := rfl

theorem psi_inv_len (ops : Ops σ α) : (PSI_INV_POWERS_BITREVERSED.map ops.sofNat).length = 64 := by
  rw [List.length_map]; decide

theorem inttStage_size (ops : Ops σ α) (h t : Nat) (psi : Array σ) (a : Array α) : (cosetInttStage ops h t psi a).size = a.size := by
  simp [cosetInttStage]

/-- the model's loop, unrolled: six stages `(h, t) = (32,1), (16,2), (8,4), (4,8), (2,16), (1,32)`, then the scaling -/
theorem cosetIntt_unroll (ops : Ops σ α) (psi : Array σ) (ninv : σ) (x : Array α) :
    cosetIntt ops psi ninv x = (cosetInttStage ops 1 32 psi (cosetInttStage ops 2 16 psi (cosetInttStage ops 4 8 psi
      (cosetInttStage ops 8 4 psi (cosetInttStage ops 16 2 psi (cosetInttStage ops 32 1 psi x)))))).map (ops.scale ninv) := by
  simp [cosetIntt, cosetInttLoop, LATTICE_N]

/-- **`coset_intt_noswap_64` regenerated from source = the model**, for every operation record and every array of length
    64: no index is out of range, no index arithmetic overflows, and the result is the model's `cosetIntt` with the table
    `PSI_INV_POWERS_BITREVERSED.map ops.sofNat` and the scalar `ops.sofNat LATTICE_N_INV` -/
theorem gen_coset_intt_eq (ops : Ops σ α) (x : Array α) (hx : x.size = 64) :
    Loops.lat_coset_intt_noswap_64 ops x.toList
      = (cosetIntt ops (PSI_INV_POWERS_BITREVERSED.map ops.sofNat).toArray (ops.sofNat LATTICE_N_INV) x).toList ∧
    Loops.lat_coset_intt_noswap_64_ok ops x.toList = true := by
  have hp := psi_inv_len ops
  generalize hpsi : PSI_INV_POWERS_BITREVERSED.map ops.sofNat = psi at hp
  have sz : ∀ h t (a : Array α), a.size = 64 → (cosetInttStage ops h t psi.toArray a).size = 64 :=
    fun h t a hh => by rw [inttStage_size, hh]
  have s1 := intt_for_step ops psi 5 0 1 32 x (by decide) (by decide) (by rw [hx]) (by rw [hx]; decide) (by rw [hp]; decide)
  simp only [Nat.reduceMul, Nat.reduceDiv, Nat.reduceAdd] at s1
  have z1 := sz 32 1 x hx
  have s2 := intt_for_step ops psi 4 1 2 16 _ (by decide) (by decide) (by rw [z1]) (by rw [z1]; decide) (by rw [hp]; decide)
  simp only [Nat.reduceMul, Nat.reduceDiv, Nat.reduceAdd] at s2
  have z2 := sz 16 2 _ z1
  have s3 := intt_for_step ops psi 3 2 4 8 _ (by decide) (by decide) (by rw [z2]) (by rw [z2]; decide) (by rw [hp]; decide)
  simp only [Nat.reduceMul, Nat.reduceDiv, Nat.reduceAdd] at s3
  have z3 := sz 8 4 _ z2
  have s4 := intt_for_step ops psi 2 3 8 4 _ (by decide) (by decide) (by rw [z3]) (by rw [z3]; decide) (by rw [hp]; decide)
  simp only [Nat.reduceMul, Nat.reduceDiv, Nat.reduceAdd] at s4
  have z4 := sz 4 8 _ z3
  have s5 := intt_for_step ops psi 1 4 16 2 _ (by decide) (by decide) (by rw [z4]) (by rw [z4]; decide) (by rw [hp]; decide)
  simp only [Nat.reduceMul, Nat.reduceDiv, Nat.reduceAdd] at s5
  have z5 := sz 2 16 _ z4
  have s6 := intt_for_step ops psi 0 5 32 1 _ (by decide) (by decide) (by rw [z5]) (by rw [z5]; decide) (by rw [hp]; decide)
  simp only [Nat.reduceMul, Nat.reduceDiv, Nat.reduceAdd] at s6
  have hfor : Loops.lat_coset_intt_noswap_64_for ops psi 6 0 x.toList 1 32
      = ((cosetInttStage ops 1 32 psi.toArray (cosetInttStage ops 2 16 psi.toArray (cosetInttStage ops 4 8 psi.toArray
        (cosetInttStage ops 8 4 psi.toArray (cosetInttStage ops 16 2 psi.toArray (cosetInttStage ops 32 1 psi.toArray x)))))).toList,
        64, 0) := by
    rw [s1.1, s2.1, s3.1, s4.1, s5.1, s6.1]; rfl
  have hforok : Loops.lat_coset_intt_noswap_64_for_ok ops psi 6 0 x.toList 1 32 = true := by
    rw [s1.2, s2.2, s3.2, s4.2, s5.2, s6.2]; rfl
  obtain ⟨e4, ok4⟩ := scale_for4_eq ops (ops.sofNat LATTICE_N_INV) (cosetInttStage ops 1 32 psi.toArray
    (cosetInttStage ops 2 16 psi.toArray (cosetInttStage ops 4 8 psi.toArray (cosetInttStage ops 8 4 psi.toArray
    (cosetInttStage ops 16 2 psi.toArray (cosetInttStage ops 32 1 psi.toArray x))))))
  constructor
  · rw [intt_unfold, hpsi]
    simp only [Nat.sub_zero, Nat.reduceDiv]
    rw [hfor, cosetIntt_unroll]; exact e4
  · rw [intt_ok_unfold, hpsi]
    simp only [Nat.sub_zero, Nat.reduceDiv]
    rw [hfor, hforok, ok4]; rfl

/-! ### the canonical-value instance: the tables are the regenerated constants -/

theorem psi_bOps : (PSI_POWERS_BITREVERSED.map (bOps.sofNat)).toArray = psi := by
  have h : PSI_POWERS_BITREVERSED.map (bOps.sofNat) = PSI_POWERS_BITREVERSED := by decide +kernel
  rw [h]; rfl

theorem psiInv_bOps : (PSI_INV_POWERS_BITREVERSED.map (bOps.sofNat)).toArray = psiInv := by
  have h : PSI_INV_POWERS_BITREVERSED.map (bOps.sofNat) = PSI_INV_POWERS_BITREVERSED := by decide +kernel
  rw [h]; rfl

theorem nInv_bOps : bOps.sofNat LATTICE_N_INV = LATTICE_N_INV := by decide +kernel

/-- on canonical values the regenerated forward transform is the model's `ntt64` -/
theorem gen_ntt64 (x : Ring) (hx : x.size = 64) :
    Loops.lat_coset_ntt_noswap_64 bOps x.toList = some (ntt64 x).toList ∧
    Loops.lat_coset_ntt_noswap_64_ok bOps x.toList = true := by
  have := gen_coset_ntt_eq bOps x hx
  rw [psi_bOps] at this
  exact this

/-- on canonical values the regenerated inverse transform is the model's `intt64` -/
theorem gen_intt64 (x : Ring) (hx : x.size = 64) :
    Loops.lat_coset_intt_noswap_64 bOps x.toList = (intt64 x).toList ∧
    Loops.lat_coset_intt_noswap_64_ok bOps x.toList = true := by
  have := gen_coset_intt_eq bOps x hx
  rw [psiInv_bOps, nInv_bOps] at this
  exact this

/-! ### `embed_msg` -/

/-- the two bit loops read the message only through the byte `msg[i]` -/
theorem embed_for2_congr (msg : List Nat) (i : Nat) (hi : i < msg.length) : ∀ n j acc,
    Loops.lat_embed_msg_for2 msg i n j acc = Loops.lat_embed_msg_for2 [msg.getD i 0] 0 n j acc ∧
    Loops.lat_embed_msg_for2_ok msg i n j acc = Loops.lat_embed_msg_for2_ok [msg.getD i 0] 0 n j acc := by
  intro n
  induction n with
  | zero => intros; exact ⟨rfl, rfl⟩
  | succ n ih =>
    intro j acc
    constructor
    · simp only [Loops.lat_embed_msg_for2, List.getD_cons_zero, (ih _ _).1]
    · simp only [Loops.lat_embed_msg_for2_ok, List.getD_cons_zero, (ih _ _).2, hi, List.length_singleton, Nat.zero_lt_one]

theorem embed_for3_congr (msg : List Nat) (i : Nat) (hi : i < msg.length) : ∀ n j acc,
    Loops.lat_embed_msg_for3 msg i n j acc = Loops.lat_embed_msg_for3 [msg.getD i 0] 0 n j acc ∧
    Loops.lat_embed_msg_for3_ok msg i n j acc = Loops.lat_embed_msg_for3_ok [msg.getD i 0] 0 n j acc := by
  intro n
  induction n with
  | zero => intros; exact ⟨rfl, rfl⟩
  | succ n ih =>
    intro j acc
    constructor
    · simp only [Loops.lat_embed_msg_for3, List.getD_cons_zero, (ih _ _).1]
    · simp only [Loops.lat_embed_msg_for3_ok, List.getD_cons_zero, (ih _ _).2, hi, List.length_singleton, Nat.zero_lt_one]

/-- all 256 bytes: the two bit loops compute the model's nibbles (values `< 2^63 + 2^47 + 2^31 + 2^15 < P`, so
    `BFieldElement::new` does not reduce), nothing overflows, every shift amount is in range (decided by the kernel) -/
theorem embed_byte_table : ∀ b, b < 256 →
    Loops.lat_embed_msg_for2 [b] 0 4 0 0 % P = embedNibble b 0 ∧ Loops.lat_embed_msg_for2_ok [b] 0 4 0 0 = true ∧
    Loops.lat_embed_msg_for3 [b] 0 4 0 0 % P = embedNibble b 4 ∧ Loops.lat_embed_msg_for3_ok [b] 0 4 0 0 = true := by
  decide +kernel

/-- the value the model puts at position `idx` -/
def embedAt (msg : List Nat) (idx : Nat) : Nat := embedNibble (msg.getD (idx / 2) 0) (if idx % 2 = 0 then 0 else 4)

theorem embed_for_spec (msg : List Nat) (hb : ∀ b ∈ msg, b < 256) : ∀ n i (emb : List Nat),
    i + n ≤ msg.length → 2 * msg.length ≤ emb.length → emb.length < 9223372036854775808 →
    (Loops.lat_embed_msg_for msg n i emb).length = emb.length ∧
    (∀ idx, (Loops.lat_embed_msg_for msg n i emb)[idx]? =
      if 2 * i ≤ idx ∧ idx < 2 * (i + n) then some (embedAt msg idx) else emb[idx]?) ∧
    Loops.lat_embed_msg_for_ok msg n i emb = true := by
  intro n
  induction n with
  | zero =>
    intro i emb _ _ _
    refine ⟨rfl, fun idx => ?_, rfl⟩
    have c1 : ¬ (2 * i ≤ idx ∧ idx < 2 * (i + 0)) := by omega
    rw [if_neg c1]; rfl
  | succ n ih =>
    intro i emb hi hlen hU
    have him : i < msg.length := by omega
    have hbyte : msg.getD i 0 < 256 := by
      rw [List.getD_eq_getElem?_getD, List.getElem?_eq_getElem him]; exact hb _ (List.getElem_mem him)
    obtain ⟨t1, t2, t3, t4⟩ := embed_byte_table _ hbyte
    obtain ⟨g1, g2⟩ := embed_for2_congr msg i him 4 0 0
    obtain ⟨g3, g4⟩ := embed_for3_congr msg i him 4 0 0
    have e1 : (2 * i) % 18446744073709551616 = 2 * i := Nat.mod_eq_of_lt (by omega)
    have e2 : (2 * i + 1) % 18446744073709551616 = 2 * i + 1 := Nat.mod_eq_of_lt (by omega)
    have c1 : 2 * i < 18446744073709551616 := by omega
    have c2 : 2 * i + 1 < 18446744073709551616 := by omega
    have c3 : 2 * i < emb.length := by omega
    have c4 : 2 * i + 1 < emb.length := by omega
    have hab : 2 * i ≠ 2 * i + 1 := by omega
    obtain ⟨il, ip, iok⟩ := ih (i + 1) ((emb.set (2 * i) (embedNibble (msg.getD i 0) 0)).set (2 * i + 1)
      (embedNibble (msg.getD i 0) 4)) (by omega) (by simp only [List.length_set]; omega) (by simp only [List.length_set]; omega)
    refine ⟨?_, fun idx => ?_, ?_⟩
    · simp only [Loops.lat_embed_msg_for, Nat.sub_zero, g1, g3, t1, t3, e1, e2, il, List.length_set]
    · simp only [Loops.lat_embed_msg_for, Nat.sub_zero, g1, g3, t1, t3, e1, e2]
      rw [ip idx, set2_getElem? emb _ _ idx _ _ hab c3]
      by_cases h1 : idx = 2 * i + 1
      · subst h1
        have d1 : ¬ (2 * (i + 1) ≤ 2 * i + 1 ∧ 2 * i + 1 < 2 * (i + 1 + n)) := by omega
        have d2 : 2 * i ≤ 2 * i + 1 ∧ 2 * i + 1 < 2 * (i + (n + 1)) := by omega
        have d3 : (2 * i + 1) / 2 = i := by omega
        have d4 : ¬ ((2 * i + 1) % 2 = 0) := by omega
        rw [if_neg d1, if_pos d2, if_pos rfl, if_pos c4, embedAt, d3, if_neg d4]
      · by_cases h2 : idx = 2 * i
        · subst h2
          have d1 : ¬ (2 * (i + 1) ≤ 2 * i ∧ 2 * i < 2 * (i + 1 + n)) := by omega
          have d2 : 2 * i ≤ 2 * i ∧ 2 * i < 2 * (i + (n + 1)) := by omega
          have d3 : (2 * i) / 2 = i := by omega
          have d4 : (2 * i) % 2 = 0 := by omega
          rw [if_neg d1, if_pos d2, if_neg h1, if_pos rfl, embedAt, d3, if_pos d4]
        · by_cases r1 : 2 * (i + 1) ≤ idx ∧ idx < 2 * (i + 1 + n)
          · have d2 : 2 * i ≤ idx ∧ idx < 2 * (i + (n + 1)) := by omega
            rw [if_pos r1, if_pos d2]
          · have d2 : ¬ (2 * i ≤ idx ∧ idx < 2 * (i + (n + 1))) := by omega
            rw [if_neg r1, if_neg d2, if_neg h1, if_neg h2]
    · simp only [Loops.lat_embed_msg_for_ok, Nat.sub_zero, g1, g2, g3, g4, t1, t2, t3, t4, e1, e2, c1, c2, c3, c4,
        List.length_set, decide_true, Bool.and_self, iok]

/-- **`embed_msg` regenerated from source = the model**, for every message of 32 bytes: same 64 coefficients, no index
    out of range, no overflow of `+`, `*`, `<<`, no shift amount out of range -/
theorem gen_embed_msg_eq (msg : List Nat) (hlen : msg.length = 32) (hb : ∀ b ∈ msg, b < 256) :
    Loops.lat_embed_msg msg = (embedMsg msg).toList ∧ Loops.lat_embed_msg_ok msg = true := by
  obtain ⟨l, p, ok⟩ := embed_for_spec msg hb msg.length 0 (List.replicate 64 0) (by omega)
    (by rw [hlen, List.length_replicate]; decide) (by rw [List.length_replicate]; decide)
  refine ⟨?_, by simp only [Loops.lat_embed_msg_ok, Nat.sub_zero, ok]⟩
  simp only [Loops.lat_embed_msg, Nat.sub_zero]
  apply List.ext_getElem?
  intro idx
  rw [p idx]
  by_cases hi : idx < 64
  · rw [if_pos (by omega)]
    simp only [embedMsg, Array.getElem?_toList, Array.getElem?_ofFn, hi, dite_true, embedAt]
  · rw [if_neg (by omega), List.getElem?_eq_none (by rw [List.length_replicate]; omega),
      List.getElem?_eq_none (by simp [embedMsg]; omega)]

/-! ### `extract_msg` -/

theorem and_mask16 (v : Nat) : v &&& 65535 = v % 65536 := Nat.and_two_pow_sub_one_eq_mod v 16

theorem lane_eq (c : Nat) (hc : c < 65536) :
    (if (decide (c < 16384) || decide ((65536 + 18446744073709551616 - c) % 18446744073709551616 < 16384)) = true then 0 else 1)
      = laneBit c := by
  have h : (65536 + 18446744073709551616 - c) % 18446744073709551616 = 65536 - c := by omega
  simp only [laneBit, h, Bool.or_eq_true, decide_eq_true_eq, Nat.reducePow]

theorem laneBit_lt (c : Nat) : laneBit c < 2 := by
  unfold laneBit; split <;> omega

theorem ext_for2_step (n j byte v : Nat) :
    Loops.lat_extract_msg_for2 (n+1) j byte v
      = Loops.lat_extract_msg_for2 n (j+1) (byte ||| (laneBit (v % 65536) * 2 ^ (j % 8) % 256)) (v / 65536) := by
  have hc : v % 65536 < 65536 := Nat.mod_lt _ (by decide)
  simp only [Loops.lat_extract_msg_for2, and_mask16, Nat.one_mul, Nat.reduceMod, lane_eq _ hc]

theorem ext_for2_ok_step (n j byte v : Nat) :
    Loops.lat_extract_msg_for2_ok (n+1) j byte v
      = (decide (j < 8) && Loops.lat_extract_msg_for2_ok n (j+1) (byte ||| (laneBit (v % 65536) * 2 ^ (j % 8) % 256)) (v / 65536)) := by
  have hc : v % 65536 < 65536 := Nat.mod_lt _ (by decide)
  have hc' : v % 65536 ≤ 65536 := by omega
  simp only [Loops.lat_extract_msg_for2_ok, and_mask16, Nat.one_mul, Nat.reduceMod, lane_eq _ hc, hc', decide_true, ite_self, Bool.true_and]


theorem ext_for3_step (n j byte v : Nat) :
    Loops.lat_extract_msg_for3 (n+1) j byte v
      = Loops.lat_extract_msg_for3 n (j+1) (byte ||| (laneBit (v % 65536) * 2 ^ ((4 + j) % 2147483648 % 8) % 256)) (v / 65536) := by
  have hc : v % 65536 < 65536 := Nat.mod_lt _ (by decide)
  simp only [Loops.lat_extract_msg_for3, and_mask16, Nat.one_mul, Nat.reduceMod, lane_eq _ hc]

theorem ext_for3_ok_step (n j byte v : Nat) :
    Loops.lat_extract_msg_for3_ok (n+1) j byte v
      = ((decide (4 + j < 2147483648) && decide ((4 + j) % 2147483648 < 8)) &&
          Loops.lat_extract_msg_for3_ok n (j+1) (byte ||| (laneBit (v % 65536) * 2 ^ ((4 + j) % 2147483648 % 8) % 256)) (v / 65536)) := by
  have hc : v % 65536 < 65536 := Nat.mod_lt _ (by decide)
  have hc' : v % 65536 ≤ 65536 := by omega
  simp only [Loops.lat_extract_msg_for3_ok, and_mask16, Nat.one_mul, Nat.reduceMod, lane_eq _ hc, hc', decide_true, ite_self, Bool.true_and]

theorem or_sum_lo : ∀ b0, b0 < 2 → ∀ b1, b1 < 2 → ∀ b2, b2 < 2 → ∀ b3, b3 < 2 →
    ((((0 ||| b0 * 2 ^ (0 % 8) % 256) ||| b1 * 2 ^ (1 % 8) % 256) ||| b2 * 2 ^ (2 % 8) % 256) ||| b3 * 2 ^ (3 % 8) % 256)
      = b0 * 2 ^ 0 + b1 * 2 ^ 1 + b2 * 2 ^ 2 + b3 * 2 ^ 3 := by decide

theorem or_sum_hi : ∀ y, y < 16 → ∀ b0, b0 < 2 → ∀ b1, b1 < 2 → ∀ b2, b2 < 2 → ∀ b3, b3 < 2 →
    ((((y ||| b0 * 2 ^ (4 % 2147483648 % 8) % 256) ||| b1 * 2 ^ (5 % 2147483648 % 8) % 256)
        ||| b2 * 2 ^ (6 % 2147483648 % 8) % 256) ||| b3 * 2 ^ (7 % 2147483648 % 8) % 256)
      = y + 16 * (b0 * 2 ^ 0 + b1 * 2 ^ 1 + b2 * 2 ^ 2 + b3 * 2 ^ 3) := by decide

theorem extractNibble_unroll (v : Nat) : extractNibble v
    = 0 + laneBit (v % 65536) * 2 ^ 0 + laneBit (v / 65536 % 65536) * 2 ^ 1 + laneBit (v / 65536 / 65536 % 65536) * 2 ^ 2
      + laneBit (v / 65536 / 65536 / 65536 % 65536) * 2 ^ 3 := by
  have d2 : v / 65536 / 65536 = v / 4294967296 := by rw [Nat.div_div_eq_div_mul]
  have d3 : v / 4294967296 / 65536 = v / 281474976710656 := by rw [Nat.div_div_eq_div_mul]
  simp only [extractNibble, List.range, List.range.loop, List.foldl, Nat.mul_zero, Nat.mul_one, Nat.pow_zero, Nat.div_one,
    Nat.reduceMul, Nat.reducePow, d2, d3]

theorem extractNibble_lt (v : Nat) : extractNibble v < 16 := by
  rw [extractNibble_unroll]
  have := laneBit_lt (v % 65536); have := laneBit_lt (v / 65536 % 65536)
  have := laneBit_lt (v / 65536 / 65536 % 65536); have := laneBit_lt (v / 65536 / 65536 / 65536 % 65536)
  omega

/-- the first lane loop computes the model's nibble; every shift amount is in range -/
theorem ext_for2_eq (v : Nat) :
    (Loops.lat_extract_msg_for2 4 0 0 v).1 = extractNibble v ∧ Loops.lat_extract_msg_for2_ok 4 0 0 v = true := by
  constructor
  · rw [ext_for2_step, ext_for2_step, ext_for2_step, ext_for2_step, extractNibble_unroll]
    simp only [Loops.lat_extract_msg_for2, Nat.zero_add, Nat.reduceAdd]
    exact or_sum_lo _ (laneBit_lt _) _ (laneBit_lt _) _ (laneBit_lt _) _ (laneBit_lt _)
  · rw [ext_for2_ok_step, ext_for2_ok_step, ext_for2_ok_step, ext_for2_ok_step]
    simp only [Loops.lat_extract_msg_for2_ok, Nat.zero_add, Nat.reduceAdd, Nat.reduceLT, decide_true, Bool.and_self]

/-- the second lane loop puts the model's nibble into the high half of the byte -/
theorem ext_for3_eq (y v : Nat) (hy : y < 16) :
    (Loops.lat_extract_msg_for3 4 0 y v).1 = y + 16 * extractNibble v ∧ Loops.lat_extract_msg_for3_ok 4 0 y v = true := by
  constructor
  · rw [ext_for3_step, ext_for3_step, ext_for3_step, ext_for3_step, extractNibble_unroll]
    simp only [Loops.lat_extract_msg_for3, Nat.zero_add, Nat.reduceAdd]
    exact or_sum_hi y hy _ (laneBit_lt _) _ (laneBit_lt _) _ (laneBit_lt _) _ (laneBit_lt _)
  · rw [ext_for3_ok_step, ext_for3_ok_step, ext_for3_ok_step, ext_for3_ok_step]
    simp only [Loops.lat_extract_msg_for3_ok, Nat.zero_add, Nat.reduceAdd, Nat.reduceMod, Nat.reduceLT, decide_true, Bool.and_self]


/-- the byte the model extracts from the coefficient pair `c` -/
def byteAt (e : List Nat) (c : Nat) : Nat := extractNibble (e.getD (2 * c) 0) + 16 * extractNibble (e.getD (2 * c + 1) 0)

theorem extract_for_spec (e : List Nat) : ∀ n ctr (msg : List Nat), 2 * (ctr + n) ≤ e.length → ctr + n ≤ msg.length →
    (Loops.lat_extract_msg_for e n ctr msg).length = msg.length ∧
    (∀ idx, (Loops.lat_extract_msg_for e n ctr msg)[idx]? =
      if ctr ≤ idx ∧ idx < ctr + n then some (byteAt e idx) else msg[idx]?) ∧
    Loops.lat_extract_msg_for_ok e n ctr msg = true := by
  intro n
  induction n with
  | zero =>
    intro ctr msg _ _
    refine ⟨rfl, fun idx => ?_, rfl⟩
    have c1 : ¬ (ctr ≤ idx ∧ idx < ctr + 0) := by omega
    rw [if_neg c1]; rfl
  | succ n ih =>
    intro ctr msg he hm
    obtain ⟨a1, a2⟩ := ext_for2_eq (e.getD (2 * ctr) 0)
    obtain ⟨b1, b2⟩ := ext_for3_eq (extractNibble (e.getD (2 * ctr) 0)) (e.getD (2 * ctr + 1) 0) (extractNibble_lt _)
    have c1 : 2 * ctr < e.length := by omega
    have c2 : 2 * ctr + 1 < e.length := by omega
    have c3 : ctr < msg.length := by omega
    obtain ⟨il, ip, iok⟩ := ih (ctr + 1) (msg.set ctr (byteAt e ctr)) (by omega) (by simp only [List.length_set]; omega)
    refine ⟨?_, fun idx => ?_, ?_⟩
    · simp only [Loops.lat_extract_msg_for, Nat.sub_zero, Nat.add_zero, a1, b1]
      rw [show extractNibble (e.getD (2 * ctr) 0) + 16 * extractNibble (e.getD (2 * ctr + 1) 0) = byteAt e ctr from rfl, il,
        List.length_set]
    · simp only [Loops.lat_extract_msg_for, Nat.sub_zero, Nat.add_zero, a1, b1]
      rw [show extractNibble (e.getD (2 * ctr) 0) + 16 * extractNibble (e.getD (2 * ctr + 1) 0) = byteAt e ctr from rfl, ip idx]
      by_cases h1 : idx = ctr
      · subst h1
        have d1 : ¬ (idx + 1 ≤ idx ∧ idx < idx + 1 + n) := by omega
        have d2 : idx ≤ idx ∧ idx < idx + (n + 1) := by omega
        rw [if_neg d1, if_pos d2, List.getElem?_set_self c3]
      · by_cases r1 : ctr + 1 ≤ idx ∧ idx < ctr + 1 + n
        · have d2 : ctr ≤ idx ∧ idx < ctr + (n + 1) := by omega
          rw [if_pos r1, if_pos d2]
        · have d2 : ¬ (ctr ≤ idx ∧ idx < ctr + (n + 1)) := by omega
          rw [if_neg r1, if_neg d2, List.getElem?_set_ne (Ne.symm h1)]
    · simp only [Loops.lat_extract_msg_for_ok, Nat.sub_zero, Nat.add_zero, a1, a2, b1, b2, c1, c2, c3, decide_true,
        Bool.true_and]
      rw [show extractNibble (e.getD (2 * ctr) 0) + 16 * extractNibble (e.getD (2 * ctr + 1) 0) = byteAt e ctr from rfl]
      exact iok

/-- **`extract_msg` regenerated from source = the model**, for every ring element (64 coefficients, any values): same 32
    bytes; `pair[0]`, `pair[1]` exist for every chunk, `msg[ctr]` is in range, no `<<`, `-` overflows -/
theorem gen_extract_msg_eq (x : Ring) (hx : x.size = 64) :
    Loops.lat_extract_msg x.toList = extractMsg x ∧ Loops.lat_extract_msg_ok x.toList = true := by
  have hl : x.toList.length = 64 := by simpa using hx
  obtain ⟨l, p, ok⟩ := extract_for_spec x.toList 32 0 (List.replicate 32 0) (by rw [hl]; decide) (by rw [List.length_replicate]; decide)
  have hcnt : (x.toList.length + 1) / 2 - 0 = 32 := by rw [hl]
  refine ⟨?_, by simp only [Loops.lat_extract_msg_ok, hcnt, ok]⟩
  simp only [Loops.lat_extract_msg, hcnt]
  apply List.ext_getElem?
  intro idx
  rw [p idx]
  by_cases hi : idx < 32
  · rw [if_pos (by omega)]
    simp only [extractMsg, List.getElem?_map, List.getElem?_range hi, Option.map_some, byteAt,
      Array.getD_eq_getD_getElem?, List.getD_eq_getElem?_getD, Array.getElem?_toList]
  · rw [if_neg (by omega), List.getElem?_eq_none (by rw [List.length_replicate]; omega),
      List.getElem?_eq_none (by simp [extractMsg]; omega)]

/-! ### ring operations on canonical values -/

theorem ringZip_toList_getElem? (f : Nat → Nat → Nat) (a b : Ring) (idx : Nat) :
    (ringZip f a b).toList[idx]? = if idx < 64 then some (f (a.toList.getD idx 0) (b.toList.getD idx 0)) else none := by
  by_cases hi : idx < 64
  · simp only [ringZip, Array.getElem?_toList, Array.getElem?_ofFn, hi, dite_true, if_true,
      Array.getD_eq_getD_getElem?, List.getD_eq_getElem?_getD]
  · rw [if_neg hi, List.getElem?_eq_none (by simp [ringZip]; omega)]

theorem range_map_getElem? (g : Nat → Nat) (idx : Nat) :
    ((List.range' 0 (64 - 0)).map g)[idx]? = if idx < 64 then some (g idx) else none := by
  by_cases hi : idx < 64
  · rw [if_pos hi, List.getElem?_map, List.getElem?_range' (by omega)]; simp
  · rw [if_neg hi, List.getElem?_eq_none (by simp; omega)]

theorem range_all_lt (a b : List Nat) (ha : a.length = 64) (hb : b.length = 64) :
    ((List.range' 0 (64 - 0)).all fun i => decide (i < a.length) && decide (i < b.length)) = true := by
  rw [List.all_eq_true]
  intro i hi
  have : i < 64 := by simpa [List.mem_range'_1] using hi
  simp only [ha, hb, this, decide_true, Bool.and_self]

/-- **`Add for CyclotomicRingElement` regenerated from source = the model** -/
theorem gen_ring_add_eq (a b : Ring) (ha : a.size = 64) (hb : b.size = 64) :
    Loops.lat_ring_add a.toList b.toList = (ringAdd a b).toList ∧ Loops.lat_ring_add_ok a.toList b.toList = true := by
  constructor
  · apply List.ext_getElem?
    intro idx
    simp only [Loops.lat_ring_add, ringAdd]
    rw [range_map_getElem?, ringZip_toList_getElem?]
  · simp only [Loops.lat_ring_add_ok, range_all_lt a.toList b.toList (by simpa using ha) (by simpa using hb),
      Nat.sub_zero, decide_true, Bool.and_self]

/-- **`Sub for CyclotomicRingElement` regenerated from source = the model** -/
theorem gen_ring_sub_eq (a b : Ring) (ha : a.size = 64) (hb : b.size = 64) :
    Loops.lat_ring_sub a.toList b.toList = (ringSub a b).toList ∧ Loops.lat_ring_sub_ok a.toList b.toList = true := by
  constructor
  · apply List.ext_getElem?
    intro idx
    simp only [Loops.lat_ring_sub, ringSub]
    rw [range_map_getElem?, ringZip_toList_getElem?]
  · simp only [Loops.lat_ring_sub_ok, range_all_lt a.toList b.toList (by simpa using ha) (by simpa using hb),
      Nat.sub_zero, decide_true, Bool.and_self]

/-- the coefficient-wise product loop `for i in 0..64 { c[i] = a[i] * b[i] }`, pointwise -/
theorem hadamard_for_spec (a b : List Nat) : ∀ n i (c : List Nat), i + n ≤ c.length → i + n ≤ a.length → i + n ≤ b.length →
    (Loops.lat_ring_hadamard_for a b n i c).length = c.length ∧
    (∀ idx, (Loops.lat_ring_hadamard_for a b n i c)[idx]? =
      if i ≤ idx ∧ idx < i + n then some (Spec.fmul (a.getD idx 0) (b.getD idx 0)) else c[idx]?) ∧
    Loops.lat_ring_hadamard_for_ok a b n i c = true := by
  intro n
  induction n with
  | zero =>
    intro i c _ _ _
    refine ⟨rfl, fun idx => ?_, rfl⟩
    have c1 : ¬ (i ≤ idx ∧ idx < i + 0) := by omega
    rw [if_neg c1]; rfl
  | succ n ih =>
    intro i c hc ha hb
    have h1 : i < c.length := by omega
    have h2 : i < a.length := by omega
    have h3 : i < b.length := by omega
    obtain ⟨il, ip, iok⟩ := ih (i + 1) (c.set i (Spec.fmul (a.getD i 0) (b.getD i 0))) (by simp only [List.length_set]; omega)
      (by omega) (by omega)
    refine ⟨by simp only [Loops.lat_ring_hadamard_for, il, List.length_set], fun idx => ?_, ?_⟩
    · simp only [Loops.lat_ring_hadamard_for]
      rw [ip idx]
      by_cases e1 : idx = i
      · subst e1
        have c1 : ¬ (idx + 1 ≤ idx ∧ idx < idx + 1 + n) := by omega
        have c2 : idx ≤ idx ∧ idx < idx + (n + 1) := by omega
        rw [if_neg c1, if_pos c2, List.getElem?_set_self h1]
      · by_cases r1 : i + 1 ≤ idx ∧ idx < i + 1 + n
        · have c2 : i ≤ idx ∧ idx < i + (n + 1) := by omega
          rw [if_pos r1, if_pos c2]
        · have c2 : ¬ (i ≤ idx ∧ idx < i + (n + 1)) := by omega
          rw [if_neg r1, if_neg c2, List.getElem?_set_ne (Ne.symm e1)]
    · simp only [Loops.lat_ring_hadamard_for_ok, h1, h2, h3, decide_true, Bool.and_self, iok]

theorem had_full (a b : Ring) (c z : List Nat) (hc : c.length = 64) (_hzl : z.length = c.length)
    (hz : ∀ idx, z[idx]? = if 0 ≤ idx ∧ idx < 0 + 64 then some (Spec.fmul (a.toList.getD idx 0) (b.toList.getD idx 0)) else c[idx]?) :
    z = (ringHadamard a b).toList := by
  apply List.ext_getElem?
  intro idx
  rw [hz idx, ringHadamard, ringZip_toList_getElem?]
  by_cases hi : idx < 64
  · rw [if_pos (by omega), if_pos hi]
  · rw [if_neg (by omega), if_neg hi, List.getElem?_eq_none (by omega)]

/-- **`CyclotomicRingElement::hadamard` regenerated from source = the model** -/
theorem gen_ring_hadamard_eq (a b : Ring) (ha : a.size = 64) (hb : b.size = 64) :
    Loops.lat_ring_hadamard a.toList b.toList = (ringHadamard a b).toList ∧
    Loops.lat_ring_hadamard_ok a.toList b.toList = true := by
  obtain ⟨l, p, ok⟩ := hadamard_for_spec a.toList b.toList 64 0 (List.replicate 64 0) (by simp) (by simp [ha]) (by simp [hb])
  constructor
  · simp only [Loops.lat_ring_hadamard, Loops.lat_ring_zero, Nat.sub_zero]
    exact had_full a b _ _ (by simp) l p
  · simp only [Loops.lat_ring_hadamard_ok, Loops.lat_ring_zero_ok, Loops.lat_ring_zero, Nat.sub_zero, ok, Bool.and_self]


/-- the product loop inside `mul` is the same loop as `hadamard`'s -/
theorem mul_for_eq (a b : List Nat) : ∀ n i (c : List Nat),
    Loops.lat_ring_mul_for a b n i c = Loops.lat_ring_hadamard_for a b n i c ∧
    Loops.lat_ring_mul_for_ok a b n i c = Loops.lat_ring_hadamard_for_ok a b n i c := by
  intro n
  induction n with
  | zero => intros; exact ⟨rfl, rfl⟩
  | succ n ih =>
    intro i c
    exact ⟨by simp only [Loops.lat_ring_mul_for, Loops.lat_ring_hadamard_for, (ih _ _).1],
      by simp only [Loops.lat_ring_mul_for_ok, Loops.lat_ring_hadamard_for_ok, (ih _ _).2]⟩

theorem ring_mul_unfold (x y : List Nat) :
    Loops.lat_ring_mul x y = (Loops.lat_coset_ntt_noswap_64 bOps x).bind fun A =>
      (Loops.lat_coset_ntt_noswap_64 bOps y).bind fun B =>
        some (Loops.lat_coset_intt_noswap_64 bOps (Loops.lat_ring_mul_for A B (64 - 0) 0 (List.replicate 64 0))) := rfl

theorem ring_mul_ok_unfold (x y : List Nat) :
    Loops.lat_ring_mul_ok x y = (Loops.lat_coset_ntt_noswap_64_ok bOps x &&
      (Loops.lat_coset_ntt_noswap_64 bOps x).elim true fun A =>
        Loops.lat_coset_ntt_noswap_64_ok bOps y && (Loops.lat_coset_ntt_noswap_64 bOps y).elim true fun B =>
          Loops.lat_ring_mul_for_ok A B (64 - 0) 0 (List.replicate 64 0) &&
            Loops.lat_coset_intt_noswap_64_ok bOps (Loops.lat_ring_mul_for A B (64 - 0) 0 (List.replicate 64 0))) := rfl

/-- **`Mul for CyclotomicRingElement` regenerated from source = the model's `ringMul`**: both forward transforms finish,
    nothing panics, and the result is `intt64 (hadamard (ntt64 a) (ntt64 b))` -/
theorem gen_ring_mul_eq (a b : Ring) (ha : a.size = 64) (hb : b.size = 64) :
    Loops.lat_ring_mul a.toList b.toList = some (ringMul a b).toList ∧ Loops.lat_ring_mul_ok a.toList b.toList = true := by
  obtain ⟨n1, k1⟩ := gen_ntt64 a ha
  obtain ⟨n2, k2⟩ := gen_ntt64 b hb
  have sa : (ntt64 a).toList.length = 64 := by
    rw [Array.length_toList, ntt64, cosetNtt_unroll]; simp only [nttStage_size, ha]
  have sb : (ntt64 b).toList.length = 64 := by
    rw [Array.length_toList, ntt64, cosetNtt_unroll]; simp only [nttStage_size, hb]
  have hr : (List.replicate 64 0).length = 64 := List.length_replicate
  obtain ⟨l, p, ok⟩ := hadamard_for_spec (ntt64 a).toList (ntt64 b).toList 64 0 (List.replicate 64 0) (by rw [hr]; decide)
    (by rw [sa]; decide) (by rw [sb]; decide)
  have hh := had_full (ntt64 a) (ntt64 b) (List.replicate 64 0) _ hr l p
  have sh : (ringHadamard (ntt64 a) (ntt64 b)).size = 64 := by simp [ringHadamard, ringZip]
  obtain ⟨i1, i2⟩ := gen_intt64 _ sh
  obtain ⟨m1, m2⟩ := mul_for_eq (ntt64 a).toList (ntt64 b).toList 64 0 (List.replicate 64 0)
  constructor
  · rw [ring_mul_unfold, n1, Option.bind_some, n2, Option.bind_some, Nat.sub_zero, m1, hh, i1]; rfl
  · rw [ring_mul_ok_unfold, n1, n2, k1, k2, Option.elim_some, Option.elim_some, Nat.sub_zero, m1, m2, ok, hh, i2]; rfl

end TF.GenBridge.Lattice
