import TF.Proofs.MmrIndex
import TF.Proofs.MmrPeaks
import TF.Model.MmrAcc
/-!
# C11: lemmas connecting the accumulator model (`TF/Model/MmrAcc.lean`) with the from-scratch peaks (`TF/Spec/MmrAcc.lean`)
-/
namespace TF.MmrAccP
open TF TF.Gen TF.Mmr TF.Spec.MmrAcc TF.Model.MmrAcc TF.MmrPeaks TF.Spec.Mmr

variable {D : Type} (H : D → D → D)

/-! ### append -/

/-- on stacks that are long enough the model's merge loop (which can panic) is App. A.5's `mergeN` -/
theorem mergeLoop_eq (t : Nat) : ∀ (st ap : List D), t + 1 ≤ st.length →
    ∃ ap', mergeLoop H t st ap = some (mergeN H t st, ap') := by
  induction t with
  | zero => intro st ap _; exact ⟨ap, by simp [mergeLoop, mergeN]⟩
  | succ t ih =>
    intro st ap h
    match st, h with
    | new :: prev :: rest, h =>
      simp only [mergeLoop, mergeN]
      exact ih (H prev new :: rest) (ap ++ [prev]) (by simp at h ⊢; omega)

/-- the loop panics exactly when it has to merge and the stack is too short -/
theorem mergeLoop_none (t : Nat) : ∀ (st ap : List D), st.length < t + 2 → mergeLoop H (t+1) st ap = none := by
  induction t with
  | zero =>
    intro st ap h
    match st with
    | [] => rfl
    | [_] => rfl
    | _ :: _ :: _ => exfalso; simp only [List.length_cons] at h; omega
  | succ t ih =>
    intro st ap h
    match st with
    | [] => rfl
    | [_] => rfl
    | new :: prev :: rest =>
      simp only [mergeLoop]
      exact ih (H prev new :: rest) (ap ++ [prev]) (by simp at h ⊢; omega)

theorem add64_succ (n : Nat) (h : n + 1 < 2^64) : TF.Model.Mmr.add64 n 1 = n + 1 := by
  unfold TF.Model.Mmr.add64 TF.Model.Mmr.W64; omega

/-- `calculate_new_peaks_from_append` on the from-scratch peaks of `n` leaves gives the from-scratch peaks of `n+1` -/
theorem calc_append_refines (n : Nat) (hn : n + 1 < 2^64) (f : Nat → D) :
    ∃ ap, calculate_new_peaks_from_append H n (peaks H n f) (f n) = some (peaks H (n+1) f, ap) := by
  have hr := (rll_leaf_spec n hn).1
  have hlen := peaks_length_ge H n f
  have hl : trailingOnes n + 1 ≤ (f n :: (peaks H n f).reverse).length := by
    rewrite [List.length_cons, List.length_reverse]; exact Nat.succ_le_succ hlen
  obtain ⟨ap, hm⟩ := mergeLoop_eq H (trailingOnes n) (f n :: (peaks H n f).reverse) [] hl
  refine ⟨ap, ?_⟩
  have := append_refines H n f
  unfold appendPeaks at this
  unfold calculate_new_peaks_from_append
  rewrite [hr]
  unfold appendWith
  rewrite [hm, Option.map_some, this]
  exact rfl

theorem append_refines_model (n : Nat) (hn : n + 1 < 2^64) (f : Nat → D) :
    ∃ ap, append H { leaf_count := n, peaks := peaks H n f } (f n)
      = some ({ leaf_count := n + 1, peaks := peaks H (n+1) f }, ap) := by
  obtain ⟨ap, h⟩ := calc_append_refines H n hn f
  refine ⟨ap, ?_⟩
  show (calculate_new_peaks_from_append H n (peaks H n f) (f n)).map
      (fun r => (({ leaf_count := TF.Model.Mmr.add64 n 1, peaks := r.1 } : Acc D), r.2)) = _
  rewrite [h, Option.map_some, add64_succ n hn]
  exact rfl


theorem peaks_zero (f : Nat → D) : peaks H 0 f = [] := by unfold peaks; rfl

/-- folding a step function that refines `peaks` over `[f 0, …, f (n-1)]` -/
theorem foldlM_refines (step : Acc D → D → Option (Acc D)) (f : Nat → D) (n : Nat)
    (hstep : ∀ k, k < n → step { leaf_count := k, peaks := peaks H k f } (f k)
        = some { leaf_count := k + 1, peaks := peaks H (k+1) f }) :
    List.foldlM step ({ leaf_count := 0, peaks := peaks H 0 f } : Acc D) ((List.range n).map f)
      = some { leaf_count := n, peaks := peaks H n f } := by
  induction n with
  | zero => rfl
  | succ n ih =>
    have ih' := ih (fun k hk => hstep k (Nat.lt_succ_of_lt hk))
    rewrite [List.range_succ, List.map_append, List.foldlM_append, ih']
    simp only [Option.bind_eq_bind, Option.bind_some, List.map_cons, List.map_nil, List.foldlM_cons,
      List.foldlM_nil, hstep n (Nat.lt_succ_self n)]
    rfl

theorem step_refines (n : Nat) (hn : n + 1 < 2^64) (f : Nat → D) :
    (append H { leaf_count := n, peaks := peaks H n f } (f n)).map Prod.fst
      = some { leaf_count := n + 1, peaks := peaks H (n+1) f } := by
  obtain ⟨ap, ha⟩ := append_refines_model H n hn f
  rewrite [ha, Option.map_some]
  exact rfl

/-- `new_from_leafs` on the list `[f 0, …, f (n-1)]` -/
theorem new_from_leafs_range (n : Nat) (hn : n < 2^64) (f : Nat → D) :
    new_from_leafs H ((List.range n).map f) = some { leaf_count := n, peaks := peaks H n f } := by
  have := foldlM_refines H (fun a d => (append H a d).map Prod.fst) f n
    (fun k hk => step_refines H k (Nat.lt_of_le_of_lt (Nat.succ_le_of_lt hk) hn) f)
  rewrite [peaks_zero] at this
  exact this

/-! ### `peaks` is `peaksDirect` -/

theorem root_pair (f : Nat → D) (h : Nat) : ∀ s, root H f (h+1) (2*s) = root H (pair H f) h s := by
  induction h with
  | zero => intro s; simp [root, pair]
  | succ h ih =>
    intro s
    have e : 2 * s + 2 ^ (h+1) = 2 * (s + 2^h) := by rw [Nat.pow_succ]; omega
    rw [root, ih s, e, ih (s + 2^h)]
    rfl

/-- one level of the low-bit recursion on the direct definition -/
theorem peaksDirectAux_pair (f : Nat → D) (h : Nat) : ∀ n s,
    peaksDirectAux H f (h+1) n (2*s) =
      peaksDirectAux H (pair H f) h (n/2) s ++ (if n % 2 = 1 then [f (2*s + 2*((n/2) % 2^h))] else []) := by
  induction h with
  | zero =>
    intro n s
    simp [peaksDirectAux, root, Nat.mod_one]
  | succ h ih =>
    intro n s
    have eb : n / 2^(h+1) = n / 2 / 2^h := by rw [Nat.div_div_eq_div_mul, Nat.pow_succ, Nat.mul_comm]
    have e : 2 * s + 2 ^ (h+1) = 2 * (s + 2^h) := by rw [Nat.pow_succ]; omega
    have hm := Nat.div_add_mod (n/2) (2^h)
    have hm2 := Nat.div_add_mod (n/2/2^h) 2
    have hmm : (n/2) % 2^(h+1) = 2^h * ((n/2/2^h) % 2) + (n/2) % 2^h := by
      rw [Nat.pow_succ, Nat.mod_mul]; omega
    have eL : peaksDirectAux H f (h+1+1) n (2*s) =
        if n / 2^(h+1) % 2 = 1 then root H f (h+1) (2*s) :: peaksDirectAux H f (h+1) n (2*s + 2^(h+1))
        else peaksDirectAux H f (h+1) n (2*s) := rfl
    have eR : peaksDirectAux H (pair H f) (h+1) (n/2) s =
        if n / 2 / 2^h % 2 = 1 then root H (pair H f) h s :: peaksDirectAux H (pair H f) h (n/2) (s + 2^h)
        else peaksDirectAux H (pair H f) h (n/2) s := rfl
    rw [eL, eR, eb]
    by_cases hb : n / 2 / 2^h % 2 = 1
    · rw [if_pos hb, if_pos hb, e, ih n (s + 2^h), root_pair]
      have : 2 * (s + 2^h) + 2 * (n / 2 % 2^h) = 2 * s + 2 * (n / 2 % 2^(h+1)) := by
        rw [hmm, hb]; omega
      rw [this]; simp
    · rw [if_neg hb, if_neg hb, ih n s]
      have hb0 : n / 2 / 2^h % 2 = 0 := by omega
      have : n / 2 % 2^h = n / 2 % 2^(h+1) := by rw [hmm, hb0]; omega
      rw [this]

theorem peaksDirectAux_zero (f : Nat → D) (h : Nat) : ∀ s, peaksDirectAux H f h 0 s = [] := by
  induction h with
  | zero => intro s; rfl
  | succ h ih => intro s; simp [peaksDirectAux, ih]

/-- `peaks` walks over the same trees as the direct definition, for any bound `h` on the number of bits -/
theorem peaks_eq_peaksDirectAux (h : Nat) : ∀ (n : Nat) (f : Nat → D), n < 2^h →
    peaks H n f = peaksDirectAux H f h n 0 := by
  induction h with
  | zero =>
    intro n f hn
    have : n = 0 := by simpa using hn
    subst this; simp [peaks, peaksDirectAux]
  | succ h ih =>
    intro n f hn
    cases n with
    | zero => rw [peaksDirectAux_zero]; simp [peaks]
    | succ n =>
      have hlt : (n+1)/2 < 2^h := by rw [Nat.pow_succ] at hn; omega
      have := peaksDirectAux_pair H f h (n+1) 0
      simp only [Nat.mul_zero, Nat.zero_add] at this
      rw [peaks, this, ih ((n+1)/2) (pair H f) hlt, Nat.mod_eq_of_lt hlt]
      by_cases ho : (n+1) % 2 = 1
      · have : 2 * ((n+1)/2) = n := by omega
        rw [if_pos ho, if_pos ho, this]
      · rw [if_neg ho, if_neg ho]

theorem lt_two_pow_log2_succ (n : Nat) : n < 2^(Nat.log2 n + 1) := by
  by_cases h : n = 0
  · subst h; simp
  · exact (Nat.log2_lt h).mp (Nat.lt_succ_self _)

theorem peaks_eq_peaksDirect' (n : Nat) (f : Nat → D) : peaks H n f = peaksDirect H n f :=
  peaks_eq_peaksDirectAux H _ n f (lt_two_pow_log2_succ n)

/-! ### bagging -/

theorem foldl_bag_aux (z : D) : ∀ (rest t : List D), t ≠ [] →
    rest.foldl (fun acc peak => H peak acc) (bagSpec H z t) = bagSpec H z (rest.reverse ++ t) := by
  intro rest
  induction rest with
  | nil => intro t _; rfl
  | cons r rs ih =>
    intro t ht
    cases t with
    | nil => exact absurd rfl ht
    | cons a as =>
      have h1 : H r (bagSpec H z (a :: as)) = bagSpec H z (r :: a :: as) := rfl
      rw [List.foldl_cons, h1, ih (r :: a :: as) (by simp), List.reverse_cons, List.append_assoc]
      rfl

theorem foldl_bag (z : D) (rest : List D) (q p : D) :
    rest.foldl (fun acc peak => H peak acc) (H q p) = bagSpec H z (rest.reverse ++ [q, p]) :=
  foldl_bag_aux H z rest [q, p] (by simp)

theorem bag_peaks_eq (z : D) (ps : List D) : bag_peaks H z ps = bagSpec H z ps := by
  unfold bag_peaks
  cases h : ps.reverse with
  | nil =>
    have : ps = [] := by simpa using h
    subst this; rfl
  | cons last t =>
    cases t with
    | nil =>
      have : ps = [last] := by simpa using congrArg List.reverse h
      subst this; rfl
    | cons q rest =>
      have : ps = rest.reverse ++ [q, last] := by simpa using congrArg List.reverse h
      subst this
      exact foldl_bag H z rest q last

/-! ### `verify_batch_update` rejects repeated and out-of-range indices -/

theorem allUnique_false_of_dup : ∀ (l : List Nat) (i j : Nat) (hi : i < l.length) (hj : j < l.length),
    i ≠ j → l[i] = l[j] → allUnique l = false := by
  intro l
  induction l with
  | nil => intro i j hi; simp at hi
  | cons x xs ih =>
    intro i j hi hj hne heq
    unfold allUnique
    cases i with
    | zero =>
      cases j with
      | zero => exact absurd rfl hne
      | succ j =>
        simp only [List.getElem_cons_zero, List.getElem_cons_succ] at heq
        have : xs.contains x = true := by
          rw [List.contains_iff_mem, heq]; exact List.getElem_mem _
        rw [this]; rfl
    | succ i =>
      cases j with
      | zero =>
        simp only [List.getElem_cons_zero, List.getElem_cons_succ] at heq
        have : xs.contains x = true := by
          rw [List.contains_iff_mem, ← heq]; exact List.getElem_mem _
        rw [this]; rfl
      | succ j =>
        simp only [List.getElem_cons_succ] at heq
        have := ih i j (by simpa using hi) (by simpa using hj) (by omega) heq
        simp [this]

/-! ### single leaf mutation -/

/-- the fold of `foldPath` without the `mt = 1` test -/
def foldUp : (mt : Nat) → (acc : D) → (ap : List D) → D
  | _, acc, [] => acc
  | mt, acc, a :: rest => foldUp (mt / 2) (if mt % 2 = 1 then H a acc else H acc a) rest

theorem foldPath_eq_foldUp : ∀ (ap : List D) (mt : Nat) (acc : D), 2^ap.length ≤ mt → mt < 2^(ap.length+1) →
    foldPath H mt acc ap = some (foldUp H mt acc ap) := by
  intro ap
  induction ap with
  | nil => intro mt acc h1 h2; simp at h1 h2; have : mt = 1 := by omega
           subst this; rfl
  | cons a rest ih =>
    intro mt acc h1 h2
    simp only [List.length_cons] at h1 h2
    have hp : 2^(rest.length+1) = 2 * 2^rest.length := by rw [Nat.pow_succ]; omega
    have hp2 : 2^(rest.length+1+1) = 2 * 2^(rest.length+1) := by rw [Nat.pow_succ]; omega
    have hpos := Nat.two_pow_pos rest.length
    have hne : mt ≠ 1 := by omega
    unfold foldPath foldUp
    rw [if_neg hne]
    exact ih (mt/2) _ (by omega) (by omega)

theorem foldUp_append : ∀ (p q : List D) (mt : Nat) (acc : D),
    foldUp H mt acc (p ++ q) = foldUp H (mt / 2^p.length) (foldUp H mt acc p) q := by
  intro p
  induction p with
  | nil => intro q mt acc; simp [foldUp]
  | cons a rest ih =>
    intro q mt acc
    simp only [List.cons_append, foldUp, List.length_cons]
    rw [ih, Nat.div_div_eq_div_mul, Nat.pow_succ, Nat.mul_comm]

theorem treePath_length (f : Nat → D) (h : Nat) : ∀ s j, (treePath H f h s j).length = h := by
  induction h with
  | zero => intro s j; rfl
  | succ h ih =>
    intro s j
    unfold treePath
    split <;> simp [ih]

/-- `root` only looks at the leaves of its block -/
theorem root_congr (f g : Nat → D) (h : Nat) : ∀ s, (∀ m, s ≤ m → m < s + 2^h → f m = g m) →
    root H f h s = root H g h s := by
  induction h with
  | zero => intro s hfg; exact hfg s (Nat.le_refl _) (by simp)
  | succ h ih =>
    intro s hfg
    have hp : 2^(h+1) = 2 * 2^h := by rw [Nat.pow_succ]; omega
    unfold root
    rw [ih s (fun m h1 h2 => hfg m h1 (by omega)), ih (s + 2^h) (fun m h1 h2 => hfg m (by omega) (by omega))]

/-- hashing a new leaf value up the from-scratch path gives the root over the updated leaves
    (`c` = arbitrary higher bits of the Merkle-tree index) -/
theorem foldUp_treePath (f : Nat → D) (x : D) (h : Nat) : ∀ (s j c : Nat), j < 2^h →
    foldUp H (c * 2^h + j) x (treePath H f h s j) = root H (update f (s + j) x) h s := by
  induction h with
  | zero =>
    intro s j c hj
    have : j = 0 := by simpa using hj
    subst this
    simp [treePath, foldUp, root, update]
  | succ h ih =>
    intro s j c hj
    have hp : 2^(h+1) = 2 * 2^h := by rw [Nat.pow_succ]; omega
    have hpos := Nat.two_pow_pos h
    unfold treePath
    by_cases hlt : j < 2^h
    · rw [if_pos hlt, foldUp_append, treePath_length]
      have e1 : c * 2^(h+1) + j = (2*c) * 2^h + j := by rw [hp]; ring
      have e2 : (c * 2^(h+1) + j) / 2^h = 2 * c := by
        rw [e1, Nat.mul_comm (2*c), Nat.mul_add_div hpos, Nat.div_eq_of_lt hlt]; rfl
      rw [e2]
      conv => lhs; rw [e1, ih s j (2*c) hlt]
      have hodd : ¬ (2 * c % 2 = 1) := by omega
      simp only [foldUp, if_neg hodd]
      have hr : root H f h (s + 2^h) = root H (update f (s+j) x) h (s + 2^h) := by
        apply root_congr
        intro m h1 h2
        unfold update
        rw [if_neg (by omega)]
      rw [hr]; rfl
    · rw [if_neg hlt, foldUp_append, treePath_length]
      have hj2 : j - 2^h < 2^h := by omega
      have e1 : c * 2^(h+1) + j = (2*c+1) * 2^h + (j - 2^h) := by
        rw [hp]
        have : j = 2^h + (j - 2^h) := by omega
        conv => lhs; rw [this]
        ring
      have e2 : (c * 2^(h+1) + j) / 2^h = 2 * c + 1 := by
        rw [e1, Nat.mul_comm (2*c+1), Nat.mul_add_div hpos, Nat.div_eq_of_lt hj2]
      rw [e2]
      conv => lhs; rw [e1, ih (s + 2^h) (j - 2^h) (2*c+1) hj2]
      have hodd : (2 * c + 1) % 2 = 1 := by omega
      simp only [foldUp, if_pos hodd]
      have hs : s + 2^h + (j - 2^h) = s + j := by omega
      rw [hs]
      have hr : root H f h s = root H (update f (s+j) x) h s := by
        apply root_congr
        intro m h1 h2
        unfold update
        rw [if_neg (by omega)]
      rw [hr]; rfl

/-- the trees to the right of leaf `s` only look at leaves `≥ s` -/
theorem peaksDirectAux_congr (f g : Nat → D) (K n : Nat) : ∀ s, (∀ m, s ≤ m → f m = g m) →
    peaksDirectAux H f K n s = peaksDirectAux H g K n s := by
  induction K with
  | zero => intro s _; rfl
  | succ K ih =>
    intro s hfg
    unfold peaksDirectAux
    rw [root_congr H f g K s (fun m h1 _ => hfg m h1), ih s hfg, ih (s + 2^K) (fun m h1 => hfg m (Nat.le_trans (Nat.le_add_right s _) h1))]

theorem setAt?_cons_zero (a r : D) (l : List D) : setAt? (a :: l) 0 r = some (r :: l) := by
  unfold setAt?; simp

theorem setAt?_cons_succ (a r : D) (l : List D) (k : Nat) :
    setAt? (a :: l) (k+1) r = (setAt? l k r).map (a :: ·) := by
  unfold setAt?
  by_cases h : k < l.length
  · simp [h]
  · simp [h]

/-- replacing the peak found by the walk (`leafPos`) with the root over the updated leaves gives the from-scratch
    peaks of the updated leaf list -/
theorem setAt_peaksDirectAux (f : Nat → D) (x : D) (n i : Nat) : ∀ (K s k h j k' : Nat), s ≤ i →
    leafPos K n i s k = some (h, j, k') →
    k ≤ k' ∧ j < 2^h ∧ j ≤ i ∧
    setAt? (peaksDirectAux H f K n s) (k' - k) (root H (update f i x) h (i - j))
      = some (peaksDirectAux H (update f i x) K n s) := by
  intro K
  induction K with
  | zero => intro s k h j k' _ hl; simp [leafPos] at hl
  | succ K ih =>
    intro s k h j k' hsi hl
    unfold leafPos at hl
    unfold peaksDirectAux
    by_cases hb : n / 2^K % 2 = 1
    · rw [if_pos hb] at hl
      rw [if_pos hb, if_pos hb]
      by_cases hlt : i < s + 2^K
      · rw [if_pos hlt] at hl
        simp only [Option.some.injEq, Prod.mk.injEq] at hl
        obtain ⟨rfl, rfl, rfl⟩ := hl
        refine ⟨Nat.le_refl _, by omega, by omega, ?_⟩
        have e : i - (i - s) = s := by omega
        rw [Nat.sub_self, e, setAt?_cons_zero]
        rw [peaksDirectAux_congr H f (update f i x) K n (s + 2^K)
          (fun m hm => by unfold update; rw [if_neg (by omega)])]
      · rw [if_neg hlt] at hl
        obtain ⟨h1, h2, h3, h4⟩ := ih (s + 2^K) (k+1) h j k' (by omega) hl
        refine ⟨by omega, h2, h3, ?_⟩
        have e : k' - k = (k' - (k+1)) + 1 := by omega
        rw [e, setAt?_cons_succ, h4]
        rw [root_congr H f (update f i x) K s
          (fun m _ hm => by unfold update; rw [if_neg (by omega)])]
        rfl
    · rw [if_neg hb] at hl
      rw [if_neg hb, if_neg hb]
      exact ih s k h j k' hsi hl

/-- the from-scratch authentication path follows the same walk -/
theorem authPathAux_of_leafPos (f : Nat → D) (n i : Nat) : ∀ (K s k h j k' : Nat), s ≤ i →
    leafPos K n i s k = some (h, j, k') →
    authPathAux H f K n s i = some (treePath H f h (i - j) j) := by
  intro K
  induction K with
  | zero => intro s k h j k' _ hl; simp [leafPos] at hl
  | succ K ih =>
    intro s k h j k' hsi hl
    unfold leafPos at hl
    unfold authPathAux
    by_cases hb : n / 2^K % 2 = 1
    · rw [if_pos hb] at hl
      rw [if_pos hb]
      by_cases hlt : i < s + 2^K
      · rw [if_pos hlt] at hl
        simp only [Option.some.injEq, Prod.mk.injEq] at hl
        obtain ⟨rfl, rfl, rfl⟩ := hl
        have e : i - (i - s) = s := by omega
        rw [if_pos hlt, e]
      · rw [if_neg hlt] at hl
        rw [if_neg hlt]
        exact ih (s + 2^K) (k+1) h j k' (by omega) hl
    · rw [if_neg hb] at hl
      rw [if_neg hb]
      exact ih s k h j k' hsi hl

/-- `mutateWith` with the Merkle-tree index and peak index found by the walk, and the from-scratch path -/
theorem mutateWith_refines (f : Nat → D) (x : D) (n i K h j k' : Nat)
    (hl : leafPos K n i 0 0 = some (h, j, k')) :
    mutateWith H (peaksDirectAux H f K n 0) (2^h + j) k' x (treePath H f h (i - j) j)
      = some (peaksDirectAux H (update f i x) K n 0) := by
  obtain ⟨_, hj, hji, hset⟩ := setAt_peaksDirectAux H f x n i K 0 0 h j k' (Nat.zero_le _) hl
  have hlen := treePath_length H f h (i - j) j
  have hfp := foldPath_eq_foldUp H (treePath H f h (i - j) j) (2^h + j) x
    (by rw [hlen]; omega) (by rw [hlen, Nat.pow_succ]; omega)
  have hup := foldUp_treePath H f x h (i - j) j 1 hj
  have e1 : 1 * 2^h + j = 2^h + j := by omega
  have e2 : i - j + j = i := by omega
  rw [e1, e2] at hup
  unfold mutateWith
  rw [hfp, hup, Option.bind_some]
  exact hset

/-- `mutate_leaf` with a valid (= from-scratch) membership proof refines the from-scratch peaks -/
theorem mutate_leaf_refines_model (f : Nat → D) (x : D) (n i : Nat) (hin : i < n) (hn : n < 2^64) (ap : List D)
    (hap : authPath H n f i = some ap) :
    mutate_leaf H { leaf_count := n, peaks := peaks H n f } { leaf_index := i, new_leaf := x, auth := ap }
      = some { leaf_count := n, peaks := peaks H n (update f i x) } := by
  have hnK := lt_two_pow_log2_succ n
  have hl := leafPos_closed (Nat.log2 n + 1) n i hin hnK
  have hmt := (mt_spec i n hin hn).1
  have hpath := authPathAux_of_leafPos H f n i _ 0 0 _ _ _ (Nat.zero_le _) hl
  unfold authPath at hap
  rw [hpath] at hap
  have hap' := Option.some.inj hap
  have hmw := mutateWith_refines H f x n i _ _ _ _ hl
  rw [← peaks_eq_peaksDirectAux H _ n f hnK, ← peaks_eq_peaksDirectAux H _ n (update f i x) hnK, hap'] at hmw
  show (calculate_new_peaks_from_leaf_mutation H (peaks H n f) n x i ap).map _ = _
  unfold calculate_new_peaks_from_leaf_mutation
  rewrite [if_pos hin, hmt]
  show (mutateWith H (peaks H n f) _ _ x ap).map _ = _
  rewrite [hmw]
  rfl


/-! ### histories -/

/-- `peaks n f` only looks at the leaves below `n` -/
theorem peaks_congr (n : Nat) : ∀ (f g : Nat → D), (∀ m, m < n → f m = g m) → peaks H n f = peaks H n g := by
  induction n using Nat.strongRecOn with
  | _ n ih =>
    intro f g hfg
    cases n with
    | zero => rw [peaks_zero, peaks_zero]
    | succ n =>
      unfold peaks
      rw [ih ((n+1)/2) (by omega) (pair H f) (pair H g)
        (fun m hm => by unfold pair; rw [hfg (2*m) (by omega), hfg (2*m+1) (by omega)]), hfg n (by omega)]

/-- operations of a history (batch mutations: see `TF/Props/C11.lean`) -/
inductive Op (D : Type) where
  | append (x : D)
  | mutate (i : Nat) (x : D)

/-- the leaf list (count, leaves) after an operation -/
def specStep (st : Nat × (Nat → D)) : Op D → Nat × (Nat → D)
  | .append x => (st.1 + 1, update st.2 st.1 x)
  | .mutate i x => (st.1, update st.2 i x)

def specRun (st : Nat × (Nat → D)) (ops : List (Op D)) : Nat × (Nat → D) := ops.foldl specStep st

/-- the operation is admissible on a list of `n` leaves -/
def opOk (n : Nat) : Op D → Prop
  | .append _ => n + 1 < 2^64
  | .mutate i _ => i < n ∧ n < 2^64

/-- the leaf count after an operation -/
def nextCount (n : Nat) : Op D → Nat
  | .append _ => n + 1
  | .mutate _ _ => n

/-- all operations of the history are admissible at the moment they are carried out -/
def histOk : (n : Nat) → List (Op D) → Prop
  | _, [] => True
  | n, op :: rest => opOk n op ∧ histOk (nextCount n op) rest

/-- one step of the accumulator; a mutation is carried out with the from-scratch membership proof of the leaf
    in the current leaf list -/
def modelStep (st : Nat × (Nat → D)) (a : Acc D) : Op D → Option (Acc D)
  | .append x => (append H a x).map Prod.fst
  | .mutate i x =>
    match authPath H st.1 st.2 i with
    | some ap => mutate_leaf H a { leaf_index := i, new_leaf := x, auth := ap }
    | none => none

def modelRun : (st : Nat × (Nat → D)) → (a : Acc D) → List (Op D) → Option (Acc D)
  | _, a, [] => some a
  | st, a, op :: rest =>
    match modelStep H st a op with
    | some a' => modelRun (specStep st op) a' rest
    | none => none

theorem specStep_count (n : Nat) (f : Nat → D) (op : Op D) : (specStep (n, f) op).1 = nextCount n op := by
  cases op <;> rfl

theorem authPath_isSome (f : Nat → D) (n i : Nat) (hin : i < n) : ∃ ap, authPath H n f i = some ap := by
  have hnK := lt_two_pow_log2_succ n
  have hl := leafPos_closed (Nat.log2 n + 1) n i hin hnK
  exact ⟨_, authPathAux_of_leafPos H f n i _ 0 0 _ _ _ (Nat.zero_le _) hl⟩

theorem step_refines_op (n : Nat) (f : Nat → D) (op : Op D) (hok : opOk n op) :
    modelStep H (n, f) { leaf_count := n, peaks := peaks H n f } op
      = some { leaf_count := (specStep (n, f) op).1, peaks := peaks H (specStep (n, f) op).1 (specStep (n, f) op).2 } := by
  cases op with
  | append x =>
    have h1 : peaks H n f = peaks H n (update f n x) :=
      peaks_congr H n f (update f n x) (fun m hm => by unfold update; rw [if_neg (by omega)])
    have h2 : update f n x n = x := by unfold update; rw [if_pos rfl]
    have := step_refines H n hok (update f n x)
    rw [← h1, h2] at this
    exact this
  | mutate i x =>
    obtain ⟨hin, hn⟩ := hok
    obtain ⟨ap, hap⟩ := authPath_isSome H f n i hin
    show (match authPath H n f i with
      | some ap => mutate_leaf H _ { leaf_index := i, new_leaf := x, auth := ap }
      | none => none) = _
    rw [hap]
    exact mutate_leaf_refines_model H f x n i hin hn ap hap

/-- **history theorem**: after any admissible history of appends and leaf mutations (with valid proofs) from an
    accumulator holding the from-scratch peaks of `n` leaves, the accumulator holds the leaf count and the
    from-scratch peaks of the current leaf list -/
theorem history_refines_model : ∀ (ops : List (Op D)) (n : Nat) (f : Nat → D), histOk n ops →
    modelRun H (n, f) { leaf_count := n, peaks := peaks H n f } ops
      = some { leaf_count := (specRun (n, f) ops).1, peaks := peaks H (specRun (n, f) ops).1 (specRun (n, f) ops).2 } := by
  intro ops
  induction ops with
  | nil => intro n f _; rfl
  | cons op rest ih =>
    intro n f hok
    obtain ⟨h1, h2⟩ := hok
    unfold modelRun
    rw [step_refines_op H n f op h1]
    rw [← specStep_count n f op] at h2
    exact ih (specStep (n, f) op).1 (specStep (n, f) op).2 h2

/-! ### `verify_batch_update`: repeated or out-of-range indices -/

theorem verify_false_of_not_unique [BEq D] (a : Acc D) (np app : List D) (muts : List (LeafMutation D))
    (h : allUnique (muts.map (·.leaf_index)) = false) : verify_batch_update H a np app muts = some false := by
  unfold verify_batch_update
  simp only [h, Bool.not_false, if_true]

theorem verify_false_of_oob [BEq D] (a : Acc D) (np app : List D) (muts : List (LeafMutation D))
    (m : LeafMutation D) (hm : m ∈ muts) (hoob : a.leaf_count ≤ m.leaf_index) :
    verify_batch_update H a np app muts = some false := by
  unfold verify_batch_update
  by_cases hu : allUnique (muts.map (·.leaf_index)) = true
  · have hne : (muts.map (·.leaf_index)).isEmpty = false := by
      cases muts with
      | nil => simp at hm
      | cons _ _ => rfl
    have hany : (muts.map (·.leaf_index)).any (· ≥ a.leaf_count) = true := by
      rw [List.any_eq_true]
      exact ⟨m.leaf_index, List.mem_map.mpr ⟨m, hm, rfl⟩, by simpa using hoob⟩
    simp only [hu, hne, hany, Bool.not_true, Bool.not_false, Bool.and_true, Bool.or_true, if_true]
    rfl
  · have : allUnique (muts.map (·.leaf_index)) = false := by simpa using hu
    simp only [this, Bool.not_false, if_true]

/-! ### small cases of the batch operations -/

theorem batch_empty [BEq D] (a : Acc D) :
    batch_mutate_leaf_and_update_mps H a [] [] [] = some (a, [], []) := by
  cases a; rfl

theorem verify_no_mutations [BEq D] (a : Acc D) (np apps : List D) :
    verify_batch_update H a np apps [] =
      (verifyAppendLoop H apps a.leaf_count a.peaks).map fun peaks2 => peaks2 == np := by
  unfold verify_batch_update
  cases h : a.is_empty <;> rfl

theorem verifyAppendLoop_one (n : Nat) (ps : List D) (x : D) :
    verifyAppendLoop H [x] n ps = (calculate_new_peaks_from_append H n ps x).bind fun r => some r.1 := rfl

theorem verify_one_append [BEq D] (n : Nat) (hn : n + 1 < 2^64) (f : Nat → D) (np : List D) :
    verify_batch_update H { leaf_count := n, peaks := peaks H n f } np [f n] []
      = some (peaks H (n+1) f == np) := by
  obtain ⟨ap, h⟩ := calc_append_refines H n hn f
  rewrite [verify_no_mutations, verifyAppendLoop_one]
  show ((calculate_new_peaks_from_append H n (peaks H n f) (f n)).bind fun r => some r.1).map _ = _
  rewrite [h]
  rfl

end TF.MmrAccP
