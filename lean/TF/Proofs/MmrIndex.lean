import Mathlib.Tactic.Ring
import Mathlib.Tactic.Linarith
import TF.Gen.MmrIndex
import TF.Model.MmrIndex
import TF.Spec.MmrIndex
/-!
# C16, part 1: closed forms of the translated (loop-free) MMR index functions

Everything here is about `TF/Gen/MmrIndex.lean`, which is regenerated from `shared_basic.rs` / `shared_advanced.rs`
on every run: bit-level facts (`popCount`, `trailingOnes`, lowest zero bit, highest differing bit) and, for each
translated function, its closed form on the documented domain together with its `_ok` predicate
(no overflow / no failing `assert!`, so debug and release builds agree with exact arithmetic).

Big literals: never `congr`/`rw` under a goal containing `18446744073709551616` (unification unfolds `%`);
use `simp only` with prepared equations and helper lemmas over a generalised power `p = 2^h`.
-/
namespace TF.Mmr
open TF TF.Gen

theorem popCount_zero : popCount 0 = 0 := by unfold popCount; rfl
theorem popCount_succ (n : Nat) : popCount (n+1) = (n+1) % 2 + popCount ((n+1)/2) := by
  rw [popCount]
theorem popCount_eq (n : Nat) : popCount n = n % 2 + popCount (n/2) := by
  cases n with
  | zero => simp [popCount_zero]
  | succ n => exact popCount_succ n

theorem popCount_le (n : Nat) : popCount n ≤ n := by
  induction n using Nat.strongRecOn with
  | _ n ih =>
    cases n with
    | zero => simp [popCount_zero]
    | succ n =>
      rw [popCount_succ]
      have := ih ((n+1)/2) (by omega)
      omega

theorem trailingOnes_zero : trailingOnes 0 = 0 := by unfold trailingOnes; rfl
theorem trailingOnes_even (n : Nat) (h : n % 2 = 0) : trailingOnes n = 0 := by
  cases n with
  | zero => exact trailingOnes_zero
  | succ n => rw [trailingOnes]; simp; omega
theorem trailingOnes_odd (n : Nat) (h : n % 2 = 1) : trailingOnes n = trailingOnes (n/2) + 1 := by
  cases n with
  | zero => omega
  | succ n => rw [trailingOnes]; simp [h]

/-- `x &&& y` one bit at a time -/
theorem and_bit (x y : Nat) : x &&& y = 2 * ((x/2) &&& (y/2)) + (if x % 2 = 1 ∧ y % 2 = 1 then 1 else 0) := by
  have h1 := @Nat.and_div_two x y
  have h2 := @Nat.and_mod_two_eq_one x y
  have h3 := Nat.div_add_mod (x &&& y) 2
  rw [h1] at h3
  by_cases h : x % 2 = 1 ∧ y % 2 = 1
  · rw [if_pos h]; have := h2.mpr h; omega
  · rw [if_neg h]; have : ¬ ((x &&& y) % 2 = 1) := fun hh => h (h2.mp hh); omega

/-- a number and its complement within `k` bits have no common bit -/
theorem and_compl (k j : Nat) (h : j < 2^k) : j &&& (2^k - 1 - j) = 0 := by
  apply Nat.eq_of_testBit_eq
  intro i
  have : 2^k - 1 - j = 2^k - (j+1) := by omega
  rw [this, Nat.testBit_and, Nat.testBit_two_pow_sub_succ h]
  simp
  intro h1 _
  exact h1

/-- isolating the lowest zero bit: `(i+1) & !i = 2^(trailing ones of i)` in `w`-bit arithmetic -/
theorem lowest_zero_bit (w : Nat) : ∀ i, i + 1 < 2^w → (i+1) &&& (2^w - 1 - i) = 2^(trailingOnes i) := by
  induction w with
  | zero => intro i h; simp at h
  | succ w ih =>
    intro i h
    have hp : 2^(w+1) = 2 * 2^w := by rw [Nat.pow_succ]; omega
    rw [and_bit]
    by_cases hi : i % 2 = 0
    · rw [trailingOnes_even i hi]
      have h1 : (i+1)/2 = i/2 := by omega
      have h2 : (2^(w+1) - 1 - i)/2 = 2^w - 1 - i/2 := by omega
      rw [h1, h2, and_compl w (i/2) (by omega)]
      have : (i+1) % 2 = 1 ∧ (2^(w+1) - 1 - i) % 2 = 1 := by omega
      rw [if_pos this]; rfl
    · have hi : i % 2 = 1 := by omega
      rw [trailingOnes_odd i hi]
      have h1 : (i+1)/2 = i/2 + 1 := by omega
      have h2 : (2^(w+1) - 1 - i)/2 = 2^w - 1 - i/2 := by omega
      rw [h1, h2, ih (i/2) (by omega)]
      have : ¬ ((i+1) % 2 = 1 ∧ (2^(w+1) - 1 - i) % 2 = 1) := by omega
      rw [if_neg this, Nat.pow_succ]; omega

theorem trailingOnes_lt (w : Nat) : ∀ i, i + 1 < 2^w → trailingOnes i < w := by
  induction w with
  | zero => intro i h; simp at h
  | succ w ih =>
    intro i h
    have hp : 2^(w+1) = 2 * 2^w := by rw [Nat.pow_succ]; omega
    by_cases hi : i % 2 = 0
    · rw [trailingOnes_even i hi]; omega
    · rw [trailingOnes_odd i (by omega)]
      have := ih (i/2) (by omega)
      omega

theorem bitLen_two_pow (t : Nat) : bitLen (2^t) = t + 1 := by
  unfold bitLen
  have : 2^t ≠ 0 := Nat.ne_of_gt (Nat.two_pow_pos t)
  simp [Nat.log2_two_pow]

theorem rll_leaf_spec (i : Nat) (h : i + 1 < 2^64) :
    right_lineage_length_from_leaf_index i = trailingOnes i ∧ right_lineage_length_from_leaf_index_ok i = true := by
  have hl := lowest_zero_bit 64 i h
  have ht := trailingOnes_lt 64 i h
  have e1 : (i + 1) % 18446744073709551616 = i + 1 := by omega
  have e2 : 18446744073709551615 - i = 2^64 - 1 - i := by omega
  unfold right_lineage_length_from_leaf_index right_lineage_length_from_leaf_index_ok
  simp only [e1, e2, hl, bitLen_two_pow, Bool.and_eq_true, decide_eq_true_eq]
  omega

theorem log2_lt_64 (n : Nat) (h1 : 1 ≤ n) (h2 : n < 2^64) : Nat.log2 n < 64 :=
  (Nat.log2_lt (by omega)).mpr h2

theorem bitLen_pos (n : Nat) (h1 : 1 ≤ n) : bitLen n = Nat.log2 n + 1 := by
  unfold bitLen; rw [if_neg (by omega)]

theorem two_pow_lt_W (k : Nat) (h : k < 64) : 2^k < 18446744073709551616 := by
  have : (18446744073709551616 : Nat) = 2^64 := by decide
  rw [this]; exact Nat.pow_lt_pow_right (by decide) h

theorem leftmost_ancestor_spec (n : Nat) (h1 : 1 ≤ n) (h2 : n < 2^64) :
    leftmost_ancestor n = (2^(Nat.log2 n + 1) - 1, Nat.log2 n) ∧ leftmost_ancestor_ok n = true := by
  have hk := log2_lt_64 n h1 h2
  have hb := bitLen_pos n h1
  unfold leftmost_ancestor leftmost_ancestor_ok
  rw [hb]
  generalize Nat.log2 n = k at *
  by_cases hk63 : k = 63
  · subst hk63; decide
  · have e1 : ¬ ((64 - (k+1) == 0) = true) := by simp; omega
    have e2 : (((64 + 4294967296 - (64 - (k + 1))) % 4294967296) + 4294967296 - 1) % 4294967296 = k := by omega
    have e3 : ((k+1) % 4294967296) % 64 = k+1 := by omega
    have e4 := two_pow_lt_W (k+1) (by omega)
    have e5 := Nat.two_pow_pos (k+1)
    rw [if_neg e1, if_neg e1]
    simp only [e2, e3]
    generalize 2^(k+1) = p at *
    refine ⟨?_, ?_⟩
    · simp only [Prod.mk.injEq, and_true]; omega
    · simp only [Bool.and_eq_true, decide_eq_true_eq]; omega

theorem popCount_split (h : Nat) : ∀ n, popCount n = popCount (n / 2^h) + popCount (n % 2^h) := by
  induction h with
  | zero => intro n; simp [Nat.mod_one, popCount_zero]
  | succ h ih =>
    intro n
    have e1 : n / 2^(h+1) = n / 2 / 2^h := by rw [Nat.div_div_eq_div_mul, Nat.pow_succ, Nat.mul_comm]
    have e2 : n % 2^(h+1) / 2 = n / 2 % 2^h := by
      rw [Nat.pow_succ, Nat.mul_comm]; exact Nat.mod_mul_right_div_self n 2 (2^h)
    have e3 : n % 2^(h+1) % 2 = n % 2 := by
      rw [Nat.pow_succ]; exact Nat.mod_mul_left_mod n (2^h) 2
    rw [popCount_eq n, ih (n/2), popCount_eq (n % 2^(h+1)), e1, e2, e3]; omega

theorem popCount_le_bits (k : Nat) : ∀ n, n < 2^k → popCount n ≤ k := by
  induction k with
  | zero => intro n h; have : n = 0 := by omega
            subst this; simp [popCount_zero]
  | succ k ih =>
    intro n h
    rw [popCount_eq]
    have := ih (n/2) (by rw [Nat.pow_succ] at h; omega)
    omega

theorem xor_eq_zero_imp {x y : Nat} (h : x ^^^ y = 0) : x = y := by
  apply Nat.eq_of_testBit_eq; intro i
  have := congrArg (fun z => z.testBit i) h
  simp at this
  exact this

/-- bit `h` of `x` in terms of the remainder modulo `2^(h+1)` -/
theorem bit_of_mod (x P : Nat) (hP : 0 < P) : x / P % 2 = if P ≤ x % (P * 2) then 1 else 0 := by
  rw [← Nat.mod_mul_right_div_self]
  have hlt : x % (P * 2) < P * 2 := Nat.mod_lt _ (by omega)
  by_cases hc : P ≤ x % (P * 2)
  · rw [if_pos hc]; exact Nat.div_eq_of_lt_le (by omega) (by omega)
  · rw [if_neg hc]; exact Nat.div_eq_of_lt (by omega)

/-- what the highest differing bit `h` of `i < n` says: above it the numbers agree, at `h` the bit of `n` is set and
    the bit of `i` is not -/
theorem xor_log2_facts (i n : Nat) (hlt : i < n) :
    let h := (i ^^^ n).log2
    i / 2^(h+1) = n / 2^(h+1) ∧ n / 2^h % 2 = 1 ∧ i / 2^h % 2 = 0 := by
  intro h
  have hd : i ^^^ n ≠ 0 := fun e => by have := xor_eq_zero_imp e; omega
  have hlt2 : i ^^^ n < 2^(h+1) := (Nat.log2_lt hd).mp (Nat.lt_succ_self _)
  have ha : i / 2^(h+1) = n / 2^(h+1) := by
    apply xor_eq_zero_imp
    rw [← Nat.xor_div_two_pow]; exact Nat.div_eq_of_lt hlt2
  have hb : (i ^^^ n).testBit h = true := Nat.testBit_log2 hd
  rw [Nat.testBit_xor, Nat.testBit_eq_decide_div_mod_eq, Nat.testBit_eq_decide_div_mod_eq] at hb
  have hP := Nat.two_pow_pos h
  have bi := bit_of_mod i (2^h) hP
  have bn := bit_of_mod n (2^h) hP
  have di := Nat.div_add_mod i (2^h * 2)
  have dn := Nat.div_add_mod n (2^h * 2)
  have hpow : 2^(h+1) = 2^h * 2 := Nat.pow_succ 2 h
  rw [hpow] at ha
  rw [ha] at di
  refine ⟨by rw [hpow]; exact ha, ?_, ?_⟩
  · rw [bn, bi] at hb
    rw [bn]
    by_cases c1 : 2^h ≤ n % (2^h * 2)
    · simp [c1]
    · by_cases c2 : 2^h ≤ i % (2^h * 2)
      · exfalso; omega
      · simp [c1, c2] at hb
  · rw [bn, bi] at hb
    rw [bi]
    by_cases c2 : 2^h ≤ i % (2^h * 2)
    · by_cases c1 : 2^h ≤ n % (2^h * 2)
      · simp [c1, c2] at hb
      · exfalso; omega
    · simp [c2]


theorem wrap_dec (p : Nat) (h1 : 0 < p) (h2 : p < 18446744073709551616) :
    (p + 18446744073709551616 - 1) % 18446744073709551616 = p - 1 := by omega
theorem wrap_add (r p : Nat) (h1 : r < p) (h2 : p ≤ 9223372036854775808) :
    (r + p) % 18446744073709551616 = p + r := by omega

theorem two_pow_le_half (k : Nat) (h : k < 64) : 2^k ≤ 9223372036854775808 := by
  have : (9223372036854775808 : Nat) = 2^63 := by decide
  rw [this]; exact Nat.pow_le_pow_right (by decide) (by omega)

theorem mt_spec (i n : Nat) (hin : i < n) (hn : n < 2^64) :
    leaf_index_to_mt_index_and_peak_index i n
      = (2^(i ^^^ n).log2 + i % 2^(i ^^^ n).log2, popCount (n / 2^((i ^^^ n).log2+1))) ∧
    leaf_index_to_mt_index_and_peak_index_ok i n = true := by
  have hd : i ^^^ n ≠ 0 := fun e => by have := xor_eq_zero_imp e; omega
  have hd64 : i ^^^ n < 2^64 := Nat.xor_lt_two_pow (by omega) hn
  have hh64 : (i ^^^ n).log2 < 64 := (Nat.log2_lt hd).mpr hd64
  obtain ⟨fa, fb, fc⟩ := xor_log2_facts i n hin
  unfold leaf_index_to_mt_index_and_peak_index leaf_index_to_mt_index_and_peak_index_ok
  dsimp only
  generalize (i ^^^ n).log2 = h at *
  have hW := two_pow_lt_W h hh64
  have hP := Nat.two_pow_pos h
  have e1 : 2^h % 18446744073709551616 = 2^h := Nat.mod_eq_of_lt hW
  have e2 := wrap_dec (2^h) hP hW
  have e3 : (2^h - 1) &&& i = i % 2^h := by rw [Nat.and_comm]; exact Nat.and_two_pow_sub_one_eq_mod i h
  have e4 : n &&& (2^h - 1) = n % 2^h := Nat.and_two_pow_sub_one_eq_mod n h
  have hi : i % 2^h < 2^h := Nat.mod_lt _ hP
  have e5 := wrap_add (i % 2^h) (2^h) hi (two_pow_le_half h hh64)
  have s1 := popCount_split h n
  have s2 := popCount_eq (n / 2^h)
  have s3 : n / 2^h / 2 = n / 2^(h+1) := by rw [Nat.div_div_eq_div_mul, Nat.pow_succ]
  rw [s3, fb] at s2
  have s4 := popCount_le_bits 64 n hn
  have e7 : ((popCount n + 4294967296 - popCount (n % 2^h)) % 4294967296) = 1 + popCount (n / 2^(h+1)) := by omega
  have e6 : (1 + popCount (n / 2^(h+1)) + 4294967296 - 1) % 4294967296 = popCount (n / 2^(h+1)) := by omega
  simp only [e1, e2, e3, e4, e5, e6, e7, Bool.and_eq_true, decide_eq_true_eq, bne_iff_ne, ne_eq]
  have hle := two_pow_le_half h hh64
  refine ⟨trivial, hin, hd, hW, hP, ?_, ?_, ?_⟩ <;> omega

/-! ### the remaining closed forms -/

theorem num_nodes_spec (n : Nat) (h : n < 2^63) :
    num_leafs_to_num_nodes n = 2 * n - popCount n ∧ num_leafs_to_num_nodes_ok n = true := by
  have := popCount_le n
  unfold num_leafs_to_num_nodes num_leafs_to_num_nodes_ok
  simp only [Bool.and_eq_true, decide_eq_true_eq]
  omega

theorem l2n_spec (i : Nat) (h : i < 2^63) :
    leaf_index_to_node_index i = 2 * i - popCount i + 1 ∧ leaf_index_to_node_index_ok i = true := by
  have := popCount_le i
  unfold leaf_index_to_node_index leaf_index_to_node_index_ok
  simp only [Bool.and_eq_true, decide_eq_true_eq]
  omega

theorem left_child_spec (n h : Nat) (hh : h < 64) (hn : n < 2^64) (hle : 2^h ≤ n) :
    left_child n h = n - 2^h ∧ left_child_ok n h = true := by
  have e0 : h % 64 = h := Nat.mod_eq_of_lt hh
  have hW := two_pow_lt_W h hh
  have e1 : 1 * 2^h % 18446744073709551616 = 2^h := by rw [Nat.one_mul]; exact Nat.mod_eq_of_lt hW
  unfold left_child left_child_ok
  simp only [e0, e1, Bool.and_eq_true, decide_eq_true_eq]
  generalize 2^h = p at *
  omega

theorem left_child_ok_iff (n h : Nat) : left_child_ok n h = true ↔ h < 64 ∧ 2^h ≤ n := by
  unfold left_child_ok
  simp only [Bool.and_eq_true, decide_eq_true_eq]
  constructor
  · rintro ⟨h1, h2⟩
    have e0 : h % 64 = h := Nat.mod_eq_of_lt h1
    have hW := two_pow_lt_W h h1
    rw [e0, Nat.one_mul, Nat.mod_eq_of_lt hW] at h2
    exact ⟨h1, h2⟩
  · rintro ⟨h1, h2⟩
    have e0 : h % 64 = h := Nat.mod_eq_of_lt h1
    have hW := two_pow_lt_W h h1
    rw [e0, Nat.one_mul, Nat.mod_eq_of_lt hW]
    exact ⟨h1, h2⟩

theorem right_child_spec (n : Nat) (h1 : 1 ≤ n) (hn : n < 2^64) :
    right_child n = n - 1 ∧ right_child_ok n = true := by
  unfold right_child right_child_ok
  simp only [decide_eq_true_eq]
  omega

theorem left_sibling_spec (n h : Nat) (hh : h < 63) (hn : n < 2^64) (hle : 2^(h+1) ≤ n) :
    left_sibling n h = n - 2^(h+1) + 1 ∧ left_sibling_ok n h = true := by
  have e0 : (h + 1) % 64 = h + 1 := by omega
  have e0' : (h + 1) % 4294967296 = h + 1 := by omega
  have hW := two_pow_lt_W (h+1) (by omega)
  have hP := Nat.two_pow_pos (h+1)
  have e1 : 1 * 2^(h+1) % 18446744073709551616 = 2^(h+1) := by rw [Nat.one_mul]; exact Nat.mod_eq_of_lt hW
  unfold left_sibling left_sibling_ok
  simp only [e0, e1, e0', Bool.and_eq_true, decide_eq_true_eq]
  generalize 2^(h+1) = p at *
  omega

theorem right_sibling_spec (n h : Nat) (hh : h < 63) (hs : n + 2^(h+1) < 2^64 + 1) :
    right_sibling n h = n + 2^(h+1) - 1 ∧ (n + 2^(h+1) < 2^64 → right_sibling_ok n h = true) := by
  have e0 : (h + 1) % 64 = h + 1 := by omega
  have e0' : (h + 1) % 4294967296 = h + 1 := by omega
  have hW := two_pow_lt_W (h+1) (by omega)
  have hP := Nat.two_pow_pos (h+1)
  have e1 : 1 * 2^(h+1) % 18446744073709551616 = 2^(h+1) := by rw [Nat.one_mul]; exact Nat.mod_eq_of_lt hW
  unfold right_sibling right_sibling_ok
  simp only [e0, e1, e0', Bool.and_eq_true, decide_eq_true_eq]
  generalize 2^(h+1) = p at *
  omega

end TF.Mmr
