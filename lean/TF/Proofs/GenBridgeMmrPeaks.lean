import TF.Gen.MmrPeaksLoops
import TF.Model.MmrAcc
import TF.Proofs.MmrIndex
/-!
# Bridge: the MMR peak calculations *as regenerated from source* = the hand-written model (C11)

`TF/Gen/MmrPeaksLoops.lean` is written by `tools/rs2lean_bt4.py` from the text of `shared_basic.rs` on every run, with the
digest type opaque (`D`), `Tip5::hash_pair` the parameter `H` and `d0` the value read after a panic (`pop` on an empty
vector / index out of range — the `_ok` twin is false there).  The hand model (`TF/Model/MmrAcc.lean`) returns `none`
for a panic.  With `outcome ok v = if ok then v else none` the theorems say, for **every** `H`, `d0` and input,

    outcome (Loops.f_ok ..) (Loops.f ..) = Model.f ..

so the C11 theorems are theorems about the current source text: a one-token change of a translated function changes
`Loops.mmr_*`, and these proofs are re-checked or break.
-/
namespace TF.GenBridge.MmrPeaks
open TF TF.Gen TF.Model.MmrAcc

/-- the result of a regenerated function: `none` when its `_ok` flag says the Rust code panicked -/
def outcome {α : Type} (ok : Bool) (v : Option α) : Option α := if ok then v else none

theorem outcome_true {α : Type} (v : Option α) : outcome true v = v := rfl
theorem outcome_false {α : Type} (v : Option α) : outcome false v = none := rfl
theorem outcome_and {α : Type} (a b : Bool) (v : Option α) : outcome (a && b) v = if a then outcome b v else none := by
  cases a <;> rfl
theorem outcome_bind {α β : Type} (ok : Bool) (v : Option α) (g : α → Option β) :
    outcome ok (v.bind g) = (outcome ok v).bind g := by
  cases ok <;> rfl

theorem outcome_eq_some {α : Type} {ok : Bool} {v : Option α} {x : α} (h : outcome ok v = some x) :
    ok = true ∧ v = some x := by
  cases ok with
  | false => cases h
  | true => exact ⟨rfl, h⟩

variable {D : Type} (H : D → D → D) (d0 : D)

theorem pop_rev (a : D) (l : List D) : TF.RustIter.popVal ((a :: l).reverse) d0 = a := by
  simp [TF.RustIter.popVal]
theorem dropLast_rev (a : D) (l : List D) : ((a :: l).reverse).dropLast = l.reverse := by
  simp
theorem isEmpty_rev (a : D) (l : List D) : ((a :: l).reverse).isEmpty = false := by
  simp

/-! ### `calculate_new_peaks_from_append` -/

/-- the regenerated merge loop on the peak vector (`pop`/`push` at the end) = the hand model's loop on the reversed list -/
theorem append_loop_eq : ∀ (t f : Nat) (st ap : List D), t < f → t < 4294967296 →
    outcome (Loops.mmr_calculate_new_peaks_from_append_loop_ok H d0 f st.reverse t ap)
        (Loops.mmr_calculate_new_peaks_from_append_loop H d0 f st.reverse t ap)
      = (mergeLoop H t st ap).map (fun r => (r.1.reverse, 0, r.2)) := by
  intro t
  induction t with
  | zero =>
    intro f st ap hf _
    obtain ⟨f, rfl⟩ : ∃ g, f = g + 1 := ⟨f - 1, by omega⟩
    rw [Loops.mmr_calculate_new_peaks_from_append_loop, Loops.mmr_calculate_new_peaks_from_append_loop_ok]
    rfl
  | succ t ih =>
    intro f st ap hf ht
    obtain ⟨f, rfl⟩ : ∃ g, f = g + 1 := ⟨f - 1, by omega⟩
    rw [Loops.mmr_calculate_new_peaks_from_append_loop, Loops.mmr_calculate_new_peaks_from_append_loop_ok]
    have hne : (t + 1 != 0) = true := by simp
    have hdec : (t + 1 + 4294967296 - 1) % 4294967296 = t := by omega
    have hle : decide (1 ≤ t + 1) = true := by simp
    rw [if_pos hne, if_pos hne]
    match st with
    | [] => rfl
    | [a] =>
      have h1 : ([a] : List D).reverse = [a] := rfl
      rw [h1]
      rfl
    | a :: b :: rest =>
      have e1 : TF.RustIter.popVal (a :: b :: rest).reverse d0 = a := pop_rev d0 a _
      have e2 : ((a :: b :: rest).reverse).dropLast = (b :: rest).reverse := dropLast_rev a _
      have e3 : TF.RustIter.popVal (b :: rest).reverse d0 = b := pop_rev d0 b _
      have e4 : ((b :: rest).reverse).dropLast = rest.reverse := dropLast_rev b _
      have e5 : ((a :: b :: rest).reverse).isEmpty = false := isEmpty_rev a _
      have e6 : ((b :: rest).reverse).isEmpty = false := isEmpty_rev b _
      have e7 : rest.reverse ++ [H b a] = (H b a :: rest).reverse := by simp
      simp only [e1, e2, e3, e4, e5, e6, e7, hdec, hle, Bool.not_false, Bool.true_and]
      rw [ih f (H b a :: rest) (ap ++ [b]) (by omega) (by omega)]
      rfl

/-- **`calculate_new_peaks_from_append`** regenerated from source = hand model (a panic is `none`), every `H`, every input
    with a `u64` leaf count that can be incremented -/
theorem gen_append_eq (n : Nat) (peaks : List D) (leaf : D) (h : n + 1 < 2 ^ 64) :
    outcome (Loops.mmr_calculate_new_peaks_from_append_ok H d0 n peaks leaf)
        (Loops.mmr_calculate_new_peaks_from_append H d0 n peaks leaf)
      = calculate_new_peaks_from_append H n peaks leaf := by
  have hrl := (TF.Mmr.rll_leaf_spec n h).2
  have hlt : right_lineage_length_from_leaf_index n < 4294967296 := by
    unfold right_lineage_length_from_leaf_index
    exact Nat.mod_lt _ (by decide)
  have hpk : peaks ++ [leaf] = (leaf :: peaks.reverse).reverse := by simp
  unfold Loops.mmr_calculate_new_peaks_from_append Loops.mmr_calculate_new_peaks_from_append_ok
    calculate_new_peaks_from_append appendWith
  simp only [hrl, Bool.true_and, hpk]
  rw [outcome_bind, append_loop_eq H d0 _ _ _ _ (Nat.lt_succ_self _) hlt]
  cases mergeLoop H (right_lineage_length_from_leaf_index n) (leaf :: peaks.reverse) [] with
  | none => rfl
  | some r => rfl

/-! ### `calculate_new_peaks_from_leaf_mutation` -/

theorem foldPath_zero : ∀ (ap : List D) (acc : D), foldPath H 0 acc ap = none := by
  intro ap
  induction ap with
  | nil => intro acc; rfl
  | cons a rest ih =>
    intro acc
    rw [foldPath]
    simp only [Nat.zero_ne_one, if_false, Nat.zero_div]
    exact ih _

/-- with `acc_mt_index = 0` the regenerated loop never returns a value: it runs out of the path (panic) or of fuel -/
theorem mut_loop_zero (ap : List D) : ∀ (f : Nat) (acc : D) (i : Nat),
    outcome (Loops.mmr_calculate_new_peaks_from_leaf_mutation_loop_ok H d0 ap f 0 acc i)
      (Loops.mmr_calculate_new_peaks_from_leaf_mutation_loop H d0 ap f 0 acc i) = none := by
  intro f
  induction f with
  | zero => intro acc i; rfl
  | succ f ih =>
    intro acc i
    rw [Loops.mmr_calculate_new_peaks_from_leaf_mutation_loop, Loops.mmr_calculate_new_peaks_from_leaf_mutation_loop_ok]
    have h01 : ((0 : Nat) != 1) = true := rfl
    rw [if_pos h01, if_pos h01]
    have h02 : ((0 : Nat) % 2 == 1) = false := rfl
    simp only [outcome_and, Nat.zero_div, h02, Bool.false_eq_true, if_false]
    repeat' split
    all_goals first | exact ih _ _ | rfl

theorem drop_cons_getD (ap : List D) (i : Nat) (h : i < ap.length) : ap.drop i = ap.getD i d0 :: ap.drop (i + 1) := by
  rw [List.drop_eq_getElem_cons h]
  simp [List.getD_eq_getElem?_getD, List.getElem?_eq_getElem h]

/-- the regenerated path-folding loop (indexing `authentication_path[i]`) = the hand model's recursion over the rest of the
    path, as long as the fuel covers the halvings -/
theorem mut_loop_eq (ap : List D) (hap : ap.length < 2 ^ 64) : ∀ (f mt : Nat) (acc : D) (i : Nat), 1 ≤ mt → mt < 2 ^ f →
    (outcome (Loops.mmr_calculate_new_peaks_from_leaf_mutation_loop_ok H d0 ap f mt acc i)
      (Loops.mmr_calculate_new_peaks_from_leaf_mutation_loop H d0 ap f mt acc i)).map (fun t => t.2.1)
      = foldPath H mt acc (ap.drop i) := by
  intro f
  induction f with
  | zero => intro mt acc i h1 h2; simp at h2; omega
  | succ f ih =>
    intro mt acc i h1 h2
    rw [Loops.mmr_calculate_new_peaks_from_leaf_mutation_loop, Loops.mmr_calculate_new_peaks_from_leaf_mutation_loop_ok]
    by_cases hm : mt = 1
    · subst hm
      have h11 : ((1 : Nat) != 1) = false := rfl
      rw [if_neg (by simp), if_neg (by simp)]
      cases ap.drop i <;> rfl
    · have hne : (mt != 1) = true := by simpa using hm
      rw [if_pos hne, if_pos hne]
      by_cases hi : i < ap.length
      · have hd : decide (i < ap.length) = true := by simpa using hi
        have hi1 : decide (i + 1 < 18446744073709551616) = true := by
          simp only [decide_eq_true_eq]; have : (2:Nat)^64 = 18446744073709551616 := by decide
          omega
        have hmod : (i + 1) % 18446744073709551616 = i + 1 := Nat.mod_eq_of_lt (by
          have : (2:Nat)^64 = 18446744073709551616 := by decide
          omega)
        have h2ne : ((2 : Nat) != 0) = true := rfl
        have hacc : (if (mt % 2 == 1) = true then H (ap.getD i d0) acc else H acc (ap.getD i d0))
            = (if mt % 2 = 1 then H (ap.getD i d0) acc else H acc (ap.getD i d0)) := by
          by_cases hodd : mt % 2 = 1 <;> simp [hodd]
        simp only [hd, hi1, hmod, h2ne, Bool.true_and]
        rw [hacc, drop_cons_getD d0 ap i hi, foldPath, if_neg hm]
        have hhalf1 : 1 ≤ mt / 2 := by omega
        have hhalf2 : mt / 2 < 2 ^ f := by
          rw [Nat.pow_succ] at h2; omega
        have := ih (mt / 2) (if mt % 2 = 1 then H (ap.getD i d0) acc else H acc (ap.getD i d0)) (i + 1) hhalf1 hhalf2
        rw [← this]
      · have hd : decide (i < ap.length) = false := by simpa using hi
        simp only [hd, Bool.false_and, outcome_false, Option.map_none]
        rw [List.drop_of_length_le (by omega), foldPath, if_neg hm]

omit H d0 in
theorem mut_tail (lok : Bool) (l : Option (Nat × D × Nat)) (old_peaks : List D) (pidx : Nat) :
    outcome (lok && l.elim true fun _ => decide (pidx < old_peaks.length))
        (l.bind fun a => some (old_peaks.set pidx a.2.1))
      = (Option.map (fun t => t.2.1) (outcome lok l)).bind fun acc_hash => setAt? old_peaks pidx acc_hash := by
  cases lok with
  | false => rfl
  | true =>
    cases l with
    | none => rfl
    | some t =>
      simp only [Bool.true_and, Option.elim_some, outcome_true, Option.map_some, Option.bind_some, setAt?]
      by_cases hp : pidx < old_peaks.length
      · have : decide (pidx < old_peaks.length) = true := by simpa using hp
        rw [this, if_pos hp]; rfl
      · have : decide (pidx < old_peaks.length) = false := by simpa using hp
        rw [this, if_neg hp]; rfl

/-- **`calculate_new_peaks_from_leaf_mutation`** regenerated from source = hand model (a panic is `none`), every `H`, every
    input with `u64` counts -/
theorem gen_leaf_mutation_eq (old_peaks : List D) (leaf_count : Nat) (new_leaf : D) (leaf_index : Nat) (ap : List D)
    (hn : leaf_count < 2 ^ 64) (hap : ap.length < 2 ^ 64) :
    outcome (Loops.mmr_calculate_new_peaks_from_leaf_mutation_ok H d0 old_peaks leaf_count new_leaf leaf_index ap)
        (Loops.mmr_calculate_new_peaks_from_leaf_mutation H d0 old_peaks leaf_count new_leaf leaf_index ap)
      = calculate_new_peaks_from_leaf_mutation H old_peaks leaf_count new_leaf leaf_index ap := by
  unfold Loops.mmr_calculate_new_peaks_from_leaf_mutation Loops.mmr_calculate_new_peaks_from_leaf_mutation_ok
    calculate_new_peaks_from_leaf_mutation mutateWith
  by_cases hin : leaf_index < leaf_count
  · have hspec := TF.Mmr.mt_spec leaf_index leaf_count hin hn
    rw [if_pos hin]
    simp only [hspec.2, Bool.true_and]
    generalize hmt : (leaf_index_to_mt_index_and_peak_index leaf_index leaf_count).1 = mt
    generalize hpi : (leaf_index_to_mt_index_and_peak_index leaf_index leaf_count).2 = pidx
    have hd : leaf_index ^^^ leaf_count ≠ 0 := fun e => by have := TF.Mmr.xor_eq_zero_imp e; omega
    have hd64 : leaf_index ^^^ leaf_count < 2 ^ 64 := Nat.xor_lt_two_pow (by omega) hn
    have hh64 : (leaf_index ^^^ leaf_count).log2 < 64 := (Nat.log2_lt hd).mpr hd64
    have hmt' : mt = 2 ^ (leaf_index ^^^ leaf_count).log2 + leaf_index % 2 ^ (leaf_index ^^^ leaf_count).log2 := by
      rw [← hmt, hspec.1]
    have hpos : 0 < 2 ^ (leaf_index ^^^ leaf_count).log2 := Nat.two_pow_pos _
    have hmod := Nat.mod_lt leaf_index hpos
    have h1 : 1 ≤ mt := by omega
    have hmtlt : mt < 2 ^ 65 :=
      calc mt < 2 ^ ((leaf_index ^^^ leaf_count).log2 + 1) := by rw [Nat.pow_succ]; omega
        _ ≤ 2 ^ 65 := Nat.pow_le_pow_right (by decide) (by omega)
    have hloop := mut_loop_eq H d0 ap hap 65 mt new_leaf 0 h1 hmtlt
    rw [List.drop_zero] at hloop
    rw [← hloop]
    generalize Loops.mmr_calculate_new_peaks_from_leaf_mutation_loop_ok H d0 ap 65 mt new_leaf 0 = lok
    generalize Loops.mmr_calculate_new_peaks_from_leaf_mutation_loop H d0 ap 65 mt new_leaf 0 = l
    exact mut_tail lok l old_peaks pidx
  · rw [if_neg hin]
    have : leaf_index_to_mt_index_and_peak_index_ok leaf_index leaf_count = false := by
      unfold leaf_index_to_mt_index_and_peak_index_ok
      have : decide (leaf_index < leaf_count) = false := by simpa using hin
      rw [this]; rfl
    rw [this]
    rfl

/-! ### `bag_peaks` (P10): `next_back` twice, then `rev().fold(acc, |acc, &peak| hash_pair(peak, acc))` -/

/-- regenerated `shared::bag_peaks` = the hand model, for every hash, every list of peaks (no check can fail) -/
theorem gen_bag_peaks_eq (hash0 : D) (ps : List D) :
    Loops.mmr_bag_peaks H d0 hash0 ps = bag_peaks H hash0 ps ∧ Loops.mmr_bag_peaks_ok H d0 hash0 ps = true := by
  refine ⟨?_, rfl⟩
  unfold Loops.mmr_bag_peaks bag_peaks
  generalize hr : ps.reverse = r
  have hps : ps = r.reverse := by rw [← hr, List.reverse_reverse]
  subst hps
  cases r with
  | nil => rfl
  | cons a r =>
    have e1 : ((a :: r).reverse).isEmpty = false := by simp
    have e2 : ((a :: r).reverse).dropLast = r.reverse := by simp
    simp only [e1, Bool.false_eq_true, if_false, pop_rev, e2]
    cases r with
    | nil => rfl
    | cons b r =>
      have e3 : ((b :: r).reverse).isEmpty = false := by simp
      have e4 : ((b :: r).reverse).dropLast = r.reverse := by simp
      simp only [e3, Bool.false_eq_true, if_false, pop_rev, e4, List.reverse_reverse]

end TF.GenBridge.MmrPeaks
