import TF.Proofs.BFieldModel
import Mathlib.Data.ZMod.Basic
import Mathlib.Tactic.FieldSimp
import Mathlib.Tactic.Ring
/-!
Bridge from raw Montgomery words to the abstract field `ZMod P`: `toF r = (bfe_value r : ZMod P)` is a bijection
between canonical words and `ZMod P` that turns the translated word-level operations into the field operations.
Everything generic in the library (polynomials, NTT, Merkle-free algebra) reaches `BFieldElement` only through these
operators, so theorems proved for an arbitrary field apply to it.
-/
namespace TF.BF
open TF.Gen TF.Model TF.Spec

abbrev Fp := ZMod 18446744069414584321

def toF (r : Nat) : Fp := ((bfe_value r : ℕ) : Fp)

theorem cast_mod (n : Nat) : ((n % P : ℕ) : Fp) = (n : Fp) := ZMod.natCast_mod n 18446744069414584321

theorem toF_new (v : Nat) (hv : v < 2^64) : toF (bfe_new v) = (v : Fp) := by
  unfold toF; rw [(new_spec v hv).2]; exact cast_mod v

theorem toF_mul (a b : Nat) (ha : canon a) (hb : canon b) : toF (bfe_mul a b) = toF a * toF b := by
  unfold toF; rw [(mul_spec a b ha hb).2]
  have := cast_mod (bfe_value a * bfe_value b)
  rw [P_eq] at this
  rw [this]; push_cast; rfl

theorem toF_add (a b : Nat) (ha : canon a) (hb : canon b) : toF (bfe_add a b) = toF a + toF b := by
  unfold toF; rw [(add_spec a b ha hb).2]
  have := cast_mod (bfe_value a + bfe_value b)
  rw [P_eq] at this
  rw [this]; push_cast; rfl

theorem toF_sub (a b : Nat) (ha : canon a) (hb : canon b) : toF (bfe_sub a b) = toF a - toF b := by
  have h := (sub_spec a b ha hb).2
  have h2 : (((bfe_value (bfe_sub a b) + bfe_value b) % P : ℕ) : Fp) = toF a := by
    unfold toF; rw [← P_eq] at h; rw [h]
  rw [cast_mod] at h2
  push_cast at h2
  unfold toF at *
  rw [← h2]; ring

theorem toF_zero : toF BF.zero = 0 := by unfold toF; rw [show bfe_value BF.zero = 0 from val_zero]; simp
theorem toF_one : toF BF.one = 1 := by unfold toF; rw [show bfe_value BF.one = 1 from val_one]; simp

theorem toF_neg (a : Nat) (ha : canon a) : toF (BF.neg a) = - toF a := by
  unfold BF.neg; rw [toF_sub _ _ canon_zero ha, toF_zero]; ring

theorem toF_inj (a b : Nat) (ha : canon a) (hb : canon b) (h : toF a = toF b) : a = b := by
  apply repr_unique a b ha hb
  unfold toF at h
  rw [ZMod.natCast_eq_natCast_iff] at h
  unfold Nat.ModEq at h
  have h1 := value_lt a (Nat.lt_trans ha Pn_lt_W)
  have h2 := value_lt b (Nat.lt_trans hb Pn_lt_W)
  unfold Pn at h1 h2
  rw [Nat.mod_eq_of_lt h1, Nat.mod_eq_of_lt h2] at h
  exact h

theorem toF_eq_zero (a : Nat) (ha : canon a) : toF a = 0 ↔ a = BF.zero :=
  ⟨fun h => toF_inj a _ ha canon_zero (h.trans toF_zero.symm), fun h => by rw [h, toF_zero]⟩

theorem toF_modPow (a : Nat) (ha : canon a) (e : Nat) : toF (BF.modPow a e) = toF a ^ e := by
  unfold toF; rw [show bfe_value (BF.modPow a e) = bfe_value a ^ e % P from (modPow_value a ha e).2, cast_mod]; push_cast; rfl

/-- inversion on raw words is field inversion -/
theorem toF_inverse (x : Nat) (hx : canon x) (hnz : x ≠ BF.zero) :
    ∃ r, BF.inverse x = some r ∧ canon r ∧ toF r = (toF x)⁻¹ := by
  obtain ⟨r, hr, hc, hm⟩ := inverse_spec x hx hnz
  refine ⟨r, hr, hc, ?_⟩
  have : toF r * toF x = 1 := by
    unfold toF
    have h := congrArg (fun n : ℕ => (n : Fp)) hm
    simp only [fmul] at h
    rw [cast_mod] at h
    push_cast at h
    exact h
  exact eq_inv_of_mul_eq_one_left this

theorem inverse_zero : BF.inverse BF.zero = none := by unfold BF.inverse; simp

/-! ### batch inversion

The two loops are analysed for an arbitrary multiplicative map `φ` into a field (so that no tactic ever has to
compute inside `ZMod P`), then instantiated with `φ`. -/

section generic
variable {K : Type} [Field K] (φ : Nat → K)
  (hmul : ∀ a b, canon a → canon b → φ (bfe_mul a b) = φ a * φ b)
  (hzero : ∀ a, canon a → (φ a = 0 ↔ a = BF.zero))
include hmul hzero


theorem batchPrefix_spec_gen : ∀ (xs : List Nat) (acc : Nat), canon acc → (∀ x ∈ xs, canon x ∧ x ≠ BF.zero) →
    ∃ sc fin, BF.batchPrefix xs acc = some (sc, fin) ∧ canon fin ∧ sc.length = xs.length ∧
      φ fin = φ acc * (xs.map φ).prod ∧ (∀ s ∈ sc, canon s) ∧
      (∀ i (h : i < sc.length), φ (sc[i]) = φ acc * ((xs.take i).map φ).prod)
  | [], acc, hacc, _ => ⟨[], acc, rfl, hacc, rfl, by simp, by simp, by simp⟩
  | x :: xs, acc, hacc, h => by
    have hx := h x (by simp)
    have hne : (x == BF.zero) = false := by simpa using hx.2
    obtain ⟨sc, fin, e, hfin, hlen, hprod, hsc, hidx⟩ :=
      batchPrefix_spec_gen xs (bfe_mul acc x) (canon_mul _ _ hacc hx.1) (fun y hy => h y (by simp [hy]))
    refine ⟨acc :: sc, fin, ?_, hfin, by simp [hlen], ?_, ?_, ?_⟩
    · unfold BF.batchPrefix; simp [hne, e]
    · rw [hprod, hmul _ _ hacc hx.1]; simp [mul_assoc]
    · intro s hs; rcases List.mem_cons.1 hs with rfl | hs
      · exact hacc
      · exact hsc s hs
    · intro i hi
      cases i with
      | zero => simp
      | succ i =>
        have := hidx i (by simpa using hi)
        simp only [List.getElem_cons_succ, List.take_succ_cons, List.map_cons, List.prod_cons]
        rw [this, hmul _ _ hacc hx.1]; ring

theorem batchBack_spec_gen (xs : List Nat) : ∀ (sc : List Nat) (A : Nat) (out : List Nat),
    sc.length = xs.length → (∀ x ∈ xs, canon x ∧ x ≠ BF.zero) → (∀ s ∈ sc, canon s) → canon A →
    (∀ i (h : i < sc.length), φ (sc[i]) = ((xs.take i).map φ).prod) →
    φ A = ((xs.map φ).prod)⁻¹ →
    ∃ rs, BF.batchBack xs.reverse sc.reverse A out = rs ++ out ∧ (∀ r ∈ rs, canon r) ∧
      rs.map φ = xs.map (fun x => (φ x)⁻¹) := by
  induction xs using List.reverseRecOn with
  | nil =>
    intro sc A out hlen _ _ _ _ _
    have : sc = [] := List.length_eq_zero_iff.1 (by simpa using hlen)
    subst this
    exact ⟨[], by simp [BF.batchBack], by simp, by simp⟩
  | append_singleton xs x ih =>
    intro sc A out hlen hxs hsc hA hidx hAinv
    obtain ⟨sc', s, rfl⟩ : ∃ sc' s, sc = sc' ++ [s] := by
      rcases List.eq_nil_or_concat sc with h | ⟨l, a, h⟩
      · subst h; simp at hlen
      · exact ⟨l, a, by simpa using h⟩
    have hlen' : sc'.length = xs.length := by simpa using hlen
    have hx := hxs x (by simp)
    have hs := hsc s (by simp)
    have hxz : φ x ≠ 0 := fun h => hx.2 ((hzero x hx.1).1 h)
    have hpz : (xs.map φ).prod ≠ 0 := by
      intro hp
      obtain ⟨y, hy, hy0⟩ := List.mem_map.1 (List.prod_eq_zero_iff.1 hp)
      exact (hxs y (by simp [hy])).2 ((hzero y (hxs y (by simp [hy])).1).1 hy0)
    simp only [List.reverse_append, List.reverse_cons, List.reverse_nil, List.nil_append, List.singleton_append,
      BF.batchBack]
    have hs_val : φ s = (xs.map φ).prod := by
      have := hidx sc'.length (by simp)
      simp only [List.getElem_append_right (Nat.le_refl _), Nat.sub_self, List.getElem_cons_zero] at this
      rw [this, hlen']; simp
    have hAinv' : φ A = ((xs.map φ).prod * φ x)⁻¹ := by
      rw [hAinv]; simp
    have hA' : φ (bfe_mul A x) = ((xs.map φ).prod)⁻¹ := by
      rw [hmul _ _ hA hx.1, hAinv']; field_simp
    obtain ⟨rs, hrs, hrc, hrm⟩ := ih sc' (bfe_mul A x) (bfe_mul A s :: out) hlen'
      (fun y hy => hxs y (by simp [hy])) (fun t ht => hsc t (by simp [ht])) (canon_mul _ _ hA hx.1)
      (fun i h => by
        have := hidx i (by simp; omega)
        rw [List.getElem_append_left h] at this
        rw [this, List.take_append_of_le_length (by omega)])
      hA'
    refine ⟨rs ++ [bfe_mul A s], by rw [hrs]; simp, ?_, ?_⟩
    · intro r hr
      rcases List.mem_append.1 hr with h | h
      · exact hrc r h
      · rw [List.mem_singleton.1 h]; exact canon_mul _ _ hA hs
    · rw [List.map_append, List.map_append, hrm]
      congr 1
      simp only [List.map_cons, List.map_nil, List.cons.injEq, and_true]
      rw [hmul _ _ hA hs, hAinv', hs_val]; field_simp

end generic

/-- **batch inversion**: on any vector of non-zero elements the result is the element-wise inverse;
    it panics iff some element is zero (the empty vector gives the empty vector) -/
theorem batchInversion_spec (xs : List Nat) (h : ∀ x ∈ xs, canon x ∧ x ≠ BF.zero) :
    ∃ rs, BF.batchInversion xs = some rs ∧ (∀ r ∈ rs, canon r) ∧
      rs.map toF = xs.map (fun x => (toF x)⁻¹) := by
  cases xs with
  | nil => exact ⟨[], rfl, by simp, by simp⟩
  | cons x xs =>
    obtain ⟨sc, fin, e, hfin, hlen, hprod, hsc, hidx⟩ := batchPrefix_spec_gen toF toF_mul toF_eq_zero (x :: xs) BF.one canon_one h
    have hfin_ne : fin ≠ BF.zero := by
      intro h0
      have : toF fin = 0 := (toF_eq_zero fin hfin).2 h0
      rw [hprod, toF_one, one_mul] at this
      obtain ⟨y, hy, hy0⟩ := List.mem_map.1 (List.prod_eq_zero_iff.1 this)
      exact (h y hy).2 ((toF_eq_zero y (h y hy).1).1 hy0)
    obtain ⟨ai, hai, haic, haiv⟩ := toF_inverse fin hfin hfin_ne
    obtain ⟨rs, hrs, hrc, hrm⟩ := batchBack_spec_gen toF toF_mul toF_eq_zero (x :: xs) sc ai [] hlen h hsc haic
      (fun i hi => by rw [hidx i hi, toF_one, one_mul]) (by rw [haiv, hprod, toF_one, one_mul])
    refine ⟨rs, ?_, hrc, hrm⟩
    unfold BF.batchInversion
    simp only [e, hai, hrs, List.append_nil]

theorem batchInversion_zero (xs : List Nat) (h : BF.zero ∈ xs) : BF.batchInversion xs = none := by
  have key : ∀ (l : List Nat) (acc : Nat), BF.zero ∈ l → BF.batchPrefix l acc = none := by
    intro l
    induction l with
    | nil => intro _ h; simp at h
    | cons y ys ih =>
      intro acc hm
      unfold BF.batchPrefix
      by_cases hy : (y == BF.zero) = true
      · simp [hy]
      · have : BF.zero ∈ ys := by
          rcases List.mem_cons.1 hm with h | h
          · exact absurd (by simp [h]) hy
          · exact h
        simp [hy, ih _ this]
  cases xs with
  | nil => simp at h
  | cons x xs => unfold BF.batchInversion; simp [key _ _ h]

/-! ### integer conversions -/

theorem fromU128_spec (x : Nat) (hx : x < W * W) : canon (BF.fromU128 x) ∧ bfe_value (BF.fromU128 x) = x % Pn := by
  have h := mod_reduce_spec x hx
  have hn := new_spec (mod_reduce x) h.1
  unfold BF.fromU128
  exact ⟨hn.1, by rw [hn.2]; exact h.2⟩

/-- `From<i64>`: every `i64` is mapped to its residue (sign handled through the 2^128 wrap-around of `as u128`) -/
theorem fromI64_spec (v : Int) (h1 : -(2:Int)^63 ≤ v) (h2 : v < (2:Int)^63) :
    canon (BF.fromI64 v) ∧ ((bfe_value (BF.fromI64 v) : Nat) : Int) = v % (18446744069414584321 : Int) := by
  unfold BF.fromI64
  by_cases hv : v ≥ 0
  · simp only [hv, if_true]
    have hx : v.toNat < W * W := by unfold W; omega
    obtain ⟨hc, hval⟩ := fromU128_spec v.toNat hx
    refine ⟨hc, ?_⟩
    rw [hval]; unfold Pn; omega
  · simp only [hv, if_false]
    have hx : (2 ^ 128 - (-v).toNat - R2) < W * W := by unfold W R2; omega
    obtain ⟨hc, hval⟩ := fromU128_spec _ hx
    refine ⟨hc, ?_⟩
    rw [hval]; unfold Pn R2; omega

theorem toI64_spec (a : Nat) (ha : canon a) :
    -(2:Int)^63 ≤ BF.toI64 a ∧ BF.toI64 a < (2:Int)^63 ∧ (BF.toI64 a) % (18446744069414584321 : Int) = (bfe_value a : Int) := by
  have hv := value_lt a (Nat.lt_trans ha Pn_lt_W)
  unfold BF.toI64 Pn at *
  simp only
  split
  · omega
  · unfold P; omega

end TF.BF
