import TF.Proofs.MmrSuccGen
/-!
Completeness of `new_from_batch_append` (C12), part 2: digests.

A *digest assignment* `dg l b` gives every block `(l, b)` a digest.  `NodeEq H dg c` says that every block that reaches
beyond the first `c` leaves is the hash of its two halves — nothing is assumed about blocks inside the old leaves, so the
peaks of an arbitrary (consistent) old accumulator are opaque values.  Against such an assignment: the append routine,
the nodes derivable from one append, and the fold of a block along its sibling digests.
-/
namespace TF.MmrE
open TF TF.Gen TF.Model.Mmr TF.Model.MmrE TF.Spec.MmrE TF.Spec.Mmr

variable {D : Type} (H : D → D → D)

/-- every block of height `≥ 1` that reaches beyond the first `c` leaves is the hash of its halves -/
def NodeEq (dg : Nat → Nat → D) (c : Nat) : Prop :=
  ∀ l j, c < bend (l + 1) j → dg (l + 1) j = H (dg l (2 * j)) (dg l (2 * j + 1))

theorem NodeEq.mono {dg : Nat → Nat → D} {c c' : Nat} (h : NodeEq H dg c) (hc : c ≤ c') : NodeEq H dg c' :=
  fun l j hlt => h l j (by omega)

/-- the digests of the peaks of the MMR with `c` leaves -/
def dpeaks (dg : Nat → Nat → D) (c : Nat) : List D := (peakBlk c).map (fun b => dg b.1 b.2)

/-- digests of a list of blocks -/
def dgs (dg : Nat → Nat → D) (bs : List (Nat × Nat)) : List D := bs.map (fun b => dg b.1 b.2)

def shiftDg (dg : Nat → Nat → D) : Nat → Nat → D := fun l j => dg (l + 1) j

theorem dpeaks_length (dg : Nat → Nat → D) (c : Nat) : (dpeaks dg c).length = TF.popCount c := by
  simp [dpeaks, peakBlk_length]

theorem dpeaks_zero (dg : Nat → Nat → D) : dpeaks dg 0 = [] := by simp [dpeaks, peakBlk_zero]

theorem dpeaks_unfold (dg : Nat → Nat → D) (c : Nat) (hc : c ≠ 0) :
    dpeaks dg c = dpeaks (shiftDg dg) (c / 2) ++ (if c % 2 = 1 then [dg 0 (c - 1)] else []) := by
  unfold dpeaks
  rw [peakBlk_unfold c hc, List.map_append, List.map_map]
  congr 1
  by_cases h : c % 2 = 1
  · simp [h]
  · simp [h]

theorem NodeEq.shift {dg : Nat → Nat → D} {c : Nat} (h : NodeEq H dg c) : NodeEq H (shiftDg dg) (c / 2) := by
  intro l j hlt
  have e : bend (l + 1 + 1) j = 2 * bend (l + 1) j := by unfold bend; rw [Nat.pow_succ 2 (l + 1)]; ring
  exact h (l + 1) j (by omega)

theorem sibBlks_succ (l j u : Nat) : sibBlks l j (u + 1) = (l, sibBlk j) :: sibBlks (l + 1) (j / 2) u := by
  unfold sibBlks
  rw [List.range_succ_eq_map, List.map_cons, List.map_map]
  simp only [Nat.add_zero, Nat.pow_zero, Nat.div_one, List.cons.injEq, true_and]
  apply List.map_congr_left
  intro t _
  simp only [Function.comp, Nat.succ_eq_add_one]
  have e : l + 1 + t = l + (t + 1) := by omega
  rw [Nat.div_div_eq_div_mul, ← Nat.pow_succ', e]

theorem sibBlks_zero (l j : Nat) : sibBlks l j 0 = [] := by simp [sibBlks]

theorem dgs_sibBlks_shift (dg : Nat → Nat → D) (l j u : Nat) :
    dgs dg (sibBlks (l + 1) j u) = dgs (shiftDg dg) (sibBlks l j u) := by
  unfold dgs sibBlks shiftDg
  rw [List.map_map, List.map_map]
  apply List.map_congr_left
  intro t _
  simp only [Function.comp]
  have e : l + 1 + t = l + t + 1 := by omega
  rw [e]

/-- the merge loop of `calculate_new_peaks_from_append` against a digest assignment: the new peaks, and the popped
    peaks are the sibling blocks of the new leaf from the bottom up -/
theorem mergeLoop_dpeaks : ∀ (c : Nat) (dg : Nat → Nat → D), NodeEq H dg c →
    mergeLoop H (TF.trailingOnes c) (dg 0 c :: (dpeaks dg c).reverse) []
      = some ((dpeaks dg (c + 1)).reverse, dgs dg (sibBlks 0 c (TF.trailingOnes c))) := by
  intro c
  induction c using Nat.strongRecOn with
  | _ c ih =>
    intro dg hne
    by_cases h : c % 2 = 0
    · rw [TF.Mmr.trailingOnes_even c h]
      simp only [mergeLoop, sibBlks_zero, dgs, List.map_nil]
      rw [dpeaks_unfold dg (c + 1) (by omega)]
      have e : (c + 1) / 2 = c / 2 := by omega
      have e1 : (c + 1) % 2 = 1 := by omega
      simp only [e, e1, if_true, Nat.add_sub_cancel]
      by_cases hc : c = 0
      · subst hc; simp [dpeaks_zero]
      · rw [dpeaks_unfold dg c hc]
        have e2 : ¬ c % 2 = 1 := by omega
        simp [e2]
    · have hodd : c % 2 = 1 := by omega
      rw [TF.Mmr.trailingOnes_odd c hodd, dpeaks_unfold dg c (by omega)]
      simp only [hodd, if_true, List.reverse_append, List.reverse_cons, List.reverse_nil, List.nil_append,
        List.singleton_append, mergeLoop]
      have hp : H (dg 0 (c - 1)) (dg 0 c) = shiftDg dg 0 (c / 2) := by
        have := hne 0 (c / 2) (by unfold bend; omega)
        have e1 : 2 * (c / 2) = c - 1 := by omega
        have e2 : c - 1 + 1 = c := by omega
        rw [e1, e2] at this
        exact this.symm
      rw [hp, mergeLoop_acc H _ _ [dg 0 (c - 1)], ih (c / 2) (by omega) (shiftDg dg) hne.shift]
      have e : c / 2 + 1 = (c + 1) / 2 := by omega
      have e1 : ¬ (c + 1) % 2 = 1 := by omega
      rw [dpeaks_unfold dg (c + 1) (by omega)]
      simp only [e, e1, if_false, List.append_nil, Option.map_some, List.nil_append, List.singleton_append]
      rw [sibBlks_succ, ← dgs_sibBlks_shift]
      have hs : sibBlk c = c - 1 := by unfold sibBlk; rw [if_neg (by omega)]
      simp [dgs, hs]

/-- **`calculate_new_peaks_from_append`** against a digest assignment -/
theorem calcAppend_dg (c : Nat) (dg : Nat → Nat → D) (hne : NodeEq H dg c) (hc : c + 1 < 2 ^ 64) :
    calculateNewPeaksFromAppend H c (dpeaks dg c) (dg 0 c)
      = some (dpeaks dg (c + 1), dgs dg (sibBlks 0 c (TF.trailingOnes c))) := by
  rw [calculateNewPeaksFromAppend_def, (TF.Mmr.rll_leaf_spec c hc).1, mergeLoop_dpeaks H c dg hne]
  simp

theorem append_dg (c : Nat) (dg : Nat → Nat → D) (hne : NodeEq H dg c) (hc : c + 1 < 2 ^ 64) :
    Acc.append H ⟨c, dpeaks dg c⟩ (dg 0 c)
      = some (⟨c + 1, dpeaks dg (c + 1)⟩, dgs dg (sibBlks 0 c (TF.trailingOnes c))) := by
  unfold Acc.append
  simp only [calcAppend_dg H c dg hne hc, Option.bind_eq_bind, Option.pure_def, Option.bind_some]
  have : add64 c 1 = c + 1 := by unfold add64 W64; omega
  rw [this]

/-- appending leaves one by one -/
theorem appendAll_dg (dg : Nat → Nat → D) : ∀ (xs : List D) (c : Nat), NodeEq H dg c → c + xs.length < 2 ^ 64 →
    (∀ i x, xs[i]? = some x → dg 0 (c + i) = x) →
    Acc.appendAll H xs ⟨c, dpeaks dg c⟩ = some ⟨c + xs.length, dpeaks dg (c + xs.length)⟩ := by
  intro xs
  induction xs with
  | nil => intro c _ _ _; simp [Acc.appendAll]
  | cons x xs ih =>
    intro c hne hc hx
    have hx0 : dg 0 c = x := hx 0 x (by simp)
    simp only [List.length_cons] at hc ⊢
    rw [Acc.appendAll, ← hx0, append_dg H c dg hne (by omega)]
    simp only [Option.bind_some]
    rw [ih (c + 1) (hne.mono H (by omega)) (by omega) (fun i y hy => by
      have := hx (i + 1) y (by simpa using hy)
      rw [← this]; congr 1; omega)]
    have e : c + 1 + xs.length = c + (xs.length + 1) := by omega
    rw [e]

/-! ### the nodes created by one append -/

theorem trailingOnes_bit : ∀ (r c : Nat), r < TF.trailingOnes c → c / 2 ^ r % 2 = 1 := by
  intro r
  induction r with
  | zero =>
    intro c h
    simp only [Nat.pow_zero, Nat.div_one]
    exact (trailingOnes_ne_zero_iff c).mp (by omega)
  | succ r ih =>
    intro c h
    have hodd : c % 2 = 1 := (trailingOnes_ne_zero_iff c).mp (by omega)
    rw [TF.Mmr.trailingOnes_odd c hodd] at h
    have := ih (c / 2) (by omega)
    rw [Nat.div_div_eq_div_mul, ← Nat.pow_succ'] at this
    exact this

/-- the new leaf and the parents created with it are consecutive node indices (a chain of right children) -/
theorem nodeIdx_right_chain (c : Nat) : ∀ r, r ≤ TF.trailingOnes c → nodeIdx r (c / 2 ^ r) = nodeIdx 0 c + r := by
  intro r
  induction r with
  | zero => intro _; simp
  | succ r ih =>
    intro h
    have hbit := trailingOnes_bit r c (by omega)
    have e : c / 2 ^ r = 2 * (c / 2 ^ (r + 1)) + 1 := by
      have : c / 2 ^ (r + 1) = c / 2 ^ r / 2 := by rw [Nat.pow_succ, Nat.div_div_eq_div_mul]
      omega
    have := nodeIdx_right r (c / 2 ^ (r + 1))
    rw [← e] at this
    rw [this, ih (by omega)]
    omega

/-- **`node_indices_added_by_append`** in block coordinates: the blocks `(r, c / 2^r)`, `r ≤ trailing_ones c` -/
theorem added_blk (c : Nat) (hc : c < 2 ^ 63) :
    node_indices_added_by_append c
      = some ((List.range (TF.trailingOnes c + 1)).map (fun r => nodeIdx r (c / 2 ^ r))) := by
  rw [TF.Mmr.added_spec c hc]
  congr 1
  apply List.map_congr_left
  intro r hr
  have hr' := List.mem_range.mp hr
  rw [nodeIdx_right_chain c r (by omega)]
  have := nodeIdx_eq 0 c
  have := pc_le c
  unfold TF.Mmr.nodesOf
  omega

theorem lt_bend_div (c l : Nat) : c < bend l (c / 2 ^ l) := by
  unfold bend
  have := Nat.div_add_mod c (2 ^ l)
  have := Nat.mod_lt c (Nat.pow_pos (by omega : 0 < 2) (n := l))
  have e : (c / 2 ^ l + 1) * 2 ^ l = 2 ^ l * (c / 2 ^ l) + 2 ^ l := by ring
  omega

/-- one hashing step: a block and its sibling give the parent block -/
theorem step_dg (dg : Nat → Nat → D) (c : Nat) (hne : NodeEq H dg c) (l j : Nat) (hc : c < bend (l + 1) (j / 2)) :
    (if j % 2 = 0 then H (dg l j) (dg l (sibBlk j)) else H (dg l (sibBlk j)) (dg l j)) = dg (l + 1) (j / 2) := by
  have := hne l (j / 2) hc
  unfold sibBlk
  by_cases h : j % 2 = 0
  · have e : 2 * (j / 2) = j := by omega
    rw [e] at this
    simp only [h, if_true]; rw [this]
  · have e : 2 * (j / 2) + 1 = j := by omega
    have e' : 2 * (j / 2) = j - 1 := by omega
    rw [e, e'] at this
    simp only [h, if_false]; rw [this]

/-- the `scan` of `new_from_batch_append`: from the new leaf up its chain of right-child ancestors -/
theorem scanNodes_dg (dg : Nat → Nat → D) (c : Nat) (hne : NodeEq H dg c) : ∀ (t l j : Nat),
    (∀ r < t, j / 2 ^ r % 2 = 1) → c < bend l j →
    scanNodes H (dg l j) (dgs dg (sibBlks l j t)) = (List.range t).map (fun r => dg (l + r) (j / 2 ^ r)) := by
  intro t
  induction t with
  | zero => intro l j _ _; simp [sibBlks_zero, dgs, scanNodes]
  | succ t ih =>
    intro l j hodd hc
    have h0 := hodd 0 (by omega)
    simp only [Nat.pow_zero, Nat.div_one] at h0
    have hpar : c < bend (l + 1) (j / 2) := by have := bend_le_parent l j; omega
    have hstep := step_dg H dg c hne l j hpar
    rw [if_neg (by omega)] at hstep
    rw [sibBlks_succ]
    simp only [dgs, List.map_cons, scanNodes]
    rw [hstep]
    have := ih (l + 1) (j / 2) (fun r hr => by
      have := hodd (r + 1) (by omega)
      rw [Nat.div_div_eq_div_mul, ← Nat.pow_succ']; exact this) hpar
    simp only [dgs] at this
    rw [this, List.range_succ_eq_map, List.map_cons, List.map_map]
    simp only [Nat.add_zero, Nat.pow_zero, Nat.div_one, List.cons.injEq, true_and]
    apply List.map_congr_left
    intro r _
    simp only [Function.comp, Nat.succ_eq_add_one]
    have e : l + 1 + r = l + (r + 1) := by omega
    rw [Nat.div_div_eq_div_mul, ← Nat.pow_succ', e]

/-- folding a block up along the digests of its sibling blocks gives the ancestor block -/
theorem foldBlk_dg (dg : Nat → Nat → D) (c : Nat) (hne : NodeEq H dg c) : ∀ (u l j : Nat),
    (0 < u → c < bend (l + 1) (j / 2)) →
    foldBlk H j (dg l j) (dgs dg (sibBlks l j u)) = dg (l + u) (j / 2 ^ u) := by
  intro u
  induction u with
  | zero => intro l j _; simp [sibBlks_zero, dgs, foldBlk]
  | succ u ih =>
    intro l j hc
    have hpar := hc (by omega)
    rw [sibBlks_succ]
    simp only [dgs, List.map_cons, foldBlk]
    rw [step_dg H dg c hne l j hpar]
    have := ih (l + 1) (j / 2) (fun _ => by have := bend_le_parent (l + 1) (j / 2); omega)
    simp only [dgs] at this
    rw [this, Nat.div_div_eq_div_mul, ← Nat.pow_succ']
    congr 1; omega

theorem dpeaks_getElem_locate (dg : Nat → Nat → D) (n i : Nat) (h : i < n) :
    (dpeaks dg n)[(locate n i).2.2]? = some (dg (locate n i).1 (i / 2 ^ (locate n i).1)) := by
  unfold dpeaks
  rw [List.getElem?_map, peakBlk_getElem_locate n i h]
  rfl

end TF.MmrE
