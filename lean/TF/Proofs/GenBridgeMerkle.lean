import TF.Gen.MerkleLoops
import TF.Model.Merkle
import TF.Proofs.MerkleBuild
import TF.Model.Word
/-!
# Bridge: `CpuParallel::from_digests` *as regenerated from source* vs the hand-written model (C10)

`TF/Gen/MerkleLoops.lean` is written by `tools/rs2lean_bt4.py` from the text of `merkle_tree.rs` on every run: digests are
opaque (`D`), `Tip5::hash_pair` is the parameter `H`, `Digest::default()` the parameter `digest_default`, the
lazily-initialised `PARALLELIZATION_CUTOFF` the parameter `cutoff`, the rayon `into_par_iter().map(..).collect_into_vec(..)`
a pure `List.map` over the level.  Proved here, for every `H`, every cut-off and every digest list shorter than `2^63`: the two
rejection arms (`gen_empty`, `gen_not_pow2`), the link between the translated bit trick of `usize::is_power_of_two` and the model's
`2^log2 n == n` (`isPow2_trick_eq_model`), one parallel level = `parLevel` (`parLevel_eq_gen`), the **`while` level loop in
lock-step with `parLoop`** for every fuel, including the `count_acc` accumulator (`loop_eq`), the **sequential loop**
`for i in (ROOT_INDEX..m).rev()` = `seqLoop` over the reversed range (`seq_eq`), and the assembly of the whole function
(`gen_pow2`); no check of the `_ok` twin fails.  See `gen_from_digests_eq_model` in `TF/Props/C10.lean`.
-/
set_option linter.unusedVariables false
namespace TF.GenBridge.Merkle
open TF TF.Gen TF.Merkle TF.Merkle.Res

variable {D : Type} (H : D → D → D) (d0 filler : D) (cutoff : Nat)

theorem gen_empty :
    Loops.merkle_from_digests H d0 filler cutoff [] = some (Except.error "TooFewLeafs") ∧
    Loops.merkle_from_digests_ok H d0 filler cutoff [] = true := ⟨rfl, rfl⟩

theorem pow2_trick (n : Nat) : (decide (n != 0) && (n &&& (n - 1)) == 0) = TF.isPow2 n := by
  unfold TF.isPow2
  by_cases h : n = 0 <;> simp [h]

theorem gen_not_pow2 {ds : List D} (hne : ds ≠ []) (hp : TF.isPow2 ds.length = false) :
    Loops.merkle_from_digests H d0 filler cutoff ds = some (Except.error "IncorrectNumberOfLeafs") ∧
    Loops.merkle_from_digests_ok H d0 filler cutoff ds = true := by
  have he : ds.isEmpty = false := by cases ds with
    | nil => exact absurd rfl hne
    | cons _ _ => rfl
  unfold Loops.merkle_from_digests Loops.merkle_from_digests_ok
  simp only [he, Bool.false_eq_true, if_false, pow2_trick, hp, Bool.not_false, if_true]
  constructor <;> first | rfl | trivial

omit H d0 filler cutoff in
theorem res_bind_ok {α β : Type} (a : α) (f : α → Res β) : Res.bind (Res.ok a) f = f a := rfl

theorem parLoop_exit (f cnt acc : Nat) (nodes : List D) (h : ¬ (cnt > 0 ∧ cnt ≥ cutoff)) :
    parLoop H cutoff (f + 1) cnt acc nodes = some (.ok (nodes, acc)) := by
  rw [parLoop, if_neg h]

/-- the sequential loop: regenerated `for i in (1..1+k).rev()` = the hand model's `seqLoop` over the reversed range, as
    long as every child index is inside the node vector and below `2^64` -/
theorem seq_eq : ∀ (k : Nat) (nodes : List D), 2 * (1 + k) ≤ nodes.length → nodes.length < 2 ^ 64 →
    Loops.merkle_from_digests_for2_ok H d0 filler cutoff 1 k nodes = true ∧
    seqLoop H nodes (List.range' 1 k).reverse = .ok (Loops.merkle_from_digests_for2 H d0 filler cutoff 1 k nodes) := by
  intro k
  induction k with
  | zero => intro nodes _ _; exact ⟨rfl, rfl⟩
  | succ k ih =>
    intro nodes hlen h64
    have h64' : nodes.length < 18446744073709551616 := by
      have : (2:Nat)^64 = 18446744073709551616 := by decide
      omega
    have e1 : ((1 + k) * 2) % 18446744073709551616 = 2 * (1 + k) := by omega
    have e2 : (2 * (1 + k) + 1) % 18446744073709551616 = 2 * (1 + k) + 1 := by omega
    have hr : (List.range' 1 (k + 1)).reverse = (1 + k) :: (List.range' 1 k).reverse := by
      rw [List.range'_concat, List.reverse_append]; simp
    have ha : nodes[2 * (1 + k)]? = some (nodes.getD (2 * (1 + k)) d0) := by
      rw [List.getD_eq_getElem?_getD, List.getElem?_eq_getElem (by omega)]; rfl
    have hb : nodes[2 * (1 + k) + 1]? = some (nodes.getD (2 * (1 + k) + 1) d0) := by
      rw [List.getD_eq_getElem?_getD, List.getElem?_eq_getElem (by omega)]; rfl
    have hset : (nodes.set (1 + k) (H (nodes.getD (2 * (1 + k)) d0) (nodes.getD (2 * (1 + k) + 1) d0))).length
        = nodes.length := List.length_set
    have := ih (nodes.set (1 + k) (H (nodes.getD (2 * (1 + k)) d0) (nodes.getD (2 * (1 + k) + 1) d0)))
      (by rw [hset]; omega) (by rw [hset]; exact h64)
    constructor
    · rw [Loops.merkle_from_digests_for2_ok]
      simp only [e1, e2]
      rw [this.1]
      simp only [Bool.and_true, Bool.and_eq_true, decide_eq_true_eq]
      omega
    · rw [hr, seqLoop, hashChildren, ha, hb]
      simp only []
      rw [Loops.merkle_from_digests_for2]
      simp only [e1, e2]
      rw [← this.2]
      have hlt : 1 + k < nodes.length := by omega
      show (if 1 + k < nodes.length then _ else _) = _
      rw [if_pos hlt]

/-! ### `usize::is_power_of_two`: the bit trick is the model's `2^log2 n == n` -/

theorem pow2_of_and_pred : ∀ (n : Nat), n ≠ 0 → n &&& (n - 1) = 0 → ∃ k, n = 2^k := by
  intro n
  induction n using Nat.strongRecOn with
  | _ n ih =>
    intro hn h
    have hdiv : n / 2 &&& (n - 1) / 2 = 0 := by
      have := congrArg (· / 2) h
      simpa [Nat.and_div_two] using this
    by_cases hpar : n % 2 = 0
    · have h2 : (n - 1) / 2 = n / 2 - 1 := by omega
      rw [h2] at hdiv
      obtain ⟨k, hk⟩ := ih (n / 2) (by omega) (by omega) hdiv
      exact ⟨k+1, by rw [Nat.pow_succ]; omega⟩
    · have h2 : (n - 1) / 2 = n / 2 := by omega
      rw [h2, Nat.and_self] at hdiv
      exact ⟨0, by omega⟩

theorem and_pred_two_pow (k : Nat) : 2^k &&& (2^k - 1) = 0 := by
  rw [Nat.and_two_pow_sub_one_eq_mod]; exact Nat.mod_self _

theorem isPow2_trick_iff (n : Nat) : TF.isPow2 n = true ↔ ∃ k, n = 2^k := by
  constructor
  · intro h
    simp only [TF.isPow2, Bool.and_eq_true, bne_iff_ne, ne_eq, beq_iff_eq] at h
    exact pow2_of_and_pred n h.1 h.2
  · rintro ⟨k, rfl⟩
    have hne : 2^k ≠ 0 := by have := Nat.one_le_two_pow (n := k); omega
    simp [TF.isPow2]

/-- Rust's `is_power_of_two` (as translated: `n != 0 && n & (n-1) == 0`) = the hand model's `2^log2 n == n` -/
theorem isPow2_trick_eq_model (n : Nat) : TF.isPow2 n = TF.Merkle.isPow2 n := by
  cases h : TF.Merkle.isPow2 n
  · cases h' : TF.isPow2 n
    · rfl
    · rw [(TF.Merkle.isPow2_iff).2 ((isPow2_trick_iff n).1 h')] at h; cases h
  · exact (isPow2_trick_iff n).2 (TF.Merkle.isPow2_iff.1 h)

/-! ### one parallel level -/

omit H d0 filler cutoff in
theorem mapM_ok_map {α β : Type} (f : α → Res β) (g : α → β) : ∀ (l : List α), (∀ a ∈ l, f a = .ok (g a)) →
    Res.mapM f l = .ok (l.map g)
  | [], _ => rfl
  | a :: as, h => by
    rw [Res.mapM, h a (List.mem_cons_self ..)]
    show Res.bind (Res.ok (g a)) _ = _
    rw [res_bind_ok, mapM_ok_map f g as (fun x hx => h x (List.mem_cons_of_mem _ hx))]
    rfl

/-- the body of the regenerated closure -/
def genLevelFn (nodes : List D) (cnt : Nat) (i : Nat) : D :=
  H (nodes.getD (((cnt + i) % 18446744073709551616 * 2) % 18446744073709551616) d0)
    (nodes.getD ((((cnt + i) % 18446744073709551616 * 2) % 18446744073709551616 + 1) % 18446744073709551616) d0)

def genLevel (nodes : List D) (cnt : Nat) : List D :=
  nodes.take cnt ++ (((List.range' 0 (cnt - 0)).map (genLevelFn H d0 nodes cnt)).take cnt)
    ++ nodes.drop ((cnt + cnt) % 18446744073709551616)

theorem hashChildren_getD {nodes : List D} {j : Nat} (h : 2 * j + 1 < nodes.length) :
    hashChildren H nodes j = .ok (H (nodes.getD (2 * j) d0) (nodes.getD (2 * j + 1) d0)) := by
  have ha : nodes[2 * j]? = some (nodes.getD (2 * j) d0) := by
    rw [List.getD_eq_getElem?_getD, List.getElem?_eq_getElem (by omega)]; rfl
  have hb : nodes[2 * j + 1]? = some (nodes.getD (2 * j + 1) d0) := by
    rw [List.getD_eq_getElem?_getD, List.getElem?_eq_getElem (by omega)]; rfl
  rw [hashChildren, ha, hb]

theorem genLevelFn_eq {nodes : List D} {cnt i : Nat} (h64 : nodes.length < 18446744073709551616)
    (h : 2 * (cnt + i) + 1 < nodes.length) :
    genLevelFn H d0 nodes cnt i = H (nodes.getD (2 * (cnt + i)) d0) (nodes.getD (2 * (cnt + i) + 1) d0) := by
  have e0 : (cnt + i) % 18446744073709551616 = cnt + i := by omega
  have e1 : ((cnt + i) * 2) % 18446744073709551616 = 2 * (cnt + i) := by omega
  have e2 : (2 * (cnt + i) + 1) % 18446744073709551616 = 2 * (cnt + i) + 1 := by omega
  unfold genLevelFn
  rw [e0, e1, e2]

theorem parLevel_eq_gen {nodes : List D} {cnt : Nat} (h64 : nodes.length < 18446744073709551616)
    (h4 : 4 * cnt ≤ nodes.length) : parLevel H nodes cnt = .ok (genLevel H d0 nodes cnt) := by
  have hm : Res.mapM (fun i => hashChildren H nodes (cnt + i)) (List.range cnt)
      = .ok ((List.range cnt).map (genLevelFn H d0 nodes cnt)) := by
    apply mapM_ok_map
    intro i hi
    have hi' := List.mem_range.1 hi
    rw [genLevelFn_eq H d0 h64 (by omega)]
    exact hashChildren_getD H d0 (by omega)
  have hl : 2 * cnt ≤ nodes.length := by omega
  unfold parLevel
  rw [hm]
  show Res.bind (Res.ok _) _ = _
  rw [res_bind_ok, if_pos hl]
  unfold genLevel
  have e : (cnt + cnt) % 18446744073709551616 = 2 * cnt := by omega
  have hr : List.range' 0 (cnt - 0) = List.range cnt := by rw [Nat.sub_zero, List.range_eq_range']
  have ht : ((List.range cnt).map (genLevelFn H d0 nodes cnt)).take cnt = (List.range cnt).map (genLevelFn H d0 nodes cnt) := by
    apply List.take_of_length_le; simp
  rw [e, hr, ht]

theorem genLevel_length {nodes : List D} {cnt : Nat} (h64 : nodes.length < 18446744073709551616)
    (h2 : 2 * cnt ≤ nodes.length) : (genLevel H d0 nodes cnt).length = nodes.length := by
  have e : (cnt + cnt) % 18446744073709551616 = 2 * cnt := by omega
  unfold genLevel
  rw [e]
  simp only [List.length_append, List.length_take, List.length_map, List.length_range', List.length_drop]
  omega


/-! ### the `while` level loop in lock-step with `parLoop` -/

theorem gen_loop_unfold (fuel : Nat) (nodes : List D) (cnt acc : Nat) :
    Loops.merkle_from_digests_loop H d0 filler cutoff (fuel + 1) nodes cnt acc =
      if ((decide (cnt > 0)) && (decide (cnt ≥ cutoff))) then
        Loops.merkle_from_digests_loop H d0 filler cutoff fuel (genLevel H d0 nodes cnt) (cnt / 2)
          ((acc + cnt) % 18446744073709551616)
      else some (nodes, cnt, acc) := rfl

/-- the per-index checks of the closure hold when all children are inside the vector -/
theorem gen_level_checks {nodes : List D} {cnt : Nat} (h64 : nodes.length < 18446744073709551616)
    (h4 : 4 * cnt ≤ nodes.length) :
    ((List.range' 0 (cnt - 0)).all (fun i =>
      (decide (cnt + i < 18446744073709551616)) && (let j := ((cnt + i) % 18446744073709551616)
      ((decide (j * 2 < 18446744073709551616)) && (decide (((j * 2) % 18446744073709551616) < nodes.length))) && (let left_child := (nodes.getD ((j * 2) % 18446744073709551616) d0)
      ((decide (j * 2 < 18446744073709551616)) && (decide (((j * 2) % 18446744073709551616) + 1 < 18446744073709551616))) && (decide (((((j * 2) % 18446744073709551616) + 1) % 18446744073709551616) < nodes.length)))))) = true := by
  rw [List.all_eq_true]
  intro i hi
  have hi' : i < cnt := by
    have := List.mem_range'.1 hi
    omega
  have e0 : (cnt + i) % 18446744073709551616 = cnt + i := by omega
  have e1 : ((cnt + i) * 2) % 18446744073709551616 = 2 * (cnt + i) := by omega
  have e2 : (2 * (cnt + i) + 1) % 18446744073709551616 = 2 * (cnt + i) + 1 := by omega
  simp only [e0, e1, e2, Bool.and_eq_true, decide_eq_true_eq]
  omega

theorem gen_loop_ok_unfold (fuel : Nat) (nodes : List D) (cnt acc : Nat) (h64 : nodes.length < 18446744073709551616)
    (h4 : 4 * cnt ≤ nodes.length) (hacc : acc + cnt < 18446744073709551616) :
    Loops.merkle_from_digests_loop_ok H d0 filler cutoff (fuel + 1) nodes cnt acc =
      if ((decide (cnt > 0)) && (decide (cnt ≥ cutoff))) then
        Loops.merkle_from_digests_loop_ok H d0 filler cutoff fuel (genLevel H d0 nodes cnt) (cnt / 2)
          ((acc + cnt) % 18446744073709551616)
      else true := by
  rw [Loops.merkle_from_digests_loop_ok]
  split
  · rw [gen_level_checks d0 h64 h4]
    have e : (cnt + cnt) % 18446744073709551616 = 2 * cnt := by omega
    have hl : cnt ≤ ((List.range' 0 (cnt - 0)).map (genLevelFn H d0 nodes cnt)).length := by simp
    have c1 : decide (cnt ≤ ((List.range' 0 (cnt - 0)).map (genLevelFn H d0 nodes cnt)).length) = true :=
      decide_eq_true hl
    have c2 : decide (cnt + cnt < 18446744073709551616) = true := decide_eq_true (by omega)
    have c3 : decide (cnt ≤ (cnt + cnt) % 18446744073709551616) = true := decide_eq_true (by omega)
    have c4 : decide ((cnt + cnt) % 18446744073709551616 ≤ nodes.length) = true := decide_eq_true (by omega)
    have c5 : (cnt == (cnt + cnt) % 18446744073709551616 - cnt) = true := by rw [e]; simp; omega
    have c6 : decide (acc + cnt < 18446744073709551616) = true := decide_eq_true hacc
    show (true && (let local_digests := (List.range' 0 (cnt - 0)).map (genLevelFn H d0 nodes cnt)
      ((decide (cnt ≤ local_digests.length)) && ((decide (cnt + cnt < 18446744073709551616)) && (decide (cnt ≤ ((cnt + cnt) % 18446744073709551616))) && (decide (((cnt + cnt) % 18446744073709551616) ≤ nodes.length))) && (cnt == (((cnt + cnt) % 18446744073709551616) - cnt))) &&
      (let nodes := genLevel H d0 nodes cnt
      (decide (acc + cnt < 18446744073709551616)) && (let count_acc := ((acc + cnt) % 18446744073709551616)
      (2 != 0) && (let node_count_on_this_level := (cnt / 2)
      (Loops.merkle_from_digests_loop_ok H d0 filler cutoff fuel nodes node_count_on_this_level count_acc)))))) = _
    simp only [c1, c2, c3, c4, c5, c6, Bool.true_and]
    rfl
  · rfl

/-- **lock-step of the regenerated `while` loop with `parLoop`** (every fuel, every cut-off): with `2n` nodes, `n < 2^63`
    and `count_acc + 2·cnt ≤ n`, no check of the regenerated loop fails, the model's loop returns exactly the regenerated
    node vector and `count_acc` (or both run out of fuel), the vector keeps its length and `count_acc ≤ n` -/
theorem loop_eq (n : Nat) (hn : n < 9223372036854775808) : ∀ (fuel : Nat) (nodes : List D) (cnt acc : Nat),
    nodes.length = 2 * n → acc + 2 * cnt ≤ n →
    Loops.merkle_from_digests_loop_ok H d0 filler cutoff fuel nodes cnt acc = true ∧
    parLoop H cutoff fuel cnt acc nodes =
      (Loops.merkle_from_digests_loop H d0 filler cutoff fuel nodes cnt acc).map (fun t => Res.ok (t.1, t.2.2)) ∧
    ∀ t, Loops.merkle_from_digests_loop H d0 filler cutoff fuel nodes cnt acc = some t →
      t.1.length = 2 * n ∧ t.2.2 ≤ n
  | 0, _, _, _, _, _ => ⟨rfl, rfl, fun _ h => by cases h⟩
  | fuel+1, nodes, cnt, acc, hl, hinv => by
    have h64 : nodes.length < 18446744073709551616 := by omega
    have h4 : 4 * cnt ≤ nodes.length := by omega
    have hacc : (acc + cnt) % 18446744073709551616 = acc + cnt := by omega
    rw [gen_loop_ok_unfold H d0 filler cutoff fuel nodes cnt acc h64 h4 (by omega), gen_loop_unfold, parLoop, hacc]
    by_cases hc : cnt > 0 ∧ cnt ≥ cutoff
    · have hc' : ((decide (cnt > 0)) && (decide (cnt ≥ cutoff))) = true := by
        simp only [Bool.and_eq_true, decide_eq_true_eq]; exact hc
      rw [if_pos hc, if_pos hc', if_pos hc', parLevel_eq_gen H d0 h64 h4]
      exact loop_eq n hn fuel (genLevel H d0 nodes cnt) (cnt / 2) (acc + cnt)
        (by rw [genLevel_length H d0 h64 (by omega)]; exact hl) (by omega)
    · have hc' : ¬ (((decide (cnt > 0)) && (decide (cnt ≥ cutoff))) = true) := by
        simp only [Bool.and_eq_true, decide_eq_true_eq]; exact hc
      rw [if_neg hc, if_neg hc', if_neg hc']
      refine ⟨rfl, rfl, fun t ht => ?_⟩
      cases ht
      exact ⟨hl, show acc ≤ n by omega⟩


/-! ### the whole function -/

/-- reading of the regenerated result type in the model's: `Ok(MerkleTree { nodes })`, the two error kinds -/
def toRes : Except String (List D) → Res (Tree D)
  | .ok nodes => Res.ok (Tree.mk nodes)
  | .error e => if e == "TooFewLeafs" then Res.err .tooFewLeafs else Res.err .incorrectNumberOfLeafs

/-- the initial node vector `vec![default; 2n]` with `nodes[n..].clone_from_slice(digests)` -/
theorem init_nodes (ds : List D) (hn : ds.length < 9223372036854775808) :
    (List.replicate ((2 * ds.length) % 18446744073709551616) filler).take ds.length ++ (ds.take ds.length) ++
      (List.replicate ((2 * ds.length) % 18446744073709551616) filler).drop ((ds.length + ds.length) % 18446744073709551616)
    = List.replicate ds.length filler ++ ds := by
  have e1 : (2 * ds.length) % 18446744073709551616 = 2 * ds.length := by omega
  have e2 : (ds.length + ds.length) % 18446744073709551616 = 2 * ds.length := by omega
  rw [e1, e2, List.take_replicate, List.drop_replicate, List.take_length, Nat.sub_self, List.replicate_zero,
    List.append_nil, Nat.min_eq_left (by omega)]

theorem gen_pow2 {ds : List D} (hne : ds ≠ []) (hp : TF.isPow2 ds.length = true) (hn : ds.length < 9223372036854775808) :
    Loops.merkle_from_digests_ok H d0 filler cutoff ds = true ∧
    (Loops.merkle_from_digests H d0 filler cutoff ds).map toRes
      = fromDigestsFuel H filler cutoff (ds.length + 1) ds := by
  have he : ds.isEmpty = false := by cases ds with
    | nil => exact absurd rfl hne
    | cons _ _ => rfl
  have hpos : 0 < ds.length := List.length_pos_iff.2 hne
  have hp' : TF.Merkle.isPow2 ds.length = true := by rw [← isPow2_trick_eq_model]; exact hp
  have e1 : (2 * ds.length) % 18446744073709551616 = 2 * ds.length := by omega
  have e2 : (ds.length + ds.length) % 18446744073709551616 = 2 * ds.length := by omega
  have hinit := init_nodes filler ds hn
  obtain ⟨hok, hpar, hprops⟩ := loop_eq H d0 filler cutoff ds.length hn (ds.length + 1)
    (List.replicate ds.length filler ++ ds) (ds.length / 2) 0 (by simp; omega) (by omega)
  -- the checks before the loop
  have c1 : decide (2 * ds.length < 18446744073709551616) = true := decide_eq_true (by omega)
  have c2 : decide (ds.length ≤ ds.length) = true := decide_eq_true (Nat.le_refl _)
  have c3 : decide (ds.length + ds.length < 18446744073709551616) = true := decide_eq_true (by omega)
  have c4 : decide (ds.length ≤ (ds.length + ds.length) % 18446744073709551616) = true := decide_eq_true (by omega)
  have c5 : decide ((ds.length + ds.length) % 18446744073709551616 ≤
      (List.replicate ((2 * ds.length) % 18446744073709551616) filler).length) = true :=
    decide_eq_true (by rw [List.length_replicate]; omega)
  have c6 : (ds.length == (ds.length + ds.length) % 18446744073709551616 - ds.length) = true := by
    rw [e2]; simp; omega
  unfold Loops.merkle_from_digests Loops.merkle_from_digests_ok fromDigestsFuel
  simp only [he, Bool.false_eq_true, if_false, pow2_trick, hp, hp', Bool.not_true, c1, c2, c3, c4, c5, c6, hinit,
    Bool.true_and, hok, hpar]
  cases hg : Loops.merkle_from_digests_loop H d0 filler cutoff (ds.length + 1) (List.replicate ds.length filler ++ ds)
      (ds.length / 2) 0 with
  | none => exact ⟨rfl, rfl⟩
  | some t =>
    obtain ⟨nodes1, cnt1, acc1⟩ := t
    obtain ⟨hlen1, hacc1⟩ := hprops _ hg
    simp only at hlen1 hacc1
    have ek : ((ds.length + 18446744073709551616 - acc1) % 18446744073709551616) - 1 = ds.length - acc1 - 1 := by omega
    obtain ⟨hsok, hseq⟩ := seq_eq H d0 filler cutoff (ds.length - acc1 - 1) nodes1 (by omega) (by
      have : (2:Nat)^64 = 18446744073709551616 := by decide
      omega)
    have hcs : csub ds.length acc1 = .ok (ds.length - acc1) := by rw [csub, if_pos hacc1]
    have hrr : revRange (ds.length - acc1) = (List.range' 1 (ds.length - acc1 - 1)).reverse := rfl
    simp only [Option.map_some, Option.bind_some, Option.elim_some, ek, hsok, Bool.and_true, decide_eq_true hacc1]
    refine ⟨by decide, ?_⟩
    show _ = some (Res.bind (csub ds.length acc1) _)
    rw [hcs, res_bind_ok]
    show _ = some (Res.bind (seqLoop H nodes1 (revRange (ds.length - acc1))) _)
    rw [hrr, hseq, res_bind_ok]
    rfl

end TF.GenBridge.Merkle
