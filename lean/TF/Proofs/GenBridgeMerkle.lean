import TF.Gen.MerkleLoops
import TF.Model.Merkle
import TF.Proofs.MerkleBuild
import TF.Model.Word
/-!
# Bridge: `CpuParallel::from_digests` *as regenerated from source* vs the hand-written model (C10)

`TF/Gen/MerkleLoops.lean` is written by `tools/rs2lean_bt4.py` from the text of `merkle_tree.rs` on every run: digests are
opaque (`D`), `Tip5::hash_pair` is the parameter `H`, `Digest::default()` the parameter `digest_default`, the
lazily-initialised `PARALLELIZATION_CUTOFF` the parameter `cutoff`, the rayon `into_par_iter().map(..).collect_into_vec(..)`
a pure `List.map` over the level.  Proved here, for every `H`: the two rejection arms for every input, and the **sequential loop**
`for i in (ROOT_INDEX..m).rev()` = the hand model's `seqLoop` over the reversed range (no panic, same node vector) for every
node vector that contains all the children.  The `while` level loop and the assembly of the whole function are tied by the
driver (GEN-MISMATCH on every `build_env` op) only; see `gen_from_digests_statement` in `TF/Props/C10.lean`.
-/
namespace TF.GenBridge.Merkle
open TF TF.Gen TF.Merkle TF.Merkle.Res

variable {D : Type} (H : D → D → D) (d0 filler : D) (cutoff : Nat)

theorem gen_empty :
    Loops.merkle_from_digests H d0 filler cutoff [] = some (Except.error "TooFewLeafs") ∧
    Loops.merkle_from_digests_ok H d0 filler cutoff [] = true := ⟨rfl, rfl⟩

theorem pow2_trick (n : Nat) : (decide (n != 0) && (n &&& (n - 1)) == 0) = TF.isPow2 n := by
  unfold TF.isPow2
  by_cases h : n = 0 <;> simp [h]

theorem gen_not_pow2 {ds : List D} (hne : ds ≠ []) (hp : TF.isPow2 ds.length = false) :
    Loops.merkle_from_digests H d0 filler cutoff ds = some (Except.error "IncorrectNumberOfLeafs") ∧
    Loops.merkle_from_digests_ok H d0 filler cutoff ds = true := by
  have he : ds.isEmpty = false := by cases ds with
    | nil => exact absurd rfl hne
    | cons _ _ => rfl
  unfold Loops.merkle_from_digests Loops.merkle_from_digests_ok
  simp only [he, Bool.false_eq_true, if_false, pow2_trick, hp, Bool.not_false, if_true]
  constructor <;> first | rfl | trivial

omit H d0 filler cutoff in
theorem res_bind_ok {α β : Type} (a : α) (f : α → Res β) : Res.bind (Res.ok a) f = f a := rfl

theorem parLoop_exit (f cnt acc : Nat) (nodes : List D) (h : ¬ (cnt > 0 ∧ cnt ≥ cutoff)) :
    parLoop H cutoff (f + 1) cnt acc nodes = some (.ok (nodes, acc)) := by
  rw [parLoop, if_neg h]

/-- the sequential loop: regenerated `for i in (1..1+k).rev()` = the hand model's `seqLoop` over the reversed range, as
    long as every child index is inside the node vector and below `2^64` -/
theorem seq_eq : ∀ (k : Nat) (nodes : List D), 2 * (1 + k) ≤ nodes.length → nodes.length < 2 ^ 64 →
    Loops.merkle_from_digests_for2_ok H d0 filler cutoff 1 k nodes = true ∧
    seqLoop H nodes (List.range' 1 k).reverse = .ok (Loops.merkle_from_digests_for2 H d0 filler cutoff 1 k nodes) := by
  intro k
  induction k with
  | zero => intro nodes _ _; exact ⟨rfl, rfl⟩
  | succ k ih =>
    intro nodes hlen h64
    have h64' : nodes.length < 18446744073709551616 := by
      have : (2:Nat)^64 = 18446744073709551616 := by decide
      omega
    have e1 : ((1 + k) * 2) % 18446744073709551616 = 2 * (1 + k) := by omega
    have e2 : (2 * (1 + k) + 1) % 18446744073709551616 = 2 * (1 + k) + 1 := by omega
    have hr : (List.range' 1 (k + 1)).reverse = (1 + k) :: (List.range' 1 k).reverse := by
      rw [List.range'_concat, List.reverse_append]; simp
    have ha : nodes[2 * (1 + k)]? = some (nodes.getD (2 * (1 + k)) d0) := by
      rw [List.getD_eq_getElem?_getD, List.getElem?_eq_getElem (by omega)]; rfl
    have hb : nodes[2 * (1 + k) + 1]? = some (nodes.getD (2 * (1 + k) + 1) d0) := by
      rw [List.getD_eq_getElem?_getD, List.getElem?_eq_getElem (by omega)]; rfl
    have hset : (nodes.set (1 + k) (H (nodes.getD (2 * (1 + k)) d0) (nodes.getD (2 * (1 + k) + 1) d0))).length
        = nodes.length := List.length_set
    have := ih (nodes.set (1 + k) (H (nodes.getD (2 * (1 + k)) d0) (nodes.getD (2 * (1 + k) + 1) d0)))
      (by rw [hset]; omega) (by rw [hset]; exact h64)
    constructor
    · rw [Loops.merkle_from_digests_for2_ok]
      simp only [e1, e2]
      rw [this.1]
      simp only [Bool.and_true, Bool.and_eq_true, decide_eq_true_eq]
      omega
    · rw [hr, seqLoop, hashChildren, ha, hb]
      simp only []
      rw [Loops.merkle_from_digests_for2]
      simp only [e1, e2]
      rw [← this.2]
      have hlt : 1 + k < nodes.length := by omega
      show (if 1 + k < nodes.length then _ else _) = _
      rw [if_pos hlt]

end TF.GenBridge.Merkle
