import TF.Proofs.GenBridgePacc
import TF.Proofs.BFieldModel
/-!
# The `_ok` flags of the regenerated C01 loops hold on canonical inputs

`TF.Gen.Loops.bfe_*_ok` is true iff no plain arithmetic operation overflows, no shift amount is out of range, no array
index is out of bounds and every `assert!` holds on the executed path (debug build = release build).  On canonical
words (`< P`) every `u128` product is below `2^128`, Montgomery reduction does not overflow, the loop counters stay in
range, and the only failing assertion is `assert_ne!(self, zero)` of `inverse`.
-/
namespace TF.GenBridge.BField
open TF TF.Gen TF.Model.BF TF.BF

theorem band {a b : Bool} (ha : a = true) (hb : b = true) : (a && b) = true := by rw [ha, hb]; rfl

theorem prod_lt (a b : Nat) (ha : canon a) (hb : canon b) :
    decide (a * b < 340282366920938463463374607431768211456) = true := by
  have h := mul_ok a b ha hb
  unfold bfe_mul_ok at h
  exact (Bool.and_eq_true _ _ ▸ h).1

theorem prod_ok (a b : Nat) (ha : canon a) (hb : canon b) :
    (decide (a * b < 340282366920938463463374607431768211456) &&
      montyred_ok ((a * b) % 340282366920938463463374607431768211456)) = true :=
  band (prod_lt a b ha hb) (montyred_ok_true _)

theorem canon_mont (a b : Nat) (ha : canon a) (hb : canon b) :
    canon (montyred ((a * b) % 340282366920938463463374607431768211456)) := canon_mul a b ha hb

theorem canon_sqN (b : Nat) (hb : canon b) : ∀ k, canon (sqN b k)
  | 0 => by rw [sqN]; exact hb
  | k+1 => by rw [sqN]; exact canon_sqN _ (canon_mul b b hb hb) k

/-! ### `mod_pow` -/

theorem mod_pow_loop_ok_true (a e bl : Nat) (ha : canon a) (hle : bl ≤ 64) :
    ∀ fuel acc i, canon acc → i ≤ bl → Loops.bfe_mod_pow_loop_ok a e bl fuel acc i = true := by
  intro fuel
  induction fuel with
  | zero => intro acc i _ _; rfl
  | succ f ih =>
    intro acc i hacc hi
    rw [Loops.bfe_mod_pow_loop_ok]
    by_cases hik : i < bl
    · rw [if_pos (by simpa using hik)]
      dsimp only
      have hsq := canon_mont acc acc hacc hacc
      refine band (prod_ok acc acc hacc hacc) (band (band (band (band ?_ ?_) ?_) ?_) (band ?_ ?_))
      · exact decide_eq_true (by omega)
      · exact decide_eq_true (by omega)
      · exact decide_eq_true (by omega)
      · split
        · exact prod_ok _ a hsq ha
        · rfl
      · exact decide_eq_true (by omega)
      · apply ih _ _ _ (by omega)
        split
        · exact canon_mont _ a hsq ha
        · exact hsq
    · rw [if_neg (by simpa using hik)]

/-- regenerated `mod_pow`: no overflow, no out-of-range shift on every canonical base and every `u64` exponent -/
theorem gen_mod_pow_ok_true (a e : Nat) (ha : canon a) (he : e < 18446744073709551616) :
    Loops.bfe_mod_pow_ok a e = true := by
  have hle := bitLen_le e he
  have hbl : (64 + 4294967296 - (64 - bitLen e)) % 4294967296 = bitLen e := by omega
  unfold Loops.bfe_mod_pow_ok
  dsimp only
  rw [hbl]
  exact band (decide_eq_true (by omega))
    (mod_pow_loop_ok_true a e (bitLen e) ha hle 65 (bfe_new 1) 0 (new_spec 1 (by decide)).1 (by omega))

/-! ### the local `exp` of `inverse` and `inverse` -/

theorem exp_loop_ok_true (k : Nat) (hk : k < 18446744073709551616) :
    ∀ fuel res i, canon res → i ≤ k → Loops.bfe_inverse_exp_loop_ok k fuel res i = true := by
  intro fuel
  induction fuel with
  | zero => intro res i _ _; rfl
  | succ f ih =>
    intro res i hres hi
    rw [Loops.bfe_inverse_exp_loop_ok]
    by_cases hik : i < k
    · rw [if_pos (by simpa using hik)]
      dsimp only
      refine band (prod_ok res res hres hres) (band (decide_eq_true (by omega)) ?_)
      exact ih _ _ (canon_mont res res hres hres) (by omega)
    · rw [if_neg (by simpa using hik)]

theorem gen_exp_ok_true (base k : Nat) (hb : canon base) (hk : k < 18446744073709551616) :
    Loops.bfe_inverse_exp_ok base k = true := by
  unfold Loops.bfe_inverse_exp_ok
  exact exp_loop_ok_true k hk (k + 1) base 0 hb (by omega)

theorem square_ok_true (a : Nat) (ha : canon a) : Loops.bfe_square_ok a = true := mul_ok a a ha ha
theorem canon_square (a : Nat) (ha : canon a) : canon (Loops.bfe_square a) := canon_mul a a ha ha

theorem exp_step (b k : Nat) (hb : canon b) (hk : k < 18446744073709551616) (F : Nat → Bool)
    (hF : F (sqN b k) = true) :
    (Loops.bfe_inverse_exp_ok b k && (Loops.bfe_inverse_exp b k).elim true F) = true := by
  rw [gen_exp_ok_true b k hb hk, gen_exp_eq b k hk, Option.elim_some, hF]; rfl

/-- regenerated `inverse`: on every non-zero canonical word no assertion fails and nothing overflows -/
theorem gen_inverse_ok_true (x : Nat) (hx : canon x) (hnz : x ≠ zero) : Loops.bfe_inverse_ok x = true := by
  have hne : (x != Loops.bfe_zero) = true := by
    rw [show Loops.bfe_zero = zero from rfl]; simpa using hnz
  have m := mul_ok
  have c := canon_mul
  have s := canon_square
  have so := square_ok_true
  have q := canon_sqN
  unfold Loops.bfe_inverse_ok
  extract_lets x' b2 b3
  have hb2 : canon b2 := c _ _ (s _ hx) hx
  have hb3 : canon b3 := c _ _ (s _ hb2) hx
  refine band (band rfl hne) (band (band (so _ hx) (m _ _ (s _ hx) hx)) (band (band (so _ hb2) (m _ _ (s _ hb2) hx))
    (exp_step b3 3 hb3 (by decide) _ ?_)))
  refine band (m _ _ (q _ hb3 _) hb3) ?_
  extract_lets b6
  have hb6 : canon b6 := c _ _ (q _ hb3 _) hb3
  refine exp_step b6 6 hb6 (by decide) _ ?_
  refine band (m _ _ (q _ hb6 _) hb6) ?_
  extract_lets b12
  have hb12 : canon b12 := c _ _ (q _ hb6 _) hb6
  refine exp_step b12 12 hb12 (by decide) _ ?_
  refine band (m _ _ (q _ hb12 _) hb12) ?_
  extract_lets b24
  have hb24 : canon b24 := c _ _ (q _ hb12 _) hb12
  refine exp_step b24 6 hb24 (by decide) _ ?_
  refine band (m _ _ (q _ hb24 _) hb6) ?_
  extract_lets b30 b31 b31z b32
  have hb30 : canon b30 := c _ _ (q _ hb24 _) hb6
  have hb31 : canon b31 := c _ _ (s _ hb30) hx
  have hb31z : canon b31z := s _ hb31
  have hb32 : canon b32 := c _ _ (s _ hb31) hx
  refine band (band (so _ hb30) (m _ _ (s _ hb30) hx)) (band (so _ hb31) (band (band (so _ hb31) (m _ _ (s _ hb31) hx))
    (exp_step b31z 32 hb31z (by decide) _ ?_)))
  exact m _ _ (q _ hb31z _) hb32

/-! ### `power_accumulator` -/

theorem pacc_loop2_ok_true (N : Nat) (hN : N < 18446744073709551616) : ∀ fuel (result : List Nat) (j : Nat),
    result.length = N → j ≤ N → (∀ k, k < N → canon (result.getD k 0)) →
    Loops.bfe_power_accumulator_loop2_ok N fuel result j = true := by
  intro fuel
  induction fuel with
  | zero => intro result j _ _ _; rfl
  | succ f ih =>
    intro result j hlen hj hc
    rw [Loops.bfe_power_accumulator_loop2_ok]
    by_cases hjn : j < N
    · rw [if_pos (by simpa using hjn)]
      dsimp only
      have hcj := hc j hjn
      have hjl : decide (j < result.length) = true := decide_eq_true (by omega)
      refine band (band (band (band (band hjl hjl) (prod_lt _ _ hcj hcj)) (montyred_ok_true _)) hjl)
        (band (decide_eq_true (by omega)) ?_)
      apply ih _ _ (by rw [List.length_set]; exact hlen) (by omega)
      intro k hk
      by_cases hkj : j = k
      · subst hkj; rw [getD_set_self _ _ _ (by omega)]; exact canon_mont _ _ hcj hcj
      · rw [getD_set_ne _ _ _ _ hkj]; exact hc k hk
    · rw [if_neg (by simpa using hjn)]

theorem pacc_loop3_ok_true (N : Nat) (tail : List Nat) (hN : N < 18446744073709551616) (ht : tail.length = N)
    (htc : ∀ k, k < N → canon (tail.getD k 0)) : ∀ fuel (result : List Nat) (j : Nat),
    result.length = N → j ≤ N → (∀ k, k < N → canon (result.getD k 0)) →
    Loops.bfe_power_accumulator_loop3_ok N tail fuel result j = true := by
  intro fuel
  induction fuel with
  | zero => intro result j _ _ _; rfl
  | succ f ih =>
    intro result j hlen hj hc
    rw [Loops.bfe_power_accumulator_loop3_ok]
    by_cases hjn : j < N
    · rw [if_pos (by simpa using hjn)]
      dsimp only
      have hcj := hc j hjn
      have htj := htc j hjn
      have hjl : decide (j < result.length) = true := decide_eq_true (by omega)
      have hjt : decide (j < tail.length) = true := decide_eq_true (by omega)
      refine band (band (band (band (band hjl hjt) (prod_lt _ _ hcj htj)) (montyred_ok_true _)) hjl)
        (band (decide_eq_true (by omega)) ?_)
      apply ih _ _ (by rw [List.length_set]; exact hlen) (by omega)
      intro k hk
      by_cases hkj : j = k
      · subst hkj; rw [getD_set_self _ _ _ (by omega)]; exact canon_mont _ _ hcj htj
      · rw [getD_set_ne _ _ _ _ hkj]; exact hc k hk
    · rw [if_neg (by simpa using hjn)]

theorem pacc_loop_ok_true (N M : Nat) (hN : N < 18446744073709551616) (hM : M < 18446744073709551616) :
    ∀ fuel (result : List Nat) (i : Nat), result.length = N → i ≤ M → (∀ k, k < N → canon (result.getD k 0)) →
    Loops.bfe_power_accumulator_loop_ok N M fuel result i = true := by
  intro fuel
  induction fuel with
  | zero => intro result i _ _ _; rfl
  | succ f ih =>
    intro result i hlen hi hc
    rw [Loops.bfe_power_accumulator_loop_ok]
    by_cases him : i < M
    · rw [if_pos (by simpa using him)]
      obtain ⟨r2, hr2, hr2l, hr2k⟩ := pacc_loop2_spec N hN (N + M + 1) result 0 hlen (by omega) (by omega)
      dsimp only
      rw [hr2, Option.elim_some]
      refine band (pacc_loop2_ok_true N hN _ result 0 hlen (by omega) hc) (band (decide_eq_true (by omega)) ?_)
      apply ih _ _ hr2l (by omega)
      intro k hk
      rw [hr2k k hk, if_neg (by omega)]
      exact canon_mul _ _ (hc k hk) (hc k hk)
    · rw [if_neg (by simpa using him)]

/-- regenerated `power_accumulator::<N, M>`: no index out of bounds, no overflow, on arrays of `N` canonical words -/
theorem gen_power_accumulator_ok_true (N M : Nat) (base tail : List Nat) (hN : N < 18446744073709551616)
    (hM : M < 18446744073709551616) (hb : base.length = N) (ht : tail.length = N)
    (hbc : ∀ x ∈ base, canon x) (htc : ∀ x ∈ tail, canon x) :
    Loops.bfe_power_accumulator_ok N M base tail = true := by
  have hbc' : ∀ k, k < N → canon (base.getD k 0) := fun k hk => by
    rw [List.getD_eq_getElem _ _ (by omega)]; exact hbc _ (List.getElem_mem _)
  have htc' : ∀ k, k < N → canon (tail.getD k 0) := fun k hk => by
    rw [List.getD_eq_getElem _ _ (by omega)]; exact htc _ (List.getElem_mem _)
  obtain ⟨r1, hr1, hr1l, hr1k⟩ := pacc_loop_spec N M hN hM (N + M + 1) base 0 hb (by omega) (by omega)
  unfold Loops.bfe_power_accumulator_ok
  dsimp only
  rw [hr1, Option.elim_some]
  refine band (pacc_loop_ok_true N M hN hM _ base 0 hb (by omega) hbc') ?_
  apply pacc_loop3_ok_true N tail hN ht htc' _ _ _ hr1l (by omega)
  intro k hk
  rw [hr1k k hk]
  exact canon_sqN _ (hbc' k hk) _

end TF.GenBridge.BField
