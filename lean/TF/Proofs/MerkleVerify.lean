import TF.Proofs.MerkleFill
/-! `try_from` and `verify` against the reference verifier -/
set_option linter.unusedSectionVars false
namespace TF.Merkle
open TF.Gen

theorem mem_needed {h : Nat} {idxs : List Nat} {k : Nat} :
    k ∈ Spec.needed h idxs ↔
      (k < 2^(h+1) ∧ 2 ≤ k ∧ Spec.covered h idxs k = false ∧ Spec.covered h idxs (sib k) = true) := by
  unfold Spec.needed
  simp only [List.mem_filter, List.mem_reverse, List.mem_range, Bool.and_eq_true, decide_eq_true_eq, Bool.not_eq_true']
  constructor
  · rintro ⟨a, ⟨b, c⟩, d⟩; exact ⟨a, b, c, d⟩
  · rintro ⟨a, b, c, d⟩; exact ⟨a, ⟨b, c⟩, d⟩

theorem needed_desc (h : Nat) (idxs : List Nat) : (Spec.needed h idxs).Pairwise (· > ·) := by
  unfold Spec.needed
  apply List.Pairwise.filter
  rw [List.pairwise_reverse]
  exact List.pairwise_lt_range

theorem needed_nodup (h : Nat) (idxs : List Nat) : (Spec.needed h idxs).Pairwise (· ≠ ·) :=
  (needed_desc h idxs).imp (fun hab => by omega)

theorem needed_nil (h : Nat) : Spec.needed h [] = [] := by
  unfold Spec.needed
  rw [List.filter_eq_nil_iff]
  intro k _
  simp [Spec.covered]

section TryFrom
variable {D : Type} [DecidableEq D] (H : D → D → D)

theorem wellFormed_iff (p : Proof D) : Spec.wellFormed p = true ↔
    (p.height ≤ 31 ∧ (∀ x ∈ p.leafs, x.1 < 2^p.height) ∧ Spec.consistent p.leafs = true ∧
      p.auth.length = (Spec.needed p.height (p.leafs.map (·.1))).length) := by
  unfold Spec.wellFormed MAX_TREE_HEIGHT
  simp only [Bool.and_eq_true, decide_eq_true_eq, List.all_eq_true, and_assoc]

/-- the context of `fill` for a well-formed proof -/
theorem fillCtx_of_wellFormed {p : Proof D} (hw : Spec.wellFormed p = true) :
    FillCtx p.height (p.leafs.map (·.1)) (Spec.leafAt p.height p.leafs)
      (Spec.authAt p.height (p.leafs.map (·.1)) p.auth) := by
  obtain ⟨hh, hr, _, hl⟩ := (wellFormed_iff p).1 hw
  have hi : ∀ i ∈ p.leafs.map (·.1), i < 2^p.height := by
    intro i hi
    obtain ⟨x, hx, rfl⟩ := List.mem_map.1 hi
    exact hr x hx
  refine ⟨hh, hi, ?_, ?_, ?_, ?_⟩
  · intro k hc
    apply lookup_zip_none
    intro hm
    have := (mem_needed.1 hm).2.2.1
    rw [hc] at this; cases this
  · intro k h2 hn hs
    apply lookup_zip_some _ (by omega)
    exact mem_needed.2 ⟨sib_lt_two_pow (covered_lt hi hs) h2, h2, hn, hs⟩
  · intro i hi'
    rw [leafAt_eq]; exact leafAtN_isSome hi'
  · intro k hk
    rw [leafAt_eq]; exact leafAtN_none hk

/-- **`try_from` succeeds exactly on well-formed proofs** (never panics), and then every computable node of the
    partial tree carries its reference value -/
theorem tryFrom_spec (p : Proof D) :
    (Spec.wellFormed p = true ∧ ∃ m', tryFrom H p = .ok { height := p.height, idxs := p.leafs.map (·.1), nodes := m' } ∧
        FillInv H p.height (p.leafs.map (·.1)) (Spec.leafAt p.height p.leafs)
          (Spec.authAt p.height (p.leafs.map (·.1)) p.auth) p.height m')
    ∨ (Spec.wellFormed p = false ∧ ∃ e, tryFrom H p = .err e) := by
  by_cases hh' : ¬ p.height ≤ 31
  · right
    refine ⟨?_, .treeTooHigh, by simp [tryFrom, numLeafs_err (Nat.not_le.1 hh')]⟩
    cases hw : Spec.wellFormed p
    · rfl
    · exact absurd ((wellFormed_iff p).1 hw).1 hh'
  have hh : p.height ≤ 31 := by omega
  by_cases hr' : ∃ x ∈ p.leafs, ¬ x.1 < 2^p.height
  · right
    obtain ⟨x, hx, hlt⟩ := hr'
    constructor
    · cases hw : Spec.wellFormed p
      · rfl
      · exact absurd (((wellFormed_iff p).1 hw).2.1 x hx) hlt
    · refine ⟨.leafIndexInvalid, ?_⟩
      have : (p.leafs.map (·.1)).any (fun i => decide (i ≥ 2^p.height)) = true := by
        simp only [List.any_eq_true, List.mem_map, decide_eq_true_eq]
        exact ⟨x.1, ⟨x, hx, rfl⟩, by omega⟩
      simp [tryFrom, numLeafs_ok hh, this]
  have hr : ∀ x ∈ p.leafs, x.1 < 2^p.height := by
    intro x hx
    apply Classical.byContradiction
    intro hlt
    exact hr' ⟨x, hx, hlt⟩
  have hi : ∀ i ∈ p.leafs.map (·.1), i < 2^p.height := by
    intro i hi
    obtain ⟨x, hx, rfl⟩ := List.mem_map.1 hi
    exact hr x hx
  have hany : (p.leafs.map (·.1)).any (fun i => decide (i ≥ 2^p.height)) = false := by
    rw [List.any_eq_false]
    intro i hi'
    have := hi i hi'
    simp; omega
  have hauth := authIdx_eq_needed (show p.height ≤ 62 by omega) hi
  by_cases hl' : ¬ p.auth.length = (Spec.needed p.height (p.leafs.map (·.1))).length
  · right
    constructor
    · cases hw : Spec.wellFormed p
      · rfl
      · exact absurd ((wellFormed_iff p).1 hw).2.2.2 hl'
    · exact ⟨.authenticationStructureLengthMismatch, by simp [tryFrom, numLeafs_ok hh, hany, hauth, hl']⟩
  have hl : p.auth.length = (Spec.needed p.height (p.leafs.map (·.1))).length := by
    apply Classical.byContradiction; exact hl'
  obtain ⟨mA, hc1, hc2⟩ := collectMap_get (D := D) hl.symm (needed_nodup p.height (p.leafs.map (·.1)))
  have hb : ∀ x ∈ p.leafs, x.1 + 2^p.height < USIZE :=
    fun x hx => leaf_add_lt_usize (by omega) (hr x hx)
  -- covered nodes are not in the authentication map
  have hcov : ∀ x ∈ p.leafs, mA.get (x.1 + 2^p.height) = none := by
    intro x hx
    rw [hc2]
    apply lookup_zip_none
    intro hm
    have := (mem_needed.1 hm).2.2.1
    have hc : Spec.covered p.height (p.leafs.map (·.1)) (x.1 + 2^p.height) = true := by
      rw [← anc_zero]; exact covered_of_anc (List.mem_map.2 ⟨x, hx, rfl⟩) (Nat.zero_le _)
    rw [hc] at this; cases this
  have hmv : ∀ x ∈ p.leafs, mergeVal (2^p.height) mA p.leafs (x.1 + 2^p.height) = leafAtN (2^p.height) p.leafs (x.1 + 2^p.height) := by
    intro x hx
    unfold mergeVal; rw [hcov x hx]
  rcases foldl_insertLeaf p.leafs mA hb with ⟨m0, h1, h2, h3⟩ | ⟨h1, h3⟩
  · have hcons : Spec.consistent p.leafs = true := by
      rw [← consistent_iff (n := 2^p.height)]
      intro x hx
      rw [← hmv x hx]; exact h3 x hx
    have hw : Spec.wellFormed p = true := (wellFormed_iff p).2 ⟨hh, hr, hcons, hl⟩
    have ctx := fillCtx_of_wellFormed hw
    have hm0 : ∀ k, m0.get k = baseVal (Spec.leafAt p.height p.leafs)
        (Spec.authAt p.height (p.leafs.map (·.1)) p.auth) k := by
      intro k
      rw [h2 k]
      unfold mergeVal baseVal Spec.authAt
      rw [hc2 k, leafAt_eq]
      cases List.lookup k ((Spec.needed p.height (p.leafs.map (·.1))).zip p.auth) <;> rfl
    obtain ⟨m', hf, inv⟩ := fill_ok H ctx hm0
    left
    refine ⟨hw, m', ?_, inv⟩
    simp [tryFrom, numLeafs_ok hh, hany, hauth, hl, hc1, h1, hf]
  · right
    constructor
    · cases hw : Spec.wellFormed p
      · rfl
      · exfalso
        apply h3
        intro x hx
        rw [hmv x hx]
        exact (consistent_iff (n := 2^p.height)).2 ((wellFormed_iff p).1 hw).2.2.1 x hx
    · exact ⟨.repeatedLeafDigestMismatch, by simp [tryFrom, numLeafs_ok hh, hany, hauth, hl, hc1, h1]⟩

/-- **exactness and totality of `verify`**: for every proof (any height, indices, lengths) and every root the verifier
    returns a verdict (no panic) and the verdict is that of the reference recomputation -/
theorem verify_eq_refVerify (p : Proof D) (root : D) : verify H p root = .ok (Spec.refVerify H p root) := by
  unfold verify Spec.refVerify
  by_cases ht : p.isTrivial = true
  · simp [ht]
  · have ht' : p.isTrivial = false := by cases h : p.isTrivial <;> simp_all
    simp only [ht', Bool.false_eq_true, if_false, Bool.false_or]
    rcases tryFrom_spec H p with ⟨hw, m', htf, inv⟩ | ⟨hw, e, htf⟩
    · rw [htf, hw]
      -- there is a claimed leaf, hence the root was computed
      have hne : p.leafs ≠ [] := by
        intro hnil
        have hl := ((wellFormed_iff p).1 hw).2.2.2
        rw [hnil] at hl
        simp only [List.map_nil, needed_nil, List.length_nil] at hl
        have : p.auth = [] := List.eq_nil_of_length_eq_zero hl
        simp [Proof.isTrivial, hnil, this] at ht'
      obtain ⟨x, hx⟩ := List.exists_mem_of_ne_nil _ hne
      have hxi : x.1 ∈ p.leafs.map (·.1) := List.mem_map.2 ⟨x, hx, rfl⟩
      obtain ⟨v, hv1, hv2⟩ := inv.1 p.height (Nat.le_refl _) x.1 hxi
      rw [anc_top (((wellFormed_iff p).1 hw).2.1 x hx)] at hv1 hv2
      simp only [Partial.root, ROOT_INDEX, hv1, Spec.refRoot, hv2, Bool.true_and]
      congr 1
      by_cases e : v = root <;> simp [e]
    · rw [htf, hw]; simp
end TryFrom

end TF.Merkle
