import TF.Proofs.MmrMember
import TF.Proofs.MmrNodeIndex
/-!
# `MmrAccumulator::batch_mutate_leaf_and_update_mps` computes the from-scratch accumulator and paths (C05 / C11)

The routine keeps a map `node index ↦ new digest`, processes the mutations one at a time, walking each mutated leaf's
path bottom-up and taking for every sibling the digest in the map if an earlier mutation of the batch changed it.

Invariant (`Inv`): after a set `S` of leafs has been processed, with `g` the current leaf list,
* the keys of the map are exactly the node indices of the leaf blocks and the non-peak ancestors of the leafs of `S`,
* the value stored under the node `(t, j)` is `sub H g t j`, the root of that block in the *current* leaf list,
* the running peaks are the from-scratch peaks of `g`.
A block `(t, j)` without a key in the map contains no leaf of `S`, hence has the same root as at the start.
Node indices are tied to blocks by `nodeIdx` / `siblingAndParent_spec` / `nodeIdx_inj` (`TF/Proofs/MmrNodeIndex.lean`).
-/
namespace TF.MmrBM
open TF TF.Gen TF.Model.Mmr TF.Model.MmrE TF.Spec.MmrE TF.MmrE

section BM
variable {D : Type} (H : D → D → D)

/-! ### association-list maps -/

theorem AMap.get?_insert (m : AMap D) (k k' : Nat) (v : D) :
    (AMap.insert m k v).get? k' = if k = k' then some v else m.get? k' := by
  unfold AMap.insert; rw [AMap.get?]

theorem AMap.get?_insert_self (m : AMap D) (k : Nat) (v : D) : (AMap.insert m k v).get? k = some v := by
  rw [AMap.get?_insert, if_pos rfl]

theorem AMap.get?_insert_ne (m : AMap D) (k k' : Nat) (v : D) (h : k ≠ k') :
    (AMap.insert m k v).get? k' = m.get? k' := by
  rw [AMap.get?_insert, if_neg h]

theorem AMap.get?_nil (k : Nat) : AMap.get? ([] : AMap D) k = none := by rw [AMap.get?]

/-! ### leafs of the same tree -/

/-- every leaf of the aligned block of the tree of leaf `i` lies in the MMR, in a tree of the same height, under the
    same peak -/
theorem locate_same_tree : ∀ (n i i' : Nat), i < n → i' / 2 ^ (locate n i).1 = i / 2 ^ (locate n i).1 →
    i' < n ∧ (locate n i').1 = (locate n i).1 ∧ (locate n i').2.2 = (locate n i).2.2 := by
  intro n
  induction n using Nat.strongRecOn with
  | _ n ih =>
    intro i i' hlt hblk
    have hn : n ≠ 0 := by omega
    rw [locate_unfold n i hn] at hblk ⊢
    by_cases hc : n % 2 = 1 ∧ i = n - 1
    · rw [if_pos hc] at hblk ⊢
      simp only [Nat.pow_zero, Nat.div_one] at hblk
      subst hblk
      rw [locate_unfold n i' hn, if_pos hc]
      exact ⟨hlt, rfl, rfl⟩
    · rw [if_neg hc] at hblk ⊢
      simp only at hblk ⊢
      have hlt2 : i / 2 < n / 2 := by omega
      have e : ∀ x : Nat, x / 2 ^ ((locate (n / 2) (i / 2)).1 + 1) = x / 2 / 2 ^ (locate (n / 2) (i / 2)).1 := by
        intro x; rw [Nat.pow_succ', Nat.div_div_eq_div_mul]
      rw [e i, e i'] at hblk
      obtain ⟨h1, h2, h3⟩ := ih (n / 2) (by omega) (i / 2) (i' / 2) hlt2 hblk
      have hc' : ¬ (n % 2 = 1 ∧ i' = n - 1) := by omega
      rw [locate_unfold n i' hn, if_neg hc']
      exact ⟨by omega, by simp only; rw [h2], by simp only; rw [h3]⟩

/-- the block of level `t ≤ height` around leaf `i` lies inside the MMR -/
theorem block_le_of_le_height (n i t : Nat) (hlt : i < n) (ht : t ≤ (locate n i).1) : (i / 2 ^ t + 1) * 2 ^ t ≤ n := by
  have h := locate_block_le n i hlt
  obtain ⟨c, hc⟩ := Nat.exists_eq_add_of_le ht
  have hpt : 0 < 2 ^ t := Nat.pow_pos (by omega)
  have hpc : 0 < 2 ^ c := Nat.pow_pos (by omega)
  have hpow : 2 ^ (locate n i).1 = 2 ^ t * 2 ^ c := by rw [hc, Nat.pow_add]
  -- i - i % 2^h + 2^h = (i / 2^h + 1) * 2^h
  have h1 := Nat.div_add_mod i (2 ^ (locate n i).1)
  have h2 := Nat.div_add_mod i (2 ^ t)
  have h3 : i / 2 ^ (locate n i).1 = i / 2 ^ t / 2 ^ c := by rw [hpow, Nat.div_div_eq_div_mul]
  have h4 := Nat.div_add_mod (i / 2 ^ t) (2 ^ c)
  have h5 := Nat.mod_lt (i / 2 ^ t) hpc
  -- (i/2^t + 1) ≤ (i/2^h + 1) * 2^c
  have h6 : i / 2 ^ t + 1 ≤ (i / 2 ^ (locate n i).1 + 1) * 2 ^ c := by
    rw [h3, Nat.add_mul, Nat.one_mul, Nat.mul_comm]; omega
  calc (i / 2 ^ t + 1) * 2 ^ t ≤ ((i / 2 ^ (locate n i).1 + 1) * 2 ^ c) * 2 ^ t := Nat.mul_le_mul_right _ h6
    _ = (i / 2 ^ (locate n i).1 + 1) * 2 ^ (locate n i).1 := by rw [hpow]; ac_rfl
    _ = 2 ^ (locate n i).1 * (i / 2 ^ (locate n i).1) + 2 ^ (locate n i).1 := by
        rw [Nat.add_mul, Nat.one_mul, Nat.mul_comm]
    _ ≤ n := by omega

/-- node indices of the blocks around a leaf, up to its peak, fit a `u64` -/
theorem nodeIdx_lt_of_height (n i t : Nat) (hlt : i < n) (hn : n < 2 ^ 63) (ht : t ≤ (locate n i).1) :
    nodeIdx t (i / 2 ^ t) < 2 ^ 64 :=
  nodeIdx_lt_of_block t _ n (block_le_of_le_height n i t hlt ht) hn

theorem sibBlk_ne (j : Nat) : sibBlk j ≠ j := by unfold sibBlk; split <;> omega
theorem sibBlk_div (j : Nat) : sibBlk j / 2 = j / 2 := by unfold sibBlk; split <;> omega

/-- a block only looks at its own leaves -/
theorem sub_congr_block (f f' : Nat → D) : ∀ (l j : Nat), (∀ k, k / 2 ^ l = j → f k = f' k) →
    sub H f l j = sub H f' l j := by
  intro l
  induction l with
  | zero => intro j h; simp only [sub]; exact h j (by simp)
  | succ l ih =>
    intro j h
    simp only [sub]
    have e : ∀ k : Nat, k / 2 ^ (l + 1) = k / 2 ^ l / 2 := by
      intro k; rw [Nat.pow_succ, Nat.div_div_eq_div_mul]
    rw [ih (2 * j) (fun k hk => h k (by rw [e, hk]; omega)),
      ih (2 * j + 1) (fun k hk => h k (by rw [e, hk]; omega))]

/-! ### one climb of `batch_mutate_leaf_and_update_mps` -/

theorem nodeIdx_ne_sib (l j s : Nat) (hlt : nodeIdx l j < 2 ^ 64) :
    nodeIdx l j ≠ nodeIdx (l + s) (sibBlk (j / 2 ^ s)) := by
  intro h
  obtain ⟨h1, h2⟩ := nodeIdx_inj _ _ _ _ hlt h
  have : s = 0 := by omega
  subst this
  simp only [Nat.pow_zero, Nat.div_one] at h2
  exact sibBlk_ne j h2.symm

theorem nodeIdx_ne_anc (l j s : Nat) (hs : 1 ≤ s) : nodeIdx l j ≠ nodeIdx (l + s) (j / 2 ^ s) := by
  have := nodeIdx_lt_ancestor l j s hs
  omega

/-- the walk from the node `(l, j)` with accumulated hash `sub g' l j`, when every sibling digest taken (from the map
    if present, else from the path) is the sibling block's root in `g'`: it reaches `(l + len, j / 2^len)` with that
    block's root, stores the roots of the proper ancestors strictly below it and touches no other key -/
theorem climb_spec (g' : Nat → D) : ∀ (ds : List D) (l j : Nat) (m : AMap D),
    l + ds.length ≤ 63 → nodeIdx (l + ds.length) (j / 2 ^ ds.length) < 2 ^ 64 →
    (∀ s d, ds[s]? = some d →
      (m.get? (nodeIdx (l + s) (sibBlk (j / 2 ^ s)))).getD d = sub H g' (l + s) (sibBlk (j / 2 ^ s))) →
    ∃ m', deducible H none false true false ds (nodeIdx l j) (sub H g' l j) m
        = some (m', sub H g' (l + ds.length) (j / 2 ^ ds.length)) ∧
      (∀ s, 1 ≤ s → s < ds.length → m'.get? (nodeIdx (l + s) (j / 2 ^ s)) = some (sub H g' (l + s) (j / 2 ^ s))) ∧
      (∀ k, (∀ s, 1 ≤ s → s < ds.length → k ≠ nodeIdx (l + s) (j / 2 ^ s)) → m'.get? k = m.get? k) := by
  intro ds
  induction ds with
  | nil =>
    intro l j m _ _ _
    refine ⟨m, ?_, ?_, ?_⟩
    · simp [deducible]
    · intro s h1 h2; simp at h2
    · intro k _; rfl
  | cons d rest ih =>
    intro l j m hl hlt hsib
    simp only [List.length_cons] at hl hlt
    have e1 : ∀ s, l + 1 + s = l + (s + 1) := by intro s; omega
    have e2 : ∀ s, j / 2 / 2 ^ s = j / 2 ^ (s + 1) := by
      intro s; rw [Nat.div_div_eq_div_mul, ← Nat.pow_succ']
    have hanc := nodeIdx_le_ancestor (l + 1) (j / 2) rest.length
    rw [e1, e2] at hanc
    have hpar : nodeIdx (l + 1) (j / 2) < 2 ^ 64 := by omega
    -- the sibling digest
    have h0 := hsib 0 d (by simp)
    simp only [Nat.add_zero, Nat.pow_zero, Nat.div_one] at h0
    have hacc : (if decide (j % 2 = 1) = true then H (sub H g' l (sibBlk j)) (sub H g' l j)
        else H (sub H g' l j) (sub H g' l (sibBlk j))) = sub H g' (l + 1) (j / 2) := by
      rw [← step_sib H g' l j]
      by_cases hj : j % 2 = 0
      · have : ¬ j % 2 = 1 := by omega
        simp [hj, this]
      · have : j % 2 = 1 := by omega
        simp [hj, this]
    -- the map after this round
    let m1 : AMap D := if (rest.isEmpty && !false) = true then m else AMap.insert m (nodeIdx (l + 1) (j / 2)) (sub H g' (l + 1) (j / 2))
    have hm1 : ∀ s, m1.get? (nodeIdx (l + 1 + s) (sibBlk (j / 2 / 2 ^ s))) = m.get? (nodeIdx (l + 1 + s) (sibBlk (j / 2 / 2 ^ s))) := by
      intro s
      show AMap.get? (if _ then _ else _) _ = _
      split
      · rfl
      · exact AMap.get?_insert_ne _ _ _ _ (nodeIdx_ne_sib (l + 1) (j / 2) s hpar)
    obtain ⟨m', hrun, hv, hk⟩ := ih (l + 1) (j / 2) m1 (by omega) (by rw [e1, e2]; exact hlt) (by
      intro s d' hd'
      rw [hm1 s, e1, e2]
      exact hsib (s + 1) d' (by simpa using hd'))
    refine ⟨m', ?_, ?_, ?_⟩
    · rw [deducible]
      simp only [reduceCtorEq, if_false, Bool.false_and, Bool.false_eq_true]
      rw [siblingAndParent_spec l j (by omega) hpar]
      simp only [if_true, h0, hacc]
      rw [e1, e2] at hrun
      exact hrun
    · intro s hs1 hs2
      simp only [List.length_cons] at hs2
      by_cases hs : s = 1
      · subst hs
        have hne : rest ≠ [] := by intro h; subst h; simp at hs2
        have := hk (nodeIdx (l + 1) (j / 2)) (fun s' h1 _ => nodeIdx_ne_anc (l + 1) (j / 2) s' h1)
        simp only [Nat.pow_one]
        rw [this]
        show AMap.get? (if _ then _ else _) _ = _
        have : rest.isEmpty = false := by cases rest with
          | nil => exact absurd rfl hne
          | cons _ _ => rfl
        simp only [this, Bool.false_and, Bool.false_eq_true, if_false]
        exact AMap.get?_insert_self _ _ _
      · have := hv (s - 1) (by omega) (by omega)
        rw [e1, e2] at this
        have e : s - 1 + 1 = s := by omega
        rw [e] at this
        exact this
    · intro k hkne
      simp only [List.length_cons] at hkne
      rw [hk k (fun s h1 h2 => by
        have := hkne (s + 1) (by omega) (by omega)
        rw [e1, e2]; exact this)]
      show AMap.get? (if _ then _ else _) _ = _
      split
      · rfl
      · rename_i hne
        have hlen : 1 < rest.length + 1 := by
          cases rest with
          | nil => simp at hne
          | cons _ _ => simp
        have := hkne 1 (by omega) hlen
        simp only [Nat.pow_one] at this
        exact AMap.get?_insert_ne _ _ _ _ (fun h => this h.symm)

/-! ### the invariant of the mutation loop -/

theorem div_pow_of_div_pow (a b t h : Nat) (hab : a / 2 ^ t = b / 2 ^ t) (hth : t ≤ h) : a / 2 ^ h = b / 2 ^ h := by
  obtain ⟨c, rfl⟩ := Nat.exists_eq_add_of_le hth
  rw [Nat.pow_add, ← Nat.div_div_eq_div_mul, ← Nat.div_div_eq_div_mul, hab]

/-- state of `new_ap_digests` after the leafs `S` have been mutated; `g0` the leaf list at the start, `g` now -/
structure Inv (n : Nat) (g0 g : Nat → D) (S : List Nat) (φ : Nat → Option D) : Prop where
  inb : ∀ i ∈ S, i < n
  agree : ∀ k, k ∉ S → g k = g0 k
  keys : ∀ k v, φ k = some v → ∃ i ∈ S, ∃ t, (t < (locate n i).1 ∨ t = 0) ∧ k = nodeIdx t (i / 2 ^ t)
  vals : ∀ i ∈ S, ∀ t, (t < (locate n i).1 ∨ t = 0) → φ (nodeIdx t (i / 2 ^ t)) = some (sub H g t (i / 2 ^ t))

theorem Inv.empty (n : Nat) (g : Nat → D) (φ : Nat → Option D) (hφ : ∀ k, φ k = none) : Inv H n g g [] φ where
  inb := by intro i hi; simp at hi
  agree := by intros; rfl
  keys := by intro k v h; rw [hφ] at h; cases h
  vals := by intro i hi; simp at hi

theorem stored_le {n i t : Nat} (h : t < (locate n i).1 ∨ t = 0) : t ≤ (locate n i).1 := by omega

/-- **the sibling digest is always the current one**: for a leaf `i` and a level `t` below its peak, the digest of
    the sibling block found in the map — or, if there is none, the digest from a path valid at the start — is the
    root of that block in the current leaf list -/
theorem Inv.sibling {n : Nat} {g0 g : Nat → D} {S : List Nat} {φ : Nat → Option D} (inv : Inv H n g0 g S φ) (hn : n < 2 ^ 63)
    (i t : Nat) (hi : i < n) (ht : t < (locate n i).1) :
    (φ (nodeIdx t (sibBlk (i / 2 ^ t)))).getD (sub H g0 t (sibBlk (i / 2 ^ t))) = sub H g t (sibBlk (i / 2 ^ t)) := by
  cases hget : φ (nodeIdx t (sibBlk (i / 2 ^ t))) with
  | some v =>
    obtain ⟨i', hi', t', hst, hk⟩ := inv.keys _ _ hget
    have hb := nodeIdx_lt_of_height n i' t' (inv.inb i' hi') hn (stored_le hst)
    obtain ⟨h1, h2⟩ := nodeIdx_inj _ _ _ _ hb hk.symm
    subst h1
    have := inv.vals i' hi' t' hst
    rw [h2, hget] at this
    simp only [Option.getD_some]
    exact Option.some.inj this
  | none =>
    simp only [Option.getD_none]
    apply sub_congr_block
    intro k hk
    apply (inv.agree k _).symm
    intro hkS
    have h1 : k / 2 ^ (t + 1) = i / 2 ^ (t + 1) := by
      rw [Nat.pow_succ, ← Nat.div_div_eq_div_mul, ← Nat.div_div_eq_div_mul, hk, sibBlk_div]
    have h2 := div_pow_of_div_pow k i (t + 1) (locate n i).1 h1 (by omega)
    obtain ⟨_, h3, _⟩ := locate_same_tree n i k hi h2
    have := inv.vals k hkS t (Or.inl (by omega))
    rw [hk, hget] at this
    cases this

/-- one more mutated leaf -/
theorem Inv.step {n : Nat} {g0 g : Nat → D} {S : List Nat} {φ φ' : Nat → Option D} (inv : Inv H n g0 g S φ) (hn : n < 2 ^ 63)
    (i : Nat) (d : D) (hi : i < n) (hiS : i ∉ S)
    (U1 : ∀ s, (s < (locate n i).1 ∨ s = 0) →
      φ' (nodeIdx s (i / 2 ^ s)) = some (sub H (Function.update g i d) s (i / 2 ^ s)))
    (U2 : ∀ k, (∀ s, (s < (locate n i).1 ∨ s = 0) → k ≠ nodeIdx s (i / 2 ^ s)) → φ' k = φ k) :
    Inv H n g0 (Function.update g i d) (i :: S) φ' where
  inb := by
    intro i' hi'
    rcases List.mem_cons.mp hi' with rfl | h
    · exact hi
    · exact inv.inb i' h
  agree := by
    intro k hk
    have h1 : k ≠ i := fun h => hk (by simp [h])
    have h2 : k ∉ S := fun h => hk (by simp [h])
    rw [Function.update_of_ne h1]
    exact inv.agree k h2
  keys := by
    intro k v hget
    by_cases hk : ∃ s, (s < (locate n i).1 ∨ s = 0) ∧ k = nodeIdx s (i / 2 ^ s)
    · obtain ⟨s, hs, rfl⟩ := hk
      exact ⟨i, by simp, s, hs, rfl⟩
    · rw [U2 k (fun s hs hks => hk ⟨s, hs, hks⟩)] at hget
      obtain ⟨i', hi', t, hst, hkt⟩ := inv.keys k v hget
      exact ⟨i', by simp [hi'], t, hst, hkt⟩
  vals := by
    intro i' hi' t hst
    rcases List.mem_cons.mp hi' with rfl | hS
    · exact U1 t hst
    · have hi'n := inv.inb i' hS
      by_cases hb : i' / 2 ^ t = i / 2 ^ t
      · have ht0 : t ≠ 0 := by
          intro h0; subst h0
          simp only [Nat.pow_zero, Nat.div_one] at hb
          exact hiS (hb ▸ hS)
        have htlt : t < (locate n i').1 := by omega
        have h2 := div_pow_of_div_pow i i' t (locate n i').1 hb.symm (by omega)
        obtain ⟨_, h3, _⟩ := locate_same_tree n i' i hi'n h2
        rw [hb]
        exact U1 t (Or.inl (by omega))
      · have hbnd := nodeIdx_lt_of_height n i' t hi'n hn (stored_le hst)
        rw [U2 _ (fun s _ hks => by
          obtain ⟨h1, h2⟩ := nodeIdx_inj _ _ _ _ hbnd hks
          subst h1
          exact hb h2), inv.vals i' hS t hst, sub_update_ne H g i d t _ hb]

/-! ### the mutation loop -/

/-- the leaf list after the mutations `ms`, applied in order -/
abbrev applyL (g : Nat → D) (ms : List (Nat × D)) : Nat → D := ms.foldl (fun g p => Function.update g p.1 p.2) g

/-- the batch as handed to the routine: every mutation carries the path valid in the leaf list `g0` -/
abbrev mkMuts (g0 : Nat → D) (n : Nat) (ms : List (Nat × D)) : List (LeafMutation D) :=
  ms.map fun p => ⟨p.1, p.2, authPathOf H g0 n p.1⟩

/-- the digests of a from-scratch path are the roots of the sibling blocks, level by level -/
theorem authPathOf_getElem? (g0 : Nat → D) (n i : Nat) : ∀ s d', (authPathOf H g0 n i)[s]? = some d' →
    s < (locate n i).1 ∧ d' = sub H g0 s (sibBlk (i / 2 ^ s)) := by
  have hlen : (authPathOf H g0 n i).length = (locate n i).1 := by unfold authPathOf; rw [sibPath_length]
  intro s d' hs
  have hlt : s < (locate n i).1 := by
    have := (List.getElem?_eq_some_iff.mp hs).1
    omega
  refine ⟨hlt, ?_⟩
  obtain ⟨c, hc⟩ := Nat.exists_eq_add_of_le (Nat.succ_le_of_lt hlt)
  unfold authPathOf at hs
  rw [hc, show s.succ + c = s + (1 + c) by omega, sibPath_split H g0 s (1 + c) 0 i,
    List.getElem?_append_right (by simp [sibPath_length]), sibPath_length, Nat.sub_self,
    show 1 + c = c + 1 by omega] at hs
  simp only [sibPath, Nat.zero_add, List.getElem?_cons_zero, Option.some.injEq] at hs
  exact hs.symm

/-- one mutation of the loop: the climb re-establishes the invariant and delivers the new root of the leaf's tree -/
theorem climb_step {n : Nat} {g0 g : Nat → D} {S : List Nat} {m : AMap D} (inv : Inv H n g0 g S m.get?) (hn : n < 2 ^ 63)
    (i : Nat) (d : D) (hi : i < n) (hiS : i ∉ S) :
    m.get? (nodeIdx 0 i) = none ∧
    ∃ m', deducible H none false true false (authPathOf H g0 n i) (nodeIdx 0 i) d (AMap.insert m (nodeIdx 0 i) d)
        = some (m', sub H (Function.update g i d) (locate n i).1 (i / 2 ^ (locate n i).1)) ∧
      Inv H n g0 (Function.update g i d) (i :: S) m'.get? := by
  have hb0 : nodeIdx 0 i < 2 ^ 64 := by
    have := nodeIdx_lt_of_height n i 0 hi hn (Nat.zero_le _)
    simpa using this
  have hnone : m.get? (nodeIdx 0 i) = none := by
    cases hget : m.get? (nodeIdx 0 i) with
    | none => rfl
    | some v =>
      exfalso
      obtain ⟨i', hi', t', hst, hk⟩ := inv.keys _ _ hget
      obtain ⟨h1, h2⟩ := nodeIdx_inj _ _ _ _ hb0 hk
      subst h1
      simp only [Nat.pow_zero, Nat.div_one] at h2
      exact hiS (h2 ▸ hi')
  refine ⟨hnone, ?_⟩
  have hh : (locate n i).1 < 63 := by
    have h1 := two_pow_height_le n i hi
    by_contra hc
    have : 2 ^ 63 ≤ 2 ^ (locate n i).1 := Nat.pow_le_pow_right (by omega) (by omega)
    omega
  have hlen : (authPathOf H g0 n i).length = (locate n i).1 := by unfold authPathOf; rw [sibPath_length]
  have hget := authPathOf_getElem? H g0 n i
  obtain ⟨m', hrun, hv, hk⟩ := climb_spec H (Function.update g i d) (authPathOf H g0 n i) 0 i
    (AMap.insert m (nodeIdx 0 i) d) (by omega)
    (by rw [hlen, Nat.zero_add]; exact nodeIdx_lt_of_height n i _ hi hn (Nat.le_refl _))
    (by
      intro s d' hs
      obtain ⟨hlt, rfl⟩ := hget s d' hs
      rw [Nat.zero_add, AMap.get?_insert_ne _ _ _ _ (by
        have := nodeIdx_ne_sib 0 i s hb0; rwa [Nat.zero_add] at this),
        inv.sibling H hn i s hi hlt, sub_update_ne H g i d s _ (sibBlk_ne _)])
  simp only [Nat.zero_add, hlen] at hrun hv hk
  simp only [sub] at hrun
  rw [Function.update_self] at hrun
  refine ⟨m', hrun, ?_⟩
  apply inv.step H hn i d hi hiS
  · intro s hs
    by_cases hs0 : s = 0
    · subst hs0
      simp only [Nat.pow_zero, Nat.div_one, sub, Function.update_self]
      rw [hk _ (fun s' h1 _ => by
        have := nodeIdx_ne_anc 0 i s' h1; rwa [Nat.zero_add] at this)]
      exact AMap.get?_insert_self _ _ _
    · exact hv s (by omega) (by omega)
  · intro k hkne
    rw [hk k (fun s h1 h2 => hkne s (Or.inl h2))]
    have := hkne 0 (Or.inr rfl)
    simp only [Nat.pow_zero, Nat.div_one] at this
    exact AMap.get?_insert_ne _ _ _ _ (fun h => this h.symm)

theorem mutationsLoop_spec (n : Nat) (hn : n < 2 ^ 63) (g0 : Nat → D) : ∀ (ms : List (Nat × D)) (S : List Nat)
    (g : Nat → D) (m : AMap D), Inv H n g0 g S m.get? → (∀ p ∈ ms, p.1 < n ∧ p.1 ∉ S) → (ms.map (·.1)).Nodup →
    ∃ m', mutationsLoop H true n (mkMuts H g0 n ms) m (peaks H n g) = some (m', peaks H n (applyL g ms)) ∧
      Inv H n g0 (applyL g ms) ((ms.map (·.1)).reverse ++ S) m'.get? := by
  intro ms
  induction ms with
  | nil => intro S g m inv _ _; exact ⟨m, by simp [mkMuts, mutationsLoop], by simpa using inv⟩
  | cons p rest ih =>
    intro S g m inv hin hnd
    obtain ⟨hi, hiS⟩ := hin p (by simp)
    simp only [List.map_cons, List.nodup_cons] at hnd
    obtain ⟨hnone, m1, hrun, inv1⟩ := climb_step H inv hn p.1 p.2 hi hiS
    obtain ⟨m', hloop, inv'⟩ := ih (p.1 :: S) (Function.update g p.1 p.2) m1 inv1
      (by
        intro q hq
        refine ⟨(hin q (by simp [hq])).1, ?_⟩
        intro hmem
        rcases List.mem_cons.mp hmem with h | h
        · exact hnd.1 (List.mem_map.mpr ⟨q, hq, h⟩)
        · exact (hin q (by simp [hq])).2 h)
      hnd.2
    refine ⟨m', ?_, ?_⟩
    · have hn64 : n < 2 ^ 64 := by omega
      have hgen := (gen_locate p.1 n hi hn64).1
      have hpk := locate_pk_lt n p.1 hi
      simp only [mkMuts, List.map_cons]
      rw [mutationsLoop]
      simp only [Bool.not_true, if_true]
      rw [l2n_eq_nodeIdx p.1 (by omega), hnone]
      simp only [Option.isSome_none, Bool.false_eq_true, if_false, hrun, Option.bind_eq_bind, Option.bind_some,
        hi, decide_true, Bool.not_true, hgen, peaks_length, hpk, if_true]
      rw [← peaks_update H n g p.1 p.2 hi]
      exact hloop
    · simp only [List.map_cons, List.reverse_cons, List.append_assoc, List.singleton_append]
      exact inv'

end BM

/-! ### the tracked proofs -/

section BR
variable {D : Type} [DecidableEq D] (H : D → D → D)

/-- replacing, in a path valid for `g0`, every digest by the one in the map gives the path valid for `g`, provided
    map-or-old is the current sibling root at every level; the flag says whether anything changed -/
theorem replace_sibPath (g0 g : Nat → D) (m : AMap D) : ∀ (u l j : Nat),
    (∀ s, s < u → (m.get? (nodeIdx (l + s) (sibBlk (j / 2 ^ s)))).getD (sub H g0 (l + s) (sibBlk (j / 2 ^ s)))
        = sub H g (l + s) (sibBlk (j / 2 ^ s))) →
    replaceFromMap m true false (sibPath H g0 l u j) ((List.range u).map fun t => nodeIdx (l + t) (sibBlk (j / 2 ^ t)))
      = (sibPath H g l u j, decide (sibPath H g l u j ≠ sibPath H g0 l u j)) := by
  intro u
  induction u with
  | zero => intro l j _; simp [sibPath, replaceFromMap]
  | succ u ih =>
    intro l j h
    have e1 : ∀ s, l + 1 + s = l + (s + 1) := by intro s; omega
    have e2 : ∀ s, j / 2 / 2 ^ s = j / 2 ^ (s + 1) := by
      intro s; rw [Nat.div_div_eq_div_mul, ← Nat.pow_succ']
    have h0 := h 0 (by omega)
    simp only [Nat.add_zero, Nat.pow_zero, Nat.div_one] at h0
    have ih' := ih (l + 1) (j / 2) (by
      intro s hs
      rw [e1, e2]
      exact h (s + 1) (by omega))
    have hr : (List.range (u + 1)).map (fun t => nodeIdx (l + t) (sibBlk (j / 2 ^ t)))
        = nodeIdx l (sibBlk j) :: (List.range u).map (fun t => nodeIdx (l + 1 + t) (sibBlk (j / 2 / 2 ^ t))) := by
      rw [List.range_succ_eq_map, List.map_cons, List.map_map]
      simp only [Nat.add_zero, Nat.pow_zero, Nat.div_one, List.cons.injEq, true_and]
      apply List.map_congr_left
      intro t _
      simp only [Function.comp, Nat.succ_eq_add_one]
      rw [e1, e2]
    rw [hr]
    simp only [sibPath]
    rw [replaceFromMap, ih']
    cases hget : m.get? (nodeIdx l (sibBlk j)) with
    | none =>
      rw [hget] at h0
      simp only [Option.getD_none] at h0
      simp [h0]
    | some v =>
      rw [hget] at h0
      simp only [Option.getD_some] at h0
      subst h0
      by_cases hd : sub H g0 l (sibBlk j) = sub H g l (sibBlk j)
      · simp [hd]
      · have hd' : ¬ sub H g l (sibBlk j) = sub H g0 l (sibBlk j) := fun h => hd h.symm
        simp [hd, hd']

/-- the per-proof loop: every tracked path valid at the start becomes the path valid at the end, and exactly the
    changed ones are reported -/
theorem batchReplaceLoop_spec {n : Nat} {g0 g : Nat → D} {S : List Nat} {m : AMap D} (inv : Inv H n g0 g S m.get?)
    (hn : n < 2 ^ 63) : ∀ (lis : List Nat) (i0 : Nat), (∀ i ∈ lis, i < n) →
    batchReplaceLoop m false (lis.map (authPathOf H g0 n)) lis i0
      = some (lis.map (authPathOf H g n),
          ((List.range lis.length).filter fun k =>
            decide (authPathOf H g n (lis.getD k 0) ≠ authPathOf H g0 n (lis.getD k 0))).map (· + i0)) := by
  intro lis
  induction lis with
  | nil => intro i0 _; simp [batchReplaceLoop]
  | cons τ rest ih =>
    intro i0 hlis
    have hτ : τ < n := hlis τ (by simp)
    have hh : (locate n τ).1 < 63 := by
      have h1 := two_pow_height_le n τ hτ
      by_contra hc
      have : 2 ^ 63 ≤ 2 ^ (locate n τ).1 := Nat.pow_le_pow_right (by omega) (by omega)
      omega
    have hlen : (authPathOf H g0 n τ).length = (locate n τ).1 := by unfold authPathOf; rw [sibPath_length]
    have hidx := get_node_indices_spec τ (locate n τ).1 (by omega) (by omega)
      (nodeIdx_lt_of_height n τ _ hτ hn (Nat.le_refl _))
    have hrep := replace_sibPath H g0 g m (locate n τ).1 0 τ (by
      intro s hs
      rw [Nat.zero_add]
      exact inv.sibling H hn τ s hτ hs)
    simp only [Nat.zero_add] at hrep
    simp only [List.map_cons]
    rw [batchReplaceLoop, hlen, hidx]
    simp only [Option.bind_eq_bind, Option.bind_some]
    have hrep' : replaceFromMap m true false (authPathOf H g0 n τ)
        ((List.range (locate n τ).1).map fun t => nodeIdx t (sibBlk (τ / 2 ^ t)))
        = (authPathOf H g n τ, decide (authPathOf H g n τ ≠ authPathOf H g0 n τ)) := hrep
    rw [hrep', ih (i0 + 1) (fun i hi => hlis i (by simp [hi]))]
    simp only [Option.bind_some, Option.pure_def, Option.some.injEq, Prod.mk.injEq, true_and]
    rw [List.length_cons, List.range_succ_eq_map, List.filter_cons, List.filter_map]
    have hf : ((fun k => decide (authPathOf H g n ((τ :: rest).getD k 0) ≠ authPathOf H g0 n ((τ :: rest).getD k 0))) ∘ Nat.succ)
        = fun k => decide (authPathOf H g n (rest.getD k 0) ≠ authPathOf H g0 n (rest.getD k 0)) := by
      funext k; simp
    rw [hf]
    have hm : ((fun x => x + i0) ∘ Nat.succ) = fun x => x + (i0 + 1) := by
      funext k; simp only [Function.comp, Nat.succ_eq_add_one]; omega
    by_cases hc : authPathOf H g n τ = authPathOf H g0 n τ
    · simp [hc, hm, List.map_map]
    · simp [hc, hm, List.map_map]

theorem nodup_rev (l : List Nat) (h : l.Nodup) : l.reverse.Nodup := by
  unfold List.Nodup at *
  exact List.pairwise_reverse.mpr (h.imp Ne.symm)

omit [DecidableEq D] in
theorem applyL_not_mem : ∀ (ms : List (Nat × D)) (g : Nat → D) (k : Nat), k ∉ ms.map (·.1) → applyL g ms k = g k := by
  intro ms
  induction ms with
  | nil => intros; rfl
  | cons p rest ih =>
    intro g k hk
    simp only [List.map_cons, List.mem_cons, not_or] at hk
    show applyL (Function.update g p.1 p.2) rest k = g k
    rw [ih _ k hk.2, Function.update_of_ne hk.1]

omit [DecidableEq D] in
theorem applyL_mem : ∀ (ms : List (Nat × D)) (g : Nat → D) (p : Nat × D), (ms.map (·.1)).Nodup → p ∈ ms →
    applyL g ms p.1 = p.2 := by
  intro ms
  induction ms with
  | nil => intro g p _ hp; simp at hp
  | cons q rest ih =>
    intro g p hnd hp
    simp only [List.map_cons, List.nodup_cons] at hnd
    show applyL (Function.update g q.1 q.2) rest p.1 = p.2
    rcases List.mem_cons.mp hp with rfl | h
    · rw [applyL_not_mem rest _ _ hnd.1, Function.update_self]
    · exact ih _ p hnd.2 h

omit [DecidableEq D] in
/-- mutations of distinct leafs commute: the order of the batch does not matter -/
theorem applyL_reverse (ms : List (Nat × D)) (g : Nat → D) (hnd : (ms.map (·.1)).Nodup) :
    applyL g ms.reverse = applyL g ms := by
  funext k
  have hnd' : (ms.reverse.map (·.1)).Nodup := by rw [List.map_reverse]; exact nodup_rev _ hnd
  by_cases hk : k ∈ ms.map (·.1)
  · obtain ⟨p, hp, rfl⟩ := List.mem_map.mp hk
    rw [applyL_mem ms g p hnd hp, applyL_mem ms.reverse g p hnd' (List.mem_reverse.mpr hp)]
  · rw [applyL_not_mem ms g k hk, applyL_not_mem ms.reverse g k (by rw [List.map_reverse, List.mem_reverse]; exact hk)]

/-- **`MmrAccumulator::batch_mutate_leaf_and_update_mps`** on the from-scratch accumulator of `g`, with distinct
    in-range mutated leafs (any order) carrying their from-scratch paths and any in-range tracked leafs with their
    from-scratch paths: the accumulator becomes the from-scratch accumulator of the mutated leaf list, every tracked
    path becomes the from-scratch path, and exactly the changed ones are reported -/
theorem batchMutateLeafAndUpdateMps_spec (g : Nat → D) (n : Nat) (ms : List (Nat × D)) (lis : List Nat)
    (hlis : ∀ i ∈ lis, i < n) (hms : ∀ m ∈ ms, m.1 < n) (hnd : (ms.map (·.1)).Nodup) (hn : n < 2 ^ 63) :
    Acc.batchMutateLeafAndUpdateMps H ⟨n, peaks H n g⟩ (lis.map (authPathOf H g n)) lis
        (ms.map fun m => ⟨m.1, m.2, authPathOf H g n m.1⟩)
      = some (⟨n, peaks H n (applyL g ms)⟩, lis.map (authPathOf H (applyL g ms) n),
          (List.range lis.length).filter fun k =>
            decide (authPathOf H (applyL g ms) n (lis.getD k 0) ≠ authPathOf H g n (lis.getD k 0))) := by
  have hnd' : (ms.reverse.map (·.1)).Nodup := by rw [List.map_reverse]; exact nodup_rev _ hnd
  obtain ⟨m', hloop, inv⟩ := mutationsLoop_spec H n hn g ms.reverse [] g [] (Inv.empty H n g _ AMap.get?_nil)
    (fun p hp => ⟨hms p (List.mem_reverse.mp hp), by simp⟩) hnd'
  rw [applyL_reverse ms g hnd] at hloop inv
  have hrep := batchReplaceLoop_spec H inv hn lis 0 hlis
  have hall : lis.all (fun x => decide (x < n)) = true := by
    rw [List.all_eq_true]; intro x hx; simpa using hlis x hx
  unfold Acc.batchMutateLeafAndUpdateMps
  simp only [List.length_map, ne_eq, not_true_eq_false, if_false, hall, Bool.not_true, Bool.false_eq_true,
    ← List.map_reverse]
  have hloop' : mutationsLoop H true n (ms.reverse.map fun m => ⟨m.1, m.2, authPathOf H g n m.1⟩) [] (peaks H n g)
      = some (m', peaks H n (applyL g ms)) := hloop
  rw [hloop']
  simp only [Option.bind_eq_bind, Option.bind_some, hrep, Option.pure_def, Nat.add_zero, List.map_id']

end BR
end TF.MmrBM
