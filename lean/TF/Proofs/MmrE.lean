import Mathlib.Data.Nat.Bitwise
import TF.Model.MmrIndex
import TF.Spec.MmrE
/-!
Helper lemmas for C12 / C05 (MMR successor and membership proofs).

Part A: the translated `leaf_index_to_mt_index_and_peak_index` (xor / ilog2 / popcount) computes `locate`.
Part B: the reference structure (`peaks`, `peakPos`, `locate`, `sub`, `foldBlk`, `sibPath`).
(Part C, the model `verify` of `MmrSuccessorProof` equals the reference verifier: `TF/Proofs/MmrSucc.lean`.)
-/
namespace TF.MmrE
open TF.Gen TF.Spec.MmrE

/-! ## Part A -/

theorem popCount_unfold (n : Nat) : TF.popCount n = n % 2 + TF.popCount (n / 2) := by
  cases n with
  | zero => simp [TF.popCount]
  | succ n => rw [TF.popCount]

theorem popCount_zero : TF.popCount 0 = 0 := by simp [TF.popCount]

theorem popCount_pos {n : Nat} (h : n ≠ 0) : 0 < TF.popCount n := by
  induction n using Nat.strongRecOn with
  | _ n ih =>
    rw [popCount_unfold]
    by_cases h2 : n % 2 = 1
    · omega
    · have := ih (n / 2) (by omega) (by omega)
      omega

theorem popCount_lt_two_pow : ∀ (k n : Nat), n < 2 ^ k → TF.popCount n ≤ k := by
  intro k
  induction k with
  | zero => intro n h; have : n = 0 := by simpa using h
            subst this; simp [popCount_zero]
  | succ k ih =>
    intro n h
    rw [popCount_unfold]
    have := ih (n / 2) (by rw [Nat.pow_succ] at h; omega)
    omega

/-- the closed form the Rust code computes (without machine-word wrapping) -/
def idealLoc (li lc : Nat) : Nat × Nat × Nat :=
  (Nat.log2 (li ^^^ lc), li % 2 ^ Nat.log2 (li ^^^ lc),
    TF.popCount lc - TF.popCount (lc % 2 ^ Nat.log2 (li ^^^ lc)) - 1)

theorem locate_unfold (n i : Nat) (hn : n ≠ 0) :
    locate n i = if n % 2 = 1 ∧ i = n - 1 then (0, 0, TF.popCount n - 1)
      else ((locate (n / 2) (i / 2)).1 + 1, 2 * (locate (n / 2) (i / 2)).2.1 + i % 2, (locate (n / 2) (i / 2)).2.2) := by
  cases n with
  | zero => exact absurd rfl hn
  | succ n => rw [locate]; simp

theorem mod_two_pow_succ (x k : Nat) : x % 2 ^ (k + 1) = 2 * ((x / 2) % 2 ^ k) + x % 2 := by
  have h1 : x % 2 ^ (k + 1) = x % 2 + 2 * ((x / 2) % 2 ^ k) := by
    rw [Nat.pow_succ, Nat.mul_comm, Nat.mod_mul]
  omega

theorem locate_eq_ideal : ∀ (lc li : Nat), li < lc → locate lc li = idealLoc li lc := by
  intro lc
  induction lc using Nat.strongRecOn with
  | _ lc ih =>
    intro li hlt
    have hn : lc ≠ 0 := by omega
    rw [locate_unfold lc li hn]
    by_cases hc : lc % 2 = 1 ∧ li = lc - 1
    · rw [if_pos hc]
      obtain ⟨h1, h2⟩ := hc
      have hx : li ^^^ lc = 1 := by
        have hd : (li ^^^ lc) / 2 = 0 := by
          rw [Nat.xor_div_two]
          have : li / 2 = lc / 2 := by omega
          rw [this, Nat.xor_self]
        have hm : (li ^^^ lc) % 2 = 1 := by rw [Nat.xor_mod_two_eq]; omega
        omega
      simp [idealLoc, hx, Nat.log2_def, Nat.mod_one, popCount_zero]
    · rw [if_neg hc]
      have hlt2 : li / 2 < lc / 2 := by omega
      have ihh := ih (lc / 2) (by omega) (li / 2) hlt2
      rw [ihh]
      have hd : (li ^^^ lc) / 2 = li / 2 ^^^ lc / 2 := Nat.xor_div_two
      have hne : li / 2 ^^^ lc / 2 ≠ 0 := by
        intro h0; rw [Nat.xor_eq_zero_iff] at h0; omega
      have hge : 2 ≤ li ^^^ lc := by omega
      have hlog : Nat.log2 (li ^^^ lc) = Nat.log2 (li / 2 ^^^ lc / 2) + 1 := by
        rw [Nat.log2_def (li ^^^ lc), if_pos hge, hd]
      simp only [idealLoc, hlog]
      rw [mod_two_pow_succ li, mod_two_pow_succ lc]
      have hp1 := popCount_unfold lc
      have hp2 := popCount_unfold (2 * (lc / 2 % 2 ^ (li / 2 ^^^ lc / 2).log2) + lc % 2)
      have e1 : (2 * (lc / 2 % 2 ^ (li / 2 ^^^ lc / 2).log2) + lc % 2) % 2 = lc % 2 := by omega
      have e2 : (2 * (lc / 2 % 2 ^ (li / 2 ^^^ lc / 2).log2) + lc % 2) / 2 = lc / 2 % 2 ^ (li / 2 ^^^ lc / 2).log2 := by omega
      rw [e1, e2] at hp2
      refine Prod.ext rfl (Prod.ext rfl ?_)
      simp only
      omega


theorem popCount_split (k : Nat) : ∀ n : Nat, TF.popCount n = TF.popCount (n % 2 ^ k) + TF.popCount (n / 2 ^ k) := by
  induction k with
  | zero => intro n; simp [Nat.mod_one, popCount_zero]
  | succ k ih =>
    intro n
    rw [popCount_unfold n, ih (n / 2), mod_two_pow_succ n k,
      popCount_unfold (2 * (n / 2 % 2 ^ k) + n % 2)]
    have e1 : (2 * (n / 2 % 2 ^ k) + n % 2) % 2 = n % 2 := by omega
    have e2 : (2 * (n / 2 % 2 ^ k) + n % 2) / 2 = n / 2 % 2 ^ k := by omega
    rw [e1, e2, Nat.div_div_eq_div_mul, Nat.pow_succ, Nat.mul_comm 2]
    omega

/-- the aligned block of `2^h` leaves around leaf `i` lies inside the MMR -/
theorem locate_block_le : ∀ (n i : Nat), i < n →
    i - i % 2 ^ (locate n i).1 + 2 ^ (locate n i).1 ≤ n := by
  intro n
  induction n using Nat.strongRecOn with
  | _ n ih =>
    intro i hlt
    rw [locate_unfold n i (by omega)]
    by_cases hc : n % 2 = 1 ∧ i = n - 1
    · rw [if_pos hc]; simp; omega
    · rw [if_neg hc]
      have := ih (n / 2) (by omega) (i / 2) (by omega)
      simp only
      rw [mod_two_pow_succ i, Nat.pow_succ]
      omega

theorem locate_pk_lt : ∀ (n i : Nat), i < n → (locate n i).2.2 < TF.popCount n := by
  intro n
  induction n using Nat.strongRecOn with
  | _ n ih =>
    intro i hlt
    rw [locate_unfold n i (by omega)]
    by_cases hc : n % 2 = 1 ∧ i = n - 1
    · rw [if_pos hc]
      have := popCount_pos (n := n) (by omega)
      simp only; omega
    · rw [if_neg hc]
      have := ih (n / 2) (by omega) (i / 2) (by omega)
      have := popCount_unfold n
      simp only; omega

theorem locate_local (n i : Nat) (h : i < n) : (locate n i).2.1 = i % 2 ^ (locate n i).1 := by
  rw [locate_eq_ideal n i h]; rfl

theorem two_pow_height_le (n i : Nat) (h : i < n) : 2 ^ (locate n i).1 ≤ n := by
  have := locate_block_le n i h
  have := Nat.mod_le i (2 ^ (locate n i).1)
  omega

theorem height_lt_64 (n i : Nat) (h : i < n) (hn : n < 2 ^ 64) : (locate n i).1 < 64 := by
  have h1 := two_pow_height_le n i h
  by_contra hc
  have : 2 ^ 64 ≤ 2 ^ (locate n i).1 := Nat.pow_le_pow_right (by omega) (by omega)
  omega

/-- **the translated function computes `locate`** on all of `u64`, and nothing in it wraps or panics -/
theorem gen_locate (li lc : Nat) (hlt : li < lc) (hlc : lc < 2 ^ 64) :
    leaf_index_to_mt_index_and_peak_index li lc
      = (2 ^ (locate lc li).1 + li % 2 ^ (locate lc li).1, (locate lc li).2.2) ∧
    leaf_index_to_mt_index_and_peak_index_ok li lc = true := by
  have hh := height_lt_64 lc li hlt hlc
  have hle := two_pow_height_le lc li hlt
  have hpk := locate_pk_lt lc li hlt
  rw [locate_eq_ideal lc li hlt] at hh hle hpk ⊢
  simp only [idealLoc] at hh hle hpk ⊢
  have hne : li ^^^ lc ≠ 0 := by intro h0; rw [Nat.xor_eq_zero_iff] at h0; omega
  generalize hH : Nat.log2 (li ^^^ lc) = h at *
  have hpow : 2 ^ h ≤ 2 ^ 63 := Nat.pow_le_pow_right (by omega) (by omega)
  have hpos : 0 < 2 ^ h := Nat.pow_pos (by omega)
  have hmod : 2 ^ h % 18446744073709551616 = 2 ^ h := Nat.mod_eq_of_lt (by omega)
  have hmask : (2 ^ h + 18446744073709551616 - 1) % 18446744073709551616 = 2 ^ h - 1 := by omega
  have hand1 : (2 ^ h - 1) &&& li = li % 2 ^ h := by rw [Nat.and_comm, Nat.and_two_pow_sub_one_eq_mod]
  have hand2 : lc &&& (2 ^ h - 1) = lc % 2 ^ h := Nat.and_two_pow_sub_one_eq_mod lc h
  have hl : li % 2 ^ h < 2 ^ h := Nat.mod_lt _ hpos
  have hpc : TF.popCount lc ≤ 64 := popCount_lt_two_pow 64 lc hlc
  have hsp := popCount_split h lc
  have hq : 0 < TF.popCount (lc / 2 ^ h) :=
    popCount_pos (Nat.pos_iff_ne_zero.mp (Nat.div_pos hle hpos))
  constructor
  · simp only [leaf_index_to_mt_index_and_peak_index, hH, hmod, hmask, hand1, hand2]
    generalize 2 ^ h = x at *
    refine Prod.ext ?_ ?_ <;> simp only <;> omega
  · simp only [leaf_index_to_mt_index_and_peak_index_ok, hH, hmod, hmask, hand1, hand2]
    simp only [Bool.and_eq_true, decide_eq_true_eq, bne_iff_ne, ne_eq]
    generalize 2 ^ h = x at *
    refine ⟨hlt, hne, by omega, by omega, by omega, by omega, by omega⟩


/-! ## Part B: the reference structure -/

section B
variable {D : Type} (H : D → D → D)

theorem peaks_unfold (n : Nat) (f : Nat → D) (hn : n ≠ 0) :
    peaks H n f = peaks H (n / 2) (pair H f) ++ (if n % 2 = 1 then [f (n - 1)] else []) := by
  cases n with
  | zero => exact absurd rfl hn
  | succ n => rw [peaks]; simp

theorem peaks_zero (f : Nat → D) : peaks H 0 f = [] := by rw [peaks]

theorem peakPos_unfold (n : Nat) (hn : n ≠ 0) :
    peakPos n = (peakPos (n / 2)).map (fun p => (p.1 + 1, 2 * p.2)) ++ (if n % 2 = 1 then [(0, n - 1)] else []) := by
  cases n with
  | zero => exact absurd rfl hn
  | succ n => rw [peakPos]; simp

theorem peakPos_zero : peakPos 0 = [] := by rw [peakPos]

theorem sub_pair (f : Nat → D) : ∀ (l j : Nat), sub H (pair H f) l j = sub H f (l + 1) j := by
  intro l
  induction l with
  | zero => intro j; simp [sub, pair]
  | succ l ih => intro j; rw [sub, ih, ih]; conv => rhs; rw [sub]

theorem peakPos_length : ∀ n : Nat, (peakPos n).length = TF.popCount n := by
  intro n
  induction n using Nat.strongRecOn with
  | _ n ih =>
    by_cases hn : n = 0
    · subst hn; simp [peakPos_zero, popCount_zero]
    · rw [peakPos_unfold n hn, popCount_unfold n, List.length_append, List.length_map, ih (n / 2) (by omega)]
      by_cases h : n % 2 = 1
      · simp [h]; omega
      · simp [h]; omega

theorem peaks_eq_map : ∀ (n : Nat) (f : Nat → D),
    peaks H n f = (peakPos n).map (fun p => sub H f p.1 (p.2 / 2 ^ p.1)) := by
  intro n
  induction n using Nat.strongRecOn with
  | _ n ih =>
    intro f
    by_cases hn : n = 0
    · subst hn; simp [peaks_zero, peakPos_zero]
    · rw [peaks_unfold H n f hn, peakPos_unfold n hn, ih (n / 2) (by omega) (pair H f), List.map_append,
        List.map_map]
      congr 1
      · apply List.map_congr_left
        intro p _
        simp only [Function.comp, sub_pair]
        congr 1
        rw [Nat.pow_succ, Nat.mul_comm (2 ^ p.1) 2, Nat.mul_div_mul_left _ _ (by omega : 0 < 2)]
      · by_cases h : n % 2 = 1
        · simp [h, sub]
        · simp [h]

theorem peaks_length (n : Nat) (f : Nat → D) : (peaks H n f).length = TF.popCount n := by
  rw [peaks_eq_map, List.length_map, peakPos_length]

/-- every peak is an aligned block inside the range -/
theorem peakPos_mem : ∀ (n : Nat) (p : Nat × Nat), p ∈ peakPos n → 2 ^ p.1 ∣ p.2 ∧ p.2 + 2 ^ p.1 ≤ n := by
  intro n
  induction n using Nat.strongRecOn with
  | _ n ih =>
    intro p hp
    by_cases hn : n = 0
    · subst hn; simp [peakPos_zero] at hp
    · rw [peakPos_unfold n hn, List.mem_append] at hp
      rcases hp with hp | hp
      · rw [List.mem_map] at hp
        obtain ⟨q, hq, rfl⟩ := hp
        obtain ⟨h1, h2⟩ := ih (n / 2) (by omega) q hq
        refine ⟨?_, ?_⟩
        · simp only; rw [Nat.pow_succ, Nat.mul_comm]; exact Nat.mul_dvd_mul_left 2 h1
        · simp only; rw [Nat.pow_succ]; omega
      · by_cases h : n % 2 = 1
        · simp [h] at hp; subst hp; simp; omega
        · simp [h] at hp

/-- an aligned block of height `h` inside the range lies in a tree of height at least `h` -/
theorem locate_height_ge : ∀ (h n s : Nat), 2 ^ h ∣ s → s + 2 ^ h ≤ n → h ≤ (locate n s).1 := by
  intro h
  induction h with
  | zero => intros; omega
  | succ h ih =>
    intro n s hd hle
    have hp : 0 < 2 ^ h := Nat.pow_pos (by omega)
    rw [Nat.pow_succ] at hd hle
    obtain ⟨c, hc⟩ := hd
    rw [locate_unfold n s (by omega)]
    have hne : ¬ (n % 2 = 1 ∧ s = n - 1) := by omega
    rw [if_neg hne]
    have hs : s = 2 * (2 ^ h * c) := by rw [hc, Nat.mul_assoc, Nat.mul_left_comm]
    have := ih (n / 2) (s / 2) ⟨c, by omega⟩ (by omega)
    simp only; omega

/-- the peak with index `(locate n i).2.2` is the root of the aligned block of height `(locate n i).1` around `i` -/
theorem peaks_getElem_locate : ∀ (n : Nat) (f : Nat → D) (i : Nat), i < n →
    (peaks H n f)[(locate n i).2.2]? = some (sub H f (locate n i).1 (i / 2 ^ (locate n i).1)) := by
  intro n
  induction n using Nat.strongRecOn with
  | _ n ih =>
    intro f i hlt
    have hn : n ≠ 0 := by omega
    rw [peaks_unfold H n f hn, locate_unfold n i hn]
    have hlen := peaks_length H (n / 2) (pair H f)
    have hpc := popCount_unfold n
    by_cases hc : n % 2 = 1 ∧ i = n - 1
    · rw [if_pos hc]
      obtain ⟨h1, h2⟩ := hc
      simp only [h1, if_true]
      rw [List.getElem?_append_right (by omega)]
      have : TF.popCount n - 1 - (peaks H (n / 2) (pair H f)).length = 0 := by omega
      rw [this]; simp [sub, h2]
    · rw [if_neg hc]
      have hlt2 : i / 2 < n / 2 := by omega
      have h3 := locate_pk_lt (n / 2) (i / 2) hlt2
      simp only
      rw [List.getElem?_append_left (by omega), ih (n / 2) (by omega) (pair H f) (i / 2) hlt2, sub_pair]
      congr 2
      rw [Nat.div_div_eq_div_mul, Nat.pow_succ, Nat.mul_comm 2]


/-! ### folding along sibling digests -/

/-- an explicit collision of `H` -/
def Collision : Prop := ∃ a b c d : D, (a, b) ≠ (c, d) ∧ H a b = H c d

theorem sibPath_length (f : Nat → D) : ∀ (up l j : Nat), (sibPath H f l up j).length = up := by
  intro up
  induction up with
  | zero => intros; simp [sibPath]
  | succ u ih => intros; simp [sibPath, ih]

theorem step_sib (f : Nat → D) (l j : Nat) :
    (if j % 2 = 0 then H (sub H f l j) (sub H f l (sibBlk j)) else H (sub H f l (sibBlk j)) (sub H f l j))
      = sub H f (l + 1) (j / 2) := by
  unfold sibBlk
  by_cases h : j % 2 = 0
  · have e : 2 * (j / 2) = j := by omega
    simp only [h, if_true, sub]; rw [e]
  · have e : 2 * (j / 2) + 1 = j := by omega
    have e' : 2 * (j / 2) = j - 1 := by omega
    simp only [h, if_false, sub]; rw [e, e']

/-- completeness of one path: folding a block root up its own sibling path gives the ancestor block root -/
theorem foldBlk_sibPath (f : Nat → D) : ∀ (up l j : Nat),
    foldBlk H j (sub H f l j) (sibPath H f l up j) = sub H f (l + up) (j / 2 ^ up) := by
  intro up
  induction up with
  | zero => intro l j; simp [foldBlk, sibPath]
  | succ u ih =>
    intro l j
    simp only [sibPath, foldBlk, step_sib]
    rw [ih (l + 1) (j / 2), Nat.div_div_eq_div_mul, Nat.pow_succ, Nat.mul_comm 2]
    congr 1; omega

/-- soundness of one path: a value and digests that fold to the true ancestor are the true block root and the true
    siblings, or an explicit collision of `H` is at hand -/
theorem foldBlk_sound (f : Nat → D) : ∀ (path : List D) (l j : Nat) (v : D),
    foldBlk H j v path = sub H f (l + path.length) (j / 2 ^ path.length) →
    (v = sub H f l j ∧ path = sibPath H f l path.length j) ∨ Collision H := by
  intro path
  induction path with
  | nil => intro l j v h; simp [foldBlk] at h; exact Or.inl ⟨h, by simp [sibPath]⟩
  | cons s ss ih =>
    intro l j v h
    simp only [foldBlk, List.length_cons] at h
    have h' : foldBlk H (j / 2) (if j % 2 = 0 then H v s else H s v) ss
        = sub H f ((l + 1) + ss.length) ((j / 2) / 2 ^ ss.length) := by
      rw [h, Nat.div_div_eq_div_mul, Nat.pow_succ, Nat.mul_comm 2]
      congr 1; omega
    rcases ih (l + 1) (j / 2) _ h' with ⟨hv, hp⟩ | hc
    · rw [← step_sib H f l j] at hv
      by_cases hk : j % 2 = 0
      · simp only [hk, if_true] at hv
        by_cases hEq : (v, s) = (sub H f l j, sub H f l (sibBlk j))
        · have := Prod.mk.inj hEq
          refine Or.inl ⟨this.1, ?_⟩
          simp only [List.length_cons, sibPath]; rw [← hp, this.2]
        · exact Or.inr ⟨_, _, _, _, hEq, hv⟩
      · simp only [hk, if_false] at hv
        by_cases hEq : (s, v) = (sub H f l (sibBlk j), sub H f l j)
        · have := Prod.mk.inj hEq
          refine Or.inl ⟨this.2, ?_⟩
          simp only [List.length_cons, sibPath]; rw [← hp, this.1]
        · exact Or.inr ⟨_, _, _, _, hEq, hv⟩
    · exact Or.inr hc

/-- two folds from the same position with equally many digests agree only on equal inputs (or a collision) -/
theorem foldBlk_inj : ∀ (path path' : List D) (j : Nat) (v v' : D), path.length = path'.length →
    foldBlk H j v path = foldBlk H j v' path' → (v = v' ∧ path = path') ∨ Collision H := by
  intro path
  induction path with
  | nil =>
    intro path' j v v' hl h
    have : path' = [] := List.eq_nil_of_length_eq_zero (by simpa using hl.symm)
    subst this; simp [foldBlk] at h; exact Or.inl ⟨h, rfl⟩
  | cons s ss ih =>
    intro path' j v v' hl h
    match path', hl with
    | s' :: ss', hl =>
      simp only [foldBlk] at h
      rcases ih ss' (j / 2) _ _ (by simpa using hl) h with ⟨hv, hp⟩ | hc
      · by_cases hk : j % 2 = 0
        · simp only [hk, if_true] at hv
          by_cases hEq : (v, s) = (v', s')
          · have := Prod.mk.inj hEq; exact Or.inl ⟨this.1, by rw [this.2, hp]⟩
          · exact Or.inr ⟨_, _, _, _, hEq, hv⟩
        · simp only [hk, if_false] at hv
          by_cases hEq : (s, v) = (s', v')
          · have := Prod.mk.inj hEq; exact Or.inl ⟨this.2, by rw [this.1, hp]⟩
          · exact Or.inr ⟨_, _, _, _, hEq, hv⟩
      · exact Or.inr hc

/-- a fold over `k` digests only looks at the low `k` bits of the block index -/
theorem foldBlk_mod : ∀ (path : List D) (j : Nat) (v : D),
    foldBlk H j v path = foldBlk H (j % 2 ^ path.length) v path := by
  intro path
  induction path with
  | nil => intros; simp [foldBlk]
  | cons s ss ih =>
    intro j v
    simp only [foldBlk, List.length_cons]
    have e1 : j % 2 ^ (ss.length + 1) % 2 = j % 2 := by rw [mod_two_pow_succ]; omega
    have e2 : j % 2 ^ (ss.length + 1) / 2 = (j / 2) % 2 ^ ss.length := by rw [mod_two_pow_succ]; omega
    simp only [e1, e2]
    rw [ih (j / 2), ih (j / 2 % 2 ^ ss.length), Nat.mod_mod]

end B

/-! ### the top-down walk of `verify` (`ilog2`, strip the top bit) visits exactly `peakPos` -/

theorem two_pow_log2_le {n : Nat} (h : n ≠ 0) : 2 ^ Nat.log2 n ≤ n := Nat.log2_self_le h

theorem lt_two_pow_log2_succ (n : Nat) : n < 2 ^ (Nat.log2 n + 1) := by
  by_cases h : n = 0
  · subst h; simp
  · exact (Nat.log2_lt h).mp (Nat.lt_succ_self _)

/-- the `(old_height, running_leaf_count)` pairs visited by the loop of `verify` -/
def stripTop : Nat → Nat → List (Nat × Nat)
  | rem, run =>
    if h : rem = 0 then [] else
      (Nat.log2 rem, run) :: stripTop (rem - 2 ^ Nat.log2 rem) (run + 2 ^ Nat.log2 rem)
termination_by rem => rem
decreasing_by
  have := two_pow_log2_le h
  have : 0 < 2 ^ Nat.log2 rem := Nat.pow_pos (by omega)
  omega

theorem stripTop_zero (run : Nat) : stripTop 0 run = [] := by rw [stripTop]; simp

theorem stripTop_pos (rem run : Nat) (h : rem ≠ 0) :
    stripTop rem run = (Nat.log2 rem, run) :: stripTop (rem - 2 ^ Nat.log2 rem) (run + 2 ^ Nat.log2 rem) := by
  rw [stripTop]; simp [h]

theorem stripTop_double : ∀ (r run b : Nat), b ≤ 1 →
    stripTop (2 * r + b) (2 * run) = (stripTop r run).map (fun p => (p.1 + 1, 2 * p.2)) ++
      (if b = 1 then [(0, 2 * run + 2 * r)] else []) := by
  intro r
  induction r using Nat.strongRecOn with
  | _ r ih =>
    intro run b hb
    by_cases hr : r = 0
    · subst hr
      by_cases hb1 : b = 1
      · subst hb1
        rw [stripTop_pos _ _ (by omega)]
        simp [stripTop_zero, Nat.log2_def]
      · have : b = 0 := by omega
        subst this; simp [stripTop_zero]
    · have hlog : Nat.log2 (2 * r + b) = Nat.log2 r + 1 := by
        rw [Nat.log2_def (2 * r + b), if_pos (by omega)]
        congr 2; omega
      have hle := two_pow_log2_le hr
      have hpos : 0 < 2 ^ Nat.log2 r := Nat.pow_pos (by omega)
      rw [stripTop_pos (2 * r + b) _ (by omega), stripTop_pos r run hr, hlog, Nat.pow_succ]
      have e1 : 2 * r + b - 2 ^ Nat.log2 r * 2 = 2 * (r - 2 ^ Nat.log2 r) + b := by omega
      have e2 : 2 * run + 2 ^ Nat.log2 r * 2 = 2 * (run + 2 ^ Nat.log2 r) := by omega
      rw [e1, e2, ih (r - 2 ^ Nat.log2 r) (by omega) _ b hb]
      simp only [List.map_cons, List.cons_append]
      congr 2
      by_cases hb1 : b = 1
      · simp only [hb1, if_true]; congr 2; omega
      · simp [hb1]

theorem stripTop_eq_peakPos : ∀ n : Nat, stripTop n 0 = peakPos n := by
  intro n
  induction n using Nat.strongRecOn with
  | _ n ih =>
    by_cases hn : n = 0
    · subst hn; rw [stripTop_zero, peakPos_zero]
    · have e : n = 2 * (n / 2) + n % 2 := by omega
      have := stripTop_double (n / 2) 0 (n % 2) (by omega)
      rw [Nat.mul_zero, ← e] at this
      rw [this, peakPos_unfold n hn, ih (n / 2) (by omega)]
      congr 1
      by_cases h : n % 2 = 1
      · simp only [h, if_true]; congr 2; omega
      · simp [h]

theorem popCount_strip {n : Nat} (h : n ≠ 0) : TF.popCount (n - 2 ^ Nat.log2 n) + 1 = TF.popCount n := by
  have h1 := two_pow_log2_le h
  have h2 := lt_two_pow_log2_succ n
  have hpos : 0 < 2 ^ Nat.log2 n := Nat.pow_pos (by omega)
  rw [Nat.pow_succ] at h2
  have hd : n / 2 ^ Nat.log2 n = 1 := by
    apply Nat.div_eq_of_lt_le <;> omega
  have hm : n % 2 ^ Nat.log2 n = n - 2 ^ Nat.log2 n := by
    have := Nat.div_add_mod n (2 ^ Nat.log2 n)
    rw [hd] at this; omega
  rw [popCount_split (Nat.log2 n) n, hd, hm]
  simp [popCount_unfold 1, popCount_zero]

end TF.MmrE
