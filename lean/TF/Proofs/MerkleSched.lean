import TF.Model.MerkleSched
import TF.Proofs.MerkleBuild
/-! Schedule independence of the parallel phase of `CpuParallel::from_digests` (core Lean only). -/
set_option linter.unusedSectionVars false
namespace TF.Merkle
open Res

section Sched
variable {D : Type} (H : D → D → D)

theorem hashChildren_ok_or_panic (nodes : List D) (j : Nat) :
    hashChildren H nodes j = .panic ∨ ∃ d, hashChildren H nodes j = .ok d := by
  unfold hashChildren
  cases nodes[2 * j]? <;> cases nodes[2 * j + 1]? <;> simp

theorem Res.mapM_ok_map {α β : Type} {f : α → Res β} (g : α → β) :
    ∀ (l : List α), (∀ a ∈ l, f a = .ok (g a)) → Res.mapM f l = .ok (l.map g)
  | [], _ => rfl
  | a :: as, h => by
    have h1 := h a (List.mem_cons_self ..)
    have h2 := Res.mapM_ok_map g as (fun x hx => h x (List.mem_cons_of_mem _ hx))
    show (do let b ← f a; let bs ← Res.mapM f as; Res.ok (b :: bs)) = _
    rw [h1, h2]; rfl

theorem Res.mapM_panic {α β : Type} {f : α → Res β} :
    ∀ (l : List α), (∀ a ∈ l, f a = .panic ∨ ∃ b, f a = .ok b) → (∃ a ∈ l, f a = .panic) → Res.mapM f l = .panic
  | [], _, ⟨_, hm, _⟩ => by cases hm
  | a :: as, h, ⟨x, hx, hp⟩ => by
    show (do let b ← f a; let bs ← Res.mapM f as; Res.ok (b :: bs)) = _
    rcases h a (List.mem_cons_self ..) with h1 | ⟨b, h1⟩
    · rw [h1]; rfl
    · rw [h1]
      have hx' : x ∈ as := by
        rcases List.mem_cons.mp hx with e | e
        · subst e; rw [h1] at hp; cases hp
        · exact e
      have := Res.mapM_panic as (fun y hy => h y (List.mem_cons_of_mem _ hy)) ⟨x, hx', hp⟩
      show (do let bs ← Res.mapM f as; Res.ok (b :: bs)) = _
      rw [this]; rfl

theorem collectBuf_map_some : ∀ (l : List D), collectBuf (l.map some) = .ok l
  | [] => rfl
  | d :: r => by
    show (do let t ← collectBuf (r.map some); Res.ok (d :: t)) = _
    rw [collectBuf_map_some r]; rfl

/-- all tasks succeed: the buffer ends up with `g k` in every scheduled slot, whatever the order and however often a
    slot is scheduled -/
theorem runTasks_all_ok {f : Nat → Res D} (g : Nat → D) :
    ∀ (σ : List Nat) (buf : List (Option D)), (∀ i ∈ σ, f i = .ok (g i) ∧ i < buf.length) →
      ∃ buf', runTasks f σ buf = .ok buf' ∧ buf'.length = buf.length ∧
        ∀ k, buf'[k]? = if k ∈ σ then some (some (g k)) else buf[k]?
  | [], buf, _ => ⟨buf, rfl, rfl, by simp⟩
  | i :: rest, buf, h => by
    obtain ⟨hf, hi⟩ := h i (List.mem_cons_self ..)
    obtain ⟨buf', h1, h2, h3⟩ := runTasks_all_ok g rest (buf.set i (some (g i))) (fun x hx => by
      have := h x (List.mem_cons_of_mem _ hx)
      exact ⟨this.1, by simpa using this.2⟩)
    refine ⟨buf', by simp [runTasks, hf, hi, h1], by simpa using h2, ?_⟩
    intro k
    rw [h3 k]
    by_cases hk : k ∈ rest
    · simp [hk]
    · by_cases hki : k = i
      · subst hki; simp [hk, hi]
      · have : i ≠ k := fun e => hki e.symm
        simp [hk, hki, List.getElem?_set_ne this]

/-- some scheduled task panics: the level panics, whatever the order -/
theorem runTasks_panic {f : Nat → Res D} :
    ∀ (σ : List Nat) (buf : List (Option D)), (∀ i ∈ σ, i < buf.length) →
      (∀ i ∈ σ, f i = .panic ∨ ∃ d, f i = .ok d) → (∃ i ∈ σ, f i = .panic) → runTasks f σ buf = .panic
  | [], _, _, _, ⟨_, hm, _⟩ => by cases hm
  | i :: rest, buf, hl, h, ⟨x, hx, hp⟩ => by
    rcases h i (List.mem_cons_self ..) with h1 | ⟨d, h1⟩
    · simp [runTasks, h1]
    · have hi := hl i (List.mem_cons_self ..)
      have hx' : x ∈ rest := by
        rcases List.mem_cons.mp hx with e | e
        · subst e; rw [h1] at hp; cases hp
        · exact e
      have := runTasks_panic rest (buf.set i (some d)) (fun y hy => by simpa using hl y (List.mem_cons_of_mem _ hy))
        (fun y hy => h y (List.mem_cons_of_mem _ hy)) ⟨x, hx', hp⟩
      simp [runTasks, h1, hi, this]

/-- **one parallel level is schedule independent**: for every completion order that is a permutation of the tasks the
    level computes exactly the pure `map` of the sequential model -/
theorem parLevelSched_eq (sched : List Nat) (nodes : List D) (cnt : Nat) (hp : sched.Perm (List.range cnt)) :
    parLevelSched H sched nodes cnt = parLevel H nodes cnt := by
  have hmem : ∀ i, i ∈ sched ↔ i < cnt := fun i => by rw [hp.mem_iff, List.mem_range]
  by_cases hall : ∀ i < cnt, ∃ d, hashChildren H nodes (cnt + i) = .ok d
  · -- every task succeeds
    rcases Nat.eq_zero_or_pos cnt with h0 | hpos
    · subst h0
      have : sched = [] := List.perm_nil.mp (by simpa using hp)
      subst this
      rfl
    · obtain ⟨d0, _⟩ := hall 0 hpos
      let g : Nat → D := fun i => match hashChildren H nodes (cnt + i) with
        | .ok d => d
        | _ => d0
      have hg : ∀ i < cnt, hashChildren H nodes (cnt + i) = .ok (g i) := fun i hi => by
        obtain ⟨d, hd⟩ := hall i hi
        simp only [g, hd]
      obtain ⟨buf', h1, h2, h3⟩ := runTasks_all_ok (f := fun i => hashChildren H nodes (cnt + i)) g sched
        (List.replicate cnt none) (fun i hi => ⟨hg i ((hmem i).mp hi), by simpa using (hmem i).mp hi⟩)
      have hbuf : buf' = ((List.range cnt).map g).map some := by
        apply List.ext_getElem?
        intro k
        rw [h3 k]
        by_cases hk : k < cnt
        · simp [(hmem k).mpr hk, hk]
        · have : ¬ k ∈ sched := fun h => hk ((hmem k).mp h)
          simp [this, hk]
      have hm : Res.mapM (fun i => hashChildren H nodes (cnt + i)) (List.range cnt) = .ok ((List.range cnt).map g) :=
        Res.mapM_ok_map g _ (fun a ha => hg a (List.mem_range.mp ha))
      unfold parLevelSched parLevel
      rw [hm]
      show (do let buf ← runTasks _ sched _; _) = _
      rw [h1]
      show (do let loc ← collectBuf buf'; _) = _
      rw [hbuf, collectBuf_map_some]
  · -- some task panics: both panic
    have hex : ∃ i, i < cnt ∧ hashChildren H nodes (cnt + i) = .panic := by
      apply Classical.byContradiction
      intro hne
      apply hall
      intro i hi
      rcases hashChildren_ok_or_panic H nodes (cnt + i) with h | h
      · exact absurd ⟨i, hi, h⟩ hne
      · exact h
    obtain ⟨i0, hi0, hp0⟩ := hex
    have e1 : runTasks (fun i => hashChildren H nodes (cnt + i)) sched (List.replicate cnt none) = .panic :=
      runTasks_panic sched _ (fun i hi => by simpa using (hmem i).mp hi)
        (fun i _ => hashChildren_ok_or_panic H nodes (cnt + i)) ⟨i0, (hmem i0).mpr hi0, hp0⟩
    have e2 : Res.mapM (fun i => hashChildren H nodes (cnt + i)) (List.range cnt) = .panic :=
      Res.mapM_panic _ (fun i _ => hashChildren_ok_or_panic H nodes (cnt + i)) ⟨i0, List.mem_range.mpr hi0, hp0⟩
    unfold parLevelSched parLevel
    rw [e1, e2]; rfl

theorem parLoopSched_eq (scheds : Nat → List Nat) (hs : ∀ cnt, (scheds cnt).Perm (List.range cnt)) (cutoff : Nat) :
    ∀ (fuel cnt acc : Nat) (nodes : List D),
      parLoopSched H scheds cutoff fuel cnt acc nodes = parLoop H cutoff fuel cnt acc nodes
  | 0, _, _, _ => rfl
  | fuel+1, cnt, acc, nodes => by
    unfold parLoopSched parLoop
    rw [parLevelSched_eq H _ nodes cnt (hs cnt)]
    split
    · cases parLevel H nodes cnt with
      | ok n' => exact parLoopSched_eq scheds hs cutoff fuel _ _ n'
      | err e => rfl
      | panic => rfl
    · rfl

theorem fromDigestsSched_eq (scheds : Nat → List Nat) (hs : ∀ cnt, (scheds cnt).Perm (List.range cnt))
    (filler : D) (cutoff : Nat) (ds : List D) :
    fromDigestsSched H scheds filler cutoff ds = fromDigests H filler cutoff ds := by
  unfold fromDigestsSched fromDigests fromDigestsSchedFuel fromDigestsFuel
  simp only [parLoopSched_eq H scheds hs]
  rfl
end Sched
end TF.Merkle
