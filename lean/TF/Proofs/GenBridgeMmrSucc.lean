import TF.Proofs.GenBridgeMmrProof
/-!
# Bridge: `MmrSuccessorProof::verify` *as regenerated from source* = the hand-written model (C12)

See `TF/Proofs/GenBridgeMmrProof.lean` for the conventions.  `MmrSuccessorProof` is its field `paths`; an accumulator is
the pair `(leaf_count, peaks)`; `dflt` = `Digest::default()`.  The regenerated `for old_peak in old_mmra.peaks()` loop
returns `Except Bool state` (`Except.error b` = the body executed `return b`).

The lemmas are stated over variables (the Merkle-tree index, the peak index, the fuel, the results of the inner loop) so
that no `rfl`/kernel check ever unfolds machine arithmetic or a fuel-indexed recursion on open terms.
-/
namespace TF.GenBridge.MmrSucc
open TF TF.Gen TF.Model.Mmr TF.Model.MmrE TF.GenBridge.MmrPeaks

variable {D : Type} [DecidableEq D] (H : D → D → D) (d0 dflt : D)

/-! ### the inner `while current_merkle_tree_index != 1` loop -/

omit [DecidableEq D] in
theorem climb_succ (paths : List D) (f mt : Nat) (node : D) (ap : Nat) :
    climb H dflt paths (f + 1) mt node ap = if mt = 1 then some (node, ap) else
      climb H dflt paths f (mt / 2)
        (if mt % 2 = 0 then H node ((paths[ap]?).getD dflt) else H ((paths[ap]?).getD dflt) node) (ap + 1) := rfl

omit [DecidableEq D] in
/-- the regenerated inner loop (`paths.get(ap_index).copied().unwrap_or(Digest::default())`, `& 1`, `>>= 1`,
    `ap_index += 1`) = the hand model's `climb`, same fuel, as long as the counter cannot overflow -/
theorem climb_eq (paths : List D) : ∀ (f ap mt : Nat) (node : D), ap + f < 2 ^ 64 →
    outcome (Loops.mmrsp_verify_loop2_ok H d0 dflt paths f ap mt node) (Loops.mmrsp_verify_loop2 H d0 dflt paths f ap mt node)
      = (climb H dflt paths f mt node ap).map (fun r => (r.2, 1, r.1)) := by
  intro f
  induction f with
  | zero => intro ap mt node _; rfl
  | succ f ih =>
    intro ap mt node hb
    rw [Loops.mmrsp_verify_loop2, Loops.mmrsp_verify_loop2_ok, climb_succ]
    by_cases hm : mt = 1
    · subst hm
      rw [if_neg (by simp), if_neg (by simp), if_pos rfl]
      rfl
    · have hne : (mt != 1) = true := by rw [bne_iff_ne]; exact hm
      rw [if_pos hne, if_pos hne, if_neg hm]
      have hi1 : decide (ap + 1 < 18446744073709551616) = true := by
        simp only [decide_eq_true_eq]; omega
      have hmod : (ap + 1) % 18446744073709551616 = ap + 1 := Nat.mod_eq_of_lt (by omega)
      have hand : (mt &&& 1) = mt % 2 := Nat.and_one_is_mod _
      have hget : paths.getD ap dflt = (paths[ap]?).getD dflt := List.getD_eq_getElem?_getD
      have hacc : (if ((mt % 2) == 0) = true then H node ((paths[ap]?).getD dflt) else H ((paths[ap]?).getD dflt) node)
          = (if mt % 2 = 0 then H node ((paths[ap]?).getD dflt) else H ((paths[ap]?).getD dflt) node) := by
        by_cases hev : mt % 2 = 0 <;> simp [hev]
      simp only [hi1, hmod, hand, hget, Bool.true_and]
      rw [hacc]
      exact ih (ap + 1) (mt / 2) _ (by omega)

omit [DecidableEq D] in
theorem climb_ap_le (paths : List D) : ∀ (f mt : Nat) (node : D) (ap : Nat) (r : D × Nat),
    climb H dflt paths f mt node ap = some r → r.2 ≤ ap + f := by
  intro f
  induction f with
  | zero => intro mt node ap r h; cases h
  | succ f ih =>
    intro mt node ap r h
    rw [climb_succ] at h
    by_cases hm : mt = 1
    · rw [if_pos hm] at h
      cases h
      show ap ≤ ap + (f + 1)
      omega
    · rw [if_neg hm] at h
      have := ih _ _ _ _ h
      omega

/-! ### one round of the `for old_peak in old_mmra.peaks()` loop -/

/-- what follows the regenerated loop: leave with the returned value, or compare `ap_index` with `paths.len()` -/
def finish (plen : Nat) (t : Except Bool (Nat × Nat × Nat)) : Option Bool :=
  TF.RustCtl.flow t (fun b => some b) (fun s => some (s.1 == plen))

/-- the hand model's loop, one round unfolded, its `match`es written with `Option.bind` -/
theorem verifyPeaks_cons (paths : List D) (nc : Nat) (np : List D) (p : D) (rest : List D) (rem run ap : Nat) :
    verifyPeaks H dflt paths nc np (p :: rest) rem run ap =
      if rem = 0 then none else
      if !(decide (run < nc)) then none else
      (climb H dflt paths descentFuel ((leaf_index_to_mt_index_and_peak_index run nc).1 / 2 ^ Nat.log2 rem) p ap).bind
        fun r => (np[(leaf_index_to_mt_index_and_peak_index run nc).2]?).bind fun q =>
          if q ≠ r.1 then some false
          else verifyPeaks H dflt paths nc np rest (rem - 2 ^ Nat.log2 rem) (run + 2 ^ Nat.log2 rem) r.2 := by
  rw [verifyPeaks, verifyStep]
  by_cases h0 : rem = 0
  · rw [if_pos h0, if_pos h0]
  · rw [if_neg h0, if_neg h0]
    dsimp only
    generalize leaf_index_to_mt_index_and_peak_index run nc = mp
    by_cases hr : (!(decide (run < nc))) = true
    · rw [if_pos hr, if_pos hr]
    · rw [if_neg hr, if_neg hr]
      generalize climb H dflt paths descentFuel (mp.1 / 2 ^ Nat.log2 rem) p ap = c
      cases c with
      | none => rfl
      | some r =>
        obtain ⟨node, ap'⟩ := r
        generalize np[mp.2]? = q
        cases q with
        | none => rfl
        | some q =>
          by_cases hq : q ≠ node
          · simp only [Option.bind_some, if_pos hq]
          · simp only [Option.bind_some, if_neg hq]

omit [DecidableEq D] H d0 dflt in
/-- gluing the inner loop to what follows it, over variables only: `lok`/`l` the regenerated loop's flag and value, `c` the
    hand model's `climb`, `G`/`Gok` the regenerated continuation, `V` the hand model's -/
theorem step_glue {β : Type} (lok : Bool) (l : Option (Nat × Nat × D)) (c : Option (D × Nat))
    (hcl : outcome lok l = c.map (fun r => (r.2, 1, r.1)))
    (G : Nat × Nat × D → Option β) (Gok : Nat × Nat × D → Bool) (F : β → Option Bool) (V : D × Nat → Option Bool)
    (hrec : ∀ node ap', c = some (node, ap') → (outcome (Gok (ap', 1, node)) (G (ap', 1, node))).bind F = V (node, ap')) :
    (outcome (lok && l.elim true Gok) (l.bind G)).bind F = c.bind V := by
  cases c with
  | none =>
    cases lok with
    | false => rfl
    | true =>
      rw [outcome_true, Option.map_none] at hcl
      subst hcl
      rfl
  | some r =>
    obtain ⟨node, ap'⟩ := r
    cases lok with
    | false => cases hcl
    | true =>
      rw [outcome_true, Option.map_some] at hcl
      subst hcl
      exact hrec node ap' rfl

omit H d0 dflt in
/-- the end of one round (`new_peaks[new_peak_index] != current_node`), over variables only -/
theorem round_end {β : Type} (d0 : D) (np : List D) (pk : Nat) (node : D) (gok : Bool) (g : Option β) (F : β → Option Bool)
    (e : β) (hF : F e = some false) (v : Option Bool) (hrec : (outcome gok g).bind F = v) :
    (outcome (decide (pk < np.length) && if (np.getD pk d0 != node) = true then true else gok)
        (if (np.getD pk d0 != node) = true then some e else g)).bind F
      = (np[pk]?).bind fun q => if q ≠ node then some false else v := by
  by_cases hpk : pk < np.length
  · have hg : np.getD pk d0 = np[pk] := by
      rw [List.getD_eq_getElem?_getD, List.getElem?_eq_getElem hpk]; rfl
    rw [hg, List.getElem?_eq_getElem hpk]
    simp only [hpk, decide_true, Bool.true_and, Option.bind_some]
    by_cases hq : np[pk] ≠ node
    · have hbq : (np[pk] != node) = true := by rw [bne_iff_ne]; exact hq
      rw [if_pos hbq, if_pos hbq, if_pos hq, outcome_true]
      exact hF
    · have hbq : ¬ ((np[pk] != node) = true) := by rw [bne_iff_ne]; exact hq
      rw [if_neg hbq, if_neg hbq, if_neg hq]
      exact hrec
  · rw [List.getElem?_eq_none (Nat.le_of_not_lt hpk)]
    simp only [hpk, decide_false, Bool.false_and, outcome_false]
    rfl

/-- the regenerated `for old_peak` loop followed by the final `ap_index == self.paths.len()` = the hand model's
    `verifyPeaks`, for every list of old peaks, as long as the counters cannot overflow (invariants of the caller) -/
theorem for_eq (paths : List D) (nc : Nat) (np : List D) (hnc : nc < 2 ^ 64) : ∀ (rest : List D) (rem run ap : Nat),
    run + rem < 2 ^ 64 → ap + 65 * rest.length < 2 ^ 64 →
    (outcome (Loops.mmrsp_verify_for_ok H d0 dflt paths (nc, np) rest ap run rem)
        (Loops.mmrsp_verify_for H d0 dflt paths (nc, np) rest ap run rem)).bind (finish paths.length)
      = verifyPeaks H dflt paths nc np rest rem run ap := by
  intro rest
  induction rest with
  | nil => intro rem run ap _ _; rfl
  | cons p rest ih =>
    intro rem run ap hrr hap
    rw [Loops.mmrsp_verify_for, Loops.mmrsp_verify_for_ok, verifyPeaks_cons]
    dsimp only [Loops.mmra_num_leafs, Loops.mmra_peaks, Loops.mmra_num_leafs_ok, Loops.mmra_peaks_ok]
    by_cases h0 : rem = 0
    · have hb : (rem != 0) = false := by rw [h0]; rfl
      rw [if_pos h0, hb]
      rfl
    · have hb : (rem != 0) = true := by rw [bne_iff_ne]; exact h0
      have hh : Nat.log2 rem < 64 := TF.Mmr.log2_lt_64 rem (by omega) (by omega)
      have hle : 2 ^ Nat.log2 rem ≤ rem := Nat.log2_self_le h0
      have hm64 : Nat.log2 rem % 64 = Nat.log2 rem := Nat.mod_eq_of_lt hh
      have hshl : 1 * 2 ^ (Nat.log2 rem % 64) % 18446744073709551616 = 2 ^ Nat.log2 rem := by
        rw [TF.GenBridge.shl_one, hm64]
      have hshl' : 1 * 2 ^ Nat.log2 rem % 18446744073709551616 = 2 ^ Nat.log2 rem := by
        rw [hm64] at hshl; exact hshl
      have hd1 : decide (Nat.log2 rem < 64) = true := decide_eq_true hh
      have hd2 : decide (2 ^ Nat.log2 rem ≤ rem) = true := decide_eq_true hle
      have hsub : (rem + 18446744073709551616 - 2 ^ Nat.log2 rem) % 18446744073709551616 = rem - 2 ^ Nat.log2 rem := by
        omega
      have hd3 : decide (run + 2 ^ Nat.log2 rem < 18446744073709551616) = true := by
        simp only [decide_eq_true_eq]; omega
      have hadd : (run + 2 ^ Nat.log2 rem) % 18446744073709551616 = run + 2 ^ Nat.log2 rem :=
        Nat.mod_eq_of_lt (by omega)
      rw [if_neg h0]
      simp only [hb, hm64, hshl', hd1, hd2, hsub, hd3, hadd, Bool.true_and, Bool.and_self]
      by_cases hrun : run < nc
      · have hio := (TF.Mmr.mt_spec run nc hrun hnc).2
        have hdr : (!(decide (run < nc))) = false := by simp [hrun]
        rw [hio, hdr]
        simp only [Bool.true_and, Bool.false_eq_true, if_false]
        generalize (leaf_index_to_mt_index_and_peak_index run nc).1 = mt1
        generalize (leaf_index_to_mt_index_and_peak_index run nc).2 = pk
        have hcl := climb_eq H d0 dflt paths 65 ap (mt1 / 2 ^ Nat.log2 rem) p (by simp only [List.length_cons] at hap; omega)
        have hle65 := climb_ap_le H dflt paths 65 (mt1 / 2 ^ Nat.log2 rem) p ap
        have hf : descentFuel = 65 := rfl
        rw [hf]
        generalize climb H dflt paths 65 (mt1 / 2 ^ Nat.log2 rem) p ap = c at hcl hle65
        generalize Loops.mmrsp_verify_loop2_ok H d0 dflt paths 65 ap (mt1 / 2 ^ Nat.log2 rem) p = lok at hcl
        generalize Loops.mmrsp_verify_loop2 H d0 dflt paths 65 ap (mt1 / 2 ^ Nat.log2 rem) p = l at hcl
        refine step_glue lok l c hcl _ _ (finish paths.length) _ ?_
        intro node ap' hc
        have hap' : ap' ≤ ap + 65 := hle65 (node, ap') hc
        exact round_end d0 np pk node _ _ (finish paths.length) (Except.error false) rfl _
          (ih (rem - 2 ^ Nat.log2 rem) (run + 2 ^ Nat.log2 rem) ap' (by omega)
            (by simp only [List.length_cons] at hap; omega))
      · have hio : leaf_index_to_mt_index_and_peak_index_ok run nc = false := by
          unfold leaf_index_to_mt_index_and_peak_index_ok
          have : decide (run < nc) = false := decide_eq_false hrun
          rw [this]; rfl
        have hdr : (!(decide (run < nc))) = true := by simp [hrun]
        rw [hio, hdr]
        rfl

/-! ### `MmrSuccessorProof::verify` -/

omit [DecidableEq D] H d0 dflt in
/-- the checks in front of the loop, over variables only (`pcn`/`pco` the popcounts, `fok`/`f` the loop's flag and value) -/
theorem verify_head (oc nc pcn pco nplen oplen : Nat) (fok : Bool) (f : Option (Except Bool (Nat × Nat × Nat)))
    (plen : Nat) (v : Option Bool) (hrec : (outcome fok f).bind (finish plen) = v) :
    outcome (if decide (oc > nc) = true then true
        else decide (nplen < 4294967296) &&
          if (pcn != nplen % 4294967296) = true then true
          else if (pco != oplen) = true then true else fok)
      (if decide (oc > nc) = true then some false
        else if (pcn != nplen % 4294967296) = true then some false
        else if (pco != oplen) = true then some false
        else f.bind fun t => TF.RustCtl.flow t (fun r => some r) (fun s => some (s.1 == plen)))
      = if oc > nc then some false else
        if nplen ≥ 2 ^ 32 then none else
        if pcn ≠ nplen then some false else
        if pco ≠ oplen then some false else v := by
  by_cases h1 : oc > nc
  · have : decide (oc > nc) = true := decide_eq_true h1
    rw [if_pos this, if_pos this, if_pos h1]; rfl
  · have hd : ¬ (decide (oc > nc) = true) := by simpa using h1
    rw [if_neg hd, if_neg hd, if_neg h1]
    by_cases hlen : nplen ≥ 2 ^ 32
    · have : decide (nplen < 4294967296) = false := by
        simp only [decide_eq_false_iff_not]; omega
      rw [if_pos hlen, this]; rfl
    · have hl : decide (nplen < 4294967296) = true := by
        simp only [decide_eq_true_eq]; omega
      have hmod : nplen % 4294967296 = nplen := Nat.mod_eq_of_lt (by omega)
      rw [if_neg hlen, hl, hmod, Bool.true_and]
      by_cases hpn : pcn ≠ nplen
      · have : (pcn != nplen) = true := by rw [bne_iff_ne]; exact hpn
        rw [if_pos this, if_pos this, if_pos hpn]; rfl
      · have : ¬ ((pcn != nplen) = true) := by rw [bne_iff_ne]; exact hpn
        rw [if_neg this, if_neg this, if_neg hpn]
        by_cases hpo : pco ≠ oplen
        · have : (pco != oplen) = true := by rw [bne_iff_ne]; exact hpo
          rw [if_pos this, if_pos this, if_pos hpo]; rfl
        · have : ¬ ((pco != oplen) = true) := by rw [bne_iff_ne]; exact hpo
          rw [if_neg this, if_neg this, if_neg hpo]
          rw [← hrec]
          cases fok with
          | false => rfl
          | true =>
            cases f with
            | none => rfl
            | some t => rfl

/-- **`MmrSuccessorProof::verify`** regenerated from source = hand model (a panic is `none`): every `H`, every list of
    digests, every pair of accumulators with `u64` leaf counts (any peak lists) -/
theorem gen_succ_verify_eq (paths : List D) (oc : Nat) (op : List D) (nc : Nat) (np : List D)
    (hoc : oc < 2 ^ 64) (hnc : nc < 2 ^ 64) :
    outcome (Loops.mmrsp_verify_ok H d0 dflt paths (oc, op) (nc, np)) (Loops.mmrsp_verify H d0 dflt paths (oc, op) (nc, np))
      = verify H dflt paths ⟨oc, op⟩ ⟨nc, np⟩ := by
  unfold Loops.mmrsp_verify Loops.mmrsp_verify_ok verify
  simp only [Loops.mmra_num_leafs, Loops.mmra_peaks, Loops.mmra_num_leafs_ok, Loops.mmra_peaks_ok, Bool.true_and,
    Bool.and_self]
  by_cases hpo : TF.popCount oc = op.length
  · have hle := TF.Mmr.popCount_le_bits 64 oc hoc
    exact verify_head oc nc (TF.popCount nc) (TF.popCount oc) np.length op.length _ _ paths.length _
      (for_eq H d0 dflt paths nc np hnc op oc 0 0 (by omega) (by omega))
  · -- the old peak list has the wrong length: `verify` answers before the loop, whatever the loop would do
    have key := verify_head oc nc (TF.popCount nc) (TF.popCount oc) np.length op.length
      (Loops.mmrsp_verify_for_ok H d0 dflt paths (nc, np) op 0 0 oc)
      (Loops.mmrsp_verify_for H d0 dflt paths (nc, np) op 0 0 oc) paths.length _ rfl
    rw [if_pos hpo] at key
    rw [if_pos hpo]
    exact key

end TF.GenBridge.MmrSucc
