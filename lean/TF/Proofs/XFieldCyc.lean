import TF.Proofs.XFieldK
/-!
`XFieldElement::get_cyclic_group_elements(max)` for a non-zero element, with and without a bound, in terms of the
multiplicative order of the element (which exists because `F_p[X]/(X³ − X + 1)` is a finite field, `TF/Proofs/XFieldK.lean`).
-/
namespace TF.XK
open TF TF.Gen TF.Spec TF.Shah TF.Model TF.XFInvProofs

/-- the number of elements `get_cyclic_group_elements(max)` returns for an element of order `k` -/
def cycLen (k : Nat) : Option Nat → Nat
  | none => max k 2
  | some m => min (max k 2) (max m 2)

/-- for a non-zero `g` of multiplicative order `k` (least positive exponent with `g^k = 1`; `k ∣ P³ − 1`) the call
    `get_cyclic_group_elements(max)` ends after `L − 1` iterations, `L = max k 2` without a bound and
    `L = min (max k 2) (max m 2)` with the bound `m`, and returns `[1, g, …, g^(L−1)]` -/
theorem x_cyclicGroup_order (g : XF.X3) (hg : XFp.canon3 g) (hnz : g ≠ XF.zero) :
    ∃ k, 0 < k ∧ k ∣ P ^ 3 - 1 ∧ XFp.xnpow (XF.toVal g) k = xone ∧
      (∀ j, 0 < j → j < k → XFp.xnpow (XF.toVal g) j ≠ xone) ∧
      ∀ (mx : Option Nat) (fuel : Nat), cycLen k mx ≤ fuel + 1 →
        ∃ l, XF.cyclicGroup fuel g mx = some l ∧ (∀ x ∈ l, XFp.canon3 x) ∧ l.length = cycLen k mx ∧
          l.map XF.toVal = (List.range (cycLen k mx)).map (XFp.xnpow (XF.toVal g)) := by
  have hφ : φ g ≠ 0 := fun h => hnz ((φ_eq_zero g hg).1 h)
  have hpos := orderOf_pos_of_ne_zero (φ g) hφ
  have hdvd := orderOf_dvd_card_sub_one (φ g) hφ
  have hφv : φ g = φv (XF.toVal g) := rfl
  generalize hk : orderOf (φ g) = k at *
  have hone : ∀ n, XFp.xnpow (XF.toVal g) n = xone ↔ φ g ^ n = 1 := fun n => by rw [xnpow_eq_one_iff, ← hφv]
  have hmax : φ g ^ (max k 2) = 1 := by
    rcases Nat.lt_or_ge k 2 with h | h
    · have h1 : orderOf (φ g) = 1 := by omega
      rw [orderOf_eq_one_iff] at h1
      rw [h1, one_pow]
    · rw [show max k 2 = k by omega, ← hk]; exact pow_orderOf_eq_one _
  refine ⟨k, hpos, hdvd, ?_, ?_, ?_⟩
  · rw [hone, ← hk]; exact pow_orderOf_eq_one _
  · intro j hj0 hjk h
    rw [hone] at h
    exact pow_ne_one_of_lt_orderOf (by omega) (by omega) h
  · intro mx fuel hf
    have hL2 : 2 ≤ cycLen k mx := by cases mx <;> simp only [cycLen] <;> omega
    have hLk : cycLen k mx ≤ max k 2 := by cases mx <;> simp only [cycLen] <;> omega
    have hN : cycLen k mx = (cycLen k mx - 2) + 2 := by omega
    have hcore : ∃ l, XF.cyclicGroup fuel g mx = some l ∧ (∀ x ∈ l, XFp.canon3 x) ∧
        l.map XF.toVal = (List.range ((cycLen k mx - 2) + 2)).map (XFp.xnpow (XF.toVal g)) := by
      apply XFp.x_cyclicGroup_core g hg mx _ fuel (by omega)
      · rw [XFp.xstop_iff g hg, ← hN]
        cases mx with
        | none => left; rw [hone]; exact hmax
        | some m =>
          simp only [cycLen] at *
          by_cases h : max k 2 ≤ max m 2
          · left; rw [hone, show min (max k 2) (max m 2) = max k 2 by omega]; exact hmax
          · right; exact ⟨m, rfl, by omega⟩
      · intro j hj
        rw [Bool.eq_false_iff, Ne, XFp.xstop_iff g hg]
        rintro (h | ⟨m, hm, hle⟩)
        · rw [hone] at h
          exact pow_ne_one_of_lt_orderOf (by omega) (by omega) h
        · subst hm
          simp only [cycLen] at hj
          omega
    rw [← hN] at hcore
    obtain ⟨l, h1, h2, h3⟩ := hcore
    refine ⟨l, h1, h2, ?_, h3⟩
    simpa using congrArg List.length h3

end TF.XK
