import TF.Model.MmrAcc
import TF.Spec.MmrAcc
/-!
# C11: bounded model check of the batch operations over a *free* hash algebra (tests, not proofs)

`D := Term`, `H := Term.node`: two digests are equal iff they were computed in the same way from the same leaves,
so agreement over `Term` implies agreement for every concrete hash on the enumerated shapes.
-/
namespace TF.MmrAccB
open TF.Model.MmrAcc TF.Spec.MmrAcc

inductive Term where
  | leaf (i : Nat)          -- original leaf `i`
  | fresh (k : Nat)         -- `k`-th new leaf value
  | node (l r : Term)
deriving DecidableEq, Repr

def f0 : Nat → Term := Term.leaf
def Hn : Term → Term → Term := Term.node

/-- from-scratch proof, `[]` when out of range (never used) -/
def pathOf (n : Nat) (f : Nat → Term) (i : Nat) : List Term := (authPath Hn n f i).getD []

/-- apply `(index, value)` updates in order -/
def updates (f : Nat → Term) : List (Nat × Term) → Nat → Term
  | [] => f
  | (i, x) :: rest => updates (update f i x) rest

/-- all lists of `k` distinct indices below `n` (all orders) -/
def distinctLists (n : Nat) : Nat → List (List Nat)
  | 0 => [[]]
  | k+1 => (distinctLists n k).flatMap fun l => ((List.range n).filter fun i => !l.contains i).map fun i => i :: l

/-- `batch_mutate_leaf_and_update_mps` with valid proofs for `idxs` (in that order), tracking the proofs of *all*
    leaves: peaks and all tracked proofs must be the from-scratch ones of the updated leaf list, and the list of
    modified proofs must be exactly the proofs that changed -/
def batchCase (n : Nat) (idxs : List Nat) : Bool :=
  let muts := idxs.zipIdx.map fun (i, k) => ({ leaf_index := i, new_leaf := Term.fresh k, auth := pathOf n f0 i } : LeafMutation Term)
  let f1 := updates f0 (idxs.zipIdx.map fun (i, k) => (i, Term.fresh k))
  let tracked := List.range n
  match batch_mutate_leaf_and_update_mps Hn { leaf_count := n, peaks := peaks Hn n f0 }
      (tracked.map (pathOf n f0)) tracked muts with
  | none => false
  | some (a, proofs, mods) =>
    a.leaf_count == n && a.peaks == peaks Hn n f1 &&
    proofs == tracked.map (pathOf n f1) &&
    mods == tracked.filter (fun i => pathOf n f0 i != pathOf n f1 i)

/-- `verify_batch_update` with valid proofs for `idxs`, `k` appended leaves: accepts the from-scratch peaks and
    rejects the old ones (unless nothing changes) -/
def verifyCase (n : Nat) (idxs : List Nat) (apps : Nat) : Bool :=
  let muts := idxs.zipIdx.map fun (i, k) => ({ leaf_index := i, new_leaf := Term.fresh k, auth := pathOf n f0 i } : LeafMutation Term)
  let f1 := updates f0 (idxs.zipIdx.map fun (i, k) => (i, Term.fresh k))
  let appLeafs := (List.range apps).map fun k => Term.fresh (100 + k)
  let f2 := updates f1 ((List.range apps).map fun k => (n + k, Term.fresh (100 + k)))
  let a : Acc Term := { leaf_count := n, peaks := peaks Hn n f0 }
  verify_batch_update Hn a (peaks Hn (n + apps) f2) appLeafs muts == some true &&
  (idxs.isEmpty && apps == 0 ||
    verify_batch_update Hn a (peaks Hn n f0) appLeafs muts == some false) &&
  (idxs.isEmpty ||
    verify_batch_update Hn a (peaks Hn (n + apps) f2) appLeafs (muts ++ muts.take 1) == some false)

def batchAll (nMax k : Nat) : Bool :=
  (List.range (nMax + 1)).all fun n => (distinctLists n k).all (batchCase n)

def verifyAll (nMax k apps : Nat) : Bool :=
  (List.range (nMax + 1)).all fun n => (distinctLists n k).all fun l => verifyCase n l apps

end TF.MmrAccB
