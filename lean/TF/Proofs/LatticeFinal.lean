import TF.Proofs.LatticeRing
import TF.Proofs.Lattice
import TF.Proofs.NttFinal
/-!
The concrete tables of `lattice.rs` satisfy the hypotheses of the ring-level theory in `ZMod P` (kernel check on the
translated tables), and the transfer of `ring product = negacyclic convolution` to the executable model on canonical
values.
-/
namespace TF.LatticeProofs
open TF.Gen TF.Model.Ntt TF.Model.Lattice TF.NttFn TF.LatFn TF.NttProofs TF.Spec

/-- the block constants over `Nat` -/
def cconstN : Nat → Nat → Nat
  | 0, _ => P - 1
  | s+1, i =>
    if i % 2 = 0 then PSI_POWERS_BITREVERSED.getD (2^s + i / 2) 0
    else (P - PSI_POWERS_BITREVERSED.getD (2^s + i / 2) 0) % P

def squaresOk : Bool :=
  (List.range 6).all fun s => (List.range (2^s)).all fun i =>
    (PSI_POWERS_BITREVERSED.getD (2^s + i) 0)^2 % P == cconstN s i % P

theorem squaresOk_true : squaresOk = true := by decide +kernel

theorem squares_spec (s : Nat) (hs : s < 6) (i : Nat) (hi : i < 2^s) :
    (PSI_POWERS_BITREVERSED.getD (2^s + i) 0)^2 % P = cconstN s i % P := by
  have h := squaresOk_true
  simp only [squaresOk, List.all_eq_true, List.mem_range, beq_iff_eq] at h
  exact h s hs i hi

/-- the tables read in `ZMod P` -/
noncomputable def zpsi : Array (ZMod P) := psi.map (fun n : Nat => (n : ZMod P))
noncomputable def zpsiInv : Array (ZMod P) := psiInv.map (fun n : Nat => (n : ZMod P))

theorem psi_getD (k : Nat) : psi.getD k 0 = PSI_POWERS_BITREVERSED.getD k 0 := by
  simp [psi, Array.getD_eq_getD_getElem?, List.getD_eq_getElem?_getD]
theorem psiInv_getD (k : Nat) : psiInv.getD k 0 = PSI_INV_POWERS_BITREVERSED.getD k 0 := by
  simp [psiInv, Array.getD_eq_getD_getElem?, List.getD_eq_getElem?_getD]

theorem zpsi_getD (k : Nat) : zpsi.getD k 0 = ((PSI_POWERS_BITREVERSED.getD k 0 : ℕ) : ZMod P) := by
  have := getD_map (fun n : Nat => (n : ZMod P)) psi k 0
  simp only [Nat.cast_zero] at this
  rw [zpsi, this, psi_getD]
theorem zpsiInv_getD (k : Nat) : zpsiInv.getD k 0 = ((PSI_INV_POWERS_BITREVERSED.getD k 0 : ℕ) : ZMod P) := by
  have := getD_map (fun n : Nat => (n : ZMod P)) psiInv k 0
  simp only [Nat.cast_zero] at this
  rw [zpsiInv, this, psiInv_getD]

theorem cast_of_mod_eq (a b : Nat) (h : a % P = b % P) : ((a : ℕ) : ZMod P) = ((b : ℕ) : ZMod P) := by
  rw [← ZMod.natCast_mod a, ← ZMod.natCast_mod b, h]

theorem cast_cconstN (s : Nat) (hs : s ≤ 6) (i : Nat) (hi : i < 2^s) :
    ((cconstN s i : ℕ) : ZMod P) = cconst (-1) (tab (2^6) zpsi) s i := by
  rcases s with _ | s
  · simp only [cconstN, cconst]; exact cast_pred_P
  · have hidx : 2^s + i / 2 < 2^6 := by
      have h1 : i / 2 < 2^s := by rw [pow_succ] at hi; omega
      have h2 : 2^(s+1) ≤ 2^6 := Nat.pow_le_pow_right (by norm_num) hs
      rw [pow_succ] at h2; omega
    have hlt : PSI_POWERS_BITREVERSED.getD (2^s + i / 2) 0 < P := (tables_spec.2.2.2.1 _ (by simpa using hidx)).1
    simp only [cconstN, cconst, tab]
    rw [if_pos hidx, zpsi_getD]
    split
    · rfl
    · rw [ZMod.natCast_mod, Nat.cast_sub (le_of_lt hlt)]; simp

theorem tables_zmod : Tables zpsi zpsiInv ((LATTICE_N_INV : ℕ) : ZMod P) where
  hT := by
    intro s hs i hi
    have hidx : 2^s + i < 2^6 := by
      have h2 : 2^(s+1) ≤ 2^6 := Nat.pow_le_pow_right (by norm_num) (by omega)
      rw [pow_succ] at h2; omega
    rw [← cast_cconstN s (by omega) i hi]
    simp only [tab]
    rw [if_pos hidx, zpsi_getD, ← Nat.cast_pow]
    exact cast_of_mod_eq _ _ (squares_spec s hs i hi)
  hinv := by
    intro k hk
    rw [zpsi_getD, zpsiInv_getD, ← Nat.cast_mul]
    have := (tables_spec.2.2.2.1 k (by simpa using hk)).2.2.2
    have h1 : (PSI_INV_POWERS_BITREVERSED.getD k 0 * PSI_POWERS_BITREVERSED.getD k 0) % P = 1 % P := by
      rw [Nat.mul_comm, this]; rfl
    rw [cast_of_mod_eq _ _ h1]; simp
  hn := by
    have h := tables_spec.2.2.2.2.2.1
    have h7 := tables_spec.2.2.2.2.2.2
    rw [h7] at h
    have h1 : (LATTICE_N_INV * 64) % P = 1 % P := by rw [h]; rfl
    have := cast_of_mod_eq _ _ h1
    push_cast at this
    rw [← this]; norm_num

/-! ### transfer to the model on canonical values -/

theorem ringZip_map_cast (f : Nat → Nat → Nat) (g : ZMod P → ZMod P → ZMod P)
    (hfg : ∀ a b : Nat, ((f a b : ℕ) : ZMod P) = g a b) (a b : Ring) :
    (ringZip f a b).map (fun n : Nat => (n : ZMod P))
      = zipR g (a.map (fun n : Nat => (n : ZMod P))) (b.map (fun n : Nat => (n : ZMod P))) := by
  apply Array.ext (by simp [ringZip, zipR])
  intro i h1 h2
  have hi : i < 64 := by simpa [ringZip] using h1
  simp only [ringZip, zipR, Array.getElem_map, Array.getElem_ofFn, hfg, toFn_map_cast, zvec]

theorem foldl_cast_negacyclic (a b : Ring) (k : Nat) : ∀ (l : List Nat) (acc : Nat),
    ((l.foldl (fun acc i =>
        let j := (k + 64 - i) % 64
        let t := fmul (a.getD i 0) (b.getD j 0)
        if i ≤ k then fadd acc t else fsub acc t) acc : ℕ) : ZMod P)
      = (acc : ZMod P) + (l.map (fun i =>
          if i ≤ k then zvec a i * zvec b ((k + 64 - i) % 64) else -(zvec a i * zvec b ((k + 64 - i) % 64)))).sum := by
  intro l
  induction l with
  | nil => intro acc; simp
  | cons i l ih =>
    intro acc
    rw [List.foldl_cons, ih, List.map_cons, List.sum_cons, ← add_assoc]
    congr 1
    simp only []
    split
    · rw [cast_fadd, cast_fmul]; rfl
    · rw [cast_fsub, cast_fmul]; simp only [zvec]; ring

theorem sum_map_range {M : Type} [AddCommMonoid M] (f : ℕ → M) (n : Nat) :
    ((List.range n).map f).sum = ∑ i ∈ Finset.range n, f i := by
  induction n with
  | zero => simp
  | succ n ih => rw [List.range_succ, List.map_append, List.sum_append, ih, Finset.sum_range_succ]; simp

theorem negacyclic_map_cast (a b : Ring) :
    (negacyclic a b).map (fun n : Nat => (n : ZMod P))
      = Array.ofFn (n := 64) fun k => negaConv 64 (zvec a) (zvec b) k.val := by
  apply Array.ext (by simp [negacyclic])
  intro k h1 h2
  simp only [negacyclic, Array.getElem_map, Array.getElem_ofFn]
  rw [foldl_cast_negacyclic]
  simp only [Nat.cast_zero, zero_add, negaConv]
  rw [sum_map_range]


theorem lt_P_of_foldl (a b : Ring) (k : Nat) : ∀ (l : List Nat) (acc : Nat), acc < P →
    l.foldl (fun acc i =>
        let j := (k + 64 - i) % 64
        let t := fmul (a.getD i 0) (b.getD j 0)
        if i ≤ k then fadd acc t else fsub acc t) acc < P := by
  intro l
  induction l with
  | nil => intro acc h; exact h
  | cons i l ih =>
    intro acc _
    rw [List.foldl_cons]
    apply ih
    simp only []
    split
    · exact Nat.mod_lt _ P_pos
    · exact Nat.mod_lt _ P_pos

/-- two arrays of canonical values that agree in `ZMod P` are equal -/
theorem eq_of_map_cast_eq (x y : Array Nat) (hx : ∀ i (h : i < x.size), x[i] < P) (hy : ∀ i (h : i < y.size), y[i] < P)
    (h : x.map (fun n : Nat => (n : ZMod P)) = y.map (fun n : Nat => (n : ZMod P))) : x = y := by
  have hs : x.size = y.size := by simpa using congrArg Array.size h
  apply Array.ext hs
  intro i h1 h2
  have hi : (x.map (fun n : Nat => (n : ZMod P)))[i]'(by simpa using h1) = (y.map (fun n : Nat => (n : ZMod P)))[i]'(by simpa using h2) := by
    simp only [h]
  simp only [Array.getElem_map] at hi
  have := (ZMod.natCast_eq_natCast_iff' _ _ _).1 hi
  rw [Nat.mod_eq_of_lt (hx i h1), Nat.mod_eq_of_lt (hy i h2)] at this
  exact this

/-- **`CyclotomicRingElement::mul` is the negacyclic convolution**: for all pairs of ring elements -/
theorem ringMul_eq_negacyclic (a b : Ring) (ha : a.size = 64) (hb : b.size = 64) : ringMul a b = negacyclic a b := by
  apply eq_of_map_cast_eq
  · intro i h
    simp only [ringMul, intt64, cosetIntt, Array.getElem_map]
    exact Nat.mod_lt _ P_pos
  · intro i h
    simp only [negacyclic, Array.getElem_ofFn]
    exact lt_P_of_foldl a b i _ 0 P_pos
  · rw [negacyclic_map_cast]
    simp only [ringMul, intt64, ntt64, ringHadamard]
    rw [cosetIntt_map castHom, ringZip_map_cast fmul (· * ·) cast_fmul, cosetNtt_map castHom, cosetNtt_map castHom]
    have := ringMul_ring zinv zinv0 zpsi zpsiInv ((LATTICE_N_INV : ℕ) : ZMod P) tables_zmod
      (a.map (fun n : Nat => (n : ZMod P))) (b.map (fun n : Nat => (n : ZMod P))) (by simpa using ha) (by simpa using hb)
    rw [toFn_map_cast, toFn_map_cast] at this
    exact this

end TF.LatticeProofs
