import TF.Proofs.BFieldZMod
import TF.Model.BFieldMore
import Mathlib.GroupTheory.OrderOfElement
import Mathlib.Tactic.ReduceModChar
import TF.Proofs.NttTable
/-!
C01 growth: helper lemmas about the translated one-liners (`bfe_increment`, `bfe_raw_u16s`, ...) and the hand-written
models of `TF/Model/BFieldMore.lean`.
-/
namespace TF.BF
open TF.Gen TF.Model TF.Spec

/-! ### the translated constants are the model's constants -/
theorem ZERO_eq : bfe_ZERO = BF.zero := rfl
theorem ONE_eq : bfe_ONE = BF.one := rfl
theorem zero_eq : bfe_zero = BF.zero := rfl
theorem one_eq : bfe_one = BF.one := rfl
theorem neg_eq (a : Nat) : bfe_neg a = BF.neg a := rfl

/-! ### 16-bit chunks and bytes -/

theorem and_65535 (x : Nat) : x &&& 65535 = x % 65536 := Nat.and_two_pow_sub_one_eq_mod x 16

theorem raw_u16s_eq (a : Nat) :
    bfe_raw_u16s a = [a % 65536, a / 65536 % 65536, a / 4294967296 % 65536, a / 281474976710656 % 65536] := by
  unfold bfe_raw_u16s
  simp only [and_65535, Nat.mod_mod]

theorem or_shift (a b i : Nat) (hb : b < 2^i) : a * 2^i ||| b = a * 2^i + b := by
  rw [← Nat.shiftLeft_eq, Nat.shiftLeft_add_eq_or_of_lt hb]

theorem from_raw_u16s_eq (c0 c1 c2 c3 : Nat) (h0 : c0 < 65536) (h1 : c1 < 65536) (h2 : c2 < 65536) (h3 : c3 < 65536) :
    bfe_from_raw_u16s c0 c1 c2 c3 = c0 + 65536 * c1 + 4294967296 * c2 + 281474976710656 * c3 := by
  unfold bfe_from_raw_u16s
  have e3 : c3 * 281474976710656 % 18446744073709551616 = c3 * 281474976710656 := Nat.mod_eq_of_lt (by omega)
  have e2 : c2 * 4294967296 % 18446744073709551616 = c2 * 4294967296 := Nat.mod_eq_of_lt (by omega)
  have e1 : c1 * 65536 % 18446744073709551616 = c1 * 65536 := Nat.mod_eq_of_lt (by omega)
  rw [e3, e2, e1]
  have s1 : c3 * 281474976710656 ||| c2 * 4294967296 = c3 * 281474976710656 + c2 * 4294967296 := by
    have : c3 * 281474976710656 = c3 * 2^48 := by norm_num
    rw [this, or_shift _ _ 48 (by omega)]
  rw [s1]
  have s2 : (c3 * 281474976710656 + c2 * 4294967296) ||| c1 * 65536 = c3 * 281474976710656 + c2 * 4294967296 + c1 * 65536 := by
    have : c3 * 281474976710656 + c2 * 4294967296 = (c3 * 65536 + c2) * 2^32 := by ring
    rw [this, or_shift _ _ 32 (by omega)]
  rw [s2]
  have s3 : (c3 * 281474976710656 + c2 * 4294967296 + c1 * 65536) ||| c0 = c3 * 281474976710656 + c2 * 4294967296 + c1 * 65536 + c0 := by
    have : c3 * 281474976710656 + c2 * 4294967296 + c1 * 65536 = (c3 * 4294967296 + c2 * 65536 + c1) * 2^16 := by ring
    rw [this, or_shift _ _ 16 (by omega)]
  rw [s3]; omega

theorem raw_bytes_eq (a : Nat) :
    bfe_raw_bytes a = [a % 256, a / 256 % 256, a / 65536 % 256, a / 16777216 % 256, a / 4294967296 % 256,
      a / 1099511627776 % 256, a / 281474976710656 % 256, a / 72057594037927936 % 256] := by
  unfold bfe_raw_bytes; simp only [Nat.div_one]

/-! ### generic loop of `get_cyclic_group_elements` -/
section cyc
variable {α : Type} (mulAssign : α → α → α) (isOne : α → Bool) (g : α) (max : Option Nat)

/-- `val` at the start of iteration `n` (0-based): `g · g^n` -/
def pwG : Nat → α
  | 0 => g
  | n+1 => mulAssign (pwG n) g

/-- does iteration `n` (0-based; `ret.len() = n + 1` before its push) end the loop? -/
def stopG (n : Nat) : Bool :=
  isOne (pwG mulAssign g (n+1)) || (match max with | some m => decide (n + 1 + 1 ≥ m) | none => false)

theorem cyclicTail_step (fuel k : Nat) :
    cyclicTail mulAssign isOne g max (fuel+1) (pwG mulAssign g k) (k+1) =
      if stopG mulAssign isOne g max k then some [pwG mulAssign g k]
      else (cyclicTail mulAssign isOne g max fuel (pwG mulAssign g (k+1)) (k+1+1)).map (pwG mulAssign g k :: ·) := by
  rfl

theorem cyclicTail_running : ∀ (fuel k : Nat), (∀ j, k ≤ j → j < k + fuel → stopG mulAssign isOne g max j = false) →
    cyclicTail mulAssign isOne g max fuel (pwG mulAssign g k) (k+1) = none
  | 0, _, _ => rfl
  | fuel+1, k, h => by
    rw [cyclicTail_step, h k (Nat.le_refl _) (by omega)]
    simp only [Bool.false_eq_true, if_false]
    rw [cyclicTail_running fuel (k+1) (fun j h1 h2 => h j (by omega) (by omega))]
    rfl

theorem cyclicTail_stops : ∀ (fuel k n : Nat), k ≤ n → n < k + fuel → stopG mulAssign isOne g max n = true →
    (∀ j, k ≤ j → j < n → stopG mulAssign isOne g max j = false) →
    cyclicTail mulAssign isOne g max fuel (pwG mulAssign g k) (k+1) =
      some ((List.range' k (n - k + 1)).map (pwG mulAssign g))
  | 0, _, _, _, h, _, _ => by omega
  | fuel+1, k, n, hkn, hn, hs, hb => by
    rw [cyclicTail_step]
    by_cases hk : k = n
    · subst hk
      rw [hs]; simp
    · rw [hb k (Nat.le_refl _) (by omega)]
      simp only [Bool.false_eq_true, if_false]
      rw [cyclicTail_stops fuel (k+1) n (by omega) (by omega) hs (fun j h1 h2 => hb j (by omega) h2)]
      have : n - k + 1 = (n - (k+1) + 1) + 1 := by omega
      rw [this]
      simp [List.range'_succ]

end cyc


section
variable {α : Type} (mulAssign : α → α → α) (isOne : α → Bool) (g : α) (max : Option Nat)
theorem pwG_zero : pwG mulAssign g 0 = g := rfl
theorem pwG_succ (n : Nat) : pwG mulAssign g (n+1) = mulAssign (pwG mulAssign g n) g := rfl
theorem cyclicGroupG_eq (one : α) (fuel : Nat) :
    cyclicGroupG mulAssign isOne one fuel g max =
      (cyclicTail mulAssign isOne g max fuel (pwG mulAssign g 0) (0+1)).map (one :: ·) := rfl
end

abbrev bpw (g : Nat) : Nat → Nat := pwG bfe_mul_assign g

theorem mul_assign_eq (a b : Nat) : bfe_mul_assign a b = bfe_mul a b := rfl

theorem bpw_spec (g : Nat) (hg : canon g) : ∀ n, canon (bpw g n) ∧ toF (bpw g n) = toF g ^ (n+1) := by
  intro n
  induction n with
  | zero => rw [bpw, pwG_zero, Nat.zero_add, pow_one]; exact ⟨hg, rfl⟩
  | succ n ih =>
    obtain ⟨hc, hv⟩ := ih
    rw [bpw, pwG_succ, mul_assign_eq]
    exact ⟨canon_mul _ _ hc hg, by rw [toF_mul _ _ hc hg, hv]; exact (pow_succ _ _).symm⟩

theorem is_one_iff (a : Nat) (ha : canon a) : bfe_is_one a = true ↔ toF a = 1 := by
  unfold bfe_is_one; rw [ONE_eq]
  simp only [beq_iff_eq]
  exact ⟨fun h => h ▸ toF_one, fun h => toF_inj a _ ha canon_one (h.trans toF_one.symm)⟩

theorem is_zero_iff (a : Nat) (ha : canon a) : bfe_is_zero a = true ↔ toF a = 0 := by
  unfold bfe_is_zero; rw [ZERO_eq]
  simp only [beq_iff_eq]
  exact ⟨fun h => h ▸ toF_zero, fun h => toF_inj a _ ha canon_zero (h.trans toF_zero.symm)⟩

/-- the loop's exit test at iteration `n` in field terms -/
theorem bstop_iff (g : Nat) (hg : canon g) (max : Option Nat) (n : Nat) :
    stopG bfe_mul_assign bfe_is_one g max n = true ↔
      (toF g ^ (n + 2) = 1 ∨ ∃ m, max = some m ∧ m ≤ n + 2) := by
  unfold stopG
  rw [Bool.or_eq_true, is_one_iff _ (bpw_spec g hg (n+1)).1, (bpw_spec g hg (n+1)).2]
  cases max with
  | none => simp
  | some m => simp

/-- if iteration `N` is the first one that ends the loop and the fuel suffices, the call returns
    `[1, g, ..., g^(N+1)]` (canonical words) -/
theorem cyclicGroup_core (g : Nat) (hg : canon g) (max : Option Nat) (N fuel : Nat) (hf : N < fuel)
    (hs : stopG bfe_mul_assign bfe_is_one g max N = true)
    (hb : ∀ j, j < N → stopG bfe_mul_assign bfe_is_one g max j = false) :
    ∃ l, BF.cyclicGroup fuel g max = some l ∧ (∀ x ∈ l, canon x) ∧
      l.map toF = (List.range (N + 2)).map (fun i => toF g ^ i) := by
  have h := cyclicTail_stops bfe_mul_assign bfe_is_one g max fuel 0 N (Nat.zero_le _) (by omega) hs
    (fun j _ hj => hb j hj)
  refine ⟨bfe_one :: (List.range' 0 (N - 0 + 1)).map (bpw g), ?_, ?_, ?_⟩
  · unfold BF.cyclicGroup
    rw [cyclicGroupG_eq, h, Option.map_some]
  · intro x hx
    rcases List.mem_cons.1 hx with rfl | hx
    · exact canon_one
    · obtain ⟨j, _, rfl⟩ := List.mem_map.1 hx
      exact (bpw_spec g hg j).1
  · rw [List.range_succ_eq_map, List.map_cons, List.map_cons, List.map_map, List.map_map]
    refine congrArg₂ List.cons ?_ ?_
    · rw [one_eq, toF_one, pow_zero]
    · rw [Nat.sub_zero, List.range_eq_range']
      apply List.map_congr_left
      intro j _
      simp only [Function.comp]
      exact (bpw_spec g hg j).2

theorem toF_ne_zero (g : Nat) (hg : canon g) (hnz : g ≠ BF.zero) : toF g ≠ 0 :=
  fun h => hnz ((toF_eq_zero g hg).1 h)

theorem orderOf_toF_pos (g : Nat) (hg : canon g) (hnz : g ≠ BF.zero) : 0 < orderOf (toF g) := by
  rw [orderOf_pos_iff, isOfFinOrder_iff_pow_eq_one]
  exact ⟨18446744069414584321 - 1, by norm_num, ZMod.pow_card_sub_one_eq_one (toF_ne_zero g hg hnz)⟩

/-- **no bound**: for a non-zero `g` of multiplicative order `k` the loop ends after `max k 2 - 1` iterations and
    returns `[1, g, ..., g^(max k 2 - 1)]` -/
theorem cyclicGroup_none (g : Nat) (hg : canon g) (hnz : g ≠ BF.zero) (fuel : Nat)
    (hf : max (orderOf (toF g)) 2 ≤ fuel + 1) :
    ∃ l, BF.cyclicGroup fuel g none = some l ∧ (∀ x ∈ l, canon x) ∧
      l.map toF = (List.range (max (orderOf (toF g)) 2)).map (fun i => toF g ^ i) := by
  have hpos := orderOf_toF_pos g hg hnz
  generalize hk : orderOf (toF g) = k at *
  have hN : max k 2 = (max k 2 - 2) + 2 := by omega
  rw [hN]
  apply cyclicGroup_core g hg none _ fuel (by omega)
  · rw [bstop_iff g hg, ← hN]
    left
    rcases Nat.lt_or_ge k 2 with h | h
    · have h1 : orderOf (toF g) = 1 := by omega
      rw [orderOf_eq_one_iff] at h1
      rw [h1, one_pow]
    · rw [show max k 2 = k by omega, ← hk]; exact pow_orderOf_eq_one _
  · intro j hj
    rw [Bool.eq_false_iff, Ne, bstop_iff g hg]
    rintro (h | ⟨m, hm, _⟩)
    · exact pow_ne_one_of_lt_orderOf (by omega) (by omega) h
    · cases hm

/-- **zero without a bound never returns**: whatever the fuel, the loop is still running -/
theorem cyclicGroup_zero_none (fuel : Nat) : BF.cyclicGroup fuel BF.zero none = none := by
  unfold BF.cyclicGroup
  rw [cyclicGroupG_eq, cyclicTail_running, Option.map_none]
  intro j _ _
  rw [Bool.eq_false_iff, Ne, bstop_iff _ canon_zero, toF_zero]
  rintro (h | ⟨m, hm, _⟩)
  · rw [zero_pow (by omega)] at h; exact zero_ne_one h
  · cases hm

/-- **with a bound `m`**: the loop ends at the first of "next power is one" and "`max m 2` elements collected" -/
theorem cyclicGroup_some (g : Nat) (hg : canon g) (m fuel : Nat)
    (L : Nat) (hL : L = if g = BF.zero then max m 2 else min (max (orderOf (toF g)) 2) (max m 2))
    (hf : L ≤ fuel + 1) :
    ∃ l, BF.cyclicGroup fuel g (some m) = some l ∧ (∀ x ∈ l, canon x) ∧
      l.map toF = (List.range L).map (fun i => toF g ^ i) := by
  have hL2 : 2 ≤ L := by rw [hL]; split <;> omega
  have hN : L = (L - 2) + 2 := by omega
  rw [hN]
  apply cyclicGroup_core g hg (some m) _ fuel (by omega)
  · rw [bstop_iff g hg, ← hN]
    by_cases hz : g = BF.zero
    · right; exact ⟨m, rfl, by rw [hL, if_pos hz]; omega⟩
    · rw [if_neg hz] at hL
      have hpos := orderOf_toF_pos g hg hz
      generalize hk : orderOf (toF g) = k at *
      by_cases h : max k 2 ≤ max m 2
      · left
        rcases Nat.lt_or_ge k 2 with h2 | h2
        · have h1 : orderOf (toF g) = 1 := by omega
          rw [orderOf_eq_one_iff] at h1
          rw [h1, one_pow]
        · rw [show L = k by omega, ← hk]; exact pow_orderOf_eq_one _
      · right; exact ⟨m, rfl, by omega⟩
  · intro j hj
    rw [Bool.eq_false_iff, Ne, bstop_iff g hg]
    rintro (h | ⟨m', hm, hle⟩)
    · by_cases hz : g = BF.zero
      · rw [hz, toF_zero, zero_pow (by omega)] at h; exact zero_ne_one h
      · rw [if_neg hz] at hL
        exact pow_ne_one_of_lt_orderOf (by omega) (by omega) h
    · cases hm
      split at hL <;> omega


/-- `generator()` is 7 -/
theorem generator_val : canon bfe_generator ∧ bfe_value bfe_generator = 7 := by
  unfold bfe_generator
  exact ⟨(new_spec 7 (by decide)).1, value_new 7 (by decide)⟩

theorem toF_generator : toF bfe_generator = 7 := by
  unfold toF; rw [generator_val.2]; rfl

/-- 7 generates the multiplicative group: its order is `P - 1 = 2^32 · 3 · 5 · 17 · 257 · 65537` -/
theorem orderOf_seven : orderOf (7 : ZMod 18446744069414584321) = 18446744069414584321 - 1 := by
  have hfac : (18446744069414584321 - 1 : ℕ) = 2^32 * 3 * 5 * 17 * 257 * 65537 := by norm_num
  apply orderOf_eq_of_pow_and_pow_div_prime (by norm_num)
  · reduce_mod_char
  · intro q hq hdvd
    rw [hfac] at hdvd
    have h2 : Nat.Prime 2 := by norm_num
    have h3 : Nat.Prime 3 := by norm_num
    have h5 : Nat.Prime 5 := by norm_num
    have h17 : Nat.Prime 17 := by norm_num
    have h257 : Nat.Prime 257 := by norm_num
    have h65537 : Nat.Prime 65537 := by norm_num
    have : q = 2 ∨ q = 3 ∨ q = 5 ∨ q = 17 ∨ q = 257 ∨ q = 65537 := by
      rcases (Nat.Prime.dvd_mul hq).1 hdvd with h | h
      · rcases (Nat.Prime.dvd_mul hq).1 h with h | h
        · rcases (Nat.Prime.dvd_mul hq).1 h with h | h
          · rcases (Nat.Prime.dvd_mul hq).1 h with h | h
            · rcases (Nat.Prime.dvd_mul hq).1 h with h | h
              · left; exact (Nat.prime_dvd_prime_iff_eq hq h2).1 (hq.dvd_of_dvd_pow h)
              · right; left; exact (Nat.prime_dvd_prime_iff_eq hq h3).1 h
            · right; right; left; exact (Nat.prime_dvd_prime_iff_eq hq h5).1 h
          · right; right; right; left; exact (Nat.prime_dvd_prime_iff_eq hq h17).1 h
        · right; right; right; right; left; exact (Nat.prime_dvd_prime_iff_eq hq h257).1 h
      · right; right; right; right; right; exact (Nat.prime_dvd_prime_iff_eq hq h65537).1 h
    rcases this with rfl | rfl | rfl | rfl | rfl | rfl <;> reduce_mod_char <;> decide

/-! ### `Sum`, `power_accumulator`, primitive roots -/

theorem foldl_add_spec : ∀ (xs : List Nat) (a : Nat), canon a → (∀ x ∈ xs, canon x) →
    canon (xs.foldl bfe_add a) ∧ toF (xs.foldl bfe_add a) = toF a + (xs.map toF).sum
  | [], a, ha, _ => ⟨ha, by simp⟩
  | x :: xs, a, ha, h => by
    have hx := h x (by simp)
    obtain ⟨hc, hv⟩ := foldl_add_spec xs (bfe_add a x) (add_spec a x ha hx).1 (fun y hy => h y (by simp [hy]))
    refine ⟨hc, ?_⟩
    rw [List.foldl_cons, hv, toF_add a x ha hx, List.map_cons, List.sum_cons]; ring

theorem sum_spec (xs : List Nat) (h : ∀ x ∈ xs, canon x) :
    canon (BF.sum xs) ∧ toF (BF.sum xs) = (xs.map toF).sum := by
  cases xs with
  | nil => exact ⟨canon_zero, by rw [BF.sum, toF_zero]; simp⟩
  | cons x xs =>
    obtain ⟨hc, hv⟩ := foldl_add_spec xs x (h x (by simp)) (fun y hy => h y (by simp [hy]))
    exact ⟨hc, by rw [BF.sum, hv, List.map_cons, List.sum_cons]⟩

theorem toF_of_IsPow {v m r : Nat} (h : IsPow v m r) : toF r = (v : Fp) ^ m := by
  have h2 : bfe_value r = v ^ m % P := h.2
  unfold toF; rw [h2, cast_mod]; push_cast; rfl

theorem powerAccumulator_spec (m base tail : Nat) (hb : canon base) (ht : canon tail) :
    canon (BF.powerAccumulator m base tail) ∧
      toF (BF.powerAccumulator m base tail) = toF base ^ (2 ^ m) * toF tail := by
  have h := (IsPow.self hb).sqN m
  unfold BF.powerAccumulator
  refine ⟨canon_mul _ _ h.1 ht, ?_⟩
  rw [toF_mul _ _ h.1 ht, toF_of_IsPow h, Nat.one_mul]; rfl

theorem lookup_mem : ∀ (l : List (Nat × Nat)) (n r : Nat), l.lookup n = some r → (n, r) ∈ l
  | [], _, _, h => by simp at h
  | (k, v) :: rest, n, r, h => by
    rw [List.lookup_cons] at h
    by_cases hk : n == k
    · simp only [hk] at h
      have : n = k := by simpa using hk
      cases h; subst this; exact List.mem_cons_self
    · simp only [hk] at h
      exact List.mem_cons_of_mem _ (lookup_mem rest n r h)

/-- `primitive_root_of_unity(n) = Some(w)`: `w` is the canonical word of a table entry for `n`, and for `n ≥ 1` its
    multiplicative order is exactly `n` -/
theorem primitiveRoot_spec (n w : Nat) (h : BF.primitiveRoot n = some w) :
    ∃ r, (n, r) ∈ PRIMITIVE_ROOTS ∧ w = bfe_new r ∧ canon w ∧ (0 < n → orderOf (toF w) = n) := by
  unfold BF.primitiveRoot at h
  cases hl : PRIMITIVE_ROOTS.lookup n with
  | none => rw [hl] at h; cases h
  | some r =>
    rw [hl] at h
    have hw : w = bfe_new r := by cases h; rfl
    have hm := lookup_mem _ _ _ hl
    have hr : r < 2^64 := by
      rcases TF.NttProofs.table_entries n r hm with ⟨_, h1⟩ | ⟨k, _, _, h1, _⟩
      · subst h1; decide
      · unfold P at h1; omega
    refine ⟨r, hm, hw, hw ▸ (new_spec r hr).1, fun hn => ?_⟩
    rw [hw, toF_new r hr]
    show orderOf ((r : ℕ) : ZMod P) = n
    rcases TF.NttProofs.table_entries n r hm with ⟨h0, _⟩ | ⟨k, _, hk, _, hr'⟩
    · omega
    · subst hk
      by_cases hk0 : k = 0
      · subst hk0; simp at hr'; subst hr'; simp
      · simp only [hk0, if_false] at hr'
        exact TF.NttProofs.orderOf_of_half_pow _ k (by omega) (TF.NttProofs.cast_pow_eq_neg_one r _ hr')


/-! ### bytes -/

theorem fromRawBytes_eq (b0 b1 b2 b3 b4 b5 b6 b7 : Nat) :
    BF.fromRawBytes [b0, b1, b2, b3, b4, b5, b6, b7] = some (bfe_from_raw_bytes b0 b1 b2 b3 b4 b5 b6 b7) := rfl
theorem fromRawU16s_eq (c0 c1 c2 c3 : Nat) :
    BF.fromRawU16s [c0, c1, c2, c3] = some (bfe_from_raw_u16s c0 c1 c2 c3) := rfl

theorem from_raw_bytes_eq (b0 b1 b2 b3 b4 b5 b6 b7 : Nat) :
    bfe_from_raw_bytes b0 b1 b2 b3 b4 b5 b6 b7 =
      b0 + 256 * (b1 + 256 * (b2 + 256 * (b3 + 256 * (b4 + 256 * (b5 + 256 * (b6 + 256 * b7)))))) := by
  unfold bfe_from_raw_bytes; omega

/-- byte decomposition of a 64-bit word, Horner form -/
theorem bytes_of_word (a : Nat) (ha : a < 2^64) :
    a % 256 + 256 * (a / 256 % 256 + 256 * (a / 65536 % 256 + 256 * (a / 16777216 % 256 + 256 * (a / 4294967296 % 256 +
      256 * (a / 1099511627776 % 256 + 256 * (a / 281474976710656 % 256 + 256 * (a / 72057594037927936 % 256))))))) = a := by
  omega

theorem word_of_bytes (b0 b1 b2 b3 b4 b5 b6 b7 : Nat) (h0 : b0 < 256) (h1 : b1 < 256) (h2 : b2 < 256) (h3 : b3 < 256)
    (h4 : b4 < 256) (h5 : b5 < 256) (h6 : b6 < 256) (h7 : b7 < 256) (w : Nat)
    (hw : w = b0 + 256 * (b1 + 256 * (b2 + 256 * (b3 + 256 * (b4 + 256 * (b5 + 256 * (b6 + 256 * b7))))))) :
    w < 2^64 ∧ w % 256 = b0 ∧ w / 256 % 256 = b1 ∧ w / 65536 % 256 = b2 ∧ w / 16777216 % 256 = b3 ∧
    w / 4294967296 % 256 = b4 ∧ w / 1099511627776 % 256 = b5 ∧ w / 281474976710656 % 256 = b6 ∧
    w / 72057594037927936 % 256 = b7 := by
  refine ⟨by omega, by omega, by omega, by omega, by omega, by omega, by omega, by omega, by omega⟩

end TF.BF
