import TF.Proofs.MmrIndex
/-!
# C16, part 2: the loop functions against S1 (`tree o l h`, the post-order numbered perfect tree)

Every MMR with fewer than `2^63` leaves is a prefix of `tree 0 0 63` (node indices `1 … 2^64 − 1`).  The loop
functions are binary descents in that tree; each is proved by induction on the height with the offset generalised,
against the table `Tree.rows` of the subtree.
-/
namespace TF.Mmr
open TF TF.Gen TF.Spec.Mmr TF.Model.Mmr

/-! ## S1: the perfect post-order numbered tree `tree o l h` -/

theorem tree_idx (o l : Nat) : ∀ h, (tree o l h).idx = o + 2^(h+1) - 1 := by
  intro h; cases h <;> simp [tree, TF.Spec.Mmr.Tree.idx]

theorem tree_height (o l : Nat) : ∀ h, (tree o l h).height = h := by
  intro h
  induction h generalizing o l with
  | zero => rfl
  | succ h ih => simp [tree, TF.Spec.Mmr.Tree.height, ih]

theorem two_pow_succ' (h : Nat) : 2^(h+1) = 2 * 2^h := by rw [Nat.pow_succ]; omega

/-- rows of an inner node of S1 -/
theorem rows_tree_succ (o l h p s : Nat) (isR : Bool) (rp mt : Nat) (auth : List Nat) :
    (tree o l (h+1)).rows p s isR rp mt auth =
      (tree o l h).rows (o + 2^(h+2) - 1) (o + 2^(h+1) - 1 + 2^(h+1) - 1) false (if isR then rp + 1 else 0) (2 * mt)
          ((o + 2^(h+1) - 1 + 2^(h+1) - 1) :: auth) ++
      (tree (o + 2^(h+1) - 1) (l + 2^h) h).rows (o + 2^(h+2) - 1) (o + 2^(h+1) - 1) true (if isR then rp + 1 else 0)
          (2 * mt + 1) ((o + 2^(h+1) - 1) :: auth) ++
      [{ idx := o + 2^(h+2) - 1, height := h + 1, rll := if isR then rp + 1 else 0, parent := p, sibling := s,
         left := o + 2^(h+1) - 1, right := o + 2^(h+1) - 1 + 2^(h+1) - 1, leaf := none, mt := mt, auth := auth }] := by
  have e : tree o l (h+1) = .node (o + 2 ^ (h + 2) - 1) (tree o l h) (tree (o + 2 ^ (h + 1) - 1) (l + 2 ^ h) h) := rfl
  rw [e]
  simp only [TF.Spec.Mmr.Tree.rows, tree_idx, tree_height]

theorem rows_tree_zero (o l p s : Nat) (isR : Bool) (rp mt : Nat) (auth : List Nat) :
    (tree o l 0).rows p s isR rp mt auth =
      [{ idx := o + 1, height := 0, rll := if isR then rp + 1 else 0, parent := p, sibling := s,
         left := 0, right := 0, leaf := some l, mt := mt, auth := auth }] := rfl

/-- node indices of a subtree: `o+1 … o + 2^(h+1) − 1` -/
theorem rows_idx_range : ∀ (h o l p s : Nat) (isR : Bool) (rp mt : Nat) (auth : List Nat) (r : Row),
    r ∈ (tree o l h).rows p s isR rp mt auth → o < r.idx ∧ r.idx ≤ o + 2^(h+1) - 1 := by
  intro h
  induction h with
  | zero =>
    intro o l p s isR rp mt auth r hr
    rw [rows_tree_zero] at hr
    have := List.mem_singleton.mp hr
    subst this
    simp
  | succ h ih =>
    intro o l p s isR rp mt auth r hr
    rw [rows_tree_succ] at hr
    have hp := two_pow_succ' (h+1)
    have hp2 : 2^(h+2) = 2 * 2^(h+1) := two_pow_succ' (h+1)
    have hp1 := two_pow_succ' h
    have hpos := Nat.two_pow_pos h
    rcases List.mem_append.mp hr with hr | hr
    · rcases List.mem_append.mp hr with hr | hr
      · have := ih _ _ _ _ _ _ _ _ _ hr; omega
      · have := ih _ _ _ _ _ _ _ _ _ hr; omega
    · have := List.mem_singleton.mp hr
      subst this
      simp only; omega
/-! ## `right_lineage_length_and_own_height` is the descent in S1 -/

theorem rllLoop_succ (n f c ht cnt : Nat) :
    rllLoop n (f+1) c ht cnt =
      if c = n then some (cnt, ht)
      else if left_child c ht < n then rllLoop n f (right_child c) (dec32 ht) (inc32 cnt)
      else rllLoop n f (left_child c ht) (dec32 ht) 0 := rfl

theorem dec32_succ (h : Nat) (hh : h + 1 < 4294967296) : dec32 (h+1) = h := by
  unfold dec32 W32; omega
theorem inc32_lt (c : Nat) (hc : c + 1 < 4294967296) : inc32 c = c + 1 := by
  unfold inc32 W32; omega

theorem two_pow_le_W (k : Nat) (h : k ≤ 64) : 2^k ≤ 18446744073709551616 := by
  have : (18446744073709551616 : Nat) = 2^64 := by decide
  rw [this]; exact Nat.pow_le_pow_right (by decide) h

/-- the loop of `right_lineage_length_and_own_height`, started at the root of the subtree `tree o l h` with the
    right-lineage count of that root, finds every node of the subtree and returns its right-lineage length and
    height as recorded in the table of the subtree -/
theorem rllLoop_rows : ∀ (h o l p s : Nat) (isR : Bool) (rp mt : Nat) (auth : List Nat) (r : Row),
    r ∈ (tree o l h).rows p s isR rp mt auth → h < 64 → o + 2^(h+1) ≤ 2^64 →
    (if isR then rp + 1 else 0) + h < 4294967296 →
    ∀ fuel, h + 1 ≤ fuel →
      rllLoop r.idx fuel (o + 2^(h+1) - 1) h (if isR then rp + 1 else 0) = some (r.rll, r.height) := by
  intro h
  induction h with
  | zero =>
    intro o l p s isR rp mt auth r hr _ _ _ fuel hf
    rw [rows_tree_zero] at hr
    have := List.mem_singleton.mp hr
    subst this
    obtain ⟨f, rfl⟩ : ∃ f, fuel = f + 1 := ⟨fuel - 1, by omega⟩
    rw [rllLoop_succ]
    simp
  | succ h ih =>
    intro o l p s isR rp mt auth r hr hh ho hc fuel hf
    obtain ⟨f, rfl⟩ : ∃ f, fuel = f + 1 := ⟨fuel - 1, by omega⟩
    rw [rows_tree_succ] at hr
    have hp2 : 2^(h+2) = 2 * 2^(h+1) := two_pow_succ' (h+1)
    have hp22 : 2^(h+1+1) = 2 * 2^(h+1) := two_pow_succ' (h+1)
    have hp1 := two_pow_succ' h
    have hpos := Nat.two_pow_pos h
    have h64 : (2:Nat)^64 = 18446744073709551616 := by decide
    generalize hcnt : (if isR then rp + 1 else 0) = cnt at *
    have hcand : o + 2^(h+1+1) - 1 < 2^64 := by omega
    have hlc := (left_child_spec (o + 2^(h+1+1) - 1) (h+1) hh hcand (by omega)).1
    have hrc := (right_child_spec (o + 2^(h+1+1) - 1) (by omega) hcand).1
    have hdec := dec32_succ h (by omega)
    rw [rllLoop_succ, hlc, hrc, hdec]
    rcases List.mem_append.mp hr with hr | hr
    · rcases List.mem_append.mp hr with hr | hr
      · -- left subtree
        have hrange := rows_idx_range _ _ _ _ _ _ _ _ _ _ hr
        have := ih o l _ _ false cnt _ _ r hr (by omega) (by omega) (by simp; omega) f (by omega)
        simp only [Bool.false_eq_true, if_false] at this
        have e : o + 2^(h+1+1) - 1 - 2^(h+1) = o + 2^(h+1) - 1 := by omega
        rw [if_neg (by omega), if_neg (by omega), e]
        exact this
      · -- right subtree
        have hrange := rows_idx_range _ _ _ _ _ _ _ _ _ _ hr
        have := ih (o + 2^(h+1) - 1) (l + 2^h) _ _ true cnt _ _ r hr (by omega) (by omega) (by simp; omega) f (by omega)
        simp only [if_true] at this
        have e : o + 2^(h+1+1) - 1 - 1 = o + 2^(h+1) - 1 + 2^(h+1) - 1 := by omega
        rw [if_neg (by omega), if_pos (by omega), e, inc32_lt cnt (by omega)]
        exact this
    · have := List.mem_singleton.mp hr
      subst this
      simp only
      rw [if_pos trivial]

/-- every index of the range is the index of a row -/
theorem rows_idx_complete : ∀ (h o l p s : Nat) (isR : Bool) (rp mt : Nat) (auth : List Nat) (n : Nat),
    o < n → n ≤ o + 2^(h+1) - 1 → ∃ r ∈ (tree o l h).rows p s isR rp mt auth, r.idx = n := by
  intro h
  induction h with
  | zero =>
    intro o l p s isR rp mt auth n h1 h2
    rw [rows_tree_zero]
    exact ⟨_, List.mem_singleton.mpr rfl, by simp at h2 ⊢; omega⟩
  | succ h ih =>
    intro o l p s isR rp mt auth n h1 h2
    have hp2 : 2^(h+2) = 2 * 2^(h+1) := two_pow_succ' (h+1)
    have hp22 : 2^(h+1+1) = 2 * 2^(h+1) := two_pow_succ' (h+1)
    have hpos := Nat.two_pow_pos (h+1)
    rw [rows_tree_succ]
    by_cases c1 : n ≤ o + 2^(h+1) - 1
    · obtain ⟨r, hr, hn⟩ := ih o l (o + 2^(h+2) - 1) (o + 2^(h+1) - 1 + 2^(h+1) - 1) false (if isR then rp + 1 else 0)
        (2 * mt) ((o + 2^(h+1) - 1 + 2^(h+1) - 1) :: auth) n h1 c1
      exact ⟨r, List.mem_append.mpr (Or.inl (List.mem_append.mpr (Or.inl hr))), hn⟩
    · by_cases c2 : n = o + 2^(h+2) - 1
      · exact ⟨_, List.mem_append.mpr (Or.inr (List.mem_singleton.mpr rfl)), c2.symm⟩
      · obtain ⟨r, hr, hn⟩ := ih (o + 2^(h+1) - 1) (l + 2^h) (o + 2^(h+2) - 1) (o + 2^(h+1) - 1) true
          (if isR then rp + 1 else 0) (2 * mt + 1) ((o + 2^(h+1) - 1) :: auth) n (by omega) (by omega)
        exact ⟨r, List.mem_append.mpr (Or.inl (List.mem_append.mpr (Or.inr hr))), hn⟩

/-- starting the descent higher up on the left spine makes no difference -/
theorem rllLoop_descend_left (n k : Nat) (hn : n ≤ 2^(k+1) - 1) (hn1 : 1 ≤ n) : ∀ d f, k + d ≤ 63 →
    rllLoop n (f + d) (2^(k+d+1) - 1) (k+d) 0 = rllLoop n f (2^(k+1) - 1) k 0 := by
  intro d
  induction d with
  | zero => intro f _; rfl
  | succ d ih =>
    intro f hd
    have e1 : f + (d+1) = (f + d) + 1 := by omega
    have e2 : k + (d+1) = (k + d) + 1 := by omega
    have hp := two_pow_succ' (k+d+1)
    have hmono : 2^(k+1) ≤ 2^(k+d+1) := Nat.pow_le_pow_right (by decide) (by omega)
    have hW := two_pow_le_W (k+d+1+1) (by omega)
    have h64 : (2:Nat)^64 = 18446744073709551616 := by decide
    have hpos := Nat.two_pow_pos (k+d+1)
    have hlc := (left_child_spec (2^(k+d+1+1) - 1) (k+d+1) (by omega) (by omega) (by omega)).1
    rw [e1, e2, rllLoop_succ, hlc, dec32_succ (k+d) (by omega)]
    have e : 2^(k+d+1+1) - 1 - 2^(k+d+1) = 2^(k+d+1) - 1 := by omega
    rw [if_neg (by omega), if_neg (by omega), e]
    exact ih f (by omega)

/-- **`right_lineage_length_and_own_height`**: for every node of the tree with node indices `1 … 2^64 − 1`
    (`tree 0 0 63`, of which every MMR below `2^63` leaves is a prefix) the function terminates and returns the
    right-lineage length and the height recorded in the table -/
theorem rll_own_rows (r : Row) (hr : r ∈ (tree 0 0 63).rootRows) :
    right_lineage_length_and_own_height r.idx = some (r.rll, r.height) := by
  have hrange := rows_idx_range _ _ _ _ _ _ _ _ _ _ hr
  have h64 : (2:Nat)^64 = 18446744073709551616 := by decide
  have h1 : 1 ≤ r.idx := by omega
  have h2 : r.idx < 2^64 := by omega
  have hla := (leftmost_ancestor_spec r.idx h1 h2).1
  have hk := log2_lt_64 r.idx h1 h2
  have hle : r.idx ≤ 2^(Nat.log2 r.idx + 1) - 1 := by
    have := (Nat.log2_lt (n := r.idx) (k := Nat.log2 r.idx + 1) (by omega)).mp (Nat.lt_succ_self _)
    omega
  have hcore := rllLoop_rows 63 0 0 0 0 false 0 1 [] r hr (by omega) (by omega) (by simp)
    (descentFuel + (63 - Nat.log2 r.idx)) (by unfold descentFuel; omega)
  simp only [Bool.false_eq_true, if_false, Nat.zero_add] at hcore
  have hd := rllLoop_descend_left r.idx (Nat.log2 r.idx) hle h1 (63 - Nat.log2 r.idx) descentFuel (by omega)
  have e : Nat.log2 r.idx + (63 - Nat.log2 r.idx) = 63 := by omega
  rw [e] at hd
  rw [hd] at hcore
  unfold right_lineage_length_and_own_height
  rewrite [hla]
  exact hcore

/-! ## parent, siblings, children -/

/-- what the table says about the neighbours of a node, in index arithmetic -/
structure RowArith (r : Row) : Prop where
  right_child : r.parent ≠ 0 → r.rll ≠ 0 → r.parent = r.idx + 1 ∧ r.sibling + 2^(r.height+1) = r.idx + 1 ∧ 1 ≤ r.sibling
  left_child : r.parent ≠ 0 → r.rll = 0 → r.parent = r.idx + 2^(r.height+1) ∧ r.sibling + 1 = r.idx + 2^(r.height+1)
  leaf : r.height = 0 → r.left = 0 ∧ r.right = 0 ∧ r.leaf.isSome
  inner : 0 < r.height → r.left + 2^r.height = r.idx ∧ r.right + 1 = r.idx ∧ r.leaf = none
  big : 2^(r.height+1) ≤ r.idx + 1

/-- all rows of a subtree satisfy the index arithmetic, provided the inherited parent/sibling of the subtree root do -/
theorem rows_arith : ∀ (h o l p s : Nat) (isR : Bool) (rp mt : Nat) (auth : List Nat),
    (p ≠ 0 → (isR = true → p = o + 2^(h+1) - 1 + 1 ∧ s + 2^(h+1) = o + 2^(h+1) - 1 + 1 ∧ 1 ≤ s) ∧
             (isR = false → p = o + 2^(h+1) - 1 + 2^(h+1) ∧ s + 1 = o + 2^(h+1) - 1 + 2^(h+1))) →
    ∀ r ∈ (tree o l h).rows p s isR rp mt auth, RowArith r := by
  intro h
  induction h with
  | zero =>
    intro o l p s isR rp mt auth hroot r hr
    rw [rows_tree_zero] at hr
    have := List.mem_singleton.mp hr
    subst this
    constructor
    · intro hp hrll
      simp only at hp hrll ⊢
      cases isR with
      | true => exact (hroot hp).1 rfl
      | false => simp at hrll
    · intro hp hrll
      simp only at hp hrll ⊢
      cases isR with
      | true => simp at hrll
      | false => exact (hroot hp).2 rfl
    · intro _; simp
    · intro hh; simp at hh
    · simp
  | succ h ih =>
    intro o l p s isR rp mt auth hroot r hr
    rw [rows_tree_succ] at hr
    have hp2 : 2^(h+2) = 2 * 2^(h+1) := two_pow_succ' (h+1)
    have hp22 : 2^(h+1+1) = 2 * 2^(h+1) := two_pow_succ' (h+1)
    have hp1 := two_pow_succ' h
    have hpos := Nat.two_pow_pos h
    rcases List.mem_append.mp hr with hr | hr
    · rcases List.mem_append.mp hr with hr | hr
      · exact ih o l _ _ false _ _ _ (fun _ => ⟨fun c => by simp at c, fun _ => by omega⟩) r hr
      · exact ih (o + 2^(h+1) - 1) (l + 2^h) _ _ true _ _ _ (fun _ => ⟨fun _ => by omega, fun c => by simp at c⟩) r hr
    · have := List.mem_singleton.mp hr
      subst this
      constructor
      · intro hp hrll
        simp only at hp hrll ⊢
        cases isR with
        | true => have := (hroot hp).1 rfl; omega
        | false => simp at hrll
      · intro hp hrll
        simp only at hp hrll ⊢
        cases isR with
        | true => simp at hrll
        | false => have := (hroot hp).2 rfl; omega
      · intro hh; simp at hh
      · intro _; dsimp only; exact ⟨by omega, by omega, rfl⟩
      · dsimp only; omega

theorem rootRows_arith (h : Nat) (r : Row) (hr : r ∈ (tree 0 0 h).rootRows) : RowArith r :=
  rows_arith h 0 0 0 0 false 0 1 [] (fun c => absurd rfl c) r hr

/-- the parent recorded in a row is the inherited one (subtree root) or a node of the subtree -/
theorem rows_parent_range : ∀ (h o l p s : Nat) (isR : Bool) (rp mt : Nat) (auth : List Nat),
    ∀ r ∈ (tree o l h).rows p s isR rp mt auth,
      (r.idx = o + 2^(h+1) - 1 ∧ r.parent = p) ∨ (o < r.parent ∧ r.parent ≤ o + 2^(h+1) - 1) := by
  intro h
  induction h with
  | zero =>
    intro o l p s isR rp mt auth r hr
    rw [rows_tree_zero] at hr
    have := List.mem_singleton.mp hr
    subst this
    exact Or.inl ⟨rfl, rfl⟩
  | succ h ih =>
    intro o l p s isR rp mt auth r hr
    rw [rows_tree_succ] at hr
    have hp2 : 2^(h+2) = 2 * 2^(h+1) := two_pow_succ' (h+1)
    have hp22 : 2^(h+1+1) = 2 * 2^(h+1) := two_pow_succ' (h+1)
    have hpos := Nat.two_pow_pos (h+1)
    rcases List.mem_append.mp hr with hr | hr
    · rcases List.mem_append.mp hr with hr | hr
      · rcases ih _ _ _ _ _ _ _ _ r hr with ⟨_, h2⟩ | ⟨h1, h2⟩
        · right; omega
        · right; omega
      · rcases ih _ _ _ _ _ _ _ _ r hr with ⟨_, h2⟩ | ⟨h1, h2⟩
        · right; omega
        · right; omega
    · have := List.mem_singleton.mp hr
      subst this
      exact Or.inl ⟨rfl, rfl⟩

theorem pow_lt_W_imp (a : Nat) (h : 2^a < 18446744073709551616) : a < 64 := by
  have : (18446744073709551616 : Nat) = 2^64 := by decide
  rw [this] at h
  exact (Nat.pow_lt_pow_iff_right (by decide)).mp h

theorem shl1_of_lt (a : Nat) (h : a < 64) : shl1 a = 2^a := by unfold shl1; rw [Nat.mod_eq_of_lt h]

theorem parent_of_rll (n rc h : Nat) (hx : right_lineage_length_and_own_height n = some (rc, h)) :
    parent n = if rc ≠ 0 then some (add64 n 1) else some (add64 n (shl1 (inc32 h))) := by
  unfold parent
  rw [hx]

/-- facts about a non-root row of `tree 0 0 63` needed to evaluate the word-level functions -/
theorem nonroot_bounds (r : Row) (hr : r ∈ (tree 0 0 63).rootRows) (hp : r.parent ≠ 0) :
    r.parent ≤ 18446744073709551615 ∧ r.height < 63 ∧ r.idx < 18446744073709551615 ∧ 1 ≤ r.idx := by
  have ha := rootRows_arith 63 r hr
  have hrange := rows_idx_range _ _ _ _ _ _ _ _ _ _ hr
  have h64 : (2:Nat)^64 = 18446744073709551616 := by decide
  have hpr : r.parent ≤ 18446744073709551615 := by
    rcases rows_parent_range 63 0 0 0 0 false 0 1 [] r hr with ⟨_, h2⟩ | ⟨_, h2⟩
    · exact absurd h2 hp
    · omega
  have hpos := Nat.two_pow_pos (r.height + 1)
  have hlt : 2^(r.height+1) < 18446744073709551616 := by
    by_cases hrll : r.rll = 0
    · have := ha.left_child hp hrll; omega
    · have := ha.right_child hp hrll; omega
  have h1 := pow_lt_W_imp _ hlt
  refine ⟨hpr, by omega, ?_, by omega⟩
  by_cases hrll : r.rll = 0
  · have := ha.left_child hp hrll; omega
  · have := ha.right_child hp hrll; omega

/-- **`parent`** agrees with the table for every node of `tree 0 0 63` that has a parent -/
theorem parent_rows (r : Row) (hr : r ∈ (tree 0 0 63).rootRows) (hp : r.parent ≠ 0) :
    parent r.idx = some r.parent := by
  have ha := rootRows_arith 63 r hr
  obtain ⟨hb1, hb2, hb3, hb4⟩ := nonroot_bounds r hr hp
  rw [parent_of_rll _ _ _ (rll_own_rows r hr)]
  by_cases hrll : r.rll = 0
  · have := ha.left_child hp hrll
    rw [if_neg (by omega), inc32_lt _ (by omega), shl1_of_lt _ (by omega)]
    unfold add64 W64
    generalize 2^(r.height+1) = P at *
    congr 1; omega
  · have := ha.right_child hp hrll
    rw [if_pos hrll]
    unfold add64 W64
    congr 1; omega

/-- **`left_sibling` / `right_sibling`** agree with the table (and do not overflow) -/
theorem sibling_rows (r : Row) (hr : r ∈ (tree 0 0 63).rootRows) (hp : r.parent ≠ 0) :
    (r.rll ≠ 0 → left_sibling r.idx r.height = r.sibling ∧ left_sibling_ok r.idx r.height = true) ∧
    (r.rll = 0 → right_sibling r.idx r.height = r.sibling ∧ right_sibling_ok r.idx r.height = true) := by
  have ha := rootRows_arith 63 r hr
  obtain ⟨hb1, hb2, hb3, hb4⟩ := nonroot_bounds r hr hp
  have h64 : (2:Nat)^64 = 18446744073709551616 := by decide
  constructor
  · intro hrll
    have := ha.right_child hp hrll
    have hs := left_sibling_spec r.idx r.height hb2 (by omega) (by omega)
    rw [hs.1, hs.2]
    exact ⟨by omega, rfl⟩
  · intro hrll
    have := ha.left_child hp hrll
    have hs := right_sibling_spec r.idx r.height hb2 (by omega)
    rw [hs.1, hs.2 (by omega)]
    exact ⟨by omega, rfl⟩

/-- **`left_child` / `right_child`** agree with the table for every inner node -/
theorem children_rows (r : Row) (hr : r ∈ (tree 0 0 63).rootRows) (hh : 0 < r.height) :
    left_child r.idx r.height = r.left ∧ left_child_ok r.idx r.height = true ∧
    right_child r.idx = r.right ∧ right_child_ok r.idx = true := by
  have ha := rootRows_arith 63 r hr
  have hrange := rows_idx_range _ _ _ _ _ _ _ _ _ _ hr
  have h64 : (2:Nat)^64 = 18446744073709551616 := by decide
  have hi := ha.inner hh
  have hbig := ha.big
  have hp1 := two_pow_succ' r.height
  have hpos := Nat.two_pow_pos r.height
  have hlt : r.height < 64 := by
    apply pow_lt_W_imp; omega
  have hl := left_child_spec r.idx r.height hlt (by omega) (by omega)
  have hrc := right_child_spec r.idx (by omega) (by omega)
  rw [hl.1, hl.2, hrc.1, hrc.2]
  exact ⟨by omega, rfl, by omega, rfl⟩

/-- one climbing step of the membership-proof routines: is-right-child flag, sibling, parent -/
theorem siblingAndParent_rows (r : Row) (hr : r ∈ (tree 0 0 63).rootRows) (hp : r.parent ≠ 0) :
    siblingAndParent r.idx = some (decide (r.rll ≠ 0), r.sibling, r.parent) := by
  have hpar := parent_rows r hr hp
  have hsib := sibling_rows r hr hp
  rw [parent_of_rll _ _ _ (rll_own_rows r hr)] at hpar
  unfold siblingAndParent
  rw [rll_own_rows r hr]
  by_cases hrll : r.rll = 0
  · rw [if_neg (by omega)] at hpar
    simp only [hrll, ne_eq, not_true_eq_false, if_false, decide_false, (hsib.2 hrll).1]
    have := Option.some.inj hpar
    rw [this]
  · rw [if_pos hrll] at hpar
    simp only [ne_eq, hrll, not_false_eq_true, if_true, decide_true, (hsib.1 hrll).1]
    have := Option.some.inj hpar
    rw [this]


/-! ## `node_index_to_leaf_index` -/

theorem n2lLoop_succ (n h node acc : Nat) :
    n2lLoop n (h+1) node acc =
      if n ≤ left_child node (h+1) then n2lLoop n h (left_child node (h+1)) acc
      else n2lLoop n h (right_child node) (add64 acc (shl1 h)) := rfl

/-- leaf indices of a subtree: `l … l + 2^h − 1` -/
theorem rows_leaf_range : ∀ (h o l p s : Nat) (isR : Bool) (rp mt : Nat) (auth : List Nat) (r : Row) (li : Nat),
    r ∈ (tree o l h).rows p s isR rp mt auth → r.leaf = some li → l ≤ li ∧ li < l + 2^h := by
  intro h
  induction h with
  | zero =>
    intro o l p s isR rp mt auth r li hr hl
    rw [rows_tree_zero] at hr
    have := List.mem_singleton.mp hr
    subst this
    simp only [Option.some.injEq] at hl
    omega
  | succ h ih =>
    intro o l p s isR rp mt auth r li hr hl
    rw [rows_tree_succ] at hr
    have hp1 := two_pow_succ' h
    have hpos := Nat.two_pow_pos h
    rcases List.mem_append.mp hr with hr | hr
    · rcases List.mem_append.mp hr with hr | hr
      · have := ih _ _ _ _ _ _ _ _ r li hr hl; omega
      · have := ih _ _ _ _ _ _ _ _ r li hr hl; omega
    · have := List.mem_singleton.mp hr
      subst this
      simp at hl

/-- the descent of `node_index_to_leaf_index` from the root of a subtree counts the leaves to the left of the node -/
theorem n2lLoop_rows : ∀ (h o l p s : Nat) (isR : Bool) (rp mt : Nat) (auth : List Nat) (r : Row) (li acc : Nat),
    r ∈ (tree o l h).rows p s isR rp mt auth → r.leaf = some li → h < 64 → o + 2^(h+1) ≤ 2^64 →
    acc + 2^h ≤ 2^64 →
    n2lLoop r.idx h (o + 2^(h+1) - 1) acc = acc + (li - l) := by
  intro h
  induction h with
  | zero =>
    intro o l p s isR rp mt auth r li acc hr hl _ _ _
    rw [rows_tree_zero] at hr
    have := List.mem_singleton.mp hr
    subst this
    simp only [Option.some.injEq] at hl
    subst hl
    simp [n2lLoop]
  | succ h ih =>
    intro o l p s isR rp mt auth r li acc hr hl hh ho hacc
    rw [rows_tree_succ] at hr
    have hp2 : 2^(h+2) = 2 * 2^(h+1) := two_pow_succ' (h+1)
    have hp22 : 2^(h+1+1) = 2 * 2^(h+1) := two_pow_succ' (h+1)
    have hp1 := two_pow_succ' h
    have hpos := Nat.two_pow_pos h
    have h64 : (2:Nat)^64 = 18446744073709551616 := by decide
    have hcand : o + 2^(h+1+1) - 1 < 2^64 := by omega
    have hlc := (left_child_spec (o + 2^(h+1+1) - 1) (h+1) hh hcand (by omega)).1
    have hrc := (right_child_spec (o + 2^(h+1+1) - 1) (by omega) hcand).1
    rw [n2lLoop_succ, hlc, hrc]
    rcases List.mem_append.mp hr with hr | hr
    · rcases List.mem_append.mp hr with hr | hr
      · have hrange := rows_idx_range _ _ _ _ _ _ _ _ _ _ hr
        have := ih o l _ _ _ _ _ _ r li acc hr hl (by omega) (by omega) (by omega)
        have e : o + 2^(h+1+1) - 1 - 2^(h+1) = o + 2^(h+1) - 1 := by omega
        rw [if_pos (by omega), e]
        exact this
      · have hrange := rows_idx_range _ _ _ _ _ _ _ _ _ _ hr
        have hlr := rows_leaf_range _ _ _ _ _ _ _ _ _ r li hr hl
        have hacc' : add64 acc (shl1 h) = acc + 2^h := by
          rw [shl1_of_lt h (by omega)]; unfold add64 W64; omega
        have := ih (o + 2^(h+1) - 1) (l + 2^h) _ _ _ _ _ _ r li (acc + 2^h) hr hl (by omega) (by omega) (by omega)
        have e : o + 2^(h+1+1) - 1 - 1 = o + 2^(h+1) - 1 + 2^(h+1) - 1 := by omega
        rw [if_neg (by omega), e, hacc', this]
        omega
    · have := List.mem_singleton.mp hr
      subst this
      simp at hl

theorem n2lLoop_descend_left (n k : Nat) (hn : n ≤ 2^(k+1) - 1) : ∀ d, k + d ≤ 63 →
    n2lLoop n (k+d) (2^(k+d+1) - 1) 0 = n2lLoop n k (2^(k+1) - 1) 0 := by
  intro d
  induction d with
  | zero => intro _; rfl
  | succ d ih =>
    intro hd
    have e2 : k + (d+1) = (k + d) + 1 := by omega
    have hp := two_pow_succ' (k+d+1)
    have hmono : 2^(k+1) ≤ 2^(k+d+1) := Nat.pow_le_pow_right (by decide) (by omega)
    have hW := two_pow_le_W (k+d+1+1) (by omega)
    have h64 : (2:Nat)^64 = 18446744073709551616 := by decide
    have hpos := Nat.two_pow_pos (k+d+1)
    have hlc := (left_child_spec (2^(k+d+1+1) - 1) (k+d+1) (by omega) (by omega) (by omega)).1
    rw [e2, n2lLoop_succ, hlc]
    have e : 2^(k+d+1+1) - 1 - 2^(k+d+1) = 2^(k+d+1) - 1 := by omega
    rw [if_pos (by omega), e]
    exact ih (by omega)

theorem n2l_of_rll (n rc h : Nat) (hx : right_lineage_length_and_own_height n = some (rc, h)) :
    node_index_to_leaf_index n =
      if h ≠ 0 then some none else some (some (n2lLoop n (leftmost_ancestor n).2 (leftmost_ancestor n).1 0)) := by
  unfold node_index_to_leaf_index
  rw [hx]

/-- **`node_index_to_leaf_index`** agrees with the table for every node of `tree 0 0 63`:
    `Some(leaf index)` for the leaves, `None` for inner nodes -/
theorem n2l_rows (r : Row) (hr : r ∈ (tree 0 0 63).rootRows) :
    node_index_to_leaf_index r.idx = some r.leaf := by
  have ha := rootRows_arith 63 r hr
  have hrange := rows_idx_range _ _ _ _ _ _ _ _ _ _ hr
  have h64 : (2:Nat)^64 = 18446744073709551616 := by decide
  have h1 : 1 ≤ r.idx := by omega
  have h2 : r.idx < 2^64 := by omega
  rw [n2l_of_rll _ _ _ (rll_own_rows r hr)]
  by_cases hh : r.height = 0
  · rw [if_neg (by omega)]
    obtain ⟨_, _, hsome⟩ := ha.leaf hh
    obtain ⟨li, hli⟩ := Option.isSome_iff_exists.mp hsome
    have hla := (leftmost_ancestor_spec r.idx h1 h2).1
    have hk := log2_lt_64 r.idx h1 h2
    have hle : r.idx ≤ 2^(Nat.log2 r.idx + 1) - 1 := by
      have := (Nat.log2_lt (n := r.idx) (k := Nat.log2 r.idx + 1) (by omega)).mp (Nat.lt_succ_self _)
      omega
    have hcore := n2lLoop_rows 63 0 0 0 0 false 0 1 [] r li 0 hr hli (by omega) (by omega) (by omega)
    have hd := n2lLoop_descend_left r.idx (Nat.log2 r.idx) hle (63 - Nat.log2 r.idx) (by omega)
    have e : Nat.log2 r.idx + (63 - Nat.log2 r.idx) = 63 := by omega
    rw [e] at hd
    simp only [Nat.zero_add, Nat.sub_zero] at hcore
    rw [hd] at hcore
    rewrite [hla]
    show some (some (n2lLoop r.idx (Nat.log2 r.idx) (2^(Nat.log2 r.idx + 1) - 1) 0)) = _
    rw [hcore, hli]
  · rw [if_pos hh]
    rw [(ha.inner (by omega)).2.2]


end TF.Mmr
