import TF.Gen.Consts
import TF.Gen.BField

/-!
Word-level facts about the translated `BFieldElement` functions (`TF/Gen/BField.lean`, regenerated from
`b_field_element.rs` on every run).  Core Lean only (`omega`, `simp only`).

Recipe (DESIGN §8/C01, App. A.1): split 64-bit words into 32-bit limbs, closed forms for wrapped
intermediates by carry case, congruences as linear equations, `omega`.
-/
namespace TF.BF
open TF.Gen

def Pn : Nat := 18446744069414584321
def W : Nat := 18446744073709551616
def H : Nat := 4294967296
/-- `2^-64 mod P` (it equals `R2 = 2^128 mod P` because `2^192 ≡ 1`) -/
def Winv : Nat := 18446744065119617025

theorem P_eq : P = Pn := rfl
theorem R2_eq : R2 = Winv := rfl

/-- closed form of the intermediate `b` of `montyred`, by cases on the carry `e` -/
theorem b_closed (lo hi : Nat) (hlo : lo < H) (hhi : hi < H) :
    let xl := lo + H * hi
    let s := xl + (xl * H) % W
    let a := s % W
    let e := if s ≥ W then 1 else 0
    let b := ((a + W - a / H) % W + W - e) % W
    (s < W → b = lo + (H - 1) * (hi + lo)) ∧
    (s ≥ W → b + 1 + (H-1) * H = lo + (H - 1) * (hi + lo)) := by
  intro xl s a e b
  have h1 : (xl * H) % W = lo * H := by simp only [xl]; unfold H W at *; omega
  have hs : s = lo + H * (hi + lo) := by simp only [s, h1, xl]; unfold H; omega
  constructor
  · intro hlt
    have ha : a = lo + H * (hi + lo) := by simp only [a]; rw [Nat.mod_eq_of_lt hlt]; exact hs
    have hd : a / H = hi + lo := by rw [ha]; unfold H at *; omega
    have he : e = 0 := by simp only [e]; rw [if_neg (by omega)]
    simp only [b, he, ha]
    unfold H W at *; omega
  · intro hge
    have hsW : s < 2 * W := by rw [hs]; unfold H W at *; omega
    have ha : a = lo + H * (hi + lo) - W := by
      have : s % W = s - W := by unfold W at *; omega
      simp only [a]; rw [this, hs]
    have hhl : hi + lo ≥ H := by rw [hs] at hge; unfold H W at *; omega
    have hd : a / H = hi + lo - H := by rw [ha]; unfold H W at *; omega
    have he : e = 1 := by simp only [e]; rw [if_pos hge]
    simp only [b, he, ha]
    unfold H W at *; omega

/-- the shape of `montyred` used by the limb proof -/
def montyredN (x : Nat) : Nat :=
  let xl := x % W
  let xh := x / W
  let s := xl + (xl * H) % W
  let a := s % W
  let e := if s ≥ W then 1 else 0
  let b := ((a + W - a / H) % W + W - e) % W
  let r := (xh + W - b) % W
  let c := if xh < b then 1 else 0
  (r + W - 4294967295 * c) % W

theorem c_simpl (c : Prop) [Decidable c] :
    ((1 + (18446744073709551615 - 18446744069414584321)) % 18446744073709551616 * (if c then 1 else 0))
      % 18446744073709551616 = 4294967295 * (if c then 1 else 0) := by
  split <;> rfl

/-- the *translated* `montyred` (whatever `b_field_element.rs` says now) is `montyredN` on `u128` inputs -/
theorem montyred_unfold (x : Nat) (hx : x < W * W) : montyred x = montyredN x := by
  have hx' : x / 18446744073709551616 < 18446744073709551616 := by unfold W at hx; omega
  unfold montyred montyredN W H
  simp only [Nat.mod_eq_of_lt hx', decide_eq_true_eq, ge_iff_le, c_simpl]

theorem c_bound (c : Prop) [Decidable c] :
    (1 + (18446744073709551615 - 18446744069414584321)) % 18446744073709551616 * (if c then 1 else 0)
      < 18446744073709551616 := by
  split <;> decide

theorem montyred_ok_true (x : Nat) : montyred_ok x = true := by
  unfold montyred_ok
  simp only [Bool.and_eq_true, decide_eq_true_eq]
  exact ⟨by omega, c_bound _⟩

/-- range and congruence of `montyredN`, stated without `%` so that `omega` closes it -/
theorem montyredN_lin (lo hi xh : Nat) (hlo : lo < H) (hhi : hi < H) (hh : xh < Pn) :
    let x := (lo + H * hi) + W * xh
    let a := if lo + H * hi + lo * H < W then lo + H * (hi + lo) else lo + H * (hi + lo) - W
    montyredN x < Pn ∧ (montyredN x * W + a * Pn = x ∨ montyredN x * W + a * Pn = x + Pn * W) := by
  intro x a
  have hx1 : x % W = lo + H * hi := by simp only [x]; unfold H W at *; omega
  have hx2 : x / W = xh := by simp only [x]; unfold H W at *; omega
  have hb := b_closed lo hi hlo hhi
  simp only at hb
  unfold montyredN
  simp only [hx1, hx2]
  generalize (((lo + H * hi + (lo + H * hi) * H % W) % W + W - (lo + H * hi + (lo + H * hi) * H % W) % W / H) % W + W -
        if lo + H * hi + (lo + H * hi) * H % W ≥ W then 1 else 0) % W = b at *
  have h1 : ((lo + H * hi) * H) % W = lo * H := by unfold H W at *; omega
  rw [h1] at hb
  obtain ⟨hb0, hb1⟩ := hb
  by_cases hlt : lo + H * hi + lo * H < W
  · have hb' := hb0 hlt
    simp only [a, x, if_pos hlt]
    simp only [H, W, Pn] at *
    constructor
    · split <;> omega
    · split <;> omega
  · have hb' := hb1 (by omega)
    simp only [a, x, if_neg hlt]
    simp only [H, W, Pn] at *
    constructor
    · split <;> omega
    · split <;> omega

/-- Montgomery reduction: range and congruence, for every `x < P·2^64` -/
theorem montyred_spec (x : Nat) (hx : x < Pn * W) :
    montyred x < Pn ∧ (montyred x * W) % Pn = x % Pn := by
  have hxW : x < W * W := by unfold Pn W at *; omega
  rw [montyred_unfold x hxW]
  have hdecomp : x = ((x % W) % H + H * ((x % W) / H)) + W * (x / W) := by unfold W H; omega
  have hlo : (x % W) % H < H := Nat.mod_lt _ (by unfold H; omega)
  have hhi : (x % W) / H < H := by unfold W H; omega
  have hxh : x / W < Pn := by unfold Pn W at *; omega
  have := montyredN_lin ((x % W) % H) ((x % W) / H) (x / W) hlo hhi hxh
  simp only at this
  rw [← hdecomp] at this
  obtain ⟨h1, h2⟩ := this
  refine ⟨h1, ?_⟩
  rcases h2 with h2 | h2
  · have := congrArg (· % Pn) h2
    simp only [Nat.add_mul_mod_self_right] at this
    exact this
  · have := congrArg (· % Pn) h2
    simp only [Nat.add_mul_mod_self_right, Nat.add_mul_mod_self_left] at this
    exact this

theorem W_Winv : (W * Winv) % Pn = 1 := by decide

/-- closed form: `montyred x = x · 2^-64 mod P` -/
theorem montyred_eq (x : Nat) (hx : x < Pn * W) : montyred x = (x * Winv) % Pn := by
  obtain ⟨h1, h2⟩ := montyred_spec x hx
  calc montyred x = (montyred x * 1) % Pn := by rw [Nat.mul_one, Nat.mod_eq_of_lt h1]
    _ = (montyred x * ((W * Winv) % Pn)) % Pn := by rw [W_Winv]
    _ = (montyred x * (W * Winv)) % Pn := by rw [Nat.mul_mod_mod]
    _ = ((montyred x * W) * Winv) % Pn := by rw [Nat.mul_assoc]
    _ = (((montyred x * W) % Pn) * Winv) % Pn := by rw [Nat.mod_mul_mod]
    _ = ((x % Pn) * Winv) % Pn := by rw [h2]
    _ = (x * Winv) % Pn := by rw [Nat.mod_mul_mod]

/-! ### value-level specifications -/

/-- canonical raw word -/
def canon (r : Nat) : Prop := r < Pn

theorem Pn_lt_W : Pn < W := by decide
theorem R2_Winv2 : (Winv * Winv * Winv) % Pn = 1 := by decide

theorem value_eq (r : Nat) (h : r < W) : bfe_value r = (r * Winv) % Pn := by
  unfold bfe_value
  exact montyred_eq r (by unfold Pn W at *; omega)

theorem value_lt (r : Nat) (h : r < W) : bfe_value r < Pn := by
  rw [value_eq r h]; exact Nat.mod_lt _ (by decide)

theorem value_ok (r : Nat) : bfe_value_ok r = true := by
  unfold bfe_value_ok; simp only [montyred_ok_true]

/-- multiplying the value by `2^64` gives the raw word back -/
theorem value_mul_W (r : Nat) (h : r < Pn) : (bfe_value r * W) % Pn = r := by
  unfold bfe_value
  have := (montyred_spec r (by unfold Pn W at *; omega)).2
  rw [this, Nat.mod_eq_of_lt h]

/-- every field element has exactly one canonical raw word -/
theorem repr_unique (a b : Nat) (ha : canon a) (hb : canon b) (h : bfe_value a = bfe_value b) : a = b := by
  rw [← value_mul_W a ha, ← value_mul_W b hb, h]

theorem new_eq (v : Nat) (h : v < W) : bfe_new v = (v * Winv * Winv) % Pn := by
  unfold bfe_new
  have h1 : v * 18446744065119617025 < 340282366920938463463374607431768211456 := by
    unfold W at h
    calc v * 18446744065119617025 ≤ 18446744073709551615 * 18446744065119617025 := Nat.mul_le_mul_right _ (by omega)
      _ < _ := by decide
  rw [Nat.mod_eq_of_lt h1]
  have h2 : v * 18446744065119617025 < Pn * W := by
    unfold W at h
    calc v * 18446744065119617025 ≤ 18446744073709551615 * 18446744065119617025 := Nat.mul_le_mul_right _ (by omega)
      _ < _ := by decide
  rw [montyred_eq _ h2]; rfl

theorem new_ok (v : Nat) (h : v < W) : bfe_new_ok v = true := by
  unfold bfe_new_ok
  have h1 : v * 18446744065119617025 < 340282366920938463463374607431768211456 := by
    unfold W at h
    calc v * 18446744065119617025 ≤ 18446744073709551615 * 18446744065119617025 := Nat.mul_le_mul_right _ (by omega)
      _ < _ := by decide
  simp only [montyred_ok_true, Bool.and_true, decide_eq_true_eq]; exact h1

/-- `BFieldElement::new` is total on `u64`, canonical, and `value ∘ new = (· mod P)` -/
theorem new_spec (v : Nat) (h : v < W) : canon (bfe_new v) ∧ bfe_value (bfe_new v) = v % Pn := by
  have hc : bfe_new v < Pn := by rw [new_eq v h]; exact Nat.mod_lt _ (by decide)
  refine ⟨hc, ?_⟩
  rw [value_eq _ (Nat.lt_trans hc Pn_lt_W), new_eq v h, Nat.mod_mul_mod]
  calc v * Winv * Winv * Winv % Pn = (v * (Winv * Winv * Winv)) % Pn := by
        rw [Nat.mul_assoc, Nat.mul_assoc, ← Nat.mul_assoc Winv]
    _ = (v * ((Winv * Winv * Winv) % Pn)) % Pn := by rw [Nat.mul_mod_mod]
    _ = v % Pn := by rw [R2_Winv2, Nat.mul_one]

theorem value_new (v : Nat) (h : v < Pn) : bfe_value (bfe_new v) = v := by
  rw [(new_spec v (Nat.lt_trans h Pn_lt_W)).2, Nat.mod_eq_of_lt h]

theorem new_value (r : Nat) (h : canon r) : bfe_new (bfe_value r) = r := by
  have hv := value_lt r (Nat.lt_trans h Pn_lt_W)
  have := new_spec (bfe_value r) (Nat.lt_trans hv Pn_lt_W)
  apply repr_unique _ _ this.1 h
  rw [this.2, Nat.mod_eq_of_lt hv]

theorem mul_eq (a b : Nat) (ha : canon a) (hb : canon b) : bfe_mul a b = (a * b * Winv) % Pn := by
  unfold bfe_mul canon at *
  have h2 : a * b < Pn * W := by
    calc a * b ≤ Pn * b := Nat.mul_le_mul_right _ (by omega)
      _ < Pn * W := Nat.mul_lt_mul_of_pos_left (Nat.lt_trans hb Pn_lt_W) (by decide)
  have h1 : a * b < 340282366920938463463374607431768211456 := by
    calc a * b < Pn * W := h2
      _ < _ := by decide
  rw [Nat.mod_eq_of_lt h1, montyred_eq _ h2]

theorem mul_ok (a b : Nat) (ha : canon a) (hb : canon b) : bfe_mul_ok a b = true := by
  unfold bfe_mul_ok canon at *
  have h1 : a * b < 340282366920938463463374607431768211456 := by
    calc a * b ≤ Pn * b := Nat.mul_le_mul_right _ (by omega)
      _ < Pn * W := Nat.mul_lt_mul_of_pos_left (Nat.lt_trans hb Pn_lt_W) (by decide)
      _ < _ := by decide
  simp only [montyred_ok_true, Bool.and_true, decide_eq_true_eq]; exact h1

/-- multiplication: canonical result whose value is the product of the values mod `P` -/
theorem mul_spec (a b : Nat) (ha : canon a) (hb : canon b) :
    canon (bfe_mul a b) ∧ bfe_value (bfe_mul a b) = (bfe_value a * bfe_value b) % Pn := by
  have hc : bfe_mul a b < Pn := by rw [mul_eq a b ha hb]; exact Nat.mod_lt _ (by decide)
  refine ⟨hc, ?_⟩
  rw [value_eq _ (Nat.lt_trans hc Pn_lt_W), value_eq a (Nat.lt_trans ha Pn_lt_W),
    value_eq b (Nat.lt_trans hb Pn_lt_W), mul_eq a b ha hb, Nat.mod_mul_mod, ← Nat.mul_mod]
  have : a * b * Winv * Winv = a * Winv * (b * Winv) := by
    generalize Winv = w
    ac_rfl
  rw [this]

/-- raw-word form of addition (right operand canonical; left operand any 64-bit word below `2P - b`) -/
theorem add_raw (a b : Nat) (ha : canon a) (hb : canon b) : bfe_add a b = (a + b) % Pn := by
  unfold bfe_add canon Pn at *
  simp only [decide_eq_true_eq, c_simpl]
  repeat' split
  all_goals omega

theorem add_ok (a b : Nat) (hb : b ≤ Pn) : bfe_add_ok a b = true := by
  unfold bfe_add_ok; simp only [decide_eq_true_eq]; exact hb

theorem value_add_mod (x y : Nat) : ((x + y) % Pn * Winv) % Pn = ((x * Winv) % Pn + (y * Winv) % Pn) % Pn := by
  rw [Nat.mod_mul_mod, Nat.add_mul, Nat.add_mod]

theorem add_spec (a b : Nat) (ha : canon a) (hb : canon b) :
    canon (bfe_add a b) ∧ bfe_value (bfe_add a b) = (bfe_value a + bfe_value b) % Pn := by
  have hc : bfe_add a b < Pn := by rw [add_raw a b ha hb]; exact Nat.mod_lt _ (by decide)
  refine ⟨hc, ?_⟩
  rw [value_eq _ (Nat.lt_trans hc Pn_lt_W), value_eq a (Nat.lt_trans ha Pn_lt_W),
    value_eq b (Nat.lt_trans hb Pn_lt_W), add_raw a b ha hb, value_add_mod]

theorem sub_raw (a b : Nat) (ha : canon a) (hb : canon b) : bfe_sub a b = (a + Pn - b) % Pn := by
  unfold bfe_sub canon Pn at *
  simp only [decide_eq_true_eq, c_simpl]
  -- robust against equivalent formulations of the borrow correction (flag multiplication or if/else)
  repeat' split
  all_goals omega

theorem sub_ok (a b : Nat) : bfe_sub_ok a b = true := by
  unfold bfe_sub_ok
  first
    | rfl
    | (simp only [Bool.and_eq_true, decide_eq_true_eq]; exact ⟨by omega, c_bound _⟩)
    | (simp only [Bool.and_eq_true, decide_eq_true_eq]; repeat' constructor; all_goals (repeat' split) ; all_goals omega)

/-- subtraction: canonical, and `value (a - b) + value b ≡ value a` -/
theorem sub_spec (a b : Nat) (ha : canon a) (hb : canon b) :
    canon (bfe_sub a b) ∧ (bfe_value (bfe_sub a b) + bfe_value b) % Pn = bfe_value a := by
  have hc : bfe_sub a b < Pn := by rw [sub_raw a b ha hb]; exact Nat.mod_lt _ (by decide)
  refine ⟨hc, ?_⟩
  have hva := value_lt a (Nat.lt_trans ha Pn_lt_W)
  rw [value_eq _ (Nat.lt_trans hc Pn_lt_W), value_eq b (Nat.lt_trans hb Pn_lt_W), sub_raw a b ha hb,
    ← value_add_mod]
  have : ((a + Pn - b) % Pn + b) % Pn = a := by unfold canon Pn at *; omega
  rw [this, ← value_eq a (Nat.lt_trans ha Pn_lt_W)]

/-! ### `From<u128>`: `mod_reduce` -/

theorem lm_simpl (c : Prop) [Decidable c] :
    (4294967295 * (if c then 1 else 0)) % 18446744073709551616 = if c then 4294967295 else 0 := by
  split <;> rfl

theorem mod_reduce_lin (xlo hl hh : Nat) (h1 : xlo < W) (h2 : hl < H) (h3 : hh < H) :
    let x := xlo + W * (hl + H * hh)
    mod_reduce x < W ∧
    ∃ a b, a ≤ 1 ∧ b ≤ 1 ∧ mod_reduce x + a * Pn + Pn * hl + Pn * (H + 1) * hh = x + b * Pn := by
  intro x
  have e1 : x % 18446744073709551616 = xlo := by simp only [x]; unfold W H at *; omega
  have e2 : x / 18446744073709551616 % 18446744073709551616 = hl + H * hh := by simp only [x]; unfold W H at *; omega
  have e3 : (hl + H * hh) % 4294967296 = hl := by unfold H at *; omega
  have e4 : (hl + H * hh) / 4294967296 = hh := by unfold H at *; omega
  unfold mod_reduce
  simp only [e1, e2, e3, e4, decide_eq_true_eq, lm_simpl]
  refine ⟨Nat.mod_lt _ (by decide), ?_⟩
  simp only [x]
  clear e1 e2 e3 e4 x
  unfold W H Pn at *
  have t2 : (hl * 4294967296 % 18446744073709551616 + 18446744073709551616 - hl) % 18446744073709551616 = 4294967295 * hl := by omega
  simp only [t2]
  by_cases u : xlo < hh
  · simp only [u, if_true]
    have t1 : ((xlo + 18446744073709551616 - hh) % 18446744073709551616 + 18446744073709551616 - 4294967295) % 18446744073709551616 = xlo + 18446744069414584321 - hh := by omega
    simp only [t1]
    by_cases o : xlo + 18446744069414584321 - hh + 4294967295 * hl ≥ 18446744073709551616
    · simp only [o, if_true]
      have r1 : (xlo + 18446744069414584321 - hh + 4294967295 * hl) % 18446744073709551616 = xlo + 18446744069414584321 - hh + 4294967295 * hl - 18446744073709551616 := by omega
      have r2 : (xlo + 18446744069414584321 - hh + 4294967295 * hl - 18446744073709551616 + 4294967295) % 18446744073709551616 = xlo + 18446744069414584321 - hh + 4294967295 * hl - 18446744073709551616 + 4294967295 := by omega
      rw [r1, r2]
      exact ⟨1, 1, by omega, by omega, by omega⟩
    · simp only [o, if_false]
      have r1 : (xlo + 18446744069414584321 - hh + 4294967295 * hl) % 18446744073709551616 = xlo + 18446744069414584321 - hh + 4294967295 * hl := by omega
      simp only [Nat.add_zero, r1]
      exact ⟨0, 1, by omega, by omega, by omega⟩
  · simp only [u, if_false]
    have t1 : ((xlo + 18446744073709551616 - hh) % 18446744073709551616 + 18446744073709551616 - 0) % 18446744073709551616 = xlo - hh := by omega
    simp only [t1]
    by_cases o : xlo - hh + 4294967295 * hl ≥ 18446744073709551616
    · simp only [o, if_true]
      have r1 : (xlo - hh + 4294967295 * hl) % 18446744073709551616 = xlo - hh + 4294967295 * hl - 18446744073709551616 := by omega
      have r2 : (xlo - hh + 4294967295 * hl - 18446744073709551616 + 4294967295) % 18446744073709551616 = xlo - hh + 4294967295 * hl - 18446744073709551616 + 4294967295 := by omega
      rw [r1, r2]
      exact ⟨1, 0, by omega, by omega, by omega⟩
    · simp only [o, if_false]
      have r1 : (xlo - hh + 4294967295 * hl) % 18446744073709551616 = xlo - hh + 4294967295 * hl := by omega
      simp only [Nat.add_zero, r1]
      exact ⟨0, 0, by omega, by omega, by omega⟩

theorem mod_reduce_spec (x : Nat) (hx : x < W * W) :
    mod_reduce x < W ∧ mod_reduce x % Pn = x % Pn := by
  have hd : x = x % W + W * ((x / W) % H + H * (x / W / H)) := by unfold W H; omega
  have := mod_reduce_lin (x % W) ((x / W) % H) (x / W / H) (Nat.mod_lt _ (by decide)) (Nat.mod_lt _ (by decide))
    (by unfold W H at *; omega)
  rw [← hd] at this
  obtain ⟨h1, a, b, _, _, h2⟩ := this
  refine ⟨h1, ?_⟩
  have hK : mod_reduce x + Pn * (a + x / W % H + (H + 1) * (x / W / H)) = x + Pn * b := by
    rw [Nat.mul_add, Nat.mul_add, ← Nat.add_assoc, ← Nat.add_assoc, Nat.mul_comm Pn a, ← Nat.mul_assoc,
      Nat.mul_comm Pn b]
    exact h2
  calc mod_reduce x % Pn = (mod_reduce x + Pn * (a + x / W % H + (H + 1) * (x / W / H))) % Pn :=
        (Nat.add_mul_mod_self_left _ _ _).symm
    _ = (x + Pn * b) % Pn := by rw [hK]
    _ = x % Pn := Nat.add_mul_mod_self_left _ _ _

theorem lm_bound (c : Prop) [Decidable c] : 4294967295 * (if c then 1 else 0) < 18446744073709551616 := by
  split <;> decide

theorem mod_reduce_ok_true (x : Nat) : mod_reduce_ok x = true := by
  unfold mod_reduce_ok
  simp only [Bool.and_eq_true, decide_eq_true_eq]
  refine ⟨lm_bound _, ?_, lm_bound _⟩
  omega

end TF.BF
