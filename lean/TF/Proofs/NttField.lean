import TF.Proofs.NttHom
import TF.Proofs.NttTable
import Mathlib.FieldTheory.Finite.Basic
/-!
The two instances the driver runs (`bOps` on canonical values, `xOps` on triples) versus the ring `ZMod P`:
`Nat.cast` is a homomorphism of operation records `bOps → ringOps (ZMod P)`, and each coordinate projection is a
homomorphism `xOps → bOps` (the transform of an extension-field vector is the transform of its three coordinate
vectors, because all twiddle factors lie in the base field).
-/
namespace TF.NttProofs
open TF.Gen TF.Model.Ntt TF.NttFn TF.Spec

noncomputable def zinv (a : ZMod P) : Option (ZMod P) := if a = 0 then none else some a⁻¹
noncomputable def zinv0 (a : ZMod P) : ZMod P := a⁻¹
/-- the operations of the field `ZMod P` -/
noncomputable abbrev zOps : Ops (ZMod P) (ZMod P) := ringOps (ZMod P) zinv zinv0

theorem cast_fadd (a b : Nat) : ((fadd a b : ℕ) : ZMod P) = (a : ZMod P) + b := by
  simp [fadd, ZMod.natCast_mod]
theorem cast_fmul (a b : Nat) : ((fmul a b : ℕ) : ZMod P) = (a : ZMod P) * b := by
  simp [fmul, ZMod.natCast_mod]
theorem cast_fsub (a b : Nat) : ((fsub a b : ℕ) : ZMod P) = (a : ZMod P) - b := by
  have hb : b % P ≤ a + P := by have := Nat.mod_lt b P_pos; omega
  simp [fsub, ZMod.natCast_mod, Nat.cast_sub hb]

theorem cast_fpow (a : Nat) : ∀ e, ((fpow a e : ℕ) : ZMod P) = (a : ZMod P)^e := by
  intro e
  induction e using Nat.strong_induction_on with
  | _ e ih =>
    rcases e with _ | e
    · simp [fpow, ZMod.natCast_mod]
    · rw [fpow]
      have hlt : (e+1)/2 < e+1 := by omega
      have hh := ih _ hlt
      have hsplit : (a : ZMod P)^(e+1) = ((a : ZMod P)^((e+1)/2))^2 * (a : ZMod P)^((e+1)%2) := by
        rw [← pow_mul, ← pow_add]; congr 1; omega
      split
      · rename_i hodd
        rw [cast_fmul, cast_fmul, hh, hsplit, hodd]; ring
      · rename_i hev
        have : (e+1) % 2 = 0 := by omega
        rw [cast_fmul, hh, hsplit, this]; ring

theorem cast_eq_zero_iff (a : Nat) : ((a : ℕ) : ZMod P) = 0 ↔ a % P = 0 := by
  rw [ZMod.natCast_eq_zero_iff, Nat.dvd_iff_mod_eq_zero]

theorem cast_finv (a : Nat) (ha : a % P ≠ 0) : ((finv a : ℕ) : ZMod P) = (a : ZMod P)⁻¹ := by
  have hne : (a : ZMod P) ≠ 0 := fun h => ha ((cast_eq_zero_iff a).1 h)
  have h1 : (a : ZMod P)^(P - 1) = 1 := ZMod.pow_card_sub_one_eq_one hne
  rw [finv, cast_fpow]
  apply eq_inv_of_mul_eq_one_left
  rw [← pow_succ]
  have : P - 2 + 1 = P - 1 := by have := two_lt_P; omega
  rw [this, h1]

/-- `Nat.cast` commutes with every operation of the base-field instance -/
theorem castHom : OpsHom bOps zOps (fun n : Nat => (n : ZMod P)) (fun n : Nat => (n : ZMod P)) where
  szero := by simp [bOps, ringOps]
  sone := by simp [bOps, ringOps]
  smul := fun a b => by simp [bOps, ringOps, cast_fmul]
  spow := fun a e => by simp [bOps, ringOps, cast_fpow]
  sinv := fun a => by
    simp only [bOps, ringOps, bInv, zinv, beq_iff_eq]
    by_cases h : a % P = 0
    · rw [if_pos h, if_pos ((cast_eq_zero_iff a).2 h)]; rfl
    · rw [if_neg h, if_neg (fun h' => h ((cast_eq_zero_iff a).1 h'))]
      simp [cast_finv a h]
  sinv0 := fun a => by
    simp only [bOps, ringOps, bInv0, zinv0, beq_iff_eq]
    by_cases h : a % P = 0
    · rw [if_pos h, (cast_eq_zero_iff a).2 h]; simp
    · rw [if_neg h, cast_finv a h]
  sofNat := fun n => by simp [bOps, ringOps, ZMod.natCast_mod]
  zero := by simp [bOps, ringOps]
  add := fun a b => by simp [bOps, ringOps, cast_fadd]
  sub := fun a b => by simp [bOps, ringOps, cast_fsub]
  scale := fun c a => by simp [bOps, ringOps, cast_fmul]

/-- coordinate `k` of an extension-field element -/
def coord (k : Nat) (a : X3) : Nat := if k = 0 then a.1 else if k = 1 then a.2.1 else a.2.2

/-- every coordinate projection commutes with the operations of the extension-field instance -/
theorem coordHom (k : Nat) : OpsHom xOps bOps id (coord k) where
  szero := rfl
  sone := rfl
  smul := fun _ _ => rfl
  spow := fun _ _ => rfl
  sinv := fun a => by simp [xOps, bOps]
  sinv0 := fun _ => rfl
  sofNat := fun _ => rfl
  zero := by simp [xOps, bOps, coord, xzero]
  add := fun a b => by simp only [xOps, bOps, coord, xadd]; split <;> [rfl; (split <;> rfl)]
  sub := fun a b => by simp only [xOps, bOps, coord, xsub]; split <;> [rfl; (split <;> rfl)]
  scale := fun c a => by simp only [xOps, bOps, coord, xscale, id]; split <;> [rfl; (split <;> rfl)]

end TF.NttProofs
