import TF.Model.Merkle
import TF.Spec.Merkle
/-! helper lemmas for C04 / C10 (Merkle trees over an abstract hash) -/
namespace TF.Merkle
open TF.Gen

/-! ### the `Res` monad -/
section ResLemmas
variable {α β : Type}
@[simp] theorem Res.ok_bind (a : α) (f : α → Res β) : (Res.ok a >>= f) = f a := rfl
@[simp] theorem Res.err_bind (e : Err) (f : α → Res β) : ((Res.err e : Res α) >>= f) = Res.err e := rfl
@[simp] theorem Res.panic_bind (f : α → Res β) : ((Res.panic : Res α) >>= f) = Res.panic := rfl
@[simp] theorem Res.pure_eq (a : α) : (pure a : Res α) = Res.ok a := rfl

theorem Res.mapM_ok {f : α → Res β} {g : α → β} :
    ∀ (l : List α), (∀ a ∈ l, f a = .ok (g a)) → Res.mapM f l = .ok (l.map g)
  | [], _ => rfl
  | a :: as, h => by
    have h1 := h a (List.mem_cons_self ..)
    have h2 := Res.mapM_ok as (fun x hx => h x (List.mem_cons_of_mem _ hx))
    simp [Res.mapM, h1, h2]

theorem Res.mapM_err {f : α → Res β} {e : Err} :
    ∀ (l : List α), (∀ a ∈ l, f a = .err e ∨ ∃ b, f a = .ok b) → (∃ a ∈ l, f a = .err e) → Res.mapM f l = .err e
  | [], _, ⟨_, h, _⟩ => by cases h
  | a :: as, h, ⟨x, hx, hfx⟩ => by
    rcases h a (List.mem_cons_self ..) with h1 | ⟨b, h1⟩
    · simp [Res.mapM, h1]
    · have hx' : x ∈ as := by
        rcases List.mem_cons.1 hx with rfl | hx'
        · rw [h1] at hfx; cases hfx
        · exact hx'
      have h2 := Res.mapM_err as (fun y hy => h y (List.mem_cons_of_mem _ hy)) ⟨x, hx', hfx⟩
      simp [Res.mapM, h1, h2]
end ResLemmas

/-! ### A.4 -/
section Core
variable {D : Type} (H : D → D → D)

theorem step_sib (f : Nat → D) (below k : Nat) :
    step H k (nodeVal H f below k) (nodeVal H f below (sib k)) = nodeVal H f (below+1) (k/2) := by
  unfold step sib
  by_cases h : k % 2 = 0
  · have e : k = 2 * (k/2) := by omega
    simp only [h, if_true, nodeVal]
    rw [← e]
  · have e : k = 2 * (k/2) + 1 := by omega
    have e' : k - 1 = 2 * (k/2) := by omega
    simp only [h, if_false, nodeVal]
    rw [e', ← e]

/-- completeness: folding a node up its own authentication path gives its ancestor -/
theorem foldPath_authPath (f : Nat → D) : ∀ (up below k : Nat),
    foldPath H k (nodeVal H f below k) (authPath H f below up k) = nodeVal H f (below+up) (k / 2^up)
  | 0, below, k => by simp [foldPath, authPath]
  | u+1, below, k => by
    simp only [authPath, foldPath, step_sib]
    rw [foldPath_authPath f u (below+1) (k/2)]
    rw [Nat.div_div_eq_div_mul, Nat.pow_succ, Nat.mul_comm 2]
    congr 1; omega

/-- soundness: if folding *any* value `v` along *any* path of length `up` from position `k` reproduces the true
    ancestor, then `v` is the true node value, or `H` has a collision. -/
theorem foldPath_sound (f : Nat → D) : ∀ (path : List D) (below k : Nat) (v : D),
    foldPath H k v path = nodeVal H f (below + path.length) (k / 2^path.length) →
    v = nodeVal H f below k ∨ Collision H
  | [], below, k, v, h => by simp [foldPath] at h; exact Or.inl h
  | s :: ss, below, k, v, h => by
    simp only [foldPath, List.length_cons] at h
    have h' : foldPath H (k/2) (step H k v s) ss = nodeVal H f ((below+1) + ss.length) ((k/2) / 2^ss.length) := by
      rw [h, Nat.div_div_eq_div_mul, Nat.pow_succ, Nat.mul_comm 2]
      congr 1; omega
    rcases foldPath_sound f ss (below+1) (k/2) _ h' with hv | hc
    · unfold step at hv
      simp only [nodeVal] at hv
      by_cases hk : k % 2 = 0
      · simp only [hk, if_true] at hv
        have e : 2 * (k/2) = k := by omega
        rw [e] at hv
        by_cases hEq : (v, s) = (nodeVal H f below k, nodeVal H f below (k+1))
        · exact Or.inl (Prod.mk.inj hEq).1
        · exact Or.inr ⟨_, _, _, _, hEq, hv⟩
      · simp only [hk, if_false] at hv
        have e : 2 * (k/2) + 1 = k := by omega
        rw [e] at hv
        by_cases hEq : (s, v) = (nodeVal H f below (2*(k/2)), nodeVal H f below k)
        · exact Or.inl (Prod.mk.inj hEq).2
        · exact Or.inr ⟨_, _, _, _, hEq, hv⟩
    · exact Or.inr hc
end Core

/-! ### words, siblings, paths -/

theorem xor_one_eq_sib (k : Nat) : k ^^^ 1 = sib k := by
  have h1 : (k ^^^ 1) / 2 = k / 2 := by
    rw [Nat.xor_div_two]; simp
  have h2 := @Nat.xor_mod_two_eq_one k 1
  unfold sib
  split <;> omega

theorem sib_sib (k : Nat) : sib (sib k) = k := by unfold sib; split <;> split <;> omega
theorem sib_div_two (k : Nat) : sib k / 2 = k / 2 := by unfold sib; split <;> omega
theorem sib_ne (k : Nat) : sib k ≠ k := by unfold sib; split <;> omega
theorem two_le_sib {k : Nat} : 2 ≤ sib k ↔ 2 ≤ k := by unfold sib; split <;> omega

theorem pathUp_eq : ∀ (h f k : Nat), 2^h ≤ k → k < 2^(h+1) → h ≤ f →
    pathUp f k = (List.range h).map (fun j => k / 2^j)
  | 0, f, k, h1, h2, _ => by
    have : k = 1 := by simp at h1 h2; omega
    subst this
    cases f <;> simp [pathUp, ROOT_INDEX]
  | h+1, 0, k, _, _, h3 => by omega
  | h+1, f+1, k, h1, h2, h3 => by
    have hk : k > ROOT_INDEX := by
      have h0 : 1 ≤ 2 ^ h := Nat.one_le_two_pow
      have : 2 ^ (h+1) = 2 * 2^h := by rw [Nat.pow_succ]; omega
      unfold ROOT_INDEX; omega
    have e1 : 2 ^ (h+1) = 2 * 2^h := by rw [Nat.pow_succ]; omega
    have e2 : 2 ^ (h+1+1) = 2 * 2^(h+1) := by rw [Nat.pow_succ]; omega
    have ih := pathUp_eq h f (k/2) (by omega) (by omega) (by omega)
    simp only [pathUp, hk, if_true, ih, List.range_succ_eq_map, List.map_cons, List.map_map]
    congr 1
    · simp
    · apply List.map_congr_left
      intro j _
      simp only [Function.comp, Nat.div_div_eq_div_mul, Nat.pow_succ, Nat.mul_comm]

theorem nodePath_eq (h k : Nat) (h1 : 2^h ≤ k) (h2 : k < 2^(h+1)) :
    nodePath k = (List.range h).map (fun j => k / 2^j) :=
  pathUp_eq h k k h1 h2 (by have := @Nat.lt_two_pow_self h; omega)

end TF.Merkle
