import Mathlib.Algebra.BigOperators.Group.Finset.Basic
import Mathlib.Algebra.BigOperators.Intervals
import Mathlib.Algebra.BigOperators.Ring.Finset
import Mathlib.Tactic.Ring
import Mathlib.Tactic.Linarith
/-!
NTT stage invariant and `ntt_eq_dft` for the functional stage model over any commutative ring
(DESIGN.md Appendix A.3, verbatim; only wrapped in a namespace).
-/
namespace TF.NttFn

open Finset

variable {R : Type} [CommRing R]

/-- bit reversal of the low `l` bits -/
def bitrev : Nat → Nat → Nat
  | 0, _ => 0
  | l+1, n => (n % 2) * 2^l + bitrev l (n / 2)

theorem bitrev_even (l b : Nat) : bitrev (l+1) (2*b) = bitrev l b := by
  simp [bitrev]
theorem bitrev_odd (l b : Nat) : bitrev (l+1) (2*b+1) = 2^l + bitrev l b := by
  have h1 : (2*b+1) % 2 = 1 := by omega
  have h2 : (2*b+1) / 2 = b := by omega
  simp [bitrev, h1, h2]

/-- one butterfly stage with half-block size `m` and twiddle `w` (functional form of the in-place loops) -/
def stage (m : Nat) (w : R) (x : Nat → R) : Nat → R := fun idx =>
  let j := idx % m
  let base := idx - idx % (2*m)
  if idx % (2*m) < m then x (base + j) + w^j * x (base + j + m)
  else x (base + j) - w^j * x (base + j + m)

/-- DFT of length `n` of the sequence `f` with root `z`, at index `j` -/
def dft (n : Nat) (z : R) (f : Nat → R) (j : Nat) : R := ∑ i ∈ range n, f i * z^(i*j)

theorem sum_range_even_odd (m : Nat) (g : Nat → R) :
    ∑ i ∈ range (2*m), g i = ∑ i ∈ range m, g (2*i) + ∑ i ∈ range m, g (2*i+1) := by
  induction m with
  | zero => simp
  | succ m ih =>
    rw [show 2*(m+1) = 2*m + 1 + 1 by ring, sum_range_succ, sum_range_succ, ih, sum_range_succ, sum_range_succ]
    ring

/-- Danielson–Lanczos: a DFT of size 2m from the DFTs of the even and odd subsequences. -/
theorem dft_split (m : Nat) (η : R) (hm : η^m = -1) (f : Nat → R) (j : Nat) (hj : j < m) :
    dft (2*m) η f j = dft m (η^2) (fun i => f (2*i)) j + η^j * dft m (η^2) (fun i => f (2*i+1)) j ∧
    dft (2*m) η f (j+m) = dft m (η^2) (fun i => f (2*i)) j - η^j * dft m (η^2) (fun i => f (2*i+1)) j := by
  have h2m : η^(2*m) = 1 := by rw [mul_comm, pow_mul, hm]; ring
  constructor
  · unfold dft
    rw [sum_range_even_odd, Finset.mul_sum]
    congr 1
    · apply sum_congr rfl; intro i _; rw [← pow_mul]; ring_nf
    · apply sum_congr rfl; intro i _; rw [← pow_mul]; ring_nf
  · unfold dft
    rw [sum_range_even_odd, Finset.mul_sum, sub_eq_add_neg, ← sum_neg_distrib]
    congr 1
    · apply sum_congr rfl; intro i _
      rw [← pow_mul]
      have : η^(2*i*(j+m)) = η^(2*i*j) * (η^(2*m))^i := by rw [← pow_mul, ← pow_add]; ring_nf
      rw [this, h2m]; ring_nf
    · apply sum_congr rfl; intro i _
      rw [← pow_mul]
      have : η^((2*i+1)*(j+m)) = η^(2*i*j) * η^j * (η^(2*m))^i * η^m := by
        rw [← pow_mul, ← pow_add, ← pow_add, ← pow_add]; ring_nf
      rw [this, h2m, hm]; ring_nf

/-- `s` butterfly stages of the length-`2^L` transform (stage `t` has half-block `2^t`, twiddle `ω^(2^(L-t-1))`) -/
def nttStages (L : Nat) (ω : R) : Nat → (Nat → R) → (Nat → R)
  | 0, y => y
  | s+1, y => stage (2^s) (ω^(2^(L-s-1))) (nttStages L ω s y)

theorem stages_invariant (L : Nat) (ω : R) (hω : ω^(2^(L-1)) = -1) (x : Nat → R) :
    ∀ s, s ≤ L → ∀ b j, j < 2^s →
      nttStages L ω s (fun i => x (bitrev L i)) (b * 2^s + j)
        = dft (2^s) (ω^(2^(L-s))) (fun i => x (bitrev (L-s) b + i * 2^(L-s))) j := by
  intro s
  induction s with
  | zero =>
    intro _ b j hj
    have : j = 0 := by simpa using hj
    subst this
    simp [nttStages, dft]
  | succ s ih =>
    intro hs b' j' hj'
    have hsL : s ≤ L := by omega
    obtain ⟨d, hd⟩ : ∃ d, L - s = d + 1 := ⟨L - s - 1, by omega⟩
    have hd' : L - (s+1) = d := by omega
    have hd'' : L - s - 1 = d := by omega
    set m := 2^s with hm
    have hmpos : 0 < m := by positivity
    have h2m : 2^(s+1) = 2*m := by rw [pow_succ]; ring
    set η := ω^(2^d) with hη
    have hηm : η^m = -1 := by
      rw [hη, hm, ← pow_mul, ← pow_add]
      have : d + s = L - 1 := by omega
      rw [this]; exact hω
    have hη2 : η^2 = ω^(2^(L-s)) := by rw [hη, ← pow_mul, hd, pow_succ]
    -- split j'
    simp only [nttStages, hd'', hd']
    rw [h2m] at hj' ⊢
    unfold stage
    simp only [← hm]
    have hmod : (b' * (2*m) + j') % (2*m) = j' := by
      rw [Nat.add_comm, Nat.add_mul_mod_self_right, Nat.mod_eq_of_lt hj']
    simp only [hmod]
    have hbase : b' * (2*m) + j' - j' = b' * (2*m) := by omega
    rw [hbase]
    by_cases hlt : j' < m
    · have hjm : (b' * (2*m) + j') % m = j' := by
        rw [show b' * (2*m) + j' = j' + (b'*2) * m by ring, Nat.add_mul_mod_self_right, Nat.mod_eq_of_lt hlt]
      simp only [hlt, if_true, hjm]
      have e1 := ih hsL (2*b') j' hlt
      have e2 := ih hsL (2*b'+1) j' hlt
      rw [show b' * (2*m) + j' = (2*b') * 2^s + j' by rw [← hm]; ring, e1,
          show (2*b') * 2^s + j' + m = (2*b'+1) * 2^s + j' by rw [← hm]; ring, e2]
      rw [hd, bitrev_even, bitrev_odd]
      have := (dft_split m η hηm (fun i => x (bitrev d b' + i * 2^d)) j' hlt).1
      rw [this, hη2, hd]
      congr 2
      · funext i; congr 1; rw [pow_succ]; ring
      · congr 1; funext i; congr 1; rw [pow_succ]; ring
    · have hge : m ≤ j' := by omega
      obtain ⟨j, rfl⟩ : ∃ j, j' = j + m := ⟨j' - m, by omega⟩
      have hj : j < m := by omega
      have hjm : (b' * (2*m) + (j + m)) % m = j := by
        rw [show b' * (2*m) + (j + m) = j + (b'*2 + 1) * m by ring, Nat.add_mul_mod_self_right, Nat.mod_eq_of_lt hj]
      simp only [hlt, if_false, hjm]
      have e1 := ih hsL (2*b') j hj
      have e2 := ih hsL (2*b'+1) j hj
      rw [show b' * (2*m) + j = (2*b') * 2^s + j by rw [← hm]; ring, e1,
          show (2*b') * 2^s + j + m = (2*b'+1) * 2^s + j by rw [← hm]; ring, e2]
      rw [hd, bitrev_even, bitrev_odd]
      have := (dft_split m η hηm (fun i => x (bitrev d b' + i * 2^d)) j hj).2
      rw [this, hη2, hd]
      congr 2
      · funext i; congr 1; rw [pow_succ]; ring
      · congr 1; funext i; congr 1; rw [pow_succ]; ring

/-- The transform computes the DFT. -/
theorem ntt_eq_dft (L : Nat) (ω : R) (hω : ω^(2^(L-1)) = -1) (x : Nat → R) (j : Nat) (hj : j < 2^L) :
    nttStages L ω L (fun i => x (bitrev L i)) j = dft (2^L) ω x j := by
  have := stages_invariant L ω hω x L (le_refl L) 0 j hj
  simp [bitrev] at this
  rw [this]

end TF.NttFn
