import TF.Proofs.NttField
/-!
The theorems about the instances the driver runs: `ntt bOps primitiveRoot` etc. on arrays of canonical values,
read in `ZMod P` through `Nat.cast`; and the coordinatewise reduction of the extension-field instance.
-/
namespace TF.NttProofs
open TF.Gen TF.Model.Ntt TF.NttFn TF.Spec

/-- the root table read in `ZMod P` -/
noncomputable def zRoot (n : Nat) : Option (ZMod P) := (primitiveRoot n).map (fun r : Nat => (r : ZMod P))

/-- a vector of naturals read in `ZMod P` -/
noncomputable def zvec (x : Array Nat) : Nat → ZMod P := fun j => ((x.getD j 0 : ℕ) : ZMod P)

theorem toFn_map_cast (x : Array Nat) : toFn (x.map (fun n : Nat => (n : ZMod P))) = zvec x := by
  funext i
  have := getD_map (fun n : Nat => (n : ZMod P)) x i 0
  simp only [Nat.cast_zero] at this
  simp [toFn, zvec, this]

theorem root_zmod (L : Nat) (hL : L ≤ 32) :
    ∃ r, primitiveRoot (2^L) = some r ∧ 0 < r ∧ r < P ∧ (0 < L → ((r : ℕ) : ZMod P)^(2^(L-1)) = -1) := by
  obtain ⟨r, hr, h0, hlt, hp⟩ := primitiveRoot_pow2 L hL
  refine ⟨r, hr, h0, hlt, ?_⟩
  intro hpos
  rw [if_neg (by omega)] at hp
  exact cast_pow_eq_neg_one r _ hp

theorem cast_ne_zero_of_lt (r : Nat) (h0 : 0 < r) (hlt : r < P) : ((r : ℕ) : ZMod P) ≠ 0 := by
  intro h
  have := (cast_eq_zero_iff r).1 h
  rw [Nat.mod_eq_of_lt hlt] at this
  omega

theorem two_pow_lt_P (L : Nat) (hL : L ≤ 32) : 2^L < P := by
  have := Nat.pow_le_pow_right (by norm_num : 0 < 2) hL
  have : (2:ℕ)^32 < P := by decide
  omega

/-- `ntt` on canonical values is the DFT in `ZMod P` with the tabulated root -/
theorem ntt_b_eq_dft (L : Nat) (hL : L ≤ 31) (x : Array Nat) (hx : x.size = 2^L) :
    ∃ r y, primitiveRoot (2^L) = some r ∧ ntt bOps primitiveRoot x = some y ∧ y.size = 2^L ∧
      ∀ i, i < 2^L → zvec y i = dft (2^L) ((r : ℕ) : ZMod P) (zvec x) i := by
  obtain ⟨r, hr, _, _, hω⟩ := root_zmod L (by omega)
  have hm := ntt_map castHom primitiveRoot x
  obtain ⟨y', hy', hys, hyi⟩ := ntt_eq_dft_model zinv zinv0 zRoot L hL (r : ZMod P) (by simp [zRoot, hr]) hω
    (x.map (fun n : Nat => (n : ZMod P))) (by simpa using hx)
  change _ = ntt zOps zRoot _ at hm
  rw [hy'] at hm
  obtain ⟨y, hy, hyy⟩ := Option.map_eq_some_iff.1 hm
  refine ⟨r, y, hr, hy, ?_, ?_⟩
  · rw [← hyy] at hys; simpa using hys
  · intro i hi
    have := hyi i hi
    rw [← hyy, toFn_map_cast, toFn_map_cast] at this
    exact this

/-- `intt` on canonical values is the inverse DFT in `ZMod P`, scaled by `n⁻¹` -/
theorem intt_b_eq_dft (L : Nat) (hL : L ≤ 31) (x : Array Nat) (hx : x.size = 2^L) :
    ∃ r y, primitiveRoot (2^L) = some r ∧ intt bOps primitiveRoot x = some y ∧ y.size = 2^L ∧
      ∀ i, i < 2^L → zvec y i = ((2^L : ℕ) : ZMod P)⁻¹ * dft (2^L) (((r : ℕ) : ZMod P)⁻¹) (zvec x) i := by
  obtain ⟨r, hr, h0, hlt, hω⟩ := root_zmod L (by omega)
  have hne := cast_ne_zero_of_lt r h0 hlt
  have hm := intt_map castHom primitiveRoot x
  obtain ⟨y', hy', hys, hyi⟩ := intt_eq_dft_model zinv zinv0 zRoot L hL (r : ZMod P) ((r : ZMod P)⁻¹)
    (by simp [zRoot, hr]) (by simp [zinv, hne]) (inv_mul_cancel₀ hne) hω
    (x.map (fun n : Nat => (n : ZMod P))) (by simpa using hx)
  change _ = intt zOps zRoot _ at hm
  rw [hy'] at hm
  obtain ⟨y, hy, hyy⟩ := Option.map_eq_some_iff.1 hm
  refine ⟨r, y, hr, hy, ?_, ?_⟩
  · rw [← hyy] at hys; simpa using hys
  · intro i hi
    have := hyi i hi
    rw [← hyy, toFn_map_cast, toFn_map_cast] at this
    exact this

theorem two_pow_cast_ne_zero (L : Nat) (hL : L ≤ 32) : ((2^L : ℕ) : ZMod P) ≠ 0 :=
  cast_ne_zero_of_lt (2^L) (by positivity) (two_pow_lt_P L hL)

theorem map_cast_eq_iff (a b : Array Nat) :
    a.map (fun n : Nat => (n : ZMod P)) = b.map (fun n : Nat => (n : ZMod P)) ↔
      a.size = b.size ∧ ∀ i, zvec a i = zvec b i := by
  constructor
  · intro h
    have hs : a.size = b.size := by simpa using congrArg Array.size h
    refine ⟨hs, fun i => ?_⟩
    rw [← toFn_map_cast, ← toFn_map_cast, h]
  · rintro ⟨hs, h⟩
    apply Array.ext (by simpa using hs)
    intro i h1 h2
    have := h i
    simp only [Array.size_map] at h1 h2
    simpa [zvec, Array.getD_eq_getD_getElem?, h1, h2] using this

/-- `intt (ntt x) = x` in `ZMod P` (so on canonical values: `= x`) -/
theorem intt_ntt_b (L : Nat) (hL : L ≤ 31) (x : Array Nat) (hx : x.size = 2^L) :
    ∃ y z, ntt bOps primitiveRoot x = some y ∧ intt bOps primitiveRoot y = some z ∧ z.size = x.size ∧
      ∀ i, zvec z i = zvec x i := by
  obtain ⟨r, hr, h0, hlt, hω⟩ := root_zmod L (by omega)
  have hne := cast_ne_zero_of_lt r h0 hlt
  obtain ⟨y', hy', hz'⟩ := intt_ntt_model zinv zinv0 zRoot L hL (r : ZMod P) ((r : ZMod P)⁻¹)
    (by simp [zRoot, hr]) (by simp [zinv, hne]) (inv_mul_cancel₀ hne)
    (by simp only [zinv0]; exact inv_mul_cancel₀ (two_pow_cast_ne_zero L (by omega))) hω
    (x.map (fun n : Nat => (n : ZMod P))) (by simpa using hx)
  have hm := ntt_map castHom primitiveRoot x
  change _ = ntt zOps zRoot _ at hm
  rw [hy'] at hm
  obtain ⟨y, hy, hyy⟩ := Option.map_eq_some_iff.1 hm
  have hm2 := intt_map castHom primitiveRoot y
  change _ = intt zOps zRoot _ at hm2
  rw [hyy, hz'] at hm2
  obtain ⟨z, hz, hzz⟩ := Option.map_eq_some_iff.1 hm2
  have := (map_cast_eq_iff z x).1 hzz
  exact ⟨y, z, hy, hz, this.1, this.2⟩

/-- `ntt (intt x) = x` in `ZMod P` -/
theorem ntt_intt_b (L : Nat) (hL : L ≤ 31) (x : Array Nat) (hx : x.size = 2^L) :
    ∃ y z, intt bOps primitiveRoot x = some y ∧ ntt bOps primitiveRoot y = some z ∧ z.size = x.size ∧
      ∀ i, zvec z i = zvec x i := by
  obtain ⟨r, hr, h0, hlt, hω⟩ := root_zmod L (by omega)
  have hne := cast_ne_zero_of_lt r h0 hlt
  obtain ⟨y', hy', hz'⟩ := ntt_intt_model zinv zinv0 zRoot L hL (r : ZMod P) ((r : ZMod P)⁻¹)
    (by simp [zRoot, hr]) (by simp [zinv, hne]) (inv_mul_cancel₀ hne)
    (by simp only [zinv0]; exact inv_mul_cancel₀ (two_pow_cast_ne_zero L (by omega))) hω
    (x.map (fun n : Nat => (n : ZMod P))) (by simpa using hx)
  have hm := intt_map castHom primitiveRoot x
  change _ = intt zOps zRoot _ at hm
  rw [hy'] at hm
  obtain ⟨y, hy, hyy⟩ := Option.map_eq_some_iff.1 hm
  have hm2 := ntt_map castHom primitiveRoot y
  change _ = ntt zOps zRoot _ at hm2
  rw [hyy, hz'] at hm2
  obtain ⟨z, hz, hzz⟩ := Option.map_eq_some_iff.1 hm2
  have := (map_cast_eq_iff z x).1 hzz
  exact ⟨y, z, hy, hz, this.1, this.2⟩

/-- `ntt_noswap` on canonical values: the DFT in bit-reversed order -/
theorem nttNoswap_b_eq_dft (L : Nat) (hL : L ≤ 32) (x : Array Nat) (hx : x.size = 2^L) :
    ∃ r y, primitiveRoot (2^L) = some r ∧ nttNoswap bOps primitiveRoot x = some y ∧ y.size = 2^L ∧
      ∀ i, i < 2^L → zvec y i = dft (2^L) ((r : ℕ) : ZMod P) (zvec x) (bitrev L i) := by
  obtain ⟨r, hr, _, _, hω⟩ := root_zmod L hL
  have hm := nttNoswap_map castHom primitiveRoot x
  obtain ⟨y', hy', hys, hyi⟩ := nttNoswap_eq_dft zinv zinv0 zRoot L (r : ZMod P) (by simp [zRoot, hr]) hω
    (x.map (fun n : Nat => (n : ZMod P))) (by simpa using hx)
  change _ = nttNoswap zOps zRoot _ at hm
  rw [hy'] at hm
  obtain ⟨y, hy, hyy⟩ := Option.map_eq_some_iff.1 hm
  refine ⟨r, y, hr, hy, ?_, ?_⟩
  · rw [← hyy] at hys; simpa using hys
  · intro i hi
    have := hyi i hi
    rw [← hyy, toFn_map_cast, toFn_map_cast] at this
    exact this

/-- `intt_noswap (ntt_noswap x) = n·x` on canonical values, read in `ZMod P` -/
theorem inttNoswap_nttNoswap_b (L : Nat) (hL : L ≤ 32) (x : Array Nat) (hx : x.size = 2^L) :
    ∃ y z, nttNoswap bOps primitiveRoot x = some y ∧ inttNoswap bOps primitiveRoot y = some z ∧ z.size = 2^L ∧
      ∀ i, i < 2^L → zvec z i = ((2^L : ℕ) : ZMod P) * zvec x i := by
  obtain ⟨r, hr, h0, hlt, hω⟩ := root_zmod L hL
  have hne := cast_ne_zero_of_lt r h0 hlt
  obtain ⟨y', z', hy', hz', hzs, hzi⟩ := inttNoswap_nttNoswap_model zinv zinv0 zRoot L (r : ZMod P) ((r : ZMod P)⁻¹)
    (by simp [zRoot, hr]) (by simp [zinv, hne]) (inv_mul_cancel₀ hne) hω
    (x.map (fun n : Nat => (n : ZMod P))) (by simpa using hx)
  have hm := nttNoswap_map castHom primitiveRoot x
  change _ = nttNoswap zOps zRoot _ at hm
  rw [hy'] at hm
  obtain ⟨y, hy, hyy⟩ := Option.map_eq_some_iff.1 hm
  have hm2 := inttNoswap_map castHom primitiveRoot y
  change _ = inttNoswap zOps zRoot _ at hm2
  rw [hyy, hz'] at hm2
  obtain ⟨z, hz, hzz⟩ := Option.map_eq_some_iff.1 hm2
  refine ⟨y, z, hy, hz, ?_, ?_⟩
  · rw [← hzz] at hzs; simpa using hzs
  · intro i hi
    have := hzi i hi
    rw [← hzz, toFn_map_cast, toFn_map_cast] at this
    exact this

/-- `intt x = unscale (intt_noswap (bitreverse_order x))` on the base-field instance (equality of outcomes) -/
theorem intt_via_noswap_b (L : Nat) (hL : L ≤ 31) (x : Array Nat) (hx : x.size = 2^L) :
    ∃ b c, bitreverseOrder x = some b ∧ inttNoswap bOps primitiveRoot b = some c ∧
      intt bOps primitiveRoot x = unscale bOps c := by
  obtain ⟨r, hr, h0, hlt, _⟩ := root_zmod L (by omega)
  have hr' : r % P ≠ 0 := by rw [Nat.mod_eq_of_lt hlt]; omega
  have hn : (2^L % P) % P ≠ 0 := by
    rw [Nat.mod_mod, Nat.mod_eq_of_lt (two_pow_lt_P L (by omega))]; positivity
  exact intt_via_noswap bOps primitiveRoot L hL r (finv r) (finv (2^L % P)) hr
    (by simp [bOps, bInv, hr']) (by simp only [bOps, bInv, beq_iff_eq]; rw [if_neg hn])
    (by simp only [bOps, bInv0, beq_iff_eq]; rw [if_neg hn]) x hx

/-- the same for the extension-field instance -/
theorem intt_via_noswap_x (L : Nat) (hL : L ≤ 31) (x : Array X3) (hx : x.size = 2^L) :
    ∃ b c, bitreverseOrder x = some b ∧ inttNoswap xOps primitiveRoot b = some c ∧
      intt xOps primitiveRoot x = some (c.map (xscale (finv (2^L % P)))) := by
  obtain ⟨r, hr, h0, hlt, _⟩ := root_zmod L (by omega)
  have hr' : r % P ≠ 0 := by rw [Nat.mod_eq_of_lt hlt]; omega
  have hn : (2^L % P) % P ≠ 0 := by
    rw [Nat.mod_mod, Nat.mod_eq_of_lt (two_pow_lt_P L (by omega))]; positivity
  obtain ⟨b, c, hb, hc, hi⟩ := intt_via_noswap xOps primitiveRoot L hL r (finv r) (finv (2^L % P)) hr
    (by simp [xOps, bInv, hr']) (by simp only [xOps, bInv, beq_iff_eq]; rw [if_neg hn])
    (by simp only [xOps, bInv0, beq_iff_eq]; rw [if_neg hn]) x hx
  refine ⟨b, c, hb, hc, ?_⟩
  rw [hi]
  have hcs : c.size = 2^L := by
    have := inttNoswap_bitreverseOrder xOps primitiveRoot L r (finv r) hr (by simp [xOps, bInv, hr']) x hx
    obtain ⟨b', hb', hbs', _⟩ := this
    rw [hb] at hb'; cases hb'
    rw [inttNoswap_eq xOps primitiveRoot L r (finv r) hr (by simp [xOps, bInv, hr']) b hbs'] at hc
    cases hc
    rw [stagesLoop_size, hbs']
  simp only [unscale, hcs]
  have : xOps.sinv (xOps.sofNat (2^L)) = some (finv (2^L % P)) := by
    simp only [xOps, bInv, beq_iff_eq]; rw [if_neg hn]
  rw [this]; rfl

/-- the extension-field transforms act coordinatewise -/
theorem x_coordinatewise (k : Nat) (x : Array X3) :
    (ntt xOps primitiveRoot x).map (Array.map (coord k)) = ntt bOps primitiveRoot (x.map (coord k)) ∧
    (intt xOps primitiveRoot x).map (Array.map (coord k)) = intt bOps primitiveRoot (x.map (coord k)) ∧
    (nttNoswap xOps primitiveRoot x).map (Array.map (coord k)) = nttNoswap bOps primitiveRoot (x.map (coord k)) ∧
    (inttNoswap xOps primitiveRoot x).map (Array.map (coord k)) = inttNoswap bOps primitiveRoot (x.map (coord k)) := by
  have h1 := ntt_map (coordHom k) primitiveRoot x
  have h2 := intt_map (coordHom k) primitiveRoot x
  have h3 := nttNoswap_map (coordHom k) primitiveRoot x
  have h4 := inttNoswap_map (coordHom k) primitiveRoot x
  simp only [Option.map_id_fun, id_eq] at h1 h2 h3 h4
  exact ⟨h1, h2, h3, h4⟩

/-! ### canonicity of the outputs -/

/-- all entries canonical -/
def Canon (x : Array Nat) : Prop := ∀ i (h : i < x.size), x[i] < P

theorem stage_canon (m : Nat) (tw : Array Nat) (x : Array Nat) : Canon (TF.Model.Ntt.stage bOps m tw x) := by
  intro i h
  simp only [TF.Model.Ntt.stage, Array.getElem_ofFn, bOps]
  split <;> exact Nat.mod_lt _ P_pos

theorem stagesLoop_canon (omega n : Nat) : ∀ f m (x : Array Nat), (0 < f ∨ Canon x) → Canon (stagesLoop bOps omega n f m x) := by
  intro f
  induction f with
  | zero => intro m x h; rcases h with h | h; · omega
            · exact h
  | succ f ih => intro m x _; rw [stagesLoop]; exact ih _ _ (Or.inr (stage_canon _ _ _))

theorem stageNoswap_canon (t : Nat) (z : Array Nat) (x : Array Nat) : Canon (stageNoswap bOps t z x) := by
  intro i h
  simp only [stageNoswap, Array.getElem_ofFn, bOps]
  split <;> exact Nat.mod_lt _ P_pos

theorem noswapLoop_canon (z : Array Nat) (n : Nat) : ∀ f m t (x : Array Nat), Canon x → Canon (noswapLoop bOps z n f m t x) := by
  intro f
  induction f with
  | zero => intro m t x h; exact h
  | succ f ih =>
    intro m t x h
    rw [noswapLoop]
    split
    · exact ih _ _ _ (stageNoswap_canon _ _ _)
    · exact h

theorem swapLoop_canon (log : Nat) : ∀ fuel k (a b : Array Nat), Canon a → swapLoop log fuel k a = some b → Canon b := by
  intro fuel
  induction fuel with
  | zero => intro k a b h hb; simp only [swapLoop, Option.some.injEq] at hb; subst hb; exact h
  | succ f ih =>
    intro k a b h hb
    rw [swapLoop] at hb
    split at hb
    · split at hb
      · rename_i hlt hbound
        refine ih _ _ _ ?_ hb
        intro i hi
        rw [Array.getElem_swap]
        split
        · exact h _ _
        · split <;> exact h _ _
      · cases hb
    · exact ih _ _ _ h hb

theorem ntt_some_form {σ α : Type} (ops : Ops σ α) (root : Nat → Option σ) (x y : Array α)
    (h : ntt ops root x = some y) : ∃ ω log, nttUnchecked ops x ω log = some y := by
  unfold ntt at h
  by_cases h1 : 2^32 ≤ x.size
  · rw [if_pos h1] at h; cases h
  · rw [if_neg h1] at h
    by_cases h2 : (!(x.size == 0 || TF.isPow2 x.size)) = true
    · rw [if_pos h2] at h; cases h
    · rw [if_neg h2] at h
      cases hr : root x.size with
      | none => simp only [hr] at h; cases h
      | some w => simp only [hr] at h; exact ⟨w, _, h⟩

theorem intt_some_form {σ α : Type} (ops : Ops σ α) (root : Nat → Option σ) (x y : Array α)
    (h : intt ops root x = some y) : ∃ (c : σ) (z : Array α), y = z.map (ops.scale c) := by
  unfold intt at h
  by_cases h1 : 2^32 ≤ x.size
  · rw [if_pos h1] at h; cases h
  · rw [if_neg h1] at h
    by_cases h2 : (!(x.size == 0 || TF.isPow2 x.size)) = true
    · rw [if_pos h2] at h; cases h
    · rw [if_neg h2] at h
      cases hr : root x.size with
      | none => simp only [hr] at h; cases h
      | some w =>
        simp only [hr] at h
        cases hi : ops.sinv w with
        | none => simp only [hi] at h; cases h
        | some wi =>
          simp only [hi] at h
          split at h
          · cases h
          · simp only [Option.some.injEq] at h
            exact ⟨_, _, h.symm⟩

/-- on canonical input every transform of the base-field instance returns canonical values -/
theorem transforms_canon (x : Array Nat) (hx : Canon x) :
    (∀ y, ntt bOps primitiveRoot x = some y → Canon y) ∧
    (∀ y, intt bOps primitiveRoot x = some y → Canon y) ∧
    (∀ y, nttNoswap bOps primitiveRoot x = some y → Canon y) ∧
    (∀ y, inttNoswap bOps primitiveRoot x = some y → Canon y) ∧
    (∀ y, bitreverseOrder x = some y → Canon y) ∧
    (∀ y, unscale bOps x = some y → Canon y) := by
  refine ⟨?_, ?_, ?_, ?_, ?_, ?_⟩
  · intro y hy
    obtain ⟨w, log, h⟩ := ntt_some_form _ _ _ _ hy
    simp only [nttUnchecked, Option.map_eq_some_iff] at h
    obtain ⟨b, hb, rfl⟩ := h
    exact stagesLoop_canon _ _ _ _ _ (Or.inr (swapLoop_canon _ _ _ _ _ hx hb))
  · intro y hy
    obtain ⟨c, z, rfl⟩ := intt_some_form _ _ _ _ hy
    intro i h
    simp only [Array.getElem_map, bOps]
    exact Nat.mod_lt _ P_pos
  · intro y hy
    unfold nttNoswap at hy
    cases hr : primitiveRoot x.size with
    | none => simp only [hr] at hy; cases hy
    | some w =>
      simp only [hr] at hy
      cases hz : powersBitrev bOps w x.size (ceilLog2 x.size) with
      | none => simp only [hz] at hy; cases hy
      | some z =>
        simp only [hz, Option.some.injEq] at hy
        subst hy
        exact noswapLoop_canon _ _ _ _ _ _ hx
  · intro y hy
    unfold inttNoswap at hy
    cases hr : primitiveRoot x.size with
    | none => simp only [hr] at hy; cases hy
    | some w =>
      simp only [hr] at hy
      cases hi : bOps.sinv w with
      | none => simp only [hi] at hy; cases hy
      | some wi =>
        simp only [hi, Option.some.injEq] at hy
        subst hy
        exact stagesLoop_canon _ _ _ _ _ (Or.inr hx)
  · intro y hy
    exact swapLoop_canon _ _ _ _ _ hx hy
  · intro y hy
    unfold unscale at hy
    cases hi : bOps.sinv (bOps.sofNat x.size) with
    | none => simp only [hi] at hy; cases hy
    | some c =>
      simp only [hi, Option.some.injEq] at hy
      subst hy
      intro i h
      simp only [Array.getElem_map, bOps]
      exact Nat.mod_lt _ P_pos

end TF.NttProofs
