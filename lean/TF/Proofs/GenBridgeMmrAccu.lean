import TF.Proofs.GenBridgeMmrProof
/-!
# Bridge: the `MmrAccumulator` methods *as regenerated from source* = the hand-written model (C11)

See `TF/Proofs/GenBridgeMmrProof.lean` for the conventions.  An accumulator is the pair `(leaf_count, peaks)` (the struct
item is checked by the translator), a `LeafMutation` the triple `(leaf_index, new_leaf, membership_proof)`.  The methods
call the regenerated peak calculations of `TF/Gen/MmrPeaksLoops.lean`, bridged in `TF/Proofs/GenBridgeMmrPeaks.lean`.
The glue lemmas are stated over variables (flag / value of the callee) so that nothing unfolds a fuel-indexed recursion.
-/
namespace TF.GenBridge.MmrAccu
open TF TF.Gen TF.Model.Mmr TF.Model.MmrAcc TF.GenBridge.MmrPeaks

variable {D : Type} [DecidableEq D] (H : D → D → D) (d0 : D)

/-- the regenerated pair as the hand model's structure -/
def toAcc (p : Nat × List D) : Acc D := { leaf_count := p.1, peaks := p.2 }
/-- the hand model's structure as the regenerated pair -/
def ofAcc (a : Acc D) : Nat × List D := (a.leaf_count, a.peaks)

/-! ### `append` -/

omit [DecidableEq D] in
theorem append_glue (n : Nat) (hn : n + 1 < 2 ^ 64) (cok : Bool) (c h : Option (List D × List D)) (hc : outcome cok c = h) :
    outcome (cok && c.elim true fun _ => decide (n + 1 < 18446744073709551616))
        (c.bind fun t => some (t.2, ((n + 1) % 18446744073709551616, t.1)))
      = h.map fun r => (r.2, (add64 n 1, r.1)) := by
  subst hc
  have hd : decide (n + 1 < 18446744073709551616) = true := by simp only [decide_eq_true_eq]; omega
  cases cok with
  | false => rfl
  | true =>
    cases c with
    | none => rfl
    | some t =>
      simp only [Bool.true_and, Option.elim_some, hd, outcome_true, Option.bind_some, Option.map_some, add64, W64]

omit [DecidableEq D] in
/-- **`MmrAccumulator::append`** regenerated from source = hand model (a panic is `none`): every `H`, every accumulator
    whose `u64` leaf count can be incremented (short peak lists panic on both sides); the result is
    `(membership proof, new accumulator)` -/
theorem gen_acc_append_eq (n : Nat) (ps : List D) (x : D) (hn : n + 1 < 2 ^ 64) :
    outcome (Loops.mmra_append_ok H d0 (n, ps) x) (Loops.mmra_append H d0 (n, ps) x)
      = (append H { leaf_count := n, peaks := ps } x).map fun r => (r.2, ofAcc r.1) := by
  unfold Loops.mmra_append Loops.mmra_append_ok append
  rw [Option.map_map]
  exact append_glue n hn _ _ _ (gen_append_eq H d0 n ps x hn)

/-! ### `mutate_leaf` -/

omit [DecidableEq D] in
theorem mutate_glue (n : Nat) (cok : Bool) (c h : Option (List D)) (hc : outcome cok c = h) :
    outcome cok (c.bind fun t => some (n, t)) = h.map fun ps => (n, ps) := by
  subst hc
  cases cok with
  | false => rfl
  | true => cases c <;> rfl

omit [DecidableEq D] in
/-- **`MmrAccumulator::mutate_leaf`** regenerated from source = hand model (a panic is `none`): every `H`, every
    accumulator with a `u64` leaf count, every mutation (out-of-range index, short path, short peak list panic on both
    sides) -/
theorem gen_acc_mutate_leaf_eq (n : Nat) (ps : List D) (i : Nat) (x : D) (ap : List D) (hn : n < 2 ^ 64)
    (hap : ap.length < 2 ^ 64) :
    outcome (Loops.mmra_mutate_leaf_ok H d0 (n, ps) (i, x, ap)) (Loops.mmra_mutate_leaf H d0 (n, ps) (i, x, ap))
      = (mutate_leaf H { leaf_count := n, peaks := ps } { leaf_index := i, new_leaf := x, auth := ap }).map ofAcc := by
  unfold Loops.mmra_mutate_leaf Loops.mmra_mutate_leaf_ok mutate_leaf
  rw [Option.map_map]
  exact mutate_glue n _ _ _ (gen_leaf_mutation_eq H d0 ps n x i ap hn hap)

/-! ### `new_from_leafs` -/

omit [DecidableEq D] in
theorem nfl_glue {β : Type} (aok : Bool) (a : Option (List D × (Nat × List D))) (h : Option (Acc D × List D))
    (hc : outcome aok a = h.map fun r => (r.2, ofAcc r.1))
    (G : Nat × List D → Option β) (Gok : Nat × List D → Bool) (V : Acc D → Option β)
    (hrec : ∀ r, h = some r → outcome (Gok (ofAcc r.1)) (G (ofAcc r.1)) = V r.1) :
    outcome (aok && a.elim true fun t => Gok t.2) (a.bind fun t => G t.2) = (h.map Prod.fst).bind V := by
  cases h with
  | none =>
    cases aok with
    | false => rfl
    | true =>
      rw [outcome_true, Option.map_none] at hc
      subst hc
      rfl
  | some r =>
    cases aok with
    | false => cases hc
    | true =>
      rw [outcome_true, Option.map_some] at hc
      subst hc
      exact hrec r rfl

omit [DecidableEq D] in
theorem append_count (a : Acc D) (x : D) (r : Acc D × List D) (h : append H a x = some r) :
    r.1.leaf_count = add64 a.leaf_count 1 := by
  unfold append at h
  cases hc : calculate_new_peaks_from_append H a.leaf_count a.peaks x with
  | none => rw [hc] at h; cases h
  | some t => rw [hc] at h; cases h; rfl

omit [DecidableEq D] in
/-- the regenerated `for digest in digests { mmra.append(digest); }` = the hand model's `foldlM`, from any accumulator,
    as long as the leaf count cannot overflow -/
theorem nfl_for_eq : ∀ (ds : List D) (n : Nat) (ps : List D), n + ds.length < 2 ^ 64 →
    outcome (Loops.mmra_new_from_leafs_for_ok H d0 ds (n, ps)) (Loops.mmra_new_from_leafs_for H d0 ds (n, ps))
      = (ds.foldlM (fun a d => (append H a d).map Prod.fst) { leaf_count := n, peaks := ps }).map ofAcc := by
  intro ds
  induction ds with
  | nil => intro n ps _; rfl
  | cons x ds ih =>
    intro n ps hn
    rw [Loops.mmra_new_from_leafs_for, Loops.mmra_new_from_leafs_for_ok, List.foldlM_cons]
    have hlen : n + 1 + ds.length < 2 ^ 64 := by simp only [List.length_cons] at hn; omega
    have ha := gen_acc_append_eq H d0 n ps x (by omega)
    refine (nfl_glue _ _ _ ha (fun t => Loops.mmra_new_from_leafs_for H d0 ds t)
      (fun t => Loops.mmra_new_from_leafs_for_ok H d0 ds t)
      (fun a => (ds.foldlM (fun a d => (append H a d).map Prod.fst) a).map ofAcc) ?_).trans ?_
    · intro r hr
      have hcnt := append_count H _ x r hr
      obtain ⟨⟨c, qs⟩, pf⟩ := r
      have hc : c = n + 1 := by
        have : c = add64 n 1 := hcnt
        rw [this]; unfold add64 W64; omega
      subst hc
      exact ih (n + 1) qs hlen
    · cases append H { leaf_count := n, peaks := ps } x <;> rfl

omit [DecidableEq D] in
/-- **`MmrAccumulator::new_from_leafs`** regenerated from source = hand model: every `H`, every list of fewer than 2^64
    digests -/
theorem gen_new_from_leafs_eq (ds : List D) (h : ds.length < 2 ^ 64) :
    outcome (Loops.mmra_new_from_leafs_ok H d0 ds) (Loops.mmra_new_from_leafs H d0 ds)
      = (new_from_leafs H ds).map ofAcc := by
  unfold Loops.mmra_new_from_leafs Loops.mmra_new_from_leafs_ok new_from_leafs
  dsimp only
  have := nfl_for_eq H d0 ds 0 [] (by omega)
  rw [← this]
  cases Loops.mmra_new_from_leafs_for_ok H d0 ds (0, []) with
  | false => rfl
  | true => cases Loops.mmra_new_from_leafs_for H d0 ds (0, []) <;> rfl

/-! ### accessors -/

omit [DecidableEq D] in
/-- `num_leafs`, `peaks`, `is_empty`, `bag_peaks` regenerated from source = the hand model's accessors, no check can fail -/
theorem gen_accessors_eq (hash0 : D) (n : Nat) (ps : List D) :
    Loops.mmra_num_leafs H d0 (n, ps) = Acc.num_leafs { leaf_count := n, peaks := ps } ∧
    Loops.mmra_peaks H d0 (n, ps) = ({ leaf_count := n, peaks := ps } : Acc D).peaks ∧
    Loops.mmra_is_empty H d0 (n, ps) = Acc.is_empty { leaf_count := n, peaks := ps } ∧
    Loops.mmra_bag_peaks H d0 hash0 (n, ps) = Acc.bag_peaks H hash0 { leaf_count := n, peaks := ps } ∧
    Loops.mmra_bag_peaks_ok H d0 hash0 (n, ps) = true :=
  ⟨rfl, rfl, rfl, (gen_bag_peaks_eq H d0 hash0 ps).1, (gen_bag_peaks_eq H d0 hash0 ps).2⟩

end TF.GenBridge.MmrAccu
