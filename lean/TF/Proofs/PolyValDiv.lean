import TF.Proofs.PolyVal
import TF.Proofs.PolyDiv
import TF.Proofs.PolyDivNtt
import TF.Proofs.PolyInterp
/-!
Value semantics (C17) of the operations whose models live in `TF/Model/PolyDiv.lean` / `TF/Model/PolyInterp.lean`:
two storages of the same polynomials give the same outcome — both panic, or both return storages of the same
polynomial(s).  Derived from the `…_spec` lemmas of C08/C09 (stated through `denote`) where those determine the
result, and by a direct congruence of the loop for `xgcd` (whose Bézout coefficients no certificate determines).
-/
open Polynomial

namespace TF.Proofs.PolyV
open TF TF.Model.Poly TF.Model.PolyD TF.Proofs.PolyD
variable {K : Type} [Field K] (root : Nat → Option K)
local notation "FK" => FieldOps.ofField K root

/-- both panic, or both return pairs of storages of the same two polynomials -/
def Rel2 (p q : Option (List K × List K)) : Prop :=
  match p, q with
  | none, none => True
  | some a, some b => denote a.1 = denote b.1 ∧ denote a.2 = denote b.2
  | _, _ => False

/-- both panic, or both return triples of storages of the same three polynomials -/
def Rel3 (p q : Option (List K × List K × List K)) : Prop :=
  match p, q with
  | none, none => True
  | some a, some b => denote a.1 = denote b.1 ∧ denote a.2.1 = denote b.2.1 ∧ denote a.2.2 = denote b.2.2
  | _, _ => False

theorem RelO_of_spec {o o' : Option (List K)} {P : K[X]} (h : ∃ r, o = some r ∧ denote r = P)
    (h' : ∃ r, o' = some r ∧ denote r = P) : RelO o o' := by
  obtain ⟨r, rfl, hr⟩ := h
  obtain ⟨r', rfl, hr'⟩ := h'
  simp [RelO, hr, hr']

theorem RelO_of_none {o o' : Option (List K)} (h : o = none) (h' : o' = none) : RelO o o' := by
  subst h; subst h'; simp [RelO]

theorem naiveDivide_congr {a a' d d' : List K} (ha : denote a = denote a') (hd : denote d = denote d') :
    Rel2 (naiveDivide FK a d) (naiveDivide FK a' d') := by
  by_cases hz : denote d = 0
  · rw [naiveDivide_zero root a d hz, naiveDivide_zero root a' d' (hd ▸ hz)]; trivial
  · obtain ⟨q, r, h1, h2, h3⟩ := naiveDivide_spec root a d hz
    obtain ⟨q', r', h1', h2', h3'⟩ := naiveDivide_spec root a' d' (hd ▸ hz)
    rw [h1, h1']
    have c := div_mod_of_certificate h2 h3
    have c' := div_mod_of_certificate h2' h3'
    exact ⟨by rw [c.1, c'.1, ha, hd], by rw [c.2, c'.2, ha, hd]⟩

theorem div_congr {a a' d d' : List K} (ha : denote a = denote a') (hd : denote d = denote d') :
    RelO (Model.PolyD.div FK a d) (Model.PolyD.div FK a' d') := by
  have h := naiveDivide_congr root ha hd
  unfold Model.PolyD.div
  revert h
  cases naiveDivide FK a d <;> cases naiveDivide FK a' d' <;> simp [Rel2, RelO]
  intro h _; exact h

theorem rem_congr {a a' d d' : List K} (ha : denote a = denote a') (hd : denote d = denote d') :
    RelO (Model.PolyD.rem FK a d) (Model.PolyD.rem FK a' d') := by
  have h := naiveDivide_congr root ha hd
  unfold Model.PolyD.rem
  revert h
  cases naiveDivide FK a d <;> cases naiveDivide FK a' d' <;> simp [Rel2, RelO]

theorem isZero_congr {a a' : List K} (h : denote a = denote a') : isZero FK a = isZero FK a' := by
  unfold isZero; rw [normalize_congr root h]

theorem degSucc_congr {a a' : List K} (h : denote a = denote a') : degSucc FK a = degSucc FK a' := by
  unfold degSucc; rw [normalize_congr root h]

/-- the Euclid loop on two storages of the same six polynomials -/
theorem xgcdLoop_congr (fuel : Nat) : ∀ {x x' y y' a0 a0' a1 a1' b0 b0' b1 b1' : List K},
    denote x = denote x' → denote y = denote y' → denote a0 = denote a0' → denote a1 = denote a1' →
    denote b0 = denote b0' → denote b1 = denote b1' →
    Rel3 (xgcdLoop FK fuel x y a0 a1 b0 b1) (xgcdLoop FK fuel x' y' a0' a1' b0' b1') := by
  induction fuel with
  | zero => intros; simp [xgcdLoop, Rel3]
  | succ fuel ih =>
    intro x x' y y' a0 a0' a1 a1' b0 b0' b1 b1' hx hy ha0 ha1 hb0 hb1
    simp only [xgcdLoop]
    rw [isZero_congr root hy]
    by_cases hz : isZero FK y' = true
    · simp only [hz, if_true]; exact ⟨hx, ha0, hb0⟩
    · simp only [hz, Bool.false_eq_true, if_false]
      have hdiv := naiveDivide_congr root hx hy
      revert hdiv
      cases h1 : naiveDivide FK x y with
      | none =>
        cases h2 : naiveDivide FK x' y' with
        | none => intro _; trivial
        | some v => intro h; exact absurd h (by simp [Rel2])
      | some v =>
        cases h2 : naiveDivide FK x' y' with
        | none => intro h; exact absurd h (by simp [Rel2])
        | some v' =>
          obtain ⟨q, r⟩ := v
          obtain ⟨q', r'⟩ := v'
          intro h
          obtain ⟨hq, hr⟩ := h
          simp only at hq hr
          exact ih hy hr ha1 (by rw [denote_sub, denote_sub, denote_mul, denote_mul, ha0, hq, ha1]) hb1
            (by rw [denote_sub, denote_sub, denote_mul, denote_mul, hb0, hq, hb1])

theorem xgcd_congr {x x' y y' : List K} (hx : denote x = denote x') (hy : denote y = denote y') :
    Rel3 (xgcd FK x y) (xgcd FK x' y') := by
  unfold xgcd
  rw [degSucc_congr root hy]
  have h := xgcdLoop_congr root (degSucc FK y' + 2) hx hy (rfl : denote [(FK).one] = denote [(FK).one])
    (rfl : denote ([] : List K) = denote []) (rfl : denote ([] : List K) = denote []) (rfl : denote [(FK).one] = denote [(FK).one])
  revert h
  cases xgcdLoop FK (degSucc FK y' + 2) x y [(FK).one] [] [] [(FK).one] with
  | none =>
    cases xgcdLoop FK (degSucc FK y' + 2) x' y' [(FK).one] [] [] [(FK).one] with
    | none => intro _; trivial
    | some v => intro h; exact absurd h (by simp [Rel3])
  | some v =>
    cases xgcdLoop FK (degSucc FK y' + 2) x' y' [(FK).one] [] [] [(FK).one] with
    | none => intro h; exact absurd h (by simp [Rel3])
    | some v' =>
      obtain ⟨g, a, b⟩ := v
      obtain ⟨g', a', b'⟩ := v'
      intro h
      obtain ⟨hg, ha, hb⟩ := h
      simp only at hg ha hb
      have hlc : leadingCoefficient FK g = leadingCoefficient FK g' := by
        unfold leadingCoefficient; rw [normalize_congr root hg]
      simp only [Rel3, hlc, denote_scalarMul, hg, ha, hb, and_self]

/-- `fast_reduce` panics on the zero modulus -/
theorem fastReduce_zero (N : NttOps K) (cutoff stage2 : Nat) (a m : List K) (hm : denote m = 0) :
    fastReduce FK N cutoff stage2 a m = none := by
  unfold fastReduce
  have hdeg := Model.Poly.degree_spec root m
  rw [if_pos hm] at hdeg
  have hds := degSucc_spec root m
  rw [if_pos hm] at hds
  rw [hdeg, if_neg (by decide)]
  have hge : ¬ Model.Poly.degree FK a < -1 := by
    rw [degree_eq_degSucc]; omega
  rw [if_neg hge]
  unfold shiftFactorNtt
  rw [hds]

theorem reduce_congr (N : NttOps K) (hN : NttConv N) (ms cutoff stage2 : Nat) {a a' m m' : List K}
    (ha : denote a = denote a') (hm : denote m = denote m') :
    RelO (reduce FK N ms cutoff stage2 a m) (reduce FK N ms cutoff stage2 a' m') := by
  by_cases hz : denote m = 0
  · exact RelO_of_none (reduce_zero root N ms cutoff stage2 a m hz) (reduce_zero root N ms cutoff stage2 a' m' (hm ▸ hz))
  · have h1 := reduce_spec root N ms cutoff stage2 a m hz (fun _ => fastReduce_spec root N hN cutoff stage2 a m hz)
    have h2 := reduce_spec root N ms cutoff stage2 a' m' (hm ▸ hz)
      (fun _ => fastReduce_spec root N hN cutoff stage2 a' m' (hm ▸ hz))
    rw [← ha, ← hm] at h2
    exact RelO_of_spec h1 h2

theorem fastReduce_congr (N : NttOps K) (hN : NttConv N) (cutoff stage2 : Nat) {a a' m m' : List K}
    (ha : denote a = denote a') (hm : denote m = denote m') :
    RelO (fastReduce FK N cutoff stage2 a m) (fastReduce FK N cutoff stage2 a' m') := by
  by_cases hz : denote m = 0
  · exact RelO_of_none (fastReduce_zero root N cutoff stage2 a m hz) (fastReduce_zero root N cutoff stage2 a' m' (hm ▸ hz))
  · have h1 := fastReduce_spec root N hN cutoff stage2 a m hz
    have h2 := fastReduce_spec root N hN cutoff stage2 a' m' (hm ▸ hz)
    rw [← ha, ← hm] at h2
    exact RelO_of_spec h1 h2

end TF.Proofs.PolyV
