import TF.Proofs.NttModel
import TF.Proofs.NttTable
/-!
# C06 — NTT is the discrete Fourier transform over the field; INTT is its inverse

Property theorems only (helper lemmas live in `TF/Proofs/Ntt*.lean`).

* `TF.Gen.PRIMITIVE_ROOTS` is **regenerated from `b_field_element.rs`** on every run; the table theorems are
  re-checked against what the source says now.
* `TF.Model.Ntt.*` is the hand-written executable model of `ntt.rs` (swap loop + one `Array.ofFn` pass per butterfly
  stage), generic over a record of ring operations `Ops σ α`; it is tied to the Rust code by the correspondence family
  `ntt` (base field and extension field).  `ringOps R inv inv0` instantiates it with the operations of an arbitrary
  commutative ring `R`.

Notation: `toFn x i` is `x[i]` (0 outside), `dft n ω f i = Σ_{j<n} f j · ω^(j·i)`.
-/
namespace TF.C06
open TF.Gen TF.Model.Ntt TF.NttFn TF.NttProofs

/-- Every entry `(n, r)` of the translated root table: `n = 0, r = 1`, or `n = 2^k` with `k ≤ 32`, `r` canonical,
    `r = 1` for `n = 1` and `r^(n/2) ≡ -1 (mod P)` for `n ≥ 2` (whole table decided by the kernel). -/
theorem primitive_roots_table (n r : Nat) (h : (n, r) ∈ PRIMITIVE_ROOTS) :
    (n = 0 ∧ r = 1) ∨ ∃ k, k ≤ 32 ∧ n = 2^k ∧ r < P ∧ (if k = 0 then r = 1 else r^(2^(k-1)) % P = P - 1) :=
  table_entries n r h
example : (4294967296, 1753635133440165772) ∈ PRIMITIVE_ROOTS := by decide

/-- Every tabulated root for `n ≥ 1` has multiplicative order exactly `n` in `ZMod P`. -/
theorem primitive_roots_order (n r : Nat) (h : (n, r) ∈ PRIMITIVE_ROOTS) (hn : 0 < n) :
    orderOf ((r : ℕ) : ZMod P) = n := by
  rcases table_entries n r h with ⟨h0, _⟩ | ⟨k, _, hk, _, hr⟩
  · omega
  · subst hk
    by_cases hk0 : k = 0
    · subst hk0; simp at hr; subst hr; simp
    · simp only [hk0, if_false] at hr
      exact orderOf_of_half_pow _ k (by omega) (cast_pow_eq_neg_one r _ hr)
example : (2, 18446744069414584320) ∈ PRIMITIVE_ROOTS ∧ 0 < 2 := by decide

/-- `primitive_root_of_unity(n)` is `Some` exactly for `n = 0` and the powers of two up to `2^32`,
    and what it returns is the table entry. -/
theorem primitive_root_defined (L : Nat) (hL : L ≤ 32) :
    ∃ r, primitiveRoot (2^L) = some r ∧ 0 < r ∧ r < P ∧ (if L = 0 then r = 1 else r^(2^(L-1)) % P = P - 1) :=
  primitiveRoot_pow2 L hL
theorem primitive_root_is_entry (n r : Nat) (h : primitiveRoot n = some r) : (n, r) ∈ PRIMITIVE_ROOTS :=
  primitiveRoot_mem n r h
example : primitiveRoot 8 = some 18446744069397807105 := by decide

/-- **NTT = DFT.**  For every `L`, every commutative ring `R`, every `ω` with `ω^(2^(L-1)) = -1` and every vector `x`
    of length `2^L`: `ntt_unchecked` (bit-reversal swap loop followed by `L` butterfly stages) does not panic and
    returns `y` with `y[i] = Σ_j x[j]·ω^(j·i)`. -/
theorem ntt_unchecked_eq_dft {R : Type} [CommRing R] (inv : R → Option R) (inv0 : R → R)
    (L : Nat) (ω : R) (hω : ω^(2^(L-1)) = -1) (x : Array R) (hx : x.size = 2^L) :
    ∃ y, nttUnchecked (ringOps R inv inv0) x ω L = some y ∧ y.size = 2^L ∧
      ∀ i, i < 2^L → toFn y i = dft (2^L) ω (toFn x) i :=
  nttUnchecked_eq_dft inv inv0 L ω hω x hx
example : ((-1 : ℤ))^(2^(1-1)) = -1 ∧ (#[3, 5] : Array ℤ).size = 2^1 := by decide

end TF.C06
