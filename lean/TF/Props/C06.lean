import TF.Proofs.NttFinal
import TF.Proofs.GenBridgeNtt3
/-!
# C06 — NTT is the discrete Fourier transform over the field; INTT is its inverse

Property theorems only (helper lemmas live in `TF/Proofs/Ntt*.lean`).

* `TF.Gen.PRIMITIVE_ROOTS` is **regenerated from `b_field_element.rs`** on every run; the table theorems are
  re-checked against what the source says now.
* `TF.Model.Ntt.*` is the hand-written executable model of `ntt.rs` (swap loop + one `Array.ofFn` pass per butterfly
  stage), generic over a record of ring operations `Ops σ α`; it is tied to the Rust code by the correspondence family
  `ntt` (base field and extension field).  Three instances occur:
  `ringOps R inv inv0` — the operations of an arbitrary commutative ring `R` (the general theorems);
  `bOps` — canonical values `< P` with the integer arithmetic of `TF/Spec/Field.lean` (what the driver runs for `b`);
  `xOps` — triples of canonical values (what the driver runs for `x`).
  `Nat.cast : bOps → ZMod P` and the coordinate projections `xOps → bOps` commute with all operations, so the general
  theorems transfer to the executable instances (`TF/Proofs/NttHom.lean`, `NttField.lean`).

Notation: `toFn x i` is `x[i]` (0 outside); `zvec x i` is `x[i]` read in `ZMod P`;
`dft n ω f i = Σ_{j<n} f j · ω^(j·i)`; `bitrev L i` reverses the low `L` bits of `i`; `none` is a panic.
-/
namespace TF.C06
open TF.Gen TF.Model.Ntt TF.NttFn TF.NttProofs TF.Spec

/-! ## the root table -/

/-- Every entry `(n, r)` of the translated root table: `n = 0, r = 1`, or `n = 2^k` with `k ≤ 32`, `r` canonical,
    `r = 1` for `n = 1` and `r^(n/2) ≡ -1 (mod P)` for `n ≥ 2` (whole table decided by the kernel). -/
theorem primitive_roots_table (n r : Nat) (h : (n, r) ∈ PRIMITIVE_ROOTS) :
    (n = 0 ∧ r = 1) ∨ ∃ k, k ≤ 32 ∧ n = 2^k ∧ r < P ∧ (if k = 0 then r = 1 else r^(2^(k-1)) % P = P - 1) :=
  table_entries n r h
example : (4294967296, 1753635133440165772) ∈ PRIMITIVE_ROOTS := by decide

/-- Every tabulated root for `n ≥ 1` has multiplicative order exactly `n` in `ZMod P`. -/
theorem primitive_roots_order (n r : Nat) (h : (n, r) ∈ PRIMITIVE_ROOTS) (hn : 0 < n) :
    orderOf ((r : ℕ) : ZMod P) = n := by
  rcases table_entries n r h with ⟨h0, _⟩ | ⟨k, _, hk, _, hr⟩
  · omega
  · subst hk
    by_cases hk0 : k = 0
    · subst hk0; simp at hr; subst hr; simp
    · simp only [hk0, if_false] at hr
      exact orderOf_of_half_pow _ k (by omega) (cast_pow_eq_neg_one r _ hr)
example : (2, 18446744069414584320) ∈ PRIMITIVE_ROOTS ∧ 0 < 2 := by decide

/-- `primitive_root_of_unity(2^L)` is `Some` for every `L ≤ 32` (and for 0), and only table entries are returned. -/
theorem primitive_root_defined (L : Nat) (hL : L ≤ 32) :
    ∃ r, primitiveRoot (2^L) = some r ∧ 0 < r ∧ r < P ∧ (if L = 0 then r = 1 else r^(2^(L-1)) % P = P - 1) :=
  primitiveRoot_pow2 L hL
theorem primitive_root_is_entry (n r : Nat) (h : primitiveRoot n = some r) : (n, r) ∈ PRIMITIVE_ROOTS :=
  primitiveRoot_mem n r h
example : primitiveRoot 8 = some 18446744069397807105 ∧ primitiveRoot 0 = some 1 ∧ primitiveRoot 3 = none := by decide

/-! ## the transforms over an arbitrary commutative ring -/

/-- **NTT = DFT.**  For every `L`, every commutative ring `R`, every `ω` with `ω^(2^(L-1)) = -1` (for `L ≥ 1`) and
    every vector `x` of length `2^L`: `ntt_unchecked` (bit-reversal swap loop followed by `L` butterfly stages) does
    not panic and returns `y` with `y[i] = Σ_j x[j]·ω^(j·i)`. -/
theorem ntt_unchecked_eq_dft {R : Type} [CommRing R] (inv : R → Option R) (inv0 : R → R)
    (L : Nat) (ω : R) (hω : 0 < L → ω^(2^(L-1)) = -1) (x : Array R) (hx : x.size = 2^L) :
    ∃ y, nttUnchecked (ringOps R inv inv0) x ω L = some y ∧ y.size = 2^L ∧
      ∀ i, i < 2^L → toFn y i = dft (2^L) ω (toFn x) i :=
  nttUnchecked_eq_dft inv inv0 L ω hω x hx
example : (0 < 1 → ((-1 : ℤ))^(2^(1-1)) = -1) ∧ (#[3, 5] : Array ℤ).size = 2^1 := by decide

/-- `ntt` with any root table: for a length `2^L`, `L ≤ 31`, it looks the root up and returns the DFT. -/
theorem ntt_eq_dft {R : Type} [CommRing R] (inv : R → Option R) (inv0 : R → R) (root : Nat → Option R)
    (L : Nat) (hL : L ≤ 31) (ω : R) (hr : root (2^L) = some ω) (hω : 0 < L → ω^(2^(L-1)) = -1)
    (x : Array R) (hx : x.size = 2^L) :
    ∃ y, ntt (ringOps R inv inv0) root x = some y ∧ y.size = 2^L ∧
      ∀ i, i < 2^L → toFn y i = dft (2^L) ω (toFn x) i :=
  ntt_eq_dft_model inv inv0 root L hL ω hr hω x hx
example : (2 : ℕ) ≤ 31 ∧ (0 < 2 → ((2 : ZMod 5))^(2^(2-1)) = -1) := by decide

/-- `intt` is the DFT with the inverse root, scaled by `inverse_or_zero(n)`. -/
theorem intt_eq_inverse_dft {R : Type} [CommRing R] (inv : R → Option R) (inv0 : R → R) (root : Nat → Option R)
    (L : Nat) (hL : L ≤ 31) (ω ωi : R) (hr : root (2^L) = some ω) (hi : inv ω = some ωi) (hinv : ωi * ω = 1)
    (hω : 0 < L → ω^(2^(L-1)) = -1) (x : Array R) (hx : x.size = 2^L) :
    ∃ y, intt (ringOps R inv inv0) root x = some y ∧ y.size = 2^L ∧
      ∀ i, i < 2^L → toFn y i = inv0 ((2^L : ℕ) : R) * dft (2^L) ωi (toFn x) i :=
  intt_eq_dft_model inv inv0 root L hL ω ωi hr hi hinv hω x hx
example : (3 : ZMod 5) * 2 = 1 := by decide

/-- **INTT inverts NTT** over every commutative ring in which `ω` and `n` are invertible (orthogonality of the powers
    of `ω` needs only `ω^(n/2) = -1`, no field or domain hypothesis). -/
theorem intt_ntt {R : Type} [CommRing R] (inv : R → Option R) (inv0 : R → R) (root : Nat → Option R)
    (L : Nat) (hL : L ≤ 31) (ω ωi : R) (hr : root (2^L) = some ω) (hi : inv ω = some ωi) (hinv : ωi * ω = 1)
    (hn : inv0 ((2^L : ℕ) : R) * ((2^L : ℕ) : R) = 1) (hω : 0 < L → ω^(2^(L-1)) = -1)
    (x : Array R) (hx : x.size = 2^L) :
    ∃ y, ntt (ringOps R inv inv0) root x = some y ∧ intt (ringOps R inv inv0) root y = some x :=
  intt_ntt_model inv inv0 root L hL ω ωi hr hi hinv hn hω x hx
example : (3 : ZMod 5) * 2 = 1 ∧ (4 : ZMod 5) * ((2^2 : ℕ) : ZMod 5) = 1 ∧ ((2 : ZMod 5))^(2^(2-1)) = -1 := by decide

/-- **NTT inverts INTT**, same generality. -/
theorem ntt_intt {R : Type} [CommRing R] (inv : R → Option R) (inv0 : R → R) (root : Nat → Option R)
    (L : Nat) (hL : L ≤ 31) (ω ωi : R) (hr : root (2^L) = some ω) (hi : inv ω = some ωi) (hinv : ωi * ω = 1)
    (hn : inv0 ((2^L : ℕ) : R) * ((2^L : ℕ) : R) = 1) (hω : 0 < L → ω^(2^(L-1)) = -1)
    (x : Array R) (hx : x.size = 2^L) :
    ∃ y, intt (ringOps R inv inv0) root x = some y ∧ ntt (ringOps R inv inv0) root y = some x :=
  ntt_intt_model inv inv0 root L hL ω ωi hr hi hinv hn hω x hx
example : (3 : ZMod 5) * 2 = 1 ∧ (4 : ZMod 5) * ((2^2 : ℕ) : ZMod 5) = 1 := by decide

/-- `ntt_noswap` returns the same DFT in bit-reversed order: `y[i] = DFT(x)[bitrev i]`. -/
theorem ntt_noswap_eq_dft_bitreversed {R : Type} [CommRing R] (inv : R → Option R) (inv0 : R → R)
    (root : Nat → Option R) (L : Nat) (ω : R) (hr : root (2^L) = some ω) (hω : 0 < L → ω^(2^(L-1)) = -1)
    (x : Array R) (hx : x.size = 2^L) :
    ∃ y, nttNoswap (ringOps R inv inv0) root x = some y ∧ y.size = 2^L ∧
      ∀ i, i < 2^L → toFn y i = dft (2^L) ω (toFn x) (bitrev L i) :=
  nttNoswap_eq_dft inv inv0 root L ω hr hω x hx
example : bitrev 3 1 = 4 ∧ bitrev 3 6 = 3 := by decide

/-- `intt_noswap ∘ ntt_noswap = n · id` (the documented scaling; `unscale` removes the factor). -/
theorem intt_noswap_ntt_noswap {R : Type} [CommRing R] (inv : R → Option R) (inv0 : R → R)
    (root : Nat → Option R) (L : Nat) (ω ωi : R) (hr : root (2^L) = some ω) (hi : inv ω = some ωi)
    (hinv : ωi * ω = 1) (hω : 0 < L → ω^(2^(L-1)) = -1) (x : Array R) (hx : x.size = 2^L) :
    ∃ y z, nttNoswap (ringOps R inv inv0) root x = some y ∧ inttNoswap (ringOps R inv inv0) root y = some z ∧
      z.size = 2^L ∧ ∀ i, i < 2^L → toFn z i = ((2^L : ℕ) : R) * toFn x i :=
  inttNoswap_nttNoswap_model inv inv0 root L ω ωi hr hi hinv hω x hx
example : (3 : ZMod 5) * 2 = 1 := by decide

/-- `bitreverse_order` on a length `2^L` is the bit-reversal permutation (which is an involution). -/
theorem bitreverse_order_spec {α : Type} (L : Nat) (x : Array α) (hx : x.size = 2^L) :
    (∃ b, bitreverseOrder x = some b ∧ b.size = 2^L ∧ ∀ i, i < 2^L → b[i]? = x[bitrev L i]?) ∧
    (∀ i, i < 2^L → bitrev L i < 2^L ∧ bitrev L (bitrev L i) = i) :=
  ⟨bitreverseOrder_spec L x hx, fun i hi => ⟨bitrev_lt L i, bitrev_involutive L i hi⟩⟩
example : bitreverseOrder #[10, 11, 12, 13] = some #[10, 12, 11, 13] := by decide

/-- For any operations: `intt x = unscale (intt_noswap (bitreverse_order x))`, provided `inverse` and
    `inverse_or_zero` agree on the length (they do whenever `n ≠ 0` in the field). -/
theorem intt_eq_unscale_intt_noswap_bitreverse {σ α : Type} (ops : Ops σ α) (root : Nat → Option σ)
    (L : Nat) (hL : L ≤ 31) (ω ωi ninv : σ) (hr : root (2^L) = some ω) (hi : ops.sinv ω = some ωi)
    (hn : ops.sinv (ops.sofNat (2^L)) = some ninv) (hn0 : ops.sinv0 (ops.sofNat (2^L)) = ninv)
    (x : Array α) (hx : x.size = 2^L) :
    ∃ b c, bitreverseOrder x = some b ∧ inttNoswap ops root b = some c ∧ intt ops root x = unscale ops c :=
  intt_via_noswap ops root L hL ω ωi ninv hr hi hn hn0 x hx
example : bOps.sinv (bOps.sofNat (2^1)) = some (finv 2) ∧ bOps.sinv0 (bOps.sofNat (2^1)) = finv 2 := by
  constructor <;> rfl

/-- `ntt` and `intt` panic on every length that is not 0 or a power of two `≤ 2^31` (any operations, any table). -/
theorem ntt_intt_reject_other_lengths {σ α : Type} (ops : Ops σ α) (root : Nat → Option σ) (x : Array α)
    (h : ¬ (x.size = 0 ∨ ∃ k, k ≤ 31 ∧ x.size = 2^k)) : ntt ops root x = none ∧ intt ops root x = none :=
  ntt_rejects ops root x h
example : ¬ ((#[1, 2, 3] : Array Nat).size = 0 ∨ ∃ k, k ≤ 31 ∧ (#[1, 2, 3] : Array Nat).size = 2^k) := by
  intro h
  rcases h with h | ⟨k, _, hk⟩
  · simp at h
  · have h3 : (3 : ℕ) = 2^k := by simpa using hk
    rcases k with _ | _ | k
    · omega
    · omega
    · rw [pow_succ, pow_succ] at h3; omega

/-- The empty vector: every transform returns it unchanged; `unscale` panics (inverse of zero). -/
theorem empty_vector :
    ntt bOps primitiveRoot #[] = some #[] ∧ intt bOps primitiveRoot #[] = some #[] ∧
    nttNoswap bOps primitiveRoot #[] = some #[] ∧ inttNoswap bOps primitiveRoot #[] = some #[] ∧
    bitreverseOrder (#[] : Array Nat) = some #[] ∧ unscale bOps #[] = none := by
  refine ⟨by decide +kernel, by decide +kernel, by decide +kernel, by decide +kernel, by decide +kernel, by decide +kernel⟩

/-! ## the instances the driver runs: base field (canonical values) and extension field (triples) -/

/-- **Base field: `ntt` is the DFT in `ZMod P` at the powers of the tabulated root**, for every `L ≤ 31` and every
    vector of length `2^L`. -/
theorem ntt_b_is_dft (L : Nat) (hL : L ≤ 31) (x : Array Nat) (hx : x.size = 2^L) :
    ∃ r y, primitiveRoot (2^L) = some r ∧ ntt bOps primitiveRoot x = some y ∧ y.size = 2^L ∧
      ∀ i, i < 2^L → zvec y i = dft (2^L) ((r : ℕ) : ZMod P) (zvec x) i :=
  ntt_b_eq_dft L hL x hx
example : ntt bOps primitiveRoot #[1, 4, 0, 0] =
    some #[5, 1125899906842625, 18446744069414584318, 18445618169507741698] := by decide +kernel

/-- Base field: `intt` is `n⁻¹ ·` DFT at the powers of the inverse root. -/
theorem intt_b_is_inverse_dft (L : Nat) (hL : L ≤ 31) (x : Array Nat) (hx : x.size = 2^L) :
    ∃ r y, primitiveRoot (2^L) = some r ∧ intt bOps primitiveRoot x = some y ∧ y.size = 2^L ∧
      ∀ i, i < 2^L → zvec y i = ((2^L : ℕ) : ZMod P)⁻¹ * dft (2^L) (((r : ℕ) : ZMod P)⁻¹) (zvec x) i :=
  intt_b_eq_dft L hL x hx
example : intt bOps primitiveRoot #[5, 1125899906842625, 18446744069414584318, 18445618169507741698]
    = some #[1, 4, 0, 0] := by decide +kernel

/-- Base field: `intt (ntt x) = x` and `ntt (intt x) = x` as field elements. -/
theorem intt_ntt_b_roundtrip (L : Nat) (hL : L ≤ 31) (x : Array Nat) (hx : x.size = 2^L) :
    (∃ y z, ntt bOps primitiveRoot x = some y ∧ intt bOps primitiveRoot y = some z ∧ z.size = x.size ∧
      ∀ i, zvec z i = zvec x i) ∧
    (∃ y z, intt bOps primitiveRoot x = some y ∧ ntt bOps primitiveRoot y = some z ∧ z.size = x.size ∧
      ∀ i, zvec z i = zvec x i) :=
  ⟨intt_ntt_b L hL x hx, ntt_intt_b L hL x hx⟩
example : (#[7, 0, 3, 9] : Array Nat).size = 2^2 := by decide

/-- Base field: `ntt_noswap` is the DFT in bit-reversed order, `intt_noswap ∘ ntt_noswap = n·id`, and
    `intt = unscale ∘ intt_noswap ∘ bitreverse_order`. -/
theorem noswap_b (L : Nat) (hL : L ≤ 31) (x : Array Nat) (hx : x.size = 2^L) :
    (∃ r y, primitiveRoot (2^L) = some r ∧ nttNoswap bOps primitiveRoot x = some y ∧ y.size = 2^L ∧
      ∀ i, i < 2^L → zvec y i = dft (2^L) ((r : ℕ) : ZMod P) (zvec x) (bitrev L i)) ∧
    (∃ y z, nttNoswap bOps primitiveRoot x = some y ∧ inttNoswap bOps primitiveRoot y = some z ∧ z.size = 2^L ∧
      ∀ i, i < 2^L → zvec z i = ((2^L : ℕ) : ZMod P) * zvec x i) ∧
    (∃ b c, bitreverseOrder x = some b ∧ inttNoswap bOps primitiveRoot b = some c ∧
      intt bOps primitiveRoot x = unscale bOps c) :=
  ⟨nttNoswap_b_eq_dft L (by omega) x hx, inttNoswap_nttNoswap_b L (by omega) x hx, intt_via_noswap_b L hL x hx⟩
example : nttNoswap bOps primitiveRoot #[1, 4, 0, 0] =
    some #[5, 18446744069414584318, 1125899906842625, 18445618169507741698] := by decide +kernel

/-- Base field: on canonical input every function returns canonical values (`< P`), so together with the theorems
    above the outputs are determined as natural numbers, not only modulo `P`. -/
theorem outputs_canonical (x : Array Nat) (hx : Canon x) :
    (∀ y, ntt bOps primitiveRoot x = some y → Canon y) ∧
    (∀ y, intt bOps primitiveRoot x = some y → Canon y) ∧
    (∀ y, nttNoswap bOps primitiveRoot x = some y → Canon y) ∧
    (∀ y, inttNoswap bOps primitiveRoot x = some y → Canon y) ∧
    (∀ y, bitreverseOrder x = some y → Canon y) ∧
    (∀ y, unscale bOps x = some y → Canon y) :=
  transforms_canon x hx
example : Canon #[0, 1, 18446744069414584320] := by
  intro i h
  have : i = 0 ∨ i = 1 ∨ i = 2 := by simp at h; omega
  rcases this with rfl | rfl | rfl <;> simp [P]

/-- **Extension field: every transform acts coordinatewise** (all twiddles are base-field scalars), so the four
    theorems above hold for each of the three coordinate vectors of an extension-field vector. -/
theorem x_transforms_coordinatewise (k : Nat) (x : Array X3) :
    (ntt xOps primitiveRoot x).map (Array.map (coord k)) = ntt bOps primitiveRoot (x.map (coord k)) ∧
    (intt xOps primitiveRoot x).map (Array.map (coord k)) = intt bOps primitiveRoot (x.map (coord k)) ∧
    (nttNoswap xOps primitiveRoot x).map (Array.map (coord k)) = nttNoswap bOps primitiveRoot (x.map (coord k)) ∧
    (inttNoswap xOps primitiveRoot x).map (Array.map (coord k)) = inttNoswap bOps primitiveRoot (x.map (coord k)) :=
  x_coordinatewise k x
example : coord 0 (1, 2, 3) = 1 ∧ coord 1 (1, 2, 3) = 2 ∧ coord 2 (1, 2, 3) = 3 := by decide

end TF.C06

/-! ## regenerated-from-source bridge (tools/rs2lean_ext.py, `TF/Gen/NttLoops.lean`)

**Every function of `ntt.rs`** — `bitreverse`, `bitreverse_usize`, `bitreverse_order`, `ntt_unchecked`, `intt_noswap`,
`ntt_noswap`, `unscale` and the wrappers `ntt`, `intt` — is **also regenerated from `ntt.rs` on every run**, with the field operations as a parameter `ops : Ops σ α` (so one generated definition serves both
fields; the driver evaluates it on `bOps` and `xOps` next to the hand model and prints `GEN-MISMATCH` on a difference).
Proved here (proofs in `TF/Proofs/GenBridgeNtt.lean`), for every `ops`:

* the `u32` bit loop `bitreverse` = the model's `bitreverse`, never panics (`l ≤ 32`);
* the bit-reversal swap loop of `ntt_unchecked` (`for k in 0..len { rk = bitreverse(k, log); if k < rk { x.swap(rk, k) } }`)
  = the model's `swapLoop`, **including the panic** (`swap` out of bounds ⇔ `_ok = false`);
* the inner butterfly loops (`for j in 0..m`) of `ntt_unchecked` (indices computed in `u32` and cast) and of `intt_noswap`
  (`usize`) = the in-place reference pass `refBlock` with unbounded indices, with no index out of range and no index
  arithmetic overflowing, whenever the block `[k, k + 2m)` lies inside the slice.

* `gen_butterfly_block_pointwise`: the in-place inner loop, pointwise in terms of the slice before the loop (each index
  pair written once) — the block-level content of "in-place loop = functional stage".

* `gen_ntt_unchecked_eq_model`, `gen_intt_noswap_eq_model`, `gen_bitreverse_order_eq_model` (proofs in
  `TF/Proofs/GenBridgeNtt2.lean`): the composition over the `while k < len { ..; k += 2 * m }` block loop (invariant: blocks
  below `k` hold the stage formula of the slice before the stage, the rest is untouched; `#blocks + 1` evaluations of the
  loop head suffice), the identification of the result with the model's `stage` (`Array.ofFn`, twiddle table `powers` =
  repeated `w *= w_m`), the stage loop = `stagesLoop`, the `logn` loops = `ceilLog2`.  **The step from the in-place Rust
  loops to the functional stages is proved, not tied by correspondence.**  The statements have the form
  `(gen x).bind (fun r => if gen_ok x then some r else none) = (model x).map Array.toList`: the left side is `none` when the
  regenerated function runs out of fuel (never, that is part of what is proved) or when its `_ok` twin is false (an index
  out of range, an arithmetic overflow, an `unwrap` of `None` — a panic), the right side is `none` when the model panics. -/
namespace TF.C06
open TF.Gen TF.Model.Ntt

/-- regenerated `bitreverse` (u32 loop `r = (r << 1) | (n & 1); n >>= 1`) = hand model; the shift cannot overflow -/
theorem gen_bitreverse_eq_model (n l : Nat) (hl : l ≤ 32) :
    Loops.ntt_bitreverse n l = bitreverse n l ∧ Loops.ntt_bitreverse_ok n l = true :=
  TF.GenBridge.Ntt.gen_bitreverse_eq n l hl
example : Loops.ntt_bitreverse 6 3 = 3 ∧ Loops.ntt_bitreverse 1 32 = 2147483648 := by decide

/-- regenerated swap loop of `ntt_unchecked` = the model's `swapLoop` (value and panic), every `ops`, every array -/
theorem gen_swap_loop_eq_model {σ α : Type} (ops : Ops σ α) (log : Nat) (hl : log ≤ 32) (n k : Nat) (a : Array α) :
    (if Loops.ntt_unchecked_for_ok ops log n k a.toList then some (Loops.ntt_unchecked_for ops log n k a.toList) else none)
      = (swapLoop log n k a).map Array.toList :=
  TF.GenBridge.Ntt.unchecked_for_eq ops log hl n k a
example : Loops.ntt_unchecked_for bOps 2 4 0 [10, 11, 12, 13] = [10, 12, 11, 13] ∧
    Loops.ntt_unchecked_for_ok bOps 3 4 0 [10, 11, 12, 13] = false := by decide

/-- regenerated `bitreverse_usize` = hand model (`l ≤ 64`), and the swap loop of `bitreverse_order` = the model's `swapLoop`
    (value and panic) -/
theorem gen_bitreverse_order_loop_eq_model {σ α : Type} (ops : Ops σ α) (log : Nat) (hl : log ≤ 64) (n k : Nat) (a : Array α) :
    (Loops.ntt_bitreverse_usize n log = bitreverse n log ∧ Loops.ntt_bitreverse_usize_ok n log = true) ∧
    (if Loops.ntt_bitreverse_order_for2_ok ops log n k a.toList then some (Loops.ntt_bitreverse_order_for2 ops log n k a.toList)
      else none) = (swapLoop log n k a).map Array.toList :=
  ⟨TF.GenBridge.Ntt.gen_bitreverse_usize_eq n log hl, TF.GenBridge.Ntt.bitreverse_order_for2_eq ops log hl n k a⟩
example : Loops.ntt_bitreverse_usize 1 64 = 9223372036854775808 ∧
    Loops.ntt_bitreverse_order_for2 bOps 3 8 0 [0, 1, 2, 3, 4, 5, 6, 7] = [0, 4, 2, 6, 1, 5, 3, 7] := by decide +kernel

/-- regenerated inner butterfly loops = the in-place reference pass over one block; they cannot panic when the block is
    inside the slice -/
theorem gen_butterfly_block_eq {σ α : Type} (ops : Ops σ α) (root : Nat → Option σ) (m : Nat) (w_m : σ) (k n j : Nat)
    (x : List α) (w : σ) (hlen : k + j + n + m ≤ x.length) (hU : x.length < 4294967296) :
    (Loops.ntt_unchecked_for4 ops m w_m k n j x w = TF.GenBridge.Ntt.refBlock ops m w_m k n j x w ∧
      Loops.ntt_unchecked_for4_ok ops m w_m k n j x w = true) ∧
    (Loops.intt_noswap_for4 ops root m w_m k n j x w = TF.GenBridge.Ntt.refBlock ops m w_m k n j x w ∧
      Loops.intt_noswap_for4_ok ops root m w_m k n j x w = true) :=
  ⟨TF.GenBridge.Ntt.unchecked_for4_eq ops m w_m k n j x w hlen hU,
   TF.GenBridge.Ntt.intt_noswap_for4_eq ops root m w_m k n j x w hlen (by omega)⟩
example : (Loops.ntt_unchecked_for4 bOps 2 5 0 2 0 [1, 2, 3, 4] 1).1 = [4, 22, 18446744069414584319, 18446744069414584303] := by
  decide +kernel

/-- **the in-place butterfly loop of the source, pointwise**: after the regenerated `for j in 0..m` loop of `ntt_unchecked`
    over the block at `k` (started with twiddle `w`), position `k + j` holds `x[k+j] + w·w_mʲ · x[k+j+m]`, position
    `k + m + j` holds `x[k+j] - w·w_mʲ · x[k+j+m]` — in terms of the slice **before** the loop (each index pair is written
    exactly once, so the in-place update is the functional butterfly on the block) — everything outside the block is
    untouched, and nothing panics.  The same holds for `intt_noswap` (`gen_butterfly_block_eq`). -/
theorem gen_butterfly_block_pointwise {σ α : Type} (ops : Ops σ α) (m : Nat) (w_m : σ) (k : Nat) (x : List α) (w : σ)
    (hlen : k + 2 * m ≤ x.length) (hU : x.length < 4294967296) (idx : Nat) :
    Loops.ntt_unchecked_for4_ok ops m w_m k m 0 x w = true ∧
    (Loops.ntt_unchecked_for4 ops m w_m k m 0 x w).1[idx]? =
      if k ≤ idx ∧ idx < k + m then
        some (ops.add (x.getD idx ops.zero)
          (ops.scale (TF.GenBridge.Ntt.wp ops w_m w (idx - k)) (x.getD (idx + m) ops.zero)))
      else if k + m ≤ idx ∧ idx < k + m + m then
        some (ops.sub (x.getD (idx - m) ops.zero)
          (ops.scale (TF.GenBridge.Ntt.wp ops w_m w (idx - (k + m))) (x.getD idx ops.zero)))
      else x[idx]? := by
  obtain ⟨e, ok⟩ := TF.GenBridge.Ntt.unchecked_for4_eq ops m w_m k m 0 x w (by omega) hU
  obtain ⟨_, _, hp⟩ := TF.GenBridge.Ntt.refBlock_spec ops m w_m k m 0 x w (by omega) (by omega)
  refine ⟨ok, ?_⟩
  rw [e, hp idx]
  simp only [Nat.add_zero]
example : TF.GenBridge.Ntt.wp bOps 5 1 2 = 25 := by decide

/-- **`ntt_unchecked` regenerated from source = the model** (bit-reversal swap loop, then one functional `Array.ofFn` pass
    per stage), for every `ops`, every `ω`, every `log ≤ 31` and every vector of length `2^log` (the only way `ntt`/`intt`
    call it, besides the empty slice): the regenerated function finishes within its fuel, panics exactly when the model
    does, and returns the model's result.  (`log = 32` is excluded because `x.len() as u32` is then `0`.) -/
theorem gen_ntt_unchecked_eq_model {σ α : Type} (ops : Ops σ α) (x : Array α) (omega : σ) (log : Nat) (hl : log ≤ 31)
    (hx : x.size = 2 ^ log) :
    (Loops.ntt_unchecked ops x.toList omega log).bind
        (fun r => if Loops.ntt_unchecked_ok ops x.toList omega log then some r else none)
      = (nttUnchecked ops x omega log).map Array.toList :=
  TF.GenBridge.Ntt.gen_ntt_unchecked_eq ops x omega log hl hx
example : Loops.ntt_unchecked bOps [1, 4, 0, 0] 281474976710656 2 =
    some [5, 1125899906842625, 18446744069414584318, 18445618169507741698] ∧
    Loops.ntt_unchecked_ok bOps [1, 4, 0, 0] 281474976710656 2 = true := by decide +kernel

/-- the empty slice: `ntt_unchecked(x, ω, 0)` does nothing on either side -/
theorem gen_ntt_unchecked_empty {σ α : Type} (ops : Ops σ α) (omega : σ) :
    Loops.ntt_unchecked ops ([] : List α) omega 0 = some [] ∧ Loops.ntt_unchecked_ok ops ([] : List α) omega 0 = true ∧
    nttUnchecked ops (#[] : Array α) omega 0 = some #[] :=
  TF.GenBridge.Ntt.gen_ntt_unchecked_empty ops omega
example : Loops.ntt_unchecked bOps [] 1 0 = some [] := by decide

/-- one stage of the source's in-place loops is the model's functional stage: after the regenerated block loop
    `while k < len { for j in 0..m { .. }; k += 2 * m }` over a slice of `B` blocks of size `2m` the slice is
    `stage ops m (powers ops w_m m) a` — within `B + 1` evaluations of the loop head, with no overflow -/
theorem gen_block_loop_eq_stage {σ α : Type} (ops : Ops σ α) (m : Nat) (hm : 0 < m) (w_m : σ) (a : Array α) (B : Nat)
    (hlen : a.size = B * (2 * m)) (hU : a.size < 4294967296) (fuel : Nat) (hf : B + 1 ≤ fuel) :
    Loops.ntt_unchecked_loop3 ops a.size m w_m fuel a.toList 0 = some ((stage ops m (powers ops w_m m) a).toList, a.size) ∧
    Loops.ntt_unchecked_loop3_ok ops a.size m w_m fuel a.toList 0 = true := by
  obtain ⟨z, hz, hzok, hzi⟩ := TF.GenBridge.Ntt.unchecked_loop3_eq ops m hm w_m a.toList B (by simpa using hlen)
    (by simpa using hU) a.size (by simp) B 0 a.toList (by omega) (TF.GenBridge.Ntt.blockInv_zero _ _ _ _) fuel hf
  rw [Nat.zero_mul] at hz hzok
  rw [← TF.GenBridge.Ntt.blockInv_full ops m hm w_m a B hlen z hzi]
  exact ⟨hz, hzok⟩
example : Loops.ntt_unchecked_loop3 bOps 4 1 1 3 [1, 2, 3, 4] 0 = some ([3, 18446744069414584320, 7, 18446744069414584320], 4) := by
  decide +kernel

/-- **`intt_noswap` regenerated from source = the model** for *every* vector, every `ops`, and every root look-up that is
    defined only on `0` and the powers of two up to `2^32` (as `BFieldElement::primitive_root_of_unity` is —
    `primitive_roots_table`): same panics (`unwrap` of a missing root on every other length, `inverse` of zero), finishes
    within its fuel, same values -/
theorem gen_intt_noswap_eq_model {σ α : Type} (ops : Ops σ α) (root : Nat → Option σ)
    (hroot : ∀ n, (root n).isSome = true → n = 0 ∨ ∃ L, L ≤ 32 ∧ n = 2 ^ L) (x : Array α) :
    (Loops.intt_noswap ops root x.toList).bind
        (fun r => if Loops.intt_noswap_ok ops root x.toList then some r else none)
      = (inttNoswap ops root x).map Array.toList :=
  TF.GenBridge.Ntt.gen_intt_noswap_eq_all ops root hroot x
example : ∀ n, (primitiveRoot n).isSome = true → n = 0 ∨ ∃ L, L ≤ 32 ∧ n = 2 ^ L := by
  intro n h
  obtain ⟨r, hr⟩ := Option.isSome_iff_exists.mp h
  rcases primitive_roots_table n r (primitive_root_is_entry n r hr) with ⟨h0, _⟩ | ⟨k, hk, hn, _⟩
  · exact Or.inl h0
  · exact Or.inr ⟨k, hk, hn⟩

/-- the same for a fixed length `2^L`, `L ≤ 32`, with an arbitrary root look-up -/
theorem gen_intt_noswap_eq_model_pow2 {σ α : Type} (ops : Ops σ α) (root : Nat → Option σ) (x : Array α) (L : Nat)
    (hL : L ≤ 32) (hx : x.size = 2 ^ L) :
    (Loops.intt_noswap ops root x.toList).bind
        (fun r => if Loops.intt_noswap_ok ops root x.toList then some r else none)
      = (inttNoswap ops root x).map Array.toList :=
  TF.GenBridge.Ntt.gen_intt_noswap_eq ops root x L hL hx
example : Loops.intt_noswap bOps primitiveRoot [5, 18446744069414584318, 1125899906842625, 18445618169507741698]
    = some [4, 16, 0, 0] := by decide +kernel

/-- **`bitreverse_order` regenerated from source = the model**, every array of length `≤ 2^63`, every `ops`: the `logn`
    loop finishes within 65 evaluations of its head without a shift overflow and yields `⌈log₂ len⌉`; the swap loop agrees
    in value and in panic (a swap target beyond the end, on lengths that are not a power of two) -/
theorem gen_bitreverse_order_eq_model {σ α : Type} (ops : Ops σ α) (a : Array α) (ha : a.size ≤ 2 ^ 63) :
    (Loops.ntt_bitreverse_order ops a.toList).bind
        (fun r => if Loops.ntt_bitreverse_order_ok ops a.toList then some r else none)
      = (bitreverseOrder a).map Array.toList :=
  TF.GenBridge.Ntt.gen_bitreverse_order_eq ops a ha
example : Loops.ntt_bitreverse_order bOps [0, 1, 2, 3, 4, 5, 6, 7] = some [0, 4, 2, 6, 1, 5, 3, 7] ∧
    Loops.ntt_bitreverse_order_ok bOps [0, 1, 2, 3, 4] = false ∧ bitreverseOrder #[0, 1, 2, 3, 4] = none := by decide +kernel

/-! ### the wrappers `ntt` / `intt`, `ntt_noswap`, `unscale` (proofs in `TF/Proofs/GenBridgeNtt3.lean`) -/

/-- **`ntt` regenerated from source = the model, for every vector, every `ops`, every root look-up**:
    `u32::try_from(len).expect(..)`, `assert!(len == 0 || len.is_power_of_two())`, `checked_ilog2().unwrap_or(0)`,
    `primitive_root_of_unity(len).unwrap()` and the regenerated `ntt_unchecked`; rejected lengths panic on both sides -/
theorem gen_ntt_eq_model {σ α : Type} (ops : Ops σ α) (root : Nat → Option σ) (x : Array α) :
    (Loops.ntt_ntt ops root x.toList).bind (fun r => if Loops.ntt_ntt_ok ops root x.toList then some r else none)
      = (ntt ops root x).map Array.toList :=
  TF.GenBridge.Ntt.gen_ntt_eq ops root x
example : Loops.ntt_ntt bOps primitiveRoot [1, 4, 0, 0] =
    some [5, 1125899906842625, 18446744069414584318, 18445618169507741698] ∧
    Loops.ntt_ntt_ok bOps primitiveRoot [1, 4, 0, 0] = true ∧ Loops.ntt_ntt_ok bOps primitiveRoot [1, 4, 0] = false := by
  decide +kernel

/-- **`intt` regenerated from source = the model, for every vector**: the checks of `ntt`, `omega.inverse()`, the
    regenerated `ntt_unchecked`, then `*elem *= BFieldElement::from(len).inverse_or_zero()` over the whole slice -/
theorem gen_intt_eq_model {σ α : Type} (ops : Ops σ α) (root : Nat → Option σ) (x : Array α) :
    (Loops.ntt_intt ops root x.toList).bind (fun r => if Loops.ntt_intt_ok ops root x.toList then some r else none)
      = (intt ops root x).map Array.toList :=
  TF.GenBridge.Ntt.gen_intt_eq ops root x
example : Loops.ntt_intt bOps primitiveRoot [5, 1125899906842625, 18446744069414584318, 18445618169507741698] =
    some [1, 4, 0, 0] := by decide +kernel

/-- **`ntt_noswap` regenerated from source = the model for every vector** (root look-up defined only on `0` and the powers
    of two up to `2^32`): the `logn` loop, the table `powers_of_omega_bitreversed` (`vec![ZERO; n]`, writes at
    `bitreverse_usize(i, logn - 1)`; `logn - 1` is never evaluated for `n = 1`), the `while m < n` stage loop with the
    `enumerate().take(m)` block loop and the in-place butterflies = `powersBitrev` / `noswapLoop` / `stageNoswap` -/
theorem gen_ntt_noswap_eq_model {σ α : Type} (ops : Ops σ α) (root : Nat → Option σ)
    (hroot : ∀ n, (root n).isSome = true → n = 0 ∨ ∃ L, L ≤ 32 ∧ n = 2 ^ L) (x : Array α) :
    (Loops.ntt_noswap ops root x.toList).bind
        (fun r => if Loops.ntt_noswap_ok ops root x.toList then some r else none)
      = (nttNoswap ops root x).map Array.toList :=
  TF.GenBridge.Ntt.gen_ntt_noswap_eq_all ops root hroot x
example : Loops.ntt_noswap bOps primitiveRoot [1, 4, 0, 0] =
    some [5, 18446744069414584318, 1125899906842625, 18445618169507741698] ∧
    Loops.ntt_noswap_ok bOps primitiveRoot [1, 4, 0, 0] = true := by decide +kernel

/-- the same for a fixed length `2^L`, `L ≤ 32`, with an arbitrary root look-up -/
theorem gen_ntt_noswap_eq_model_pow2 {σ α : Type} (ops : Ops σ α) (root : Nat → Option σ) (x : Array α) (L : Nat)
    (hL : L ≤ 32) (hx : x.size = 2 ^ L) :
    (Loops.ntt_noswap ops root x.toList).bind
        (fun r => if Loops.ntt_noswap_ok ops root x.toList then some r else none)
      = (nttNoswap ops root x).map Array.toList :=
  TF.GenBridge.Ntt.gen_ntt_noswap_eq ops root x L hL hx
example : (#[1, 4, 0, 0] : Array Nat).size = 2 ^ 2 := by decide

/-- **`unscale` regenerated from source = the model** (slices of `BFieldElement`: scalar type = element type; `*a *= ninv`
    is the scalar multiplication, the model's `scale ninv a` — equal when multiplication commutes), value and panic
    (`inverse` of zero on the empty slice); instance: the executable base field -/
theorem gen_unscale_eq_model {σ : Type} (ops : Ops σ σ) (hc : ∀ a w, ops.smul a w = ops.scale w a) (a : Array σ) :
    (if Loops.ntt_unscale_ok ops a.toList then some (Loops.ntt_unscale ops a.toList) else none)
      = (unscale ops a).map Array.toList :=
  TF.GenBridge.Ntt.gen_unscale_eq ops hc a
example : (∀ a w, bOps.smul a w = bOps.scale w a) ∧ Loops.ntt_unscale bOps [4, 16, 0, 0] = [1, 4, 0, 0] ∧
    Loops.ntt_unscale_ok bOps [] = false := by
  refine ⟨fun a w => ?_, by decide +kernel, by decide +kernel⟩
  show Spec.fmul a w = Spec.fmul w a
  simp only [Spec.fmul, Nat.mul_comm]

/-! ### transfer: C06's main results hold for the code regenerated from the current source -/

open TF.NttFn TF.NttProofs in
/-- **NTT = DFT, for the regenerated `ntt`** (`ntt_eq_dft` transferred): it finishes, does not panic and returns the DFT -/
theorem gen_ntt_eq_dft {R : Type} [CommRing R] (inv : R → Option R) (inv0 : R → R) (root : Nat → Option R)
    (L : Nat) (hL : L ≤ 31) (ω : R) (hr : root (2^L) = some ω) (hω : 0 < L → ω^(2^(L-1)) = -1)
    (x : Array R) (hx : x.size = 2^L) :
    ∃ y : Array R, Loops.ntt_ntt (ringOps R inv inv0) root x.toList = some y.toList ∧
      Loops.ntt_ntt_ok (ringOps R inv inv0) root x.toList = true ∧ y.size = 2^L ∧
      ∀ i, i < 2^L → toFn y i = dft (2^L) ω (toFn x) i := by
  obtain ⟨y, hy, hs, hd⟩ := ntt_eq_dft inv inv0 root L hL ω hr hω x hx
  obtain ⟨g, ok⟩ := TF.GenBridge.Ntt.run_transfer (gen_ntt_eq_model (ringOps R inv inv0) root x) hy
  exact ⟨y, g, ok, hs, hd⟩
example : (2 : ℕ) ≤ 31 ∧ (0 < 2 → ((2 : ZMod 5))^(2^(2-1)) = -1) := by decide

open TF.NttFn TF.NttProofs in
/-- **INTT inverts NTT, for the regenerated `ntt` and `intt`** (`intt_ntt` transferred) -/
theorem gen_intt_ntt {R : Type} [CommRing R] (inv : R → Option R) (inv0 : R → R) (root : Nat → Option R)
    (L : Nat) (hL : L ≤ 31) (ω ωi : R) (hr : root (2^L) = some ω) (hi : inv ω = some ωi) (hinv : ωi * ω = 1)
    (hn : inv0 ((2^L : ℕ) : R) * ((2^L : ℕ) : R) = 1) (hω : 0 < L → ω^(2^(L-1)) = -1)
    (x : Array R) (hx : x.size = 2^L) :
    ∃ y : Array R, Loops.ntt_ntt (ringOps R inv inv0) root x.toList = some y.toList ∧
      Loops.ntt_ntt_ok (ringOps R inv inv0) root x.toList = true ∧
      Loops.ntt_intt (ringOps R inv inv0) root y.toList = some x.toList ∧
      Loops.ntt_intt_ok (ringOps R inv inv0) root y.toList = true := by
  obtain ⟨y, hy, hz⟩ := intt_ntt inv inv0 root L hL ω ωi hr hi hinv hn hω x hx
  obtain ⟨g, ok⟩ := TF.GenBridge.Ntt.run_transfer (gen_ntt_eq_model (ringOps R inv inv0) root x) hy
  obtain ⟨g2, ok2⟩ := TF.GenBridge.Ntt.run_transfer (gen_intt_eq_model (ringOps R inv inv0) root y) hz
  exact ⟨y, g, ok, g2, ok2⟩
example : (Loops.ntt_ntt bOps primitiveRoot [7, 0, 3, 9]).bind (Loops.ntt_intt bOps primitiveRoot) = some [7, 0, 3, 9] := by
  decide +kernel

open TF.NttFn TF.NttProofs in
/-- **the regenerated `ntt_noswap` returns the DFT in bit-reversed order** (`ntt_noswap_eq_dft_bitreversed` transferred) -/
theorem gen_ntt_noswap_eq_dft_bitreversed {R : Type} [CommRing R] (inv : R → Option R) (inv0 : R → R)
    (root : Nat → Option R) (L : Nat) (hL : L ≤ 32) (ω : R) (hr : root (2^L) = some ω) (hω : 0 < L → ω^(2^(L-1)) = -1)
    (x : Array R) (hx : x.size = 2^L) :
    ∃ y : Array R, Loops.ntt_noswap (ringOps R inv inv0) root x.toList = some y.toList ∧
      Loops.ntt_noswap_ok (ringOps R inv inv0) root x.toList = true ∧ y.size = 2^L ∧
      ∀ i, i < 2^L → toFn y i = dft (2^L) ω (toFn x) (bitrev L i) := by
  obtain ⟨y, hy, hs, hd⟩ := ntt_noswap_eq_dft_bitreversed inv inv0 root L ω hr hω x hx
  obtain ⟨g, ok⟩ := TF.GenBridge.Ntt.run_transfer (gen_ntt_noswap_eq_model_pow2 (ringOps R inv inv0) root x L hL hx) hy
  exact ⟨y, g, ok, hs, hd⟩
example : TF.NttFn.bitrev 2 1 = 2 ∧ TF.NttFn.bitrev 2 2 = 1 := by decide

open TF.NttFn TF.NttProofs in
/-- **regenerated `intt_noswap ∘ ntt_noswap = n · id`** (`intt_noswap_ntt_noswap` transferred) -/
theorem gen_intt_noswap_ntt_noswap {R : Type} [CommRing R] (inv : R → Option R) (inv0 : R → R)
    (root : Nat → Option R) (L : Nat) (hL : L ≤ 32) (ω ωi : R) (hr : root (2^L) = some ω) (hi : inv ω = some ωi)
    (hinv : ωi * ω = 1) (hω : 0 < L → ω^(2^(L-1)) = -1) (x : Array R) (hx : x.size = 2^L) :
    ∃ y z : Array R, Loops.ntt_noswap (ringOps R inv inv0) root x.toList = some y.toList ∧
      Loops.ntt_noswap_ok (ringOps R inv inv0) root x.toList = true ∧
      Loops.intt_noswap (ringOps R inv inv0) root y.toList = some z.toList ∧
      Loops.intt_noswap_ok (ringOps R inv inv0) root y.toList = true ∧
      z.size = 2^L ∧ ∀ i, i < 2^L → toFn z i = ((2^L : ℕ) : R) * toFn x i := by
  obtain ⟨y, z, hy, hz, hs, hd⟩ := intt_noswap_ntt_noswap inv inv0 root L ω ωi hr hi hinv hω x hx
  obtain ⟨y', hy', hys, _⟩ := ntt_noswap_eq_dft_bitreversed inv inv0 root L ω hr hω x hx
  have hyy : y' = y := by rw [hy] at hy'; exact (Option.some.inj hy').symm
  subst hyy
  obtain ⟨g, ok⟩ := TF.GenBridge.Ntt.run_transfer (gen_ntt_noswap_eq_model_pow2 (ringOps R inv inv0) root x L hL hx) hy
  obtain ⟨g2, ok2⟩ := TF.GenBridge.Ntt.run_transfer (gen_intt_noswap_eq_model_pow2 (ringOps R inv inv0) root y' L hL hys) hz
  exact ⟨y', z, g, ok, g2, ok2, hs, hd⟩
example : (Loops.ntt_noswap bOps primitiveRoot [1, 4, 0, 0]).bind (Loops.intt_noswap bOps primitiveRoot) = some [4, 16, 0, 0] := by
  decide +kernel

open TF.NttFn TF.NttProofs in
/-- **base field, regenerated code**: on canonical values the regenerated `ntt` is the DFT in `ZMod P` at the powers of the
    tabulated root and the regenerated `intt` inverts it (`ntt_b_is_dft`, `intt_ntt_b_roundtrip` transferred) -/
theorem gen_ntt_b_is_dft (L : Nat) (hL : L ≤ 31) (x : Array Nat) (hx : x.size = 2^L) :
    ∃ (r : Nat) (y z : Array Nat), primitiveRoot (2^L) = some r ∧
      Loops.ntt_ntt bOps primitiveRoot x.toList = some y.toList ∧ Loops.ntt_ntt_ok bOps primitiveRoot x.toList = true ∧
      y.size = 2^L ∧ (∀ i, i < 2^L → zvec y i = dft (2^L) ((r : ℕ) : ZMod P) (zvec x) i) ∧
      Loops.ntt_intt bOps primitiveRoot y.toList = some z.toList ∧ Loops.ntt_intt_ok bOps primitiveRoot y.toList = true ∧
      z.size = x.size ∧ ∀ i, zvec z i = zvec x i := by
  obtain ⟨r, y, hr, hy, hs, hd⟩ := ntt_b_is_dft L hL x hx
  obtain ⟨⟨y', z, hy', hz, hzs, hzv⟩, _⟩ := intt_ntt_b_roundtrip L hL x hx
  have hyy : y' = y := by rw [hy] at hy'; exact (Option.some.inj hy').symm
  subst hyy
  obtain ⟨g, ok⟩ := TF.GenBridge.Ntt.run_transfer (gen_ntt_eq_model bOps primitiveRoot x) hy
  obtain ⟨g2, ok2⟩ := TF.GenBridge.Ntt.run_transfer (gen_intt_eq_model bOps primitiveRoot y') hz
  exact ⟨r, y', z, hr, g, ok, hs, hd, g2, ok2, hzs, hzv⟩
example : (#[7, 0, 3, 9] : Array Nat).size = 2^2 := by decide

end TF.C06
