import TF.Proofs.MmrSucc
import TF.Proofs.MmrMember
import TF.Proofs.MmrSuccMain
import TF.Proofs.GenBridgeMmrSucc
/-!
# C12 — MMR successor proofs are complete, sound and total

Property theorems only (helper lemmas: `TF/Proofs/MmrE.lean`, `TF/Proofs/MmrSucc.lean`; completeness of the generated
proof: `TF/Proofs/MmrSuccBlk.lean`, `MmrSuccGen.lean`, `MmrSuccDig.lean`, `MmrSuccFill.lean`, `MmrSuccMain.lean`).

Model: `TF.Model.MmrE.verify H dflt paths old new : Option Bool` is the hand model of
`MmrSuccessorProof::verify` (`none` = panic or non-termination), `newFromBatchAppend` of `new_from_batch_append`;
`Acc D = {count, peaks}` is `MmrAccumulator` as built by `MmrAccumulator::init(peaks, leaf_count)` — *any* pair.
`H : D → D → D` is an arbitrary hash, `dflt` is `Digest::default()`.  The index function
`leaf_index_to_mt_index_and_peak_index` inside `verify` is the term regenerated from `shared_basic.rs` on every run.

Specification (`TF/Spec/MmrE.lean`), for a leaf list `g : Nat → D`:
`sub H g l j` is the root of the perfect tree over leaves `j·2^l … (j+1)·2^l − 1`; `peaks H n g` are the peaks of the
MMR over the first `n` leaves (highest first); `peakPos n` lists `(height, first leaf)` of every peak;
`locate n i = (height, index in tree, peak index)` of the tree containing leaf `i`; `foldBlk H j v path` hashes the
root `v` of aligned block `j` up along sibling digests; `succVerify` is the reference verifier; `succPathsOf H g m n`
is the honest successor proof; `Collision H` is an explicit pair of distinct inputs with equal hash.
-/
namespace TF.C12
open TF.Model.MmrE TF.Spec.MmrE TF.MmrE

variable {D : Type} [DecidableEq D] (H : D → D → D) (dflt : D)

/-- **totality**: on any two accumulators (any peak lists, consistent or not, any `u64` leaf counts) `verify` returns;
    no `ilog2(0)`, no failed `assert!`, no index out of bounds, no arithmetic wrap, no endless loop.
    (The only excluded inputs are peak vectors of ≥ 2^32 digests, see `verify_panics_iff`.) -/
theorem verify_total (paths : List D) (old new : Acc D) (hoc : old.count < 2 ^ 64) (hnc : new.count < 2 ^ 64)
    (hlen : new.peaks.length < 2 ^ 32) : ∃ b, verify H dflt paths old new = some b :=
  ⟨_, verify_eq_spec H dflt paths old new hoc hnc hlen⟩
example : ∃ b, verify (fun a b : Nat => a + 2 * b) 0 [] ⟨1, [7, 8]⟩ ⟨1, [7]⟩ = some b :=
  verify_total _ _ _ _ _ (by decide) (by decide) (by decide)

/-- the panic branch: `verify` fails to return exactly when the new peak list does not fit a `u32` length
    (`len().try_into().unwrap()`) and the leaf counts did not already decide -/
theorem verify_panics_iff (paths : List D) (old new : Acc D) (hoc : old.count < 2 ^ 64) (hnc : new.count < 2 ^ 64) :
    verify H dflt paths old new = none ↔ old.count ≤ new.count ∧ 2 ^ 32 ≤ new.peaks.length := by
  by_cases h1 : old.count > new.count
  · unfold verify; rw [if_pos h1]
    constructor
    · intro h; cases h
    · intro h; omega
  · by_cases h2 : new.peaks.length ≥ 2 ^ 32
    · unfold verify; rw [if_neg h1, if_pos h2]
      constructor
      · intro _; omega
      · intro _; rfl
    · rw [verify_eq_spec H dflt paths old new hoc hnc (by omega)]
      constructor
      · intro h; cases h
      · intro h; omega

/-- **exactness**: `verify` computes the reference verifier -/
theorem verify_exact (paths : List D) (old new : Acc D) (hoc : old.count < 2 ^ 64) (hnc : new.count < 2 ^ 64)
    (hlen : new.peaks.length < 2 ^ 32) :
    verify H dflt paths old new = some (succVerify H paths old.count old.peaks new.count new.peaks) :=
  verify_eq_spec H dflt paths old new hoc hnc hlen

/-- structurally inconsistent old accumulator (peak list length ≠ number of set bits of the leaf count — more peaks
    used to panic, fewer used to be accepted, finding F3): rejected, never a panic, never accepted -/
theorem verify_rejects_inconsistent_old (paths : List D) (old new : Acc D) (hlen : new.peaks.length < 2 ^ 32)
    (h : TF.popCount old.count ≠ old.peaks.length) : verify H dflt paths old new = some false := by
  unfold verify
  have hl : ¬ (new.peaks.length ≥ 2 ^ 32) := by omega
  by_cases h1 : old.count > new.count
  · rw [if_pos h1]
  · by_cases h2 : TF.popCount new.count ≠ new.peaks.length
    · rw [if_neg h1, if_neg hl, if_pos h2]
    · rw [if_neg h1, if_neg hl, if_neg h2, if_pos h]
example : verify (fun a b : Nat => a + b) 0 [] ⟨5, []⟩ ⟨5, [1, 2]⟩ = some false :=
  verify_rejects_inconsistent_old _ _ _ _ _ (by decide) (by simp [TF.popCount])
example : verify (fun a b : Nat => a + b) 0 [] ⟨1, [1, 2]⟩ ⟨1, [1]⟩ = some false :=
  verify_rejects_inconsistent_old _ _ _ _ _ (by decide) (by simp [TF.popCount])

/-- structurally inconsistent new accumulator: rejected -/
theorem verify_rejects_inconsistent_new (paths : List D) (old new : Acc D) (hlen : new.peaks.length < 2 ^ 32)
    (h : TF.popCount new.count ≠ new.peaks.length) : verify H dflt paths old new = some false := by
  unfold verify
  have hl : ¬ (new.peaks.length ≥ 2 ^ 32) := by omega
  by_cases h1 : old.count > new.count
  · rw [if_pos h1]
  · rw [if_neg h1, if_neg hl, if_pos h]
example : verify (fun a b : Nat => a + b) 0 [] ⟨0, []⟩ ⟨2, [1, 2]⟩ = some false :=
  verify_rejects_inconsistent_new _ _ _ _ _ (by decide) (by simp [TF.popCount])

/-- an old accumulator with more leafs than the new one is rejected -/
theorem verify_rejects_shrinking (paths : List D) (old new : Acc D) (h : old.count > new.count) :
    verify H dflt paths old new = some false := by
  unfold verify; rw [if_pos h]

/-- **soundness, structural form (an equivalence)**: `verify` accepts iff both accumulators are consistent, the old
    one is not longer, and the digest list splits — completely, in order — into one segment per old peak such that
    the old peak with height `h` and first leaf `s` hashes, with exactly its segment of
    `height(new tree above s) − h` digests, left/right by the position of its block, into the new peak that covers
    leaf `s`. -/
theorem verify_accepts_iff (paths : List D) (old new : Acc D) (hoc : old.count < 2 ^ 64) (hnc : new.count < 2 ^ 64)
    (hlen : new.peaks.length < 2 ^ 32) :
    verify H dflt paths old new = some true ↔
      old.count ≤ new.count ∧ TF.popCount new.count = new.peaks.length ∧ TF.popCount old.count = old.peaks.length ∧
      ∃ segs : List (List D), segs.flatten = paths ∧ segs.length = old.peaks.length ∧
        ∀ (i : Nat) (p : D) (q : Nat × Nat) (seg : List D),
          old.peaks[i]? = some p → (peakPos old.count)[i]? = some q → segs[i]? = some seg →
          q.1 ≤ (locate new.count q.2).1 ∧ seg.length = (locate new.count q.2).1 - q.1 ∧
          new.peaks[(locate new.count q.2).2.2]? = some (foldBlk H (q.2 / 2 ^ q.1) p seg) := by
  rw [verify_eq_spec H dflt paths old new hoc hnc hlen]
  simp only [Option.some.injEq, succVerify, Bool.and_eq_true, decide_eq_true_eq]
  constructor
  · rintro ⟨⟨⟨h1, h2⟩, h3⟩, h4⟩
    exact ⟨h1, h2, h3, succGo_sound H new.count new.peaks _ _ _ (by rw [peakPos_length, h3]) h4⟩
  · rintro ⟨h1, h2, h3, segs, hs1, hs2, hs3⟩
    refine ⟨⟨⟨h1, h2⟩, h3⟩, ?_⟩
    rw [← hs1]
    exact succGo_complete H new.count new.peaks _ _ segs (by rw [peakPos_length, h3]) hs2 hs3

/-- **soundness over leaf ranges**: if the new accumulator commits to the leaf list `g` (its peaks are the roots of
    the perfect trees over `g 0 … g (new.count−1)`), then an accepted proof shows that the old accumulator commits to
    the first `old.count` leaves of the same list, and the digests are exactly the honest sibling digests — or an
    explicit collision of the hash function is exhibited. -/
theorem verify_sound_leaves (g : Nat → D) (paths : List D) (old new : Acc D) (hoc : old.count < 2 ^ 64)
    (hnc : new.count < 2 ^ 64) (hlen : new.peaks.length < 2 ^ 32) (hnew : new.peaks = peaks H new.count g)
    (h : verify H dflt paths old new = some true) :
    (old.peaks = peaks H old.count g ∧ paths = succPathsOf H g old.count new.count) ∨ Collision H := by
  rw [verify_eq_spec H dflt paths old new hoc hnc hlen] at h
  simp only [Option.some.injEq, succVerify, Bool.and_eq_true, decide_eq_true_eq] at h
  obtain ⟨⟨⟨h1, _⟩, h3⟩, h4⟩ := h
  rw [hnew] at h4
  have hin : ∀ q ∈ peakPos old.count, q.2 < new.count := by
    intro q hq
    have := (peakPos_mem old.count q hq).2
    have : 0 < 2 ^ q.1 := Nat.pow_pos (by omega)
    omega
  rcases succGo_honest H g new.count _ _ _ (by rw [peakPos_length, h3]) hin h4 with ⟨ho, hp⟩ | hc
  · exact Or.inl ⟨by rw [peaks_eq_map]; exact ho, hp⟩
  · exact Or.inr hc

/-- **every digest and every old peak is bound**: two accepted triples with the same leaf counts and the same new
    peaks have the same old peaks and the same digest list (so an altered, dropped, added or reordered digest, or
    an altered old peak, is rejected) — or exhibit a collision. -/
theorem verify_binds_paths_and_old_peaks (paths paths' : List D) (old old' new : Acc D) (hoc : old.count < 2 ^ 64)
    (hnc : new.count < 2 ^ 64) (hlen : new.peaks.length < 2 ^ 32) (hcount : old'.count = old.count)
    (h : verify H dflt paths old new = some true) (h' : verify H dflt paths' old' new = some true) :
    (old.peaks = old'.peaks ∧ paths = paths') ∨ Collision H := by
  rw [verify_eq_spec H dflt paths old new hoc hnc hlen] at h
  rw [verify_eq_spec H dflt paths' old' new (by omega) hnc hlen] at h'
  simp only [Option.some.injEq, succVerify, Bool.and_eq_true, decide_eq_true_eq, hcount] at h h'
  obtain ⟨⟨_, h3⟩, h4⟩ := h
  obtain ⟨⟨_, h3'⟩, h4'⟩ := h'
  exact succGo_inj H new.count new.peaks _ _ _ _ _ (by rw [peakPos_length, h3]) (by rw [peakPos_length, h3']) h4 h4'

/-- **new peaks over old leafs are bound, the others are free**: given one accepted triple, replacing the new
    accumulator by another consistent one with the same leaf count is accepted *iff* the new peaks above the old
    peaks (those covering leafs of the old range) are unchanged; peaks made only of appended leafs may be anything. -/
theorem verify_new_peaks_constraint (paths : List D) (old new new' : Acc D) (hoc : old.count < 2 ^ 64)
    (hnc : new.count < 2 ^ 64) (hlen : new.peaks.length < 2 ^ 32) (hcount : new'.count = new.count)
    (hlen' : new'.peaks.length = new.peaks.length) (h : verify H dflt paths old new = some true) :
    verify H dflt paths old new' = some true ↔
      ∀ q ∈ peakPos old.count, new'.peaks[(locate new.count q.2).2.2]? = new.peaks[(locate new.count q.2).2.2]? := by
  rw [verify_eq_spec H dflt paths old new hoc hnc hlen] at h
  rw [verify_eq_spec H dflt paths old new' hoc (by omega) (by omega)]
  simp only [Option.some.injEq, succVerify, Bool.and_eq_true, decide_eq_true_eq, hcount, hlen'] at h ⊢
  obtain ⟨⟨⟨h1, h2⟩, h3⟩, h4⟩ := h
  constructor
  · rintro ⟨_, h4'⟩
    exact succGo_np_agree H new.count new.peaks new'.peaks _ _ _ (by rw [peakPos_length, h3]) h4 h4'
  · intro hall
    refine ⟨⟨⟨h1, h2⟩, h3⟩, ?_⟩
    rw [succGo_congr_np H new.count new'.peaks new.peaks _ _ _ hall]
    exact h4

/-- **completeness of the honest proof**: for every leaf list and every `m ≤ n < 2^64` the honest successor proof
    (for each old peak its sibling digests up to the new peak above it, highest old peak first) is accepted between
    the accumulators of the first `m` and the first `n` leaves -/
theorem honest_proof_verifies (g : Nat → D) (m n : Nat) (hmn : m ≤ n) (hn : n < 2 ^ 64) :
    verify H dflt (succPathsOf H g m n) ⟨m, peaks H m g⟩ ⟨n, peaks H n g⟩ = some true := by
  have hl : (peaks H n g).length < 2 ^ 32 := by
    rw [peaks_length]
    have := popCount_lt_two_pow 64 n hn
    omega
  rw [verify_eq_spec H dflt _ _ _ (by simp only; omega) hn hl]
  simp only [succVerify, hmn, peaks_length, decide_true, Bool.true_and, Option.some.injEq]
  rw [peaks_eq_map H m g]
  exact succGo_honest_complete H g n (peakPos m) (fun q hq => by
    have := peakPos_mem m q hq
    exact ⟨this.1, by omega⟩)
example : (3 : Nat) ≤ 5 ∧ 5 < 2 ^ 64 := by decide

omit [DecidableEq D] in
/-- **the generated proof is the honest proof**: on the accumulator of the first `m` leaves of a leaf list `g`,
    `new_from_batch_append` with the next `k` leaves returns exactly `succPathsOf H g m (m + k)` — for every old peak,
    highest first, the from-scratch digests of its siblings from its own level up to the new peak above it
    (the needed node indices found by walking `parent` / `right_sibling` / `left_sibling` up to the new peaks are the
    post-order indices of these sibling blocks, and the replay of the appends fills in each of them) -/
theorem new_from_batch_append_is_honest_proof (g : Nat → D) (m k : Nat) (hn : m + k < 2 ^ 63) :
    newFromBatchAppend H dflt ⟨m, peaks H m g⟩ ((List.range k).map (fun i => g (m + i)))
      = some (succPathsOf H g m (m + k)) :=
  gen_eq_honest H dflt g m k hn
example : newFromBatchAppend (fun a b : Nat => a + 2 * b) 0 ⟨3, peaks (fun a b : Nat => a + 2 * b) 3 (fun i => i + 1)⟩
    ((List.range 3).map (fun i => (fun i => i + 1) (3 + i))) = some [11, 4, 5] := by decide +kernel

/-- **completeness — the generated proof verifies**: for every *consistent* accumulator (as many peaks as the leaf
    count has set bits; the peak digests themselves are arbitrary — every accumulator reachable by `new`, `append`,
    `mutate_leaf`, … is of this form, `MmrAccumulator::init` can also build others) and every list of appended
    leafs with fewer than `2^63` leafs in total (the documented domain of `new_from_batch_append`): the appends
    succeed, `new_from_batch_append` returns (no panic, all loops terminate), and `verify` accepts the returned proof
    between the old accumulator and the resulting one.
    The excluded inputs: for an inconsistent old accumulator the Rust code panics (`peaks.pop().unwrap()`, too few
    peaks) or returns some digest list, and `verify` rejects *every* proof for it (`verify_rejects_inconsistent_old`);
    see the `example`s below. -/
theorem new_from_batch_append_verifies (old : Acc D) (leafs : List D)
    (hcons : TF.popCount old.count = old.peaks.length) (hn : old.count + leafs.length < 2 ^ 63) :
    ∃ new paths, Acc.appendAll H leafs old = some new ∧ newFromBatchAppend H dflt old leafs = some paths ∧
      verify H dflt paths old new = some true :=
  newFromBatchAppend_verifies H dflt old leafs hcons hn
example : ∃ new paths, Acc.appendAll (fun a b : Nat => a + 2 * b) [5, 6, 8] ⟨3, [7, 9]⟩ = some new ∧
    newFromBatchAppend (fun a b : Nat => a + 2 * b) 0 ⟨3, [7, 9]⟩ [5, 6, 8] = some paths ∧
    verify (fun a b : Nat => a + 2 * b) 0 paths ⟨3, [7, 9]⟩ new = some true :=
  new_from_batch_append_verifies _ _ _ _ (by decide +kernel) (by decide)
/-! the same instance evaluated by the kernel (peaks `7, 9` are arbitrary digests, not roots of any leaves),
    and the excluded inconsistent accumulators: too few peaks panic, too many yield a proof that is rejected -/
example : Acc.appendAll (fun a b : Nat => a + 2 * b) [5, 6, 8] ⟨3, [7, 9]⟩ = some ⟨6, [45, 22]⟩ := by decide +kernel
example : newFromBatchAppend (fun a b : Nat => a + 2 * b) 0 ⟨3, [7, 9]⟩ [5, 6, 8] = some [19, 5, 7] := by decide +kernel
example : verify (fun a b : Nat => a + 2 * b) 0 [19, 5, 7] ⟨3, [7, 9]⟩ ⟨6, [45, 22]⟩ = some true := by decide +kernel
example : newFromBatchAppend (fun a b : Nat => a + 2 * b) 0 ⟨1, []⟩ [5] = none := by decide +kernel
example : newFromBatchAppend (fun a b : Nat => a + 2 * b) 0 ⟨2, [3, 4]⟩ [5] = some [] ∧
    Acc.appendAll (fun a b : Nat => a + 2 * b) [5] ⟨2, [3, 4]⟩ = some ⟨3, [3, 4, 5]⟩ ∧
    verify (fun a b : Nat => a + 2 * b) 0 [] ⟨2, [3, 4]⟩ ⟨3, [3, 4, 5]⟩ = some false := by decide +kernel

/-! concrete accepted / rejected triples (non-vacuity of the hypotheses above), hash `a, b ↦ a + 2·b` on `Nat` -/
example : verify (fun a b : Nat => a + 2 * b) 0 [5] ⟨1, [3]⟩ ⟨2, [13]⟩ = some true := by decide +kernel
example : verify (fun a b : Nat => a + 2 * b) 0 [] ⟨1, [3]⟩ ⟨2, [13]⟩ = some false := by decide +kernel
example : verify (fun a b : Nat => a + 2 * b) 0 [5] ⟨1, [4]⟩ ⟨2, [13]⟩ = some false := by decide +kernel
example : verify (fun a b : Nat => a + 2 * b) 0 [5] ⟨1, [3]⟩ ⟨3, [13, 99]⟩ = some true := by decide +kernel
example : verify (fun a b : Nat => a + 2 * b) 0 [5] ⟨1, [3]⟩ ⟨3, [13, 100]⟩ = some true := by decide +kernel
example : newFromBatchAppend (fun a b : Nat => a + 2 * b) 0 ⟨1, [3]⟩ [5] = some [5] := by decide +kernel


/-! ## regenerated-from-source bridge (BT7)

`MmrSuccessorProof::verify` (`mmr_successor_proof.rs`) is regenerated from the source text on every run into
`TF/Gen/MmrProofLoops.lean` (`tools/rs2lean_mmr.py`): digests opaque (`D`), `Tip5::hash_pair` the parameter `H`,
`Digest::default()` the parameter `dflt`, `d0` the value read after a panic (the `_ok` twin is false there); the proof is its
field `paths`, an `MmrAccumulator` the pair `(leaf_count, peaks)` (both struct items are checked by the translator); the
accessors `num_leafs()` / `peaks()` are the regenerated `mmra_num_leafs` / `mmra_peaks`, the index function the regenerated
`leaf_index_to_mt_index_and_peak_index`.  The `for old_peak in old_mmra.peaks()` loop with its `return false` becomes a
recursion over the peak list returning `Except Bool state`.  `outcome ok v = if ok then v else none`.
Proofs: `TF/Proofs/GenBridgeMmrSucc.lean`. -/
section GenBridge
open TF.GenBridge.MmrPeaks (outcome outcome_eq_some)
open TF.Gen.Loops (mmrsp_verify mmrsp_verify_ok)

/-- regenerated `MmrSuccessorProof::verify` (the three consistency checks, `strip_top_bit`, the fold of every old peak up
    to the new peak covering its first leaf reading `paths.get(ap_index).copied().unwrap_or(Digest::default())`, the
    comparison with `new_mmra.peaks()[new_peak_index]`, the final `ap_index == self.paths.len()`) = hand model; every `H`,
    every digest list, every pair of accumulators with `u64` leaf counts and arbitrary peak lists -/
theorem gen_succ_verify_eq_model (d0 : D) (paths : List D) (old new : Acc D) (hoc : old.count < 2 ^ 64)
    (hnc : new.count < 2 ^ 64) :
    outcome (mmrsp_verify_ok H d0 dflt paths (old.count, old.peaks) (new.count, new.peaks))
        (mmrsp_verify H d0 dflt paths (old.count, old.peaks) (new.count, new.peaks))
      = verify H dflt paths old new :=
  TF.GenBridge.MmrSucc.gen_succ_verify_eq H d0 dflt paths old.count old.peaks new.count new.peaks hoc hnc
/-- non-vacuity: an accepted proof; the same with a surplus digest (rejected only by the final
    `ap_index == self.paths.len()`); a wrong digest; equal accumulators with an empty proof -/
example : let H := fun a b : Nat => a + 2 * b
    mmrsp_verify H 0 0 [19, 5, 7] (3, [7, 9]) (6, [45, 22]) = some true ∧
    mmrsp_verify_ok H 0 0 [19, 5, 7] (3, [7, 9]) (6, [45, 22]) = true ∧
    mmrsp_verify H 0 0 [19, 5, 7, 1] (3, [7, 9]) (6, [45, 22]) = some false ∧
    mmrsp_verify H 0 0 [19, 6, 7] (3, [7, 9]) (6, [45, 22]) = some false ∧
    mmrsp_verify H 0 0 [] (3, [7, 9]) (3, [7, 9]) = some true ∧
    mmrsp_verify H 0 0 [1] (3, [7, 9]) (3, [7, 9]) = some false := by decide +kernel

/-- **transfer** of `verify_total`, `verify_exact` and `verify_accepts_iff` to the code as it is in the source now: for
    any two accumulators with `u64` leaf counts and a new peak list shorter than 2^32 the regenerated `verify` does not
    panic (its `_ok` flag is true: no `ilog2(0)`, no failed `assert!`, no index out of bounds, no arithmetic overflow),
    terminates within its fuel, computes the reference verifier, and accepts exactly the proofs that split into one
    segment per old peak folding it into the new peak that covers its first leaf -/
theorem gen_succ_verify_transfer (d0 : D) (paths : List D) (old new : Acc D) (hoc : old.count < 2 ^ 64)
    (hnc : new.count < 2 ^ 64) (hlen : new.peaks.length < 2 ^ 32) :
    mmrsp_verify_ok H d0 dflt paths (old.count, old.peaks) (new.count, new.peaks) = true ∧
    mmrsp_verify H d0 dflt paths (old.count, old.peaks) (new.count, new.peaks)
      = some (succVerify H paths old.count old.peaks new.count new.peaks) ∧
    (mmrsp_verify H d0 dflt paths (old.count, old.peaks) (new.count, new.peaks) = some true ↔
      old.count ≤ new.count ∧ TF.popCount new.count = new.peaks.length ∧ TF.popCount old.count = old.peaks.length ∧
      ∃ segs : List (List D), segs.flatten = paths ∧ segs.length = old.peaks.length ∧
        ∀ (i : Nat) (p : D) (q : Nat × Nat) (seg : List D),
          old.peaks[i]? = some p → (peakPos old.count)[i]? = some q → segs[i]? = some seg →
          q.1 ≤ (locate new.count q.2).1 ∧ seg.length = (locate new.count q.2).1 - q.1 ∧
          new.peaks[(locate new.count q.2).2.2]? = some (foldBlk H (q.2 / 2 ^ q.1) p seg)) := by
  have hg := gen_succ_verify_eq_model H dflt d0 paths old new hoc hnc
  have he := verify_exact H dflt paths old new hoc hnc hlen
  rw [he] at hg
  obtain ⟨h1, h2⟩ := outcome_eq_some hg
  refine ⟨h1, h2, ?_⟩
  rw [← verify_accepts_iff H dflt paths old new hoc hnc hlen, he, h2]
example : (18446744073709551615 : Nat) < 2 ^ 64 ∧ ([7, 9] : List Nat).length < 2 ^ 32 := by decide

end GenBridge

end TF.C12
