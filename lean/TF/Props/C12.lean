import TF.Model.MmrSucc
import TF.Spec.MmrE
/-!
# C12 — MMR successor proofs are complete, sound and total  (work in progress: theorems follow)
-/
namespace TF.C12
open TF.Model.MmrE

/-- `verify` rejects when the old accumulator claims more leafs than the new one -/
theorem verify_rejects_shrinking {D : Type} [DecidableEq D] (H : D → D → D) (dflt : D) (paths : List D)
    (old new : Acc D) (h : old.count > new.count) : verify H dflt paths old new = some false := by
  simp [verify, h]

end TF.C12
