import TF.Proofs.PolyInterp
/-!
# C08 — interpolation, bulk evaluation, zerofiers and coset extrapolation are exact

Property theorems only (helper lemmas: `TF/Proofs/PolyInterp.lean`, polynomial core: `TF/Proofs/Poly.lean`).

Notation.  The model (`TF/Model/PolyInterp.lean`) is generic in the field; here it is instantiated with
`FieldOps.ofField K root` for an **arbitrary field `K`**.  A coefficient list `p` stands for the polynomial
`denote p : K[X]`.  `zpoly rs = ∏ (X - rᵢ)`.  `Interpolates xs ys f` is the certificate `deg f < |xs| ∧ f(xᵢ) = yᵢ`.
`none` is a panic of the Rust code.  The routines of other properties enter through `E : Ext K` with the contract
`E.Lawful` (`multiply`/`*`/`par_batch_multiply` return the product — C07; `reduce`/`fast_reduce` return the
remainder and `reduce_by_ntt_friendly_modulus` something congruent — C09).  Every threshold is a universally
quantified parameter (`T`, `R`, …); the thread count of the `par_*` routines is the parameter `threads`.
-/
open Polynomial
namespace TF.C08
open TF TF.Model.Poly TF.Model.PolyI

variable {K : Type} [Field K] (root : Nat → Option K)
local notation "FK" => FieldOps.ofField K root

/-- **Uniqueness certificate.**  For pairwise distinct abscissae, `deg f < n ∧ ∀ i, f(xᵢ) = yᵢ` determines `f`:
    whatever strategy returned a polynomial passing this check returned *the* interpolant. -/
theorem interpolant_unique (xs ys : List K) (hn : xs.Nodup) (hl : xs.length = ys.length) (f g : K[X])
    (hf : Interpolates xs ys f) (hg : Interpolates xs ys g) : f = g :=
  Interpolates.unique hn hl hf hg
example : Interpolates [0, 1] [1, 3] (C 1 + C 2 * X : ℚ[X]) := by
  refine ⟨?_, ?_⟩
  · have : (C 1 + C 2 * X : ℚ[X]).degree ≤ 1 := by
      refine (degree_add_le _ _).trans (max_le ?_ ?_)
      · exact degree_C_le.trans (by norm_num)
      · exact (degree_C_mul_X_le _)
    exact lt_of_le_of_lt this (by norm_num)
  · intro p hp; simp at hp; rcases hp with rfl | rfl <;> norm_num

/-- `evaluate` (Horner from the top coefficient, any storage) is `Polynomial.eval`. -/
theorem evaluate_spec (p : List K) (x : K) : evaluate FK p x = (denote p).eval x :=
  eval_denote root p x
example : evaluate (FieldOps.ofField ℚ) [1, 2, 0] 3 = 7 := by
  rw [evaluate_spec]; norm_num [denote]

section
variable {E : Ext K} (hE : E.Lawful)
include hE

omit hE in
/-- `smart_zerofier` (the in-place loop) returns `∏ (X - rᵢ)` for every root list, repetitions included. -/
theorem smart_zerofier_spec (roots : List K) : denote (smartZerofier FK roots) = zpoly roots :=
  denote_smartZerofier root roots
example : denote (smartZerofier (FieldOps.ofField ℚ) [2, 2]) = (X - C 2) * ((X - C 2) * 1) := by
  rw [smart_zerofier_spec]; simp [zpoly]

/-- `naive_zerofier` (fold of `*` over the linear factors) returns `∏ (X - rᵢ)`. -/
theorem naive_zerofier_spec (roots : List K) : denote (naiveZerofier FK E roots) = zpoly roots :=
  denote_naiveZerofier root hE roots

/-- `zerofier` and `fast_zerofier`, **for every cut-off `T ≥ 2`** (the source has 100): they return, and what they
    return is `∏ (X - rᵢ)`. -/
theorem zerofier_spec (T : Nat) (hT : 2 ≤ T) (roots : List K) :
    ∃ z, zerofierWith FK E T roots = some z ∧ denote z = zpoly roots := by
  obtain ⟨z, hz⟩ := Option.isSome_iff_exists.1 (zerofierWith_total root (E := E) T hT roots)
  exact ⟨z, hz, zerofierWith_sound root hE T roots z hz⟩

theorem fast_zerofier_spec (T : Nat) (hT : 2 ≤ T) (roots : List K) :
    ∃ z, fastZerofierWith FK E T roots = some z ∧ denote z = zpoly roots := by
  obtain ⟨l, hl, _⟩ := zerofier_spec root hE T hT (roots.take (roots.length / 2))
  obtain ⟨r, hr, _⟩ := zerofier_spec root hE T hT (roots.drop (roots.length / 2))
  have h : fastZerofierWith FK E T roots = some (E.mul l r) := by simp [fastZerofierWith, hl, hr]
  exact ⟨_, h, fastZerofierWith_sound root hE T roots _ h⟩

omit hE in
/-- the excluded cut-offs: for `T ≤ 1` the mutual recursion `zerofier ↔ fast_zerofier` of the Rust code never
    terminates on any input of length `≥ T` (the model reports `none` for every fuel). -/
theorem zerofier_diverges_for_degenerate_cutoff (T : Nat) (hT : T ≤ 1) (fuel : Nat) (roots : List K)
    (h : T ≤ roots.length) : zerofierT FK E T fuel roots = none :=
  zerofierT_diverges root T hT fuel roots h

/-- `par_zerofier`, **for every thread count and every cut-off**: whatever it returns is `∏ (X - rᵢ)`;
    for `T ≥ 2` it returns. -/
theorem par_zerofier_spec (T threads : Nat) (roots z : List K)
    (h : parZerofierWith FK E T threads roots = some z) : denote z = zpoly roots :=
  parZerofierWith_sound root hE T threads roots z h

/-- **Tree order.** `ZerofierTree::new_from_domain` (leaf chunks, padding to a power of two, the deque loop popping
    from the back and pushing to the front), for every leaf size `RT ≥ 1` and cut-off `T ≥ 2`: returns a tree whose
    points read left to right are the domain in input order and whose every node stores `∏ (X - x)` over the
    points below it; in particular the root zerofier is `∏ (X - xᵢ)` over the whole domain. -/
theorem zerofier_tree_in_order (RT T : Nat) (hRT : 0 < RT) (hT : 2 ≤ T) (domain : List K) :
    ∃ t, newFromDomainWith FK E RT T domain = some t ∧ t.points = domain ∧ t.Good ∧
      denote (t.zerofier FK) = zpoly domain := by
  obtain ⟨t, ht, hg, hp⟩ := newFromDomainWith_total root hE RT T hRT hT domain
  exact ⟨t, ht, hp, hg, by rw [hg.zerofier root, hp]⟩

/-- … and for *every* parameter value, whatever tree is returned has these properties. -/
theorem zerofier_tree_sound (RT T : Nat) (domain : List K) (t : ZTree K)
    (h : newFromDomainWith FK E RT T domain = some t) : t.points = domain ∧ t.Good :=
  ⟨(newFromDomainWith_sound root hE RT T domain t h).2, (newFromDomainWith_sound root hE RT T domain t h).1⟩

/-- `divide_and_conquer_batch_evaluate` over a correct tree returns the evaluations in the order of the points
    (given `reduce` returns the remainder). -/
theorem divide_and_conquer_batch_evaluate_spec (p : List K) (t : ZTree K) (ht : t.Good) :
    dcEval FK E p t = some (t.points.map (fun x => (denote p).eval x)) :=
  dcEval_spec root hE p t ht

omit hE in
/-- `iterative_batch_evaluate` -/
theorem iterative_batch_evaluate_spec (p domain : List K) :
    iterativeBatchEvaluate FK p domain = domain.map (fun x => (denote p).eval x) := by
  unfold iterativeBatchEvaluate
  exact List.map_congr_left (fun x _ => eval_denote root p x)

/-- **Bulk evaluation.** `batch_evaluate` — zero polynomial, reduce-then-evaluate and tree strategy, selected by
    any ratio `R` — returns the Horner evaluations in input order, for every polynomial, every domain
    (repetitions, empty), every leaf size `RT ≥ 1` and cut-off `T ≥ 2`. -/
theorem batch_evaluate_spec (R RT T : Nat) (hRT : 0 < RT) (hT : 2 ≤ T) (p domain : List K) :
    batchEvaluateWith FK E R RT T p domain = some (domain.map (fun x => (denote p).eval x)) :=
  batchEvaluateWith_total root hE R RT T hRT hT p domain

/-- `par_batch_evaluate`, **every thread count**: whatever is returned are the evaluations in input order. -/
theorem par_batch_evaluate_spec (R RT T threads : Nat) (p domain out : List K)
    (h : parBatchEvaluateWith FK E R RT T threads p domain = some out) :
    out = domain.map (fun x => (denote p).eval x) :=
  parBatchEvaluateWith_sound root hE R RT T threads p domain out h

end

/-- the thresholds the theorems are instantiated with by the driver come from the source -/
example : TF.Gen.FAST_ZEROFIER_CUTOFF_THRESHOLD = 100 := rfl

end TF.C08
