import TF.Proofs.PolyInterp
import TF.Proofs.PolyInterpBary
import TF.Proofs.PolyInterpEO
import TF.Proofs.PolyInterpMemo
import TF.Proofs.PolyInterpDup
import TF.Proofs.PolyApi
/-!
# C08 — interpolation, bulk evaluation, zerofiers and coset extrapolation are exact

Property theorems only (helper lemmas: `TF/Proofs/PolyInterp.lean`, polynomial core: `TF/Proofs/Poly.lean`).

Notation.  The model (`TF/Model/PolyInterp.lean`) is generic in the field; here it is instantiated with
`FieldOps.ofField K root` for an **arbitrary field `K`**.  A coefficient list `p` stands for the polynomial
`denote p : K[X]`.  `zpoly rs = ∏ (X - rᵢ)`.  `Interpolates xs ys f` is the certificate `deg f < |xs| ∧ f(xᵢ) = yᵢ`.
`none` is a panic of the Rust code.  The routines of other properties enter through `E : Ext K` with the contract
`E.Lawful` (`multiply`/`*`/`par_batch_multiply` return the product — C07; `reduce`/`fast_reduce` return the
remainder and `reduce_by_ntt_friendly_modulus` something congruent — C09).  Every threshold is a universally
quantified parameter (`T`, `R`, …); the thread count of the `par_*` routines is the parameter `threads`.
-/
open Polynomial
namespace TF.C08
open TF TF.Model.Poly TF.Model.PolyI

variable {K : Type} [Field K] (root : Nat → Option K)
local notation "FK" => FieldOps.ofField K root

/-- **Uniqueness certificate.**  For pairwise distinct abscissae, `deg f < n ∧ ∀ i, f(xᵢ) = yᵢ` determines `f`:
    whatever strategy returned a polynomial passing this check returned *the* interpolant. -/
theorem interpolant_unique (xs ys : List K) (hn : xs.Nodup) (hl : xs.length = ys.length) (f g : K[X])
    (hf : Interpolates xs ys f) (hg : Interpolates xs ys g) : f = g :=
  Interpolates.unique hn hl hf hg
example : Interpolates [0, 1] [1, 3] (C 1 + C 2 * X : ℚ[X]) := by
  refine ⟨?_, ?_⟩
  · have : (C 1 + C 2 * X : ℚ[X]).degree ≤ 1 := by
      refine (degree_add_le _ _).trans (max_le ?_ ?_)
      · exact degree_C_le.trans (by norm_num)
      · exact (degree_C_mul_X_le _)
    exact lt_of_le_of_lt this (by norm_num)
  · intro p hp; simp at hp; rcases hp with rfl | rfl <;> norm_num

/-- `evaluate` (Horner from the top coefficient, any storage) is `Polynomial.eval`. -/
theorem evaluate_spec (p : List K) (x : K) : evaluate FK p x = (denote p).eval x :=
  eval_denote root p x
example : evaluate (FieldOps.ofField ℚ) [1, 2, 0] 3 = 7 := by
  rw [evaluate_spec]; norm_num [denote]

section
variable {E : Ext K} (hE : E.Lawful)
include hE

omit hE in
/-- `smart_zerofier` (the in-place loop) returns `∏ (X - rᵢ)` for every root list, repetitions included. -/
theorem smart_zerofier_spec (roots : List K) : denote (smartZerofier FK roots) = zpoly roots :=
  denote_smartZerofier root roots
example : denote (smartZerofier (FieldOps.ofField ℚ) [2, 2]) = (X - C 2) * ((X - C 2) * 1) := by
  rw [smart_zerofier_spec]; simp [zpoly]

/-- `naive_zerofier` (fold of `*` over the linear factors) returns `∏ (X - rᵢ)`. -/
theorem naive_zerofier_spec (roots : List K) : denote (naiveZerofier FK E roots) = zpoly roots :=
  denote_naiveZerofier root hE roots

/-- `zerofier` and `fast_zerofier`, **for every cut-off `T ≥ 2`** (the source has 100): they return, and what they
    return is `∏ (X - rᵢ)`. -/
theorem zerofier_spec (T : Nat) (hT : 2 ≤ T) (roots : List K) :
    ∃ z, zerofierWith FK E T roots = some z ∧ denote z = zpoly roots := by
  obtain ⟨z, hz⟩ := Option.isSome_iff_exists.1 (zerofierWith_total root (E := E) T hT roots)
  exact ⟨z, hz, zerofierWith_sound root hE T roots z hz⟩

theorem fast_zerofier_spec (T : Nat) (hT : 2 ≤ T) (roots : List K) :
    ∃ z, fastZerofierWith FK E T roots = some z ∧ denote z = zpoly roots := by
  obtain ⟨l, hl, _⟩ := zerofier_spec root hE T hT (roots.take (roots.length / 2))
  obtain ⟨r, hr, _⟩ := zerofier_spec root hE T hT (roots.drop (roots.length / 2))
  have h : fastZerofierWith FK E T roots = some (E.mul l r) := by simp [fastZerofierWith, hl, hr]
  exact ⟨_, h, fastZerofierWith_sound root hE T roots _ h⟩

omit hE in
/-- the excluded cut-offs: for `T ≤ 1` the mutual recursion `zerofier ↔ fast_zerofier` of the Rust code never
    terminates on any input of length `≥ T` (the model reports `none` for every fuel). -/
theorem zerofier_diverges_for_degenerate_cutoff (T : Nat) (hT : T ≤ 1) (fuel : Nat) (roots : List K)
    (h : T ≤ roots.length) : zerofierT FK E T fuel roots = none :=
  zerofierT_diverges root T hT fuel roots h

/-- `par_zerofier`, **for every thread count and every cut-off**: whatever it returns is `∏ (X - rᵢ)`;
    for `T ≥ 2` it returns. -/
theorem par_zerofier_spec (T threads : Nat) (roots z : List K)
    (h : parZerofierWith FK E T threads roots = some z) : denote z = zpoly roots :=
  parZerofierWith_sound root hE T threads roots z h

/-- **Tree order.** `ZerofierTree::new_from_domain` (leaf chunks, padding to a power of two, the deque loop popping
    from the back and pushing to the front), for every leaf size `RT ≥ 1` and cut-off `T ≥ 2`: returns a tree whose
    points read left to right are the domain in input order and whose every node stores `∏ (X - x)` over the
    points below it; in particular the root zerofier is `∏ (X - xᵢ)` over the whole domain. -/
theorem zerofier_tree_in_order (RT T : Nat) (hRT : 0 < RT) (hT : 2 ≤ T) (domain : List K) :
    ∃ t, newFromDomainWith FK E RT T domain = some t ∧ t.points = domain ∧ t.Good ∧
      denote (t.zerofier FK) = zpoly domain := by
  obtain ⟨t, ht, hg, hp⟩ := newFromDomainWith_total root hE RT T hRT hT domain
  exact ⟨t, ht, hp, hg, by rw [hg.zerofier root, hp]⟩

/-- … and for *every* parameter value, whatever tree is returned has these properties. -/
theorem zerofier_tree_sound (RT T : Nat) (domain : List K) (t : ZTree K)
    (h : newFromDomainWith FK E RT T domain = some t) : t.points = domain ∧ t.Good :=
  ⟨(newFromDomainWith_sound root hE RT T domain t h).2, (newFromDomainWith_sound root hE RT T domain t h).1⟩

/-- `divide_and_conquer_batch_evaluate` over a correct tree returns the evaluations in the order of the points
    (given `reduce` returns the remainder). -/
theorem divide_and_conquer_batch_evaluate_spec (p : List K) (t : ZTree K) (ht : t.Good) :
    dcEval FK E p t = some (t.points.map (fun x => (denote p).eval x)) :=
  dcEval_spec root hE p t ht

omit hE in
/-- `iterative_batch_evaluate` -/
theorem iterative_batch_evaluate_spec (p domain : List K) :
    iterativeBatchEvaluate FK p domain = domain.map (fun x => (denote p).eval x) := by
  unfold iterativeBatchEvaluate
  exact List.map_congr_left (fun x _ => eval_denote root p x)

/-- **Bulk evaluation.** `batch_evaluate` — zero polynomial, reduce-then-evaluate and tree strategy, selected by
    any ratio `R` — returns the Horner evaluations in input order, for every polynomial, every domain
    (repetitions, empty), every leaf size `RT ≥ 1` and cut-off `T ≥ 2`. -/
theorem batch_evaluate_spec (R RT T : Nat) (hRT : 0 < RT) (hT : 2 ≤ T) (p domain : List K) :
    batchEvaluateWith FK E R RT T p domain = some (domain.map (fun x => (denote p).eval x)) :=
  batchEvaluateWith_total root hE R RT T hRT hT p domain

/-- `par_batch_evaluate`, **every thread count**: whatever is returned are the evaluations in input order. -/
theorem par_batch_evaluate_spec (R RT T threads : Nat) (p domain out : List K)
    (h : parBatchEvaluateWith FK E R RT T threads p domain = some out) :
    out = domain.map (fun x => (denote p).eval x) :=
  parBatchEvaluateWith_sound root hE R RT T threads p domain out h

/-- **Lagrange interpolation** (synthetic division of the zerofier by `X - xᵢ`, Horner evaluation of the cofactor,
    weighted sum) through pairwise distinct abscissae: returns a polynomial passing the certificate — hence, by
    `interpolant_unique`, *the* interpolant — for every zerofier cut-off `T ≥ 2`. -/
theorem lagrange_interpolate_spec (T : Nat) (hT : 2 ≤ T) (domain values : List K) (hn : domain.Nodup)
    (hl : domain.length = values.length) :
    ∃ f, lagrangeInterpolateWith FK E T domain values = some f ∧ Interpolates domain values (denote f) := by
  obtain ⟨f, h1, _, h2⟩ := lagrangeInterpolateWith_spec root hE T domain values hn hl
    (zerofierWith_total root (E := E) T hT domain)
  exact ⟨f, h1, h2⟩

/-- **Divide and conquer** `f = L·Z_R + R·Z_L` (`fast_interpolate`): for every sequential cut-off, ratio, leaf size
    `≥ 1` and zerofier cut-off `≥ 2`, through any `n ≥ 1` pairwise distinct abscissae. -/
theorem fast_interpolate_spec (t : Thr) (hT : 2 ≤ t.zf) (hRT : 0 < t.rt) (domain values : List K)
    (hne : domain ≠ []) (hn : domain.Nodup) (hl : domain.length = values.length) :
    ∃ f, fastInterpolateWith FK E t domain values = some f ∧ Interpolates domain values (denote f) := by
  have hbev : BevOK (bevSeq FK E t) := fun p d => batchEvaluateWith_total root hE t.ratio t.rt t.zf hRT hT p d
  apply fastInterpolateStep_spec root hE t.zf hT _ _ hbev domain values _ hne hn hl
  intro d v hd hlen hnd hlv
  exact interpolateFuel_spec root hE t hT t.seq _ hbev (d.length + 1) d v hd (by omega) hnd hlv

/-- **`interpolate`** — Lagrange up to the cut-off, divide and conquer above — **for every value of every
    threshold** (`t.seq`, `t.ratio` arbitrary; `t.rt ≥ 1`, `t.zf ≥ 2`): the unique interpolant. -/
theorem interpolate_spec (t : Thr) (hT : 2 ≤ t.zf) (hRT : 0 < t.rt) (domain values : List K)
    (hne : domain ≠ []) (hn : domain.Nodup) (hl : domain.length = values.length) :
    ∃ f, interpolateWith FK E t domain values = some f ∧ Interpolates domain values (denote f) := by
  have hbev : BevOK (bevSeq FK E t) := fun p d => batchEvaluateWith_total root hE t.ratio t.rt t.zf hRT hT p d
  exact interpolateFuel_spec root hE t hT t.seq _ hbev (domain.length + 1) domain values hne (by omega) hn hl

/-- **`par_interpolate` / `par_fast_interpolate`, every thread count `≥ 1`**, every threshold as above. -/
theorem par_interpolate_spec (t : Thr) (hT : 2 ≤ t.zf) (hRT : 0 < t.rt) (threads : Nat) (hth : 0 < threads)
    (domain values : List K) (hne : domain ≠ []) (hn : domain.Nodup) (hl : domain.length = values.length) :
    ∃ f, parInterpolateWith FK E t threads domain values = some f ∧ Interpolates domain values (denote f) := by
  have hbev : BevOK (bevPar FK E t threads) :=
    fun p d => parBatchEvaluateWith_total root hE t.ratio t.rt t.zf threads hRT hT hth p d
  exact interpolateFuel_spec root hE t hT t.par _ hbev (domain.length + 1) domain values hne (by omega) hn hl

theorem par_fast_interpolate_spec (t : Thr) (hT : 2 ≤ t.zf) (hRT : 0 < t.rt) (threads : Nat) (hth : 0 < threads)
    (domain values : List K) (hne : domain ≠ []) (hn : domain.Nodup) (hl : domain.length = values.length) :
    ∃ f, parFastInterpolateWith FK E t threads domain values = some f ∧ Interpolates domain values (denote f) := by
  have hbev : BevOK (bevPar FK E t threads) :=
    fun p d => parBatchEvaluateWith_total root hE t.ratio t.rt t.zf threads hRT hT hth p d
  apply fastInterpolateStep_spec root hE t.zf hT _ _ hbev domain values _ hne hn hl
  intro d v hd hlen hnd hlv
  exact interpolateFuel_spec root hE t hT t.par _ hbev (d.length + 1) d v hd (by omega) hnd hlv

/-- **`batch_fast_interpolate`** (batched divide and conquer with the two `HashMap`s keyed by the first and last
    point of a half): for pairwise distinct abscissae no key is ever hit twice, and every row of the value matrix is
    interpolated — for every batch cut-off `≥ 2` (the source has 16; below 2 the code indexes `domain[half - 1]`
    with `half = 0`), ratio, leaf size `≥ 1`, zerofier cut-off `≥ 2`. -/
theorem batch_fast_interpolate_spec (t : Thr) (hT : 2 ≤ t.zf) (hRT : 0 < t.rt) (hB : 2 ≤ t.batch)
    (domain : List K) (matrix : List (List K)) (hne : domain ≠ []) (hn : domain.Nodup)
    (hrows : ∀ row ∈ matrix, row.length = domain.length) :
    ∃ res, batchFastInterpolateWith FK E t domain matrix = some res ∧
      List.Forall₂ (fun row r => Interpolates domain row (denote r)) matrix res :=
  batchFastInterpolateWith_spec root hE t hT hRT hB domain matrix hne hn hrows

/-- the excluded point sets: with a **repeated abscissa** every strategy panics — `lagrange_interpolate` divides by
    `summand_eval = 0`, the divide-and-conquer step batch-inverts a zero offset or recurses into a half with the
    repetition — for `interpolate` and `par_interpolate`, every cut-off, thread count `≥ 1`, leaf size `≥ 1`,
    zerofier cut-off `≥ 2`. -/
theorem interpolate_repeated_abscissae_panics (t : Thr) (hT : 2 ≤ t.zf) (hRT : 0 < t.rt) (threads : Nat)
    (hth : 0 < threads) (domain values : List K) (hdup : ¬ domain.Nodup) :
    interpolateWith FK E t domain values = none ∧ parInterpolateWith FK E t threads domain values = none ∧
      (domain.length = values.length → lagrangeInterpolateWith FK E t.zf domain values = none) :=
  ⟨interpolateFuel_dup root hE t t.seq _
      (fun p d => batchEvaluateWith_total root hE t.ratio t.rt t.zf hRT hT p d) _ domain values hdup,
   interpolateFuel_dup root hE t t.par _
      (fun p d => parBatchEvaluateWith_total root hE t.ratio t.rt t.zf threads hRT hT hth p d) _ domain values hdup,
   fun hl => lagrangeInterpolateWith_dup root hE t.zf domain values hdup hl⟩
example : ¬ ([3, 5, 3] : List ℚ).Nodup := by decide

omit hE in
/-- the excluded inputs: `interpolate` / `par_interpolate` panic on an empty domain and on lists of different
    lengths (the two `assert!`s), for every threshold. -/
theorem interpolate_rejects (t : Thr) (threads : Nat) (domain values : List K)
    (h : domain = [] ∨ domain.length ≠ values.length) :
    interpolateWith FK E t domain values = none ∧ parInterpolateWith FK E t threads domain values = none := by
  unfold interpolateWith parInterpolateWith
  rcases h with rfl | h
  · simp [interpolateFuel]
  · constructor <;>
    · rw [interpolateFuel]
      split
      · rfl
      · rw [if_pos (by simpa using h)]

end

/-! ### cosets.  `hN : Ext.LawfulNtt root E` is the contract of C06: `ntt` evaluates at the powers of `ω = root n`,
`intt` returns the polynomial of degree `< n` with the given values there (for pairwise distinct powers, i.e. a
primitive `ω`).  `cosetDomain offset ω n = [offset·ω^i | i < n]`. -/
section
variable {E : Ext K} (hE : E.Lawful) (hN : Ext.LawfulNtt root E)
include hN

/-- `fast_coset_evaluate` = the Horner values on the coset, in order; it panics exactly when the order is not
    above the degree or not a power of two (`fast_coset_evaluate_panics`). -/
theorem fast_coset_evaluate_spec (p : List K) (offset : K) (order : Nat) (ω : K) (hω : root order = some ω)
    (out : List K) (h : fastCosetEvaluate FK E p offset order = some out) :
    out = (cosetDomain offset ω order).map (fun x => (denote p).eval x) :=
  fastCosetEvaluate_sound root hN p offset order ω hω out h

omit hN in
theorem fast_coset_evaluate_panics (p : List K) (offset : K) (order : Nat) :
    fastCosetEvaluate FK E p offset order = none ↔
      ¬ (degSucc FK p ≤ order ∧ (order = 0 ∨ TF.Model.PolyI.isPow2 order = true)) := by
  unfold fastCosetEvaluate nttChecked
  simp only [TF.Model.PolyI.length_resize]
  by_cases h1 : degSucc FK p ≤ order <;> by_cases h2 : order = 0 <;> by_cases h3 : TF.Model.PolyI.isPow2 order = true <;>
    simp [h1, h2, h3]

/-- `fast_coset_interpolate` returns the unique polynomial of degree `< n` through the values on the coset. -/
theorem fast_coset_interpolate_spec (offset : K) (values : List K) (ω : K) (hω : root values.length = some ω)
    (hprim : ((List.range values.length).map (fun i => ω ^ i)).Nodup) (f : List K)
    (h : fastCosetInterpolate FK E offset values = some f) :
    Interpolates (cosetDomain offset ω values.length) values (denote f) :=
  fastCosetInterpolate_sound root hN offset values ω hω hprim f h

include hE

/-- the naive strategy (INTT, scale by the inverse offset, bulk evaluation), any cut-off values -/
theorem naive_coset_extrapolate_spec (t : Thr) (offset : K) (codeword points : List K) (ω : K)
    (hω : root codeword.length = some ω) (hprim : ((List.range codeword.length).map (fun i => ω ^ i)).Nodup)
    (out : List K) (h : naiveCosetExtrapolate FK E t offset codeword points = some out) :
    ∃ g : K[X], Interpolates (cosetDomain offset ω codeword.length) codeword g ∧
      out = points.map (fun x => g.eval x) :=
  naiveCosetExtrapolate_sound root hN hE t offset codeword points ω hω hprim out h

variable (hR : RootsOK root)
include hR

/-- **`fast_modular_coset_interpolate`, all three arms** (Lagrange / INTT-then-reduce / even-odd recursion with the
    sparse zerofiers), **for every value of the two cut-offs** and every codeword length `2^k`: the result is the
    coset interpolant modulo the modulus.  `hR` is what C06 proves about the table of roots (`root (2n)² = root n`,
    `root (2n)^n = -1`, distinct powers); `hm2` says that the translated constant `MINUS_TWO_INVERSE` is `(-2)⁻¹`
    in the field. -/
theorem fast_modular_coset_interpolate_spec (t : Thr) (hT : 2 ≤ t.zf) (modulus : List K)
    (hm2 : ((TF.Gen.MINUS_TWO_INVERSE : ℕ) : K) * (-2) = 1) (k : Nat) (values : List K) (offset : K)
    (hlen : values.length = 2 ^ k) (hoff : offset ≠ 0) (ω : K) (hω : root (2 ^ k) = some ω) (r : List K)
    (h : fmci FK E t values offset modulus = some r) :
    ∃ g : K[X], Interpolates (cosetDomain offset ω (2 ^ k)) values g ∧ denote r = g % denote modulus :=
  fmci_sound root hE hN hR t hT modulus hm2 k values offset hlen hoff ω hω r h

/-- **Extrapolation = evaluate(interpolate on the coset)** for `coset_extrapolate`: both strategies, all three arms
    of the fast one, every value of the three cut-offs, every codeword length `2^k`, every number of points, every
    offset `≠ 0`: the output is `g` evaluated at the points in order, `g` *the* polynomial of degree `< 2^k` through
    the codeword on `offset·⟨ω⟩`. -/
theorem coset_extrapolate_spec (t : Thr) (hT : 2 ≤ t.zf)
    (hm2 : ((TF.Gen.MINUS_TWO_INVERSE : ℕ) : K) * (-2) = 1) (k : Nat) (offset : K) (codeword points : List K)
    (hlen : codeword.length = 2 ^ k) (hoff : offset ≠ 0) (ω : K) (hω : root (2 ^ k) = some ω)
    (out : List K) (h : cosetExtrapolateWith FK E t offset codeword points = some out) :
    ∃ g : K[X], Interpolates (cosetDomain offset ω (2 ^ k)) codeword g ∧ out = points.map (fun x => g.eval x) :=
  cosetExtrapolateWith_sound_full root hE hN hR t hT hm2 k offset codeword points hlen hoff ω hω out h

/-- **Batch / parallel batch extrapolation** (`batch_coset_extrapolate`, `par_batch_coset_extrapolate` — one model,
    the parallel iterator is order preserving): each of the `⌊|codewords| / 2^k⌋` codewords is extrapolated as by
    interpolate-then-evaluate and the results are concatenated in order; a trailing partial codeword is ignored.
    Both strategies, all arms, every cut-off value. -/
theorem batch_coset_extrapolate_spec (t : Thr) (hT : 2 ≤ t.zf)
    (hm2 : ((TF.Gen.MINUS_TWO_INVERSE : ℕ) : K) * (-2) = 1) (k : Nat) (offset : K) (codewords points : List K)
    (hoff : offset ≠ 0) (ω : K) (hω : root (2 ^ k) = some ω)
    (out : List K) (h : batchCosetExtrapolateWith FK E t offset (2 ^ k) codewords points = some out) :
    ∃ parts, List.Forall₂ (SliceOK offset ω (2 ^ k) points) (codewordSlices (2 ^ k) codewords) parts ∧
      out = parts.flatten :=
  batchCosetExtrapolateWith_sound_full root hE hN hR t hT hm2 k offset codewords points hoff ω hω out h

end

/-- the hypotheses on the table of roots are satisfiable: over `ℚ` with `root 1 = 1`, `root 2 = -1` (and no other
    roots) — and `MINUS_TWO_INVERSE` is `(-2)⁻¹` modulo `P` -/
example : RootsOK (fun n => if n = 1 then some (1 : ℚ) else if n = 2 then some (-1) else none) where
  sq k ω h := by
    have hk : k = 0 := by
      by_contra hk
      have h4 : 4 ≤ 2 ^ (k + 1) := by
        have : 2 ^ 2 ≤ 2 ^ (k + 1) := Nat.pow_le_pow_right (by norm_num) (by omega)
        simpa using this
      rw [if_neg (by omega), if_neg (by omega)] at h
      exact absurd h (by simp)
    subst hk
    simp at h; subst h; simp
  neg k ω h := by
    have hk : k = 0 := by
      by_contra hk
      have h4 : 4 ≤ 2 ^ (k + 1) := by
        have : 2 ^ 2 ≤ 2 ^ (k + 1) := Nat.pow_le_pow_right (by norm_num) (by omega)
        simpa using this
      rw [if_neg (by omega), if_neg (by omega)] at h
      exact absurd h (by simp)
    subst hk
    simp at h; subst h; simp
  prim k ω h := by
    have hk : k = 0 ∨ k = 1 := by
      by_contra hk
      have h4 : 4 ≤ 2 ^ k := by
        have : 2 ^ 2 ≤ 2 ^ k := Nat.pow_le_pow_right (by norm_num) (by omega)
        simpa using this
      rw [if_neg (by omega), if_neg (by omega)] at h
      exact absurd h (by simp)
    rcases hk with rfl | rfl
    · simp
    · simp at h; subst h; decide
example : (TF.Gen.MINUS_TWO_INVERSE * (TF.Gen.P - 2)) % TF.Gen.P = 1 := by decide

section
/-- **`barycentric_evaluate`** = evaluation of the subgroup interpolant: for every codeword of length `n ≥ 1` on the
    powers of a primitive `n`-th root `ω = root n` and every indeterminate outside the subgroup, the result is
    `f(x)` for *the* polynomial `f` with `deg f < n`, `f(ω^i) = codeword[i]`. -/
theorem barycentric_evaluate_spec (codeword : List K) (x : K) (ω : K) (hn : 0 < codeword.length)
    (hω : root codeword.length = some ω) (hω1 : ω ^ codeword.length = 1)
    (hprim : ((List.range codeword.length).map (fun i => ω ^ i)).Nodup)
    (hx : x ∉ (List.range codeword.length).map (fun i => ω ^ i))
    (f : K[X]) (hf : Interpolates ((List.range codeword.length).map (fun i => ω ^ i)) codeword f) :
    barycentricEvaluate FK codeword x = some (f.eval x) :=
  barycentricEvaluate_spec root codeword x ω hn hω hω1 hprim hx f hf
example : ((-1 : ℚ)) ^ 2 = 1 ∧ (5 : ℚ) ∉ (List.range 2).map (fun i => (-1 : ℚ) ^ i) := by
  constructor
  · norm_num
  · decide

/-- the excluded indeterminates: inside the subgroup the code divides by zero (batch inversion of `x - ω^i`) and
    panics. -/
theorem barycentric_evaluate_panics_in_domain (codeword : List K) (x : K) (ω : K)
    (hω : root codeword.length = some ω) (hx : x ∈ (List.range codeword.length).map (fun i => ω ^ i)) :
    barycentricEvaluate FK codeword x = none :=
  barycentricEvaluate_in_domain root codeword x ω hω hx
end

/-- a primitive 4th root of unity in `ℚ(i)`-free form: the hypotheses on `ω` are satisfiable, e.g. `ω = -1`, `n = 2` -/
example : ((List.range 2).map (fun i => (-1 : ℚ) ^ i)).Nodup := by decide

/-- the contracts on the routines of C06/C07/C09 are satisfiable (so none of the theorems above is vacuous) … -/
example : (Ext.ideal : Ext ℚ).Lawful := Ext.ideal_lawful
example (root : Nat → Option ℚ) : (Ext.idealNtt root).Lawful ∧ Ext.LawfulNtt root (Ext.idealNtt root) :=
  ⟨Ext.idealNtt_lawful root, Ext.idealNtt_lawfulNtt root⟩
/-- … and so are the hypotheses on the points -/
example : ([0, 1, 2] : List ℚ).Nodup ∧ ([0, 1, 2] : List ℚ).length = ([5, 7, 11] : List ℚ).length
    ∧ ([0, 1, 2] : List ℚ) ≠ [] := by decide
example : 2 ≤ Thr.src.zf ∧ 0 < Thr.src.rt ∧ 2 ≤ Thr.src.batch := by decide

/-- the thresholds the theorems are instantiated with by the driver come from the source -/
example : TF.Gen.FAST_ZEROFIER_CUTOFF_THRESHOLD = 100 := rfl


/-! ### G07 — public functions that had no theorem before the API audit (docs/POLY_API_COVERAGE.md) -/
section api

/-- `evaluate::<Ind, Eval>` of a polynomial over `K` at a point of an extension field `L` (e.g. a base-field
    polynomial at an extension-field point) is evaluation along the embedding, `eval₂ (algebraMap K L)`. -/
theorem evaluate_mixed_spec {L : Type} [Field L] [Algebra K L] (rootL : Nat → Option L) (p : List K) (x : L) :
    evaluateLift (FieldOps.ofField L rootL) (algebraMap K L) p x = (denote p).eval₂ (algebraMap K L) x :=
  evaluateLift_spec rootL p x
example : evaluateLift (FieldOps.ofField ℚ) (algebraMap ℚ ℚ) [1, 2, 0] 3 = 7 := by
  rw [evaluate_mixed_spec]; norm_num [denote]

/-- **`are_colinear_3`**: true exactly when the three abscissae are pairwise distinct and one line `y = a·x + b`
    passes through the three points. -/
theorem are_colinear_3_spec (p0 p1 p2 : K × K) :
    areColinear3 FK p0 p1 p2 = true ↔
      (p0.1 ≠ p1.1 ∧ p1.1 ≠ p2.1 ∧ p2.1 ≠ p0.1) ∧ ∃ a b : K, OnLine a b p0 ∧ OnLine a b p1 ∧ OnLine a b p2 :=
  areColinear3_iff root p0 p1 p2
example : OnLine (3 : ℚ) 5 (1, 8) ∧ OnLine (3 : ℚ) 5 (2, 11) := by constructor <;> norm_num [OnLine]

/-- **`are_colinear`**, every list: true exactly when there are at least three points, the abscissae are pairwise
    distinct and one line passes through all of them (the division by `x₀ - x₁` cannot panic: it is only reached
    for distinct abscissae). -/
theorem are_colinear_spec (points : List (K × K)) :
    areColinear FK points = true ↔
      3 ≤ points.length ∧ (points.map (·.1)).Nodup ∧ ∃ a b : K, ∀ p ∈ points, OnLine a b p :=
  areColinear_iff root points
example : ([(1, 8), (2, 11), (4, 17)] : List (ℚ × ℚ)).map (·.1) = [1, 2, 4] := rfl

/-- the two colinearity tests agree on three points -/
theorem are_colinear_agrees_with_3 (p0 p1 p2 : K × K) :
    areColinear FK [p0, p1, p2] = areColinear3 FK p0 p1 p2 := by
  rw [Bool.eq_iff_iff, are_colinear_spec, are_colinear_3_spec]
  constructor
  · rintro ⟨_, hn, a, b, h⟩
    simp only [List.map_cons, List.map_nil, List.nodup_cons, List.mem_cons, List.not_mem_nil, or_false,
      not_or, List.nodup_nil, and_true] at hn
    exact ⟨⟨hn.1.1, hn.2.1, fun h' => hn.1.2 h'.symm⟩, a, b, h p0 (by simp), h p1 (by simp), h p2 (by simp)⟩
  · rintro ⟨⟨h01, h12, h20⟩, a, b, e0, e1, e2⟩
    refine ⟨by simp, ?_, a, b, ?_⟩
    · simp only [List.map_cons, List.map_nil, List.nodup_cons, List.mem_cons, List.not_mem_nil, or_false,
        not_or, List.nodup_nil, and_true]
      exact ⟨⟨h01, fun h' => h20 h'.symm⟩, h12, not_false⟩
    · intro p hp
      simp only [List.mem_cons, List.not_mem_nil, or_false] at hp
      rcases hp with rfl | rfl | rfl <;> assumption
example : (1 : ℚ) ≠ 2 ∧ (2 : ℚ) ≠ 4 ∧ (4 : ℚ) ≠ 1 := by norm_num

/-- **`get_colinear_y`** for distinct abscissae: it does not panic and returns the ordinate at `x` of *the* line
    through the two points (there is one, and every line through them gives this value) — i.e. the value of the
    degree-≤1 interpolant; for equal abscissae it panics (`assert_ne!`). -/
theorem get_colinear_y_spec (p0 p1 : K × K) (x : K) :
    (p0.1 ≠ p1.1 → ∃ y, getColinearY FK p0 p1 x = some y ∧
      (∃ a b : K, OnLine a b p0 ∧ OnLine a b p1 ∧ y = a * x + b) ∧
      (∀ a b : K, OnLine a b p0 → OnLine a b p1 → y = a * x + b)) ∧
    (getColinearY FK p0 p1 x = none ↔ p0.1 = p1.1) :=
  ⟨getColinearY_spec root p0 p1 x, getColinearY_none root p0 p1 x⟩
example : ((1 : ℚ), (8 : ℚ)).1 ≠ ((2 : ℚ), (11 : ℚ)).1 := by norm_num

/-- **`lagrange_interpolate_zipped`** (points given as pairs): for a non-empty list with pairwise distinct abscissae it
    returns the unique interpolant; for the empty list and for a repeated abscissa it panics (the two `assert!`s). -/
theorem lagrange_interpolate_zipped_spec {E : Ext K} (hE : E.Lawful) (points : List (K × K)) :
    (points ≠ [] → (points.map (·.1)).Nodup →
      ∃ f, lagrangeInterpolateZipped FK E points = some f ∧
        Interpolates (points.map (·.1)) (points.map (·.2)) (denote f)) ∧
    (points = [] ∨ ¬ (points.map (·.1)).Nodup → lagrangeInterpolateZipped FK E points = none) := by
  constructor
  · intro hne hn
    unfold lagrangeInterpolateZipped
    rw [if_neg (by simpa using hne), (allUnique_iff root _).2 hn]
    simp only [Bool.not_true, Bool.false_eq_true, if_false]
    exact lagrange_interpolate_spec root hE _ (by decide) _ _ hn (by simp)
  · rintro (rfl | hd)
    · rfl
    · unfold lagrangeInterpolateZipped
      split
      · rfl
      · have : allUnique FK (points.map (·.1)) = false := by
          rw [Bool.eq_false_iff]; exact fun h => hd ((allUnique_iff root _).1 h)
        rw [this]; rfl
example : ([((1 : ℚ), (5 : ℚ)), (2, 7)].map (·.1)).Nodup := by decide

/-- **hand-built zerofier trees.**  Every tree assembled from the public constructors `Leaf::new`, `Branch::new` and
    `Padding` — any shape: unbalanced, padding anywhere, empty or oversized leaves, for every zerofier cut-off `T ≥ 2` —
    is built without a panic, stores `∏ (X - x)` over the points below every node, and
    `divide_and_conquer_batch_evaluate` over it returns the evaluations in left-to-right order. -/
theorem hand_built_tree_spec {E : Ext K} (hE : E.Lawful) (T : Nat) (hT : 2 ≤ T) (s : TreeSpec K) (p : List K) :
    ∃ t, buildTree FK E T s = some t ∧ t.Good ∧ t.points = s.points ∧
      denote (t.zerofier FK) = zpoly s.points ∧
      dcEval FK E p t = some (s.points.map (fun x => (denote p).eval x)) := by
  obtain ⟨t, ht⟩ := Option.isSome_iff_exists.1 (buildTree_total root (E := E) T hT s)
  obtain ⟨hg, hp⟩ := buildTree_good root hE T s t ht
  exact ⟨t, ht, hg, hp, by rw [hg.zerofier root, hp], by rw [dcEval_spec root hE p t hg, hp]⟩
example : (TreeSpec.branch (.leaf [1, 2]) (.branch .padding (.leaf [(3 : ℚ)]))).points = [1, 2, 3] := rfl

end api

end TF.C08
