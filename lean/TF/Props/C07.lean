import TF.Proofs.PolyMul
import TF.Proofs.PolySpecNtt
import TF.Proofs.PolyNttBridge
import TF.Proofs.PolyNttBridgeX
import TF.Proofs.GenBridgePoly
import TF.Proofs.GenBridgePolyMul
import TF.Proofs.GenBridgePolyPow
/-!
# C07 — every polynomial multiplication strategy returns the exact ring product

Property theorems only (lemmas: `TF/Proofs/Poly.lean`, `TF/Proofs/PolyMul.lean`; models: `TF/Model/Poly.lean`,
`TF/Model/PolyMul.lean`).

Notation.  `K` is an arbitrary field, `FK = FieldOps.ofField K root` its operation record.  A polynomial is its raw
coefficient storage `List K` (lowest degree first, stored leading zeros allowed — *no* theorem below assumes normalised
operands); `denote : List K → K[X]` is the polynomial it stands for.  A result `none` is a panic.

* Dispatch thresholds (`FAST_MULTIPLY_CUTOFF_THRESHOLD`, the literal 64 in `square`) are universally quantified:
  every theorem about `multiply`, `square`, `fast_pow`, `batch_multiply`, `par_batch_multiply` holds for **every**
  threshold value, hence for whatever the source says (the driver reads the values from `TF/Gen/Consts.lean`).
* NTT-based strategies are stated relative to a transform pair `T` with `TransformSpec T pts`: `ntt` evaluates at the
  `n` points `pts n i`, its panic behaviour depends on the length only, and `intt ∘ ntt = id`.  These are the theorems
  `ntt_eq_dft` / `intt_ntt` of property C06 for the Rust NTT.  Under that hypothesis the statements are of the form
  "whenever the operation returns, it returns the product"; the NTT-free arms never panic (separate theorems).
* The hypothesis `TransformSpec` is discharged for the executable model of the Rust in-place NTT (`TF/Model/Ntt.lean`,
  property C06) in the sections `BField` / `XField` at the end: `ntt_model_transform_spec` (any field),
  `primitive_roots_rootOK` (the translated table), and the unconditional corollaries `…_bfield_spec`, `…_xfield_spec`,
  `ntt_multiply_bx_spec`, `ntt_multiply_xb_spec` about the exact terms the driver evaluates on canonical values.
* `numThreads` (the value of `available_parallelism()`) is universally quantified, including 0; termination of the
  chunked loop for every value is part of the definition being accepted by Lean (well-founded recursion on the
  number of remaining products).
* Operands over different fields: `φ₁ : K₁ →+* K`, `φ₂ : K₂ →+* K` embed the coefficient fields of the operands into
  the field of the result and the mixed coefficient product is `φ₁ a * φ₂ b` (for `B × X`: `algebraMap` and `id`).
-/
open Polynomial

namespace TF.C07
open TF TF.Model.Poly
variable {K : Type} [Field K] (root : Nat → Option K)
local notation "FK" => FieldOps.ofField K root

/-- `naive_multiply` returns the ring product for operands of every degree and every storage
    (zero, constant, stored leading zeros) -/
theorem naive_multiply_spec (a b : List K) : denote (naiveMultiply FK a b) = denote a * denote b :=
  denote_naiveMultiply root a b
example : denote (naiveMultiply (FieldOps.ofField ℚ) [1, 2, 0] []) = denote [1, 2, 0] * denote ([] : List ℚ) :=
  naive_multiply_spec _ _ _

/-- the operator `*` between polynomials -/
theorem mul_spec (a b : List K) : denote (mul FK a b) = denote a * denote b := denote_mul root a b
example : denote (mul (FieldOps.ofField ℚ) [0, 0] [3]) = denote [0, 0] * denote ([3] : List ℚ) := mul_spec _ _ _

/-- `slow_square` on any storage (no out-of-bounds access: it is a total function of the model) -/
theorem slow_square_spec (p : List K) : denote (slowSquare FK p) = denote p ^ 2 := denote_slowSquare root p
example : denote (slowSquare (FieldOps.ofField ℚ) [1, 2, 0]) = denote ([1, 2, 0] : List ℚ) ^ 2 :=
  slow_square_spec _ _

/-- `scalar_mul` / `scalar_mul_mut` / `scalar * poly` / `poly * scalar` -/
theorem scalar_mul_spec (p : List K) (s : K) : denote (scalarMul FK p s) = denote p * C s :=
  denote_scalarMul root p s
example : denote (scalarMul (FieldOps.ofField ℚ) [1, 2, 0] 0) = denote ([1, 2, 0] : List ℚ) * C 0 :=
  scalar_mul_spec _ _ _

/-- `scale(α)` is the substitution `X ↦ αX` -/
theorem scale_spec (p : List K) (alpha : K) : denote (scale FK p alpha) = (denote p).comp (C alpha * X) :=
  denote_scale root p alpha
example : denote (scale (FieldOps.ofField ℚ) [1, 2, 3] 5) = (denote ([1, 2, 3] : List ℚ)).comp (C 5 * X) :=
  scale_spec _ _ _

/-- `shift_coefficients(n)` multiplies by `Xⁿ` -/
theorem shift_spec (p : List K) (n : Nat) : denote (shiftCoefficients FK p n) = X ^ n * denote p :=
  denote_shiftCoefficients root p n
example : denote (shiftCoefficients (FieldOps.ofField ℚ) [1, 0] 17) = X ^ 17 * denote ([1, 0] : List ℚ) :=
  shift_spec _ _ _

/-- `pow(e)` for every exponent, `0⁰ = 1` included -/
theorem pow_spec (p : List K) (e : Nat) : denote (pow FK p e) = denote p ^ e := denote_pow root p e
example : denote (pow (FieldOps.ofField ℚ) [0, 0] 0) = denote ([0, 0] : List ℚ) ^ 0 := pow_spec _ _ _

/-- `fast_multiply`: transform, pointwise product, inverse transform returns the product whenever it returns —
    also with one operand zero, where the code pads/truncates to a length below the other operand's -/
theorem fast_multiply_spec {T : Transform K} {pts : Nat → Nat → K} (hT : TransformSpec T pts)
    (a b r : List K) (h : fastMultiply FK T a b = some r) : denote r = denote a * denote b :=
  denote_fastMultiply root hT a b r h
example : TransformSpec exampleTransform examplePts := exampleTransform_spec
example : fastMultiply (FieldOps.ofField ℚ) exampleTransform [1, 1, 0] [2] = some [2, 2] := by
  have h1 : Model.Poly.degree (FieldOps.ofField ℚ) [1, 1, 0] = 1 := by simp [Model.Poly.degree, Model.Poly.normalize]
  have h2 : Model.Poly.degree (FieldOps.ofField ℚ) [2] = 0 := by simp [Model.Poly.degree, Model.Poly.normalize]
  have h3 : nextPowerOfTwo 2 = 2 := by decide
  simp [fastMultiply, fastMultiplyG, h1, h2, h3, resize, exampleTransform]
  norm_num

/-- `multiply`: the dispatcher returns the product for **every** threshold value -/
theorem multiply_spec {T : Transform K} {pts : Nat → Nat → K} (hT : TransformSpec T pts) (threshold : Int)
    (a b r : List K) (h : multiply FK threshold T a b = some r) : denote r = denote a * denote b :=
  denote_multiply root hT threshold a b r h
example : multiply (FieldOps.ofField ℚ) 256 exampleTransform [1, 1] [2] = some (naiveMultiply (FieldOps.ofField ℚ) [1, 1] [2]) := by
  have h1 : Model.Poly.degree (FieldOps.ofField ℚ) [1, 1] = 1 := by simp [Model.Poly.degree, Model.Poly.normalize]
  have h2 : Model.Poly.degree (FieldOps.ofField ℚ) [2] = 0 := by simp [Model.Poly.degree, Model.Poly.normalize]
  simp [multiply, multiplyG, h1, h2, naiveMultiply]

/-- below the threshold `multiply` never panics, whatever the transform does -/
theorem multiply_total_below_threshold (T : Transform K) (threshold : Int) (a b : List K)
    (h : Model.Poly.degree FK a + Model.Poly.degree FK b < threshold) : (multiply FK threshold T a b).isSome :=
  multiply_isSome_of_lt root T threshold a b h
example : Model.Poly.degree (FieldOps.ofField ℚ) [1, 1] + Model.Poly.degree (FieldOps.ofField ℚ) [2] < 256 := by
  have h1 : Model.Poly.degree (FieldOps.ofField ℚ) [1, 1] = 1 := by simp [Model.Poly.degree, Model.Poly.normalize]
  have h2 : Model.Poly.degree (FieldOps.ofField ℚ) [2] = 0 := by simp [Model.Poly.degree, Model.Poly.normalize]
  rw [h1, h2]; decide

/-- `fast_square` -/
theorem fast_square_spec {T : Transform K} {pts : Nat → Nat → K} (hT : TransformSpec T pts)
    (p r : List K) (h : fastSquare FK T p = some r) : denote r = denote p ^ 2 :=
  denote_fastSquare root hT p r h
example : fastSquare (FieldOps.ofField ℚ) exampleTransform [3, 0, 0] = some [9] := by
  simp [fastSquare, Model.Poly.normalize]; norm_num

/-- `square`: both arms return the square for **every** cut-off, on any storage -/
theorem square_spec {T : Transform K} {pts : Nat → Nat → K} (hT : TransformSpec T pts) (cutoff : Nat)
    (p r : List K) (h : square FK cutoff T p = some r) : denote r = denote p ^ 2 :=
  denote_square root hT cutoff p r h
example : square (FieldOps.ofField ℚ) 64 exampleTransform [1, 2, 0] = some (squareRows (FieldOps.ofField ℚ) [1, 2]) := by
  simp [square, Model.Poly.normalize]

/-- the NTT-free arm of `square` never panics (after fix F5: also with stored leading zeros) -/
theorem square_total_below_cutoff (T : Transform K) (cutoff : Nat) (p : List K)
    (h : 2 * (Model.Poly.normalize FK p).length ≤ cutoff + 1) : (square FK cutoff T p).isSome :=
  square_isSome_of_le root T cutoff p h
example : 2 * (Model.Poly.normalize (FieldOps.ofField ℚ) [1, 2, 0]).length ≤ 64 + 1 := by simp [Model.Poly.normalize]

/-- `fast_pow(e)` for every exponent, every squaring cut-off and every multiply threshold -/
theorem fast_pow_spec {T : Transform K} {pts : Nat → Nat → K} (hT : TransformSpec T pts)
    (sqCutoff : Nat) (threshold : Int) (p : List K) (e : Nat) (r : List K)
    (h : fastPow FK sqCutoff threshold T p e = some r) : denote r = denote p ^ e :=
  denote_fastPow root hT sqCutoff threshold p e r h
example : fastPow (FieldOps.ofField ℚ) 64 256 exampleTransform [0, 0] 0 = some [1] := by simp [fastPow, one]

/-- `batch_multiply`: the tree reduction returns the product of all factors in order — any list (the empty
    product is 1), any threshold -/
theorem batch_multiply_spec {T : Transform K} {pts : Nat → Nat → K} (hT : TransformSpec T pts) (threshold : Int)
    (factors : List (List K)) (r : List K) (h : batchMultiply FK threshold T factors = some r) :
    denote r = (factors.map denote).prod := by
  have := batchMultiplyWith_spec root (fun a b c hc => denote_multiply root hT threshold a b c hc) _ r h
  rw [prodO_map_some] at this
  exact (Option.some.inj this).symm
example : batchMultiply (FieldOps.ofField ℚ) 256 exampleTransform [] = some [1] := by
  simp [batchMultiply, batchMultiplyWith, one]

/-- `batch_multiply` never panics when the binary product never does (e.g. all degree sums below the threshold
    or a transform defined on the needed lengths) — for any binary product `mulf` -/
theorem batch_multiply_total (mulf : List K → List K → Option (List K)) (ht : ∀ a b, (mulf a b).isSome)
    (factors : List (List K)) : (batchMultiplyWith FK mulf (factors.map some)).isSome :=
  batchMultiplyWith_isSome root ht _ (allSome_map_some factors)
example : ∀ a b : List ℚ, (some (naiveMultiply (FieldOps.ofField ℚ) a b)).isSome := fun _ _ => rfl

/-- `par_batch_multiply`: for **every** thread count the chunked reduction terminates (total function) and returns
    the product of all factors -/
theorem par_batch_multiply_spec {T : Transform K} {pts : Nat → Nat → K} (hT : TransformSpec T pts) (threshold : Int)
    (numThreads : Nat) (factors : List (List K)) (r : List K)
    (h : parBatchMultiply FK threshold T numThreads factors = some r) :
    denote r = (factors.map denote).prod := by
  have := parBatchMultiplyWith_spec root (fun a b c hc => denote_multiply root hT threshold a b c hc)
    numThreads _ r h
  rw [prodO_map_some] at this
  exact (Option.some.inj this).symm
example : parBatchMultiply (FieldOps.ofField ℚ) 256 exampleTransform 3 [] = some [1] := by
  simp [parBatchMultiply, parBatchMultiplyWith, one]

/-- `par_batch_multiply` never panics when the binary product never does, for every thread count -/
theorem par_batch_multiply_total (mulf : List K → List K → Option (List K)) (ht : ∀ a b, (mulf a b).isSome)
    (numThreads : Nat) (factors : List (List K)) :
    (parBatchMultiplyWith FK mulf numThreads (factors.map some)).isSome :=
  parBatchMultiplyWith_isSome root ht numThreads _ (allSome_map_some factors)
example : ∀ a b : List ℚ, (some (mul (FieldOps.ofField ℚ) a b)).isSome := fun _ _ => rfl

/-- the result of `par_batch_multiply` does not depend on the number of threads, and equals `batch_multiply`'s -/
theorem par_batch_multiply_thread_independent {T : Transform K} {pts : Nat → Nat → K} (hT : TransformSpec T pts)
    (threshold : Int) (n m : Nat) (factors : List (List K)) (r s t : List K)
    (hn : parBatchMultiply FK threshold T n factors = some r)
    (hm : parBatchMultiply FK threshold T m factors = some s)
    (hb : batchMultiply FK threshold T factors = some t) :
    denote r = denote s ∧ denote r = denote t := by
  rw [par_batch_multiply_spec root hT threshold n factors r hn, par_batch_multiply_spec root hT threshold m factors s hm,
    batch_multiply_spec root hT threshold factors t hb]
  exact ⟨rfl, rfl⟩
example : parBatchMultiply (FieldOps.ofField ℚ) 256 exampleTransform 16 [] = some [1] := by
  simp [parBatchMultiply, parBatchMultiplyWith, one]

/-! ### the executable model: the spec-level transform discharges `TransformSpec`

`specTransform FK` (recursive even/odd evaluation at the powers of `rootOfUnity n`, inverse with `ω⁻¹` and `1/n`) is the
transform the driver runs.  `RootOK root`: the roots table gives for each length `2^(k+1)` an element with
`w^(2^k) = −1` (for the base field: property C06's theorem about the regenerated `PRIMITIVE_ROOTS`). -/

/-- the transform pair of the executable model is an evaluation / interpolation pair -/
theorem spec_transform_spec (hroot : RootOK root) (h2 : (2 : K) ≠ 0) :
    TransformSpec (specTransform FK) (rootPts root) := specTransform_spec root hroot h2
example : RootOK exampleRoot ∧ (2 : ℚ) ≠ 0 := ⟨exampleRoot_ok, by norm_num⟩

/-- every NTT-based strategy of the executable model returns the ring product whenever it returns — no hypothesis on
    the transform left; every threshold, cut-off, exponent, thread count -/
theorem ntt_strategies_exec_spec (hroot : RootOK root) (h2 : (2 : K) ≠ 0) (threshold : Int) (cutoff numThreads e : Nat)
    (a b : List K) (factors : List (List K)) (r : List K) :
    (fastMultiply FK (specTransform FK) a b = some r → denote r = denote a * denote b) ∧
    (multiply FK threshold (specTransform FK) a b = some r → denote r = denote a * denote b) ∧
    (fastSquare FK (specTransform FK) a = some r → denote r = denote a ^ 2) ∧
    (square FK cutoff (specTransform FK) a = some r → denote r = denote a ^ 2) ∧
    (fastPow FK cutoff threshold (specTransform FK) a e = some r → denote r = denote a ^ e) ∧
    (batchMultiply FK threshold (specTransform FK) factors = some r → denote r = (factors.map denote).prod) ∧
    (parBatchMultiply FK threshold (specTransform FK) numThreads factors = some r →
      denote r = (factors.map denote).prod) := by
  have hT := specTransform_spec root hroot h2
  exact ⟨fast_multiply_spec root hT a b r, multiply_spec root hT threshold a b r, fast_square_spec root hT a r,
    square_spec root hT cutoff a r, fast_pow_spec root hT cutoff threshold a e r,
    batch_multiply_spec root hT threshold factors r, par_batch_multiply_spec root hT threshold numThreads factors r⟩
example : fastMultiply (FieldOps.ofField ℚ exampleRoot) (specTransform (FieldOps.ofField ℚ exampleRoot)) [] [2] = some [] := by
  have h1 : Model.Poly.degree (FieldOps.ofField ℚ exampleRoot) [] = -1 := by simp [Model.Poly.degree, Model.Poly.normalize]
  have h2 : Model.Poly.degree (FieldOps.ofField ℚ exampleRoot) [2] = 0 := by simp [Model.Poly.degree, Model.Poly.normalize]
  simp [fastMultiply, fastMultiplyG, h1, h2]

/-- `fast_multiply` of the executable model does not panic when the roots table has an entry for the transform
    length `next_power_of_two(deg a + deg b + 1)` and that length fits `u32` -/
theorem fast_multiply_exec_total (hroot : RootOK root) (a b : List K)
    (hr : ∀ n, n = nextPowerOfTwo ((Model.Poly.degree FK a + Model.Poly.degree FK b).toNat + 1) →
      n ≤ 4294967295 ∧ (root n).isSome) :
    (fastMultiply FK (specTransform FK) a b).isSome := fastMultiply_spec_isSome root hroot a b hr
example : nextPowerOfTwo 2 ≤ 4294967295 ∧ (exampleRoot (nextPowerOfTwo 2)).isSome := by
  have : nextPowerOfTwo 2 = 2 := by decide
  rw [this]; exact ⟨by decide, rfl⟩

/-! ### operands over different fields -/
section Mixed
variable {K₁ K₂ : Type} [Field K₁] [Field K₂] (φ₁ : K₁ →+* K) (φ₂ : K₂ →+* K)
variable (root₁ : Nat → Option K₁) (root₂ : Nat → Option K₂)

/-- `naive_multiply<FF2>` / `*` with operands over different fields -/
theorem naive_multiply_mixed_spec (a : List K₁) (b : List K₂) :
    denote (naiveMultiplyG (FieldOps.ofField K₁ root₁) (FieldOps.ofField K₂ root₂) FK (fun x y => φ₁ x * φ₂ y) a b)
      = (denote a).map φ₁ * (denote b).map φ₂ :=
  denote_naiveMultiplyG root φ₁ φ₂ root₁ root₂ a b
example : denote (naiveMultiplyG (FieldOps.ofField ℚ) (FieldOps.ofField ℚ) (FieldOps.ofField ℚ)
    (fun x y => (RingHom.id ℚ) x * (RingHom.id ℚ) y) [1, 0] [2])
      = (denote ([1, 0] : List ℚ)).map (RingHom.id ℚ) * (denote ([2] : List ℚ)).map (RingHom.id ℚ) :=
  naive_multiply_mixed_spec _ _ _ _ _ _ _

/-- `scalar_mul<S, FF2>` with a scalar from another field -/
theorem scalar_mul_mixed_spec (p : List K₁) (s : K₂) :
    denote (scalarMulG (fun x y => φ₁ x * φ₂ y) p s) = (denote p).map φ₁ * C (φ₂ s) :=
  denote_scalarMulG φ₁ φ₂ p s
example : denote (scalarMulG (fun x y => (RingHom.id ℚ) x * (RingHom.id ℚ) y) [1, 0] 3)
    = (denote ([1, 0] : List ℚ)).map (RingHom.id ℚ) * C ((RingHom.id ℚ) 3) := scalar_mul_mixed_spec _ _ _ _

/-- `scale<S, XF>` with the offset from another field -/
theorem scale_mixed_spec (p : List K₁) (alpha : K₂) :
    denote (scaleG (1 : K₂) (· * ·) (fun x y => φ₁ x * φ₂ y) p alpha)
      = ((denote p).map φ₁).comp (C (φ₂ alpha) * X) :=
  denote_scaleG φ₁ φ₂ p alpha
example : denote (scaleG (1 : ℚ) (· * ·) (fun x y => (RingHom.id ℚ) x * (RingHom.id ℚ) y) [1, 2] 3)
    = ((denote ([1, 2] : List ℚ)).map (RingHom.id ℚ)).comp (C ((RingHom.id ℚ) 3) * X) := scale_mixed_spec _ _ _ _

/-- `fast_multiply<FF2>` and `multiply<FF2>` (every threshold) with operands over different fields, each operand
    transformed over its own field (executable model; the roots tables agree along the embeddings, as
    `XFieldElement::primitive_root_of_unity` lifts the base-field root) -/
theorem ntt_multiply_mixed_spec (hroot : RootOK root) (h2 : (2 : K) ≠ 0)
    (hc₁ : RootCompat φ₁ root₁ root) (hc₂ : RootCompat φ₂ root₂ root) (threshold : Int)
    (a : List K₁) (b : List K₂) (r : List K) :
    (fastMultiplyG (FieldOps.ofField K₁ root₁) (FieldOps.ofField K₂ root₂) (fun x y => φ₁ x * φ₂ y)
        (specTransform (FieldOps.ofField K₁ root₁)) (specTransform (FieldOps.ofField K₂ root₂)) (specTransform FK) a b
        = some r → denote r = (denote a).map φ₁ * (denote b).map φ₂) ∧
    (multiplyG (FieldOps.ofField K₁ root₁) (FieldOps.ofField K₂ root₂) FK (fun x y => φ₁ x * φ₂ y) threshold
        (specTransform (FieldOps.ofField K₁ root₁)) (specTransform (FieldOps.ofField K₂ root₂)) (specTransform FK) a b
        = some r → denote r = (denote a).map φ₁ * (denote b).map φ₂) := by
  have hT := specTransform_spec root hroot h2
  constructor
  · intro h
    rw [fastMultiplyG_eq root root₁ root₂ φ₁ φ₂ hc₁ hc₂] at h
    rw [fast_multiply_spec root hT _ _ r h, denote_map, denote_map]
  · intro h
    rw [multiplyG_eq root root₁ root₂ φ₁ φ₂ hc₁ hc₂] at h
    rw [multiply_spec root hT threshold _ _ r h, denote_map, denote_map]
example : RootCompat (RingHom.id ℚ) exampleRoot exampleRoot := by
  intro n; cases h : exampleRoot n <;> simp

end Mixed

/-! ### the base field, unconditionally: the products on top of the model of the Rust in-place NTT (property C06)

`bNtt = nttTransform bOps primitiveRoot` wraps `TF.Model.Ntt.ntt` / `intt` — the executable model of the loops of
`math/ntt.rs` (bit-reversal swap loop, one butterfly pass per stage, root from the translated table `PRIMITIVE_ROOTS`)
— as the transform parameter; this is the transform the driver runs for the family `poly` (`TB`).  `bfieldOps` is the
integer arithmetic modulo `P` on naturals (`TF/Spec/Field.lean`; its agreement with `BFieldElement` is C01's
`field_iso`).  `bdenote a` is the polynomial over `ZMod P` with coefficients `a` read modulo `P`; `CanonL a` says that
all entries are canonical (`< P`).  No `TransformSpec` / `RootOK` hypothesis is left: they are theorems
(`ntt_model_transform_spec`, `primitive_roots_rootOK`) obtained from C06's `ntt_eq_dft` / `intt_ntt` /
`primitive_roots_table`.  Every result is canonical, so it is determined as a list of naturals up to stored leading
zeros. -/
section BField
open TF.Gen TF.NttProofs TF.Model.Poly.Hom

/-- the polynomial over `ZMod P` a list of naturals stands for -/
noncomputable def bdenote (a : List Nat) : (ZMod P)[X] := denote (a.map zc)

/-- all entries canonical -/
def CanonL (a : List Nat) : Prop := ∀ x ∈ a, x < P

/-- `RootOK` for the real table: the root tabulated in `PRIMITIVE_ROOTS` for `2^(k+1)`, read in `ZMod P`, has
    `2^k`-th power `−1` — for the look-up of the NTT model (`primitiveRoot`) and for `bfieldOps.rootOfUnity`,
    which agree on every argument -/
theorem primitive_roots_rootOK :
    RootOK zRoot ∧ RootOK (fun n => (TF.bfieldOps.rootOfUnity n).map zc) ∧
    ∀ n, TF.bfieldOps.rootOfUnity n = TF.Model.Ntt.primitiveRoot n :=
  ⟨zRoot_ok, bfieldRoot_ok, bfieldRoot_eq⟩
example : zRoot (2 ^ (0 + 1)) = some ((18446744069414584320 : ℕ) : ZMod P) := by
  have : TF.Model.Ntt.primitiveRoot (2 ^ (0 + 1)) = some 18446744069414584320 := by decide
  rw [zRoot, this]; rfl

/-- **the model of the Rust in-place NTT is an evaluation / interpolation pair**: over every field `K`, run with the
    ring operations of `K`, any `inverse`/`inverse_or_zero` that invert, and any root table with `RootOK`:
    `ntt` evaluates at `pts n i = ω_n^i`, panics depending on the length only, and `intt ∘ ntt = id` -/
theorem ntt_model_transform_spec (inv : K → Option K) (inv0 : K → K) (hI : InvOK inv inv0) (hroot : RootOK root) :
    TransformSpec (nttTransform (ringOps K inv inv0) root) (rootPts root) :=
  nttTransform_spec inv inv0 root hI hroot
example : InvOK zinv zinv0 ∧ RootOK zRoot := ⟨zInvOK, zRoot_ok⟩

/-- … in particular over `ZMod P` with the translated table — no hypothesis left -/
theorem ntt_model_transform_spec_bfield : TransformSpec zNtt (rootPts zRoot) := zNtt_spec
example : zNtt.ntt [] = some [] := by
  have : TF.Model.Ntt.primitiveRoot 0 = some 1 := by decide
  simp [zNtt, nttTransform, ntt_empty, zRoot, this]

/-- the transform on canonical values (the one the driver runs) is the transform over `ZMod P` read through
    `Nat.cast`, and its inverse returns canonical values -/
theorem bNtt_is_zNtt (xs : List Nat) :
    (bNtt.ntt xs).map (List.map zc) = zNtt.ntt (xs.map zc) ∧ (bNtt.intt xs).map (List.map zc) = zNtt.intt (xs.map zc) ∧
    ∀ ys, bNtt.intt xs = some ys → CanonL ys :=
  ⟨(bNtt_cast xs).1, (bNtt_cast xs).2, bNtt_intt_canon xs⟩
example : bNtt.ntt [1, 4, 0, 0] = some [5, 1125899906842625, 18446744069414584318, 18445618169507741698] := by
  decide +kernel

theorem bdenote_eq (r : List Nat) : bdenote r = denote (r.map zc) := rfl

/-- **`fast_multiply` over `BFieldElement`**: on canonical operands of every degree and storage, whenever it returns
    it returns canonical coefficients of the product in `ZMod P[X]` -/
theorem fast_multiply_bfield_spec (a b r : List Nat) (ha : CanonL a) (hb : CanonL b)
    (h : fastMultiply TF.bfieldOps bNtt a b = some r) : bdenote r = bdenote a * bdenote b ∧ CanonL r := by
  have hm := fastMultiply_map bfield_opsMap bNtt_transMap a b ha hb
  rw [h] at hm
  exact ⟨fast_multiply_spec zRoot zNtt_spec _ _ _ hm.symm,
    fastMultiply_ok bNtt_transMap a b r h⟩
example : fastMultiply TF.bfieldOps bNtt [1, 1, 0] [2] = some [2, 2] := by decide +kernel

/-- `multiply` over `BFieldElement`, every threshold -/
theorem multiply_bfield_spec (threshold : Int) (a b r : List Nat) (ha : CanonL a) (hb : CanonL b)
    (h : multiply TF.bfieldOps threshold bNtt a b = some r) : bdenote r = bdenote a * bdenote b ∧ CanonL r := by
  have hm := multiply_map bfield_opsMap bNtt_transMap threshold a b ha hb
  rw [h] at hm
  exact ⟨multiply_spec zRoot zNtt_spec threshold _ _ _ hm.symm,
    multiply_ok bfield_opsMap bNtt_transMap threshold a b r h⟩
example : multiply TF.bfieldOps 1 bNtt [1, 1] [P - 1, 1] = some [P - 1, 0, 1] := by decide +kernel

/-- `fast_square` over `BFieldElement` -/
theorem fast_square_bfield_spec (p r : List Nat) (hp : CanonL p)
    (h : fastSquare TF.bfieldOps bNtt p = some r) : bdenote r = bdenote p ^ 2 ∧ CanonL r := by
  have hm := fastSquare_map bfield_opsMap bNtt_transMap p hp
  rw [h] at hm
  exact ⟨fast_square_spec zRoot zNtt_spec _ _ hm.symm,
    fastSquare_ok bfield_opsMap bNtt_transMap p r h⟩
example : fastSquare TF.bfieldOps bNtt [1, 1, 0] = some [1, 2, 1] := by decide +kernel

/-- `square` over `BFieldElement`, every cut-off -/
theorem square_bfield_spec (cutoff : Nat) (p r : List Nat) (hp : CanonL p)
    (h : square TF.bfieldOps cutoff bNtt p = some r) : bdenote r = bdenote p ^ 2 ∧ CanonL r := by
  have hm := square_map bfield_opsMap bNtt_transMap cutoff p hp
  rw [h] at hm
  exact ⟨square_spec zRoot zNtt_spec cutoff _ _ hm.symm,
    square_ok bfield_opsMap bNtt_transMap cutoff p r h⟩
example : square TF.bfieldOps 2 bNtt [1, 1] = some [1, 2, 1] ∧ square TF.bfieldOps 64 bNtt [1, 1] = some [1, 2, 1] := by
  decide +kernel

/-- `fast_pow` over `BFieldElement`, every exponent, cut-off and threshold -/
theorem fast_pow_bfield_spec (sqCutoff : Nat) (threshold : Int) (p : List Nat) (e : Nat) (r : List Nat)
    (hp : CanonL p) (h : fastPow TF.bfieldOps sqCutoff threshold bNtt p e = some r) :
    bdenote r = bdenote p ^ e ∧ CanonL r := by
  obtain ⟨hm, hok⟩ := fastPow_map bfield_opsMap bNtt_transMap sqCutoff threshold p hp e
  rw [h] at hm
  exact ⟨fast_pow_spec zRoot zNtt_spec sqCutoff threshold _ e _ hm.symm, hok r h⟩
example : fastPow TF.bfieldOps 0 0 bNtt [1, 1] 3 = some [1, 3, 3, 1] := by decide +kernel

theorem map_bdenote (factors : List (List Nat)) :
    (factors.map (List.map zc)).map denote = factors.map bdenote := by
  simp [List.map_map, Function.comp_def, bdenote]

/-- `batch_multiply` over `BFieldElement`: the product of all factors, any list, any threshold -/
theorem batch_multiply_bfield_spec (threshold : Int) (factors : List (List Nat)) (r : List Nat)
    (hf : ∀ p ∈ factors, CanonL p) (h : batchMultiply TF.bfieldOps threshold bNtt factors = some r) :
    bdenote r = (factors.map bdenote).prod ∧ CanonL r := by
  obtain ⟨hm, hok⟩ := batchMultiply_map bfield_opsMap bNtt_transMap threshold factors hf
  rw [h] at hm
  refine ⟨?_, hok r h⟩
  rw [bdenote_eq, batch_multiply_spec zRoot zNtt_spec threshold _ _ hm.symm, map_bdenote]
example : batchMultiply TF.bfieldOps 0 bNtt [[1, 1], [1, 1], [P - 1, 1]] = some [P - 1, P - 1, 1, 1] := by
  decide +kernel

/-- `par_batch_multiply` over `BFieldElement`: every thread count -/
theorem par_batch_multiply_bfield_spec (threshold : Int) (numThreads : Nat) (factors : List (List Nat)) (r : List Nat)
    (hf : ∀ p ∈ factors, CanonL p) (h : parBatchMultiply TF.bfieldOps threshold bNtt numThreads factors = some r) :
    bdenote r = (factors.map bdenote).prod ∧ CanonL r := by
  obtain ⟨hm, hok⟩ := parBatchMultiply_map bfield_opsMap bNtt_transMap threshold numThreads factors hf
  rw [h] at hm
  refine ⟨?_, hok r h⟩
  rw [bdenote_eq, par_batch_multiply_spec zRoot zNtt_spec threshold numThreads _ _ hm.symm, map_bdenote]
example : parBatchMultiply TF.bfieldOps 0 bNtt 2 [[1, 1], [1, 1], [P - 1, 1]] = some [P - 1, P - 1, 1, 1] := by
  decide +kernel

/-- **no panic**: `fast_multiply` over `BFieldElement` returns on all operands whose transform length
    `next_power_of_two(deg a + deg b + 1)` is at most `2^31` (the NTT of C06 is defined on every such length) -/
theorem fast_multiply_bfield_total (a b : List Nat)
    (h : nextPowerOfTwo ((Model.Poly.degree TF.bfieldOps a + Model.Poly.degree TF.bfieldOps b).toNat + 1) ≤ 2^31) :
    (fastMultiply TF.bfieldOps bNtt a b).isSome := by
  obtain ⟨k, hk, hn⟩ := nextPowerOfTwo_le_pow _ 31 h
  exact fastMultiply_isSome_of _ _ a b (by rw [hn]; exact bNtt_definedAt k hk)
example : nextPowerOfTwo ((Model.Poly.degree TF.bfieldOps [1, 1] + Model.Poly.degree TF.bfieldOps [0, 5]).toNat + 1) ≤ 2^31 := by
  decide +kernel

/-- no panic for `fast_square` over `BFieldElement` up to transform length `2^31` -/
theorem fast_square_bfield_total (p : List Nat)
    (h : nextPowerOfTwo (2 * ((Model.Poly.normalize TF.bfieldOps p).length - 1) + 1) ≤ 2^31) :
    (fastSquare TF.bfieldOps bNtt p).isSome := by
  obtain ⟨k, hk, hn⟩ := nextPowerOfTwo_le_pow _ 31 h
  exact fastSquare_isSome_of _ _ p (by rw [hn]; exact bNtt_definedAt k hk)
example : nextPowerOfTwo (2 * ((Model.Poly.normalize TF.bfieldOps [1, 1, 0]).length - 1) + 1) ≤ 2^31 := by
  decide +kernel

end BField

/-! ### the extension field, unconditionally

`ntt::<XFieldElement>` multiplies by base-field twiddles (`FF: MulAssign<BFieldElement>`); `algOps L` are these
operations for a field extension `L` of `ZMod P`.  `XK = (ZMod P)[X]/(X³ − X + 1)` is the field of `XFieldElement`
(irreducibility: C01's `shah_irreducible`); `xc (c0, c1, c2) = c0 + c1·θ + c2·θ²`; `xfieldOps` is the arithmetic on
triples of naturals of `TF/Spec/Field.lean`, `xNtt = nttTransform xOps primitiveRoot` the transform the driver runs
(`TX`).  `xdenote a` is the polynomial over `XK` a list of triples stands for; `CanonL3 a`: all coordinates `< P`. -/
section XField
open TF.Gen TF.NttProofs TF.Model.Poly.Hom TF.Spec

/-- the polynomial over `XK` a list of triples stands for -/
noncomputable def xdenote (a : List X3) : XK[X] := denote (a.map xc)

/-- all entries canonical triples -/
def CanonL3 (a : List X3) : Prop := ∀ x ∈ a, Canon3 x

theorem xdenote_eq (r : List X3) : xdenote r = denote (r.map xc) := rfl

/-- **the model of the Rust NTT with base-field twiddles is an evaluation / interpolation pair over every field
    extension `L` of the base field**, at the images of the powers of the tabulated roots -/
theorem ntt_model_transform_spec_extension (L : Type) [Field L] [Algebra (ZMod P) L] :
    TransformSpec (nttTransform (algOps L) zRoot) (rootPts (algRoot L)) := algNtt_spec L
example : TransformSpec xkNtt (rootPts (algRoot XK)) := ntt_model_transform_spec_extension XK

/-- the records the driver runs for `x` correspond to the field `XK` under `xc`: arithmetic on triples is the field
    arithmetic (zero test on canonical triples), the transform on triples is the model NTT over `XK` -/
theorem xfield_corresponds : OpsMap TF.xfieldOps FX xc Canon3 ∧ TransMap xNtt xkNtt xc Canon3 :=
  ⟨xfield_opsMap, xNtt_transMap⟩
example : xc (0, 1, 0) ^ 3 - xc (0, 1, 0) + 1 = 0 := by
  have : xc (0, 1, 0) = θ := by simp [xc]
  rw [this]; exact θ_rel

/-- `fast_multiply` over `XFieldElement` -/
theorem fast_multiply_xfield_spec (a b r : List X3) (ha : CanonL3 a) (hb : CanonL3 b)
    (h : fastMultiply TF.xfieldOps xNtt a b = some r) : xdenote r = xdenote a * xdenote b ∧ CanonL3 r := by
  have hm := fastMultiply_map xfield_opsMap xNtt_transMap a b ha hb
  rw [h] at hm
  exact ⟨fast_multiply_spec (algRoot XK) xkNtt_spec _ _ _ hm.symm, fastMultiply_ok xNtt_transMap a b r h⟩
example : fastMultiply TF.xfieldOps xNtt [(1,0,0),(0,1,0)] [(0,0,1),(1,0,0)] = some [(0,0,1),(0,1,0),(0,1,0)] := by
  decide +kernel

/-- `multiply` over `XFieldElement`, every threshold -/
theorem multiply_xfield_spec (threshold : Int) (a b r : List X3) (ha : CanonL3 a) (hb : CanonL3 b)
    (h : multiply TF.xfieldOps threshold xNtt a b = some r) : xdenote r = xdenote a * xdenote b ∧ CanonL3 r := by
  have hm := multiply_map xfield_opsMap xNtt_transMap threshold a b ha hb
  rw [h] at hm
  exact ⟨multiply_spec (algRoot XK) xkNtt_spec threshold _ _ _ hm.symm,
    multiply_ok xfield_opsMap xNtt_transMap threshold a b r h⟩
example : multiply TF.xfieldOps 1 xNtt [(1,0,0),(0,1,0)] [(0,0,1),(1,0,0)] = some [(0,0,1),(0,1,0),(0,1,0)] := by
  decide +kernel

/-- `fast_square` over `XFieldElement` -/
theorem fast_square_xfield_spec (p r : List X3) (hp : CanonL3 p)
    (h : fastSquare TF.xfieldOps xNtt p = some r) : xdenote r = xdenote p ^ 2 ∧ CanonL3 r := by
  have hm := fastSquare_map xfield_opsMap xNtt_transMap p hp
  rw [h] at hm
  exact ⟨fast_square_spec (algRoot XK) xkNtt_spec _ _ hm.symm, fastSquare_ok xfield_opsMap xNtt_transMap p r h⟩
example : fastSquare TF.xfieldOps xNtt [(0,1,0),(0,0,1)]
    = some [(0,0,1), (18446744069414584319,2,0), (0,18446744069414584320,1)] := by decide +kernel

/-- `square` over `XFieldElement`, every cut-off -/
theorem square_xfield_spec (cutoff : Nat) (p r : List X3) (hp : CanonL3 p)
    (h : square TF.xfieldOps cutoff xNtt p = some r) : xdenote r = xdenote p ^ 2 ∧ CanonL3 r := by
  have hm := square_map xfield_opsMap xNtt_transMap cutoff p hp
  rw [h] at hm
  exact ⟨square_spec (algRoot XK) xkNtt_spec cutoff _ _ hm.symm, square_ok xfield_opsMap xNtt_transMap cutoff p r h⟩
example : square TF.xfieldOps 2 xNtt [(0,1,0),(0,0,1)]
    = some [(0,0,1), (18446744069414584319,2,0), (0,18446744069414584320,1)] := by decide +kernel

/-- `fast_pow` over `XFieldElement` -/
theorem fast_pow_xfield_spec (sqCutoff : Nat) (threshold : Int) (p : List X3) (e : Nat) (r : List X3)
    (hp : CanonL3 p) (h : fastPow TF.xfieldOps sqCutoff threshold xNtt p e = some r) :
    xdenote r = xdenote p ^ e ∧ CanonL3 r := by
  obtain ⟨hm, hok⟩ := fastPow_map xfield_opsMap xNtt_transMap sqCutoff threshold p hp e
  rw [h] at hm
  exact ⟨fast_pow_spec (algRoot XK) xkNtt_spec sqCutoff threshold _ e _ hm.symm, hok r h⟩
example : fastPow TF.xfieldOps 0 0 xNtt [(0,1,0),(1,0,0)] 3
    = some [(18446744069414584320,1,0), (0,0,3), (0,3,0), (1,0,0)] := by decide +kernel

theorem map_xdenote (factors : List (List X3)) :
    (factors.map (List.map xc)).map denote = factors.map xdenote := by
  simp [List.map_map, Function.comp_def, xdenote]

/-- `batch_multiply` over `XFieldElement` -/
theorem batch_multiply_xfield_spec (threshold : Int) (factors : List (List X3)) (r : List X3)
    (hf : ∀ p ∈ factors, CanonL3 p) (h : batchMultiply TF.xfieldOps threshold xNtt factors = some r) :
    xdenote r = (factors.map xdenote).prod ∧ CanonL3 r := by
  obtain ⟨hm, hok⟩ := batchMultiply_map xfield_opsMap xNtt_transMap threshold factors hf
  rw [h] at hm
  refine ⟨?_, hok r h⟩
  rw [xdenote_eq, batch_multiply_spec (algRoot XK) xkNtt_spec threshold _ _ hm.symm, map_xdenote]
example : batchMultiply TF.xfieldOps 0 xNtt [[(0,1,0),(1,0,0)], [(0,1,0),(1,0,0)], [(0,0,1)]]
    = some [(0,18446744069414584320,1), (18446744069414584319,2,0), (0,0,1)] := by decide +kernel

/-- `par_batch_multiply` over `XFieldElement`, every thread count -/
theorem par_batch_multiply_xfield_spec (threshold : Int) (numThreads : Nat) (factors : List (List X3)) (r : List X3)
    (hf : ∀ p ∈ factors, CanonL3 p) (h : parBatchMultiply TF.xfieldOps threshold xNtt numThreads factors = some r) :
    xdenote r = (factors.map xdenote).prod ∧ CanonL3 r := by
  obtain ⟨hm, hok⟩ := parBatchMultiply_map xfield_opsMap xNtt_transMap threshold numThreads factors hf
  rw [h] at hm
  refine ⟨?_, hok r h⟩
  rw [xdenote_eq, par_batch_multiply_spec (algRoot XK) xkNtt_spec threshold numThreads _ _ hm.symm, map_xdenote]
example : parBatchMultiply TF.xfieldOps 0 xNtt 2 [[(0,1,0),(1,0,0)], [(0,1,0),(1,0,0)], [(0,0,1)]]
    = some [(0,18446744069414584320,1), (18446744069414584319,2,0), (0,0,1)] := by decide +kernel

/-- no panic for `fast_multiply` / `fast_square` over `XFieldElement` up to transform length `2^31` -/
theorem fast_multiply_xfield_total (a b : List X3)
    (h : nextPowerOfTwo ((Model.Poly.degree TF.xfieldOps a + Model.Poly.degree TF.xfieldOps b).toNat + 1) ≤ 2^31) :
    (fastMultiply TF.xfieldOps xNtt a b).isSome := by
  obtain ⟨k, hk, hn⟩ := nextPowerOfTwo_le_pow _ 31 h
  exact fastMultiply_isSome_of _ _ a b (by rw [hn]; exact xNtt_definedAt k hk)
example : nextPowerOfTwo ((Model.Poly.degree TF.xfieldOps [(1,0,0),(0,1,0)]
    + Model.Poly.degree TF.xfieldOps [(0,0,1),(1,0,0)]).toNat + 1) ≤ 2^31 := by decide +kernel

theorem fast_square_xfield_total (p : List X3)
    (h : nextPowerOfTwo (2 * ((Model.Poly.normalize TF.xfieldOps p).length - 1) + 1) ≤ 2^31) :
    (fastSquare TF.xfieldOps xNtt p).isSome := by
  obtain ⟨k, hk, hn⟩ := nextPowerOfTwo_le_pow _ 31 h
  exact fastSquare_isSome_of _ _ p (by rw [hn]; exact xNtt_definedAt k hk)
example : nextPowerOfTwo (2 * ((Model.Poly.normalize TF.xfieldOps [(0,1,0),(0,0,1)]).length - 1) + 1) ≤ 2^31 := by
  decide +kernel

/-! #### operands over different fields (`B × X`, `X × B`), each transformed over its own field

The driver's `mulBX a b = xscale a b` and `mulXB a b = xscale b a` are the mixed coefficient products; the left
operand is transformed with its own transform (`bNtt` resp. `xNtt`), the result with `xNtt`. -/

theorem bdenote_map_phi (a : List Nat) : denote ((a.map zc).map φ) = (bdenote a).map φ := by
  rw [denote_map]; rfl

/-- `fast_multiply` / `multiply` (every threshold) with a `BFieldElement` polynomial on the left and an
    `XFieldElement` polynomial on the right -/
theorem ntt_multiply_bx_spec (threshold : Int) (a : List Nat) (b r : List X3) (ha : CanonL a) (hb : CanonL3 b) :
    (fastMultiplyG TF.bfieldOps TF.xfieldOps (fun x y => xscale x y) bNtt xNtt xNtt a b = some r →
      xdenote r = (bdenote a).map φ * xdenote b ∧ CanonL3 r) ∧
    (multiplyG TF.bfieldOps TF.xfieldOps TF.xfieldOps (fun x y => xscale x y) threshold bNtt xNtt xNtt a b = some r →
      xdenote r = (bdenote a).map φ * xdenote b ∧ CanonL3 r) := by
  constructor
  · intro h
    have hm := fastMultiplyG_map (mul' := fun x y => φ x * (RingHom.id XK) y) bfield_opsMap xfield_opsMap
      bNtt_transMap xNtt_transMap xNtt_transMap xc_mulBX a b ha hb
    rw [h, fastMultiplyG_eq_of_hom (algRoot XK) zRoot (algRoot XK) φ (RingHom.id XK) zNtt xkNtt xkNtt
      zNtt_to_xk xkNtt_id] at hm
    refine ⟨?_, fastMultiplyG_ok xNtt_transMap a b r h⟩
    rw [xdenote_eq, fast_multiply_spec (algRoot XK) xkNtt_spec _ _ _ hm.symm, bdenote_map_phi]
    simp [xdenote]
  · intro h
    have hm := multiplyG_map (mul' := fun x y => φ x * (RingHom.id XK) y) bfield_opsMap xfield_opsMap xfield_opsMap
      bNtt_transMap xNtt_transMap xNtt_transMap xc_mulBX threshold a b ha hb
    rw [h, multiplyG_eq_of_hom (algRoot XK) zRoot (algRoot XK) φ (RingHom.id XK) zNtt xkNtt xkNtt
      zNtt_to_xk xkNtt_id] at hm
    refine ⟨?_, multiplyG_ok xfield_opsMap xNtt_transMap (fun x y => canon3_mod _ _ _) threshold a b r h⟩
    rw [xdenote_eq, multiply_spec (algRoot XK) xkNtt_spec threshold _ _ _ hm.symm, bdenote_map_phi]
    simp [xdenote]
example : fastMultiplyG TF.bfieldOps TF.xfieldOps (fun x y => xscale x y) bNtt xNtt xNtt [1, 2] [(0,0,1),(1,0,0)]
    = some [(0,0,1), (1,0,2), (2,0,0)] := by decide +kernel

/-- … and with the `XFieldElement` polynomial on the left -/
theorem ntt_multiply_xb_spec (threshold : Int) (a : List X3) (b : List Nat) (r : List X3) (ha : CanonL3 a) (hb : CanonL b) :
    (fastMultiplyG TF.xfieldOps TF.bfieldOps (fun x y => xscale y x) xNtt bNtt xNtt a b = some r →
      xdenote r = xdenote a * (bdenote b).map φ ∧ CanonL3 r) ∧
    (multiplyG TF.xfieldOps TF.bfieldOps TF.xfieldOps (fun x y => xscale y x) threshold xNtt bNtt xNtt a b = some r →
      xdenote r = xdenote a * (bdenote b).map φ ∧ CanonL3 r) := by
  constructor
  · intro h
    have hm := fastMultiplyG_map (mul' := fun x y => (RingHom.id XK) x * φ y) xfield_opsMap bfield_opsMap
      xNtt_transMap bNtt_transMap xNtt_transMap xc_mulXB a b ha hb
    rw [h, fastMultiplyG_eq_of_hom (algRoot XK) (algRoot XK) zRoot (RingHom.id XK) φ xkNtt zNtt xkNtt
      xkNtt_id zNtt_to_xk] at hm
    refine ⟨?_, fastMultiplyG_ok xNtt_transMap a b r h⟩
    rw [xdenote_eq, fast_multiply_spec (algRoot XK) xkNtt_spec _ _ _ hm.symm, bdenote_map_phi]
    simp [xdenote]
  · intro h
    have hm := multiplyG_map (mul' := fun x y => (RingHom.id XK) x * φ y) xfield_opsMap bfield_opsMap xfield_opsMap
      xNtt_transMap bNtt_transMap xNtt_transMap xc_mulXB threshold a b ha hb
    rw [h, multiplyG_eq_of_hom (algRoot XK) (algRoot XK) zRoot (RingHom.id XK) φ xkNtt zNtt xkNtt
      xkNtt_id zNtt_to_xk] at hm
    refine ⟨?_, multiplyG_ok xfield_opsMap xNtt_transMap (fun x y => canon3_mod _ _ _) threshold a b r h⟩
    rw [xdenote_eq, multiply_spec (algRoot XK) xkNtt_spec threshold _ _ _ hm.symm, bdenote_map_phi]
    simp [xdenote]
example : multiplyG TF.xfieldOps TF.bfieldOps TF.xfieldOps (fun x y => xscale y x) 1 xNtt bNtt xNtt [(0,0,1),(1,0,0)] [1, 2]
    = some [(0,0,1), (1,0,2), (2,0,0)] := by decide +kernel

end XField

end TF.C07

/-! ## regenerated-from-source bridge (tools/rs2lean_poly.py, `TF/Gen/PolyLoops.lean`) — BT6

`scalar_mul`, `scalar_mul_mut`, `scale`, `shift_coefficients`, the `Mul` operator body, the dispatchers `multiply` and `square`
and the NTT-based `fast_multiply` are **also regenerated from the text of `polynomial.rs` on every run** (`TF.Gen.Poly.*`: field
operations as parameters, mixed products `FF × FF2 → Output` as an explicit parameter, callees that are not translated — the
`fast_*` arms of the dispatchers, `ntt`/`intt` — as parameters; `Option` = may panic).  Proved equal to the hand models of
`TF/Model/Poly.lean` / `PolyMul.lean` for **every** record of operations, every storage (proofs: `TF/Proofs/GenBridgePoly.lean`).
`naive_multiply` / `slow_square` (index double loops) re-associate the sums of the hand models `mulRows` / `squareRows`; their
bridge needs the additive monoid laws of the coefficient type of the result (`AddLaws`) and is proved in the section
"the index double loops" at the end of this file (P07), together with the transfer of `naive_multiply_spec`, `mul_spec`,
`slow_square_spec` and of the dispatchers to the regenerated code over every Mathlib field. -/
namespace TF.C07
open TF TF.Model.Poly

/-- regenerated `scalar_mul` (`iter().map(|&c| c * scalar).collect()`), `scalar_mul_mut` (`for c in &mut v { *c *= s }`) =
    hand model, any scalar / result type -/
theorem gen_scalar_mul_eq_model {α σ γ : Type} (F : FieldOps α) (mul : α → σ → γ) (mul' : α → σ → α) (p : List α) (s : σ) :
    TF.Gen.Poly.scalar_mul F mul p s = scalarMulG mul p s ∧ TF.Gen.Poly.scalar_mul_mut F mul' p s = scalarMulG mul' p s :=
  ⟨rfl, rfl⟩
example : TF.Gen.Poly.scalar_mul bfieldOps bfieldOps.mul [1, 2, 3] 2 = [2, 4, 6] := by decide

/-- regenerated `scale` (the `push` loop carrying `power_of_alpha`) = hand model, any scalar type with its own `one`/`mul` -/
theorem gen_scale_eq_model {α σ γ : Type} (F : FieldOps α) (oneS : σ) (mulS : σ → σ → σ) (mul : α → σ → γ)
    (p : List α) (alpha : σ) : TF.Gen.Poly.scale F oneS mulS mul p alpha = scaleG oneS mulS mul p alpha :=
  TF.GenBridge.Poly.scale_eq F oneS mulS mul p alpha
example : TF.Gen.Poly.scale bfieldOps 1 bfieldOps.mul bfieldOps.mul [1, 0, 3] 2 = [1, 0, 12] := by decide

/-- regenerated `shift_coefficients` (`splice(0..0, vec![ZERO; power])`) = hand model -/
theorem gen_shift_eq_model {α : Type} (F : FieldOps α) (p : List α) (n : Nat) :
    TF.Gen.Poly.shift_coefficients F p n = shiftCoefficients F p n := rfl
example : TF.Gen.Poly.shift_coefficients bfieldOps [1, 2] 2 = [0, 0, 1, 2] := by decide

/-- the regenerated `Mul` operator body is the regenerated `naive_multiply` -/
theorem gen_mul_is_naive_multiply {α β γ : Type} (F : FieldOps α) (F2 : FieldOps β) (F3 : FieldOps γ) (mul : α → β → γ)
    (a : List α) (b : List β) :
    TF.Gen.Poly.mul F F2 F3 mul a b = TF.Gen.Poly.naive_multiply F F2 F3 mul a b :=
  TF.GenBridge.Poly.mul_eq_naive F F2 F3 mul a b
example : TF.Gen.Poly.mul bfieldOps bfieldOps bfieldOps bfieldOps.mul [1, 2, 0] [3, 1] = some [3, 7, 2] := by decide

/-- regenerated dispatcher `multiply`: `naive_multiply` iff `deg a + deg b <` the regenerated threshold (an `isize`
    comparison; `-1` for zero operands), else the `fast_multiply` parameter — for every storage -/
theorem gen_multiply_dispatch {α β γ : Type} (F : FieldOps α) (F2 : FieldOps β) (F3 : FieldOps γ) (mul : α → β → γ)
    (fm : List α → List β → Option (List γ)) (a : List α) (b : List β) :
    TF.Gen.Poly.multiply F F2 F3 mul fm a b =
      if Model.Poly.degree F a + Model.Poly.degree F2 b < (TF.Gen.FAST_MULTIPLY_CUTOFF_THRESHOLD : Int)
      then TF.Gen.Poly.naive_multiply F F2 F3 mul a b else fm a b :=
  TF.GenBridge.Poly.multiply_dispatch F F2 F3 mul fm a b
example : TF.Gen.Poly.multiply bfieldOps bfieldOps bfieldOps bfieldOps.mul (fun _ _ => none) [1, 2, 0] [3, 1] = some [3, 7, 2] := by
  decide

/-- regenerated dispatcher `square`: zero first, the `fast_square` parameter iff `2·deg + 1 > 64`, else the same double
    loop as the regenerated `slow_square` -/
theorem gen_square_dispatch {α : Type} (F : FieldOps α) (fs : List α → Option (List α)) (p : List α) :
    TF.Gen.Poly.square F fs p =
      if Model.Poly.degree F p = -1 then some []
      else if 2 * (Model.Poly.degree F p).toNat + 1 > 64 then fs p else TF.Gen.Poly.slow_square F p :=
  TF.GenBridge.Poly.square_dispatch F fs p
example : TF.Gen.Poly.square bfieldOps (fun _ => none) [1, 1, 0] = some [1, 2, 1] ∧ 64 = TF.Gen.SQUARE_CUTOFF := by decide

/-- regenerated `fast_multiply` (degree sum, `next_power_of_two`, `resize`, `ntt`, Hadamard product, `intt`, `truncate`) on
    top of arbitrary transforms = hand model `fastMultiplyG`, including every panic of the transforms -/
theorem gen_fast_multiply_eq_model {α β γ : Type} (F : FieldOps α) (F2 : FieldOps β) (F3 : FieldOps γ) (mul : α → β → γ)
    (T1 : Transform α) (T2 : Transform β) (T3 : Transform γ) (a : List α) (b : List β) :
    TF.Gen.Poly.fast_multiply F F2 F3 mul T1.ntt T2.ntt T3.intt a b = fastMultiplyG F F2 mul T1 T2 T3 a b :=
  TF.GenBridge.Poly.fast_multiply_eq F F2 F3 mul T1 T2 T3 a b
example : TF.Gen.Poly.fast_multiply bfieldOps bfieldOps bfieldOps bfieldOps.mul (fun _ => none) (fun _ => none) (fun _ => none)
    [0, 0] [1] = some [] := by decide

/-- regenerated `fast_square` (zero / constant special cases, `resize` of the RAW storage to `next_power_of_two(2·deg + 1)`,
    `ntt`, pointwise squares, `intt`, `truncate`) on top of arbitrary transforms = hand model `fastSquare` -/
theorem gen_fast_square_eq_model {α : Type} (F : FieldOps α) (T : Transform α) (p : List α) :
    TF.Gen.Poly.fast_square F T.ntt T.intt p = fastSquare F T p := TF.GenBridge.Poly.fast_square_eq F T p
example : TF.Gen.Poly.fast_square bfieldOps (fun _ => none) (fun _ => none) [3, 0, 0] = some [9] := by decide

/-- **`fast_square_spec` for the regenerated code** -/
theorem gen_fast_square_transfer {K : Type} [Field K] (root : Nat → Option K) {T : Transform K} {pts : Nat → Nat → K}
    (hT : TransformSpec T pts) (p r : List K)
    (h : TF.Gen.Poly.fast_square (FieldOps.ofField K root) T.ntt T.intt p = some r) : denote r = denote p ^ 2 := by
  rw [gen_fast_square_eq_model] at h
  exact fast_square_spec root hT p r h
example : TransformSpec exampleTransform examplePts := exampleTransform_spec

section transfer
variable {K : Type} [Field K] (root : Nat → Option K)
local notation "FK" => FieldOps.ofField K root
open Polynomial

/-- **`scalar_mul_spec`, `scale_spec`, `shift_spec`, `fast_multiply_spec` for the regenerated code** -/
theorem gen_products_transfer {T : Transform K} {pts : Nat → Nat → K} (hT : TransformSpec T pts)
    (p a b r : List K) (s : K) (n : Nat)
    (h : TF.Gen.Poly.fast_multiply FK FK FK (FK).mul T.ntt T.ntt T.intt a b = some r) :
    denote (TF.Gen.Poly.scalar_mul FK (FK).mul p s) = denote p * C s ∧
    denote (TF.Gen.Poly.scalar_mul_mut FK (FK).mul p s) = denote p * C s ∧
    denote (TF.Gen.Poly.scale FK (FK).one (FK).mul (FK).mul p s) = (denote p).comp (C s * X) ∧
    denote (TF.Gen.Poly.shift_coefficients FK p n) = X ^ n * denote p ∧
    denote r = denote a * denote b := by
  rw [gen_fast_multiply_eq_model] at h
  rw [gen_scale_eq_model]
  exact ⟨scalar_mul_spec root p s, scalar_mul_spec root p s, scale_spec root p s, shift_spec root p n,
    fast_multiply_spec root hT a b r h⟩
example : TransformSpec exampleTransform examplePts := exampleTransform_spec

end transfer
end TF.C07

/-! ## the index double loops `naive_multiply` / `slow_square` regenerated from source — P07

The regenerated loops (`product[i + j] = product[i + j] + self[i] * other[j]` over `0..=degree_lhs × 0..=degree_rhs`;
`sq[2i] += cᵢ²`, `sq[i + j] += (two·cᵢ)·cⱼ` for `j > i` over `coefficients()`) start from a zero vector and add row after row;
the hand models `mulRows` / `squareRows` add row `i` to the already summed later rows.  The two agree **only under laws
of `add`**: `AddLaws F` = `add` is associative and `zero` is a left and a right unit — exactly what the proof uses (each of the
three is needed already for operands of length ≤ 3; commutativity is not needed, `AddLaws.of_comm` gives the right unit from the
left one for a commutative `add`; no law of `mul`, `two = one + one` is the same term on both sides).  Every Mathlib field
satisfies them (`add_laws_of_field`), so the product theorems hold for the regenerated code with no hypothesis left.
`gen = some model` also says: no index panic (`product[i + j]`, `self[i]`, `other[j]`, `coefficients[j]`) for any storage.
Proofs: `TF/Proofs/GenBridgePolyMul.lean`. -/
namespace TF.C07
open TF TF.Model.Poly TF.GenBridge.Poly

/-- a commutative associative `add` with left unit `zero` has the laws the bridges need -/
theorem add_laws_of_comm {α : Type} (F : FieldOps α) (hc : ∀ a b, F.add a b = F.add b a)
    (ha : ∀ a b c, F.add (F.add a b) c = F.add a (F.add b c)) (hz : ∀ a, F.add F.zero a = a) : AddLaws F :=
  AddLaws.of_comm hc ha hz
example : AddLaws (FieldOps.ofField ℚ) := add_laws_of_comm _ (fun a b => add_comm a b) (fun a b c => add_assoc a b c) zero_add

/-- the operation record of every Mathlib field satisfies `AddLaws` -/
theorem add_laws_of_field {K : Type} [Field K] (root : Nat → Option K) : AddLaws (FieldOps.ofField K root) :=
  ⟨fun a b c => add_assoc a b c, fun a => zero_add a, fun a => add_zero a⟩
example : AddLaws (FieldOps.ofField ℚ) := add_laws_of_field _

/-- **regenerated `naive_multiply<FF2>` = hand model**, three coefficient types, any mixed product, every storage of the
    operands (stored leading zeros, zero operands); it never panics -/
theorem gen_naive_multiply_eq_model {α β γ : Type} (F : FieldOps α) (F2 : FieldOps β) (F3 : FieldOps γ) (h : AddLaws F3)
    (mul : α → β → γ) (a : List α) (b : List β) :
    TF.Gen.Poly.naive_multiply F F2 F3 mul a b = some (naiveMultiplyG F F2 F3 mul a b) :=
  naive_multiply_eq F F2 F3 h mul a b
example : TF.Gen.Poly.naive_multiply bfieldOps bfieldOps bfieldOps bfieldOps.mul [1, 2, 0] [3, 1, 5, 0] = some [3, 7, 7, 10] ∧
    naiveMultiplyG bfieldOps bfieldOps bfieldOps bfieldOps.mul [1, 2, 0] [3, 1, 5, 0] = [3, 7, 7, 10] := by decide

/-- **regenerated `slow_square` = hand model**, every storage; it never panics -/
theorem gen_slow_square_eq_model {α : Type} (F : FieldOps α) (h : AddLaws F) (p : List α) :
    TF.Gen.Poly.slow_square F p = some (slowSquare F p) := slow_square_eq F h p
example : TF.Gen.Poly.slow_square bfieldOps [1, 2, 3, 0] = some [1, 4, 10, 12, 9] ∧
    slowSquare bfieldOps [1, 2, 3, 0] = [1, 4, 10, 12, 9] := by decide

/-- the hypothesis `AddLaws` cannot be dropped: with an `add` that ignores its left argument the regenerated loop and the
    hand model differ (a concrete record, a concrete operand pair) -/
theorem gen_naive_multiply_needs_laws :
    ∃ (F : FieldOps Nat) (a b : List Nat),
      TF.Gen.Poly.naive_multiply F F F F.mul a b ≠ some (naiveMultiplyG F F F F.mul a b) :=
  ⟨{ bfieldOps with add := fun a _ => a }, [1, 1], [1, 1], by decide⟩

section transfer2
variable {K : Type} [Field K] (root : Nat → Option K)
local notation "FK" => FieldOps.ofField K root
open Polynomial

/-- **`naive_multiply_spec` and `mul_spec` for the regenerated code**: over every field the regenerated `naive_multiply` and
    the regenerated `Mul` operator return (never panic) and return the ring product, for every storage -/
theorem gen_naive_multiply_transfer (a b : List K) :
    (∃ r, TF.Gen.Poly.naive_multiply FK FK FK (FK).mul a b = some r ∧ denote r = denote a * denote b) ∧
    (∃ r, TF.Gen.Poly.mul FK FK FK (FK).mul a b = some r ∧ denote r = denote a * denote b) := by
  have h := gen_naive_multiply_eq_model FK FK FK (add_laws_of_field root) (FK).mul a b
  refine ⟨⟨_, h, naive_multiply_spec root a b⟩, ⟨_, ?_, naive_multiply_spec root a b⟩⟩
  rw [gen_mul_is_naive_multiply]; exact h
example : ∃ r, TF.Gen.Poly.naive_multiply (FieldOps.ofField ℚ) (FieldOps.ofField ℚ) (FieldOps.ofField ℚ)
    (FieldOps.ofField ℚ).mul [1, 2, 0] [0, 3] = some r ∧ denote r = denote ([1, 2, 0] : List ℚ) * denote ([0, 3] : List ℚ) :=
  (gen_naive_multiply_transfer _ _ _).1

/-- **`slow_square_spec` for the regenerated code** -/
theorem gen_slow_square_transfer (p : List K) :
    ∃ r, TF.Gen.Poly.slow_square FK p = some r ∧ denote r = denote p ^ 2 :=
  ⟨_, gen_slow_square_eq_model FK (add_laws_of_field root) p, slow_square_spec root p⟩
example : ∃ r, TF.Gen.Poly.slow_square (FieldOps.ofField ℚ) [1, 2, 0] = some r ∧ denote r = denote ([1, 2, 0] : List ℚ) ^ 2 :=
  gen_slow_square_transfer _ _

/-- **`naive_multiply_mixed_spec` for the regenerated code**: operands over different fields embedded into the field of the
    result -/
theorem gen_naive_multiply_mixed_transfer {K₁ K₂ : Type} [Field K₁] [Field K₂] (φ₁ : K₁ →+* K) (φ₂ : K₂ →+* K)
    (root₁ : Nat → Option K₁) (root₂ : Nat → Option K₂) (a : List K₁) (b : List K₂) :
    ∃ r, TF.Gen.Poly.naive_multiply (FieldOps.ofField K₁ root₁) (FieldOps.ofField K₂ root₂) FK (fun x y => φ₁ x * φ₂ y) a b
        = some r ∧ denote r = (denote a).map φ₁ * (denote b).map φ₂ :=
  ⟨_, gen_naive_multiply_eq_model _ _ FK (add_laws_of_field root) _ a b, naive_multiply_mixed_spec root φ₁ φ₂ root₁ root₂ a b⟩
example : ∃ r, TF.Gen.Poly.naive_multiply (FieldOps.ofField ℚ) (FieldOps.ofField ℚ) (FieldOps.ofField ℚ)
    (fun x y => (RingHom.id ℚ) x * (RingHom.id ℚ) y) [1, 0] [2] = some r ∧
      denote r = (denote ([1, 0] : List ℚ)).map (RingHom.id ℚ) * (denote ([2] : List ℚ)).map (RingHom.id ℚ) :=
  gen_naive_multiply_mixed_transfer _ _ _ _ _ _ _

/-- **`multiply_spec` / `square_spec` for the regenerated dispatchers on top of the regenerated `fast_multiply` /
    `fast_square`** (the transforms stay parameters with `TransformSpec`, property C06): whenever the regenerated `multiply` /
    `square` returns, it returns the product / the square — with the regenerated thresholds, every storage -/
theorem gen_dispatchers_transfer {T : Transform K} {pts : Nat → Nat → K} (hT : TransformSpec T pts) (a b p r : List K) :
    (TF.Gen.Poly.multiply FK FK FK (FK).mul (TF.Gen.Poly.fast_multiply FK FK FK (FK).mul T.ntt T.ntt T.intt) a b = some r →
      denote r = denote a * denote b) ∧
    (TF.Gen.Poly.square FK (TF.Gen.Poly.fast_square FK T.ntt T.intt) p = some r → denote r = denote p ^ 2) := by
  constructor
  · intro h
    rw [gen_multiply_dispatch] at h
    split at h
    · rw [gen_naive_multiply_eq_model FK FK FK (add_laws_of_field root)] at h
      injection h with h; subst h
      exact naive_multiply_spec root a b
    · rw [gen_fast_multiply_eq_model] at h
      exact fast_multiply_spec root hT a b r h
  · intro h
    rw [gen_square_dispatch] at h
    split at h
    · next hz =>
      injection h with h; subst h
      have : denote p = 0 := (degree_eq_neg_one_iff root p).1 hz
      simp [this]
    · split at h
      · rw [gen_fast_square_eq_model] at h
        exact fast_square_spec root hT p r h
      · rw [gen_slow_square_eq_model FK (add_laws_of_field root)] at h
        injection h with h; subst h
        exact slow_square_spec root p
example : TransformSpec exampleTransform examplePts := exampleTransform_spec

end transfer2

/-! ### S4: `Polynomial::pow` and `Polynomial::fast_pow` regenerated from source

`pow` (the `let Some(bit_length) = pow.checked_ilog2() else { return one }` special case `0⁰ = 1`, the zero-base early return, the
square-and-multiply loop `for i in 0..=bit_length` with `pow >> (bit_length - i) & 1`, `slow_square` and `*`) is regenerated
from `polynomial.rs` on every run (`TF.Gen.Poly.pow` / `pow_for`) and proved equal to the hand model `pow` / `powLoop` for every
`u32` exponent.  `gen = some model` also says that nothing panics: `bit_length - i` never underflows, the shift amount stays
below 32 (`ushr?`), and the squarings/products have no index panic.  Proof: `TF/Proofs/GenBridgePolyPow.lean`. -/

/-- **regenerated `pow` = hand model**, every `u32` exponent, every storage of the base; it never panics -/
theorem gen_pow_eq_model {α : Type} (F : FieldOps α) (h : AddLaws F) (p : List α) (e : Nat) (he : e < 2 ^ 32) :
    TF.Gen.Poly.pow F p e = some (pow F p e) := pow_eq F h p e he
example : TF.Gen.Poly.pow bfieldOps [1, 1, 0] 5 = some [1, 5, 10, 10, 5, 1] ∧ pow bfieldOps [1, 1, 0] 5 = [1, 5, 10, 10, 5, 1] ∧
    TF.Gen.Poly.pow bfieldOps [0, 0] 0 = some [1] ∧ TF.Gen.Poly.pow bfieldOps [0, 0] 3 = some [] := by decide

/-- **regenerated `fast_pow` = hand model `fastPow`** (at the squaring cut-off 64 = `SQUARE_CUTOFF` and the regenerated
    multiplication threshold), on top of the regenerated `square` / `multiply` / `fast_square` / `fast_multiply` and arbitrary
    transforms: every `u32` exponent, every storage, including every panic of the transforms -/
theorem gen_fast_pow_eq_model {α : Type} (F : FieldOps α) (h : AddLaws F) (T : Transform α) (p : List α) (e : Nat)
    (he : e < 2 ^ 32) :
    TF.Gen.Poly.fast_pow F (TF.Gen.Poly.fast_square F T.ntt T.intt)
        (TF.Gen.Poly.fast_multiply F F F F.mul T.ntt T.ntt T.intt) p e
      = fastPow F 64 (TF.Gen.FAST_MULTIPLY_CUTOFF_THRESHOLD : Int) T p e := fast_pow_eq F h T p e he
example : TF.Gen.Poly.fast_pow bfieldOps (fun _ => none) (fun _ _ => none) [1, 1, 0] 5 = some [1, 5, 10, 10, 5, 1] ∧
    64 = TF.Gen.SQUARE_CUTOFF := by decide

section transfer3
variable {K : Type} [Field K] (root : Nat → Option K)
local notation "FK" => FieldOps.ofField K root
open Polynomial

/-- **`pow_spec` for the regenerated code**: over every field the regenerated `pow` returns (never panics) and returns the
    `e`-th power in `K[X]`, for every `u32` exponent (`0⁰ = 1` included) and every storage of the base -/
theorem gen_pow_transfer (p : List K) (e : Nat) (he : e < 2 ^ 32) :
    ∃ r, TF.Gen.Poly.pow FK p e = some r ∧ denote r = denote p ^ e :=
  ⟨_, gen_pow_eq_model FK (add_laws_of_field root) p e he, pow_spec root p e⟩
example : ∃ r, TF.Gen.Poly.pow (FieldOps.ofField ℚ) [1, 2, 0] 7 = some r ∧ denote r = denote ([1, 2, 0] : List ℚ) ^ 7 :=
  gen_pow_transfer _ _ _ (by norm_num)

/-- **`fast_pow_spec` for the regenerated code**: over every field and every transform meeting `TransformSpec`, whenever the
    regenerated `fast_pow` returns it returns the `e`-th power in `K[X]` -/
theorem gen_fast_pow_transfer {T : Transform K} {pts : Nat → Nat → K} (hT : TransformSpec T pts) (p r : List K) (e : Nat)
    (he : e < 2 ^ 32)
    (h : TF.Gen.Poly.fast_pow FK (TF.Gen.Poly.fast_square FK T.ntt T.intt)
        (TF.Gen.Poly.fast_multiply FK FK FK (FK).mul T.ntt T.ntt T.intt) p e = some r) : denote r = denote p ^ e := by
  rw [gen_fast_pow_eq_model FK (add_laws_of_field root) T p e he] at h
  exact fast_pow_spec root hT 64 _ p e r h
example : TransformSpec exampleTransform examplePts := exampleTransform_spec

end transfer3
end TF.C07
