import TF.Proofs.Sponge
import TF.Proofs.GenBridgeSponge
import TF.Proofs.GenBridgeSpongeOk
/-!
# C15 — sponge discipline: injective padding, domain separation, exact sampling

Property theorems only (helper lemmas: `TF/Proofs/Sponge.lean`; model: `TF/Model/Sponge.lean`, hand-written after
`util_types/sponge.rs` and `math/tip5.rs`, tied to them by the correspondence family `sponge`).

Everything is proved for an **arbitrary permutation** `perm : List Nat → List Nat` on states (lists of 16 values);
`Pres perm` only says that it keeps the state width. Notation: `padBlocks input` are the blocks handed to `absorb` by
`pad_and_absorb_all`; `padK n` the number of padding zeros; `stream perm K st` the `10·K` elements produced by `K`
successive squeezes from state `st`, `stateAfter perm K st` the state after them; `usable e` ⇔ `e ≠ p − 1`;
`sel bound xs` = usable elements of `xs`, each `(e mod 2^32) mod bound`; `usedCount xs n` = length of the shortest
prefix of `xs` containing `n` usable elements. `none` is a panic — or exhausted fuel for `sampleIndices`, whose Rust loop
is unbounded.
-/
namespace TF.C15
open TF.Sponge TF.Gen

/-- `pad_and_absorb_all` (for any sponge, any state): never panics and absorbs, in order, full blocks whose
    concatenation is the input, a single one, and the fewest zeros completing a multiple of the rate -/
theorem pad_spec {σ : Type} (ab : σ → List Nat → σ) (s : σ) (input : List Nat) :
    (padBlocks input).flatten = input ++ [1] ++ List.replicate (padK input.length) 0 ∧
    (∀ b ∈ padBlocks input, b.length = RATE) ∧
    padK input.length < RATE ∧ (input.length + 1 + padK input.length) % RATE = 0 ∧
    (∀ j, (input.length + 1 + j) % RATE = 0 → padK input.length ≤ j) ∧
    padAndAbsorbAll ab s input = some ((padBlocks input).foldl ab s) :=
  ⟨(padBlocks_spec input).1, (padBlocks_spec input).2.1, (padK_spec _).1, (padK_spec _).2.1, (padK_spec _).2.2,
    padAndAbsorbAll_eq ab s input⟩
example : padBlocks [7, 7, 7, 7, 7, 7, 7, 7, 7] = [[7, 7, 7, 7, 7, 7, 7, 7, 7, 1]]
    ∧ padBlocks [7, 7, 7, 7, 7, 7, 7, 7, 7, 7] = [[7, 7, 7, 7, 7, 7, 7, 7, 7, 7], [1, 0, 0, 0, 0, 0, 0, 0, 0, 0]]
    ∧ padBlocks [] = [[1, 0, 0, 0, 0, 0, 0, 0, 0, 0]] := by decide

/-- the padding is injective: different inputs are absorbed as different block sequences -/
theorem pad_injective {a b : List Nat} (h : padBlocks a = padBlocks b) : a = b := by
  have := congrArg List.flatten h
  rw [(padBlocks_spec a).1, (padBlocks_spec b).1] at this
  exact padSpec_injective this
example : padBlocks [5] ≠ padBlocks [5, 1] ∧ padBlocks [5, 1] ≠ padBlocks [5, 1, 0] := by decide

/-- domain separation: variable-length hashing starts from the all-zero state, fixed-length hashing from the
    all-ones capacity; whatever is written into the rate part, the two never share an initial state -/
theorem domains_differ :
    initState = List.replicate STATE_SIZE 0 ∧
    (newState true).drop RATE = List.replicate CAPACITY 1 ∧ (newState false).drop RATE = List.replicate CAPACITY 0 ∧
    ∀ x b : List Nat, x.length = RATE → b.length = RATE →
      x ++ (newState true).drop RATE ≠ b ++ (newState false).drop RATE := by
  refine ⟨rfl, by decide, by decide, fun x b hx hb h => ?_⟩
  have := (List.append_inj h (by rw [hx, hb])).2
  revert this; decide
example : newState true ≠ newState false := by decide

/-- `hash_varlen`: absorb exactly the padded input into the zero state, output the first five elements of one squeeze;
    `hash_10` / `hash_pair`: one permutation of input ++ all-ones capacity -/
theorem hash_varlen_spec (perm : List Nat → List Nat) (input : List Nat) :
    hashVarlen perm input =
      some ((((padBlocks input).foldl (absorb perm) (List.replicate STATE_SIZE 0)).take RATE).take DIGEST_LEN) ∧
    (∀ x, hash10 perm x = (perm (x ++ List.replicate CAPACITY 1)).take DIGEST_LEN) ∧
    (∀ st block, absorb perm st block = perm (block ++ st.drop RATE)) := by
  refine ⟨?_, fun x => rfl, fun _ _ => rfl⟩
  unfold hashVarlen
  rw [padAndAbsorbAll_eq]
  rfl
example : hashVarlen id [3, 4] = some [3, 4, 1, 0, 0] := by decide

/-- `sample_indices`, exactly: with `fuel` iterations available (`fuel ≤ 10·K`), the call inspects the first `fuel`
    elements of the squeezed stream; it returns iff these contain `num` usable elements, and then returns the indices
    of the shortest such prefix (length `u`), in order, leaving the sponge in the state after `⌈u/10⌉` squeezes -/
theorem sample_indices_spec {perm : List Nat → List Nat} (hp : Pres perm) {st : List Nat}
    (hst : st.length = STATE_SIZE) (bound num fuel K : Nat) (hf : fuel ≤ RATE * K) :
    sampleIndices perm fuel st bound num =
      (usedCount ((stream perm K st).take fuel) num).map fun u =>
        (sel bound ((stream perm K st).take u), stateAfter perm ((u + 9) / 10) st) :=
  sampleIndices_exact hp hst bound num fuel K hf
example : Pres id := fun _ h => h
example : sampleIndices id 30 [P - 1, 5, P - 1, 4294967296 + 7, 0, 0, 0, 0, 0, 0, 1, 1, 1, 1, 1, 1] 4 2
    = some ([1, 3], [P - 1, 5, P - 1, 4294967296 + 7, 0, 0, 0, 0, 0, 0, 1, 1, 1, 1, 1, 1]) := by decide

/-- meaning of `usedCount`: the shortest prefix with `n` usable elements (so sampling stops as soon as the stream has
    supplied the elements it uses, and skips exactly the elements equal to `p − 1`) -/
theorem used_count_spec (xs : List Nat) (n u : Nat) (h : usedCount xs n = some u) :
    u ≤ xs.length ∧ ((xs.take u).filter usable).length = n ∧
      (∀ v, v < u → ((xs.take v).filter usable).length < n) ∧ (sel 1 (xs.take u)).length = n := by
  obtain ⟨h1, h2, h3⟩ := usedCount_some xs n u h
  refine ⟨h1, h2, h3, ?_⟩
  unfold sel; rw [List.length_map]; exact h2
example : usedCount [P - 1, 5, P - 1, 7, 9] 2 = some 4 := by decide

/-- whenever it returns, the result is the one described (`K = fuel` squeezes cover every element it can inspect) -/
theorem sample_indices_sound {perm : List Nat → List Nat} (hp : Pres perm) {st : List Nat}
    (hst : st.length = STATE_SIZE) (bound num fuel : Nat) (idx st' : List Nat)
    (h : sampleIndices perm fuel st bound num = some (idx, st')) :
    ∃ u, usedCount (stream perm fuel st) num = some u ∧ u ≤ fuel ∧
      idx = sel bound ((stream perm fuel st).take u) ∧ idx.length = num ∧
      st' = stateAfter perm ((u + 9) / 10) st := by
  rw [sample_indices_spec hp hst bound num fuel fuel (by rw [RATE_eq]; omega)] at h
  cases hc : usedCount ((stream perm fuel st).take fuel) num with
  | none => rw [hc] at h; cases h
  | some u =>
    rw [hc] at h
    simp only [Option.map_some, Option.some.injEq, Prod.mk.injEq] at h
    obtain ⟨h1, h2, h3⟩ := usedCount_some _ _ _ hc
    have hu : u ≤ fuel := Nat.le_trans h1 (by rw [List.length_take]; exact Nat.min_le_left _ _)
    have htake : ((stream perm fuel st).take fuel).take u = (stream perm fuel st).take u := by
      rw [List.take_take, Nat.min_eq_left hu]
    -- the same prefix length works for the whole stream
    have hfull : usedCount (stream perm fuel st) num = some u := by
      obtain ⟨u', hu'⟩ := usedCount_isSome (stream perm fuel st) num (by
        have := h2; rw [htake] at this
        have hle : usableCount ((stream perm fuel st).take u) ≤ usableCount (stream perm fuel st) := by
          unfold usableCount
          exact (List.Sublist.filter _ (List.take_sublist _ _)).length_le
        omega)
      obtain ⟨g1, g2, g3⟩ := usedCount_some _ _ _ hu'
      rw [htake] at h2
      have e : u' = u := by
        rcases Nat.lt_trichotomy u' u with hlt | heq | hgt
        · have := h3 u' hlt
          rw [List.take_take, Nat.min_eq_left (by omega)] at this; omega
        · exact heq
        · have := g3 u hgt; omega
      rw [hu', e]
    refine ⟨u, hfull, hu, h.1.symm, ?_, h.2.symm⟩
    rw [← h.1]
    unfold sel; rw [List.length_map]
    rw [htake] at h2; exact h2

/-- termination: if the first `K` squeezes supply `num` usable elements, `sample_indices` returns within `10·K`
    iterations (it does not depend on anything but the stream) -/
theorem sample_indices_terminates {perm : List Nat → List Nat} (hp : Pres perm) {st : List Nat}
    (hst : st.length = STATE_SIZE) (bound num K : Nat)
    (h : num ≤ ((stream perm K st).filter usable).length) :
    (sampleIndices perm (RATE * K) st bound num).isSome := by
  rw [sample_indices_spec hp hst bound num (RATE * K) K (Nat.le_refl _)]
  have hl := (stream_length hp K st hst).1
  rw [List.take_of_length_le (by rw [hl])]
  obtain ⟨u, hu⟩ := usedCount_isSome (stream perm K st) num h
  rw [hu]; rfl

/-- `sample_scalars(num)`: never panics; `⌈3·num/10⌉` squeezes, the stream grouped in threes, the first `num` groups;
    the sponge is left in the state after those squeezes -/
theorem sample_scalars_spec {perm : List Nat → List Nat} (hp : Pres perm) {st : List Nat}
    (hst : st.length = STATE_SIZE) (num : Nat) :
    ∃ groups : List (Nat × Nat × Nat),
      sampleScalars perm st num = some (groups, stateAfter perm ((num * 3 + 9) / 10) st) ∧
      groups.length = num ∧
      (groups.flatMap fun t => [t.1, t.2.1, t.2.2]) = (stream perm ((num * 3 + 9) / 10) st).take (3 * num) :=
  sampleScalars_eq hp hst num
example : sampleScalars id [1, 2, 3, 4, 5, 6, 7, 8, 9, 10, 0, 0, 0, 0, 0, 0] 4
    = some ([(1, 2, 3), (4, 5, 6), (7, 8, 9), (10, 1, 2)], [1, 2, 3, 4, 5, 6, 7, 8, 9, 10, 0, 0, 0, 0, 0, 0]) := by
  decide

/-! ## Regenerated-from-source bridge (tools/rs2lean_bt4.py, `TF/Gen/SpongeLoops.lean`)

The sponge functions are regenerated from the text of `tip5.rs` / `sponge.rs` on every run.  The regenerated code works on
raw Montgomery words and calls the regenerated `Loops.tip5_permutation`; the hand model works on canonical values over
an abstract permutation.  `enc = map bfe_new` encodes values as words and the model is instantiated with
`permV vs = map bfe_value (Loops.tip5_permutation (enc vs))` — the regenerated permutation read on values.  Each theorem
holds for every canonical input (all values `< P`); proofs in `TF/Proofs/GenBridgeSponge.lean`. -/
section GenBridge
open TF.GenBridge.Sponge
open TF.Gen.Loops (tip5_init tip5_absorb tip5_squeeze tip5_pad_and_absorb_all tip5_hash_varlen tip5_hash_pair
  tip5_sample_indices tip5_sample_indices_ok tip5_hash_varlen_ok tip5_hash_pair_ok)

/-- `permV` keeps the state width, so every theorem above applies to it -/
theorem gen_permV_pres : Pres permV := permV_pres

/-- regenerated `Sponge::init` (for Tip5) = the hand model's initial state -/
theorem gen_init_eq_model : tip5_init = some (enc initState) := gen_init_eq.1

/-- regenerated `absorb` (`iter_mut().zip_eq(..).for_each(..)`, `permutation`) = hand model, every canonical state/block -/
theorem gen_absorb_eq_model {st block : List Nat} (hl : st.length = 16) (hc : ∀ x ∈ st, x < P) (hbl : block.length = 10)
    (hbc : ∀ x ∈ block, x < P) :
    tip5_absorb (enc st) (enc block) = enc (absorb permV st block) := (gen_absorb_eq hl hc hbl hbc).1

/-- regenerated `squeeze` = hand model -/
theorem gen_squeeze_eq_model {st : List Nat} (hl : st.length = 16) (hc : ∀ x ∈ st, x < P) :
    tip5_squeeze (enc st) = (enc (squeeze permV st).1, enc (squeeze permV st).2) := (gen_squeeze_eq hl hc).1
example : (tip5_squeeze (enc (List.replicate 16 7))).1 = enc (List.replicate 10 7) := by decide +kernel

/-- regenerated `Sponge::pad_and_absorb_all` (the trait's default method: `next_multiple_of`, `once`/`repeat`/`chain`/
    `take`, itertools `chunks`, `try_into().unwrap()`, `absorb`) = hand model, every canonical input that fits in memory -/
theorem gen_pad_and_absorb_all_eq_model {st input : List Nat} (hl : st.length = 16) (hc : ∀ x ∈ st, x < P)
    (hi : ∀ x ∈ input, x < P) (hlen : input.length + 10 < 2 ^ 64) :
    some (tip5_pad_and_absorb_all (enc st) (enc input)) = (padAndAbsorbAll (absorb permV) st input).map enc :=
  (gen_pad_and_absorb_all_eq hl hc hi hlen).1

/-- regenerated `hash_varlen` = hand model -/
theorem gen_hash_varlen_eq_model {input : List Nat} (hi : ∀ x ∈ input, x < P) (hlen : input.length + 10 < 2 ^ 64) :
    tip5_hash_varlen (enc input) = (hashVarlen permV input).map enc := gen_hash_varlen_eq hi hlen
example : (tip5_hash_varlen (enc [3, 4, 5, 6, 7, 8, 9, 10, 11, 12])).isSome = true ∧
    tip5_hash_varlen_ok (enc [3, 4, 5, 6, 7, 8, 9, 10, 11, 12]) = true ∧
    tip5_hash_varlen (enc [3, 4]) ≠ tip5_hash_varlen (enc [3, 4, 0]) := by decide +kernel

/-- regenerated `hash_pair` (`Digest::values` / `Digest::new` as identities on 5-element arrays) = hand model -/
theorem gen_hash_pair_eq_model {l r : List Nat} (hl : l.length = 5) (hr : r.length = 5) (hlc : ∀ x ∈ l, x < P)
    (hrc : ∀ x ∈ r, x < P) :
    tip5_hash_pair (enc l) (enc r) = some (enc (hashPair permV l r)) := gen_hash_pair_eq hl hr hlc hrc
example : (tip5_hash_pair (enc [1, 2, 3, 4, 5]) (enc [6, 7, 8, 9, 10])).isSome = true ∧
    tip5_hash_pair_ok (enc [1, 2, 3, 4, 5]) (enc [6, 7, 8, 9, 10]) = true ∧
    tip5_hash_pair_ok (enc [1, 2, 3, 4]) (enc [6, 7, 8, 9, 10]) = false := by decide +kernel

/-- regenerated `sample_indices` (the rejection loop: refill by `squeeze().into_iter().rev().collect_vec()`, `pop()`,
    comparison with `BFieldElement::new(MAX)`, `value() as u32 % upper_bound`) = hand model **including `none`**: the
    regenerated loop with `fuel + 1` evaluations of its head is the model's loop with `fuel` iterations; with no fuel it
    does not return -/
theorem gen_sample_indices_eq_model {st : List Nat} (hl : st.length = 16) (hc : ∀ x ∈ st, x < P) (fuel bound num : Nat) :
    tip5_sample_indices (fuel + 1) (enc st) bound num
      = (sampleIndices permV fuel st bound num).map (fun r => (r.1, enc r.2)) ∧
    tip5_sample_indices 0 (enc st) bound num = none := gen_sample_indices_eq hl hc fuel bound num
/-- non-vacuity on the rejection path (probability 2^-64 per element under random states): lanes 0 and 2 hold `p - 1` and
    are skipped, the call needs four iterations (five evaluations of the loop head) and runs out of fuel with fewer -/
example : let st := [P - 1, 5, P - 1, 4294967296 + 7, 0, 0, 0, 0, 0, 0, 1, 1, 1, 1, 1, 1]
    (tip5_sample_indices 5 (enc st) 4 2).map Prod.fst = some [1, 3] ∧
    tip5_sample_indices 4 (enc st) 4 2 = none ∧
    tip5_sample_indices_ok 5 (enc st) 4 2 = true := by decide +kernel

/-- **transfer**: the C15 statements for the code as it is in the source now (on every canonical state / input):
    `sample_indices` inspects the first `fuel` elements of the stream squeezed with the regenerated permutation, returns
    iff these contain `num` usable elements and then returns the indices of the shortest such prefix and leaves the state
    after `⌈u/10⌉` squeezes (`sample_indices_spec`); `hash_varlen` absorbs exactly the padded input into the zero state
    and outputs the first five elements of one squeeze (`hash_varlen_spec`, `pad_spec`); different inputs are absorbed as
    different block sequences (`pad_injective`) -/
theorem gen_sponge_transfer {st : List Nat} (hl : st.length = 16) (hc : ∀ x ∈ st, x < P) :
    (∀ bound num fuel K : Nat, fuel ≤ RATE * K →
      tip5_sample_indices (fuel + 1) (enc st) bound num =
        (usedCount ((stream permV K st).take fuel) num).map fun u =>
          (sel bound ((stream permV K st).take u), enc (stateAfter permV ((u + 9) / 10) st))) ∧
    (∀ input : List Nat, (∀ x ∈ input, x < P) → input.length + 10 < 2 ^ 64 →
      tip5_hash_varlen (enc input) =
        some (enc ((((padBlocks input).foldl (absorb permV) (List.replicate STATE_SIZE 0)).take RATE).take DIGEST_LEN)) ∧
      tip5_pad_and_absorb_all (enc st) (enc input) = enc ((padBlocks input).foldl (absorb permV) st)) := by
  refine ⟨fun bound num fuel K hf => ?_, fun input hi hlen => ⟨?_, ?_⟩⟩
  · rw [(gen_sample_indices_eq_model hl hc fuel bound num).1,
      sample_indices_spec gen_permV_pres (by rw [hl]; rfl) bound num fuel K hf, Option.map_map]
    rfl
  · rw [gen_hash_varlen_eq_model hi hlen, (hash_varlen_spec permV input).1, Option.map_some]
  · have h := gen_pad_and_absorb_all_eq_model hl hc hi hlen
    rw [(pad_spec (absorb permV) st input).2.2.2.2.2, Option.map_some] at h
    exact Option.some.inj h
example : (∀ x ∈ List.replicate 16 (P - 1), x < P) := by decide

/-- regenerated `Tip5::sample_scalars` (`(0..num_squeezes).flat_map(|_| self.squeeze()).collect_vec().chunks(3)
    .take(num_elements).map(|elem| XFieldElement::new([elem[0], elem[1], elem[2]])).collect()`; the `flat_map` whose closure
    mutates `self` read as the loop it is driven through by `collect_vec`) = the hand model, on every canonical state and
    every `num` with `3·num < 2^64`: same scalars (as raw words, `encTriple`), same sponge state afterwards; and no check of
    the `_ok` twin fails (`num * EXTENSION_DEGREE` does not overflow, `chunks(3)` with a non-zero size, no chunk indexed out
    of bounds) provided the regenerated permutation's own flag holds on canonical states -/
theorem gen_sample_scalars_eq_model {st : List Nat} (hl : st.length = 16) (hc : ∀ x ∈ st, x < P) (num : Nat)
    (hnum : num * 3 < 2 ^ 64) :
    some (TF.Gen.Loops.tip5_sample_scalars (enc st) num)
      = (sampleScalars permV st num).map (fun r => (r.1.map encTriple, enc r.2)) ∧
    ((∀ s : List Nat, s.length = 16 → (∀ x ∈ s, x < P) → TF.Gen.Loops.tip5_permutation_ok (enc s) = true) →
      TF.Gen.Loops.tip5_sample_scalars_ok (enc st) num = true) := gen_sample_scalars_eq hl hc num hnum
example : (TF.Gen.Loops.tip5_sample_scalars (enc [1, 2, 3, 4, 5, 6, 7, 8, 9, 10, 0, 0, 0, 0, 0, 0]) 3).1
      = [enc [1, 2, 3], enc [4, 5, 6], enc [7, 8, 9]] ∧
    TF.Gen.Loops.tip5_sample_scalars_ok (enc [1, 2, 3, 4, 5, 6, 7, 8, 9, 10, 0, 0, 0, 0, 0, 0]) 4 = true ∧
    ((TF.Gen.Loops.tip5_sample_scalars (enc [1, 2, 3, 4, 5, 6, 7, 8, 9, 10, 0, 0, 0, 0, 0, 0]) 4).1.length = 4) := by
  decide +kernel

/-- **transfer** of `sample_scalars_spec` to the code as it is in the source now: `⌈3·num/10⌉` squeezes with the
    regenerated permutation, the squeezed stream grouped in threes, exactly `num` groups (the first `3·num` stream elements,
    in order), and the sponge is left in the state after those squeezes -/
theorem gen_sample_scalars_transfer {st : List Nat} (hl : st.length = 16) (hc : ∀ x ∈ st, x < P) (num : Nat)
    (hnum : num * 3 < 2 ^ 64) :
    ∃ groups : List (Nat × Nat × Nat),
      TF.Gen.Loops.tip5_sample_scalars (enc st) num
        = (groups.map encTriple, enc (stateAfter permV ((num * 3 + 9) / 10) st)) ∧
      groups.length = num ∧
      (groups.flatMap fun t => [t.1, t.2.1, t.2.2]) = (stream permV ((num * 3 + 9) / 10) st).take (3 * num) := by
  obtain ⟨groups, h1, h2, h3⟩ := sample_scalars_spec gen_permV_pres (st := st) (by rw [hl]; rfl) num
  refine ⟨groups, ?_, h2, h3⟩
  have h := (gen_sample_scalars_eq_model hl hc num hnum).1
  rw [h1, Option.map_some] at h
  exact Option.some.inj h
example : (4 : Nat) * 3 < 2 ^ 64 := by decide

/-- **no overflow, no index out of range, no failed `unwrap`/`assert!` in the regenerated sponge code** (the `_ok` twins,
    until now only evaluated by the driver): on every state of 16 canonical words the regenerated Tip5 permutation — every
    `for` loop of `split_and_lookup`, `sbox_layer`, `mds_generated` with its 128-bit recombination, `round`, `permutation` —
    has a true flag, hence so have `squeeze`, `absorb` (canonical 10-element block), `sample_scalars` (`3·num < 2^64`),
    `pad_and_absorb_all` and `hash_varlen` (canonical input that fits in memory):
    debug and release builds agree on them -/
theorem gen_sponge_ok {st : List Nat} (hl : st.length = 16) (hc : ∀ x ∈ st, x < P) :
    TF.Gen.Loops.tip5_permutation_ok (enc st) = true ∧
    TF.Gen.Loops.tip5_squeeze_ok (enc st) = true ∧
    (∀ block : List Nat, block.length = 10 → (∀ x ∈ block, x < P) →
      TF.Gen.Loops.tip5_absorb_ok (enc st) (enc block) = true) ∧
    (∀ num : Nat, num * 3 < 2 ^ 64 → TF.Gen.Loops.tip5_sample_scalars_ok (enc st) num = true) ∧
    (∀ input : List Nat, (∀ x ∈ input, x < P) → input.length + 10 < 2 ^ 64 →
      TF.Gen.Loops.tip5_pad_and_absorb_all_ok (enc st) (enc input) = true ∧
      TF.Gen.Loops.tip5_hash_varlen_ok (enc input) = true) :=
  ⟨TF.GenBridge.SpongeOk.permutation_ok_enc hl hc, TF.GenBridge.SpongeOk.squeeze_ok hl hc,
    fun _ hbl hbc => TF.GenBridge.SpongeOk.absorb_ok hl hc hbl hbc,
    fun num hnum => TF.GenBridge.SpongeOk.sample_scalars_ok hl hc num hnum,
    fun _ hi hlen => ⟨TF.GenBridge.SpongeOk.pad_and_absorb_all_ok hl hc hi hlen,
      TF.GenBridge.SpongeOk.hash_varlen_ok hi hlen⟩⟩
/-- non-vacuity on the all-`(P − 1)` state; the length hypothesis is needed: on a 15-word state the flag is false -/
example : TF.Gen.Loops.tip5_permutation_ok (enc (List.replicate 16 (P - 1))) = true ∧
    TF.Gen.Loops.tip5_permutation_ok (enc (List.replicate 15 0)) = false := by decide +kernel

end GenBridge

end TF.C15
