import TF.Proofs.MmrIndex
import TF.Proofs.MmrTree
import TF.Proofs.MmrForest
import TF.Proofs.MmrBounded
import TF.Proofs.MmrAuthPathIdx
import TF.Proofs.MmrForestTable
import TF.Proofs.GenBridgeMmr
/-!
# C16 — MMR index arithmetic matches the explicit forest of perfect trees

Property theorems only; helper lemmas are in `TF/Proofs/MmrIndex.lean` (closed forms of the translated functions),
`MmrTree.lean` / `MmrForest.lean` (loop functions against S1, S0 = prefix of S1), `MmrNodeIndex.lean` /
`MmrAuthPathIdx.lean` (node coordinates, `get_authentication_path_node_indices`), `MmrForestTable.lean` (the `mt`,
`auth` and peak-index columns of the table of S0 in coordinates; `forestAgrees n` for all `n < 2^63`),
`TF/Proofs/MmrBounded.lean` (the executable comparison `forestAgrees`, also used by the `…_bounded_check` tests).

* The loop-free functions `left_child, right_child, leaf_index_to_mt_index_and_peak_index,
  right_lineage_length_from_leaf_index, leftmost_ancestor, leaf_index_to_node_index, left_sibling, right_sibling,
  num_leafs_to_num_nodes` are **regenerated from `shared_basic.rs` / `shared_advanced.rs`** on every run
  (`TF/Gen/MmrIndex.lean`); each comes with `f_ok`, true iff no arithmetic operation overflows and every `assert!`
  holds.  The theorems below are re-checked against what the source says now.
* The loop functions are modelled by hand in `TF/Model/MmrIndex.lean` (tied by the correspondence family `mmri`).
* Specification: `TF/Spec/MmrIndex.lean` — **S0** `forest n` (append leaves, merge equal heights, running node
  counter) and its table `Forest.rows`; **S1** `tree o l h`.

Notation: `popCount` = number of set bits, `trailingOnes` = number of trailing one bits, `Nat.log2` = index of the
highest set bit, `bitsBelow h n` = positions of the set bits of `n` below `h`, highest first.
Node coordinates: `nodeIdx l j = (j+1)·2^(l+1) − 1 − popCount j` is the post-order index of the root of the aligned
block `j` of `2^l` leaves ("the node `(l, j)`"); `anc l j t = nodeIdx (l+t) (j / 2^t)` its ancestor `t` levels up;
`sibBlk j` = `j` with the lowest bit flipped; `sibsUp l j d` = node indices of the siblings of `(l, j)`, of its
parent, … (`d` of them, bottom-up).
-/
namespace TF.C16
open TF TF.Gen TF.Mmr TF.Spec.Mmr TF.Model.Mmr
open TF.MmrE (nodeIdx anc sibsUp)
open TF.Spec.MmrE (sibBlk)

/-- `num_leafs_to_num_nodes n = 2n − popcount n` for every leaf count below `2^63`, without overflow. -/
theorem num_leafs_to_num_nodes_exact (n : Nat) (h : n < 2^63) :
    num_leafs_to_num_nodes n = 2 * n - popCount n ∧ num_leafs_to_num_nodes_ok n = true :=
  num_nodes_spec n h
example : (9223372036854775807 : Nat) < 2^63 := by decide

/-- `leaf_index_to_node_index i = 2i − popcount i + 1` (the node created right after the `2i − popcount i` nodes of the
    forest with `i` leaves) for every leaf index below `2^63`, without overflow. -/
theorem leaf_index_to_node_index_exact (i : Nat) (h : i < 2^63) :
    leaf_index_to_node_index i = 2 * i - popCount i + 1 ∧ leaf_index_to_node_index_ok i = true :=
  l2n_spec i h
example : (9223372036854775807 : Nat) < 2^63 := by decide

/-- the number of parents created together with leaf `i` is the number of trailing one bits of `i`
    (the carry chain of `i + 1`); valid for every `i < 2^64 − 1`, in particular below `2^63` -/
theorem right_lineage_length_from_leaf_index_exact (i : Nat) (h : i + 1 < 2^64) :
    right_lineage_length_from_leaf_index i = trailingOnes i ∧ right_lineage_length_from_leaf_index_ok i = true :=
  rll_leaf_spec i h
example : (9223372036854775807 : Nat) + 1 < 2^64 := by decide

/-- `leftmost_ancestor n = (2^(k+1) − 1, k)` where `k = log2 n`, i.e. `2^(k+1) − 1` is the least number of the form
    `2^(j+1) − 1` that is `≥ n` (the root of the smallest left-spine tree containing node `n`), for **every** node index
    `1 ≤ n < 2^64` — including the branch `leading_zeros = 0` -/
theorem leftmost_ancestor_exact (n : Nat) (h1 : 1 ≤ n) (h2 : n < 2^64) :
    leftmost_ancestor n = (2^(Nat.log2 n + 1) - 1, Nat.log2 n) ∧ leftmost_ancestor_ok n = true ∧
    2^(Nat.log2 n) - 1 < n ∧ n ≤ 2^(Nat.log2 n + 1) - 1 := by
  refine ⟨(leftmost_ancestor_spec n h1 h2).1, (leftmost_ancestor_spec n h1 h2).2, ?_, ?_⟩
  · have := Nat.log2_self_le (n := n) (by omega)
    have := Nat.two_pow_pos (Nat.log2 n)
    omega
  · have := (Nat.log2_lt (n := n) (k := Nat.log2 n + 1) (by omega)).mp (Nat.lt_succ_self _)
    omega
example : (1 : Nat) ≤ 18446744073709551615 ∧ (18446744073709551615 : Nat) < 2^64 := by decide

/-- children: `left_child n h = n − 2^h`, `right_child n = n − 1`, exactly when nothing underflows -/
theorem left_child_exact (n h : Nat) (hh : h < 64) (hn : n < 2^64) (hle : 2^h ≤ n) :
    left_child n h = n - 2^h ∧ left_child_ok n h = true := left_child_spec n h hh hn hle
example : (63:Nat) < 64 ∧ (18446744073709551615 : Nat) < 2^64 ∧ 2^63 ≤ (18446744073709551615 : Nat) := by decide

/-- a debug build of `left_child` panics exactly when the shift amount is out of range or the subtraction underflows -/
theorem left_child_ok_exactly (n h : Nat) : left_child_ok n h = true ↔ h < 64 ∧ 2^h ≤ n := left_child_ok_iff n h

theorem right_child_exact (n : Nat) (h1 : 1 ≤ n) (hn : n < 2^64) :
    right_child n = n - 1 ∧ right_child_ok n = true := right_child_spec n h1 hn
example : (1:Nat) ≤ 7 ∧ (7:Nat) < 2^64 := by decide

/-- siblings: for a node of height `h ≤ 62` (the only node of height 63 is the root `2^64 − 1`, which has no sibling) -/
theorem left_sibling_exact (n h : Nat) (hh : h < 63) (hn : n < 2^64) (hle : 2^(h+1) ≤ n) :
    left_sibling n h = n - 2^(h+1) + 1 ∧ left_sibling_ok n h = true := left_sibling_spec n h hh hn hle
example : (1:Nat) < 63 ∧ (6:Nat) < 2^64 ∧ 2^(1+1) ≤ (6:Nat) := by decide

theorem right_sibling_exact (n h : Nat) (hh : h < 63) (hs : n + 2^(h+1) < 2^64) :
    right_sibling n h = n + 2^(h+1) - 1 ∧ right_sibling_ok n h = true :=
  ⟨(right_sibling_spec n h hh (by omega)).1, (right_sibling_spec n h hh (by omega)).2 hs⟩
example : (1:Nat) < 63 ∧ (3:Nat) + 2^(1+1) < 2^64 := by decide

/-- Merkle-tree index and peak index of leaf `i` in an MMR with `n` leaves, for all `i < n < 2^64`:
    with `h` the highest bit in which `i` and `n` differ (`n` has it set, `i` does not, above it they agree — so the
    leaf lies in the tree that belongs to bit `h` of `n`), the Merkle-tree index is `2^h + (i mod 2^h)` and the peak
    index is the number of set bits of `n` above `h` (= number of higher trees); nothing overflows and the `assert!`
    holds. -/
theorem leaf_index_to_mt_index_and_peak_index_exact (i n : Nat) (hin : i < n) (hn : n < 2^64) :
    let h := (i ^^^ n).log2
    leaf_index_to_mt_index_and_peak_index i n = (2^h + i % 2^h, popCount (n / 2^(h+1))) ∧
    leaf_index_to_mt_index_and_peak_index_ok i n = true ∧
    i / 2^(h+1) = n / 2^(h+1) ∧ n / 2^h % 2 = 1 ∧ i / 2^h % 2 = 0 :=
  ⟨(mt_spec i n hin hn).1, (mt_spec i n hin hn).2, xor_log2_facts i n hin⟩
example : (9223372036854775806 : Nat) < 9223372036854775807 ∧ (9223372036854775807 : Nat) < 2^64 := by decide

/-- the `assert!` of `leaf_index_to_mt_index_and_peak_index` fails (panic) exactly for `leaf_index ≥ leaf_count` -/
theorem leaf_index_to_mt_index_and_peak_index_panics_iff (i n : Nat) (hn : n < 2^64) :
    leaf_index_to_mt_index_and_peak_index_ok i n = false ↔ n ≤ i := by
  constructor
  · intro h
    apply Nat.le_of_not_lt
    intro hin
    rw [(mt_spec i n hin hn).2] at h
    exact Bool.noConfusion h
  · intro h
    unfold leaf_index_to_mt_index_and_peak_index_ok
    have : decide (i < n) = false := by simp; omega
    rw [this]; rfl

/-! ## the loop functions against S1

`tree 0 0 63` is the perfect tree with node indices `1 … 2^64 − 1` numbered in post-order; every MMR with fewer
than `2^63` leaves is the prefix `1 … 2n − popcount n` of it.  `(tree 0 0 63).rootRows` is its table: one `Row` per
node with height, right-lineage length, parent, sibling, children, leaf index — computed by walking the tree.
`none` on the left-hand sides below would mean "the Rust loop does not terminate within 65 rounds". -/

/-- every node index `1 … 2^64 − 1` occurs in the table -/
theorem every_node_index_has_a_row (n : Nat) (h1 : 1 ≤ n) (h2 : n < 2^64) :
    ∃ r ∈ (tree 0 0 63).rootRows, r.idx = n :=
  rows_idx_complete 63 0 0 0 0 false 0 1 [] n (by omega) (by
    have h64 : (2:Nat)^64 = 18446744073709551616 := by decide
    omega)
example : (1 : Nat) ≤ 18446744073709551615 ∧ (18446744073709551615 : Nat) < 2^64 := by decide

/-- **`right_lineage_length_and_own_height`** terminates and returns (right-lineage length, height) of the node, for
    every node index `1 … 2^64 − 1` -/
theorem right_lineage_length_and_own_height_exact (r : Row) (hr : r ∈ (tree 0 0 63).rootRows) :
    right_lineage_length_and_own_height r.idx = some (r.rll, r.height) := rll_own_rows r hr

/-- **`parent`** returns the parent, for every node that has one (all but the root `2^64 − 1`) -/
theorem parent_exact (r : Row) (hr : r ∈ (tree 0 0 63).rootRows) (hp : r.parent ≠ 0) :
    parent r.idx = some r.parent := parent_rows r hr hp

/-- **`left_sibling` / `right_sibling`** applied to a right / left child with its height return the sibling, without
    overflow -/
theorem siblings_exact (r : Row) (hr : r ∈ (tree 0 0 63).rootRows) (hp : r.parent ≠ 0) :
    (r.rll ≠ 0 → left_sibling r.idx r.height = r.sibling ∧ left_sibling_ok r.idx r.height = true) ∧
    (r.rll = 0 → right_sibling r.idx r.height = r.sibling ∧ right_sibling_ok r.idx r.height = true) :=
  sibling_rows r hr hp

/-- **`left_child` / `right_child`** applied to an inner node with its height return the children, without overflow -/
theorem children_exact (r : Row) (hr : r ∈ (tree 0 0 63).rootRows) (hh : 0 < r.height) :
    left_child r.idx r.height = r.left ∧ left_child_ok r.idx r.height = true ∧
    right_child r.idx = r.right ∧ right_child_ok r.idx = true := children_rows r hr hh

/-- **`node_index_to_leaf_index`** returns `Some(leaf index)` exactly for the leaves, `None` for inner nodes -/
theorem node_index_to_leaf_index_exact (r : Row) (hr : r ∈ (tree 0 0 63).rootRows) :
    node_index_to_leaf_index r.idx = some r.leaf := n2l_rows r hr

/-- the table of S1 is consistent with the index arithmetic the statement of the property talks about:
    a right child has its parent at `+1` and its sibling `2^(h+1) − 1` below, a left child has its parent
    `2^(h+1)` above and its sibling just below the parent; children of an inner node of height `h` are at
    `−2^h` and `−1` -/
theorem table_arithmetic (h : Nat) (r : Row) (hr : r ∈ (tree 0 0 h).rootRows) : RowArith r := rootRows_arith h r hr
example : (6, 1, 1, 7, 3, 4, 5) ∈ (tree 0 0 2).rootRows.map
    (fun r => (r.idx, r.height, r.rll, r.parent, r.sibling, r.left, r.right)) := by decide

/-! ## S0 — the explicit forest (append leaves, merge equal heights, running node counter) -/

/-- the explicit forest with `n` leaves has `2n − popcount n` nodes (= `num_leafs_to_num_nodes n`), `n` leaves, and
    its trees have, from the oldest to the most recent, the heights of the set bits of `n` from the highest down
    (= `get_peak_heights n`) -/
theorem forest_shape_exact (n : Nat) (hn : n < 2^63) :
    (forest n).nodes = num_leafs_to_num_nodes n ∧ (forest n).leafs = n ∧
    (forest n).peaks.map TF.Spec.Mmr.Tree.height = get_peak_heights n := by
  have hs := forest_shape n (by omega)
  rw [(num_nodes_spec n hn).1, get_peak_heights_spec n (by omega)]
  exact hs
example : (forest 11).peaks.map TF.Spec.Mmr.Tree.height = [3, 1, 0] ∧ (forest 11).nodes = 19 := by decide

/-- **`get_peak_heights`** = positions of the set bits, highest first, for every `u64` -/
theorem get_peak_heights_exact (n : Nat) (hn : n < 2^64) : get_peak_heights n = bitsBelow 64 n :=
  get_peak_heights_spec n hn
example : bitsBelow 64 11 = [3, 1, 0] := by decide

/-- **S0 is a prefix of S1**: every row of the table of the explicit forest with `n < 2^63` leaves is a row of the
    table of `tree 0 0 63` — same node index, height, right-lineage length, children, leaf index, and same parent
    and sibling unless the node is a peak of the forest (recorded there with parent `0`) -/
theorem S0_is_prefix_of_S1 (n : Nat) (hn : n < 2^63) (k : Nat) (r : Row) (hr : (k, r) ∈ (forest n).rows) :
    ∃ r' ∈ (tree 0 0 63).rootRows,
      r.idx = r'.idx ∧ r.height = r'.height ∧ r.rll = r'.rll ∧ r.left = r'.left ∧ r.right = r'.right ∧
      r.leaf = r'.leaf ∧ (r.parent ≠ 0 → r.parent = r'.parent ∧ r.sibling = r'.sibling) :=
  forest_row_in_s1 n hn k r hr

/-- **node-level functions against the explicit forest**, for every leaf count below `2^63` and every node of the
    forest: `right_lineage_length_and_own_height`, `node_index_to_leaf_index`, `parent`, `left_sibling` /
    `right_sibling`, `left_child` / `right_child` return what the table of the forest says (and the translated ones
    do so without overflow) -/
theorem node_functions_agree_with_forest (n : Nat) (hn : n < 2^63) (k : Nat) (r : Row)
    (hr : (k, r) ∈ (forest n).rows) :
    right_lineage_length_and_own_height r.idx = some (r.rll, r.height) ∧
    node_index_to_leaf_index r.idx = some r.leaf ∧
    (r.parent ≠ 0 → parent r.idx = some r.parent ∧
      (r.rll ≠ 0 → left_sibling r.idx r.height = r.sibling ∧ left_sibling_ok r.idx r.height = true) ∧
      (r.rll = 0 → right_sibling r.idx r.height = r.sibling ∧ right_sibling_ok r.idx r.height = true)) ∧
    (0 < r.height → left_child r.idx r.height = r.left ∧ left_child_ok r.idx r.height = true ∧
      right_child r.idx = r.right ∧ right_child_ok r.idx = true) :=
  forest_node_functions n hn k r hr
example : (1, 8, 0, some 4) ∈ (forest 5).rows.map (fun kr => (kr.1, kr.2.idx, kr.2.height, kr.2.leaf)) := by decide

/-- **leaf-level functions against the explicit forest**: for every leaf of the forest, `leaf_index_to_node_index`
    returns its node index and `right_lineage_length_from_leaf_index` its right-lineage length -/
theorem leaf_functions_agree_with_forest (n : Nat) (hn : n < 2^63) (k : Nat) (r : Row)
    (hr : (k, r) ∈ (forest n).rows) (li : Nat) (hl : r.leaf = some li) :
    leaf_index_to_node_index li = r.idx ∧ right_lineage_length_from_leaf_index li = r.rll :=
  forest_leaf_functions n hn k r hr li hl

/-- **Merkle-tree index and peak index against the walk over the trees**: for `i < n < 2^64`,
    `leaf_index_to_mt_index_and_peak_index i n = (2^h + j, k)` where `(h, j, k) = leafPos 64 n i 0 0` is found by
    walking over the trees of the MMR (set bits of `n`, highest first): `h` the height of the tree that contains
    leaf `i`, `j` the position of the leaf inside that tree, `k` the number of trees before it -/
theorem mt_index_and_peak_index_agree_with_walk (i n : Nat) (hin : i < n) (hn : n < 2^64) :
    ∃ h j k, leafPos 64 n i 0 0 = some (h, j, k) ∧ leaf_index_to_mt_index_and_peak_index i n = (2^h + j, k) :=
  ⟨_, _, _, leafPos_closed 64 n i hin hn, (mt_spec i n hin hn).1⟩
example : leafPos 64 14 9 0 0 = some (2, 1, 1) := by decide

/-- **`right_lineage_length_from_node_index`** (the recursive variant) terminates and returns the right-lineage
    length of the node, for every node index `1 … 2^64 − 1` and on every node of every explicit forest -/
theorem right_lineage_length_from_node_index_exact :
    (∀ r ∈ (tree 0 0 63).rootRows, right_lineage_length_from_node_index r.idx = some r.rll) ∧
    (∀ n, n < 2^63 → ∀ k r, (k, r) ∈ (forest n).rows → right_lineage_length_from_node_index r.idx = some r.rll) :=
  ⟨fun r hr => rll_node_rows r hr, fun n hn k r hr => forest_rll_node n hn k r hr⟩

/-- **`node_indices_added_by_append`**: for every leaf count `c < 2^63`, the node indices that the explicit forest
    gains when one leaf is appended: the new leaf `2c − popcount c + 1` and its `trailing_ones c` new ancestors,
    consecutively numbered -/
theorem node_indices_added_by_append_exact (c : Nat) (hc : c < 2^63) :
    node_indices_added_by_append c
      = some ((List.range ((forest (c+1)).nodes - (forest c).nodes)).map fun k => (forest c).nodes + 1 + k) ∧
    node_indices_added_by_append c
      = some ((List.range (trailingOnes c + 1)).map fun k => 2 * c - popCount c + 1 + k) :=
  ⟨forest_added c hc, added_spec c hc⟩
example : node_indices_added_by_append 7 = some [12, 13, 14, 15] := by decide +kernel

/-- **`get_peak_heights_and_peak_node_indices`**: for every leaf count below `2^63` the two nested loops terminate
    and return the heights and the node indices of the trees of the explicit forest, oldest (highest) first.
    (For `2^63` the Rust loop spins forever — the model returns `none` there, see the `example`.) -/
theorem get_peak_heights_and_peak_node_indices_exact (n : Nat) (hn : n < 2^63) :
    get_peak_heights_and_peak_node_indices n
      = some ((forest n).peaks.map TF.Spec.Mmr.Tree.height, (forest n).peaks.map TF.Spec.Mmr.Tree.idx) :=
  forest_peaks n hn
example : get_peak_heights_and_peak_node_indices (2^63) = none := by decide +kernel
example : get_peak_heights_and_peak_node_indices 11 = some ([3, 1, 0], [15, 18, 19]) := by decide +kernel

/-! ## `get_authentication_path_node_indices(start_node_index, peak_node_index, node_count)`

What the Rust code does (shared_advanced.rs:116): starting at `start_node_index` it climbs to the parent — in the one
post-order numbered tree with node indices `1 … 2^64 − 1`; the MMR enters only through the bound `node_count` — while
the current node index is `≤ node_count` and `≠ peak_node_index`, pushing the sibling of the current node in each
round.  It answers `Some(path)` iff the node index at which the climb stops equals `peak_node_index`, else `None`.
On the left-hand sides below the outer `some` says "the loop terminates" (within the 66 rounds of the model). -/

/-- every node index `1 … 2^64 − 1` is `nodeIdx l j` for exactly one pair of coordinates `(l, j)` -/
theorem every_node_index_has_coordinates (x : Nat) (h1 : 1 ≤ x) (h2 : x < 2^64) :
    ∃ l j, x = nodeIdx l j ∧ ∀ l' j', x = nodeIdx l' j' → l' = l ∧ j' = j := by
  obtain ⟨l, j, h⟩ := exists_coords x h1 h2
  refine ⟨l, j, h, fun l' j' h' => ?_⟩
  have := TF.MmrE.nodeIdx_inj l j l' j' (by rw [← h]; exact h2) (by rw [← h, ← h'])
  exact ⟨this.1.symm, this.2.symm⟩
example : (11 : Nat) = nodeIdx 0 6 ∧ (14 : Nat) = nodeIdx 2 1 := by decide +kernel

/-- **complete description** for every start node `1 ≤ nodeIdx l j < 2^64`, every `peak_node_index` (node index or
    not) and every `node_count ≤ 2^64 − 2`: the loop terminates after at most `63 − l` rounds; with `d` the first
    level at which the ancestor `anc l j d` exceeds `node_count` or equals `peak`, the result is
    `Some(siblings of the first d nodes of the path, bottom-up)` if that ancestor is `peak`, and `None` otherwise.
    No `u64` operation wraps. -/
theorem get_authentication_path_node_indices_exact (l j peak nc : Nat) (hlt : nodeIdx l j < 2^64)
    (hnc : nc < 2^64 - 1) :
    ∃ d, l + d ≤ 63 ∧ (nc < anc l j d ∨ anc l j d = peak) ∧ (∀ t, t < d → anc l j t ≤ nc ∧ anc l j t ≠ peak) ∧
      get_authentication_path_node_indices (nodeIdx l j) peak nc
        = some (if anc l j d = peak then some (sibsUp l j d) else none) :=
  TF.MmrE.get_auth_path_spec l j peak nc hlt hnc
example : nodeIdx 0 8 = 16 ∧ (16 : Nat) < 2^64 ∧ (19 : Nat) < 2^64 - 1 ∧
    get_authentication_path_node_indices 16 31 19 = some none := by decide +kernel

/-- **start node and an ancestor**: for the node `(l, j)` and its ancestor-or-self `d` levels up, provided all nodes
    of the path strictly below that ancestor are `≤ node_count`, the result is exactly the list of the sibling node
    indices along the path from the start node up to, excluding, the ancestor, bottom-up.  The ancestor itself (and
    siblings on the path) may exceed `node_count` — the Rust code does not check that (second `example`: in the MMR
    with 11 leaves / 19 nodes, start 16, "peak" 22: `Some([17, 21])`). -/
theorem get_authentication_path_node_indices_of_ancestor (l j d nc : Nat) (hlt : anc l j d < 2^64)
    (hbelow : ∀ t, t < d → anc l j t ≤ nc) :
    get_authentication_path_node_indices (nodeIdx l j) (anc l j d) nc = some (some (sibsUp l j d)) :=
  TF.MmrE.get_auth_path_ancestor l j d nc hlt hbelow
example : nodeIdx 0 4 = 8 ∧ anc 0 4 3 = 15 ∧ sibsUp 0 4 3 = [9, 13, 7] ∧
    get_authentication_path_node_indices 8 15 19 = some (some [9, 13, 7]) := by decide +kernel
example : nodeIdx 0 8 = 16 ∧ anc 0 8 2 = 22 ∧ get_authentication_path_node_indices 16 22 19 = some (some [17, 21]) := by
  decide +kernel

/-- `Some(path)` **iff** `peak` is an ancestor-or-self of the start node and every node of the path strictly below it
    is `≤ node_count`; `path` is then the list of siblings -/
theorem get_authentication_path_node_indices_some_iff (l j peak nc : Nat) (hlt : nodeIdx l j < 2^64)
    (hnc : nc < 2^64 - 1) (path : List Nat) :
    get_authentication_path_node_indices (nodeIdx l j) peak nc = some (some path) ↔
      ∃ d, l + d ≤ 63 ∧ anc l j d = peak ∧ (∀ t, t < d → anc l j t ≤ nc) ∧ path = sibsUp l j d :=
  TF.MmrE.get_auth_path_some_iff l j peak nc hlt hnc path
example : get_authentication_path_node_indices 20 20 19 = some (some []) := by decide +kernel

/-- `None` **exactly** when the climb leaves `1 … node_count` without meeting `peak`: every level at which the
    ancestor equals `peak` (if any) lies above a node of the path that already exceeds `node_count`.  In particular
    `None` when `peak` is not an ancestor-or-self of the start node (e.g. the peak of another tree, or `0`), and for
    `start > node_count`, `start ≠ peak` -/
theorem get_authentication_path_node_indices_none_iff (l j peak nc : Nat) (hlt : nodeIdx l j < 2^64)
    (hnc : nc < 2^64 - 1) :
    get_authentication_path_node_indices (nodeIdx l j) peak nc = some none ↔
      ∀ d, l + d ≤ 63 → anc l j d = peak → ∃ t, t < d ∧ nc < anc l j t :=
  TF.MmrE.get_auth_path_none_iff l j peak nc hlt hnc
example : get_authentication_path_node_indices 8 18 19 = some none ∧
    get_authentication_path_node_indices 20 21 19 = some none := by decide +kernel

/-- the excluded start value `0` (not a node index), with the wrapping arithmetic of a release build:
    `Some []` for `peak = 0`, otherwise the result for start `1` with a `0` in front (`leftmost_ancestor(0)` wraps to
    `(0, 2^32 − 1)`, "sibling" `0`, "parent" `1`).  A debug build panics in `leftmost_ancestor`.
    (The other excluded input, `node_count = u64::MAX`, is the node count of no MMR; there the climb can pass the
    root `2^64 − 1` and wrap to `0` — third `example`: it never ends.) -/
theorem get_authentication_path_node_indices_start_zero (peak nc : Nat) (hnc : nc < 2^64 - 1) :
    get_authentication_path_node_indices 0 peak nc =
      if peak = 0 then some (some [])
      else (get_authentication_path_node_indices 1 peak nc).map (fun res => res.map (fun p => 0 :: p)) :=
  TF.MmrE.get_auth_path_start_zero peak nc hnc
example : get_authentication_path_node_indices 0 3 19 = some (some [0, 2]) := by decide +kernel
example : get_authentication_path_node_indices 0 0 19 = some (some []) := by decide +kernel
example : get_authentication_path_node_indices 1 2 18446744073709551615 = none := by decide +kernel

/-! ## the `mt` / `auth` / peak-index columns of the explicit forest, and the remaining functions against S0 -/

/-- **the table of the explicit forest in coordinates**: a row with peak index `k` of the forest with `n < 2^63` leaves
    belongs to a set bit `b` of `n` with `k` set bits above it; it is the node `(r.height, j)` below the aligned block
    `(b, 2·(n / 2^(b+1)))`; the `k`-th peak is its ancestor `b − r.height` levels up and lies inside the forest; the
    Merkle-tree index and the authentication path recorded in the table (computed by walking the tree) are
    `2^(b−height) + j mod 2^(b−height)` and `sibsUp`; a leaf row has `j` = its leaf index -/
theorem forest_table_in_coordinates (n : Nat) (hn : n < 2^63) (k : Nat) (r : Row) (hr : (k, r) ∈ (forest n).rows) :
    ∃ b j, n / 2^b % 2 = 1 ∧ k = popCount (n / 2^(b+1)) ∧ r.height ≤ b ∧
      j / 2^(b - r.height) = 2 * (n / 2^(b+1)) ∧ r.idx = nodeIdx r.height j ∧
      ((forest n).peaks.map TF.Spec.Mmr.Tree.idx)[k]? = some (anc r.height j (b - r.height)) ∧
      anc r.height j (b - r.height) ≤ (forest n).nodes ∧
      r.mt = 2^(b - r.height) + j % 2^(b - r.height) ∧
      r.auth = sibsUp r.height j (b - r.height) ∧
      (∀ li, r.leaf = some li → r.height = 0 ∧ li = j) :=
  forest_row_facts n hn k r hr
example : (2, 19, 0, some 10, 1, ([] : List Nat)) ∈ (forest 11).rows.map
    (fun kr => (kr.1, kr.2.idx, kr.2.height, kr.2.leaf, kr.2.mt, kr.2.auth)) := by decide

/-- **`get_authentication_path_node_indices` against the explicit forest**: for every leaf count below `2^63` and
    every node of the forest (in particular every leaf), called with the node index of the node, the node index of
    the peak of its tree and the node count of the forest, the function terminates and returns `Some` of the
    authentication path recorded in the table of S0: the sibling node indices from the node up to, excluding, the
    peak, lowest first -/
theorem get_authentication_path_node_indices_agrees_with_forest (n : Nat) (hn : n < 2^63) (k : Nat) (r : Row)
    (hr : (k, r) ∈ (forest n).rows) :
    ∃ pk, ((forest n).peaks.map TF.Spec.Mmr.Tree.idx)[k]? = some pk ∧
      get_authentication_path_node_indices r.idx pk (forest n).nodes = some (some r.auth) :=
  forest_auth_path n hn k r hr
example : (0, 8, [9, 13, 7]) ∈ (forest 11).rows.map (fun kr => (kr.1, kr.2.idx, kr.2.auth)) ∧
    (forest 11).peaks.map TF.Spec.Mmr.Tree.idx = [15, 18, 19] := by decide

/-- **… for a node and any ancestor in the explicit forest**: let `c 0, c 1, …, c d` be rows of the table of the
    forest with `n < 2^63` leaves such that the parent recorded for `c t` is `c (t+1)`.  Then from `c 0` to its
    ancestor `c d` the function returns `Some` of the siblings recorded for `c 0, …, c (d−1)`, in this order -/
theorem get_authentication_path_node_indices_agrees_with_forest_chain (n : Nat) (hn : n < 2^63) (d : Nat)
    (c : Nat → Row) (kk : Nat → Nat) (hrows : ∀ t, t ≤ d → (kk t, c t) ∈ (forest n).rows)
    (hpar : ∀ t, t < d → (c t).parent = (c (t+1)).idx) :
    get_authentication_path_node_indices (c 0).idx (c d).idx (forest n).nodes
      = some (some ((List.range d).map fun t => (c t).sibling)) :=
  forest_auth_path_chain n hn d c kk hrows hpar
example : [(8, 10, 9), (10, 14, 13)] ⊆ (forest 11).rows.map (fun kr => (kr.2.idx, kr.2.parent, kr.2.sibling)) ∧
    get_authentication_path_node_indices 8 14 19 = some (some [9, 13]) := by decide +kernel

/-- **… on the explicit forest, exactly, for an arbitrary second argument**: for a node `r` of the forest with
    `n < 2^63` leaves (coordinates `(r.height, j)`, its tree belonging to bit `b` of `n`), the node count of the forest
    and *any* `p`: the result is `Some(path)` iff `p` is the node itself, one of its ancestors inside its tree (up to
    the peak, `b − r.height` levels up), **or the would-be parent of the peak** (one level further: a node index
    that is not in the forest — the Rust code does not notice, first `example`); `None` in every other case, in
    particular for nodes of other trees and non-ancestors in the same tree (second `example`) -/
theorem get_authentication_path_node_indices_on_forest_exact (n : Nat) (hn : n < 2^63) (k : Nat) (r : Row)
    (hr : (k, r) ∈ (forest n).rows) :
    ∃ b j, r.idx = nodeIdx r.height j ∧ r.height ≤ b ∧
      ((forest n).peaks.map TF.Spec.Mmr.Tree.idx)[k]? = some (anc r.height j (b - r.height)) ∧
      (∀ p path, get_authentication_path_node_indices r.idx p (forest n).nodes = some (some path) ↔
         ∃ d, d ≤ b - r.height + 1 ∧ anc r.height j d = p ∧ path = sibsUp r.height j d) ∧
      (∀ p, get_authentication_path_node_indices r.idx p (forest n).nodes = some none ↔
         ∀ d, d ≤ b - r.height + 1 → anc r.height j d ≠ p) :=
  forest_auth_path_exact n hn k r hr
example : (1, 16) ∈ (forest 11).rows.map (fun kr => (kr.1, kr.2.idx)) ∧ (forest 11).nodes = 19 ∧
    get_authentication_path_node_indices 16 22 19 = some (some [17, 21]) := by decide +kernel
example : get_authentication_path_node_indices 16 17 19 = some none ∧
    get_authentication_path_node_indices 16 15 19 = some none := by decide +kernel

/-- **`leaf_index_to_mt_index_and_peak_index` against the table of the explicit forest**: for every leaf of the
    forest with `n < 2^63` leaves the function returns the Merkle-tree index recorded in the table (root `1`, children
    `2m`, `2m+1`, computed by walking the tree) and the position `k` of the leaf's tree in the peak list -/
theorem mt_index_and_peak_index_agree_with_forest (n : Nat) (hn : n < 2^63) (k : Nat) (r : Row)
    (hr : (k, r) ∈ (forest n).rows) (li : Nat) (hl : r.leaf = some li) :
    li < n ∧ leaf_index_to_mt_index_and_peak_index li n = (r.mt, k) ∧
    leaf_index_to_mt_index_and_peak_index_ok li n = true := by
  obtain ⟨h1, h2⟩ := forest_mt_peak n hn k r hr li hl
  have hn64 : n < 2^64 := by
    have : (2:Nat)^63 < 2^64 := by decide
    omega
  exact ⟨h1, h2, (mt_spec li n h1 hn64).2⟩
example : (1, some 9, 3) ∈ (forest 11).rows.map (fun kr => (kr.1, kr.2.leaf, kr.2.mt)) ∧
    leaf_index_to_mt_index_and_peak_index 9 11 = (3, 1) := by decide +kernel

/-! ## the whole property -/

/-- FULL STATEMENT of C16 in executable form: for every leaf count below `2^63`, *every* index function (translated
    and hand-modelled, see `TF.Mmr.forestAgrees` / `rowAgrees`) reproduces the table of the explicit forest on every
    node and every leaf — including `get_authentication_path_node_indices` and the Merkle-tree / peak index
    of every leaf as recorded in the table -/
def all_functions_agree_with_forest_statement : Prop := ∀ n, n < 2^63 → forestAgrees n = true

/-- **C16**: for every leaf count below `2^63`, every index function — `num_leafs_to_num_nodes`, `get_peak_heights`,
    `get_peak_heights_and_peak_node_indices`, `node_indices_added_by_append`, and on every node / leaf of the explicit
    forest S0 `right_lineage_length_and_own_height`, `right_lineage_length_from_node_index`, `parent`,
    `node_index_to_leaf_index`, `left_child` / `right_child`, `left_sibling` / `right_sibling`,
    `leaf_index_to_node_index`, `leaf_index_to_mt_index_and_peak_index`, `right_lineage_length_from_leaf_index`,
    `get_authentication_path_node_indices` — reproduces the table of S0 (append leaves, merge equal heights, number
    the nodes by a running counter) -/
theorem all_functions_agree_with_forest (n : Nat) (hn : n < 2^63) : forestAgrees n = true := forestAgrees_all n hn
example : (9223372036854775807 : Nat) < 2^63 := by decide

theorem all_functions_agree_with_forest_statement_holds : all_functions_agree_with_forest_statement :=
  fun n hn => all_functions_agree_with_forest n hn

/-- the same, spelled out as a proposition (no executable comparison involved) -/
theorem all_functions_agree_with_forest_explicit (n : Nat) (hn : n < 2^63) :
    ((forest n).nodes = num_leafs_to_num_nodes n ∧ (forest n).leafs = n ∧
      (forest n).peaks.map TF.Spec.Mmr.Tree.height = get_peak_heights n ∧
      get_peak_heights_and_peak_node_indices n
        = some ((forest n).peaks.map TF.Spec.Mmr.Tree.height, (forest n).peaks.map TF.Spec.Mmr.Tree.idx) ∧
      node_indices_added_by_append n
        = some ((List.range ((forest (n+1)).nodes - (forest n).nodes)).map fun k => (forest n).nodes + 1 + k)) ∧
    ∀ k r, (k, r) ∈ (forest n).rows →
      (right_lineage_length_and_own_height r.idx = some (r.rll, r.height) ∧
       right_lineage_length_from_node_index r.idx = some r.rll ∧
       node_index_to_leaf_index r.idx = some r.leaf ∧
       (r.parent ≠ 0 → parent r.idx = some r.parent ∧
         (r.rll ≠ 0 → left_sibling r.idx r.height = r.sibling ∧ left_sibling_ok r.idx r.height = true) ∧
         (r.rll = 0 → right_sibling r.idx r.height = r.sibling ∧ right_sibling_ok r.idx r.height = true)) ∧
       (0 < r.height → left_child r.idx r.height = r.left ∧ left_child_ok r.idx r.height = true ∧
         right_child r.idx = r.right ∧ right_child_ok r.idx = true) ∧
       (∃ pk, ((forest n).peaks.map TF.Spec.Mmr.Tree.idx)[k]? = some pk ∧
         get_authentication_path_node_indices r.idx pk (forest n).nodes = some (some r.auth))) ∧
      (∀ li, r.leaf = some li →
        leaf_index_to_node_index li = r.idx ∧ right_lineage_length_from_leaf_index li = r.rll ∧
        leaf_index_to_mt_index_and_peak_index li n = (r.mt, k) ∧
        leaf_index_to_mt_index_and_peak_index_ok li n = true) := by
  obtain ⟨s1, s2, s3⟩ := forest_shape_exact n hn
  refine ⟨⟨s1, s2, s3, forest_peaks n hn, forest_added n hn⟩, fun k r hr => ?_⟩
  obtain ⟨f1, f2, f3, f4⟩ := forest_node_functions n hn k r hr
  refine ⟨⟨f1, forest_rll_node n hn k r hr, f2, f3, f4, forest_auth_path n hn k r hr⟩, fun li hl => ?_⟩
  obtain ⟨g1, g2⟩ := forest_leaf_functions n hn k r hr li hl
  obtain ⟨_, g3, g4⟩ := mt_index_and_peak_index_agree_with_forest n hn k r hr li hl
  exact ⟨g1, g2, g3, g4⟩
example : (1000 : Nat) < 2^63 := by decide

/-! ## tests (kernel-evaluated, bounded): every function against the table of the explicit forest S0 -/

set_option maxRecDepth 100000 in
/-- TEST: for every leaf count `n ≤ 40`, every index function (translated and hand-modelled loops) reproduces the
    table of the explicit forest S0 on every node and every leaf -/
theorem all_functions_agree_with_forest_bounded_check : (List.range 41).all forestAgrees = true := by
  decide +kernel

set_option maxRecDepth 100000 in
/-- TEST: the same around powers of two up to `2^8` -/
theorem all_functions_agree_with_forest_pow2_bounded_check :
    [63, 64, 65, 127, 128, 129, 255, 256, 257].all forestAgrees = true := by
  decide +kernel

end TF.C16

/-! ## regenerated-from-source bridge

The loop functions of `shared_advanced.rs` are **also regenerated from the Rust text on every run**
(`TF/Gen/MmrLoops.lean`, namespace `TF.Gen.Loops`, written by `tools/rs2lean_loops.py`: every `while`/`loop` is a
fuel-indexed structural recursion, `none` = out of fuel; every `for` a recursion on the remaining iterations).
The theorems below (proofs in `TF/Proofs/GenBridgeMmr.lean`) say that the regenerated definitions are equal to the
hand-written models of `TF/Model/MmrIndex.lean` pointwise on the whole documented domain, so every theorem above (and
in C05/C11/C12) about a hand model is a theorem about the code as it is now; the `…_transfer` corollaries spell that
out and show in particular that the fuel picked by the translator (65 rounds, 66 for the authentication path) is
enough.  A change of the Rust text changes `TF.Gen.Loops.*`; these theorems are then re-checked or break. -/
namespace TF.C16
open TF TF.Gen TF.Mmr TF.Spec.Mmr TF.Model.Mmr
open TF.MmrE (nodeIdx anc sibsUp)

/-- regenerated `right_lineage_length_and_own_height` = hand model, every input (`none` included) -/
theorem gen_right_lineage_length_and_own_height_eq_model (n : Nat) :
    Loops.right_lineage_length_and_own_height n = right_lineage_length_and_own_height n :=
  TF.GenBridge.gen_rll_own_eq n
example : Loops.right_lineage_length_and_own_height 13 = some (2, 1) := by decide +kernel

/-- regenerated `right_lineage_length_from_node_index` (recursive in Rust) = hand model, every `u64` -/
theorem gen_right_lineage_length_from_node_index_eq_model (n : Nat) (h : n < 2^64) :
    Loops.right_lineage_length_from_node_index n = right_lineage_length_from_node_index n :=
  TF.GenBridge.gen_rll_node_eq n h
example : (12 : Nat) < 2^64 ∧ Loops.right_lineage_length_from_node_index 12 = some 3 := by decide +kernel

/-- regenerated `parent` = hand model, every input -/
theorem gen_parent_eq_model (n : Nat) : Loops.parent n = parent n := TF.GenBridge.gen_parent_eq n
example : Loops.parent 5 = some 6 ∧ Loops.parent 4 = some 6 := by decide +kernel

/-- regenerated `node_index_to_leaf_index` = hand model, every `u64` -/
theorem gen_node_index_to_leaf_index_eq_model (n : Nat) (h : n < 2^64) :
    Loops.node_index_to_leaf_index n = node_index_to_leaf_index n := TF.GenBridge.gen_n2l_eq n h
example : (8 : Nat) < 2^64 ∧ Loops.node_index_to_leaf_index 8 = some (some 4) ∧
    Loops.node_index_to_leaf_index 7 = some none := by decide +kernel

/-- regenerated `get_peak_heights` (a `for` loop) = hand model, every `u64` -/
theorem gen_get_peak_heights_eq_model (n : Nat) (h : n < 2^64) :
    Loops.get_peak_heights n = get_peak_heights n := TF.GenBridge.gen_peak_heights_eq n h
example : (11 : Nat) < 2^64 ∧ Loops.get_peak_heights 11 = [3, 1, 0] := by decide +kernel

/-- the regenerated `get_peak_heights_ok` (no shift amount out of range in the `for` loop: debug build = release build)
    holds for every `u64` -/
theorem gen_get_peak_heights_ok (n : Nat) (h : n < 2^64) : Loops.get_peak_heights_ok n = true :=
  TF.GenBridge.gen_peak_heights_ok n h
example : (18446744073709551615 : Nat) < 2^64 := by decide

/-- regenerated `get_peak_heights_and_peak_node_indices` (two nested `while` loops with `continue 'outer`) = hand
    model, every leaf count below `2^63` -/
theorem gen_get_peak_heights_and_peak_node_indices_eq_model (n : Nat) (h : n < 2^63) :
    Loops.get_peak_heights_and_peak_node_indices n = get_peak_heights_and_peak_node_indices n :=
  TF.GenBridge.gen_peaks_eq n h
example : (11 : Nat) < 2^63 ∧ Loops.get_peak_heights_and_peak_node_indices 11 = some ([3, 1, 0], [15, 18, 19]) := by
  decide +kernel

/-- regenerated `node_indices_added_by_append` = hand model, every input -/
theorem gen_node_indices_added_by_append_eq_model (c : Nat) :
    Loops.node_indices_added_by_append c = node_indices_added_by_append c := TF.GenBridge.gen_added_eq c
example : Loops.node_indices_added_by_append 7 = some [12, 13, 14, 15] := by decide +kernel

/-- regenerated `get_authentication_path_node_indices` = hand model, every input (`none` included) -/
theorem gen_get_authentication_path_node_indices_eq_model (s p c : Nat) :
    Loops.get_authentication_path_node_indices s p c = get_authentication_path_node_indices s p c :=
  TF.GenBridge.gen_auth_path_eq s p c
example : Loops.get_authentication_path_node_indices 1 7 7 = some (some [2, 6]) ∧
    Loops.get_authentication_path_node_indices 1 6 7 = some none := by decide +kernel

/-- **transfer**: the theorems about the node-level hand models hold verbatim for the regenerated code — for every
    node of `tree 0 0 63` (node indices `1 … 2^64 − 1`) the regenerated loops terminate within their fuel and return
    the right-lineage length, height, parent and leaf index recorded in the table -/
theorem gen_node_functions_transfer (r : Row) (hr : r ∈ (tree 0 0 63).rootRows) :
    Loops.right_lineage_length_and_own_height r.idx = some (r.rll, r.height) ∧
    Loops.right_lineage_length_from_node_index r.idx = some r.rll ∧
    Loops.node_index_to_leaf_index r.idx = some r.leaf ∧
    (r.parent ≠ 0 → Loops.parent r.idx = some r.parent) := by
  have hrange := rows_idx_range _ _ _ _ _ _ _ _ _ _ hr
  have h64 : (2:Nat)^64 = 18446744073709551616 := by decide
  have h2 : r.idx < 2^64 := by omega
  rw [gen_right_lineage_length_and_own_height_eq_model, gen_right_lineage_length_from_node_index_eq_model _ h2,
    gen_node_index_to_leaf_index_eq_model _ h2, gen_parent_eq_model]
  exact ⟨right_lineage_length_and_own_height_exact r hr, right_lineage_length_from_node_index_exact.1 r hr,
    node_index_to_leaf_index_exact r hr, parent_exact r hr⟩
example : ∃ r ∈ (tree 0 0 63).rootRows, r.idx = 18446744073709551614 :=
  every_node_index_has_a_row _ (by decide) (by decide)

/-- **transfer**: for every leaf count below `2^63` the regenerated forest-level functions return the peaks of the
    explicit forest S0 and the node indices it gains by one append -/
theorem gen_forest_functions_transfer (n : Nat) (hn : n < 2^63) :
    Loops.get_peak_heights n = (forest n).peaks.map TF.Spec.Mmr.Tree.height ∧
    Loops.get_peak_heights_and_peak_node_indices n
      = some ((forest n).peaks.map TF.Spec.Mmr.Tree.height, (forest n).peaks.map TF.Spec.Mmr.Tree.idx) ∧
    Loops.node_indices_added_by_append n
      = some ((List.range (trailingOnes n + 1)).map fun k => 2 * n - popCount n + 1 + k) := by
  rw [gen_get_peak_heights_eq_model n (by omega), gen_get_peak_heights_and_peak_node_indices_eq_model n hn,
    gen_node_indices_added_by_append_eq_model]
  exact ⟨(forest_shape_exact n hn).2.2.symm, get_peak_heights_and_peak_node_indices_exact n hn,
    (node_indices_added_by_append_exact n hn).2⟩
example : (9223372036854775807 : Nat) < 2^63 := by decide

/-- **transfer** for the authentication-path walk: the regenerated `get_authentication_path_node_indices` terminates
    within its fuel and returns the sibling node indices bottom-up, for every start node `(l, j)` and ancestor `d` levels
    up whose path nodes below it are `≤ node_count` (`get_authentication_path_node_indices_of_ancestor`, which also
    establishes that the 66 rounds of fuel suffice: the result is never the out-of-fuel `none`) -/
theorem gen_auth_path_transfer (l j d nc : Nat) (hlt : anc l j d < 2^64) (hbelow : ∀ t, t < d → anc l j t ≤ nc) :
    Loops.get_authentication_path_node_indices (nodeIdx l j) (anc l j d) nc = some (some (sibsUp l j d)) := by
  rw [gen_get_authentication_path_node_indices_eq_model]
  exact get_authentication_path_node_indices_of_ancestor l j d nc hlt hbelow
example : Loops.get_authentication_path_node_indices 8 15 19 = some (some [9, 13, 7]) := by decide +kernel

end TF.C16
