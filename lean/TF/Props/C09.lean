import TF.Proofs.PolyDiv
import TF.Proofs.PolyDivNtt
import TF.Proofs.PolyApiD
import TF.Proofs.GenBridgePoly
/-!
# C09 — polynomial division, reduction, gcd and power-series inversion are exact

Property theorems only (helper lemmas: `TF/Proofs/PolyDiv.lean`, shared core `TF/Proofs/Poly.lean`).

Notation.  `K` is an arbitrary field, `FK = FieldOps.ofField K root` its operation record; a polynomial is its
coefficient **storage** `List K` (lowest degree first, stored leading zeros allowed) and `denote : List K → K[X]` is the
polynomial it stands for.  The model functions (`TF/Model/PolyDiv.lean`, on the shared core `TF/Model/Poly.lean`) follow
the control flow of `twenty-first/src/math/polynomial.rs`; `none` is a Rust panic.  `/` and `%` on `K[X]` are Mathlib's
Euclidean quotient and remainder.  Every dispatch threshold (`FAST_REDUCE_MAKES_SENSE_MULTIPLE`,
`FAST_REDUCE_CUTOFF_THRESHOLD`, `FORMAL_POWER_SERIES_INVERSE_CUTOFF`, `CLEAN_DIVIDE_CUTOFF_THRESHOLD`, the literal 4 of
`fast_reduce`) is a universally quantified parameter, so the theorems cover the production values (512 for clean
division), the `cfg(test)` value 0 and every other value.

The NTT-based strategies take the transform pair as a parameter `N : NttOps`; their theorems assume `NttDft N ω`
(`TF/Proofs/PolyDiv.lean`): `ntt l` is the list of evaluations of `l` at the powers of a primitive `|l|`-th root of
unity `ω |l|`, `intt` is its inverse, the roots for different lengths are compatible — the statement of property C06.
`clean_divide` is stated for an arbitrary field extension `L/K` (`lift = algebraMap`), every non-zero offset.
The model is tied to the Rust code by the correspondence family `polyd` (both fields, production build).
-/
open Polynomial

namespace TF.C09
open TF TF.Model.Poly TF.Model.PolyD TF.Proofs.PolyD

variable {K : Type} [Field K] (root : Nat → Option K)
local notation "FK" => FieldOps.ofField K root

/-- **certificate** (DESIGN §3.3): `a = q·d + r ∧ deg r < deg d` determines `q` and `r` — they are the Euclidean
    quotient and remainder. The harness and the driver check this certificate for every instance they run. -/
theorem divmod_unique {a d q r : K[X]} (h : a = q * d + r) (hr : r.degree < d.degree) :
    q = a / d ∧ r = a % d :=
  div_mod_of_certificate h hr
example : (X ^ 2 + 1 : ℚ[X]) = (X - 1) * (X + 1) + 2 := by ring

/-- `naive_divide` (= `divide`), any dividend, any non-zero divisor, any storage (stored leading zeros on either
    side, dividend degree below divisor degree, zero dividend): it does not panic and returns the quotient and the
    remainder -/
theorem naive_divide_spec (a d : List K) (hd : denote d ≠ 0) :
    ∃ q r, naiveDivide FK a d = some (q, r) ∧ denote a = denote q * denote d + denote r ∧
      (denote r).degree < (denote d).degree ∧ denote q = denote a / denote d ∧ denote r = denote a % denote d := by
  obtain ⟨q, r, h1, h2, h3⟩ := naiveDivide_spec root a d hd
  exact ⟨q, r, h1, h2, h3, (div_mod_of_certificate h2 h3).1, (div_mod_of_certificate h2 h3).2⟩
example : denote ([1, 0, 2, 0] : List ℚ) ≠ 0 := by
  intro h; have := congrArg (fun p => p.coeff 0) h; simp at this

/-- `naive_divide` panics exactly for a zero divisor (`[]`, `[0]`, `[0,0]`, …) -/
theorem naive_divide_panics_iff (a d : List K) : naiveDivide FK a d = none ↔ denote d = 0 := by
  constructor
  · intro h
    by_contra hd
    obtain ⟨q, r, h1, _⟩ := naiveDivide_spec root a d hd
    rw [h] at h1
    exact absurd h1 (by simp)
  · exact naiveDivide_zero root a d
example : denote ([0, 0] : List ℚ) = 0 := by simp

/-- `divide` is `naive_divide` ("for no practical parameter set is the NTT-based algorithm faster") -/
theorem divide_spec (a d : List K) (hd : denote d ≠ 0) :
    ∃ q r, divide FK a d = some (q, r) ∧ denote q = denote a / denote d ∧ denote r = denote a % denote d := by
  obtain ⟨q, r, h1, _, _, h4, h5⟩ := naive_divide_spec root a d hd
  exact ⟨q, r, h1, h4, h5⟩
example : denote ([0, 0, 7] : List ℚ) ≠ 0 := by
  intro h; have := congrArg (fun p => p.coeff 2) h; simp at this

/-- the `Div` operator -/
theorem div_spec (a d : List K) (hd : denote d ≠ 0) :
    ∃ q, div FK a d = some q ∧ denote q = denote a / denote d :=
  TF.Proofs.PolyD.div_spec root a d hd
example : denote ([3, 1] : List ℚ) ≠ 0 := by
  intro h; have := congrArg (fun p => p.coeff 1) h; simp at this

/-- the `Rem` operator (and `reduce_long_division`) -/
theorem rem_spec (a d : List K) (hd : denote d ≠ 0) :
    ∃ r, rem FK a d = some r ∧ denote r = denote a % denote d :=
  TF.Proofs.PolyD.rem_spec root a d hd
example : denote ([3, 1] : List ℚ) ≠ 0 := by
  intro h; have := congrArg (fun p => p.coeff 1) h; simp at this

/-- `reduce`: the four-way dispatch returns the remainder in every arm and for every value of the thresholds,
    provided the fast arm does (see `fast_reduce_spec…`) -/
theorem reduce_spec (N : NttOps K) (makesSense cutoff stage2 : Nat) (a m : List K) (hm : denote m ≠ 0)
    (hfast : Model.Poly.degree FK a > (makesSense : Int) * Model.Poly.degree FK m →
      ∃ r, fastReduce FK N cutoff stage2 a m = some r ∧ denote r = denote a % denote m) :
    ∃ r, reduce FK N makesSense cutoff stage2 a m = some r ∧ denote r = denote a % denote m :=
  TF.Proofs.PolyD.reduce_spec root N makesSense cutoff stage2 a m hm hfast
example : denote ([3, 1] : List ℚ) ≠ 0 := by
  intro h; have := congrArg (fun p => p.coeff 1) h; simp at this

/-- `reduce` panics for the zero modulus -/
theorem reduce_zero_modulus (N : NttOps K) (makesSense cutoff stage2 : Nat) (a m : List K) (hm : denote m = 0) :
    reduce FK N makesSense cutoff stage2 a m = none :=
  reduce_zero root N makesSense cutoff stage2 a m hm
example : denote ([] : List ℚ) = 0 := rfl

/-- `xgcd` on all inputs (zero, equal, any storage): it never panics; the returned gcd is zero or monic, divides
    both inputs, satisfies Bézout's identity — hence every common divisor divides it -/
theorem xgcd_spec (x y : List K) :
    ∃ g a b, xgcd FK x y = some (g, a, b) ∧
      (denote g = 0 ∨ (denote g).Monic) ∧
      denote g ∣ denote x ∧ denote g ∣ denote y ∧
      denote g = denote a * denote x + denote b * denote y ∧
      (∀ h : K[X], h ∣ denote x → h ∣ denote y → h ∣ denote g) := by
  obtain ⟨g, a, b, h1, h2, h3, h4, h5⟩ := TF.Proofs.PolyD.xgcd_spec root x y
  refine ⟨g, a, b, h1, h2, h3, h4, h5, ?_⟩
  intro h hx hy
  rw [h5]
  exact dvd_add (Dvd.dvd.mul_left hx _) (Dvd.dvd.mul_left hy _)
example : ∃ x y : List ℚ, denote x = 0 ∧ denote y = 0 := ⟨[], [0], rfl, by simp⟩

/-- the gcd returned by `xgcd` is zero exactly when both inputs are zero -/
theorem xgcd_zero_iff (x y : List K) :
    ∀ g a b, xgcd FK x y = some (g, a, b) → (denote g = 0 ↔ denote x = 0 ∧ denote y = 0) := by
  intro g a b hxy
  obtain ⟨g', a', b', h1, _, h3, h4, h5, _⟩ := xgcd_spec root x y
  rw [hxy] at h1
  obtain ⟨rfl, rfl, rfl⟩ : g = g' ∧ a = a' ∧ b = b' := by simpa using h1
  constructor
  · intro h0
    rw [h0] at h3 h4
    exact ⟨zero_dvd_iff.1 h3, zero_dvd_iff.1 h4⟩
  · rintro ⟨hx, hy⟩
    rw [h5, hx, hy]; simp
example : denote ([] : List ℚ) = 0 := rfl

/-- `formal_power_series_inverse_minimal(n)` for every precision `n` and every storage of `f` with non-zero
    constant term: `n+1` coefficients `g` with `f·g ≡ 1 (mod X^(n+1))` -/
theorem fps_inverse_minimal_spec (f : List K) (n : Nat) (h0 : (denote f).coeff 0 ≠ 0) :
    ∃ g, fpsInverseMinimal FK f n = some g ∧ g.length = n + 1 ∧
      (X ^ (n + 1) : K[X]) ∣ denote f * denote g - 1 :=
  fpsInverseMinimal_spec root f n h0
example : (denote ([2, 0, 1] : List ℚ)).coeff 0 ≠ 0 := by simp

/-- … and it panics exactly when the constant term is zero (or there is no stored coefficient) -/
theorem fps_inverse_minimal_panics_iff (f : List K) (n : Nat) :
    fpsInverseMinimal FK f n = none ↔ (denote f).coeff 0 = 0 := by
  constructor
  · intro h
    by_contra h0
    obtain ⟨g, h1, _⟩ := fpsInverseMinimal_spec root f n h0
    rw [h] at h1
    exact absurd h1 (by simp)
  · exact fpsInverseMinimal_none root f n
example : (denote ([0, 1] : List ℚ)).coeff 0 = 0 := by simp

/-- `mod_x_to_the_n(n)` is the remainder modulo `X^n` for every storage and every `n` (also `n = 0`, `n > len`) -/
theorem mod_x_to_the_n_spec (p : List K) (n : Nat) : denote (modXToTheN p n) = denote p % X ^ n :=
  modXToTheN_spec p n
example : modXToTheN ([0, 1, 2, 3, 4] : List ℚ) 2 = [0, 1] := rfl

/-- `truncate(k)` (after the repair F6: on the *normalised* coefficients) is the quotient by `X^(deg+1-(k+1))`:
    the `k+1` highest coefficients; the whole polynomial when `k ≥ deg` -/
theorem truncate_spec (p : List K) (k : Nat) :
    denote (truncate FK p k) = denote p / X ^ (degSucc FK p - (k + 1)) :=
  TF.Proofs.PolyD.truncate_spec root p k
example : (3 : Nat) - (5 + 1) = 0 := rfl

/-- `truncate(k)` **as compiled** (after the repair F13: `take(k.saturating_add(1))` in `usize`): for EVERY `k`,
    `usize::MAX` included, and every polynomial with fewer than `2^64` coefficients (every one that fits in memory) it
    is the function of `truncate_spec` — the `k+1` highest coefficients, for every storage -/
theorem truncate_usize_spec (p : List K) (k : Nat) (hlen : (revNorm FK p).length < 2 ^ 64) :
    denote (truncateUsize FK p k) = denote p / X ^ (degSucc FK p - (k + 1)) := by
  rw [TF.Model.PolyD.truncateUsize_eq root p k hlen]; exact TF.Proofs.PolyD.truncate_spec root p k
example : truncateUsize (FieldOps.ofField ℚ) [1, 2, 3] (2 ^ 64 - 1) = [1, 2, 3] := by
  unfold truncateUsize revNorm TF.Model.PolyD.USIZE_MOD; simp [FieldOps.ofField]

/-- **defect F13, for the record** (repaired by a `fix:` commit): `truncate` as it was compiled before the repair
    (`take(k + 1)`, `k + 1` wrapping in `usize`) returned the zero polynomial at `k = usize::MAX` for every input (the
    dev/test profile panicked instead), while the documented result — the right-hand side of `truncate_spec` — is the
    polynomial itself; so the property failed there for every non-zero polynomial.  Witness on the implementation
    before the repair: `[1,2,3].truncate(usize::MAX) = 0`. -/
theorem truncate_usize_max_violated_before_F13 (p : List K) (hlen : degSucc FK p ≤ 2 ^ 64) (hp : denote p ≠ 0) :
    truncateBeforeF13 FK p (2 ^ 64 - 1) = [] ∧
    denote p / X ^ (degSucc FK p - (2 ^ 64 - 1 + 1)) = denote p ∧
    denote (truncateBeforeF13 FK p (2 ^ 64 - 1)) ≠ denote p / X ^ (degSucc FK p - (2 ^ 64 - 1 + 1)) := by
  have h0 := TF.Model.PolyD.truncateBeforeF13_max root p
  have he : degSucc FK p - (2 ^ 64 - 1 + 1) = 0 := by omega
  have hq : denote p / X ^ (degSucc FK p - (2 ^ 64 - 1 + 1)) = denote p := by
    rw [he, pow_zero]; exact EuclideanDomain.div_one _
  refine ⟨h0, hq, ?_⟩
  rw [h0, hq]
  exact fun h => hp h.symm
example : denote ([1, 2, 3] : List ℚ) ≠ 0 := by
  intro h; have := congrArg (fun p => p.coeff 0) h; simp at this

/-- `structured_multiple_of_degree(n)` for every non-zero `p` (any storage, any factor `X^k`) and every `n ≥ deg p`:
    it does not panic and returns a multiple of `p` of degree **exactly** `n`; for `deg p ≥ 1` the multiple is monic,
    of the form `X^n + (degree < deg p)`, i.e. it is `X^n - (X^n mod p)`.  (For a constant `p = c` the Rust code
    returns `c⁻¹·X^n`, which is a multiple of degree `n` but monic only for `c = 1`.) -/
theorem structured_multiple_of_degree_spec (p : List K) (n : Nat) (hp : denote p ≠ 0)
    (hn : (denote p).natDegree ≤ n) :
    ∃ s, structuredMultipleOfDegree FK p n = some s ∧ denote p ∣ denote s ∧ (denote s).natDegree = n ∧
      (1 ≤ (denote p).natDegree → (denote s).Monic ∧ denote s = X ^ n - X ^ n % denote p) := by
  obtain ⟨s, h1, _, h2, h3, h4⟩ := structuredMultipleOfDegree_spec root p n hp hn
  refine ⟨s, h1, h2, h3, fun hd => ⟨(h4 hd).1, ?_⟩⟩
  obtain ⟨q, hq⟩ := h2
  have hcert : (X ^ n : K[X]) = q * denote p + (X ^ n - denote s) := by rw [hq]; ring
  have hdeg : (X ^ n - denote s : K[X]).degree < (denote p).degree := by
    rw [← neg_sub, degree_neg]; exact (h4 hd).2
  rw [← (div_mod_of_certificate hcert hdeg).2]; ring
example : (denote ([1, 2, 3] : List ℚ)).natDegree ≤ 7 := by
  refine le_trans (natDegree_denote_le _ 2 (by simp)) (by norm_num)

/-- … and it panics for the zero polynomial and for `n < deg p` -/
theorem structured_multiple_of_degree_panics (p : List K) (n : Nat)
    (h : denote p = 0 ∨ n < (denote p).natDegree) : structuredMultipleOfDegree FK p n = none :=
  structuredMultipleOfDegree_none root p n h
example : denote ([0] : List ℚ) = 0 ∨ 3 < (denote ([0] : List ℚ)).natDegree := Or.inl (by simp)

/-- `reduce_by_structured_modulus` (stage 2 of `fast_reduce`) for a monic multiple `X^md + (degree < md-1)`:
    it does not panic and the result is congruent to the input -/
theorem reduce_by_structured_modulus_spec (a multiple : List K) (md : Nat) (hmd : 1 ≤ md)
    (hmonic : (denote multiple).Monic) (hnat : (denote multiple).natDegree = md)
    (htail : (denote multiple - X ^ md).degree < ((md - 1 : ℕ) : WithBot ℕ)) :
    ∃ r, reduceByStructuredModulus FK a multiple = some r ∧ denote multiple ∣ denote a - denote r :=
  reduceByStructuredModulus_spec root a multiple md hmd hmonic hnat htail
example : (1 : Nat) ≤ 7 := by decide

/-- `shift_factor_ntt_with_tail_length` for a modulus of degree ≥ 1 and every cut-off: the transform of the low `n`
    coefficients of a multiple `X^n + low` of the modulus (`n` a power of two) and a tail with `deg low < tail < n` -/
theorem shift_factor_ntt_with_tail_length_spec (N : NttOps K) (cutoff : Nat) (m : List K) (hm : denote m ≠ 0)
    (hd : 1 ≤ (denote m).natDegree) :
    ∃ low tail, shiftFactorNtt FK N cutoff m = some (N.ntt low, tail) ∧ isPowerOfTwo low.length = true ∧
      tail < low.length ∧ (denote low).degree < tail ∧ denote m ∣ X ^ low.length + denote low :=
  shiftFactorNtt_spec root N cutoff m hm hd
example : (1 : Nat) ≤ (X ^ 2 + 1 : ℚ[X]).natDegree := by
  rw [show (X ^ 2 + 1 : ℚ[X]) = X ^ 2 + C 1 by simp, natDegree_X_pow_add_C]; norm_num

/-- `reduce_by_ntt_friendly_modulus` (stage 1 of `fast_reduce`): for `low` of power-of-two length `n` with
    `deg low < tail < n` the result is congruent to the input modulo `X^n + low`; `NttDft N ω` — `ntt` is the DFT at
    the primitive roots `ω n`, `intt` its inverse — is what property C06 establishes about the transform pair -/
theorem reduce_by_ntt_friendly_modulus_spec (N : NttOps K) (ω : Nat → K) (hN : NttDft N ω) (a low : List K) (tail : Nat)
    (hpow : isPowerOfTwo low.length = true) (htail : tail < low.length) (hS : (denote low).degree < tail) :
    ∃ r, reduceByNttFriendlyModulus FK N a (N.ntt low) tail = some r ∧
      (X ^ low.length + denote low : K[X]) ∣ denote a - denote r :=
  reduceByNttFriendlyModulus_spec root N (nttConv_of_nttDft hN) a low tail hpow htail hS
example : isPowerOfTwo ([1, 2, 3, 4] : List ℚ).length = true := by decide

/-- **`fast_reduce`** — all three stages (NTT-friendly chunk-wise reduction, structured-multiple reduction, long
    division), every dividend, every non-zero modulus, every storage, every value of `FAST_REDUCE_CUTOFF_THRESHOLD` and
    of the stage-2 factor: no panic, and the result is the remainder -/
theorem fast_reduce_spec (N : NttOps K) (ω : Nat → K) (hN : NttDft N ω) (cutoff stage2 : Nat) (a m : List K)
    (hm : denote m ≠ 0) :
    ∃ r, fastReduce FK N cutoff stage2 a m = some r ∧ denote r = denote a % denote m :=
  fastReduce_spec root N (nttConv_of_nttDft hN) cutoff stage2 a m hm
example : denote ([3, 0, 1] : List ℚ) ≠ 0 := by
  intro h; have := congrArg (fun p => p.coeff 0) h; simp at this

/-- `fast_reduce` panics for the zero modulus -/
theorem fast_reduce_zero_modulus (N : NttOps K) (cutoff stage2 : Nat) (a m : List K) (hm : denote m = 0) :
    fastReduce FK N cutoff stage2 a m = none := by
  unfold fastReduce
  have hdeg := degree_spec root m
  rw [if_pos hm] at hdeg
  have hds := degSucc_spec root m
  rw [if_pos hm] at hds
  rw [hdeg, if_neg (by decide)]
  have hge : ¬ Model.Poly.degree FK a < -1 := by
    rw [degree_eq_degSucc]; omega
  rw [if_neg hge]
  unfold shiftFactorNtt
  rw [hds]
example : denote ([0] : List ℚ) = 0 := by simp

/-- **every reduction strategy returns the same remainder**: `reduce` for every dividend, every non-zero modulus,
    every storage and every value of the three thresholds -/
theorem reduce_spec_all_arms (N : NttOps K) (ω : Nat → K) (hN : NttDft N ω) (makesSense cutoff stage2 : Nat)
    (a m : List K)
    (hm : denote m ≠ 0) :
    ∃ r, reduce FK N makesSense cutoff stage2 a m = some r ∧ denote r = denote a % denote m :=
  reduce_spec root N makesSense cutoff stage2 a m hm (fun _ => fastReduce_spec root N (nttConv_of_nttDft hN) cutoff stage2 a m hm)
example : denote ([3, 0, 1] : List ℚ) ≠ 0 := by
  intro h; have := congrArg (fun p => p.coeff 0) h; simp at this

/-- **`formal_power_series_inverse_newton`**: for every transform pair that is the DFT (`NttDft`, property C06), every
    value of `FORMAL_POWER_SERIES_INVERSE_CUTOFF`, every storage of `f` with non-zero constant term and **every
    precision `n`** (0, 1, non-powers of two, …): no panic and `f·g ≡ 1 (mod X^n)` — in all arms: constant `f`,
    polynomial-arithmetic rounds only, and the rounds computed in the NTT domain with domain growth -/
theorem fps_inverse_newton_spec (N : NttOps K) (ω : Nat → K) (hN : NttDft N ω) (cutoff : Nat) (f : List K)
    (precision : Nat) (h0 : (denote f).coeff 0 ≠ 0) :
    ∃ g, fpsInverseNewton FK N cutoff f precision = some g ∧
      (X ^ precision : K[X]) ∣ denote f * denote g - 1 :=
  fpsInverseNewton_spec root hN cutoff f precision h0
example : (denote ([1, 1, 0, 5] : List ℚ)).coeff 0 ≠ 0 := by simp

/-- `formal_power_series_inverse_newton` panics for the zero polynomial and for a zero constant term -/
theorem fps_inverse_newton_panics (N : NttOps K) (cutoff : Nat) (f : List K) (precision : Nat)
    (h : denote f = 0 ∨ (1 ≤ (denote f).natDegree ∧ (denote f).coeff 0 = 0)) :
    fpsInverseNewton FK N cutoff f precision = none :=
  fpsInverseNewton_none root N cutoff f precision h
example : denote ([0, 0] : List ℚ) = 0 := by simp

/-- **`clean_divide`** (with the repairs F9 and F11): for every field extension `L/K` (twenty-first: the cubic extension
    over the base field), every transform pair over `L` that is the DFT (`NttDft`, property C06), every non-zero
    offset, **every cut-off value and every divisor degree**, every non-zero divisor — with or without roots on the
    internal evaluation coset `x·⟨ω⟩` (then the model, like the repaired code, falls back to long division), with or
    without factors `X^k`, any storage — and every dividend it divides, including the zero dividend in any storage:
    no panic, and the result is the exact quotient -/
theorem clean_divide_spec {L : Type} [Field L] [Algebra K L] (rootL : Nat → Option L) (E : ExtOps K L)
    (NX : NttOps L) (ω : Nat → L) (hN : NttDft NX ω)
    (hlift : ∀ k, E.lift k = algebraMap K L k) (hunlift : ∀ k, E.unlift (algebraMap K L k) = some k)
    (hoff : E.offset ≠ 0) (cutoff : Nat) (a d : List K) (hd : denote d ≠ 0) (hdvd : denote d ∣ denote a) :
    ∃ q, cleanDivide FK (FieldOps.ofField L rootL) E NX cutoff a d = some q ∧ denote q * denote d = denote a ∧
      denote q = denote a / denote d := by
  obtain ⟨q, h1, h2⟩ := cleanDivide_spec root rootL E hN hlift hunlift hoff cutoff a d hd hdvd
  exact ⟨q, h1, h2, EuclideanDomain.eq_div_of_mul_eq_left hd h2⟩
example : denote ([1, 1] : List ℚ) ∣ denote ([0, 1, 1] : List ℚ) :=
  ⟨X, by simp; ring⟩

/-- the Montgomery batch inversion inside `clean_divide`: element-wise inverses when no input is zero, and a panic
    exactly when some input is zero — which is why a divisor with a root on the evaluation coset needs the
    long-division fallback (defect F9 before the repair) -/
theorem batch_inversion_spec {L : Type} [Field L] (rootL : Nat → Option L) (l : List L) :
    (batchInversion (FieldOps.ofField L rootL) l = none ↔ ∃ y ∈ l, y = 0) ∧
    ((∀ y ∈ l, y ≠ 0) → batchInversion (FieldOps.ofField L rootL) l = some (l.map (fun y => y⁻¹))) := by
  refine ⟨?_, batchInversion_spec rootL l⟩
  constructor
  · intro h
    by_contra hne
    have hall : ∀ y ∈ l, y ≠ 0 := fun y hy h0 => hne ⟨y, hy, h0⟩
    rw [batchInversion_spec rootL l hall] at h
    exact absurd h (by simp)
  · rintro ⟨y, hy, h0⟩
    unfold batchInversion
    have : l.any (FieldOps.ofField L rootL).isZero = true := by
      rw [List.any_eq_true]
      exact ⟨y, hy, (FieldOps.ofField_isZero rootL y).2 h0⟩
    rw [this]; rfl
example : ∀ y ∈ ([2, 3] : List ℚ), y ≠ 0 := by simp

/-- below the cut-off (every cut-off value; in the production build every divisor of degree < 512) `clean_divide` is
    long division: it returns the Euclidean quotient also when the division is not clean -/
theorem clean_divide_below_cutoff {χ : Type} (FX : FieldOps χ) (E : ExtOps K χ) (NX : NttOps χ) (cutoff : Nat)
    (a d : List K) (hd : denote d ≠ 0) (hlt : (denote d).natDegree < cutoff) :
    ∃ q, cleanDivide FK FX E NX cutoff a d = some q ∧ denote q = denote a / denote d :=
  let ⟨q, h1, h2, _⟩ := cleanDivide_below_cutoff root FX E NX cutoff a d hd hlt
  ⟨q, h1, h2⟩
example : (denote ([1, 1] : List ℚ)).natDegree < 512 :=
  lt_of_le_of_lt (natDegree_denote_le _ 1 (by simp)) (by norm_num)

/-- `clean_divide` panics for the zero divisor (every cut-off ≥ 0 … the degree `-1` is below every cut-off) -/
theorem clean_divide_zero_divisor {χ : Type} (FX : FieldOps χ) (E : ExtOps K χ) (NX : NttOps χ) (cutoff : Nat)
    (a d : List K) (hd : denote d = 0) : cleanDivide FK FX E NX cutoff a d = none := by
  unfold cleanDivide
  have hdeg := degree_spec root d
  rw [if_pos hd] at hdeg
  rw [if_pos (by rw [hdeg]; omega)]
  unfold Model.PolyD.div
  rw [naiveDivide_zero root a d hd]
  rfl
example : denote ([0, 0, 0] : List ℚ) = 0 := by simp

end TF.C09

/-! ## regenerated-from-source bridge (tools/rs2lean_poly.py, `TF/Gen/PolyLoops.lean`) — BT6

`reverse`, `truncate`, `mod_x_to_the_n`, the wrappers `divide`, `Div::div`, `Rem::rem`, `reduce_long_division` and the dispatcher
`reduce` are **also regenerated from the text of `polynomial.rs` on every run** (`TF.Gen.Poly.*`; `fast_reduce` is a parameter of
`reduce`).  Proved for every record of field operations and every storage (proofs: `TF/Proofs/GenBridgePoly.lean`).
`naive_divide` (the long-division loop over `pop()` / `enumerate()` with `continue`) is regenerated too and PROVED equal to the
hand model `naiveDivide` (`gen_naive_divide_eq_model`: same quotient and remainder storage, panic exactly for the zero divisor);
the wrappers are proved to be exactly that regenerated function, so a fast path added to `divide` breaks `gen_divide_wrappers`.
The driver evaluates the regenerated definitions next to the hand model (`GEN-MISMATCH`). -/
namespace TF.C09
open TF TF.Model.Poly TF.Model.PolyD

/-- regenerated `reverse` = hand model; regenerated `mod_x_to_the_n` = hand model (slice always in range); regenerated
    `truncate` = the hand model with the `usize` saturation of `k + 1`, for EVERY `k` -/
theorem gen_truncate_eq_model {α : Type} (F : FieldOps α) (p : List α) (k : Nat) :
    TF.Gen.Poly.reverse F p = some (Model.Poly.reverse F p) ∧
    TF.Gen.Poly.mod_x_to_the_n F p k = some (Model.PolyD.modXToTheN p k) ∧
    TF.Gen.Poly.truncate F p k = some (Model.PolyD.truncateUsize F p k) := by
  refine ⟨TF.GenBridge.Poly.reverse_eq F p, TF.GenBridge.Poly.mod_x_to_the_n_eq F p k, ?_⟩
  rw [TF.GenBridge.Poly.truncate_eq]
  simp [Model.PolyD.truncateUsize, revNorm, Model.Poly.normalize, Model.PolyD.USIZE_MOD]
example : TF.Gen.Poly.truncate bfieldOps [0, 1, 2, 3, 4, 0] 1 = some [3, 4] ∧
    TF.Gen.Poly.truncate bfieldOps [1, 2, 0] 18446744073709551615 = some [1, 2] ∧
    TF.Gen.Poly.mod_x_to_the_n bfieldOps [1, 2, 3] 5 = some [1, 2, 3] ∧ TF.Gen.Poly.reverse bfieldOps [1, 2, 0] = some [2, 1] := by
  decide

/-- the regenerated `divide`, `/`, `%`, `reduce_long_division` are the regenerated `naive_divide` and its projections -/
theorem gen_divide_wrappers {α : Type} (F : FieldOps α) (a d : List α) :
    TF.Gen.Poly.divide F a d = TF.Gen.Poly.naive_divide F a d ∧
    TF.Gen.Poly.div F a d = (TF.Gen.Poly.naive_divide F a d).map (·.1) ∧
    TF.Gen.Poly.rem F a d = (TF.Gen.Poly.naive_divide F a d).map (·.2) ∧
    TF.Gen.Poly.reduce_long_division F a d = (TF.Gen.Poly.naive_divide F a d).map (·.2) :=
  ⟨TF.GenBridge.Poly.divide_eq_naive F a d, TF.GenBridge.Poly.div_eq_naive F a d, TF.GenBridge.Poly.rem_eq_naive F a d,
    TF.GenBridge.Poly.reduce_long_division_eq_naive F a d⟩
example : TF.Gen.Poly.divide bfieldOps [1, 0] [5, 6, 0] = some ([], [1, 0]) ∧
    TF.Gen.Poly.naive_divide bfieldOps [1, 2, 1] [0, 0] = none := by decide

/-- regenerated dispatcher `reduce`: panic for the zero modulus, zero for a constant modulus, `self` below the modulus degree,
    the `fast_reduce` parameter above `4·deg m` (`FAST_REDUCE_MAKES_SENSE_MULTIPLE` is read from the source), else long division -/
theorem gen_reduce_dispatch {α : Type} (F : FieldOps α) (fr : List α → List α → Option (List α)) (a m : List α) :
    TF.Gen.Poly.reduce F fr a m =
      if Model.Poly.degree F m < 0 then none
      else if Model.Poly.degree F m = 0 then some []
      else if Model.Poly.degree F a < Model.Poly.degree F m then some a
      else if Model.Poly.degree F a > 4 * Model.Poly.degree F m then fr a m
      else (TF.Gen.Poly.naive_divide F a m).map (·.2) :=
  TF.GenBridge.Poly.reduce_dispatch F fr a m
example : TF.Gen.Poly.reduce bfieldOps (fun _ _ => none) [1, 2] [0, 0] = none ∧
    TF.Gen.Poly.reduce bfieldOps (fun _ _ => none) [1, 2] [5, 0] = some [] ∧
    TF.Gen.Poly.reduce bfieldOps (fun _ _ => none) [1, 2, 0] [5, 0, 1] = some [1, 2, 0] ∧ 4 = TF.Gen.FAST_REDUCE_MAKES_SENSE_MULTIPLE := by
  decide

/-- **regenerated `naive_divide` = hand model `naiveDivide`** — every record of field operations, every dividend and divisor
    storage (stored leading zeros on either side): the regenerated long division (remainder kept lowest degree first,
    `pop().unwrap()`, `remainder[remainder_degree - i] -= q · divisor_coeff`, `continue` on a zero quotient coefficient)
    returns the same `(quotient, remainder)` storages and panics exactly when the model does (zero divisor); hence also
    `divide`, `/`, `%` = hand models -/
theorem gen_naive_divide_eq_model {α : Type} (F : FieldOps α) (a d : List α) :
    TF.Gen.Poly.naive_divide F a d = naiveDivide F a d ∧ TF.Gen.Poly.divide F a d = divide F a d ∧
    TF.Gen.Poly.div F a d = div F a d ∧ TF.Gen.Poly.rem F a d = rem F a d := by
  obtain ⟨h1, h2, h3, _⟩ := gen_divide_wrappers F a d
  rw [h1, h2, h3, TF.GenBridge.Poly.naive_divide_eq]
  exact ⟨rfl, rfl, rfl, rfl⟩
example : TF.Gen.Poly.naive_divide bfieldOps [1, 0] [5, 6, 0] = some ([], [1, 0]) ∧
    TF.Gen.Poly.rem bfieldOps [1, 2] [0] = none := by decide

/-- **regenerated `reduce` = hand model `reduce`** with `makesSense` = the regenerated `FAST_REDUCE_MAKES_SENSE_MULTIPLE`, for
    every `fast_reduce` arm of the model (every transform, cut-off, stage-2 multiple) -/
theorem gen_reduce_eq_model {α : Type} (F : FieldOps α) (N : NttOps α) (cutoff stage2 : Nat) (a m : List α) :
    TF.Gen.Poly.reduce F (fastReduce F N cutoff stage2) a m =
      reduce F N TF.Gen.FAST_REDUCE_MAKES_SENSE_MULTIPLE cutoff stage2 a m := by
  rw [gen_reduce_dispatch, TF.GenBridge.Poly.naive_divide_eq]
  simp only [reduce, rem, TF.Gen.FAST_REDUCE_MAKES_SENSE_MULTIPLE, Nat.cast_ofNat]
  rfl
example : TF.Gen.FAST_REDUCE_MAKES_SENSE_MULTIPLE = 4 := rfl

section transfer
variable {K : Type} [Field K] (root : Nat → Option K)
local notation "FK" => FieldOps.ofField K root
open Polynomial

/-- **`naive_divide_spec` / `naive_divide_panics_iff` for the regenerated code**: for any dividend, any non-zero divisor, any
    storage the regenerated `naive_divide` (= `divide`) does not panic and returns the quotient and remainder; it panics
    exactly for a zero divisor -/
theorem gen_naive_divide_transfer (a d : List K) :
    (denote d ≠ 0 → ∃ q r, TF.Gen.Poly.divide FK a d = some (q, r) ∧ TF.Gen.Poly.naive_divide FK a d = some (q, r) ∧
      denote a = denote q * denote d + denote r ∧ (denote r).degree < (denote d).degree ∧
      denote q = denote a / denote d ∧ denote r = denote a % denote d) ∧
    (TF.Gen.Poly.naive_divide FK a d = none ↔ denote d = 0) := by
  obtain ⟨h1, h2, _, _⟩ := gen_naive_divide_eq_model FK a d
  rw [h1, h2]
  refine ⟨fun hd => ?_, naive_divide_panics_iff root a d⟩
  obtain ⟨q, r, hq, rest⟩ := naive_divide_spec root a d hd
  exact ⟨q, r, hq, hq, rest⟩
example : denote ([1, 0, 2, 0] : List ℚ) ≠ 0 := by
  intro h; have := congrArg (fun p => p.coeff 0) h; simp at this

/-- **`truncate_usize_spec` / `mod_x_to_the_n_spec` for the regenerated code**: no panic, the `k+1` highest coefficients
    for every `k` (`usize::MAX` included) and every storage with fewer than `2^64` coefficients; `self % X^n` -/
theorem gen_truncate_transfer (p : List K) (k n : Nat) (hlen : (revNorm FK p).length < 2 ^ 64) :
    (∃ r, TF.Gen.Poly.truncate FK p k = some r ∧ denote r = denote p / X ^ (degSucc FK p - (k + 1))) ∧
    (∃ r, TF.Gen.Poly.mod_x_to_the_n FK p n = some r ∧ denote r = denote p % X ^ n) :=
  ⟨⟨_, (gen_truncate_eq_model FK p k).2.2, truncate_usize_spec root p k hlen⟩,
   ⟨_, (gen_truncate_eq_model FK p n).2.1, mod_x_to_the_n_spec p n⟩⟩
example : (revNorm (FieldOps.ofField ℚ) [1, 2, 0]).length < 2 ^ 64 := by
  have : revNorm (FieldOps.ofField ℚ) [1, 2, 0] = [2, 1] := by simp [revNorm]
  rw [this]; norm_num

end transfer
end TF.C09
