import TF.Proofs.LatticeFinal
/-!
# C18 — lattice ring product is negacyclic convolution; KEM correct, rejects tampering

Property theorems only (helper lemmas in `TF/Proofs/Lattice*.lean`).

* `PSI_POWERS_BITREVERSED`, `PSI_INV_POWERS_BITREVERSED`, `LATTICE_N`, `LATTICE_N_INV` are **regenerated from
  `lattice.rs`** on every run.
* `TF.Model.Lattice.*` is the hand-written model (ring elements = arrays of 64 canonical values), tied to the Rust code
  by the correspondence family `lat`.  SHAKE256 and SHA3-256 are parameters (`Oracles`) of the KEM model: every KEM
  theorem holds for every choice of these two functions.

Notation: `bitrev 6 k` reverses the 6 bits of `k`; `none` = `dec` rejects.
-/
namespace TF.C18
open TF.Gen TF.Model.Lattice TF.LatticeProofs TF.NttFn

/-- Both ψ tables are the bit-reversed powers of one element `ψ` with `ψ^64 ≡ -1` (a primitive 128th root of unity)
    and of its inverse, all entries canonical; `N_INV · 64 ≡ 1` (whole tables decided by the kernel). -/
theorem psi_tables_consistent :
    PSI_POWERS_BITREVERSED.length = 64 ∧ PSI_INV_POWERS_BITREVERSED.length = 64 ∧
    psiGen^64 % P = P - 1 ∧
    (∀ k, k < 64 →
      PSI_POWERS_BITREVERSED.getD k 0 < P ∧ PSI_INV_POWERS_BITREVERSED.getD k 0 < P ∧
      PSI_POWERS_BITREVERSED.getD k 0 = psiGen^(bitrev 6 k) % P ∧
      PSI_POWERS_BITREVERSED.getD k 0 * PSI_INV_POWERS_BITREVERSED.getD k 0 % P = 1) ∧
    LATTICE_N_INV < P ∧ LATTICE_N_INV * LATTICE_N % P = 1 ∧ LATTICE_N = 64 :=
  tables_spec
example : psiGen = 2198989700608 ∧ bitrev 6 1 = 32 := by decide

/-- `add`, `sub`, `hadamard` of ring elements are coefficient-wise field operations. -/
theorem ring_ops_coefficientwise (a b : Ring) (i : Nat) (hi : i < 64) :
    (ringAdd a b).getD i 0 = Spec.fadd (a.getD i 0) (b.getD i 0) ∧
    (ringSub a b).getD i 0 = Spec.fsub (a.getD i 0) (b.getD i 0) ∧
    (ringHadamard a b).getD i 0 = Spec.fmul (a.getD i 0) (b.getD i 0) ∧
    (ringAdd a b).size = 64 :=
  ⟨ringZip_get _ a b i hi, ringZip_get _ a b i hi, ringZip_get _ a b i hi, ringZip_size _ a b⟩
example : (63 : Nat) < 64 := by decide

/-- **Ring multiplication is negacyclic convolution**: for all pairs of ring elements (`F_p^64` each),
    `CyclotomicRingElement::mul` — coset-NTT of both operands with the tabulated powers of ψ, coefficient-wise product,
    inverse coset-NTT with the inverse table and `N_INV` — equals the schoolbook product modulo `X^64 + 1`.
    (Proof: the butterfly network with a table whose entries square to their block constants evaluates the input at
    64 roots of `X^64 + 1` [stage invariant, all `L`]; each inverse stage undoes a forward stage up to the factor 2;
    evaluation at a root of `X^n + 1` is multiplicative for negacyclic convolution; the table relations are decided in
    the kernel on the translated tables.) -/
theorem ring_mul_is_negacyclic (a b : Ring) (ha : a.size = 64) (hb : b.size = 64) : ringMul a b = negacyclic a b :=
  ringMul_eq_negacyclic a b ha hb
example : (Array.replicate 64 1 : Ring).size = 64 := by decide

/-- **`dec` accepts exactly re-encryptions**: for every pair of hash functions, every secret key and every
    ciphertext, `dec sk c = some k` iff `c` is the ciphertext generated from the public key re-derived from `sk` and the
    payload `dec` extracted from `c`, and `k` is the hash of that payload. -/
theorem dec_accepts_only_reencryptions (O : Oracles) (sk : SecretKey) (c : Ciphertext) (k : List Nat) :
    dec O sk c = some k ↔
      c = generateCiphertext O (derivePublicKey O sk.key sk.seed) (decPayload O sk c) ∧
      k = O.hash (decPayload O sk c) :=
  dec_eq_some_iff O sk c k
example : ∃ O : Oracles, O.hash [] = [1] := ⟨{ xof := fun _ n => List.replicate n 0, hash := fun _ => [1] }, rfl⟩

/-- Every ciphertext that is not that re-encryption — in particular every modification of an honest ciphertext that is
    not itself the honest encryption of the payload it decodes to — is rejected. -/
theorem dec_rejects_everything_else (O : Oracles) (sk : SecretKey) (c : Ciphertext) :
    dec O sk c = none ↔
      c ≠ generateCiphertext O (derivePublicKey O sk.key sk.seed) (decPayload O sk c) :=
  dec_eq_none_iff O sk c
example : (⟨#[], #[]⟩ : Ciphertext) ≠ ⟨#[#[1]], #[]⟩ := by decide

/-- **Honest round trip, deterministic core**: for keys from `keygen` and a ciphertext from `enc`, decapsulation
    returns the encapsulated key whenever message extraction recovers the payload (which it does when the noise term
    `b·c - d·a` stays below the lane threshold — see `embed_extract`; the probability of that event is not a statement
    about a deterministic model and is not proved). -/
theorem kem_roundtrip_of_extraction (O : Oracles) (rk r : List Nat)
    (hext : decPayload O (keygen O rk).1 (enc O (keygen O rk).2 r).2 = O.xof r 32) :
    dec O (keygen O rk).1 (enc O (keygen O rk).2 r).2 = some (enc O (keygen O rk).2 r).1 := by
  rw [dec_eq_some_iff, hext]
  exact ⟨rfl, rfl⟩
example : ∃ O : Oracles, O.xof [] 32 = List.replicate 32 0 := ⟨{ xof := fun _ n => List.replicate n 0, hash := fun _ => [1] }, rfl⟩

end TF.C18
