import TF.Proofs.LatticeCt
import TF.Proofs.LatticeKem
import TF.Proofs.GenBridgeLattice
/-!
# C18 — lattice ring product is negacyclic convolution; KEM correct, rejects tampering

Property theorems only (helper lemmas in `TF/Proofs/Lattice*.lean`).

* `PSI_POWERS_BITREVERSED`, `PSI_INV_POWERS_BITREVERSED`, `LATTICE_N`, `LATTICE_N_INV` are **regenerated from
  `lattice.rs`** on every run.
* `TF.Model.Lattice.*` is the hand-written model (ring elements = arrays of 64 canonical values), tied to the Rust code
  by the correspondence family `lat`.  SHAKE256 and SHA3-256 are parameters (`Oracles`) of the KEM model: every KEM
  theorem holds for every choice of these two functions.

Notation: `bitrev 6 k` reverses the 6 bits of `k`; `none` = `dec` rejects.
-/
namespace TF.C18
open TF.Gen TF.Model.Lattice TF.LatticeProofs TF.NttFn

/-- Both ψ tables are the bit-reversed powers of one element `ψ` with `ψ^64 ≡ -1` (a primitive 128th root of unity)
    and of its inverse, all entries canonical; `N_INV · 64 ≡ 1` (whole tables decided by the kernel). -/
theorem psi_tables_consistent :
    PSI_POWERS_BITREVERSED.length = 64 ∧ PSI_INV_POWERS_BITREVERSED.length = 64 ∧
    psiGen^64 % P = P - 1 ∧
    (∀ k, k < 64 →
      PSI_POWERS_BITREVERSED.getD k 0 < P ∧ PSI_INV_POWERS_BITREVERSED.getD k 0 < P ∧
      PSI_POWERS_BITREVERSED.getD k 0 = psiGen^(bitrev 6 k) % P ∧
      PSI_POWERS_BITREVERSED.getD k 0 * PSI_INV_POWERS_BITREVERSED.getD k 0 % P = 1) ∧
    LATTICE_N_INV < P ∧ LATTICE_N_INV * LATTICE_N % P = 1 ∧ LATTICE_N = 64 :=
  tables_spec
example : psiGen = 2198989700608 ∧ bitrev 6 1 = 32 := by decide

/-- `add`, `sub`, `hadamard` of ring elements are coefficient-wise field operations. -/
theorem ring_ops_coefficientwise (a b : Ring) (i : Nat) (hi : i < 64) :
    (ringAdd a b).getD i 0 = Spec.fadd (a.getD i 0) (b.getD i 0) ∧
    (ringSub a b).getD i 0 = Spec.fsub (a.getD i 0) (b.getD i 0) ∧
    (ringHadamard a b).getD i 0 = Spec.fmul (a.getD i 0) (b.getD i 0) ∧
    (ringAdd a b).size = 64 :=
  ⟨ringZip_get _ a b i hi, ringZip_get _ a b i hi, ringZip_get _ a b i hi, ringZip_size _ a b⟩
example : (63 : Nat) < 64 := by decide

/-- **Ring multiplication is negacyclic convolution**: for all pairs of ring elements (`F_p^64` each),
    `CyclotomicRingElement::mul` — coset-NTT of both operands with the tabulated powers of ψ, coefficient-wise product,
    inverse coset-NTT with the inverse table and `N_INV` — equals the schoolbook product modulo `X^64 + 1`.
    (Proof: the butterfly network with a table whose entries square to their block constants evaluates the input at
    64 roots of `X^64 + 1` [stage invariant, all `L`]; each inverse stage undoes a forward stage up to the factor 2;
    evaluation at a root of `X^n + 1` is multiplicative for negacyclic convolution; the table relations are decided in
    the kernel on the translated tables.) -/
theorem ring_mul_is_negacyclic (a b : Ring) (ha : a.size = 64) (hb : b.size = 64) : ringMul a b = negacyclic a b :=
  ringMul_eq_negacyclic a b ha hb
example : (Array.replicate 64 1 : Ring).size = 64 := by decide

/-- The inverse coset transform undoes the forward one: `intt64 (ntt64 x) = x` (for any 64 naturals: `x` reduced
    modulo `P`; on canonical values the identity). -/
theorem coset_intt_ntt (x : Ring) (hx : x.size = 64) : intt64 (ntt64 x) = x.map (· % P) :=
  intt64_ntt64 x hx
example : (Array.replicate 64 7 : Ring).size = 64 := by decide

/-- **The module-multiplication strategies agree** for every shape `H × INNER × W`:
    `multiply = fast_multiply`, where `fast_multiply` is by definition `intt (multiply_hadamard (ntt lhs) (ntt rhs))`. -/
theorem module_strategies_agree (H I W : Nat) (l r : Module) (hl : Shaped (H * I) l) (hr : Shaped (I * W) r) :
    modMultiply H I W l r = modFastMultiply H I W l r ∧
    modFastMultiply H I W l r = modIntt (modMultiplyHadamard H I W (modNtt l) (modNtt r)) :=
  ⟨modMultiply_eq_fast H I W l r hl hr, rfl⟩
example : Shaped (1 * 1) #[Array.replicate 64 3] := ⟨rfl, fun k hk => by
  have : k = 0 := by omega
  subst this; decide⟩

/-- `multiply` is the matrix product over `F_p[X]/(X^64+1)` with the schoolbook negacyclic product of the entries. -/
theorem module_multiply_is_schoolbook (H I W : Nat) (l r : Module) (hl : Shaped (H * I) l) (hr : Shaped (I * W) r) :
    modMultiply H I W l r = modMulWith negacyclic H I W l r := by
  apply Array.ext (by simp [modMultiply, modMulWith])
  intro idx h1 h2
  have hidx : idx < H * W := by simpa [modMultiply, modMulWith] using h1
  simp only [modMultiply, modMulWith, Array.getElem_ofFn]
  apply foldl_congr_mem
  intro acc i hi
  obtain ⟨b1, b2⟩ := index_bounds H I W idx i hidx (List.mem_range.1 hi)
  rw [ringMul_eq_negacyclic _ _ (hl.2 _ b1) (hr.2 _ b2)]
example : (2 : Nat) * 3 = 6 := rfl

/-- **Message embedding survives bounded noise**: for every 32-byte message and every noise vector whose 64
    coefficients are integers in `(-2^14, 2^14)`, added in the field (modulo `P`, wrap-around included),
    `extract_msg (embed_msg m + e) = m`. -/
theorem embed_extract (msg : List Nat) (hlen : msg.length = 32) (hb : ∀ b ∈ msg, b < 256)
    (noise : Nat → Int) (hnoise : ∀ k, k < 64 → -16384 < noise k ∧ noise k < 16384)
    (r : Ring) (hr : ∀ k, k < 64 → r.getD k 0 = addNoise ((embedMsg msg).getD k 0) (noise k)) :
    extractMsg r = msg :=
  extract_embed_noise msg hlen hb noise hnoise r hr
example : addNoise 0 (-1) = P - 1 ∧ addNoise 32768 16383 = 49151 := by decide

/-- `[BFieldElement; 320] ↔ Ciphertext` are mutually inverse (on well-shaped ciphertexts). -/
theorem ciphertext_array_roundtrip :
    (∀ v : Array Nat, v.size = 320 → ciphertextToArray (ciphertextOfArray v) = v) ∧
    (∀ c : Ciphertext, Shaped 4 c.bg → Shaped 1 c.bgaM → ciphertextOfArray (ciphertextToArray c) = c) :=
  ⟨ciphertext_array_roundtrip_1, ciphertext_array_roundtrip_2⟩
example : (Array.replicate 320 5 : Array Nat).size = 320 := by simp

/-- **`dec` accepts exactly re-encryptions**: for every pair of hash functions, every secret key and every
    ciphertext, `dec sk c = some k` iff `c` is the ciphertext generated from the public key re-derived from `sk` and the
    payload `dec` extracted from `c`, and `k` is the hash of that payload. -/
theorem dec_accepts_only_reencryptions (O : Oracles) (sk : SecretKey) (c : Ciphertext) (k : List Nat) :
    dec O sk c = some k ↔
      c = generateCiphertext O (derivePublicKey O sk.key sk.seed) (decPayload O sk c) ∧
      k = O.hash (decPayload O sk c) :=
  dec_eq_some_iff O sk c k
example : ∃ O : Oracles, O.hash [] = [1] := ⟨{ xof := fun _ n => List.replicate n 0, hash := fun _ => [1] }, rfl⟩

/-- Every ciphertext that is not that re-encryption — in particular every modification of an honest ciphertext that is
    not itself the honest encryption of the payload it decodes to — is rejected. -/
theorem dec_rejects_everything_else (O : Oracles) (sk : SecretKey) (c : Ciphertext) :
    dec O sk c = none ↔
      c ≠ generateCiphertext O (derivePublicKey O sk.key sk.seed) (decPayload O sk c) :=
  dec_eq_none_iff O sk c
example : (⟨#[], #[]⟩ : Ciphertext) ≠ ⟨#[#[1]], #[]⟩ := by decide

/-- **Honest round trip, deterministic core**: for keys from `keygen` and a ciphertext from `enc`, decapsulation
    returns the encapsulated key whenever message extraction recovers the payload (see `kem_correct_under_noise_bound`
    for the sufficient condition on the noise). -/
theorem kem_roundtrip_of_extraction (O : Oracles) (rk r : List Nat)
    (hext : decPayload O (keygen O rk).1 (enc O (keygen O rk).2 r).2 = O.xof r 32) :
    dec O (keygen O rk).1 (enc O (keygen O rk).2 r).2 = some (enc O (keygen O rk).2 r).1 := by
  rw [dec_eq_some_iff, hext]
  exact ⟨rfl, rfl⟩
example : ∃ O : Oracles, O.xof [] 32 = List.replicate 32 0 := ⟨{ xof := fun _ n => List.replicate n 0, hash := fun _ => [1] }, rfl⟩

/-- **KEM correctness under the noise bound** (every pair of hash functions, every key seed, every encapsulation
    seed): if every coefficient of the noise ring element `Σ_i b_i·c_i − Σ_i d_i·a_i` (negacyclic products of the short
    secret vectors of key generation `(a, c)` and of encapsulation `(b, d)`) is, as a signed field element, in
    `(-2^14, 2^14)`, then decapsulating the honest ciphertext with the matching secret key returns the encapsulated
    shared key.  (The element `dec` extracts from is exactly `embed_msg payload + noise`: the public-matrix terms
    cancel coefficient-wise in the NTT domain, `intt ∘ ntt = id`, and the transform is additive and multiplicative for
    the negacyclic product.)  The probability that the bound holds is not a statement about a deterministic model. -/
theorem kem_correct_under_noise_bound (O : Oracles) (rk r : List Nat)
    (hlen : (O.xof r 32).length = 32) (hb : ∀ x ∈ O.xof r 32, x < 256)
    (hE : ∀ k, k < 64 →
      ((modSub (modMulWith negacyclic 1 4 1 (deriveSecretVectors O (O.xof r 32)).1 (deriveSecretVectors O (keygen O rk).1.key).2)
        (modMulWith negacyclic 1 4 1 (deriveSecretVectors O (O.xof r 32)).2 (deriveSecretVectors O (keygen O rk).1.key).1)).getD 0 ringZero).getD k 0 < 16384 ∨
      P - 16384 < ((modSub (modMulWith negacyclic 1 4 1 (deriveSecretVectors O (O.xof r 32)).1 (deriveSecretVectors O (keygen O rk).1.key).2)
        (modMulWith negacyclic 1 4 1 (deriveSecretVectors O (O.xof r 32)).2 (deriveSecretVectors O (keygen O rk).1.key).1)).getD 0 ringZero).getD k 0) :
    dec O (keygen O rk).1 (enc O (keygen O rk).2 r).2 = some (enc O (keygen O rk).2 r).1 :=
  kem_correct_noise O rk r hlen hb hE
example : ∃ O : Oracles, (O.xof [] 32).length = 32 ∧ ∀ x ∈ O.xof [] 32, x < 256 :=
  ⟨{ xof := fun _ n => List.replicate n 0, hash := fun _ => [1] }, by simp, by intro x hx; simp at hx; omega⟩

/-! ## regenerated-from-source bridge

`TF/Gen/LatticeLoops.lean` is written by `tools/rs2lean_lattice.py` from the text of `lattice.rs` on every run (`lat_*`,
namespace `TF.Gen.Loops`).  `coset_ntt_noswap_64` / `coset_intt_noswap_64` are translated over a parameter record of field
operations `ops : Ops σ α` (array elements `α`; table entries and `N_INV` are `ops.sofNat <literal>`); the other functions
on canonical values.  Each `gen_*_eq_model` theorem says: the regenerated function returns what the hand model returns,
its `_ok` twin is true (no index out of range, no overflow of plain `+ - * <<`, no shift amount out of range) and — where
the Rust code has a `while` — it finishes within its fuel.  The transfer theorems restate the main theorems of this file
for the regenerated code. -/

/-- **`coset_ntt_noswap_64` as regenerated from source is the model's `cosetNtt`** — for every operation record `ops`
    and every array of 64 elements; the table is the regenerated `PSI_POWERS_BITREVERSED` through `BFieldElement::new`. -/
theorem gen_coset_ntt_eq_model {σ α : Type} (ops : Model.Ntt.Ops σ α) (x : Array α) (hx : x.size = 64) :
    Loops.lat_coset_ntt_noswap_64 ops x.toList
      = some (cosetNtt ops (PSI_POWERS_BITREVERSED.map ops.sofNat).toArray x).toList ∧
    Loops.lat_coset_ntt_noswap_64_ok ops x.toList = true :=
  GenBridge.Lattice.gen_coset_ntt_eq ops x hx
example : ((Array.range 64).map (· * 3 + 1)).size = 64 ∧
    Loops.lat_coset_ntt_noswap_64 Model.Ntt.bOps ((Array.range 64).map (· * 3 + 1)).toList
      = some (ntt64 ((Array.range 64).map (· * 3 + 1))).toList := by decide +kernel

/-- **`coset_intt_noswap_64` as regenerated from source is the model's `cosetIntt`** — for every `ops` and every array
    of 64 elements; table `PSI_INV_POWERS_BITREVERSED`, scalar `LATTICE_N_INV` through `BFieldElement::new`. -/
theorem gen_coset_intt_eq_model {σ α : Type} (ops : Model.Ntt.Ops σ α) (x : Array α) (hx : x.size = 64) :
    Loops.lat_coset_intt_noswap_64 ops x.toList
      = (cosetIntt ops (PSI_INV_POWERS_BITREVERSED.map ops.sofNat).toArray (ops.sofNat LATTICE_N_INV) x).toList ∧
    Loops.lat_coset_intt_noswap_64_ok ops x.toList = true :=
  GenBridge.Lattice.gen_coset_intt_eq ops x hx
example : Loops.lat_coset_intt_noswap_64 Model.Ntt.bOps ((Array.range 64).map (· * 5 + 2)).toList
      = (intt64 ((Array.range 64).map (· * 5 + 2))).toList := by decide +kernel

/-- On canonical values (`bOps`: `Spec.fadd/fsub/fmul`, `BFieldElement::new n = n % P`) the tables are the regenerated
    constants, so the regenerated transforms **are** `ntt64` / `intt64`. -/
theorem gen_coset_transforms_are_ntt64_intt64 (x : Ring) (hx : x.size = 64) :
    Loops.lat_coset_ntt_noswap_64 Model.Ntt.bOps x.toList = some (ntt64 x).toList ∧
    Loops.lat_coset_ntt_noswap_64_ok Model.Ntt.bOps x.toList = true ∧
    Loops.lat_coset_intt_noswap_64 Model.Ntt.bOps x.toList = (intt64 x).toList ∧
    Loops.lat_coset_intt_noswap_64_ok Model.Ntt.bOps x.toList = true :=
  ⟨(GenBridge.Lattice.gen_ntt64 x hx).1, (GenBridge.Lattice.gen_ntt64 x hx).2,
   (GenBridge.Lattice.gen_intt64 x hx).1, (GenBridge.Lattice.gen_intt64 x hx).2⟩
example : (Array.replicate 64 (P - 1) : Ring).size = 64 := by decide

/-- **`embed_msg` as regenerated from source is the model's `embedMsg`**, for every message of 32 bytes. -/
theorem gen_embed_msg_eq_model (msg : List Nat) (hlen : msg.length = 32) (hb : ∀ b ∈ msg, b < 256) :
    Loops.lat_embed_msg msg = (embedMsg msg).toList ∧ Loops.lat_embed_msg_ok msg = true :=
  GenBridge.Lattice.gen_embed_msg_eq msg hlen hb
example : ((List.range 32).map (· * 7 + 3)).length = 32 ∧ (∀ b ∈ (List.range 32).map (· * 7 + 3), b < 256) ∧
    (Loops.lat_embed_msg ((List.range 32).map (· * 7 + 3))).getD 8 0 = 2 ^ 15 + 2 ^ 31 + 2 ^ 47 + 2 ^ 63 := by decide +kernel

/-- **`extract_msg` as regenerated from source is the model's `extractMsg`**, for every ring element. -/
theorem gen_extract_msg_eq_model (x : Ring) (hx : x.size = 64) :
    Loops.lat_extract_msg x.toList = extractMsg x ∧ Loops.lat_extract_msg_ok x.toList = true :=
  GenBridge.Lattice.gen_extract_msg_eq x hx
example : Loops.lat_extract_msg ((List.range 64).map (· * 2000000000000000 + 40000)) =
    [49, 83, 117, 87, 51, 17, 119, 117, 23, 49, 19, 119, 85, 23, 49, 83, 117, 85, 51, 17, 83, 117, 87, 49, 17, 119, 85, 23, 49,
      19, 117, 85] := by decide +kernel

/-- **The ring operations as regenerated from source are the model's** (`Add`, `Sub`, `hadamard`, `Mul` of
    `CyclotomicRingElement`), for all pairs of ring elements; in `mul` both `while` loops finish and nothing panics. -/
theorem gen_ring_ops_eq_model (a b : Ring) (ha : a.size = 64) (hb : b.size = 64) :
    (Loops.lat_ring_add a.toList b.toList = (ringAdd a b).toList ∧ Loops.lat_ring_add_ok a.toList b.toList = true) ∧
    (Loops.lat_ring_sub a.toList b.toList = (ringSub a b).toList ∧ Loops.lat_ring_sub_ok a.toList b.toList = true) ∧
    (Loops.lat_ring_hadamard a.toList b.toList = (ringHadamard a b).toList ∧
      Loops.lat_ring_hadamard_ok a.toList b.toList = true) ∧
    (Loops.lat_ring_mul a.toList b.toList = some (ringMul a b).toList ∧ Loops.lat_ring_mul_ok a.toList b.toList = true) :=
  ⟨GenBridge.Lattice.gen_ring_add_eq a b ha hb, GenBridge.Lattice.gen_ring_sub_eq a b ha hb,
   GenBridge.Lattice.gen_ring_hadamard_eq a b ha hb, GenBridge.Lattice.gen_ring_mul_eq a b ha hb⟩
example : Loops.lat_ring_sub (List.replicate 64 1) (List.replicate 64 2) = List.replicate 64 (P - 1) := by decide +kernel

/-- **Transfer of `ring_mul_is_negacyclic`**: `Mul for CyclotomicRingElement` *as regenerated from source* computes the
    schoolbook product modulo `X^64 + 1`, for all pairs of ring elements, and never panics. -/
theorem gen_ring_mul_is_negacyclic (a b : Ring) (ha : a.size = 64) (hb : b.size = 64) :
    Loops.lat_ring_mul a.toList b.toList = some (negacyclic a b).toList ∧ Loops.lat_ring_mul_ok a.toList b.toList = true := by
  rw [← ring_mul_is_negacyclic a b ha hb]
  exact GenBridge.Lattice.gen_ring_mul_eq a b ha hb
example : (Loops.lat_ring_mul ((List.range 64).map (· + 1)) (0 :: 1 :: List.replicate 62 0)).map (·.take 3)
    = some [P - 64, 1, 2] := by decide +kernel

/-- **Transfer of `coset_intt_ntt`**: the regenerated inverse transform undoes the regenerated forward transform. -/
theorem gen_coset_intt_ntt (x : Ring) (hx : x.size = 64) :
    (Loops.lat_coset_ntt_noswap_64 Model.Ntt.bOps x.toList).map (Loops.lat_coset_intt_noswap_64 Model.Ntt.bOps)
      = some (x.map (· % P)).toList := by
  rw [(GenBridge.Lattice.gen_ntt64 x hx).1, Option.map_some, (GenBridge.Lattice.gen_intt64 _ (ntt64_size x hx)).1,
    coset_intt_ntt x hx]
example : (Loops.lat_coset_ntt_noswap_64 Model.Ntt.bOps (List.range 64)).map (Loops.lat_coset_intt_noswap_64 Model.Ntt.bOps)
    = some (List.range 64) := by decide +kernel

/-- **Transfer of `ring_mul_is_negacyclic`**: the regenerated forward transforms of both operands, the coefficient-wise
    product, then the regenerated inverse transform give the schoolbook product modulo `X^64 + 1`, for all pairs. -/
theorem gen_transforms_mul_is_negacyclic (a b : Ring) (ha : a.size = 64) (hb : b.size = 64) :
    ((Loops.lat_coset_ntt_noswap_64 Model.Ntt.bOps a.toList).bind fun A =>
      (Loops.lat_coset_ntt_noswap_64 Model.Ntt.bOps b.toList).map fun B =>
        Loops.lat_coset_intt_noswap_64 Model.Ntt.bOps (ringHadamard A.toArray B.toArray).toList)
      = some (negacyclic a b).toList := by
  have hs : (ringHadamard (ntt64 a) (ntt64 b)).size = 64 := ringZip_size _ _ _
  rw [(GenBridge.Lattice.gen_ntt64 a ha).1, (GenBridge.Lattice.gen_ntt64 b hb).1, Option.bind_some, Option.map_some,
    Array.toArray_toList, Array.toArray_toList, (GenBridge.Lattice.gen_intt64 _ hs).1, ← ring_mul_is_negacyclic a b ha hb]
  rfl
example : (Array.replicate 64 2 : Ring).size = 64 := by decide

/-- **Transfer of `embed_extract`**: for every 32-byte message and every noise vector with coefficients in
    `(-2^14, 2^14)`, the regenerated `extract_msg` applied to (regenerated `embed_msg` + noise) returns the message. -/
theorem gen_embed_extract (msg : List Nat) (hlen : msg.length = 32) (hb : ∀ b ∈ msg, b < 256)
    (noise : Nat → Int) (hnoise : ∀ k, k < 64 → -16384 < noise k ∧ noise k < 16384)
    (r : Ring) (hsz : r.size = 64)
    (hr : ∀ k, k < 64 → r.getD k 0 = addNoise ((Loops.lat_embed_msg msg).getD k 0) (noise k)) :
    Loops.lat_extract_msg r.toList = msg ∧ Loops.lat_extract_msg_ok r.toList = true ∧ Loops.lat_embed_msg_ok msg = true := by
  refine ⟨?_, (GenBridge.Lattice.gen_extract_msg_eq r hsz).2, (GenBridge.Lattice.gen_embed_msg_eq msg hlen hb).2⟩
  rw [(GenBridge.Lattice.gen_extract_msg_eq r hsz).1]
  apply embed_extract msg hlen hb noise hnoise r
  intro k hk
  rw [hr k hk, (GenBridge.Lattice.gen_embed_msg_eq msg hlen hb).1]
  simp [Array.getD_eq_getD_getElem?, List.getD_eq_getElem?_getD]
example : addNoise 32768 16383 = 49151 := by decide

/-- **Transfer of `embed_extract`** (embedding side): noise within `(-2^14, 2^14)` on the coefficients *computed by the
    regenerated `embed_msg`* is removed by `extractMsg`. -/
theorem gen_embed_then_extract (msg : List Nat) (hlen : msg.length = 32) (hb : ∀ b ∈ msg, b < 256)
    (noise : Nat → Int) (hnoise : ∀ k, k < 64 → -16384 < noise k ∧ noise k < 16384)
    (r : Ring) (hr : ∀ k, k < 64 → r.getD k 0 = addNoise ((Loops.lat_embed_msg msg).getD k 0) (noise k)) :
    extractMsg r = msg := by
  apply embed_extract msg hlen hb noise hnoise r
  intro k hk
  rw [hr k hk, (GenBridge.Lattice.gen_embed_msg_eq msg hlen hb).1]
  simp [Array.getD_eq_getD_getElem?, List.getD_eq_getElem?_getD]
example : addNoise 32768 (-16383) = 16385 := by decide

end TF.C18
