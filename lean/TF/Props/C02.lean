import TF.Proofs.Tip5
import TF.Proofs.GenBridgeTip5
/-!
# C02 — the Tip5 permutation and the fixed-length hashes conform to the Tip5 specification

Property theorems only (helper lemmas live in `TF/Proofs/Tip5.lean`).

* Model (`TF/Model/Tip5.lean`): the Rust state, a `Vector Nat 16` of **raw Montgomery words**; a word `w` is canonical
  iff `w < P`; its value is `bfe_value w` (the translated `canonical_representation`).  `CanonV v` says every word of
  `v` is canonical.
* Specification (`TF/Spec/Tip5.lean`): the paper-level round on canonical values — byte map `(b+1)^3 − 1 mod 257` on
  the bytes of the Montgomery form of lanes 0–3, `x^7` on lanes 4–15, the circulant matrix
  `M[i][j] = MDS_MATRIX_FIRST_COLUMN[(i−j) mod 16]` (`mdsRow i`, `dot`), the listed round constants, five rounds.
* Regenerated from the Rust source on every run and used below: `LOOKUP_TABLE`, `ROUND_CONSTANTS`,
  `MDS_MATRIX_FIRST_COLUMN`, `offset_fermat_cube_map`, `generated_function` (wrapping `u64` = `UInt64`),
  `mds_recombine` (body of the `for r` loop of `mds_generated`), `bfe_new`, `bfe_value`, `bfe_mul`, `bfe_add`;
  every `…_ok` flag is the generated "no plain arithmetic operation overflows" predicate.

All theorems quantify over **every** state; none is bounded.
-/
namespace TF.C02
open TF.Gen TF.BF TF.Model.Tip5 TF.Tip5P
open TF.Spec.Tip5 (dot mdsRow)

/-! ## tables -/

/-- the whole `LOOKUP_TABLE` is the offset Fermat cube map `(b+1)^3 − 1 mod 257`, both as the source's
    `offset_fermat_cube_map` (which does not overflow on bytes) and as the specification's formula -/
theorem lookup_is_offset_fermat_cube (b : Fin 256) :
    lookup b = offset_fermat_cube_map b.val ∧ offset_fermat_cube_map_ok b.val = true ∧
    lookup b = ((b.val + 1) ^ 3 + 256) % 257 :=
  ⟨(lookup_table_all b).1, (lookup_table_all b).2.1, (lookup_table_all b).2.2.1⟩
example : lookup 17 = 177 := by decide +kernel

/-- the byte map is a permutation of the bytes (injective on a finite set) -/
theorem lookup_is_permutation (a b : Fin 256) : lookup a = lookup b ↔ a = b :=
  ⟨lookup_injective a b, fun h => by rw [h]⟩
example : lookup 0 = 0 ∧ lookup 255 = 255 ∧ lookup 1 = 7 := by decide +kernel

/-- every round constant's raw word is at most `2P − 2^64 = P − 2^32 + 1` (so that adding it to *any* 64-bit word
    stays below `2P`), and the raw word represents the listed value -/
theorem round_constants_small (r : Fin 5) (i : Fin 16) :
    roundConstant r i ≤ P - 2 ^ 32 + 1 ∧ roundConstant r i + (2 ^ 64 - 1) < 2 * P ∧
    bfe_value (roundConstant r i) = TF.Spec.Tip5.roundConstant r i := by
  obtain ⟨h1, _, h3⟩ := round_constants_all r i
  have hP : P = 18446744069414584321 := rfl
  refine ⟨?_, ?_, h3⟩ <;> rw [hP] <;> omega
example : roundConstant 0 0 = 7037825344483254583 := by decide +kernel

/-! ## S-boxes -/

/-- `split_and_lookup` maps canonical words to canonical words, and on values it is the specification's
    lookup S-box -/
theorem lookup_keeps_canonical (w : Nat) (hw : w < P) :
    split_and_lookup w < P ∧ bfe_value (split_and_lookup w) = TF.Spec.Tip5.sboxL (bfe_value w) :=
  ⟨split_and_lookup_canon w hw, split_and_lookup_value w hw⟩
example : (18446744069414584320 : Nat) < P := by decide

/-- the power-map lane (`sq`, `qu`, `x·(sq·qu)`): canonical, value `x^7`, no `u128` overflow in any product -/
theorem power_map_is_seventh_power (x : Nat) (hx : x < P) :
    pow7 x < P ∧ bfe_value (pow7 x) = bfe_value x ^ 7 % P ∧
    bfe_mul_ok x x = true ∧ bfe_mul_ok (bfe_mul x x) (bfe_mul x x) = true ∧
    bfe_mul_ok (bfe_mul x x) (bfe_mul (bfe_mul x x) (bfe_mul x x)) = true ∧
    bfe_mul_ok x (bfe_mul (bfe_mul x x) (bfe_mul (bfe_mul x x) (bfe_mul x x))) = true :=
  ⟨(pow7_spec x hx).1, (pow7_spec x hx).2, pow7_ok x hx⟩
example : (4294967295 : Nat) < P := by decide

/-! ## linear layer -/

/-- each output lane of the translated `generated_function` is `16 ×` (circulant row · input) modulo `2^64`, for
    **all** sixteen 64-bit inputs -/
theorem generated_function_is_16x_circulant (x : Vector UInt64 16) (i : Fin 16) :
    (genFn x)[i].toNat = 16 * dot (mdsRow i) (x.toList.map UInt64.toNat) % 2 ^ 64 :=
  genFn_mod x i
example : mdsRow 1 = [1108, 61402, 17845, 26798, 59689, 12021, 40901, 41351, 27521, 56951, 12034, 53865, 43244,
    7454, 33823, 28750] := by decide

/-- … and on 32-bit limbs nothing wraps: the lane *is* `16 · Σⱼ M[i][j]·xⱼ`, and the sum is below `2^52` -/
theorem generated_function_no_wrap (x : Vector UInt64 16) (hx : ∀ y ∈ x.toList, y.toNat < 2 ^ 32) (i : Fin 16) :
    (genFn x)[i].toNat = 16 * dot (mdsRow i) (x.toList.map UInt64.toNat) ∧
    dot (mdsRow i) (x.toList.map UInt64.toNat) < 2 ^ 52 :=
  genFn_toNat x hx i
example : ∀ y ∈ (Vector.replicate 16 (4294967295 : UInt64)).toList, y.toNat < 2 ^ 32 := by decide

/-- the recombination `(lo >> 4) + (hi << 28)`, folding of the high word with `2^64 ≡ 2^32 − 1`, including the
    `over` branch: on `lo = 16·A`, `hi = 16·B` with `A, B < 2^52` nothing overflows (`s_hi * 0xffffffff`,
    `res + 0xffffffff`), the result is a 64-bit word, and it is congruent to `A + 2^32·B` modulo `P` -/
theorem mds_recombine_spec (A B : Nat) (hA : A < 2 ^ 52) (hB : B < 2 ^ 52) :
    mds_recombine (16 * A) (16 * B) < 2 ^ 64 ∧ mds_recombine_ok (16 * A) (16 * B) = true ∧
    mds_recombine (16 * A) (16 * B) % P = (A + 2 ^ 32 * B) % P := by
  obtain ⟨h1, h2, h3⟩ := mds_recombine_lin A B hA hB
  refine ⟨h1, h2, ?_⟩
  show _ % Pn = (A + H * B) % Pn
  rcases h3 with h3 | h3
  · rw [← h3, Nat.add_mul_mod_self_right]
  · rw [← h3, Nat.add_mul_mod_self_right]
example : mds_recombine (16 * 4503599627370495) (16 * 4503599627370495) = 9007194958725119 := by decide +kernel

/-- `mds_generated` on **any** state of 64-bit words: every lane is a 64-bit word congruent modulo `P` to the
    circulant matrix row applied to the raw words, and no recombination overflows.  The lane may lie in `[P, 2^64)`. -/
theorem mds_generated_spec (s : State) (hs : ∀ (j : Nat) (h : j < 16), s[j] < 2 ^ 64) (i : Nat) (h : i < 16) :
    (mds_generated s)[i] < 2 ^ 64 ∧ (mds_generated s)[i] % P = dot (mdsRow ⟨i, h⟩) s.toList % P ∧
    mds_recombine_ok (genFn (s.map limbLo))[(⟨i, h⟩ : Fin 16)].toNat
      (genFn (s.map limbHi))[(⟨i, h⟩ : Fin 16)].toNat = true :=
  mds_lane s hs i h
/-- the subtle point is real: a canonical state whose lane 0 of the linear layer is the non-canonical word `2^64 − 1` -/
example : let s : State := #v[300726211092271285, 36561, 0, 0, 0, 0, 0, 0, 0, 0, 0, 0, 0, 0, 0, 0]
    (∀ (j : Nat) (h : j < 16), s[j] < P) ∧ (mds_generated s)[0] = 2 ^ 64 - 1 := by decide +kernel

/-- `+` with a canonical right operand `c ≤ 2P − 2^64` and an **arbitrary 64-bit** left operand is exact and lands
    in `[0, P)` -/
theorem add_noncanonical_left (a c : Nat) (ha : a < 2 ^ 64) (hc : c ≤ P - 2 ^ 32 + 1) :
    bfe_add a c = (a + c) % P ∧ bfe_add a c < P ∧ bfe_add_ok a c = true :=
  TF.Tip5P.add_noncanonical_left a c ha (by have hP : P = 18446744069414584321 := rfl; rw [hP] at hc; omega)
example : bfe_add (2 ^ 64 - 1) (P - 2 ^ 32 + 1) = P - 1 := by decide +kernel

/-! ## round, permutation, trace -/

/-- a round maps canonical states to canonical states -/
theorem round_canonical (r : Fin 5) (s : State) (hs : CanonV s) : CanonV (round r s) :=
  round_canon r s hs
example : CanonV (Vector.replicate 16 18446744069414584320 : State) := by
  intro j h; rw [Vector.getElem_replicate]; decide

/-- a round of the implementation model is the specification round on the values -/
theorem round_refines_spec (r : Fin 5) (s : State) (hs : CanonV s) :
    (round r s).map bfe_value = TF.Spec.Tip5.round r (s.map bfe_value) :=
  round_refines r s hs
example : CanonV (#v[0, 1, 18446744069414584320, 4294967295, 4294967296, 5, 6, 7, 8, 9, 10, 11, 12, 13, 14, 15] : State) :=
  (forall_mem_toList (p := fun x => x < Pn) _).mp (by decide)

/-- the permutation: canonical output whose values are the specification permutation of the input values -/
theorem permutation_refines_spec (s : State) (hs : CanonV s) :
    CanonV (permutation s) ∧ (permutation s).map bfe_value = TF.Spec.Tip5.permutation (s.map bfe_value) :=
  fold_refines (List.finRange 5) s hs

/-- the trace: six states, the first is the input, every word of every state is canonical, the values are the
    specification trace, and the last state is `permutation` -/
theorem trace_spec (s : State) (hs : CanonV s) :
    (trace s).length = 6 ∧ (trace s).head? = some s ∧ (∀ t ∈ trace s, CanonV t) ∧
    (trace s).map (fun t => t.map bfe_value) = TF.Spec.Tip5.trace (s.map bfe_value) ∧
    (trace s).getLast? = some (permutation s) := by
  obtain ⟨t1, t2⟩ := traceFrom_refines (List.finRange 5) s hs
  refine ⟨?_, rfl, ?_, ?_, ?_⟩
  · simp only [trace, List.length_cons, traceFrom_length, List.length_finRange]
  · intro t ht
    simp only [trace, List.mem_cons] at ht
    rcases ht with rfl | ht
    · exact hs
    · exact t1 t ht
  · simp only [trace, TF.Spec.Tip5.trace, List.map_cons, t2]
  · unfold trace permutation
    rw [List.getLast?_eq_some_getLast (List.cons_ne_nil _ _), traceFrom_last]

/-! ## fixed-length hashes (inputs and outputs as field values, as on the API) -/

/-- `Tip5::hash_10` of ten field elements: canonical digest, equal to the specification (capacity all ones, one
    permutation, first five elements) -/
theorem hash10_spec (v : Vector Nat 10) (hv : CanonV v) :
    CanonV (hash_10 (v.map bfe_new)) ∧ (hash_10 (v.map bfe_new)).map bfe_value = TF.Spec.Tip5.hash10 v := by
  obtain ⟨c, e⟩ := new_canonV v hv
  have := hash_10_refines (v.map bfe_new) c
  rw [e] at this
  exact this
example : CanonV (Vector.replicate 10 7 : Vector Nat 10) := by
  intro j h; rw [Vector.getElem_replicate]; decide
/-- the last step of the vector pinned by the repository's `hash10_test_vectors`, evaluated by the kernel on the
    model (raw words) and on the specification -/
example :
    let v : Vector Nat 10 := #v[941080798860502477, 15888421881075650037, 11494362724359741120, 627201255727529993,
      4790238723037855394, 16959020643814878453, 12118009629857908438, 10239930869937551135, 6889489196156760098,
      5774309862903741805]
    let d : Vector Nat 5 := #v[10869784347448351760, 1853783032222938415, 6856460589287344822, 17178399545409290325,
      7650660984651717733]
    (hash_10 (v.map bfe_new)).map bfe_value = d ∧ TF.Spec.Tip5.hash10 v = d := by decide +kernel

/-- `Tip5::hash_pair(l, r)`: canonical digest, the specification hash of `l ++ r` -/
theorem hash_pair_spec (l r : Vector Nat 5) (hl : CanonV l) (hr : CanonV r) :
    CanonV (hash_pair (l.map bfe_new) (r.map bfe_new)) ∧
    (hash_pair (l.map bfe_new) (r.map bfe_new)).map bfe_value = TF.Spec.Tip5.hashPair l r := by
  obtain ⟨cl, el⟩ := new_canonV l hl
  obtain ⟨cr, er⟩ := new_canonV r hr
  have := hash_pair_refines _ _ cl cr
  rw [el, er] at this
  exact this
example : CanonV (#v[0, 1, 18446744069414584320, 4294967295, 4294967296] : Vector Nat 5) :=
  (forall_mem_toList (p := fun x => x < Pn) _).mp (by decide)

/-- `Digest::hash(d) = hash_pair(d, 0)` -/
theorem digest_hash_spec (d : Vector Nat 5) (hd : CanonV d) :
    CanonV (digest_hash (d.map bfe_new)) ∧
    (digest_hash (d.map bfe_new)).map bfe_value = TF.Spec.Tip5.hashPair d (Vector.replicate 5 0) := by
  obtain ⟨c, e⟩ := new_canonV d hd
  have := digest_hash_refines _ c
  rw [e] at this
  exact this

end TF.C02

/-! ## regenerated-from-source bridge

`Tip5::{split_and_lookup, sbox_layer, mds_generated, round, permutation, trace, new, hash_10}` are **also regenerated from `tip5.rs` on
every run** (`TF/Gen/Tip5Loops.lean`, `TF.Gen.Loops.tip5_*`, written by `tools/rs2lean_bfe.py`; the helpers
`raw_bytes`/`from_raw_bytes`/`raw_u64`/`from_raw_u64` come from `b_field_element.rs`, `TF/Gen/BFieldLoops.lean`): the
state is the list of its 16 raw words, the BFieldElement operators are the translated `bfe_add`/`bfe_mul`, the tables
are the regenerated tables, `for` loops are recursions on the number of remaining iterations.  The theorems below
(proofs in `TF/Proofs/GenBridgeTip5.lean`) say that the regenerated definitions are the hand model on **every** state
(no bound, no canonicity hypothesis); `gen_tip5_transfer` restates `permutation_refines_spec` / `trace_spec` /
`hash10_spec` / `hash_pair_spec` for the regenerated code.  A one-token change of one of these Rust functions changes
`TF.Gen.Loops.tip5_*`; these theorems are then re-checked or break (e.g. a shortcut in `sbox_layer` that reuses a
neighbouring lane's 7th power, whose trigger has probability 2⁻⁶⁴ under sampling). -/
namespace TF.C02
open TF.Gen TF.BF TF.Model.Tip5 TF.Tip5P

/-- regenerated `split_and_lookup` (`raw_bytes`, the table loop over the 8 bytes, `from_raw_bytes`) = hand model, every word -/
theorem gen_split_and_lookup_eq_model (w : Nat) : Loops.tip5_split_and_lookup w = split_and_lookup w :=
  TF.GenBridge.Tip5.gen_split_and_lookup_eq w
example : Loops.tip5_split_and_lookup 18446744069414584320 = 18446744069414584320 ∧
    Loops.tip5_split_and_lookup 65537 = 458759 ∧ Loops.tip5_split_and_lookup_ok 65537 = true := by decide +kernel

/-- regenerated `sbox_layer` = hand model, every state -/
theorem gen_sbox_layer_eq_model (s : State) : Loops.tip5_sbox_layer s.toList = (sbox_layer s).toList :=
  TF.GenBridge.Tip5.gen_sbox_layer_eq s
/-- non-vacuity, on the trigger of the seeded shortcut: lane 5 holds the 7th power of lane 4 -/
example : let x := bfe_new 3
    (Loops.tip5_sbox_layer [0, 0, 0, 0, x, pow7 x, 0, 0, 0, 0, 0, 0, 0, 0, 0, 0]).getD 5 0 = pow7 (pow7 x) ∧
    pow7 (pow7 x) ≠ pow7 x := by decide +kernel

/-- regenerated `mds_generated` (limb split, two calls of `generated_function`, recombination loop) = hand model -/
theorem gen_mds_generated_eq_model (s : State) : Loops.tip5_mds_generated s.toList = (mds_generated s).toList :=
  TF.GenBridge.Tip5.gen_mds_generated_eq s
example : (Loops.tip5_mds_generated [300726211092271285, 36561, 0, 0, 0, 0, 0, 0, 0, 0, 0, 0, 0, 0, 0, 0]).length = 16 ∧
    Loops.tip5_mds_generated_ok [300726211092271285, 36561, 0, 0, 0, 0, 0, 0, 0, 0, 0, 0, 0, 0, 0, 0] = true := by
  decide +kernel

/-- regenerated `round` = hand model, every state, every round index -/
theorem gen_round_eq_model (r : Fin 5) (s : State) : Loops.tip5_round s.toList r.val = (round r s).toList :=
  TF.GenBridge.Tip5.gen_round_eq s r.val r.isLt

/-- regenerated `permutation` = hand model, every state -/
theorem gen_permutation_eq_model (s : State) : Loops.tip5_permutation s.toList = (permutation s).toList :=
  TF.GenBridge.Tip5.gen_permutation_eq s
example : Loops.tip5_permutation_ok (List.replicate 16 (bfe_new 1)) = true ∧
    (Loops.tip5_permutation (List.replicate 16 (bfe_new 1))).length = 16 := by decide +kernel

/-- regenerated `trace`: the returned array is the hand model's trace, the state left behind is its permutation -/
theorem gen_trace_eq_model (s : State) :
    (Loops.tip5_trace s.toList).1 = (trace s).map Vector.toList ∧
    (Loops.tip5_trace s.toList).2 = (permutation s).toList :=
  TF.GenBridge.Tip5.gen_trace_eq s
example : (Loops.tip5_trace (List.replicate 16 (bfe_new 1))).1.length = 6 ∧
    Loops.tip5_trace_ok (List.replicate 16 (bfe_new 1)) = true := by decide +kernel

/-- regenerated `Tip5::new(domain)` (the `match` on `Domain` read from sponge.rs: `VariableLength` = 0, `FixedLength` = 1;
    the `while` loop over the capacity lanes) = the hand model's start states -/
theorem gen_new_eq_model :
    Loops.tip5_new 0 = some varlenState.toList ∧
    Loops.tip5_new 1 = some (fixedLengthState (Vector.replicate 10 zero)).toList ∧ Loops.tip5_new_ok 1 = true := by
  refine ⟨TF.GenBridge.Tip5.gen_new_eq.1, ?_, by decide +kernel⟩
  rw [TF.GenBridge.Tip5.gen_new_eq.2, TF.GenBridge.Tip5.fixedLengthState_toList]
  rfl

/-- regenerated `hash_10` (`Self::new(FixedLength)`, `copy_from_slice`, `permutation`, `try_into().unwrap()`) = hand
    model, every input -/
theorem gen_hash_10_eq_model (input : Vector Nat 10) :
    Loops.tip5_hash_10 input.toList = some (hash_10 input).toList :=
  TF.GenBridge.Tip5.gen_hash_10_eq input
example : Loops.tip5_hash_10_ok (List.replicate 10 (bfe_new 7)) = true ∧
    (Loops.tip5_hash_10 (List.replicate 10 (bfe_new 7))).isSome = true ∧
    Loops.tip5_hash_10_ok (List.replicate 9 (bfe_new 7)) = false := by decide +kernel

/-- **transfer**: the C02 statements for the code as it is in the source now.  For every canonical state the regenerated
    `permutation` returns canonical words whose values are the specification permutation of the input values; the
    regenerated `trace` returns six canonical states whose values are the specification trace; the regenerated `hash_10`
    terminates with a canonical digest whose values are the specification's; `hash_pair` (whose `Digest` glue is
    modelled by hand) is the first five words of the regenerated permutation of the hand model's start state, with the
    specification's values -/
theorem gen_tip5_transfer (s : State) (hs : CanonV s) :
    (∀ w ∈ Loops.tip5_permutation s.toList, w < P) ∧
    (Loops.tip5_permutation s.toList).map bfe_value = (TF.Spec.Tip5.permutation (s.map bfe_value)).toList ∧
    (Loops.tip5_trace s.toList).1.map (fun t => t.map bfe_value)
      = (TF.Spec.Tip5.trace (s.map bfe_value)).map Vector.toList ∧
    (∀ v : Vector Nat 10, CanonV v →
      ∃ d, Loops.tip5_hash_10 (v.map bfe_new).toList = some d ∧ (∀ w ∈ d, w < P) ∧
        d.map bfe_value = (TF.Spec.Tip5.hash10 v).toList) ∧
    (∀ l r : Vector Nat 5, CanonV l → CanonV r →
      ((Loops.tip5_permutation (fixedLengthState (pairInput (l.map bfe_new) (r.map bfe_new))).toList).take 5).map bfe_value
        = (TF.Spec.Tip5.hashPair l r).toList) := by
  have hp := permutation_refines_spec s hs
  have ht := trace_spec s hs
  have take5 : ∀ t : State, t.toList.take 5 = (Vector.ofFn fun i : Fin 5 => t[i.val]).toList := by
    intro t
    rw [vec16_toList t]
    rfl
  refine ⟨?_, ?_, ?_, ?_, ?_⟩
  · rw [gen_permutation_eq_model]
    exact (forall_mem_toList (p := fun x => x < P) _).mpr hp.1
  · rw [gen_permutation_eq_model, ← hp.2, Vector.toList_map]
  · rw [(gen_trace_eq_model s).1, ← ht.2.2.2.1]
    simp only [List.map_map]
    apply List.map_congr_left
    intro t _
    simp only [Function.comp, Vector.toList_map]
  · intro v hv
    have h10 := hash10_spec v hv
    refine ⟨_, gen_hash_10_eq_model _, (forall_mem_toList (p := fun x => x < P) _).mpr h10.1, ?_⟩
    rw [← h10.2, Vector.toList_map]
  · intro l r hl hr
    have hpair := hash_pair_spec l r hl hr
    rw [gen_permutation_eq_model, take5, ← hpair.2, Vector.toList_map]
    rfl
example : CanonV (Vector.replicate 16 18446744069414584320 : State) := by
  intro j h; rw [Vector.getElem_replicate]; decide

end TF.C02
