import TF.Proofs.Tip5
/-!
# C02 — the Tip5 permutation and the fixed-length hashes conform to the Tip5 specification

Property theorems only (helper lemmas live in `TF/Proofs/Tip5.lean`).

Model (`TF/Model/Tip5.lean`): the Rust state, 16 **raw Montgomery words**; `canon w := w < P`; the value of a word is
`bfe_value w` (translated `canonical_representation`).  Specification (`TF/Spec/Tip5.lean`): the paper-level round
on canonical values.  Regenerated from source on every run and used by these theorems: `LOOKUP_TABLE`,
`ROUND_CONSTANTS`, `MDS_MATRIX_FIRST_COLUMN`, `offset_fermat_cube_map`, `generated_function`, `mds_recombine`,
`bfe_new`, `bfe_value`, `bfe_mul`, `bfe_add`, `montyred`.
-/
namespace TF.C02
open TF.Gen TF.BF TF.Model.Tip5 TF.Tip5P
open TF.Spec.Tip5 (dot mdsRow fermatCube)

/-- the whole `LOOKUP_TABLE` is the offset Fermat cube map `(b+1)^3 − 1 mod 257`, both as the source's
    `offset_fermat_cube_map` (which does not overflow on bytes) and as the specification's formula -/
theorem lookup_is_offset_fermat_cube (b : Fin 256) :
    lookup b = offset_fermat_cube_map b.val ∧ offset_fermat_cube_map_ok b.val = true ∧
    lookup b = ((b.val + 1) ^ 3 + 256) % 257 :=
  ⟨(lookup_table_all b).1, (lookup_table_all b).2.1, (lookup_table_all b).2.2.1⟩
example : lookup 17 = 177 := by decide +kernel

/-- the byte map is a permutation of the bytes (injective on a finite set) -/
theorem lookup_is_permutation (a b : Fin 256) : lookup a = lookup b ↔ a = b :=
  ⟨lookup_injective a b, fun h => by rw [h]⟩

/-- `split_and_lookup` maps canonical words to canonical words -/
theorem lookup_keeps_canonical (w : Nat) (hw : w < P) : split_and_lookup w < P :=
  split_and_lookup_canon w hw
example : (18446744069414584320 : Nat) < P := by decide

end TF.C02
