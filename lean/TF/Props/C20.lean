import TF.Proofs.Conv
import TF.Proofs.GenBridgeConv
/-!
# C20 — Digest and element conversions are lossless, order-preserving and strict

Property theorems only (helper lemmas: `TF/Proofs/Conv.lean`; model: `TF/Model/Conv.lean`, hand-written after
`digest.rs`, `b_field_element.rs`, `x_field_element.rs` and tied to them by the correspondence family `conv`).

Notation. A field element is its canonical value; `WFd d`: `d` is a list of five values `< P` (a digest, element 0
first). Bytes are naturals, `IsBytes bs`: all `< 256`. Strings are `List Char`; `IsDigit c`: `'0' ≤ c ≤ '9'`;
`decVal ds`: value of a digit string. `valP d = d₀ + d₁·P + … + d₄·P⁴` is the base-`p` positional value.
`wordsToBytes ws`: the little-endian bytes of a list of `u64` words. Parsers return `Option`; `none` is `Err(_)`.
serde forms are tied by correspondence only (external crates), no theorem here speaks about them.
-/
namespace TF.C20
open TF.Conv TF.Gen

/-! ### bytes -/

/-- `Digest → [u8; 40] → Digest` is the identity -/
theorem bytes_roundtrip {d : List Nat} (hd : WFd d) :
    digestFromBytes (digestToBytes d) = some d ∧ (digestToBytes d).length = 40 ∧ IsBytes (digestToBytes d) :=
  ⟨digestFromBytes_toBytes hd, digestToBytes_length hd.1, digestToBytes_isBytes d⟩
example : WFd [1, 2, 18446744069414584320, 0, 5] := by decide

/-- the byte parser is strict: it accepts a byte string exactly when it is *the* encoding of a digest -/
theorem bytes_strict {bs d : List Nat} (hb : IsBytes bs) :
    digestFromBytes bs = some d ↔ WFd d ∧ digestToBytes d = bs :=
  ⟨fun h => (digestFromBytes_some hb h).2, fun ⟨hd, e⟩ => e ▸ digestFromBytes_toBytes hd⟩

/-- rejection: any length other than 40, and any of the five little-endian words `≥ P` (no reduction) -/
theorem bytes_reject :
    (∀ bs : List Nat, bs.length ≠ 40 → digestFromBytes bs = none) ∧
    (∀ ws : List Nat, (∀ w ∈ ws, w < 2 ^ 64) → (∃ w ∈ ws, P ≤ w) → digestFromBytes (wordsToBytes ws) = none) := by
  refine ⟨fun bs h => by unfold digestFromBytes; rw [if_pos h], fun ws hw hbad => ?_⟩
  exact digestFromBytes_words_none (fun x hx => by have := hw x hx; norm_num at this ⊢; exact this) hbad
example : digestFromBytes (wordsToBytes [1, 2, 3, 4, 18446744069414584321]) = none := by decide
example : digestFromBytes (wordsToBytes [1, 2, 3, 4, 18446744069414584320]) = some [1, 2, 3, 4, 18446744069414584320] := by
  decide

/-! ### hex -/

/-- `to_hex` / `{:x}` / `{:X}` parse back to the digest -/
theorem hex_roundtrip {d : List Nat} (hd : WFd d) :
    digestFromHex (digestToHex d) = some d ∧ digestFromHex (digestToHexUpper d) = some d ∧
      (digestToHex d).length = 80 := by
  refine ⟨(digestFromHex_toHex hd).1, (digestFromHex_toHex hd).2, ?_⟩
  unfold digestToHex; rw [hexEncode_length, digestToBytes_length hd.1]

/-- the hex parser is strict: exactly the 80-character hex strings that decode to the byte encoding of a digest -/
theorem hex_strict {s : List Char} {d : List Nat} :
    digestFromHex s = some d ↔ WFd d ∧ hexDecode s = some (digestToBytes d) := by
  constructor
  · intro h; exact ⟨(digestFromHex_some h).2.2.1, (digestFromHex_some h).2.2.2⟩
  · rintro ⟨hd, e⟩
    unfold digestFromHex
    rw [e, Option.bind_some, digestFromBytes_toBytes hd]

/-- rejection: wrong length (odd, short, long), any non-hex character, any encoded word `≥ P` -/
theorem hex_reject :
    (∀ s : List Char, s.length ≠ 80 → digestFromHex s = none) ∧
    (∀ s : List Char, (∃ c ∈ s, hexVal c = none) → digestFromHex s = none) ∧
    (∀ ws : List Nat, (∀ w ∈ ws, w < 2 ^ 64) → (∃ w ∈ ws, P ≤ w) →
      digestFromHex (hexEncode (wordsToBytes ws)) = none) := by
  refine ⟨fun s hl => ?_, fun s hc => ?_, fun ws hw hbad => ?_⟩
  · cases h : digestFromHex s with
    | none => rfl
    | some d => exact absurd (digestFromHex_some h).1 hl
  · cases h : digestFromHex s with
    | none => rfl
    | some d =>
      obtain ⟨c, hcm, hcv⟩ := hc
      have := (digestFromHex_some h).2.1 c hcm
      rw [hcv] at this; cases this
  · have hb : IsBytes (wordsToBytes ws) := by
      intro b hb
      unfold wordsToBytes at hb
      obtain ⟨c, hc, hbc⟩ := List.mem_flatten.mp hb
      obtain ⟨v, _, rfl⟩ := List.mem_map.mp hc
      exact leBytes_isBytes 8 v b hbc
    unfold digestFromHex
    rw [hexDecode_encode hb, Option.bind_some]
    exact bytes_reject.2 ws hw hbad
example : hexVal 'g' = none ∧ hexVal 'F' = some 15 ∧ hexVal 'f' = some 15 := by decide

/-! ### decimal strings -/

/-- `to_string` (comma-separated canonical decimal values) parses back to the digest -/
theorem string_roundtrip {d : List Nat} (hd : WFd d) : digestFromStr (digestToString d) = some d :=
  digestFromStr_toString hd
example : digestToString [18446744069414584320, 0, 7, 0, 0]
    = ['1','8','4','4','6','7','4','4','0','6','9','4','1','4','5','8','4','3','2','0',',','0',',','7',',','0',',','0'] := by
  decide

/-- what `u64::from_str` accepts (as observed by this code): an optional `+`, then one or more ASCII digits and
    nothing else, of value at most `u64::MAX` -/
theorem u64_from_str_spec (s : List Char) (v : Nat) :
    parseU64 s = some v ↔
      ∃ ds, (s = ds ∨ s = '+' :: ds) ∧ ds ≠ [] ∧ (∀ c ∈ ds, IsDigit c) ∧ v = decVal ds ∧ v ≤ U64MAX :=
  parseU64_some_iff s v
example : parseU64 ['+', '0', '7'] = some 7 ∧ parseU64 ['-', '7'] = none ∧ parseU64 ['+'] = none ∧ parseU64 [] = none
    ∧ parseU64 [' ', '7'] = none := by decide

/-- the string parser is strict: exactly five comma-separated items, item `i` a decimal numeral of `dᵢ < P`
    (never reduced) -/
theorem string_strict {s : List Char} {d : List Nat} :
    digestFromStr s = some d ↔
      d.length = 5 ∧ List.Forall₂ (fun t v => v < P ∧ parseU64 t = some v) (splitComma s) d := by
  have hb : ∀ t v, bfeFromStr t = some v ↔ (v < P ∧ parseU64 t = some v) := by
    intro t v
    unfold bfeFromStr bfeTryNew
    cases parseU64 t with
    | none => simp
    | some w =>
      rw [Option.bind_some]
      by_cases hw : w < P
      · rw [if_pos hw]; constructor
        · intro e; cases e; exact ⟨hw, rfl⟩
        · rintro ⟨_, e⟩; cases e; rfl
      · rw [if_neg hw]; constructor
        · intro e; cases e
        · rintro ⟨h1, e⟩; cases e; exact absurd h1 hw
  unfold digestFromStr
  have hf : List.Forall₂ (fun t v => v < P ∧ parseU64 t = some v) (splitComma s) d ↔
      List.Forall₂ (fun t v => bfeFromStr t = some v) (splitComma s) d := by
    constructor <;> intro h <;> exact h.imp (fun _ _ hh => by first | exact (hb _ _).mpr hh | exact (hb _ _).mp hh)
  rw [hf, ← mapM_eq_some_iff_forall₂]
  cases hm : (splitComma s).mapM bfeFromStr with
  | none => simp
  | some l =>
    rw [Option.bind_some]
    by_cases hl : l.length = 5
    · rw [if_pos hl]; constructor
      · intro e; cases e; exact ⟨hl, rfl⟩
      · rintro ⟨_, e⟩; cases e; rfl
    · rw [if_neg hl]; constructor
      · intro e; cases e
      · rintro ⟨h1, e⟩; cases e; exact absurd h1 hl

/-- rejection: item count other than five; an item of value `≥ P`; an item that is not `+?digits` -/
theorem string_reject (s : List Char) :
    ((splitComma s).length ≠ 5 → digestFromStr s = none) ∧
    (∀ t ∈ splitComma s, ∀ v, parseU64 t = some v → P ≤ v → digestFromStr s = none) ∧
    (∀ t ∈ splitComma s, (¬ ∃ ds, (t = ds ∨ t = '+' :: ds) ∧ ds ≠ [] ∧ ∀ c ∈ ds, IsDigit c) →
      digestFromStr s = none) := by
  refine ⟨fun hl => ?_, fun t ht v hv hp => ?_, fun t ht hbad => ?_⟩
  · cases h : digestFromStr s with
    | none => rfl
    | some d =>
      obtain ⟨h5, hf⟩ := string_strict.mp h
      exact absurd (hf.length_eq.trans h5) hl
  · unfold digestFromStr
    rw [mapM_none_of_mem _ t ht (by unfold bfeFromStr bfeTryNew; rw [hv, Option.bind_some, if_neg (Nat.not_lt.mpr hp)])]
    rfl
  · unfold digestFromStr
    have : parseU64 t = none := by
      cases hp : parseU64 t with
      | none => rfl
      | some v =>
        obtain ⟨ds, h1, h2, h3, _⟩ := (parseU64_some_iff t v).mp hp
        exact absurd ⟨ds, h1, h2, h3⟩ hbad
    rw [mapM_none_of_mem _ t ht (by unfold bfeFromStr; rw [this]; rfl)]
    rfl
example : digestFromStr ['1', ',', '2', ',', '3', ',', '4', ',', '5'] = some [1, 2, 3, 4, 5]
    ∧ digestFromStr ['1', ',', '2', ',', '3', ',', '4'] = none
    ∧ digestFromStr ['-', '1', ',', '2', ',', '3', ',', '4', ',', '5'] = none := by decide

/-! ### big integers and order -/

/-- `Digest → BigUint` is the base-`p` positional value; converting back is the identity -/
theorem biguint_roundtrip {d : List Nat} (hd : WFd d) :
    digestToNat d = valP d ∧ digestToNat d < P ^ 5 ∧ digestFromNat (digestToNat d) = some d := by
  have hlt := valP_lt 5 d hd.1 hd.2
  refine ⟨digestToNat_eq_valP d, by rw [digestToNat_eq_valP]; exact hlt, ?_⟩
  rw [digestToNat_eq_valP, digestFromNat_eq, if_pos hlt, ofNatP_valP 5 d hd.1 hd.2]

/-- `TryFrom<BigUint>` accepts exactly the integers below `P⁵`, each as the digest of that value (no truncation) -/
theorem biguint_reject (v : Nat) :
    digestFromNat v = (if v < P ^ 5 then some (ofNatP 5 v) else none) ∧
    (v < P ^ 5 → WFd (ofNatP 5 v) ∧ valP (ofNatP 5 v) = v) :=
  ⟨digestFromNat_eq v, fun h => ⟨ofNatP_wf 5 v, by rw [valP_ofNatP, Nat.mod_eq_of_lt h]⟩⟩
example : digestFromNat (P ^ 5) = none ∧ digestFromNat (P ^ 5 - 1) = some [P - 1, P - 1, P - 1, P - 1, P - 1] := by
  decide

/-- the digest order (`Ord`, last element most significant) is the numeric order of the big-integer values -/
theorem biguint_order {d₁ d₂ : List Nat} (h₁ : WFd d₁) (h₂ : WFd d₂) :
    digestCmp d₁ d₂ = compare (digestToNat d₁) (digestToNat d₂) ∧
    (digestCmp d₁ d₂ = .lt ↔ digestToNat d₁ < digestToNat d₂) := by
  have h := digestCmp_eq_compare d₁ d₂ (h₁.1.trans h₂.1.symm) h₁.2 h₂.2
  rw [digestToNat_eq_valP, digestToNat_eq_valP]
  exact ⟨h, by rw [h]; exact Nat.compare_eq_lt⟩
example : digestCmp [P - 1, P - 1, P - 1, P - 1, 0] [0, 0, 0, 0, 1] = .lt := by decide

/-! ### base-field elements -/

/-- bytes: round trip, and the parser accepts exactly the 8-byte little-endian encodings of values `< P` -/
theorem bfe_bytes {v : Nat} (hv : v < P) :
    bfeFromBytes (bfeToBytes v) = some v ∧
    (∀ bs w, IsBytes bs → (bfeFromBytes bs = some w ↔ w < P ∧ bfeToBytes w = bs)) :=
  ⟨bfeFromBytes_toBytes hv, fun bs w hb =>
    ⟨fun h => ⟨(bfeFromBytes_some hb h).2, (bfeFromBytes_some hb h).1⟩, fun ⟨h1, h2⟩ => h2 ▸ bfeFromBytes_toBytes h1⟩⟩
example : bfeFromBytes (leBytes 8 18446744069414584321) = none ∧ bfeFromBytes [1, 0, 0, 0, 0, 0, 0] = none := by decide

/-- canonical decimal string: round trip, and the parser accepts exactly `+?digits` of value `< P` (never reduced) -/
theorem bfe_str {v : Nat} (hv : v < P) :
    bfeFromStr (toDecimal v) = some v ∧
    (∀ t w, bfeFromStr t = some w ↔ w < P ∧ parseU64 t = some w) := by
  refine ⟨bfeFromStr_toDecimal hv, fun t w => ?_⟩
  unfold bfeFromStr bfeTryNew
  cases parseU64 t with
  | none => simp
  | some u =>
    rw [Option.bind_some]
    by_cases hu : u < P
    · rw [if_pos hu]; constructor
      · intro e; cases e; exact ⟨hu, rfl⟩
      · rintro ⟨_, e⟩; cases e; rfl
    · rw [if_neg hu]; constructor
      · intro e; cases e
      · rintro ⟨h1, e⟩; cases e; exact absurd h1 hu
example : bfeFromStr (toDecimal 18446744069414584320) = some 18446744069414584320
    ∧ bfeFromStr (toDecimal 18446744069414584321) = none := by decide

/-! ### extension-field elements -/

/-- the embedding `XFieldElement → Digest` is invertible exactly on digests whose last two elements are zero -/
theorem xfe_digest_embedding (d : List Nat) (hd : WFd d) (x : Nat × Nat × Nat) :
    xfeFromDigest (xfeToDigest x) = some x ∧
    (xfeFromDigest d = some x ↔ d = xfeToDigest x) ∧
    ((xfeFromDigest d).isSome ↔ d[3]? = some 0 ∧ d[4]? = some 0) := by
  obtain ⟨a, b, c⟩ := x
  refine ⟨rfl, ?_, ?_⟩
  all_goals
    match d, hd with
    | [c0, c1, c2, z0, z1], _ =>
      by_cases h0 : z0 = 0 <;> by_cases h1 : z1 = 0 <;> simp [xfeFromDigest, xfeToDigest, h0, h1]
    | [], h | [_], h | [_, _], h | [_, _, _], h | [_, _, _, _], h | _ :: _ :: _ :: _ :: _ :: _ :: _, h =>
      simp [WFd] at h
example : xfeFromDigest [1, 2, 3, 0, 1] = none ∧ xfeFromDigest [1, 2, 3, 0, 0] = some (1, 2, 3) := by decide

/-! ### accessors / constructors -/

/-- `Digest::reversed` reverses the five elements and is an involution; it keeps well-formedness -/
theorem reversed_spec {d : List Nat} (h : WFd d) :
    digestReversed d = some d.reverse ∧ digestReversed d.reverse = some d ∧ WFd d.reverse := by
  match d, h with
  | [d0, d1, d2, d3, d4], h =>
    refine ⟨rfl, rfl, ?_⟩
    simp only [WFd, List.reverse_cons, List.reverse_nil, List.nil_append, List.cons_append, List.length_cons,
      List.length_nil, List.mem_cons, List.not_mem_nil, or_false, forall_eq_or_imp, forall_eq] at h ⊢
    tauto
  | [], h | [_], h | [_, _], h | [_, _, _], h | [_, _, _, _], h | _ :: _ :: _ :: _ :: _ :: _ :: _, h =>
    simp [WFd] at h
example : digestReversed [1, 2, 3, 4, 5] = some [5, 4, 3, 2, 1] := by decide

/-- `Default` / `ALL_ZERO` is the well-formed all-zero digest, its big-integer value is 0, and it is the least digest;
    `From<Digest> for Vec` followed by `TryFrom<Vec>` is the identity; `BYTES = 40` -/
theorem default_and_vec_spec {d : List Nat} (h : WFd d) :
    WFd digestDefault ∧ digestToNat digestDefault = 0 ∧ digestCmp digestDefault d ≠ .gt ∧
    digestFromVec (digestToVec d) = some d ∧ digestBytesConst = 40 := by
  have hw : WFd digestDefault := by decide
  refine ⟨hw, by decide, ?_, ?_, by decide⟩
  · rw [(biguint_order hw h).1, show digestToNat digestDefault = 0 by decide]
    intro hgt
    rw [Nat.compare_eq_gt] at hgt
    omega
  · unfold digestFromVec digestToVec; rw [if_pos h.1]
example : WFd [P - 1, 0, 0, 0, 1] := by decide

end TF.C20

/-! ## regenerated-from-source bridge (BT5)

The conversions of `digest.rs`, `b_field_element.rs` and `x_field_element.rs` are **also regenerated from the source on
every run** (`TF/Gen/ConvLoops.lean`, `TF.Gen.Loops.conv_*`, written by `tools/rs2lean_conv.py`): `try_new` (through the
translated `is_canonical`), `TryFrom<[u8; 8]>` / `TryFrom<&[u8]>` / `From<_> for [u8; 8]` of `BFieldElement`,
`From<Digest> for [u8; 40]`, `TryFrom<[u8; 40]>` / `TryFrom<&[u8]>` / `TryFrom<BigUint>` for `Digest`, `From<Digest> for
BigUint`, `Ord`/`PartialOrd for Digest`, `Digest::{new, values, reversed}`, `From<XFieldElement> for Digest`,
`TryFrom<Digest> for XFieldElement`.  The regenerated code works on *raw Montgomery words* (a `BFieldElement` is its
`u64`; `new`/`value` are the translated `bfe_new`/`bfe_value` of C01), `Result<T, E>` is `Except String T` (the error is
the variant's name), every function `f` has a twin `f_ok` (true iff nothing panics).  `vals r = r.map bfe_value` reads the
canonical values of a list of words, `toOpt` forgets the error kind, `Raw r`: all words `< P`.  Proofs:
`TF/Proofs/GenBridgeConv.lean`.  A one-token change of one of these Rust functions changes `TF.Gen.Loops.conv_*`; the
theorems below are then re-checked or break. -/
namespace TF.C20
open TF.Conv TF.Gen TF.GenBridge.Conv

/-- regenerated element conversions = hand model: `try_new` accepts exactly the values `< P` (never reduces); byte
    array / byte slice parsers; the byte encoding; none of them can panic -/
theorem gen_bfe_conversions_eq_model (v : Nat) (bs : List Nat) (r : Nat) :
    (Loops.conv_bfe_try_new v = if v < P then .ok (bfe_new v) else .error "NotCanonical") ∧
    (toOpt (Loops.conv_bfe_try_new v)).map bfe_value = bfeTryNew v ∧ Loops.conv_bfe_try_new_ok v = true ∧
    (toOpt (Loops.conv_bfe_try_from_array bs)).map bfe_value = bfeTryNew (TF.Conv.ofLeBytes bs) ∧
    (toOpt (Loops.conv_bfe_try_from_slice bs)).map bfe_value = bfeFromBytes bs ∧
    Loops.conv_bfe_try_from_slice_ok bs = true ∧
    Loops.conv_bfe_to_bytes r = bfeToBytes (bfe_value r) ∧ Loops.conv_bfe_to_bytes_ok r = true :=
  ⟨gen_try_new v, gen_try_new_model v, gen_try_new_ok v, (gen_bfe_try_from_array bs).1, (gen_bfe_try_from_slice bs).1,
    (gen_bfe_try_from_slice bs).2, (gen_bfe_to_bytes r).1, (gen_bfe_to_bytes r).2⟩
example : Loops.conv_bfe_try_new 18446744069414584320 = .ok (bfe_new 18446744069414584320) ∧
    Loops.conv_bfe_try_new 18446744069414584321 = .error "NotCanonical" ∧
    Loops.conv_bfe_try_from_slice [1, 0, 0, 0, 0, 0, 0] = .error "InvalidNumBytes" ∧
    Loops.conv_bfe_try_from_slice [1, 0, 0, 0, 255, 255, 255, 255] = .error "NotCanonical" ∧
    Loops.conv_bfe_to_bytes (bfe_new 258) = [2, 1, 0, 0, 0, 0, 0, 0] := by decide +kernel

/-- regenerated `From<Digest> for [u8; 40]`, `TryFrom<[u8; 40]> for Digest`, `TryFrom<&[u8]> for Digest` = hand model (any
    five words; any byte list); no `unwrap()` in them can fail -/
theorem gen_digest_bytes_eq_model (r bs : List Nat) (hr : r.length = 5) :
    Loops.conv_digest_to_bytes r = digestToBytes (vals r) ∧ Loops.conv_digest_to_bytes_ok r = true ∧
    (bs.length = 40 → (toOpt (Loops.conv_digest_try_from_array bs)).map vals = digestFromByteArray bs ∧
      Loops.conv_digest_try_from_array_ok bs = true) ∧
    (toOpt (Loops.conv_digest_try_from_slice bs)).map vals = digestFromBytes bs ∧
    Loops.conv_digest_try_from_slice_ok bs = true :=
  ⟨(gen_digest_to_bytes r hr).1, (gen_digest_to_bytes r hr).2, gen_digest_try_from_array bs,
    (gen_digest_try_from_slice bs).1, (gen_digest_try_from_slice bs).2⟩
example : Loops.conv_digest_try_from_slice (wordsToBytes [1, 2, 3, 4, 18446744069414584321]) = .error "InvalidBFieldElement" ∧
    Loops.conv_digest_try_from_slice (wordsToBytes [1, 2, 3, 4]) = .error "InvalidLength" ∧
    (toOpt (Loops.conv_digest_try_from_slice (wordsToBytes [1, 2, 3, 4, 18446744069414584320]))).map vals
      = some [1, 2, 3, 4, 18446744069414584320] := by decide +kernel

/-- regenerated `TryFrom<BigUint> for Digest` (the `iter_mut` loop, the `u64::try_from(..).unwrap()`, the overflow check)
    and `From<Digest> for BigUint` (the reversed Horner loop) = hand model -/
theorem gen_digest_biguint_eq_model (v : Nat) (r : List Nat) (hr : r.length = 5) :
    (toOpt (Loops.conv_digest_try_from_biguint v)).map vals = digestFromNat v ∧
    Loops.conv_digest_try_from_biguint_ok v = true ∧
    Loops.conv_digest_to_biguint r = digestToNat (vals r) ∧ Loops.conv_digest_to_biguint_ok r = true := by
  obtain ⟨a, b, c, d, e, rfl⟩ := len5 hr
  exact ⟨(gen_digest_try_from_biguint v).1, (gen_digest_try_from_biguint v).2, (gen_digest_to_biguint a b c d e).1,
    (gen_digest_to_biguint a b c d e).2⟩
example : Loops.conv_digest_try_from_biguint (P ^ 5) = .error "Overflow" ∧
    (toOpt (Loops.conv_digest_try_from_biguint (P ^ 5 - 1))).map vals = some [P - 1, P - 1, P - 1, P - 1, P - 1] ∧
    Loops.conv_digest_to_biguint [bfe_new 1, bfe_new 0, bfe_new 0, bfe_new 0, bfe_new 2] = 1 + 2 * P ^ 4 := by
  decide +kernel

/-- regenerated `Ord` / `PartialOrd for Digest`, `reversed`, `From<XFieldElement> for Digest`,
    `TryFrom<Digest> for XFieldElement` = hand model -/
theorem gen_digest_cmp_reversed_xfe_eq_model (r₁ r₂ : List Nat) (a b c d e : Nat) (hd : d < P) (he : e < P) :
    Loops.conv_digest_cmp r₁ r₂ = digestCmp (vals r₁) (vals r₂) ∧ Loops.conv_digest_cmp_ok r₁ r₂ = true ∧
    Loops.conv_digest_partial_cmp r₁ r₂ = some (digestCmp (vals r₁) (vals r₂)) ∧
    digestReversed (vals [a, b, c, d, e]) = some (vals (Loops.conv_digest_reversed [a, b, c, d, e])) ∧
    vals (Loops.conv_xfe_to_digest [a, b, c]) = xfeToDigest (bfe_value a, bfe_value b, bfe_value c) ∧
    (toOpt (Loops.conv_xfe_try_from_digest [a, b, c, d, e])).map
        (fun l => (bfe_value (l.getD 0 0), bfe_value (l.getD 1 0), bfe_value (l.getD 2 0)))
      = xfeFromDigest (vals [a, b, c, d, e]) ∧
    Loops.conv_xfe_try_from_digest_ok [a, b, c, d, e] = true :=
  ⟨(gen_digest_cmp r₁ r₂).1, (gen_digest_cmp r₁ r₂).2.1, (gen_digest_cmp r₁ r₂).2.2, (gen_digest_reversed a b c d e).1,
    (gen_xfe_to_digest a b c).1, (gen_xfe_try_from_digest a b c d e hd he).1, (gen_xfe_try_from_digest a b c d e hd he).2⟩
example : Loops.conv_digest_cmp [bfe_new 5, 0, 0, 0, bfe_new 1] [0, 0, 0, 0, bfe_new 2] = .lt ∧
    Loops.conv_xfe_try_from_digest [bfe_new 1, bfe_new 2, bfe_new 3, 0, bfe_new 1] = .error "InvalidDigest" ∧
    Loops.conv_xfe_try_from_digest [bfe_new 1, bfe_new 2, bfe_new 3, 0, 0] = .ok [bfe_new 1, bfe_new 2, bfe_new 3] := by
  decide +kernel

/-- **transfer**: the C20 statements for the code as it is in the source now.  For every digest of canonical words `r`:
    bytes round trip (`bytes_roundtrip`), every length other than 40 is rejected (`bytes_reject`), `TryFrom<BigUint>`
    accepts exactly the integers below `P⁵` with the exact digits (`biguint_reject`), `From<Digest> for BigUint` is the
    base-`P` value and converts back (`biguint_roundtrip`), `Ord` is the numeric order of these values (`biguint_order`) -/
theorem gen_conv_transfer {r₁ r₂ : List Nat} (h₁ : r₁.length = 5) (h₂ : r₂.length = 5) (w₁ : Raw r₁) (w₂ : Raw r₂) :
    (toOpt (Loops.conv_digest_try_from_slice (Loops.conv_digest_to_bytes r₁))).map vals = some (vals r₁) ∧
    (∀ bs : List Nat, bs.length ≠ 40 → toOpt (Loops.conv_digest_try_from_slice bs) = none) ∧
    (∀ v, (toOpt (Loops.conv_digest_try_from_biguint v)).map vals = if v < P ^ 5 then some (ofNatP 5 v) else none) ∧
    Loops.conv_digest_to_biguint r₁ = valP (vals r₁) ∧
    (toOpt (Loops.conv_digest_try_from_biguint (Loops.conv_digest_to_biguint r₁))).map vals = some (vals r₁) ∧
    Loops.conv_digest_cmp r₁ r₂ = compare (Loops.conv_digest_to_biguint r₁) (Loops.conv_digest_to_biguint r₂) := by
  have wf₁ := wfd_vals h₁ w₁
  have wf₂ := wfd_vals h₂ w₂
  have hb₁ := (gen_digest_biguint_eq_model 0 r₁ h₁).2.2.1
  have hb₂ := (gen_digest_biguint_eq_model 0 r₂ h₂).2.2.1
  refine ⟨?_, fun bs hl => ?_, fun v => ?_, ?_, ?_, ?_⟩
  · rw [(gen_digest_bytes_eq_model r₁ _ h₁).2.2.2.1, (gen_digest_bytes_eq_model r₁ [] h₁).1]
    exact (bytes_roundtrip wf₁).1
  · exact toOpt_none_of_map (f := vals) (by rw [(gen_digest_try_from_slice bs).1]; exact bytes_reject.1 bs hl)
  · rw [(gen_digest_try_from_biguint v).1]; exact (biguint_reject v).1
  · rw [hb₁]; exact (biguint_roundtrip wf₁).1
  · rw [(gen_digest_try_from_biguint _).1, hb₁]; exact (biguint_roundtrip wf₁).2.2
  · rw [(gen_digest_cmp r₁ r₂).1, hb₁, hb₂]; exact (biguint_order wf₁ wf₂).1
example : Raw [bfe_new 7, 0, 0, 0, bfe_new 1] ∧ [bfe_new 7, 0, 0, 0, bfe_new 1].length = 5 := by decide +kernel

end TF.C20
