import TF.Proofs.Conv
/-!
# C20 — Digest and element conversions are lossless, order-preserving and strict

Property theorems only (helper lemmas: `TF/Proofs/Conv.lean`; model: `TF/Model/Conv.lean`, hand-written after
`digest.rs`, `b_field_element.rs`, `x_field_element.rs` and tied to them by the correspondence family `conv`).

Notation. A field element is its canonical value; `WFd d`: `d` is a list of five values `< P` (a digest, element 0
first). Bytes are naturals, `IsBytes bs`: all `< 256`. Strings are `List Char`; `IsDigit c`: `'0' ≤ c ≤ '9'`;
`decVal ds`: value of a digit string. `valP d = d₀ + d₁·P + … + d₄·P⁴` is the base-`p` positional value.
`wordsToBytes ws`: the little-endian bytes of a list of `u64` words. Parsers return `Option`; `none` is `Err(_)`.
serde forms are tied by correspondence only (external crates), no theorem here speaks about them.
-/
namespace TF.C20
open TF.Conv TF.Gen

/-! ### bytes -/

/-- `Digest → [u8; 40] → Digest` is the identity -/
theorem bytes_roundtrip {d : List Nat} (hd : WFd d) :
    digestFromBytes (digestToBytes d) = some d ∧ (digestToBytes d).length = 40 ∧ IsBytes (digestToBytes d) :=
  ⟨digestFromBytes_toBytes hd, digestToBytes_length hd.1, digestToBytes_isBytes d⟩
example : WFd [1, 2, 18446744069414584320, 0, 5] := by decide

/-- the byte parser is strict: it accepts a byte string exactly when it is *the* encoding of a digest -/
theorem bytes_strict {bs d : List Nat} (hb : IsBytes bs) :
    digestFromBytes bs = some d ↔ WFd d ∧ digestToBytes d = bs :=
  ⟨fun h => (digestFromBytes_some hb h).2, fun ⟨hd, e⟩ => e ▸ digestFromBytes_toBytes hd⟩

/-- rejection: any length other than 40, and any of the five little-endian words `≥ P` (no reduction) -/
theorem bytes_reject :
    (∀ bs : List Nat, bs.length ≠ 40 → digestFromBytes bs = none) ∧
    (∀ ws : List Nat, (∀ w ∈ ws, w < 2 ^ 64) → (∃ w ∈ ws, P ≤ w) → digestFromBytes (wordsToBytes ws) = none) := by
  refine ⟨fun bs h => by unfold digestFromBytes; rw [if_pos h], fun ws hw hbad => ?_⟩
  exact digestFromBytes_words_none (fun x hx => by have := hw x hx; norm_num at this ⊢; exact this) hbad
example : digestFromBytes (wordsToBytes [1, 2, 3, 4, 18446744069414584321]) = none := by decide
example : digestFromBytes (wordsToBytes [1, 2, 3, 4, 18446744069414584320]) = some [1, 2, 3, 4, 18446744069414584320] := by
  decide

/-! ### hex -/

/-- `to_hex` / `{:x}` / `{:X}` parse back to the digest -/
theorem hex_roundtrip {d : List Nat} (hd : WFd d) :
    digestFromHex (digestToHex d) = some d ∧ digestFromHex (digestToHexUpper d) = some d ∧
      (digestToHex d).length = 80 := by
  refine ⟨(digestFromHex_toHex hd).1, (digestFromHex_toHex hd).2, ?_⟩
  unfold digestToHex; rw [hexEncode_length, digestToBytes_length hd.1]

/-- the hex parser is strict: exactly the 80-character hex strings that decode to the byte encoding of a digest -/
theorem hex_strict {s : List Char} {d : List Nat} :
    digestFromHex s = some d ↔ WFd d ∧ hexDecode s = some (digestToBytes d) := by
  constructor
  · intro h; exact ⟨(digestFromHex_some h).2.2.1, (digestFromHex_some h).2.2.2⟩
  · rintro ⟨hd, e⟩
    unfold digestFromHex
    rw [e, Option.bind_some, digestFromBytes_toBytes hd]

/-- rejection: wrong length (odd, short, long), any non-hex character, any encoded word `≥ P` -/
theorem hex_reject :
    (∀ s : List Char, s.length ≠ 80 → digestFromHex s = none) ∧
    (∀ s : List Char, (∃ c ∈ s, hexVal c = none) → digestFromHex s = none) ∧
    (∀ ws : List Nat, (∀ w ∈ ws, w < 2 ^ 64) → (∃ w ∈ ws, P ≤ w) →
      digestFromHex (hexEncode (wordsToBytes ws)) = none) := by
  refine ⟨fun s hl => ?_, fun s hc => ?_, fun ws hw hbad => ?_⟩
  · cases h : digestFromHex s with
    | none => rfl
    | some d => exact absurd (digestFromHex_some h).1 hl
  · cases h : digestFromHex s with
    | none => rfl
    | some d =>
      obtain ⟨c, hcm, hcv⟩ := hc
      have := (digestFromHex_some h).2.1 c hcm
      rw [hcv] at this; cases this
  · have hb : IsBytes (wordsToBytes ws) := by
      intro b hb
      unfold wordsToBytes at hb
      obtain ⟨c, hc, hbc⟩ := List.mem_flatten.mp hb
      obtain ⟨v, _, rfl⟩ := List.mem_map.mp hc
      exact leBytes_isBytes 8 v b hbc
    unfold digestFromHex
    rw [hexDecode_encode hb, Option.bind_some]
    exact bytes_reject.2 ws hw hbad
example : hexVal 'g' = none ∧ hexVal 'F' = some 15 ∧ hexVal 'f' = some 15 := by decide

/-! ### decimal strings -/

/-- `to_string` (comma-separated canonical decimal values) parses back to the digest -/
theorem string_roundtrip {d : List Nat} (hd : WFd d) : digestFromStr (digestToString d) = some d :=
  digestFromStr_toString hd
example : digestToString [18446744069414584320, 0, 7, 0, 0]
    = ['1','8','4','4','6','7','4','4','0','6','9','4','1','4','5','8','4','3','2','0',',','0',',','7',',','0',',','0'] := by
  decide

/-- what `u64::from_str` accepts (as observed by this code): an optional `+`, then one or more ASCII digits and
    nothing else, of value at most `u64::MAX` -/
theorem u64_from_str_spec (s : List Char) (v : Nat) :
    parseU64 s = some v ↔
      ∃ ds, (s = ds ∨ s = '+' :: ds) ∧ ds ≠ [] ∧ (∀ c ∈ ds, IsDigit c) ∧ v = decVal ds ∧ v ≤ U64MAX :=
  parseU64_some_iff s v
example : parseU64 ['+', '0', '7'] = some 7 ∧ parseU64 ['-', '7'] = none ∧ parseU64 ['+'] = none ∧ parseU64 [] = none
    ∧ parseU64 [' ', '7'] = none := by decide

/-- the string parser is strict: exactly five comma-separated items, item `i` a decimal numeral of `dᵢ < P`
    (never reduced) -/
theorem string_strict {s : List Char} {d : List Nat} :
    digestFromStr s = some d ↔
      d.length = 5 ∧ List.Forall₂ (fun t v => v < P ∧ parseU64 t = some v) (splitComma s) d := by
  have hb : ∀ t v, bfeFromStr t = some v ↔ (v < P ∧ parseU64 t = some v) := by
    intro t v
    unfold bfeFromStr bfeTryNew
    cases parseU64 t with
    | none => simp
    | some w =>
      rw [Option.bind_some]
      by_cases hw : w < P
      · rw [if_pos hw]; constructor
        · intro e; cases e; exact ⟨hw, rfl⟩
        · rintro ⟨_, e⟩; cases e; rfl
      · rw [if_neg hw]; constructor
        · intro e; cases e
        · rintro ⟨h1, e⟩; cases e; exact absurd h1 hw
  unfold digestFromStr
  have hf : List.Forall₂ (fun t v => v < P ∧ parseU64 t = some v) (splitComma s) d ↔
      List.Forall₂ (fun t v => bfeFromStr t = some v) (splitComma s) d := by
    constructor <;> intro h <;> exact h.imp (fun _ _ hh => by first | exact (hb _ _).mpr hh | exact (hb _ _).mp hh)
  rw [hf, ← mapM_eq_some_iff_forall₂]
  cases hm : (splitComma s).mapM bfeFromStr with
  | none => simp
  | some l =>
    rw [Option.bind_some]
    by_cases hl : l.length = 5
    · rw [if_pos hl]; constructor
      · intro e; cases e; exact ⟨hl, rfl⟩
      · rintro ⟨_, e⟩; cases e; rfl
    · rw [if_neg hl]; constructor
      · intro e; cases e
      · rintro ⟨h1, e⟩; cases e; exact absurd h1 hl

/-- rejection: item count other than five; an item of value `≥ P`; an item that is not `+?digits` -/
theorem string_reject (s : List Char) :
    ((splitComma s).length ≠ 5 → digestFromStr s = none) ∧
    (∀ t ∈ splitComma s, ∀ v, parseU64 t = some v → P ≤ v → digestFromStr s = none) ∧
    (∀ t ∈ splitComma s, (¬ ∃ ds, (t = ds ∨ t = '+' :: ds) ∧ ds ≠ [] ∧ ∀ c ∈ ds, IsDigit c) →
      digestFromStr s = none) := by
  refine ⟨fun hl => ?_, fun t ht v hv hp => ?_, fun t ht hbad => ?_⟩
  · cases h : digestFromStr s with
    | none => rfl
    | some d =>
      obtain ⟨h5, hf⟩ := string_strict.mp h
      exact absurd (hf.length_eq.trans h5) hl
  · unfold digestFromStr
    rw [mapM_none_of_mem _ t ht (by unfold bfeFromStr bfeTryNew; rw [hv, Option.bind_some, if_neg (Nat.not_lt.mpr hp)])]
    rfl
  · unfold digestFromStr
    have : parseU64 t = none := by
      cases hp : parseU64 t with
      | none => rfl
      | some v =>
        obtain ⟨ds, h1, h2, h3, _⟩ := (parseU64_some_iff t v).mp hp
        exact absurd ⟨ds, h1, h2, h3⟩ hbad
    rw [mapM_none_of_mem _ t ht (by unfold bfeFromStr; rw [this]; rfl)]
    rfl
example : digestFromStr ['1', ',', '2', ',', '3', ',', '4', ',', '5'] = some [1, 2, 3, 4, 5]
    ∧ digestFromStr ['1', ',', '2', ',', '3', ',', '4'] = none
    ∧ digestFromStr ['-', '1', ',', '2', ',', '3', ',', '4', ',', '5'] = none := by decide

/-! ### big integers and order -/

/-- `Digest → BigUint` is the base-`p` positional value; converting back is the identity -/
theorem biguint_roundtrip {d : List Nat} (hd : WFd d) :
    digestToNat d = valP d ∧ digestToNat d < P ^ 5 ∧ digestFromNat (digestToNat d) = some d := by
  have hlt := valP_lt 5 d hd.1 hd.2
  refine ⟨digestToNat_eq_valP d, by rw [digestToNat_eq_valP]; exact hlt, ?_⟩
  rw [digestToNat_eq_valP, digestFromNat_eq, if_pos hlt, ofNatP_valP 5 d hd.1 hd.2]

/-- `TryFrom<BigUint>` accepts exactly the integers below `P⁵`, each as the digest of that value (no truncation) -/
theorem biguint_reject (v : Nat) :
    digestFromNat v = (if v < P ^ 5 then some (ofNatP 5 v) else none) ∧
    (v < P ^ 5 → WFd (ofNatP 5 v) ∧ valP (ofNatP 5 v) = v) :=
  ⟨digestFromNat_eq v, fun h => ⟨ofNatP_wf 5 v, by rw [valP_ofNatP, Nat.mod_eq_of_lt h]⟩⟩
example : digestFromNat (P ^ 5) = none ∧ digestFromNat (P ^ 5 - 1) = some [P - 1, P - 1, P - 1, P - 1, P - 1] := by
  decide

/-- the digest order (`Ord`, last element most significant) is the numeric order of the big-integer values -/
theorem biguint_order {d₁ d₂ : List Nat} (h₁ : WFd d₁) (h₂ : WFd d₂) :
    digestCmp d₁ d₂ = compare (digestToNat d₁) (digestToNat d₂) ∧
    (digestCmp d₁ d₂ = .lt ↔ digestToNat d₁ < digestToNat d₂) := by
  have h := digestCmp_eq_compare d₁ d₂ (h₁.1.trans h₂.1.symm) h₁.2 h₂.2
  rw [digestToNat_eq_valP, digestToNat_eq_valP]
  exact ⟨h, by rw [h]; exact Nat.compare_eq_lt⟩
example : digestCmp [P - 1, P - 1, P - 1, P - 1, 0] [0, 0, 0, 0, 1] = .lt := by decide

/-! ### base-field elements -/

/-- bytes: round trip, and the parser accepts exactly the 8-byte little-endian encodings of values `< P` -/
theorem bfe_bytes {v : Nat} (hv : v < P) :
    bfeFromBytes (bfeToBytes v) = some v ∧
    (∀ bs w, IsBytes bs → (bfeFromBytes bs = some w ↔ w < P ∧ bfeToBytes w = bs)) :=
  ⟨bfeFromBytes_toBytes hv, fun bs w hb =>
    ⟨fun h => ⟨(bfeFromBytes_some hb h).2, (bfeFromBytes_some hb h).1⟩, fun ⟨h1, h2⟩ => h2 ▸ bfeFromBytes_toBytes h1⟩⟩
example : bfeFromBytes (leBytes 8 18446744069414584321) = none ∧ bfeFromBytes [1, 0, 0, 0, 0, 0, 0] = none := by decide

/-- canonical decimal string: round trip, and the parser accepts exactly `+?digits` of value `< P` (never reduced) -/
theorem bfe_str {v : Nat} (hv : v < P) :
    bfeFromStr (toDecimal v) = some v ∧
    (∀ t w, bfeFromStr t = some w ↔ w < P ∧ parseU64 t = some w) := by
  refine ⟨bfeFromStr_toDecimal hv, fun t w => ?_⟩
  unfold bfeFromStr bfeTryNew
  cases parseU64 t with
  | none => simp
  | some u =>
    rw [Option.bind_some]
    by_cases hu : u < P
    · rw [if_pos hu]; constructor
      · intro e; cases e; exact ⟨hu, rfl⟩
      · rintro ⟨_, e⟩; cases e; rfl
    · rw [if_neg hu]; constructor
      · intro e; cases e
      · rintro ⟨h1, e⟩; cases e; exact absurd h1 hu
example : bfeFromStr (toDecimal 18446744069414584320) = some 18446744069414584320
    ∧ bfeFromStr (toDecimal 18446744069414584321) = none := by decide

/-! ### extension-field elements -/

/-- the embedding `XFieldElement → Digest` is invertible exactly on digests whose last two elements are zero -/
theorem xfe_digest_embedding (d : List Nat) (hd : WFd d) (x : Nat × Nat × Nat) :
    xfeFromDigest (xfeToDigest x) = some x ∧
    (xfeFromDigest d = some x ↔ d = xfeToDigest x) ∧
    ((xfeFromDigest d).isSome ↔ d[3]? = some 0 ∧ d[4]? = some 0) := by
  obtain ⟨a, b, c⟩ := x
  refine ⟨rfl, ?_, ?_⟩
  all_goals
    match d, hd with
    | [c0, c1, c2, z0, z1], _ =>
      by_cases h0 : z0 = 0 <;> by_cases h1 : z1 = 0 <;> simp [xfeFromDigest, xfeToDigest, h0, h1]
    | [], h | [_], h | [_, _], h | [_, _, _], h | [_, _, _, _], h | _ :: _ :: _ :: _ :: _ :: _ :: _, h =>
      simp [WFd] at h
example : xfeFromDigest [1, 2, 3, 0, 1] = none ∧ xfeFromDigest [1, 2, 3, 0, 0] = some (1, 2, 3) := by decide

/-! ### accessors / constructors -/

/-- `Digest::reversed` reverses the five elements and is an involution; it keeps well-formedness -/
theorem reversed_spec {d : List Nat} (h : WFd d) :
    digestReversed d = some d.reverse ∧ digestReversed d.reverse = some d ∧ WFd d.reverse := by
  match d, h with
  | [d0, d1, d2, d3, d4], h =>
    refine ⟨rfl, rfl, ?_⟩
    simp only [WFd, List.reverse_cons, List.reverse_nil, List.nil_append, List.cons_append, List.length_cons,
      List.length_nil, List.mem_cons, List.not_mem_nil, or_false, forall_eq_or_imp, forall_eq] at h ⊢
    tauto
  | [], h | [_], h | [_, _], h | [_, _, _], h | [_, _, _, _], h | _ :: _ :: _ :: _ :: _ :: _ :: _, h =>
    simp [WFd] at h
example : digestReversed [1, 2, 3, 4, 5] = some [5, 4, 3, 2, 1] := by decide

/-- `Default` / `ALL_ZERO` is the well-formed all-zero digest, its big-integer value is 0, and it is the least digest;
    `From<Digest> for Vec` followed by `TryFrom<Vec>` is the identity; `BYTES = 40` -/
theorem default_and_vec_spec {d : List Nat} (h : WFd d) :
    WFd digestDefault ∧ digestToNat digestDefault = 0 ∧ digestCmp digestDefault d ≠ .gt ∧
    digestFromVec (digestToVec d) = some d ∧ digestBytesConst = 40 := by
  have hw : WFd digestDefault := by decide
  refine ⟨hw, by decide, ?_, ?_, by decide⟩
  · rw [(biguint_order hw h).1, show digestToNat digestDefault = 0 by decide]
    intro hgt
    rw [Nat.compare_eq_gt] at hgt
    omega
  · unfold digestFromVec digestToVec; rw [if_pos h.1]
example : WFd [P - 1, 0, 0, 0, 1] := by decide

end TF.C20
