import TF.Model.Merkle
import TF.Spec.Merkle
/-! placeholder, theorems follow -/
namespace TF.C10
open TF.Merkle
theorem placeholder_total : True := trivial
end TF.C10
